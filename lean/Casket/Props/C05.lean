import Casket.Proofs.Policy
import Casket.Spec.PolicyHeader
import Casket.Proofs.Retry
import Casket.Generated.Proxy
/-
C05 — Load balancing finds an available backend whenever one exists (selection part).

Statements only; helper lemmas live in Casket/Proofs/Policy.lean.
`upstreamSelect` is the model of `staticUpstream.Select` (pool-of-one shortcut,
all-unavailable pre-check, then the configured policy), tied to the Go code by the
correspondence stream `c05.select`.  `PolicySpec.verdict` is the executable form of the
property that the model driver also applies to the *implementation's* answers.
-/
namespace Casket.Props.C05
open Casket.Policy Casket.PolicySpec

/-- Pools the Go arithmetic handles without wrap-around (`uint32(len(pool))`, `index+i`)
and in-flight counts that fit `int64`. Every real pool satisfies this. -/
def WellSized (p : Pool) : Prop := p.length ≤ 2147483648 ∧ ∀ h ∈ p, h.conns ≤ maxInt64

/-- Soundness: no policy ever returns an unavailable backend (any pool, any counter,
any key hash, any random stream). -/
theorem C05_sound (k : Kind) (p : Pool) (robin h : Nat) (rs : List Nat) :
    sound p (upstreamSelect k p robin h rs).1 = true := by
  unfold upstreamSelect
  split
  · rename_i h0
    by_cases ha : h0.avail = true <;> simp [ha, sound, availAt]
  · split
    · cases k <;> simp only [policySelect, sound]
      · cases hr : random p rs with
        | none => rfl
        | some j => exact random_sound hr
      · cases hr : leastConn p rs with
        | none => rfl
        | some j => exact leastConn_sound hr
      · cases hr : (roundRobin p robin).1 with
        | none => rfl
        | some j =>
          unfold roundRobin at hr; rw [rrGo_eq_probe] at hr
          exact (probe_sound hr).2
      · cases hr : first p with
        | none => rfl
        | some j => exact (probe_sound hr).2
      · cases hr : hostByHashing p h with
        | none => rfl
        | some j => exact (probe_sound hr).2
    · simp [sound]

/-- Completeness: whenever some backend is available every policy returns one —
for every pool size (not only powers of two), every round-robin counter value
(including the uint32 wrap), every key and every random stream. -/
theorem C05_complete (k : Kind) (p : Pool) (robin h : Nat) (rs : List Nat) (hw : WellSized p)
    (hav : p.any Host.avail = true) : (upstreamSelect k p robin h rs).1.isSome = true := by
  obtain ⟨i, hi⟩ := (any_avail_iff p).mp hav
  have hlt := availAt_lt hi
  have h32 : two32 = 4294967296 := rfl
  unfold upstreamSelect
  split
  · rename_i h0
    have : i = 0 := by simp at hlt; exact hlt
    subst this
    have : h0.avail = true := by simpa [availAt] using hi
    simp [this]
  · simp only [hav, if_true]
    cases k <;> simp only [policySelect]
    · exact random_complete hav
    · exact leastConn_complete hw.2 hav
    · unfold roundRobin; rw [rrGo_eq_probe]
      exact probe_complete ⟨i, mem_rrSeq (by omega) (by have := hw.1; omega) hlt, hi⟩
    · exact probe_complete ⟨i, List.mem_range.mpr hlt, hi⟩
    · exact probe_complete ⟨i, mem_hashSeq hw.1 hlt, hi⟩

/-- `first` picks the earliest available backend. -/
theorem C05_first_earliest (p : Pool) (robin h : Nat) (rs : List Nat) :
    earliest p (upstreamSelect .first p robin h rs).1 = true := by
  have key : ∀ q : Pool, earliest q (first q) = true := by
    intro q
    unfold earliest
    cases hr : first q with
    | none => rfl
    | some j =>
      obtain ⟨pre, post, hpp, hpre⟩ := probe_first hr
      rw [List.all_eq_true]
      intro x hx
      have hxj : x < j := List.mem_range.mp hx
      -- range n = pre ++ j :: post and range is sorted ⇒ pre = range j
      have hlen : pre.length = j := by
        have h1 : (List.range q.length)[pre.length]? = some j := by rw [hpp]; simp
        have hlt : pre.length < (List.range q.length).length := by rw [hpp]; simp
        rw [List.getElem?_eq_getElem hlt, List.getElem_range] at h1
        exact Option.some.inj h1
      have hxpre : x ∈ pre := by
        have hx2 : (List.range q.length)[x]? = some x := by
          have : x < (List.range q.length).length := by rw [hpp]; simp; omega
          rw [List.getElem?_eq_getElem this, List.getElem_range]
        rw [hpp, List.getElem?_append_left (by omega)] at hx2
        exact List.mem_of_getElem? hx2
      simp [hpre x hxpre]
  unfold upstreamSelect
  split
  · rename_i h0
    by_cases ha : h0.avail = true <;> simp [ha, earliest]
  · split
    · exact key p
    · rfl

/-- `least_conn` picks a backend with the fewest in-flight requests among the available ones. -/
theorem C05_leastconn_minimal (p : Pool) (robin h : Nat) (rs : List Nat) (hw : WellSized p) :
    leastLoaded p (upstreamSelect .leastConn p robin h rs).1 = true := by
  have key : leastLoaded p (leastConn p rs) = true := by
    unfold leastLoaded
    cases hr : leastConn p rs with
    | none => rfl
    | some j =>
      rw [List.all_eq_true]
      intro k _
      by_cases hk : availAt p k = true
      · have := leastConn_minimal hw.2 hr k hk
        simp [hk, this]
      · simp [hk]
  unfold upstreamSelect
  split
  · rename_i h0
    by_cases ha : h0.avail = true
    · simp [ha, leastLoaded, availAt, connsAt]
    · simp [ha, leastLoaded]
  · split
    · exact key
    · rfl

/-- The whole judged predicate: the model's answer always gets the verdict "ok".
(The same `verdict` is applied by the driver to the implementation's answers.) -/
theorem C05_model_verdict_ok (k : Kind) (p : Pool) (robin h : Nat) (rs : List Nat) (hw : WellSized p) :
    verdict k p (upstreamSelect k p robin h rs).1 = "ok" := by
  have hs := C05_sound k p robin h rs
  have hc : complete p (upstreamSelect k p robin h rs).1 = true := by
    unfold complete
    by_cases hav : p.any Host.avail = true
    · simp [C05_complete k p robin h rs hw hav]
    · simp [hav]
  unfold verdict
  simp only [hs, hc, Bool.not_true, Bool.false_eq_true, if_false]
  cases k <;> simp [C05_first_earliest, C05_leastconn_minimal p robin h rs hw]

/-- Hash policies are sticky: the choice depends only on the key hash and on which
backends are available — same key, same availability ⇒ same backend. -/
theorem C05_hash_sticky (p q : Pool) (h : Nat) (hlen : p.length = q.length)
    (hsame : ∀ i, availAt p i = availAt q i) : hostByHashing p h = hostByHashing q h := by
  unfold hostByHashing; rw [hlen]; exact probe_congr _ hsame

/-- …and the backend chosen for a key is the first available one at or after the key's slot. -/
theorem C05_hash_home_slot (p : Pool) (h : Nat) (hn : p.length ≤ 2147483648)
    (hhome : availAt p (h % p.length) = true) : hostByHashing p h = some (h % p.length) := by
  have hpos : 0 < p.length := by have := availAt_lt hhome; omega
  obtain ⟨m, hm⟩ : ∃ m, p.length = m + 1 := ⟨p.length - 1, by omega⟩
  have h32 : two32 = 4294967296 := rfl
  unfold hostByHashing hashSeq
  rw [hm, List.range_succ_eq_map, List.map_cons, probe]
  have e : (h % (m + 1) + 0) % two32 % (m + 1) = h % (m + 1) := by
    have := Nat.mod_lt h (show 0 < m + 1 by omega)
    rw [Nat.add_zero, Nat.mod_eq_of_lt (show h % (m + 1) < two32 by omega), Nat.mod_mod]
  rw [e]
  rw [hm] at hhome
  simp [hhome]

/-- round_robin is even: when every backend is available, `n` consecutive picks from any
counter value visit every backend (and the counter always names the backend just picked). -/
def rrPicks (p : Pool) : Nat → Nat → List Nat
  | _, 0 => []
  | robin, k + 1 =>
    match roundRobin p robin with
    | (some i, r') => i :: rrPicks p r' k
    | (none, r') => rrPicks p r' k

theorem C05_rr_even (p : Pool) (robin : Nat) (hn : p.length < 4294967296)
    (hall : ∀ i < p.length, availAt p i = true) :
    ∀ j < p.length, j ∈ rrPicks p robin p.length := by
  have hstep : ∀ r, 0 < p.length → roundRobin p r = (some (rrNext r p.length), rrNext r p.length) := by
    intro r hpos
    obtain ⟨m, hm⟩ : ∃ m, p.length = m + 1 := ⟨p.length - 1, by omega⟩
    unfold roundRobin
    rw [hm]
    unfold rrGo
    rw [← hm]
    simp [hall _ (rrNext_lt hpos)]
  have hpicks : ∀ k r, 0 < p.length → rrPicks p r k = rrSeq p.length r k := by
    intro k
    induction k with
    | zero => intro r _; rfl
    | succ k ih => intro r hpos; unfold rrPicks rrSeq; rw [hstep r hpos]; simp [ih _ hpos]
  intro j hj
  have hpos : 0 < p.length := by omega
  rw [hpicks _ _ hpos]
  exact mem_rrSeq hpos (by simpa [two32] using hn) hj

/-- Sequences of selections on one upstream (stream `c05.seq`): whatever the states the pool
goes through between calls and wherever the counter starts, every single selection of the
sequence satisfies the judged property — a backend that recovers is selectable again. -/
def selectSeq (k : Kind) : List (Pool × Nat × List Nat) → Nat → List (Pool × Option Nat)
  | [], _ => []
  | (p, h, rs) :: rest, robin =>
    let r := upstreamSelect k p robin h rs
    (p, r.1) :: selectSeq k rest r.2

theorem C05_seq_all_ok (k : Kind) (steps : List (Pool × Nat × List Nat)) (robin : Nat)
    (hw : ∀ s ∈ steps, WellSized s.1) :
    ∀ po ∈ selectSeq k steps robin, verdict k po.1 po.2 = "ok" := by
  induction steps generalizing robin with
  | nil => intro po h; simp [selectSeq] at h
  | cons s rest ih =>
    obtain ⟨p, h, rs⟩ := s
    intro po hpo
    simp only [selectSeq, List.mem_cons] at hpo
    rcases hpo with rfl | hpo
    · exact C05_model_verdict_ok k p robin h rs (hw (p, h, rs) (by simp))
    · exact ih _ (fun s hs => hw s (by simp [hs])) po hpo

/-! ### `policy header <names…>`: the key of a real request (stream `c05.hdr`)

`headerUpstreamSelect` models `Header.Select` behind `staticUpstream.Select` for requests parsed by net/http: the
configured names are kept as written, the request's names were canonicalised, `Header.Get` meets them ignoring case
and reads the first line of a header sent on several lines. -/

theorem verdict_hash_eq_rr (p : Pool) (o : Option Nat) : verdict .hash p o = verdict .roundRobin p o := by
  unfold verdict; simp

theorem upstreamSelect_hash_fst (p : Pool) (r1 r2 h : Nat) :
    (upstreamSelect .hash p r1 h []).1 = (upstreamSelect .hash p r2 h []).1 := by
  unfold upstreamSelect
  split
  · rfl
  · split <;> rfl

/-- the spelling of the configured names does not matter: names equal up to ASCII case read the same key from every
request (`x-session-id`, `X-SESSION-ID` and `X-Session-Id` are one policy). -/
theorem C05_header_name_spelling (names names' : List Name) (req : Req)
    (h : names.map foldName = names'.map foldName) : headerKey names req = headerKey names' req := by
  have e : ∀ ns : List Name, ns.map (headerValues req) =
      (ns.map foldName).map (fun l => (req.filter fun x => foldName x.1 == l).map (·.2)) := by
    intro ns; rw [List.map_map]; rfl
  unfold headerKey
  rw [e names, e names', h]

/-- Sticky on real requests: two requests that carry the same values for the configured headers (at least one of them
non-empty on its first line) get the same backend from the same pool, wherever the shared round-robin counter stands
and whatever else the requests carry. -/
theorem C05_header_sticky (names : List Name) (p : Pool) (a b : Req) (r1 r2 : Nat)
    (h : sameKey names a b = true) :
    (headerUpstreamSelect names p r1 a).1 = (headerUpstreamSelect names p r2 b).1 := by
  unfold sameKey at h
  rw [Bool.and_eq_true] at h
  obtain ⟨hk, hv⟩ := h
  have hv' : names.map (headerValues a) = names.map (headerValues b) := by simpa using hv
  have hkey : headerKey names a = headerKey names b := by unfold headerKey; rw [hv']
  have hne : (headerKey names a).isEmpty = false := by
    unfold keyed at hk
    rw [List.any_eq_true] at hk
    obtain ⟨n, hn, hg⟩ := hk
    cases hke : headerKey names a with
    | cons x xs => rfl
    | nil =>
      exfalso
      unfold headerKey at hke
      rw [List.flatMap_eq_nil_iff] at hke
      have := hke (headerValues a n) (List.mem_map_of_mem hn)
      unfold headerGet at hg
      rw [this] at hg
      simp at hg
  unfold headerUpstreamSelect
  simp only [← hkey, hne, Bool.false_eq_true, if_false]
  exact upstreamSelect_hash_fst p r1 r2 _

theorem headerRun_mem (names : List Name) (p : Pool) (reqs : List Req) (robin : Nat) :
    ∀ x ∈ (headerRun names p reqs robin).1, ∃ rb, x.2 = (headerUpstreamSelect names p rb x.1).1 := by
  induction reqs generalizing robin with
  | nil => intro x hx; simp [headerRun] at hx
  | cons r rest ih =>
    intro x hx
    simp only [headerRun, List.mem_cons] at hx
    rcases hx with rfl | hx
    · exact ⟨robin, rfl⟩
    · exact ih _ x hx

theorem headerSelect_verdict_ok (names : List Name) (p : Pool) (robin : Nat) (r : Req) (hw : WellSized p) :
    verdict .hash p (headerUpstreamSelect names p robin r).1 = "ok" := by
  unfold headerUpstreamSelect
  by_cases he : (headerKey names r).isEmpty = true
  · simp only [he, if_true]
    rw [verdict_hash_eq_rr]
    exact C05_model_verdict_ok .roundRobin p robin 0 [] hw
  · simp only [he, Bool.false_eq_true, if_false]
    exact C05_model_verdict_ok .hash p robin _ [] hw

theorem headerRun_sticky (names : List Name) (p : Pool) (reqs : List Req) (robin : Nat) :
    sticky names (headerRun names p reqs robin).1 = true := by
  induction reqs generalizing robin with
  | nil => rfl
  | cons r rest ih =>
    simp only [headerRun, sticky, Bool.and_eq_true]
    refine ⟨?_, ih _⟩
    unfold stickyFrom
    rw [List.all_eq_true]
    intro x hx
    obtain ⟨rb, hrb⟩ := headerRun_mem names p rest _ x hx
    by_cases hs : sameKey names r x.1 = true
    · have := C05_header_sticky names p r x.1 robin rb hs
      simp [hs, hrb, this]
    · simp [hs]

/-- The whole judged predicate of `c05.hdr`: for every spelling of the configured names, every pool, every run of
requests and every counter value, the model's answers are sound, complete and sticky. -/
theorem C05_header_model_verdict_ok (names : List Name) (p : Pool) (reqs : List Req) (robin : Nat)
    (hw : WellSized p) : headerVerdict names p (headerRun names p reqs robin).1 = "ok" := by
  unfold headerVerdict
  have hnone : (headerRun names p reqs robin).1.find? (fun x => verdict .hash p x.2 != "ok") = none := by
    rw [List.find?_eq_none]
    intro x hx
    obtain ⟨rb, hrb⟩ := headerRun_mem names p reqs robin x hx
    rw [hrb, headerSelect_verdict_ok names p rb x.1 hw]
    decide
  rw [hnone]
  simp [headerRun_sticky]

/-- Witness of the defect repaired by `fix: proxy refuses policy header without a header name`: the block parser used to
accept `policy header` with no name, and `Header.Select` (`if r.Names == nil { return nil }`) then chose nobody for any
request — judged incomplete on a pool of two available backends.  The parser now refuses the line
(`headerConfigOk`), which is what `c05.hdr` expects of a case with no names. -/
theorem C05_header_nameless_fails_witness :
    headerVerdict [] [⟨false, 0, 0⟩, ⟨false, 0, 0⟩] [([], none)]
      = "bad:incomplete:an available backend exists but none was chosen" ∧ headerConfigOk [] = false := by
  decide

/-- non-vacuity: `x-id` in the Casketfile, the header sent as `X-Id` and `X-ID`, on two lines; the counter stands
elsewhere for the second request -/
example : sameKey [[120, 45, 105, 100]] [([88, 45, 73, 100], [97]), ([88, 45, 73, 68], [98])]
    [([79], [1]), ([120, 45, 105, 100], [97]), ([88, 45, 73, 100], [98])] = true := by decide
example : (headerRun [[120, 45, 105, 100]] [⟨false, 0, 0⟩, ⟨false, 0, 0⟩, ⟨false, 0, 0⟩]
    [[([88, 45, 73, 100], [97])], [], [([88, 45, 73, 100], [97])]] 0).1.map (·.2) = [some 1, some 1, some 1] := by decide

/-- The seven policy names the Casketfile accepts are the ones modelled
(regenerated from policy.go:init on every run). -/
theorem C05_policy_names_modelled :
    Casket.Generated.policyNames.all (· ∈ ["random", "least_conn", "round_robin", "ip_hash", "first", "uri_hash", "header"]) = true := by
  decide

/-! Non-vacuity: the hypotheses are met by a concrete, non-trivial pool. -/
example : WellSized [⟨true, 0, 0⟩, ⟨false, 3, 3⟩, ⟨false, 1, 0⟩] := by
  refine ⟨by simp, ?_⟩
  intro h hh
  simp at hh
  rcases hh with rfl | rfl | rfl <;> simp [maxInt64]

/-- A pool of three with only the last backend up, key hashing to slot 0: the case the
triangular probing of the original code missed. -/
example : hostByHashing [⟨true, 0, 0⟩, ⟨true, 0, 0⟩, ⟨false, 0, 0⟩] 0 = some 2 := by decide

/-- Round robin at the uint32 wrap: pool of three, only backend 2 up, counter 2^32-2. -/
example : (roundRobin [⟨true, 0, 0⟩, ⟨true, 0, 0⟩, ⟨false, 0, 0⟩] 4294967294).1 = some 2 := by decide

/-!
## The retry loop (second half of C05)

`Casket.Retry.serve` is the model of the `for` loop of `Proxy.ServeHTTP` over abstract time
(Model/Retry.lean), using the `upstreamSelect` proved sound and complete above; it is tied to
the Go code by the stream `c05.retry`.  `RetrySpec.verdict` is the executable property the
driver applies to the implementation's runs.  Timing is abstract: an attempt costs no time,
a sleep costs `interval` ticks; the real clock is only explored by the stream.
-/
open Casket.Retry Casket.RetrySpec

theorem C05_select_sound_for_retry : SelSound := fun k p robin h rs => C05_sound k p robin h rs

theorem C05_select_complete_for_retry : SelComplete :=
  fun k p robin h rs hw hav => C05_complete k p robin h rs hw hav

/-- With retries enabled (try_duration > 0, fail_timeout > 0), a healthy backend (up, below its
cap, answering, from the arrival of the request on), the other backends only failing or answering, and
the time budget of `RetrySpec.budget` (max_fails · #other backends · try_interval < try_duration ≤
fail_timeout), the request is answered — for every pool, every policy, every round-robin counter, key,
random stream, every failure script of the other backends, every max_fails, every state of the other
backends when the request arrives (unhealthy, at the cap, failures already recorded) and every change
of their state while the request is served (`Cfg.events`). -/
theorem C05_retry_reaches_healthy (c : Cfg) (robin : Nat) (hm : mustSucceed c = true) :
    (serve c robin).1 = .success :=
  serve_success C05_select_sound_for_retry C05_select_complete_for_retry c robin hm

/-- Backends that come back.  Whatever state the backends are in when the request arrives (all of
them may be out of rotation but one, which then fails) and however their state changes while it is
served: with retries enabled, backends that only fail or answer and the time budget of
`RetrySpec.budgetLate` (max_fails · #backends that can fail · try_interval < try_duration,
try_duration + try_interval ≤ fail_timeout), the request is NOT left unanswered while a backend that
always answers is in rotation — if such a backend is there once the attempts of the run have been
made (`goodAfter`: in the state it arrived in, or the state the changes during those attempts
gave it), the run ended with its answer.  The loop gives up only when nobody is left. -/
theorem C05_retry_answered_when_backend_returns (c : Cfg) (robin : Nat)
    (hm : mustSucceedAfter c (serve c robin).2.length = true) : (serve c robin).1 = .success :=
  serve_late C05_select_sound_for_retry C05_select_complete_for_retry c robin hm

/-- Every attempt reads the complete original body — when the body is buffered (more than one
backend CONFIGURED: `c.hosts.length`, the size of the pool) or there is only one attempt
(try_duration 0).  `c` ranges over every state of the backends when the request arrives
(`HostCfg.unhealthy`, `.conns`, `.fails`: any number of them out of rotation, also all but one or
all of them) and every change of state while it is served (`Cfg.events`: backends coming back or
going away between attempts), so the body is complete also for the backend that was out of
rotation when the request arrived and answers it after coming back.
PARTIAL: a single backend with retries enabled is excluded; see the witness below (known finding
C05-retry-single-backend-body). -/
theorem C05_retry_body_complete_partial (c : Cfg) (robin : Nat)
    (h : c.hosts.length > 1 ∨ c.tryDuration = 0) : bodiesComplete c (serve c robin).2 = true := by
  have key : ∀ a ∈ (serve c robin).2, BodyOK c a = true := by
    unfold serve
    by_cases hd : c.tryDuration = 0
    · exact loop_bodies_single c hd _ _ [] rfl (by simp)
    · have hb : buffered c = true := by
        rcases h with h | h
        · simp [buffered, h, hd]
        · exact absurd h hd
      exact loop_bodies_buffered c hb _ _ [] (by simp)
  unfold bodiesComplete
  rw [List.all_eq_true]
  intro a ha
  have := key a ha
  simpa [BodyOK, Bool.or_assoc] using this

/-- The excluded case does fail: one backend, max_fails 2, the first attempt fails after reading
the body — the second attempt finds the body consumed. -/
def singleBackendWitness : Cfg :=
  { kind := .first, hash := 0, rands := (fun _ => []), tryDuration := 10, interval := 1, failTimeout := 100, maxFails := 2, maxConns := 0, hosts := [⟨false, 0, [.fail true, .ok], 0⟩], hasBody := true, events := [] }

theorem C05_retry_body_single_backend_fails_witness :
    bodiesComplete singleBackendWitness (serve singleBackendWitness 0).2 = false := by
  decide

/-- No backend is in rotation when the request arrives (each one marked unhealthy, at its cap or
with max_fails failures recorded that outlast the request): no attempt is made, so nothing an
attempt could trigger changes that, and the answer is 502, after try_duration has passed, without
a single attempt. -/
theorem C05_gives_up_502 (c : Cfg) (robin : Nat) (hn : neverAvailable c = true) (hI : c.interval ≥ 1) :
    serve c robin = (.badGateway, []) :=
  serve_gives_up C05_select_sound_for_retry c robin hn hI

/-- The whole judged retry predicate on the model's own runs.  PARTIAL in the same way as
`C05_retry_body_complete_partial`. -/
theorem C05_retry_model_verdict_ok_partial (c : Cfg) (robin : Nat)
    (h : c.hosts.length > 1 ∨ c.tryDuration = 0) (hI : c.interval ≥ 1) :
    RetrySpec.verdict c (serve c robin).1 (serve c robin).2 = "ok" := by
  unfold RetrySpec.verdict
  have h1 : (mustSucceed c && (serve c robin).1 != .success) = false := by
    cases hm : mustSucceed c with
    | false => rfl
    | true => simp [C05_retry_reaches_healthy c robin hm]
  have h1' : (mustSucceedAfter c (serve c robin).2.length && (serve c robin).1 != .success) = false := by
    cases hm : mustSucceedAfter c (serve c robin).2.length with
    | false => rfl
    | true => simp [C05_retry_answered_when_backend_returns c robin hm]
  have h2 := C05_retry_body_complete_partial c robin h
  have h3 : (neverAvailable c && ((serve c robin).1 != .badGateway || !(serve c robin).2.isEmpty)) = false := by
    cases hn : neverAvailable c with
    | false => rfl
    | true => simp [C05_gives_up_502 c robin hn hI]
  simp [h1, h1', h2, h3]

/-! Non-vacuity of the retry hypotheses: three backends, the first two failing (one of them only
after reading the body), max_fails 2, round robin — the request is answered by backend 2 after
two failed attempts, every reading attempt seeing the whole body. (test) -/
def retryExample : Cfg :=
  { kind := .roundRobin, hash := 0, rands := (fun _ => []), tryDuration := 100, interval := 1, failTimeout := 1000, maxFails := 2, maxConns := 0, hosts := [⟨false, 0, [.fail false], 0⟩, ⟨false, 0, [.fail true], 0⟩, ⟨false, 0, [.ok], 0⟩], hasBody := true, events := [] }

example : mustSucceed retryExample = true := by decide
example : serve retryExample 2 =
    (.success, [⟨0, .unread⟩, ⟨1, .full⟩, ⟨2, .full⟩]) := by decide
example : neverAvailable { retryExample with hosts := [⟨true, 0, [], 0⟩, ⟨false, 3, [], 0⟩, ⟨false, 0, [], 2⟩], maxConns := 3 } = true := by decide

/-! Backends out of rotation when the request arrives, coming back while it is served: two
backends, policy first; backend 1 (healthy) has a failure on record (max_fails 1) when the request
arrives, so backend 0 is the only one selectable; it reads the body and fails; while that attempt
runs backend 1's failure expires (event of attempt 0).  The body was buffered although only one
backend was selectable on arrival (the pool has two), and backend 1 answers with the whole body.
The same with backend 1 at its connection cap, and with the only selectable backend retried itself
(max_fails 2) while the other one stays away. (test) -/
def recoveryExample : Cfg :=
  { kind := .first, hash := 0, rands := (fun _ => []), tryDuration := 2000, interval := 50, failTimeout := 10000, maxFails := 1, maxConns := 1, hosts := [⟨false, 0, [.fail true], 0⟩, ⟨false, 0, [.ok], 1⟩], hasBody := true, events := [⟨0, 1, ⟨false, 0, 0⟩⟩] }

example : (poolAt recoveryExample St.init).map Host.avail = [true, false] := by decide
example : serve recoveryExample 0 = (.success, [⟨0, .full⟩, ⟨1, .full⟩]) := by decide
example : serve { recoveryExample with hosts := [⟨false, 0, [.fail true], 0⟩, ⟨false, 1, [.ok], 0⟩] } 0 =
    (.success, [⟨0, .full⟩, ⟨1, .full⟩]) := by decide
example : serve { recoveryExample with maxFails := 2, hosts := [⟨false, 0, [.fail true, .ok], 0⟩, ⟨true, 0, [.ok], 0⟩], events := [] } 0 =
    (.success, [⟨0, .full⟩, ⟨0, .full⟩]) := by decide
/-- ... and of `C05_retry_answered_when_backend_returns`: after the two attempts of the run backend 1 is healthy;
on arrival (no attempt made) nobody that always answers is in rotation -/
example : mustSucceedAfter recoveryExample (serve recoveryExample 0).2.length = true := by decide
example : mustSucceedAfter recoveryExample 0 = false := by decide
/-- the backend does not come back: the run ends with 502 after the one attempt, nobody healthy is left -/
example : serve { recoveryExample with events := [] } 0 = (.badGateway, [⟨0, .full⟩]) ∧
    mustSucceedAfter { recoveryExample with events := [] } 1 = false := by decide
/-- the hypotheses of `C05_retry_body_complete_partial` and `C05_retry_model_verdict_ok_partial` hold for it -/
example : recoveryExample.hosts.length > 1 ∨ recoveryExample.tryDuration = 0 := by decide
/-- a healthy backend next to backends that are out on arrival and change state: `mustSucceed` -/
example : mustSucceed { recoveryExample with maxFails := 2, hosts := [⟨false, 0, [.fail true], 1⟩, ⟨true, 0, [.fail false], 0⟩, ⟨false, 0, [.ok], 1⟩], events := [⟨0, 1, ⟨false, 0, 0⟩⟩, ⟨1, 0, ⟨true, 0, 0⟩⟩] } = true := by decide

end Casket.Props.C05
