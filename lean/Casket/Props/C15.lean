import Casket.Proofs.AutoHTTPS
import Casket.Proofs.AutoHTTPSRedirect
import Casket.Proofs.AutoHTTPSSites
import Casket.Proofs.AutoHTTPSAddr
import Casket.Proofs.AutoHTTPSInspect
import Casket.Proofs.AutoHTTPSAddrIP
import Casket.Proofs.AutoHTTPSSame
import Casket.Proofs.AutoHTTPSAddr6
/-
C15 — Automatic HTTPS is applied exactly to qualifying sites, with redirects.

Statements only; helper lemmas live in Casket/Proofs/AutoHTTPS.lean.  The models are in
Casket/Model/AutoHTTPS*.lean (tied to the Go code by the streams c15.host, c15.qualify, c15.addr,
c15.sites, c15.redirect); the property as executable predicates is Casket/Spec/AutoHTTPS.lean — the same
predicates the model driver applies to the implementation's answers.
-/
namespace Casket.Props.C15
open Casket.AutoHTTPS Casket.AutoHTTPSSpec Casket.Generated

/-- The tables and constants regenerated from casket.go, caskettls/tls.go, plugin.go and certmagic are the ones the
specification is written with: ports 80/443/2015, `localhost`/`.localhost`, the private TLDs, certmagic's internal
suffixes and forbidden characters, e-mail `off`.  (`decide` over the complete regenerated tables.) -/
theorem C15_tables_match_spec :
    httpPort = b!"80" ∧ httpsPort = b!"443" ∧ unmanagedPort = b!"80" ∧ unmanagedEmail = b!"off" ∧ defaultPort = b!"2015" ∧
    loopbackName = b!"localhost" ∧ loopbackSuffix = b!".localhost" ∧
    privateTLDs = [b!".example", b!".invalid", b!".test", b!".local"] ∧
    certInternalNames = [b!"localhost"] ∧ certInternalSuffixes = [b!".localhost", b!".local", b!".home.arpa"] ∧
    certForbiddenChars = forbiddenChars := by decide

/-- Every internal-only suffix of the specification is rejected by one of the three regenerated tables, and nothing else is. -/
theorem C15_internal_suffixes_covered :
    ∀ s, s ∈ internalSuffixes ↔ (s = loopbackSuffix ∨ s ∈ privateTLDs ∨ s ∈ certInternalSuffixes) := by
  intro s
  rw [tables_names.2.1, tables_tlds.1, tables_tlds.2]
  simp only [internalSuffixes, List.mem_cons, List.not_mem_nil, or_false]
  constructor
  · intro h; rcases h with h | h | h | h | h | h <;> simp [h]
  · intro h; rcases h with h | (h | h | h | h) | (h | h | h) <;> simp [h]

/-- The CIDR table of casket.IsInternal with Go's mask arithmetic (IPNet.Contains, IPv4-mapped addresses unwrapped)
is membership in 10/8, 172.16/12, 192.168/16, fc00::/7 — for every 16-byte address. -/
theorem C15_private_ranges (ip : List UInt8) (hlen : ip.length = 16) :
    privateNetworks.any (fun n => netContains n ip) = privateIP ip :=
  netContains_private ip hlen

/-- The text of whatever net.ParseIP accepts consists of hex digits, '.' and ':' only (so it can never carry one of
the internal-only name suffixes), and the result has 16 bytes. -/
theorem C15_ip_literal_alphabet (s : Bytes) (ip : List UInt8) (h : parseIP s = some ip) :
    (∀ c ∈ s, ipByte c = true) ∧ ip.length = 16 := parseIP_some s ip h

/-- Site host: casket's three tests (IsLoopback, IsInternal, certmagic's SubjectQualifiesForPublicCert) accept exactly the
public DNS names of the specification (not empty, not an IP literal, not localhost / internal-only suffix, well-formed
certificate subject with the wildcard rule) — for every lower-case host without port, of any bytes. -/
theorem C15_host_public_iff (h : Bytes) (hl : toLower h = h) (hs : splitHostPort h = none) :
    (!isLoopback h && !isInternal h && subjectQualifiesForPublicCert h) = publicDNSName h :=
  host_public_iff h hl hs

example : toLower b!"example.com" = b!"example.com" ∧ splitHostPort b!"example.com" = none ∧ publicDNSName b!"example.com" = true := by decide
example : publicDNSName b!"foo.test" = false ∧ publicDNSName b!"10.1.2.3" = false ∧ publicDNSName b!"*.com" = false ∧
    publicDNSName b!"*.example.com" = true ∧ publicDNSName b!"127.example.com" = true := by decide

/-- `bind` host (and the site host under on-demand TLS): IsLoopback ∨ IsInternal is exactly the specification's
"loopback, private or internal-only host" — every textual form of an address in 127/8, ::1, 10/8, 172.16/12, 192.168/16,
fc00::/7, brackets or not, and the names localhost, *.localhost, *.local, *.test, *.example, *.invalid in any case. -/
theorem C15_local_host_iff (l : Bytes) (h1 : splitHostPort l = none) (h2 : splitHostPort (toLower l) = none) :
    (isLoopback l || isInternal l) = localHost l := local_iff l h1 h2

example : splitHostPort b!"::ffff:127.0.0.1" = none ∧ localHost b!"::ffff:127.0.0.1" = true ∧ localHost b!"LOCALHOST" = true ∧
    localHost b!"[fd00::1]" = true ∧ localHost b!"203.0.113.7" = false ∧ localHost b!"" = false := by decide

/-- MANAGED ⇔ QUALIFIES.  markQualifiedForAutoHTTPS marks a site exactly when the specification says it qualifies:
public DNS name (or, with on-demand TLS, any non-local name), not bound to a local interface, not declared with
http:// or port 80, tls not off / e-mail off / manual / self-signed — for all schemes, hosts in scope, ports,
bind values in scope and tls flag combinations. -/
theorem C15_managed_iff_qualifies (c : Site) (hh : hostInScope c.host = true) (hb : bindInScope c.listen = true)
    (hm : c.managed = false) : (markOne c).managed = AutoHTTPSSpec.qualifies c := by
  unfold markOne
  rw [qualifies_eq_spec c hh hb]
  cases h : AutoHTTPSSpec.qualifies c <;> simp [hm]

example : hostInScope b!"example.com" = true ∧ bindInScope b!"" = true ∧ AutoHTTPSSpec.qualifies { host := b!"example.com" } = true ∧
    AutoHTTPSSpec.qualifies { host := b!"example.com", scheme := b!"http", port := b!"80" } = false ∧
    AutoHTTPSSpec.qualifies { host := b!"example.com", listen := b!"127.0.0.1" } = false := by decide

/-- The judged predicate of stream c15.qualify: the model's answer always gets the verdict "ok" (all inputs; outside the
scope the verdict is "ok" by definition of the scope). -/
theorem C15_qualify_model_verdict_ok (c : Site) (hm : c.managed = false) :
    qualifyVerdict c (markOne c).managed = "ok" := by
  unfold qualifyVerdict
  by_cases hs : (!hostInScope c.host || !bindInScope c.listen) = true
  · simp [hs]
  · simp only [hs, Bool.false_eq_true, ↓reduceIte]
    simp only [Bool.or_eq_true, Bool.not_eq_true', not_or, Bool.not_eq_false] at hs
    rw [C15_managed_iff_qualifies c hs.1 hs.2 hm]
    cases AutoHTTPSSpec.qualifies c <;> simp

/-! ### plain-HTTP declarations and managed sites through the whole pipeline -/

/-- The pipeline (mark, enable, make redirects, MakeServers) returns the declared sites, each taken through its own
stages and in order, followed by the synthesised redirect sites (which MakeServers leaves unchanged). -/
theorem C15_pipeline_shape (ds : List Site) :
    pipeline ds = ds.map (fun d => stageF (stageE d)) ++ redirsGo (ds.map stageE) (ds.map stageE) 0 [] :=
  pipeline_eq ds

/-- activateHTTPS cannot be run by the harness (between the stages it obtains certificates from a CA), so the ORDER in
which it calls the stages is regenerated from its source: mark, (obtain), enable, make redirects — the order in which
`pipeline` composes them; the redirect list is stored back; and activateHTTPS is the parsing callback of `tls`.
(A syntactic tie: it pins the call sequence, not the data flow between the calls.) -/
theorem C15_stage_order :
    activateStages = ["markQualifiedForAutoHTTPS", "ObtainCertAsync", "enableAutoHTTPS", "makePlaintextRedirects", "RenewManagedCertificates"] ∧
    activateStoresRedirects = true ∧ "tls:activateHTTPS" ∈ parsingCallbacks ∧
    (∀ ds, pipeline ds = makeServers (makePlaintextRedirects (enableAutoHTTPS (markQualified ds)))) := by
  refine ⟨by decide, by decide, by decide, fun _ => rfl⟩

/-- Sites declared as plain HTTP (scheme http or port 80) are never marked managed and never have TLS enabled at the end
of the pipeline — whatever the host, the bind value and the tls directive (which may have set Enabled). -/
theorem C15_http_sites_never_tls (ds : List Site) (i : Nat) (d : Site) (hd : ds[i]? = some d) (hm : d.managed = false)
    (hh : declaredHTTP d.scheme d.port = true) :
    (markOne d).managed = false ∧ ((pipeline ds)[i]?).map (·.enabled) = some false := by
  have h := http_site_no_tls d hm hh
  refine ⟨h.1, ?_⟩
  have hi : i < ds.length := by
    rcases Nat.lt_or_ge i ds.length with h | h
    · exact h
    · rw [List.getElem?_eq_none h] at hd; cases hd
  rw [pipeline_eq, List.getElem?_append_left (by simpa using hi), List.getElem?_map, hd]
  simp [h.2]

example : declaredHTTP b!"http" b!"80" = true ∧ declaredHTTP b!"" b!"80" = true ∧ declaredHTTP b!"https" b!"443" = false := by decide

/-- A site marked managed is served over TLS at the end of the pipeline. -/
theorem C15_managed_sites_serve_tls (d : Site) (hf : Fresh d) (hm : (markOne d).managed = true) :
    (stageF (stageE d)).enabled = true := managed_site_tls d hf hm

example : Fresh { host := b!"example.com" } ∧ (markOne { host := b!"example.com" }).managed = true := by
  refine ⟨⟨rfl, rfl, rfl, by decide⟩, by decide⟩

/-! ### redirect synthesis (makePlaintextRedirects), for every list of sites -/

/-- SOUNDNESS: every synthesised site is `redirPlaintextHost c` of a declared site `c` that has TLS on, no_redirect off and is
not declared as plain HTTP (so no redirect ever points back at an HTTP address), and no declared site of that host sits on
the HTTP port (a declared plaintext site is never shadowed). -/
theorem C15_redirect_sites_sound (e : List Site) (r : Site) (hr : r ∈ redirsGo e e 0 []) :
    ∃ (k : Nat) (c : Site), e[k]? = some c ∧ wantsRedirect c = true ∧ r = redirPlaintextHost c ∧ NoPlain e c.host := by
  obtain ⟨k, c, _, h1, h2, h3, h4⟩ := (inv_final e).sound r hr
  exact ⟨k, c, h1, h2, h3, h4⟩

/-- NO REDIRECT POINTS BACK AT AN HTTP ADDRESS: the site a synthesised redirect goes to ends the pipeline with TLS on, and it was
not declared with scheme http or on the HTTP port. -/
theorem C15_redirect_never_to_http (e : List Site) (r : Site) (hr : r ∈ redirsGo e e 0 []) :
    ∃ c ∈ e, r = redirPlaintextHost c ∧ (stageF c).enabled = true ∧ c.scheme ≠ b!"http" ∧ c.port ≠ b!"80" := by
  obtain ⟨k, c, hk, hw, hrc, _⟩ := C15_redirect_sites_sound e r hr
  refine ⟨c, List.mem_of_getElem? hk, hrc, ?_⟩
  have hw' := hw
  unfold wantsRedirect at hw'
  rw [tables_ports.1] at hw'
  simp only [Bool.and_eq_true, bne_iff_ne, ne_eq] at hw'
  refine ⟨?_, hw'.1.2, hw'.2⟩
  rw [stageF_enabled, tables_ports.1]
  simp [hw'.1.1.1, hw'.1.2, hw'.2]

/-- At most one redirect site per host. -/
theorem C15_redirect_sites_one_per_host (e : List Site) : ((redirsGo e e 0 []).map (·.host)).Nodup :=
  (inv_final e).nodup

/-- The redirect of the site synthesised for `c` goes to the port `c` is finally served on — its explicit port, else 443 for
managed / on-demand certificates, else the default port — and that port is written empty exactly when it is 443. -/
theorem C15_redirect_target_port (c : Site) (hman : c.hasManager = true) (hw : wantsRedirect c = true) :
    ∃ t, (redirPlaintextHost c).redir = some t ∧ portSuffixOK t (stageF c).port = true ∧ (stageF c).enabled = true := by
  obtain ⟨t, h1, h2⟩ := redirect_target_port c hman hw
  refine ⟨t, h1, h2, ?_⟩
  rw [stageF_enabled]
  unfold wantsRedirect at hw
  simp only [Bool.and_eq_true, bne_iff_ne, ne_eq] at hw
  simp [hw.1.1.1, hw.1.2, hw.2]

example : wantsRedirect { host := b!"example.com", enabled := true, manual := true } = true ∧
    (redirPlaintextHost { host := b!"example.com", enabled := true, manual := true }).redir = some b!"2015" := by decide

/-- COMPLETENESS: every HTTPS site that wants a redirect (TLS on, no_redirect off, not declared as plain HTTP) and whose host
has no declared site on the HTTP port is covered by a synthesised site of its host.  (Total since the repair
"fix: a site on the HTTPS port suppresses its siblings' redirect only if it makes one itself".) -/
theorem C15_redirect_complete (e : List Site) (k : Nat) (c : Site) (hk : e[k]? = some c)
    (hw : wantsRedirect c = true) (hnp : NoPlain e c.host) : Covered (redirsGo e e 0 []) c.host := by
  have hlt : k < e.length := by
    rcases Nat.lt_or_ge k e.length with h | h
    · exact h
    · rw [List.getElem?_eq_none h] at hk; cases hk
  rcases (inv_final e).complete k c hlt hk hw hnp with h | ⟨j, cj, hj, hcj, _⟩
  · exact h
  · rw [List.getElem?_eq_none hj] at hcj; cases hcj

/-- the two sites of the former finding C15-redirect-deferred-to-443-sibling: `a:443` with no_redirect, `a:5001` -/
def witnessSites : List Site :=
  [{ host := b!"a", port := b!"443", scheme := b!"https", enabled := true, noRedirect := true },
   { host := b!"a", port := b!"5001", enabled := true }]

/-- …for which the repaired code synthesises the redirect to port 5001 (regression example of the former gap). -/
theorem C15_redirect_443_sibling_regression :
    makePlaintextRedirects witnessSites = witnessSites ++ [redirPlaintextHost { host := b!"a", port := b!"5001", enabled := true }] ∧
    (redirPlaintextHost { host := b!"a", port := b!"5001", enabled := true }).redir = some b!"5001" := by decide

/-- THE SITE-SET VERDICT (stream c15.sites): applied to what the model pipeline shows, the judged predicate
`sitesVerdict` — managed ⇔ qualifies, managed ⇒ TLS, plain HTTP ⇒ no TLS, every synthesised site a plain port-80 site for a host
without plaintext site whose redirect goes to an HTTPS site of that host on the right port, one per host, every HTTPS site
covered — answers "ok".  For all lists of fresh sites. -/
theorem C15_sites_model_verdict_ok (ds : List Site) (hf : ∀ d ∈ ds, Fresh d) :
    sitesVerdict (ds.map observeSite) ((redirsGo (ds.map stageE) (ds.map stageE) 0 []).map observeRedirect) = "ok" :=
  sites_verdict ds hf

/-- Sites built the way the harness and the Casketfile front end build them are fresh. -/
theorem C15_siteOf_fresh (a : Address) (bind : Bytes) (v : TLSVariant) : Fresh (siteOf a bind v) := by
  unfold siteOf applyTLS Fresh
  cases hb : v.base <;> cases hn : v.noRedirect <;> cases ho : v.onDemand <;> simp

/-! ### the answer of a synthesised site -/

/-- %-decoding the default encoding of a path gives the path back (net/url escape / unescape in path mode). -/
theorem C15_escape_roundtrip (p : Bytes) : unescapePath (escapePath p) = some p := unescape_escape p

/-- THE REDIRECT ANSWER (stream c15.redirect): for every port of the HTTPS site, every Host header in scope and every request
target net/http can parse (origin-form or "*"), the handler answers 301 with
Location = https://<same host, IPv6 literal in brackets>[:port unless 443]<same path (equal after %-decoding) and query>. -/
theorem C15_redirect_location (port hdr target uri : Bytes) (hu : requestURI target = .ok uri) :
    redirectVerdict port hdr target redirStatus (redirLocation (capturedPort port) hdr uri) = "ok" :=
  redirect_verdict_ok port hdr target uri hu

example : hostHeaderInScope b!"[::1]:80" = true ∧ requestURI b!"/a%2Fb?x=1" = .ok b!"/a%2Fb?x=1" ∧
    redirLocation (capturedPort b!"8443") b!"[::1]:80" b!"/a%2Fb?x=1" = b!"https://[::1]:8443/a%2Fb?x=1" ∧
    redirLocation (capturedPort b!"443") b!"example.com:80" b!"/" = b!"https://example.com/" := by decide

/-- The probe request of stream c15.sites (GET http://probe.test/p?q=1 to every synthesised site) reads back exactly the port
the handler captured: the judge's parse of the observed Location is the inverse of the handler model on every numeric port. -/
theorem C15_probe_roundtrip (rp : Bytes) (hd : rp.all isDigit = true) :
    probeTarget (redirLocation rp probeHost probeURI) = some rp := probe_roundtrip rp hd

/-- The port captured for a site (default flags) is what `redirPlaintextHost` stores. -/
theorem C15_captured_port (p : Bytes) : (redirPlaintextHost { port := p }).redir = some (capturedPort p) := by
  unfold redirPlaintextHost; simp

/-! ### site addresses: the scheme/port table, and the specification's reader -/

/-- THE SCHEME/PORT TABLE of standardizeAddress, for every well-formed `[scheme://]name[:port]` (scheme: letters in any case;
name: letters, digits, `- . _ *`; port: digits): the text survives the `:http`/`:https` replacement and the `//` normalisation,
net/url.Parse splits it as expected, and the result is — port: the written one, else 80/443 for http/https, else none;
`http`+443 and `https`+80 are refused; scheme: the written one (lower-cased), else http/https for port 80/443. -/
theorem C15_standardize_table (a : AddrParts) (hok : a.ok) : standardizeAddress (composeAddr a) = expectedAddr a :=
  standardize_compose a hok

example : AddrParts.ok { scheme := b!"HTTP", host := b!"Example.COM", port := some b!"8080" } := by
  refine ⟨by decide, by decide, ?_⟩
  intro p hp; cases hp; exact ⟨by decide, by decide⟩

example : (standardizeAddress b!"example.com:80").toOption.map (fun r => (r.scheme, r.host, r.port)) = some (b!"http", b!"example.com", b!"80") ∧
    (standardizeAddress b!"https://example.com:80").toOption.isNone = true ∧
    (standardizeAddress b!"https://example.com").toOption.map (·.port) = some b!"443" := by decide

/-- The specification's own reader of an address text (`readAddr`, used by the judge of c15.sites) gives the same table. -/
theorem C15_spec_reader_table (a : AddrParts) (hok : a.ok) :
    readAddr (composeAddr a) =
      (tableScheme (toLower a.scheme) (tablePort (toLower a.scheme) a.port), toLower a.host, tablePort (toLower a.scheme) a.port) :=
  readAddr_compose a hok

/-- …so, for every well-formed address whose host is not an IP literal, scheme, host and port as the model's
standardizeAddress + Normalize leave them are what the judge reads from the text: the judge's "declared as plain HTTP",
its host class and the model's declared site talk about the same site. -/
theorem C15_spec_reader_agrees (a : AddrParts) (hok : a.ok) (hnip : parseIP a.host = none) (r : Address)
    (h : standardizeAddress (composeAddr a) = .ok r) :
    (r.normalize.scheme, r.normalize.host, r.normalize.port) = readAddr (composeAddr a) :=
  reader_agrees a hok hnip r h

/-- The host Normalize leaves for such an address is in the scope of the qualification theorem: lower case, no port. -/
theorem C15_normalized_host_in_scope (a : AddrParts) (hok : a.ok) (hnip : parseIP a.host = none) (r : Address)
    (h : standardizeAddress (composeAddr a) = .ok r) : hostInScope r.normalize.host = true := by
  have := reader_agrees a hok hnip r h
  rw [readAddr_compose a hok] at this
  have hh : r.normalize.host = toLower a.host := by injection this with _ h2; injection h2
  rw [hh]
  unfold hostInScope
  rw [toLower_idem]
  have hno := (not_mem_name (toLower a.host) (lower_ok a hok).2.1).1
  simp [splitHostPort_none_of_no_colon _ hno]

/-- Address.VHost of a well-formed address is the text without its scheme: `name[:port]` as written. -/
theorem C15_vhost_without_scheme (a : AddrParts) (hok : a.ok) (hnip : parseIP a.host = none) (r : Address)
    (h : standardizeAddress (composeAddr a) = .ok r) : r.normalize.vhost = a.host ++ portPart a :=
  vhost_compose a hok hnip r h

/-- Address.Key of a well-formed address, in closed form: scheme of the table, lower-cased name, and the port if it was
written — except that a written 80/443 without scheme is absorbed into the inferred scheme. -/
theorem C15_key_formula (a : AddrParts) (hok : a.ok) (hnip : parseIP a.host = none) (r : Address)
    (h : standardizeAddress (composeAddr a) = .ok r) : r.normalize.key = expectedKey a :=
  key_compose a hok hnip r h

/-- ROUND TRIP through the site key (what `normalizedKey` / `GetConfig` rely on): the key is itself a well-formed
address; standardizeAddress + Normalize applied to it give the same scheme, host and port, and the same key again. -/
theorem C15_key_roundtrip (a : AddrParts) (hok : a.ok) (hnip : parseIP a.host = none) (hnip' : parseIP (toLower a.host) = none)
    (r : Address) (h : standardizeAddress (composeAddr a) = .ok r) :
    ∃ r', standardizeAddress r.normalize.key = .ok r' ∧ r'.normalize.scheme = r.normalize.scheme ∧
      r'.normalize.host = r.normalize.host ∧ r'.normalize.port = r.normalize.port ∧ r'.normalize.key = r.normalize.key :=
  key_roundtrip a hok hnip hnip' r h

example : expectedKey { host := b!"Example.COM", port := some b!"80" } = b!"http://example.com" ∧
    expectedKey { scheme := b!"HTTPS", host := b!"example.com", port := some b!"8443" } = b!"https://example.com:8443" ∧
    expectedKey { host := b!"example.com", port := some b!"2015" } = b!"example.com:2015" ∧
    parseIP b!"Example.COM" = none ∧ parseIP b!"example.com" = none := by decide

/-! ### the duplicate bookkeeping of InspectServerBlocks ("duplicate site key" / "duplicate site address")

`inspect` is the model of the address loop of InspectServerBlocks (stream c15.inspect ties it to the real loader);
`normalizedAddr` = standardizeAddress + Normalize, `Address.key` = Address.Key(), `Address.siteString` = Address.String() of the
address with the default port filled in.  These statements are meant to be cited by C01. -/

/-- ACCEPTED ⇔ every address standardises and no two of them have the same normalised key or the same site string; the configs
created are the normalised addresses, in order. -/
theorem C15_inspect_accepts_iff (ks : List Bytes) (as : List Address) :
    inspect ks = .ok as ↔
      ks.map normalizedAddr = as.map some ∧ (as.map Address.key).Nodup ∧ (as.map Address.siteString).Nodup :=
  inspect_ok_iff ks as

/-- What C01 needs: after InspectServerBlocks has accepted a Casketfile, the site keys are pairwise different, and so are the
site addresses (scheme://host[:port]/path with defaults filled in); one config per address, in order. -/
theorem C15_accepted_sites_distinct (ks : List Bytes) (as : List Address) (h : inspect ks = .ok as) :
    as.length = ks.length ∧ (as.map Address.key).Nodup ∧ (as.map Address.siteString).Nodup := by
  obtain ⟨hm, hk, hs⟩ := (inspect_ok_iff ks as).mp h
  refine ⟨?_, hk, hs⟩
  have := congrArg List.length hm
  simpa using this.symm

/-- REJECTED AS DUPLICATES ⇔ two normalised keys or two site strings are equal (for addresses that all standardise), and the
error says which: `duplicate site key` only if two keys coincide, `duplicate site address` only if two site strings do. -/
theorem C15_inspect_duplicates_iff (ks : List Bytes) (hall : ∀ k ∈ ks, (normalizedAddr k).isSome = true) :
    ((∃ as, inspect ks = .ok as) ↔
      ((normalizedAddrs ks).map Address.key).Nodup ∧ ((normalizedAddrs ks).map Address.siteString).Nodup) ∧
    (∀ e, inspect ks = .error e →
      (e = .dupKey ∧ ¬ ((normalizedAddrs ks).map Address.key).Nodup) ∨
      (e = .dupAddr ∧ ¬ ((normalizedAddrs ks).map Address.siteString).Nodup)) :=
  inspect_duplicates_iff ks hall

example : (normalizedAddr b!"example.com").isSome = true ∧ (normalizedAddr b!"EXAMPLE.com:2015").isSome = true ∧
    (normalizedAddrs [b!"example.com", b!"EXAMPLE.com:2015"]).map Address.key = [b!"example.com", b!"example.com:2015"] ∧
    (normalizedAddrs [b!"example.com", b!"EXAMPLE.com:2015"]).map Address.siteString = [b!"http://example.com:2015", b!"http://example.com:2015"] := by decide

/-- A defect of Address.Key outside C15's property, recorded because C01 builds on the keys: for a bracketed IPv6 literal the
explicit port is not part of the key (the offset arithmetic of Key assumes the host text of the original), so two sites
that differ only in port are rejected as `duplicate site key` (confirmed on the real loader: stream c15.inspect, `[::1]:81,[::1]:82`). -/
theorem C15_key_ipv6_drops_port_witness :
    (normalizedAddrs [b!"[::1]:81", b!"[::1]:82"]).map Address.key = [b!"::1", b!"::1"] ∧
    (normalizedAddrs [b!"[::1]:81", b!"[::1]:82"]).map (·.port) = [b!"81", b!"82"] ∧
    (match inspect [b!"[::1]:81", b!"[::1]:82"] with | .error .dupKey => true | _ => false) = true := by decide

/-! ### IP-literal hosts, Address.String, and "duplicate ⇔ same site" -/

/-- An IPv4 literal is its own canonical text: whatever net.ParseIP accepts in dotted form is what IP.String prints (Go refuses
leading zeros), so Normalize leaves every host written with name bytes — names and IPv4 literals alike — unchanged up to case. -/
theorem C15_ipv4_literal_canonical (h : Bytes) (hn : h.all nameByte = true) : canonHost h = h := canonHost_name h hn

example : canonHost b!"10.0.0.1" = b!"10.0.0.1" ∧ (parseIP b!"10.0.0.1").isSome = true ∧ parseIP b!"010.0.0.1" = none ∧
    canonHost b!"[::1]" = b!"[::1]" ∧ canonHost b!"0:0::1" = b!"::1" := by decide

/-- `C15_spec_reader_agrees`, `C15_vhost_without_scheme`, `C15_key_formula` and `C15_key_roundtrip` without the "not an IP literal"
hypothesis: they hold for EVERY well-formed `[scheme://]host[:port]`, IPv4-literal hosts included. -/
theorem C15_address_theorems_all_hosts (a : AddrParts) (hok : a.ok) (r : Address) (h : standardizeAddress (composeAddr a) = .ok r) :
    (r.normalize.scheme, r.normalize.host, r.normalize.port) = readAddr (composeAddr a) ∧
    r.normalize.vhost = a.host ++ portPart a ∧
    r.normalize.key = expectedKey a ∧
    (∃ r', standardizeAddress r.normalize.key = .ok r' ∧ r'.normalize.scheme = r.normalize.scheme ∧
      r'.normalize.host = r.normalize.host ∧ r'.normalize.port = r.normalize.port ∧ r'.normalize.key = r.normalize.key) :=
  ⟨reader_agrees_all a hok r h, vhost_compose_all a hok r h, key_compose_all a hok r h, key_roundtrip_all a hok r h⟩

example : AddrParts.ok { scheme := b!"https", host := b!"10.0.0.1", port := some b!"8443" } := by
  refine ⟨by decide, by decide, ?_⟩
  intro p hp; cases hp; exact ⟨by decide, by decide⟩

/-- Address.String of the normalised address with the default port filled in — the text InspectServerBlocks books a site under —
is the address text of the EFFECTIVE site: scheme http unless https is written or implied by port 443, lower-cased host,
port (2015 if none) written unless it is the scheme's default. -/
theorem C15_site_string_formula (a : AddrParts) (hok : a.ok) (hstd : a.stdScheme) (r : Address)
    (h : standardizeAddress (composeAddr a) = .ok r) : r.normalize.siteString = composeAddr (effectiveParts a) :=
  siteString_compose a hok hstd r h

/-- ROUND TRIP through Address.String: standardizeAddress applied to the site string gives the effective site back, and the site
string of that is the same text again (so on the image of standardizeAddress with explicit scheme and port it is the identity). -/
theorem C15_site_string_roundtrip (a : AddrParts) (hok : a.ok) (hstd : a.stdScheme) (r : Address)
    (h : standardizeAddress (composeAddr a) = .ok r) :
    standardizeAddress r.normalize.siteString = .ok (effectiveAddr a) ∧
    (effectiveAddr a).normalize.siteString = r.normalize.siteString :=
  siteString_roundtrip a hok hstd r h

example : effective { host := b!"Example.COM" } = (b!"http", b!"example.com", b!"2015") ∧
    effective { host := b!"example.com", port := some b!"443" } = (b!"https", b!"example.com", b!"443") ∧
    composeAddr (effectiveParts { scheme := b!"HTTP", host := b!"example.com", port := some b!"80" }) = b!"http://example.com" := by decide

/-- DUPLICATE ⇔ SAME SITE: two well-formed addresses (scheme none/http/https, name or IPv4-literal host, optional numeric port)
clash in InspectServerBlocks — same normalised key or same site string — exactly when they denote the same effective site. -/
theorem C15_clash_iff_same_site (a b : AddrParts) (hoa : a.ok) (hob : b.ok) (hsa : a.stdScheme) (hsb : b.stdScheme)
    (ra rb : Address) (ha : standardizeAddress (composeAddr a) = .ok ra) (hb : standardizeAddress (composeAddr b) = .ok rb) :
    (ra.normalize.key = rb.normalize.key ∨ ra.normalize.siteString = rb.normalize.siteString) ↔ effective a = effective b :=
  clash_iff_same_site a b hoa hob hsa hsb ra rb ha hb

/-- …hence two such addresses are accepted together by InspectServerBlocks exactly when they denote different sites… -/
theorem C15_inspect_pair_iff (a b : AddrParts) (hoa : a.ok) (hob : b.ok) (hsa : a.stdScheme) (hsb : b.stdScheme)
    (ra rb : Address) (ha : standardizeAddress (composeAddr a) = .ok ra) (hb : standardizeAddress (composeAddr b) = .ok rb) :
    (∃ as, inspect [composeAddr a, composeAddr b] = .ok as) ↔ effective a ≠ effective b :=
  inspect_pair a b hoa hob hsa hsb ra rb ha hb

/-- …and the effective site is what the judge of stream c15.inspect reads from the text (`denotes`). -/
theorem C15_denotes_is_effective (a : AddrParts) (hok : a.ok) :
    denotes (composeAddr a) = ((effective a).1, (effective a).2.1, (effective a).2.2, []) := denotes_compose a hok

/-! ### bracketed IPv6 literals -/

/-- THE SCHEME/PORT TABLE for `[scheme://][v6][:port]`, any IPv6 notation net.ParseIP accepts (compressed or not, upper or lower
case, embedded IPv4; no zone), with and without port: same table as for names, the host is the literal without brackets. -/
theorem C15_standardize_table_ipv6 (a : V6Parts) (hok : a.ok) : standardizeAddress (composeAddr6 a) = expectedAddr6 a :=
  standardize_compose6 a hok

example : V6Parts.ok { scheme := b!"https", v6 := b!"2001:DB8::1", port := some b!"8443" } ∧ V6Parts.ok { v6 := b!"::ffff:10.0.0.1" } := by
  refine ⟨⟨by decide, by decide, by decide, ?_⟩, ⟨by decide, by decide, by decide, ?_⟩⟩
  · intro p hp; cases hp; exact ⟨by decide, by decide⟩
  · intro p hp; cases hp

/-- After Normalize the host is net.IP.String of the literal (lower case): every notation of an address gives the same host;
VHost keeps the text as written, brackets and port included. -/
theorem C15_normalized_ipv6 (a : V6Parts) (hok : a.ok) (r : Address) (h : standardizeAddress (composeAddr6 a) = .ok r) :
    r.normalize.host = toLower (canonHost a.v6) ∧ r.normalize.port = tablePort (toLower a.scheme) a.port ∧
    r.normalize.scheme = tableScheme (toLower a.scheme) (tablePort (toLower a.scheme) a.port) ∧
    r.normalize.vhost = hostPort6 a := by
  have hn := normalized_compose6 a hok r h
  exact ⟨by rw [hn], by rw [hn], by rw [hn], vhost_compose6 a hok r h⟩

example : toLower (canonHost b!"2001:DB8:0:0::1") = b!"2001:db8::1" ∧ toLower (canonHost b!"::ffff:10.0.0.1") = b!"10.0.0.1" := by decide

/-- Address.Key of a bracketed IPv6 literal written in canonical form, with or without port: scheme prefix and literal — the
explicit port is NEVER part of the key (Key's offset arithmetic assumes the original host text, which has brackets here).
Consequence, with `C15_inspect_duplicates_iff`: `[v6]:p` and `[v6]:q` under the same scheme are rejected as "duplicate site
key" although they are different sites (witness `C15_key_ipv6_drops_port_witness`; real loader: stream c15.inspect).
A defect for C01/C09 to own; C15's property does not depend on it. -/
theorem C15_key_ipv6_drops_port (a : V6Parts) (hok : a.ok) (hcan : toLower (canonHost a.v6) = a.v6) (r : Address)
    (h : standardizeAddress (composeAddr6 a) = .ok r) :
    r.normalize.key = schemePrefix (tableScheme (toLower a.scheme) (tablePort (toLower a.scheme) a.port)) ++ a.v6 :=
  key_compose6_drops_port a hok hcan r h

example : toLower (canonHost b!"::1") = b!"::1" ∧ toLower (canonHost b!"2001:db8::1") = b!"2001:db8::1" := by decide

end Casket.Props.C15
