import Casket.Proofs.AutoHTTPS
/-
C15 — Automatic HTTPS is applied exactly to qualifying sites, with redirects.

Statements only; helper lemmas live in Casket/Proofs/AutoHTTPS.lean.  The models are in
Casket/Model/AutoHTTPS*.lean (tied to the Go code by the streams c15.host, c15.qualify, c15.addr,
c15.sites, c15.redirect); the property as executable predicates is Casket/Spec/AutoHTTPS.lean — the same
predicates the model driver applies to the implementation's answers.
-/
namespace Casket.Props.C15
open Casket.AutoHTTPS Casket.AutoHTTPSSpec Casket.Generated

/-- The tables and constants regenerated from casket.go, caskettls/tls.go, plugin.go and certmagic are the ones the
specification is written with: ports 80/443/2015, `localhost`/`.localhost`, the private TLDs, certmagic's internal
suffixes and forbidden characters, e-mail `off`.  (`decide` over the complete regenerated tables.) -/
theorem C15_tables_match_spec :
    httpPort = b!"80" ∧ httpsPort = b!"443" ∧ unmanagedPort = b!"80" ∧ unmanagedEmail = b!"off" ∧ defaultPort = b!"2015" ∧
    loopbackName = b!"localhost" ∧ loopbackSuffix = b!".localhost" ∧
    privateTLDs = [b!".example", b!".invalid", b!".test", b!".local"] ∧
    certInternalNames = [b!"localhost"] ∧ certInternalSuffixes = [b!".localhost", b!".local", b!".home.arpa"] ∧
    certForbiddenChars = forbiddenChars := by decide

/-- Every internal-only suffix of the specification is rejected by one of the three regenerated tables, and nothing else is. -/
theorem C15_internal_suffixes_covered :
    ∀ s, s ∈ internalSuffixes ↔ (s = loopbackSuffix ∨ s ∈ privateTLDs ∨ s ∈ certInternalSuffixes) := by
  intro s
  rw [tables_names.2.1, tables_tlds.1, tables_tlds.2]
  simp only [internalSuffixes, List.mem_cons, List.not_mem_nil, or_false]
  constructor
  · intro h; rcases h with h | h | h | h | h | h <;> simp [h]
  · intro h; rcases h with h | (h | h | h | h) | (h | h | h) <;> simp [h]

/-- The CIDR table of casket.IsInternal with Go's mask arithmetic (IPNet.Contains, IPv4-mapped addresses unwrapped)
is membership in 10/8, 172.16/12, 192.168/16, fc00::/7 — for every 16-byte address. -/
theorem C15_private_ranges (ip : List UInt8) (hlen : ip.length = 16) :
    privateNetworks.any (fun n => netContains n ip) = privateIP ip :=
  netContains_private ip hlen

/-- The text of whatever net.ParseIP accepts consists of hex digits, '.' and ':' only (so it can never carry one of
the internal-only name suffixes), and the result has 16 bytes. -/
theorem C15_ip_literal_alphabet (s : Bytes) (ip : List UInt8) (h : parseIP s = some ip) :
    (∀ c ∈ s, ipByte c = true) ∧ ip.length = 16 := parseIP_some s ip h

/-- Site host: casket's three tests (IsLoopback, IsInternal, certmagic's SubjectQualifiesForPublicCert) accept exactly the
public DNS names of the specification (not empty, not an IP literal, not localhost / internal-only suffix, well-formed
certificate subject with the wildcard rule) — for every lower-case host without port, of any bytes. -/
theorem C15_host_public_iff (h : Bytes) (hl : toLower h = h) (hs : splitHostPort h = none) :
    (!isLoopback h && !isInternal h && subjectQualifiesForPublicCert h) = publicDNSName h :=
  host_public_iff h hl hs

example : toLower b!"example.com" = b!"example.com" ∧ splitHostPort b!"example.com" = none ∧ publicDNSName b!"example.com" = true := by decide
example : publicDNSName b!"foo.test" = false ∧ publicDNSName b!"10.1.2.3" = false ∧ publicDNSName b!"*.com" = false ∧
    publicDNSName b!"*.example.com" = true ∧ publicDNSName b!"127.example.com" = true := by decide

/-- `bind` host (and the site host under on-demand TLS): IsLoopback ∨ IsInternal is exactly the specification's
"loopback, private or internal-only host" — every textual form of an address in 127/8, ::1, 10/8, 172.16/12, 192.168/16,
fc00::/7, brackets or not, and the names localhost, *.localhost, *.local, *.test, *.example, *.invalid in any case. -/
theorem C15_local_host_iff (l : Bytes) (h1 : splitHostPort l = none) (h2 : splitHostPort (toLower l) = none) :
    (isLoopback l || isInternal l) = localHost l := local_iff l h1 h2

example : splitHostPort b!"::ffff:127.0.0.1" = none ∧ localHost b!"::ffff:127.0.0.1" = true ∧ localHost b!"LOCALHOST" = true ∧
    localHost b!"[fd00::1]" = true ∧ localHost b!"203.0.113.7" = false ∧ localHost b!"" = false := by decide

/-- MANAGED ⇔ QUALIFIES.  markQualifiedForAutoHTTPS marks a site exactly when the specification says it qualifies:
public DNS name (or, with on-demand TLS, any non-local name), not bound to a local interface, not declared with
http:// or port 80, tls not off / e-mail off / manual / self-signed — for all schemes, hosts in scope, ports,
bind values in scope and tls flag combinations. -/
theorem C15_managed_iff_qualifies (c : Site) (hh : hostInScope c.host = true) (hb : bindInScope c.listen = true)
    (hm : c.managed = false) : (markOne c).managed = AutoHTTPSSpec.qualifies c := by
  unfold markOne
  rw [qualifies_eq_spec c hh hb]
  cases h : AutoHTTPSSpec.qualifies c <;> simp [hm]

example : hostInScope b!"example.com" = true ∧ bindInScope b!"" = true ∧ AutoHTTPSSpec.qualifies { host := b!"example.com" } = true ∧
    AutoHTTPSSpec.qualifies { host := b!"example.com", scheme := b!"http", port := b!"80" } = false ∧
    AutoHTTPSSpec.qualifies { host := b!"example.com", listen := b!"127.0.0.1" } = false := by decide

/-- The judged predicate of stream c15.qualify: the model's answer always gets the verdict "ok" (all inputs; outside the
scope the verdict is "ok" by definition of the scope). -/
theorem C15_qualify_model_verdict_ok (c : Site) (hm : c.managed = false) :
    qualifyVerdict c (markOne c).managed = "ok" := by
  unfold qualifyVerdict
  by_cases hs : (!hostInScope c.host || !bindInScope c.listen) = true
  · simp [hs]
  · simp only [hs, Bool.false_eq_true, ↓reduceIte]
    simp only [Bool.or_eq_true, Bool.not_eq_true', not_or, Bool.not_eq_false] at hs
    rw [C15_managed_iff_qualifies c hs.1 hs.2 hm]
    cases AutoHTTPSSpec.qualifies c <;> simp

end Casket.Props.C15
