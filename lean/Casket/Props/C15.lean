import Casket.Proofs.AutoHTTPS
import Casket.Proofs.AutoHTTPSRedirect
import Casket.Proofs.AutoHTTPSSites
import Casket.Proofs.AutoHTTPSTLS
import Casket.Proofs.AutoHTTPSAddr
import Casket.Proofs.AutoHTTPSInspect
import Casket.Proofs.AutoHTTPSAddrIP
import Casket.Proofs.AutoHTTPSSame
import Casket.Proofs.AutoHTTPSAddr6
import Casket.Proofs.AutoHTTPSAddrP
/-
C15 — Automatic HTTPS is applied exactly to qualifying sites, with redirects.

Statements only; helper lemmas live in Casket/Proofs/AutoHTTPS.lean.  The models are in
Casket/Model/AutoHTTPS*.lean (tied to the Go code by the streams c15.host, c15.qualify, c15.addr,
c15.sites, c15.redirect); the property as executable predicates is Casket/Spec/AutoHTTPS.lean — the same
predicates the model driver applies to the implementation's answers.
-/
namespace Casket.Props.C15
open Casket.AutoHTTPS Casket.AutoHTTPSSpec Casket.Generated

/-- The tables and constants regenerated from casket.go, caskettls/tls.go, plugin.go and certmagic are the ones the
specification is written with: default ports 80/443/2015, `localhost`/`.localhost`, the private TLDs, certmagic's internal
suffixes and forbidden characters, e-mail `off`; and QualifiesForManagedTLS compares the site port with the CONFIGURED
HTTP port.  (`decide` over the complete regenerated tables.) -/
theorem C15_tables_match_spec :
    httpPort = b!"80" ∧ httpsPort = b!"443" ∧ qualifiesComparesConfiguredHTTPPort = true ∧ unmanagedEmail = b!"off" ∧ defaultPort = b!"2015" ∧
    loopbackName = b!"localhost" ∧ loopbackSuffix = b!".localhost" ∧
    privateTLDs = [b!".example", b!".invalid", b!".test", b!".local"] ∧
    certInternalNames = [b!"localhost"] ∧ certInternalSuffixes = [b!".localhost", b!".local", b!".home.arpa"] ∧
    certForbiddenChars = forbiddenChars := by decide

/-- Every internal-only suffix of the specification is rejected by one of the three regenerated tables, and nothing else is. -/
theorem C15_internal_suffixes_covered :
    ∀ s, s ∈ internalSuffixes ↔ (s = loopbackSuffix ∨ s ∈ privateTLDs ∨ s ∈ certInternalSuffixes) := by
  intro s
  rw [tables_names.2.1, tables_tlds.1, tables_tlds.2]
  simp only [internalSuffixes, List.mem_cons, List.not_mem_nil, or_false]
  constructor
  · intro h; rcases h with h | h | h | h | h | h <;> simp [h]
  · intro h; rcases h with h | (h | h | h | h) | (h | h | h) <;> simp [h]

/-- The CIDR table of casket.IsInternal with Go's mask arithmetic (IPNet.Contains, IPv4-mapped addresses unwrapped)
is membership in 10/8, 172.16/12, 192.168/16, fc00::/7 — for every 16-byte address. -/
theorem C15_private_ranges (ip : List UInt8) (hlen : ip.length = 16) :
    privateNetworks.any (fun n => netContains n ip) = privateIP ip :=
  netContains_private ip hlen

/-- The text of whatever net.ParseIP accepts consists of hex digits, '.' and ':' only (so it can never carry one of
the internal-only name suffixes), and the result has 16 bytes. -/
theorem C15_ip_literal_alphabet (s : Bytes) (ip : List UInt8) (h : parseIP s = some ip) :
    (∀ c ∈ s, ipByte c = true) ∧ ip.length = 16 := parseIP_some s ip h

/-- Site host: casket's three tests (IsLoopback, IsInternal, certmagic's SubjectQualifiesForPublicCert) accept exactly the
public DNS names of the specification (not empty, not an IP literal, not localhost / internal-only suffix, well-formed
certificate subject with the wildcard rule) — for every lower-case host without port, of any bytes. -/
theorem C15_host_public_iff (h : Bytes) (hl : toLower h = h) (hs : splitHostPort h = none) :
    (!isLoopback h && !isInternal h && subjectQualifiesForPublicCert h) = publicDNSName h :=
  host_public_iff h hl hs

example : toLower b!"example.com" = b!"example.com" ∧ splitHostPort b!"example.com" = none ∧ publicDNSName b!"example.com" = true := by decide
example : publicDNSName b!"foo.test" = false ∧ publicDNSName b!"10.1.2.3" = false ∧ publicDNSName b!"*.com" = false ∧
    publicDNSName b!"*.example.com" = true ∧ publicDNSName b!"127.example.com" = true := by decide

/-- `bind` host (and the site host under on-demand TLS): IsLoopback ∨ IsInternal is exactly the specification's
"loopback, private or internal-only host" — every textual form of an address in 127/8, ::1, 10/8, 172.16/12, 192.168/16,
fc00::/7, brackets or not, and the names localhost, *.localhost, *.local, *.test, *.example, *.invalid in any case. -/
theorem C15_local_host_iff (l : Bytes) (h1 : splitHostPort l = none) (h2 : splitHostPort (toLower l) = none) :
    (isLoopback l || isInternal l) = localHost l := local_iff l h1 h2

example : splitHostPort b!"::ffff:127.0.0.1" = none ∧ localHost b!"::ffff:127.0.0.1" = true ∧ localHost b!"LOCALHOST" = true ∧
    localHost b!"[fd00::1]" = true ∧ localHost b!"203.0.113.7" = false ∧ localHost b!"" = false := by decide

/-- MANAGED ⇔ QUALIFIES, for every pair of configured ports.  markQualifiedForAutoHTTPS marks a site exactly when the
specification says it qualifies: public DNS name (or, with on-demand TLS, any non-local name), not bound to a local interface,
not declared with http:// or on the HTTP port (the configured one), tls not off / e-mail off / manual / self-signed — for all
schemes, hosts in scope, ports, bind values in scope and tls flag combinations. -/
theorem C15_managed_iff_qualifies (P : Ports) (c : Site) (hh : hostInScope c.host = true) (hb : bindInScope c.listen = true)
    (hm : c.managed = false) : (markOneP P c).managed = AutoHTTPSSpec.qualifies P c := by
  unfold markOneP
  rw [qualifies_eq_spec P c hh hb]
  cases h : AutoHTTPSSpec.qualifies P c <;> simp [hm]

example : hostInScope b!"example.com" = true ∧ bindInScope b!"" = true ∧ AutoHTTPSSpec.qualifies Ports.std { host := b!"example.com" } = true ∧
    AutoHTTPSSpec.qualifies Ports.std { host := b!"example.com", scheme := b!"http", port := b!"80" } = false ∧
    AutoHTTPSSpec.qualifies Ports.std { host := b!"example.com", listen := b!"127.0.0.1" } = false ∧
    AutoHTTPSSpec.qualifies ⟨b!"8080", b!"8443"⟩ { host := b!"example.com", port := b!"8080" } = false ∧
    AutoHTTPSSpec.qualifies ⟨b!"8080", b!"8443"⟩ { host := b!"example.com", port := b!"80" } = true := by decide

/-- The judged predicate of stream c15.qualify: the model's answer always gets the verdict "ok" (all inputs, all ports; outside the
scope the verdict is "ok" by definition of the scope). -/
theorem C15_qualify_model_verdict_ok (P : Ports) (c : Site) (hm : c.managed = false) :
    qualifyVerdict P c (markOneP P c).managed = "ok" := by
  unfold qualifyVerdict
  by_cases hs : (!hostInScope c.host || !bindInScope c.listen) = true
  · simp [hs]
  · simp only [hs, Bool.false_eq_true, ↓reduceIte]
    simp only [Bool.or_eq_true, Bool.not_eq_true', not_or, Bool.not_eq_false] at hs
    rw [C15_managed_iff_qualifies P c hs.1 hs.2 hm]
    cases AutoHTTPSSpec.qualifies P c <;> simp

/-! ### plain-HTTP declarations and managed sites through the whole pipeline

`P : Ports` = the configured HTTP / HTTPS ports; `P.ok` = both non-empty, different, and the HTTP port is not the default port 2015.
The default ports satisfy it (`Ports.std_ok`). -/

/-- The pipeline (mark, enable, make redirects, MakeServers) returns the declared sites, each taken through its own
stages and in order, followed by the synthesised redirect sites (which MakeServers leaves unchanged). -/
theorem C15_pipeline_shape (P : Ports) (hP : P.ok) (ds : List Site) :
    pipelineP P ds = ds.map (fun d => stageF P (stageE P d)) ++ redirsGo P (ds.map (stageE P)) (ds.map (stageE P)) 0 [] :=
  pipeline_eq hP ds

/-- The ORDER in which activateHTTPS calls the stages, regenerated from its source: mark, (obtain), enable, make redirects — the
order in which `pipeline` composes them; the redirect list is stored back; activateHTTPS is the parsing callback of `tls`.
(A syntactic tie; stream c15.activate additionally runs the real activateHTTPS.) -/
theorem C15_stage_order :
    activateStages = ["markQualifiedForAutoHTTPS", "ObtainCertAsync", "enableAutoHTTPS", "makePlaintextRedirects", "RenewManagedCertificates"] ∧
    activateStoresRedirects = true ∧ "tls:activateHTTPS" ∈ parsingCallbacks ∧
    (∀ P ds, pipelineP P ds = makeServersP P (makePlaintextRedirectsP P (enableAutoHTTPSP P (markQualifiedP P ds)))) := by
  refine ⟨by decide, by decide, by decide, fun _ _ => rfl⟩

/-- Sites declared as plain HTTP (scheme http, or on the configured HTTP port) are never marked managed and never have TLS
enabled at the end of the pipeline — whatever the host, the bind value and the tls directive (which may have set Enabled). -/
theorem C15_http_sites_never_tls (P : Ports) (hP : P.ok) (ds : List Site) (i : Nat) (d : Site) (hd : ds[i]? = some d)
    (hm : d.managed = false) (hh : declaredHTTP P d.scheme d.port = true) :
    (markOneP P d).managed = false ∧ ((pipelineP P ds)[i]?).map (·.enabled) = some false := by
  have h := http_site_no_tls d hm hh
  refine ⟨h.1, ?_⟩
  have hi : i < ds.length := by
    rcases Nat.lt_or_ge i ds.length with h | h
    · exact h
    · rw [List.getElem?_eq_none h] at hd; cases hd
  rw [pipeline_eq hP, List.getElem?_append_left (by simpa using hi), List.getElem?_map, hd]
  simp [h.2]

example : declaredHTTP Ports.std b!"http" b!"80" = true ∧ declaredHTTP Ports.std b!"" b!"80" = true ∧
    declaredHTTP Ports.std b!"https" b!"443" = false ∧ declaredHTTP ⟨b!"8080", b!"8443"⟩ b!"" b!"8080" = true ∧
    Ports.ok ⟨b!"8080", b!"8443"⟩ := by
  refine ⟨by decide, by decide, by decide, by decide, ⟨by decide, by decide, by decide, by decide⟩⟩

/-- A site marked managed is served over TLS at the end of the pipeline. -/
theorem C15_managed_sites_serve_tls (P : Ports) (hP : P.ok) (d : Site) (hf : Fresh d) (hm : (markOneP P d).managed = true) :
    (stageF P (stageE P d)).enabled = true := managed_site_tls hP d hf hm

example : Fresh { host := b!"example.com" } ∧ (markOne { host := b!"example.com" }).managed = true := by
  refine ⟨⟨rfl, rfl, rfl, by decide⟩, by decide⟩

/-! ### redirect synthesis (makePlaintextRedirects), for every list of sites and every pair of configured ports -/

/-- SOUNDNESS: every synthesised site is `redirPlaintextHost c` of a declared site `c` that has TLS on, no_redirect off and is
not declared as plain HTTP (so no redirect ever points back at an HTTP address), and no declared site of that host sits on
the HTTP port (a declared plaintext site is never shadowed). -/
theorem C15_redirect_sites_sound (P : Ports) (hP : P.ok) (e : List Site) (r : Site) (hr : r ∈ redirsGo P e e 0 []) :
    ∃ (k : Nat) (c : Site), e[k]? = some c ∧ wantsRedirectP P c = true ∧ r = redirPlaintextHostP P c ∧ NoPlain P e c.host := by
  obtain ⟨k, c, _, h1, h2, h3, h4⟩ := (inv_final hP e).sound r hr
  exact ⟨k, c, h1, h2, h3, h4⟩

/-- NO REDIRECT POINTS BACK AT AN HTTP ADDRESS: the site a synthesised redirect goes to ends the pipeline with TLS on, and it was
not declared with scheme http or on the HTTP port. -/
theorem C15_redirect_never_to_http (P : Ports) (hP : P.ok) (e : List Site) (r : Site) (hr : r ∈ redirsGo P e e 0 []) :
    ∃ c ∈ e, r = redirPlaintextHostP P c ∧ (stageF P c).enabled = true ∧ c.scheme ≠ b!"http" ∧ c.port ≠ P.http := by
  obtain ⟨k, c, hk, hw, hrc, _⟩ := C15_redirect_sites_sound P hP e r hr
  refine ⟨c, List.mem_of_getElem? hk, hrc, ?_⟩
  have hw' := hw
  unfold wantsRedirectP at hw'
  simp only [Bool.and_eq_true, bne_iff_ne, ne_eq] at hw'
  refine ⟨?_, hw'.1.2, hw'.2⟩
  rw [stageF_enabled]
  simp [hw'.1.1.1, hw'.1.2, hw'.2]

/-- At most one redirect site per host. -/
theorem C15_redirect_sites_one_per_host (P : Ports) (hP : P.ok) (e : List Site) : ((redirsGo P e e 0 []).map (·.host)).Nodup :=
  (inv_final hP e).nodup

/-- The redirect of the site synthesised for `c` goes to the port `c` is finally served on — its explicit port, else the HTTPS
port for managed / on-demand certificates, else the default port — and that port is written empty exactly when it is the
(configured) HTTPS port. -/
theorem C15_redirect_target_port (P : Ports) (hP : P.ok) (c : Site) (hman : c.hasManager = true) (hw : wantsRedirectP P c = true) :
    ∃ t, (redirPlaintextHostP P c).redir = some t ∧ portSuffixOK P t (stageF P c).port = true ∧ (stageF P c).enabled = true := by
  obtain ⟨t, h1, h2⟩ := redirect_target_port hP c hman hw
  refine ⟨t, h1, h2, ?_⟩
  rw [stageF_enabled]
  unfold wantsRedirectP at hw
  simp only [Bool.and_eq_true, bne_iff_ne, ne_eq] at hw
  simp [hw.1.1.1, hw.1.2, hw.2]

example : wantsRedirect { host := b!"example.com", enabled := true, manual := true } = true ∧
    (redirPlaintextHost { host := b!"example.com", enabled := true, manual := true }).redir = some b!"2015" := by decide

/-- COMPLETENESS: every HTTPS site that wants a redirect (TLS on, no_redirect off, not declared as plain HTTP) and whose host
has no declared site on the HTTP port is covered by a synthesised site of its host.  (Total since the repair
"fix: a site on the HTTPS port suppresses its siblings' redirect only if it makes one itself".) -/
theorem C15_redirect_complete (P : Ports) (hP : P.ok) (e : List Site) (k : Nat) (c : Site) (hk : e[k]? = some c)
    (hw : wantsRedirectP P c = true) (hnp : NoPlain P e c.host) : Covered (redirsGo P e e 0 []) c.host := by
  have hlt : k < e.length := by
    rcases Nat.lt_or_ge k e.length with h | h
    · exact h
    · rw [List.getElem?_eq_none h] at hk; cases hk
  rcases (inv_final hP e).complete k c hlt hk hw hnp with h | ⟨j, cj, hj, hcj, _⟩
  · exact h
  · rw [List.getElem?_eq_none hj] at hcj; cases hcj

/-- the two sites of the former finding C15-redirect-deferred-to-443-sibling: `a:443` with no_redirect, `a:5001` -/
def witnessSites : List Site :=
  [{ host := b!"a", port := b!"443", scheme := b!"https", enabled := true, noRedirect := true },
   { host := b!"a", port := b!"5001", enabled := true }]

/-- …for which the repaired code synthesises the redirect to port 5001 (regression example of the former gap). -/
theorem C15_redirect_443_sibling_regression :
    makePlaintextRedirects witnessSites = witnessSites ++ [redirPlaintextHost { host := b!"a", port := b!"5001", enabled := true }] ∧
    (redirPlaintextHost { host := b!"a", port := b!"5001", enabled := true }).redir = some b!"5001" := by decide

/-- THE SITE-SET VERDICT (streams c15.sites, c15.activate): applied to what the model pipeline shows, the judged predicate
`sitesVerdict` — managed ⇔ qualifies, managed ⇒ TLS, plain HTTP ⇒ no TLS, every synthesised site a plain site on the HTTP port for a
host without plaintext site whose redirect goes to an HTTPS site of that host on the right port, one per host, every HTTPS site
covered — answers "ok".  For all lists of fresh sites and all configured ports. -/
theorem C15_sites_model_verdict_ok (P : Ports) (hP : P.ok) (ds : List Site) (hf : ∀ d ∈ ds, Fresh d) :
    sitesVerdict P (ds.map (observeSite P)) ((redirsGo P (ds.map (stageE P)) (ds.map (stageE P)) 0 []).map observeRedirect) = "ok" :=
  sites_verdict hP ds hf

/-- Sites built the way the harness and the Casketfile front end build them are fresh. -/
theorem C15_siteOf_fresh (a : Address) (bind : Bytes) (v : TLSVariant) : Fresh (siteOf a bind v) := by
  unfold siteOf; exact applyTLS_fresh v _ ⟨rfl, rfl, rfl, by simp⟩

/-! ### several `tls` directives in one site block -/

/-- THE DIRECTIVE LOOP: setupTLS's loop over all `tls` directives of a site block (`applyTLSs`: in order, on the same config,
`tls off` returns at once) leaves exactly the flags of the spec's order-free reading `readTLS` — off as soon as a directive says
off, manual as soon as ANY directive that counts names a certificate or a `load` directory, self-signed / no_redirect / on-demand
likewise, the last e-mail written.  For every list of directives and every config. -/
theorem C15_tls_directives_read (vs : List TLSVariant) (c : Site) : applyTLSs vs c = readTLS vs c :=
  applyTLSs_eq_readTLS vs c

/-- A later directive never takes back what an earlier one set: Manual (own certificate), SelfSigned, NoRedirect and
on-demand survive every further `tls` directive of the block, e.g. an imported `tls { protocols … }`. -/
theorem C15_tls_flags_sticky (vs ws : List TLSVariant) (c : Site) :
    ((applyTLSs vs c).manual = true → (applyTLSs ws (applyTLSs vs c)).manual = true) ∧
    ((applyTLSs vs c).selfSigned = true → (applyTLSs ws (applyTLSs vs c)).selfSigned = true) ∧
    ((applyTLSs vs c).noRedirect = true → (applyTLSs ws (applyTLSs vs c)).noRedirect = true) :=
  let h := applyTLSs_keeps ws (applyTLSs vs c)
  ⟨h.1, h.2.1, h.2.2.1⟩

/-- A site whose block names its own certificate in some directive that counts (no `tls off` before it) is never marked
managed, whatever other `tls` directives the block has before or after it and whatever its address — unless it is on-demand. -/
theorem C15_own_certificate_never_managed (P : Ports) (a : Address) (bind : Bytes) (vs : List TLSVariant)
    (hc : (tlsRead vs).any tlsNamesCertificate = true) (hod : (tlsRead vs).any (fun v => tlsActive v && v.onDemand) = false) :
    (markOneP P (siteOfL a bind vs)).managed = false := by
  have hm : (siteOfL a bind vs).manual = true := by unfold siteOfL; rw [applyTLSs_eq_readTLS]; simp [readTLS, hc]
  have ho : (siteOfL a bind vs).onDemand = false := by unfold siteOfL; rw [applyTLSs_eq_readTLS]; simp [readTLS, hod]
  have hg : (siteOfL a bind vs).managed = false := (applyTLSs_fresh vs _ ⟨rfl, rfl, rfl, by simp⟩).1
  unfold markOneP qualifiesP qualifiesForManagedTLSP
  simp [hm, ho, hg]

example : (tlsRead [{ base := .manual }, { base := .block }]).any tlsNamesCertificate = true ∧
    (tlsRead [{ base := .manual }, { base := .block }]).any (fun v => tlsActive v && v.onDemand) = false ∧
    (siteOfL { host := b!"example.com" } [] [{ base := .manual }, { base := .block }]).manual = true ∧
    (siteOfL { host := b!"example.com" } [] [{ base := .load }, { base := .block, noRedirect := true }]).manual = true := by decide

/-- Sites built from a list of directives are fresh, so every pipeline theorem above applies to them. -/
theorem C15_siteOfL_fresh (a : Address) (bind : Bytes) (vs : List TLSVariant) : Fresh (siteOfL a bind vs) :=
  applyTLSs_fresh vs _ ⟨rfl, rfl, rfl, by simp⟩

/-- one directive is the list of one -/
theorem C15_siteOfL_single (a : Address) (bind : Bytes) (v : TLSVariant) : siteOfL a bind [v] = siteOf a bind v := by
  unfold siteOfL siteOf applyTLSs applyTLSs
  split <;> rfl

/-! ### the answer of a synthesised site -/

/-- %-decoding the default encoding of a path gives the path back (net/url escape / unescape in path mode). -/
theorem C15_escape_roundtrip (p : Bytes) : unescapePath (escapePath p) = some p := unescape_escape p

/-- THE REDIRECT ANSWER (stream c15.redirect): for every port of the HTTPS site, every Host header in scope and every request
target net/http can parse (origin-form or "*"), the handler answers 301 with
Location = https://<same host, IPv6 literal in brackets>[:port unless it is the HTTPS port]<same path (equal after %-decoding) and query>;
for every configured HTTPS port. -/
theorem C15_redirect_location (P : Ports) (port hdr target uri : Bytes) (hu : requestURI target = .ok uri) :
    redirectVerdict P port hdr target redirStatus (redirLocation (capturedPortP P port) hdr uri) = "ok" :=
  redirect_verdict_ok P port hdr target uri hu

example : hostHeaderInScope b!"[::1]:80" = true ∧ requestURI b!"/a%2Fb?x=1" = .ok b!"/a%2Fb?x=1" ∧
    redirLocation (capturedPort b!"8443") b!"[::1]:80" b!"/a%2Fb?x=1" = b!"https://[::1]:8443/a%2Fb?x=1" ∧
    redirLocation (capturedPort b!"443") b!"example.com:80" b!"/" = b!"https://example.com/" := by decide

/-- The probe request of stream c15.sites (GET http://probe.test/p?q=1 to every synthesised site) reads back exactly the port
the handler captured: the judge's parse of the observed Location is the inverse of the handler model on every numeric port. -/
theorem C15_probe_roundtrip (rp : Bytes) (hd : rp.all isDigit = true) :
    probeTarget (redirLocation rp probeHost probeURI) = some rp := probe_roundtrip rp hd

/-- The port captured for a site (default flags) is what `redirPlaintextHost` stores. -/
theorem C15_captured_port (P : Ports) (p : Bytes) : (redirPlaintextHostP P { port := p }).redir = some (capturedPortP P p) := by
  unfold redirPlaintextHostP; simp

/-! ### site addresses: the scheme/port table, and the specification's reader -/

/-- THE SCHEME/PORT TABLE of standardizeAddress, for every well-formed `[scheme://]name[:port]` (scheme: letters in any case;
name: letters, digits, `- . _ *`; port: digits): the text survives the `:http`/`:https` replacement and the `//` normalisation,
net/url.Parse splits it as expected, and the result is — port: the written one, else the configured HTTP/HTTPS port for http/https,
else none; `http` on the HTTPS port and `https` on the HTTP port are refused; scheme: the written one (lower-cased), else http/https
for the configured HTTP/HTTPS port.  For all configured ports. -/
theorem C15_standardize_table (P : Ports) (a : AddrParts) (hok : a.ok) :
    standardizeAddressP P (composeAddr a) = expectedAddrP P a := standardize_composeP P a hok

/-- the same at the default ports, in the form first proved (`standardizeAddress` = `standardizeAddressP Ports.std`) -/
theorem C15_standardize_table_std (a : AddrParts) (hok : a.ok) : standardizeAddress (composeAddr a) = expectedAddr a :=
  standardize_compose a hok

/-- With the configured ports moved, a scheme-less address on the HTTP port IS an http address and one on the HTTPS port an https
address (the point of the seeded regression C15-scheme-inference-default-ports), and the judge's reader of stream c15.addr says
the same for every well-formed address (which is in the judge's scope). -/
theorem C15_scheme_follows_configured_ports (P : Ports) (a : AddrParts) (hok : a.ok) (r : Address)
    (h : standardizeAddressP P (composeAddr a) = .ok r) :
    (r.normalize.scheme, r.normalize.host, r.normalize.port) = readAddrP P (composeAddr a) ∧ wellFormedAddr (composeAddr a) = true :=
  ⟨reader_agreesP P a hok r h, wellFormed_compose a hok⟩

example : (standardizeAddressP ⟨b!"8080", b!"8443"⟩ b!"example.com:8080").toOption.map (fun r => (r.scheme, r.port)) = some (b!"http", b!"8080") ∧
    (standardizeAddressP ⟨b!"8080", b!"8443"⟩ b!"example.com:80").toOption.map (fun r => (r.scheme, r.port)) = some (b!"", b!"80") ∧
    (standardizeAddressP ⟨b!"8080", b!"8443"⟩ b!"https://example.com").toOption.map (·.port) = some b!"8443" ∧
    (standardizeAddressP ⟨b!"8080", b!"8443"⟩ b!"https://example.com:8080").toOption.isNone = true := by decide

example : AddrParts.ok { scheme := b!"HTTP", host := b!"Example.COM", port := some b!"8080" } := by
  refine ⟨by decide, by decide, ?_⟩
  intro p hp; cases hp; exact ⟨by decide, by decide⟩

example : (standardizeAddress b!"example.com:80").toOption.map (fun r => (r.scheme, r.host, r.port)) = some (b!"http", b!"example.com", b!"80") ∧
    (standardizeAddress b!"https://example.com:80").toOption.isNone = true ∧
    (standardizeAddress b!"https://example.com").toOption.map (·.port) = some b!"443" := by decide

/-- The specification's own reader of an address text (`readAddr`, used by the judge of c15.sites) gives the same table. -/
theorem C15_spec_reader_table (a : AddrParts) (hok : a.ok) :
    readAddr (composeAddr a) =
      (tableScheme (toLower a.scheme) (tablePort (toLower a.scheme) a.port), toLower a.host, tablePort (toLower a.scheme) a.port) :=
  readAddr_compose a hok

/-- …so, for every well-formed address whose host is not an IP literal, scheme, host and port as the model's
standardizeAddress + Normalize leave them are what the judge reads from the text: the judge's "declared as plain HTTP",
its host class and the model's declared site talk about the same site. -/
theorem C15_spec_reader_agrees (a : AddrParts) (hok : a.ok) (hnip : parseIP a.host = none) (r : Address)
    (h : standardizeAddress (composeAddr a) = .ok r) :
    (r.normalize.scheme, r.normalize.host, r.normalize.port) = readAddr (composeAddr a) :=
  reader_agrees a hok hnip r h

/-- The host Normalize leaves for such an address is in the scope of the qualification theorem: lower case, no port. -/
theorem C15_normalized_host_in_scope (a : AddrParts) (hok : a.ok) (hnip : parseIP a.host = none) (r : Address)
    (h : standardizeAddress (composeAddr a) = .ok r) : hostInScope r.normalize.host = true := by
  have := reader_agrees a hok hnip r h
  rw [readAddr_compose a hok] at this
  have hh : r.normalize.host = toLower a.host := by injection this with _ h2; injection h2
  rw [hh]
  unfold hostInScope
  rw [toLower_idem]
  have hno := (not_mem_name (toLower a.host) (lower_ok a hok).2.1).1
  simp [splitHostPort_none_of_no_colon _ hno]

/-- Address.VHost of a well-formed address is the text without its scheme: `name[:port]` as written. -/
theorem C15_vhost_without_scheme (a : AddrParts) (hok : a.ok) (hnip : parseIP a.host = none) (r : Address)
    (h : standardizeAddress (composeAddr a) = .ok r) : r.normalize.vhost = a.host ++ portPart a :=
  vhost_compose a hok hnip r h

/-- Address.Key of a well-formed address, in closed form: scheme of the table, lower-cased name, and the port if it was
written — except that a written 80/443 without scheme is absorbed into the inferred scheme. -/
theorem C15_key_formula (a : AddrParts) (hok : a.ok) (hnip : parseIP a.host = none) (r : Address)
    (h : standardizeAddress (composeAddr a) = .ok r) : r.normalize.key = expectedKey a :=
  key_compose a hok hnip r h

/-- ROUND TRIP through the site key (what `normalizedKey` / `GetConfig` rely on): the key is itself a well-formed
address; standardizeAddress + Normalize applied to it give the same scheme, host and port, and the same key again. -/
theorem C15_key_roundtrip (a : AddrParts) (hok : a.ok) (hnip : parseIP a.host = none) (hnip' : parseIP (toLower a.host) = none)
    (r : Address) (h : standardizeAddress (composeAddr a) = .ok r) :
    ∃ r', standardizeAddress r.normalize.key = .ok r' ∧ r'.normalize.scheme = r.normalize.scheme ∧
      r'.normalize.host = r.normalize.host ∧ r'.normalize.port = r.normalize.port ∧ r'.normalize.key = r.normalize.key :=
  key_roundtrip a hok hnip hnip' r h

example : expectedKey { host := b!"Example.COM", port := some b!"80" } = b!"http://example.com" ∧
    expectedKey { scheme := b!"HTTPS", host := b!"example.com", port := some b!"8443" } = b!"https://example.com:8443" ∧
    expectedKey { host := b!"example.com", port := some b!"2015" } = b!"example.com:2015" ∧
    parseIP b!"Example.COM" = none ∧ parseIP b!"example.com" = none := by decide

/-! ### the duplicate bookkeeping of InspectServerBlocks ("duplicate site key" / "duplicate site address")

`inspect` is the model of the address loop of InspectServerBlocks (stream c15.inspect ties it to the real loader);
`normalizedAddr` = standardizeAddress + Normalize, `Address.key` = Address.Key(), `Address.siteString` = Address.String() of the
address with the default port filled in.  These statements are meant to be cited by C01. -/

/-- ACCEPTED ⇔ every address standardises and no two of them have the same normalised key or the same site string; the configs
created are the normalised addresses, in order. -/
theorem C15_inspect_accepts_iff (ks : List Bytes) (as : List Address) :
    inspect ks = .ok as ↔
      ks.map normalizedAddr = as.map some ∧ (as.map Address.key).Nodup ∧ (as.map Address.siteString).Nodup :=
  inspect_ok_iff ks as

/-- What C01 needs: after InspectServerBlocks has accepted a Casketfile, the site keys are pairwise different, and so are the
site addresses (scheme://host[:port]/path with defaults filled in); one config per address, in order. -/
theorem C15_accepted_sites_distinct (ks : List Bytes) (as : List Address) (h : inspect ks = .ok as) :
    as.length = ks.length ∧ (as.map Address.key).Nodup ∧ (as.map Address.siteString).Nodup := by
  obtain ⟨hm, hk, hs⟩ := (inspect_ok_iff ks as).mp h
  refine ⟨?_, hk, hs⟩
  have := congrArg List.length hm
  simpa using this.symm

/-- REJECTED AS DUPLICATES ⇔ two normalised keys or two site strings are equal (for addresses that all standardise), and the
error says which: `duplicate site key` only if two keys coincide, `duplicate site address` only if two site strings do. -/
theorem C15_inspect_duplicates_iff (ks : List Bytes) (hall : ∀ k ∈ ks, (normalizedAddr k).isSome = true) :
    ((∃ as, inspect ks = .ok as) ↔
      ((normalizedAddrs ks).map Address.key).Nodup ∧ ((normalizedAddrs ks).map Address.siteString).Nodup) ∧
    (∀ e, inspect ks = .error e →
      (e = .dupKey ∧ ¬ ((normalizedAddrs ks).map Address.key).Nodup) ∨
      (e = .dupAddr ∧ ¬ ((normalizedAddrs ks).map Address.siteString).Nodup)) :=
  inspect_duplicates_iff ks hall

example : (normalizedAddr b!"example.com").isSome = true ∧ (normalizedAddr b!"EXAMPLE.com:2015").isSome = true ∧
    (normalizedAddrs [b!"example.com", b!"EXAMPLE.com:2015"]).map Address.key = [b!"example.com", b!"example.com:2015"] ∧
    (normalizedAddrs [b!"example.com", b!"EXAMPLE.com:2015"]).map Address.siteString = [b!"http://example.com:2015", b!"http://example.com:2015"] := by decide

/-- A defect of Address.Key outside C15's property, recorded because C01 builds on the keys: for a bracketed IPv6 literal the
explicit port is not part of the key (the offset arithmetic of Key assumes the host text of the original), so two sites
that differ only in port are rejected as `duplicate site key` (confirmed on the real loader: stream c15.inspect, `[::1]:81,[::1]:82`). -/
theorem C15_key_ipv6_drops_port_witness :
    (normalizedAddrs [b!"[::1]:81", b!"[::1]:82"]).map Address.key = [b!"::1", b!"::1"] ∧
    (normalizedAddrs [b!"[::1]:81", b!"[::1]:82"]).map (·.port) = [b!"81", b!"82"] ∧
    (match inspect [b!"[::1]:81", b!"[::1]:82"] with | .error .dupKey => true | _ => false) = true := by decide

/-! ### IP-literal hosts, Address.String, and "duplicate ⇔ same site" -/

/-- An IPv4 literal is its own canonical text: whatever net.ParseIP accepts in dotted form is what IP.String prints (Go refuses
leading zeros), so Normalize leaves every host written with name bytes — names and IPv4 literals alike — unchanged up to case. -/
theorem C15_ipv4_literal_canonical (h : Bytes) (hn : h.all nameByte = true) : canonHost h = h := canonHost_name h hn

example : canonHost b!"10.0.0.1" = b!"10.0.0.1" ∧ (parseIP b!"10.0.0.1").isSome = true ∧ parseIP b!"010.0.0.1" = none ∧
    canonHost b!"[::1]" = b!"[::1]" ∧ canonHost b!"0:0::1" = b!"::1" := by decide

/-- `C15_spec_reader_agrees`, `C15_vhost_without_scheme`, `C15_key_formula` and `C15_key_roundtrip` without the "not an IP literal"
hypothesis: they hold for EVERY well-formed `[scheme://]host[:port]`, IPv4-literal hosts included. -/
theorem C15_address_theorems_all_hosts (a : AddrParts) (hok : a.ok) (r : Address) (h : standardizeAddress (composeAddr a) = .ok r) :
    (r.normalize.scheme, r.normalize.host, r.normalize.port) = readAddr (composeAddr a) ∧
    r.normalize.vhost = a.host ++ portPart a ∧
    r.normalize.key = expectedKey a ∧
    (∃ r', standardizeAddress r.normalize.key = .ok r' ∧ r'.normalize.scheme = r.normalize.scheme ∧
      r'.normalize.host = r.normalize.host ∧ r'.normalize.port = r.normalize.port ∧ r'.normalize.key = r.normalize.key) :=
  ⟨reader_agrees_all a hok r h, vhost_compose_all a hok r h, key_compose_all a hok r h, key_roundtrip_all a hok r h⟩

example : AddrParts.ok { scheme := b!"https", host := b!"10.0.0.1", port := some b!"8443" } := by
  refine ⟨by decide, by decide, ?_⟩
  intro p hp; cases hp; exact ⟨by decide, by decide⟩

/-- Address.String of the normalised address with the default port filled in — the text InspectServerBlocks books a site under —
is the address text of the EFFECTIVE site: scheme http unless https is written or implied by port 443, lower-cased host,
port (2015 if none) written unless it is the scheme's default. -/
theorem C15_site_string_formula (a : AddrParts) (hok : a.ok) (hstd : a.stdScheme) (r : Address)
    (h : standardizeAddress (composeAddr a) = .ok r) : r.normalize.siteString = composeAddr (effectiveParts a) :=
  siteString_compose a hok hstd r h

/-- ROUND TRIP through Address.String: standardizeAddress applied to the site string gives the effective site back, and the site
string of that is the same text again (so on the image of standardizeAddress with explicit scheme and port it is the identity). -/
theorem C15_site_string_roundtrip (a : AddrParts) (hok : a.ok) (hstd : a.stdScheme) (r : Address)
    (h : standardizeAddress (composeAddr a) = .ok r) :
    standardizeAddress r.normalize.siteString = .ok (effectiveAddr a) ∧
    (effectiveAddr a).normalize.siteString = r.normalize.siteString :=
  siteString_roundtrip a hok hstd r h

example : effective { host := b!"Example.COM" } = (b!"http", b!"example.com", b!"2015") ∧
    effective { host := b!"example.com", port := some b!"443" } = (b!"https", b!"example.com", b!"443") ∧
    composeAddr (effectiveParts { scheme := b!"HTTP", host := b!"example.com", port := some b!"80" }) = b!"http://example.com" := by decide

/-- DUPLICATE ⇔ SAME SITE: two well-formed addresses (scheme none/http/https, name or IPv4-literal host, optional numeric port)
clash in InspectServerBlocks — same normalised key or same site string — exactly when they denote the same effective site. -/
theorem C15_clash_iff_same_site (a b : AddrParts) (hoa : a.ok) (hob : b.ok) (hsa : a.stdScheme) (hsb : b.stdScheme)
    (ra rb : Address) (ha : standardizeAddress (composeAddr a) = .ok ra) (hb : standardizeAddress (composeAddr b) = .ok rb) :
    (ra.normalize.key = rb.normalize.key ∨ ra.normalize.siteString = rb.normalize.siteString) ↔ effective a = effective b :=
  clash_iff_same_site a b hoa hob hsa hsb ra rb ha hb

/-- …hence two such addresses are accepted together by InspectServerBlocks exactly when they denote different sites… -/
theorem C15_inspect_pair_iff (a b : AddrParts) (hoa : a.ok) (hob : b.ok) (hsa : a.stdScheme) (hsb : b.stdScheme)
    (ra rb : Address) (ha : standardizeAddress (composeAddr a) = .ok ra) (hb : standardizeAddress (composeAddr b) = .ok rb) :
    (∃ as, inspect [composeAddr a, composeAddr b] = .ok as) ↔ effective a ≠ effective b :=
  inspect_pair a b hoa hob hsa hsb ra rb ha hb

/-- …and the effective site is what the judge of stream c15.inspect reads from the text (`denotes`). -/
theorem C15_denotes_is_effective (a : AddrParts) (hok : a.ok) :
    denotes (composeAddr a) = ((effective a).1, (effective a).2.1, (effective a).2.2, []) := denotes_compose a hok

/-! ### bracketed IPv6 literals -/

/-- THE SCHEME/PORT TABLE for `[scheme://][v6][:port]`, any IPv6 notation net.ParseIP accepts (compressed or not, upper or lower
case, embedded IPv4; no zone), with and without port: same table as for names, the host is the literal without brackets. -/
theorem C15_standardize_table_ipv6 (P : Ports) (a : V6Parts) (hok : a.ok) :
    standardizeAddressP P (composeAddr6 a) = expectedAddr6P P a := standardize_compose6P P a hok

example : V6Parts.ok { scheme := b!"https", v6 := b!"2001:DB8::1", port := some b!"8443" } ∧ V6Parts.ok { v6 := b!"::ffff:10.0.0.1" } := by
  refine ⟨⟨by decide, by decide, by decide, ?_⟩, ⟨by decide, by decide, by decide, ?_⟩⟩
  · intro p hp; cases hp; exact ⟨by decide, by decide⟩
  · intro p hp; cases hp

/-- After Normalize the host is net.IP.String of the literal (lower case): every notation of an address gives the same host;
VHost keeps the text as written, brackets and port included. -/
theorem C15_normalized_ipv6 (a : V6Parts) (hok : a.ok) (r : Address) (h : standardizeAddress (composeAddr6 a) = .ok r) :
    r.normalize.host = toLower (canonHost a.v6) ∧ r.normalize.port = tablePort (toLower a.scheme) a.port ∧
    r.normalize.scheme = tableScheme (toLower a.scheme) (tablePort (toLower a.scheme) a.port) ∧
    r.normalize.vhost = hostPort6 a := by
  have hn := normalized_compose6 a hok r h
  exact ⟨by rw [hn], by rw [hn], by rw [hn], vhost_compose6 a hok r h⟩

example : toLower (canonHost b!"2001:DB8:0:0::1") = b!"2001:db8::1" ∧ toLower (canonHost b!"::ffff:10.0.0.1") = b!"10.0.0.1" := by decide

/-- Address.Key of a bracketed IPv6 literal written in canonical form, with or without port: scheme prefix and literal — the
explicit port is NEVER part of the key (Key's offset arithmetic assumes the original host text, which has brackets here).
Consequence, with `C15_inspect_duplicates_iff`: `[v6]:p` and `[v6]:q` under the same scheme are rejected as "duplicate site
key" although they are different sites (witness `C15_key_ipv6_drops_port_witness`; real loader: stream c15.inspect).
A defect for C01/C09 to own; C15's property does not depend on it. -/
theorem C15_key_ipv6_drops_port (a : V6Parts) (hok : a.ok) (hcan : toLower (canonHost a.v6) = a.v6) (r : Address)
    (h : standardizeAddress (composeAddr6 a) = .ok r) :
    r.normalize.key = schemePrefix (tableScheme (toLower a.scheme) (tablePort (toLower a.scheme) a.port)) ++ a.v6 :=
  key_compose6_drops_port a hok hcan r h

example : toLower (canonHost b!"::1") = b!"::1" ∧ toLower (canonHost b!"2001:db8::1") = b!"2001:db8::1" := by decide

end Casket.Props.C15
