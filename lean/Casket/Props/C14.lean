import Casket.Proofs.Accounting
/-
C14 — Backend in-flight and failure accounting is exact under concurrency.

Statements only; helper lemmas live in Casket/Proofs/Accounting.lean.  `run c (State.init c n) es`
executes the schedule `es` (any interleaving of the atomic actions of `n` request threads and of
the failure-expiry timers) on the small-step model of Model/Accounting.lean; a theorem of the form
"∀ es s, run … es = some s → P s" therefore says that P holds after every reachable prefix of every
interleaving.  The model is tied to the Go code by the stream `c14.sched`, which replays schedules
on the real `Proxy.ServeHTTP` through a barrier policy.  Atomicity of the individual
`sync/atomic` operations and sequential consistency between them (the Go memory model) are
assumed, not proved.

The theorems are about the model of the code after the `fix:` commit that reserves the slot with
one compare-and-swap (before it, `max_conns 1` let two concurrent requests through).
-/
namespace Casket.Props.C14
open Casket.Accounting

/-- `s` is reachable: some schedule of `n` request threads leads to it -/
def Reachable (c : Cfg) (n : Nat) (s : State) : Prop := ∃ es, run c (State.init c n) es = some s

theorem reachable_wf {c : Cfg} {n : Nat} {s : State} (h : Reachable c n s) : WF c s := by
  obtain ⟨es, hes⟩ := h
  exact wf_run c es _ _ (wf_init c n) hes

/-- In every reachable state, each backend's in-flight counter equals the number of requests
currently being forwarded to it (between the reservation and the deferred decrement), whatever
the outcomes (answer, error, client cancellation, over-long body, panic) and the interleaving. -/
theorem C14_conns_exact (c : Cfg) (n : Nat) (s : State) (hr : Reachable c n s) (h : Nat) :
    getI s.conns h = (forwardingTo s h : Int) :=
  (reachable_wf hr).connsExact h

/-- The cap holds in every reachable state: never more than max_conns requests are being
forwarded to one backend, including the select/reserve window of concurrent requests. -/
theorem C14_maxconns (c : Cfg) (n : Nat) (s : State) (hr : Reachable c n s) (hm : c.maxConns > 0) (h : Nat) :
    forwardingTo s h ≤ c.maxConns := by
  have h1 := (reachable_wf hr).cap hm h
  have h2 := (reachable_wf hr).connsExact h
  omega

/-- When traffic stops (no request is being forwarded) every in-flight counter is zero. -/
theorem C14_conns_zero_at_quiescence (c : Cfg) (n : Nat) (s : State) (hr : Reachable c n s)
    (hq : ∀ pc ∈ s.pcs, pc = PC.done ∨ pc = PC.idle) (h : Nat) : getI s.conns h = 0 := by
  rw [C14_conns_exact c n s hr h]
  have : forwardingTo s h = 0 := by
    unfold forwardingTo
    rw [List.length_eq_zero_iff, List.filter_eq_nil_iff]
    intro pc hpc
    rcases hq pc hpc with rfl | rfl <;> simp
  simp [this]

/-- The failure counter of a backend equals the number of recorded failures whose fail_timeout
has not yet run out. -/
theorem C14_fails_exact (c : Cfg) (n : Nat) (s : State) (hr : Reachable c n s) (h : Nat) :
    getI s.fails h = (getN s.timers h : Int) :=
  (reachable_wf hr).failsExact h

/-- Once every recorded failure has expired the failure counter is back to zero. -/
theorem C14_fails_zero_after_timeouts (c : Cfg) (n : Nat) (s : State) (hr : Reachable c n s) (h : Nat)
    (ht : getN s.timers h = 0) : getI s.fails h = 0 := by
  rw [C14_fails_exact c n s hr h, ht]; rfl

/-- A pass of the health-check worker writes the health flags and nothing else: the in-flight and the
failure counters (and the pending expiries) of every backend are what they were. -/
theorem C14_health_check_touches_only_flags (c : Cfg) (s s' : State) (flags : List Bool)
    (h : step c s (.health flags) = some s') :
    s'.unhealthy = flags ∧ s'.conns = s.conns ∧ s'.fails = s.fails ∧ s'.timers = s.timers ∧ s'.pcs = s.pcs := by
  simp only [step, Option.some.injEq] at h
  subst h
  exact ⟨rfl, rfl, rfl, rfl, rfl⟩

/-- A backend is treated as down exactly while it is marked unhealthy (by the last health-check pass) or has at least max_fails
unexpired failures. -/
theorem C14_down_iff (c : Cfg) (n : Nat) (s : State) (hr : Reachable c n s) (h : Nat) :
    down c s h = (s.unhealthy.getD h false || decide (getN s.timers h ≥ c.maxFails)) := by
  unfold down
  rw [C14_fails_exact c n s hr h]
  congr 1
  simp

/-- Every failure is forgotten: from any reachable state, firing the pending timers of a backend
one by one is always possible and ends with its failure counter at zero. -/
theorem C14_timers_can_drain (c : Cfg) (n : Nat) (s : State) (hr : Reachable c n s) (h : Nat) :
    ∃ s', run c s (List.replicate (getN s.timers h) (Event.timer h)) = some s' ∧ getI s'.fails h = 0 := by
  have hw := reachable_wf hr
  generalize hk : getN s.timers h = k
  induction k generalizing s with
  | zero =>
    refine ⟨s, rfl, ?_⟩
    rw [hw.failsExact h, hk]; rfl
  | succ k ih =>
    have hpos : getN s.timers h > 0 := by omega
    have hlt : h < s.timers.length := getN_pos_lt _ _ hpos
    have hstep : step c s (.timer h) = some { s with fails := bump s.fails h (-1), timers := dropN s.timers h } := by
      simp [step, hpos]
    obtain ⟨es, hes⟩ := hr
    have hr' : Reachable c n { s with fails := bump s.fails h (-1), timers := dropN s.timers h } := by
      refine ⟨es ++ [.timer h], ?_⟩
      have : ∀ (es : List Event) (s0 s1 : State), run c s0 es = some s1 →
          run c s0 (es ++ [.timer h]) = run c s1 [.timer h] := by
        intro es
        induction es with
        | nil => intro s0 s1 h0; simp only [run, Option.some.injEq] at h0; subst h0; rfl
        | cons e es ih2 =>
          intro s0 s1 h0
          simp only [run, List.cons_append] at h0 ⊢
          cases hs0 : step c s0 e with
          | none => simp [hs0] at h0
          | some s2 => simp only [hs0] at h0 ⊢; exact ih2 s2 s1 h0
      rw [this es _ s hes]
      simp [run, hstep]
    have hk' : getN (dropN s.timers h) h = k := by
      rw [getN_dropN]; simp [hlt]; omega
    obtain ⟨s', hrun, hz⟩ := ih _ hr' (reachable_wf hr') hk'
    refine ⟨s', ?_, hz⟩
    simp only [List.replicate_succ, run, hstep]
    exact hrun

/-- The whole judged predicate (`AccountingSpec.verdict`: counters exact after every action, cap
respected, Select hands out only backends that are up and below their cap and answers "none" only
when there is none, counters back to zero at quiescence) holds on the model's own replay of every
schedule, for every configuration.  The same `verdict` is applied by the driver to the real code's
replay of the same schedule. -/
theorem C14_model_verdict_ok (c : Cfg) (ex : Expiry) (hcf : c.countFails = (ex != .off)) (n : Nat)
    (events : List (Nat × Nat)) :
    AccountingSpec.verdict c ex (replay c ex (State.init c n) [] [] events) = "ok" := by
  unfold AccountingSpec.verdict
  have hw := wf_init c n
  have h1 : List.replicate c.nHosts 0 = (State.init c n).timers := rfl
  have h2 : List.replicate c.nHosts 0 = inflightList c (State.init c n) := by
    unfold inflightList
    apply List.ext_getElem?
    intro i
    rw [List.getElem?_replicate, List.getElem?_map]
    by_cases hi : i < c.nHosts
    · rw [List.getElem?_range hi]
      have : forwardingTo (State.init c n) i = 0 := by unfold forwardingTo State.init; simp
      simp [hi, this]
    · have : (List.range c.nHosts)[i]? = none := List.getElem?_eq_none (by simp; omega)
      simp [hi, this]
  have := verdictGo_replay c ex hcf events _ [] [] hw
  rw [← h2] at this
  exact this

/-! ### how long a failure lives (logical clock, `Timed` in Model/Accounting.lean) -/

/-- `S` is reachable in the timed semantics with fail_timeout = `ft` ticks -/
def TReachable (c : Cfg) (ft n : Nat) (S : Timed) : Prop := ∃ es, trun c ft (Timed.init c n) es = some S

theorem treachable_twf {c : Cfg} {ft n : Nat} {S : Timed} (h : TReachable c ft n S) : TWF c ft S := by
  obtain ⟨es, hes⟩ := h
  exact twf_trun c ft es _ _ (twf_init c ft n) hes

/-- Recording: when a request's failure is counted on backend `h` at time `now`, the failure
`(h, now)` is pending from then on. -/
theorem C14_failure_recorded (c : Cfg) (ft : Nat) (S S' : Timed) (t h : Nat) (again : Bool)
    (hcf : c.countFails = true) (hpc : S.base.pcs[t]? = some (.failed h))
    (hs : tstep c ft S (.ev (.countFail t again)) = some S') : (h, S.now) ∈ S'.pending := by
  simp only [tstep] at hs
  cases hb : step c S.base (.countFail t again) with
  | none => simp [hb] at hs
  | some b =>
    simp only [hb, hpc, hcf, if_true, Option.some.injEq] at hs
    subst hs
    simp

/-- A failure recorded at time t on backend h is pending — and counted in `Fails h` — at every
later moment before t + fail_timeout, whatever happens in between (other requests, other failures
and their expiries, health checks, the request that caused it ending or going on retrying, how
long that request had been running when it failed). -/
theorem C14_failure_lives_fail_timeout (c : Cfg) (ft n : Nat) (S S' : Timed) (es : List TEvent)
    (hr : TReachable c ft n S) (h t : Nat) (hp : (h, t) ∈ S.pending)
    (hrun : trun c ft S es = some S') (hbefore : S'.now < t + ft) :
    (h, t) ∈ S'.pending ∧ getI S'.base.fails h ≥ 1 := by
  have hkeep := trun_keeps c ft es S S' hrun (h, t) hp hbefore
  refine ⟨hkeep, ?_⟩
  have hw' := twf_trun c ft es S S' (treachable_twf hr) hrun
  have hcount := hw'.count h
  have hpos : pendingOn S' h ≥ 1 := by
    unfold pendingOn
    exact List.length_pos_of_mem (List.mem_filter.mpr ⟨hkeep, by simp⟩)
  rw [hw'.base.failsExact h]
  omega

/-- … and it is gone right at t + fail_timeout: no pending failure is ever overdue. -/
theorem C14_failure_expires_on_time (c : Cfg) (ft n : Nat) (S : Timed) (hr : TReachable c ft n S)
    (h t : Nat) (hlate : S.now > t + ft) : (h, t) ∉ S.pending := by
  intro hp
  have := (treachable_twf hr).notLate (h, t) hp
  simp only at this
  omega

/-- The failure counter is the number of pending (recorded, unexpired) failures also in the timed runs. -/
theorem C14_fails_exact_timed (c : Cfg) (ft n : Nat) (S : Timed) (hr : TReachable c ft n S) (h : Nat) :
    getI S.base.fails h = (pendingOn S h : Int) := by
  have hw := treachable_twf hr
  rw [hw.base.failsExact h, hw.count h]

/-! Non-vacuity and the race the repair closes (tests on concrete schedules). -/

/-- test: max_conns 1, two requests select backend 0 before either has reserved it (the window the
unrepaired code lost): the first reservation succeeds, the second finds the cap reached and
goes back to selecting — one request is being forwarded, the counter is 1. -/
example :
    (run { nHosts := 2, maxConns := 1, maxFails := 1, countFails := true, unhealthy := [false, true] }
      (State.init { nHosts := 2, maxConns := 1, maxFails := 1, countFails := true, unhealthy := [false, true] } 2)
      [.select 0 (some 0) false, .select 1 (some 0) false, .reserve 0, .reserve 1]).map
      (fun s => (s.pcs, s.conns)) = some ([.forwarding 0, .idle], [1, 0]) := by decide

/-- test: a failing request: counted while in flight, failure recorded, backend down, timer fires, all back to zero -/
example :
    (run { nHosts := 1, maxConns := 0, maxFails := 1, countFails := true, unhealthy := [false] }
      (State.init { nHosts := 1, maxConns := 0, maxFails := 1, countFails := true, unhealthy := [false] } 1)
      [.select 0 (some 0) false, .reserve 0, .finish 0 .err, .countFail 0 false, .timer 0]).map
      (fun s => (s.pcs, s.conns, s.fails, s.timers)) = some ([.done], [0], [0], [0]) := by decide

/-- test (timed): fail_timeout 7 ticks; the request has been running for 4 ticks when its failure is
recorded; 6 ticks later (t = 10 < 4 + 7) the failure still counts, the expiry is not yet enabled, one tick
later it is, and time cannot pass t = 11 before it has fired -/
def timedCfg : Cfg := { nHosts := 1, maxConns := 0, maxFails := 1, countFails := true, unhealthy := [false] }
example :
    (trun timedCfg 7 (Timed.init timedCfg 1)
      [.ev (.select 0 (some 0) false), .ev (.reserve 0), .tick 4, .ev (.finish 0 .err), .ev (.countFail 0 false), .tick 6]).map
      (fun S => (S.now, S.pending, S.base.fails)) = some (10, [(0, 4)], [1]) := by decide
example :
    trun timedCfg 7 (Timed.init timedCfg 1)
      [.ev (.select 0 (some 0) false), .ev (.reserve 0), .tick 4, .ev (.finish 0 .err), .ev (.countFail 0 false), .tick 6,
       .ev (.timer 0)] = none := by decide
example :
    trun timedCfg 7 (Timed.init timedCfg 1)
      [.ev (.select 0 (some 0) false), .ev (.reserve 0), .tick 4, .ev (.finish 0 .err), .ev (.countFail 0 false), .tick 8] = none := by decide
example :
    (trun timedCfg 7 (Timed.init timedCfg 1)
      [.ev (.select 0 (some 0) false), .ev (.reserve 0), .tick 4, .ev (.finish 0 .err), .ev (.countFail 0 false), .tick 7,
       .ev (.timer 0), .tick 3]).map (fun S => (S.now, S.pending, S.base.fails)) = some (14, [], [0]) := by decide

end Casket.Props.C14
