import Casket.Spec.Accounting
namespace Casket.Props.C14
end Casket.Props.C14
