import Casket.Spec.Parser
namespace Casket.Props.C10
end Casket.Props.C10
