import Casket.Proofs.Parser
import Casket.Proofs.ParserTerm
import Casket.Proofs.ParserTotal
import Casket.Proofs.ParserMono
import Casket.Proofs.ParserPos
import Casket.Proofs.ParserRT
import Casket.Proofs.ParserSplice
import Casket.Proofs.ParserSpliceM
import Casket.Proofs.ParserRTNB
import Casket.Proofs.ParserCycle
import Casket.Proofs.Env
import Casket.Proofs.Lexer
/-
C10 — Casketfile parsing is total, terminating and structure-preserving.

Statements only (helper lemmas: Casket/Proofs/Lexer.lean, Casket/Proofs/Parser.lean).
The model (`Casket.Lexer.lex`, `Casket.Parser.parse`) is tied to casketfile/lexer.go and
casketfile/parse.go by the streams c10.lex / c10.parse / c10.rt.
-/
namespace Casket.Props.C10
open Casket.Lexer Casket.Dispenser Casket.Parser Casket.ParserSpec Casket.LexerSpec Casket.ParserRT Casket.ParserCycle

/-! ### the lexer (`lex` is total by construction: one structural recursion over the decoded runes): layout is insignificant -/

/-- Layout is insignificant, quoting is faithful: for EVERY sequence of written tokens — unquoted words, or
quoted strings with `\"` escapes, backslashes and line breaks inside — separated by ANY well-formed layout
(blanks, tabs, CR LF, Unicode white space, blank lines, `#` comments), the lexer returns exactly the tokens
that were written, each with the line it starts on.  (Runes; `C10_lex_render` is the byte-level statement.) -/
theorem C10_lex_render_runes (items : List Item) (final : List Gap) (hwf : LexerSpec.WF items final) (line tl : Nat) :
    lexRunes (render items final) line tl [] false false false = expected items line :=
  lex_render_aux items final hwf line tl

/-- The same for the bytes of a file (with or without a byte order mark) whose UTF-8 decoding is that text. -/
theorem C10_lex_render (items : List Item) (final : List Gap) (hwf : LexerSpec.WF items final) (input : Bytes) :
    (decode input = render items final ∧ (∀ c, (render items final).head? = some c → c.cp ≠ 0xFEFF) →
      lex input = expected items 1) ∧
    (decode input = ⟨0xFEFF, [0xEF, 0xBB, 0xBF]⟩ :: render items final → lex input = expected items 1) :=
  ⟨fun h => lex_render_bytes items final hwf input h.1 h.2, lex_render_bytes_bom items final hwf input⟩

/-- ASCII text decodes to itself, so the hypothesis of `C10_lex_render` holds for every ASCII file. -/
theorem C10_decode_ascii (bs : List UInt8) (h : ∀ b ∈ bs, b < 0x80) :
    decode bs = bs.map asciiChr ∧ (bs.map asciiChr).flatMap Chr.bytes = bs :=
  ⟨decode_ascii bs h, flatMap_bytes_ascii bs⟩

/-- non-vacuity (a test): `host # c⏎⇥"a \"b\"⏎c"\r x` — a word, a comment, a quoted token with escapes and a
line break, a word ended by the end of the text -/
example :
    let sp : Chr := asciiChr 0x20
    let w (s : List UInt8) : Written := .plain (s.map asciiChr)
    let items : List Item := [
      ⟨[], w [0x68, 0x6F, 0x73, 0x74]⟩,
      ⟨[.ws sp, .comment [sp, asciiChr 0x63], .ws (asciiChr 0x09)],
        .quoted [.plain (asciiChr 0x61), .plain sp, .escQuote, .plain (asciiChr 0x62), .escQuote, .plain nlChr, .plain (asciiChr 0x63)]⟩,
      ⟨[.ws (asciiChr 0x0D), .ws sp], w [0x78]⟩]
    LexerSpec.WF items [] ∧
    expected items 1 = [⟨"", 1, [0x68, 0x6F, 0x73, 0x74]⟩, ⟨"", 2, [0x61, 0x20, 0x22, 0x62, 0x22, 0x0A, 0x63]⟩, ⟨"", 3, [0x78]⟩] := by
  decide

/-! ### the parser never panics -/

/-- None of the slice and index expressions of parse.go (`tokens[:cursor-1]`, `tokens[cursor+1:]`,
`tokens[cursor]`, `tkn[len(tkn)-1]`) can fail: for every input, every set of files, every environment and
every fuel the answer is never `panic`. -/
theorem C10_parse_no_panic (cfg : Cfg) (fuel : Nat) (fn : String) (input : Bytes) (m : String) :
    parse cfg fuel fn input ≠ .panic m := by
  intro h
  have := parse_safe cfg fuel fn input
  rw [h] at this
  exact this

/-! ### termination -/

/-- PARTIAL — what is missing: inputs that contain the token `import` (with imports, termination rests on the
repaired cycle check, which is modelled, tied to the code and explored by the streams, but not proved to bound
the expansion).  For every other input — any bytes, any braces, quotes, commas, snippets definitions,
environment references whose replacement ends — `Parse` returns: a fuel of (number of tokens + 3) is never
used up, because every loop of parse.go advances the cursor. -/
theorem C10_parse_terminates_no_import_partial (cfg : Cfg) (fuel : Nat) (fn : String) (input : Bytes) (hfn : fn ≠ "")
    (hp : Plain cfg (lex input)) (hf : (lex input).length + 3 ≤ fuel) :
    parse cfg fuel fn input ≠ .timeout := by
  intro h
  have := parse_fin cfg fuel fn input hfn hp hf
  rw [h] at this
  exact this

/-- Termination WITH imports.  PARTIAL — what is missing: configurations that DEFINE snippets (`Hyp` asks that no
source token expands to something starting with `(`), and environment values that loop (F19).  For everything
else — any bytes in the input and in any finite set of files, imports of files and globs nested to any depth,
import cycles of every shape — the repaired parser returns: the fuel
`tokens(input) · (L + 2)^N` (N = number of files, L = total number of tokens in them) is never used up.
Proof: the cycle check keeps the sources being expanded distinct (`FOK`), so at most N are nested; a token at import
depth d weighs `(L+2)^(N-d)`; reading a token lowers the total weight, and an import replaces two tokens of depth
d by at most L tokens of depth d+1, which weigh less than one of them (`import_measure`). -/
theorem C10_parse_total_files_partial (cfg : Cfg) (fuel : Nat) (fn : String) (input : Bytes)
    (hyp : Hyp cfg (lex input))
    (hf : (lex input).length * (Lmax cfg + 2) ^ cfg.fs.files.length < fuel) :
    (∃ bs, parse cfg fuel fn input = .ok bs) ∨ (∃ c f l, parse cfg fuel fn input = .err c f l) := by
  have h := parse_tm cfg fuel fn input hyp hf
  cases hr : parse cfg fuel fn input with
  | ok bs => exact Or.inl ⟨bs, rfl⟩
  | err c f l => exact Or.inr ⟨c, f, l, rfl⟩
  | panic m => exact absurd hr (C10_parse_no_panic cfg fuel fn input m)
  | timeout => rw [hr] at h; exact h.elim

/-- non-vacuity: the hypothesis holds for a directory whose file imports ITSELF (finding F8's input); the bound is
2·(2+2)^1 + 1 = 9 steps, and the answer is the cycle error -/
example : Hyp { fs := selfFS, envFuel := 3 } (lex sImportF0) ∧
    (lex sImportF0).length * (Lmax { fs := selfFS, envFuel := 3 } + 2) ^ selfFS.files.length < 9 :=
  ⟨hyp_of_noRef _ _ rfl (by decide) (by decide), by decide⟩

/-- Termination, snippets included.  For every input and every finite set of files — imports of files, globs and
snippets nested to any depth, import cycles of every shape (file → file, snippet → snippet, mixed), any number of
snippet definitions, in the input or in imported files — the repaired parser returns: there is a fuel `f0` from which
on the answer is server blocks or an error, never `timeout`, never `panic`, and it no longer depends on the fuel.
PARTIAL only in this: `HypS` asks that the environment replacement of every source token ends — the excluded point is
the known finding F19 (a value that refers to its own variable loops in `replaceEnvReferences`); `cycleCheck = true`
selects the parser after the `fix:` commit (`C10_cycle_diverges_unfixed` is the parser before it).
Proof (Proofs/ParserTotal.lean, Proofs/ParserMono.lean): a snippet is defined only by `begin`, called from the loop of
`parseAll`, so between two definitions the snippet table is constant and the weight argument of
`C10_parse_total_files_partial` applies with the snippets counted among the sources (N = files + snippets, L = file
tokens + snippet body tokens; `resolveImport_tm`, `push_measure`); a definition changes the weights, but a name is
defined at most once (`snippet-redeclared`) and is the expansion of a source token (`candNames`), so `parseAll_total` is
a lexicographic induction over (candidate names not yet defined, weight ahead); the fuel is existential and
`parse_mono` (same answer at any larger fuel) glues the phases together. -/
theorem C10_parse_total_partial (cfg : Cfg) (fn : String) (input : Bytes) (hyp : HypS cfg (lex input)) :
    ∃ f0, ∀ fuel, f0 ≤ fuel →
      ((∃ bs, parse cfg fuel fn input = .ok bs) ∨ (∃ c f l, parse cfg fuel fn input = .err c f l)) ∧
      parse cfg fuel fn input = parse cfg f0 fn input := by
  obtain ⟨f0, h0⟩ := parse_total cfg fn input hyp
  refine ⟨f0, fun fuel hf => ⟨?_, Res.le_eq (parse_mono cfg f0 fuel hf fn input) (h0 f0 (Nat.le_refl _)).ne_timeout⟩⟩
  have h := h0 fuel hf
  cases hr : parse cfg fuel fn input with
  | ok bs => exact Or.inl ⟨bs, rfl⟩
  | err c f l => exact Or.inr ⟨c, f, l, rfl⟩
  | panic m => exact absurd hr (C10_parse_no_panic cfg fuel fn input m)
  | timeout => rw [hr] at h; exact h.elim

/-- non-vacuity: `(a) {⏎ import f0⏎}⏎host {⏎ import a⏎}` with the file `f0` = `import a⏎` — a snippet whose body imports a
file that imports the snippet again — satisfies the hypothesis; it DEFINES a snippet (`candNames`), so it is outside
`C10_parse_total_files_partial`; the answer is the cycle error -/
example :
    let cfg : Cfg := { fs := ⟨[("f0", [0x69, 0x6D, 0x70, 0x6F, 0x72, 0x74, 0x20, 0x61, 0x0A])]⟩, envFuel := 3 }
    let input : Bytes := [0x28, 0x61, 0x29, 0x20, 0x7B, 0x0A, 0x20, 0x69, 0x6D, 0x70, 0x6F, 0x72, 0x74, 0x20, 0x66, 0x30, 0x0A, 0x7D, 0x0A,
      0x68, 0x6F, 0x73, 0x74, 0x20, 0x7B, 0x0A, 0x20, 0x69, 0x6D, 0x70, 0x6F, 0x72, 0x74, 0x20, 0x61, 0x0A, 0x7D]
    HypS cfg (lex input) ∧ candNames cfg (lex input) = [[0x61]] ∧
    answerOf (parse cfg 40 "Casketfile" input) = .error "import-cycle" "f0" 1 :=
  ⟨hypS_of_noRef _ _ rfl (by decide) (by decide), by decide, by decide⟩

/-- the hypothesis is decidable for texts without `{%` / `{$`, and it holds for ordinary configurations:
`host {⏎ dir "a b" {⏎  x⏎ }⏎}` (a test of non-vacuity) -/
example : Plain {} (lex [0x68, 0x6F, 0x73, 0x74, 0x20, 0x7B, 0x0A, 0x20, 0x64, 0x69, 0x72, 0x20, 0x22, 0x61, 0x20, 0x62, 0x22,
    0x20, 0x7B, 0x0A, 0x20, 0x20, 0x78, 0x0A, 0x20, 0x7D, 0x0A, 0x7D]) :=
  plain_of_noRef {} (by decide) _ (by decide)

/-- Every token the lexer produces carries a line number ≥ 1 (so an error at a token names a real line). -/
theorem C10_lex_lines (input : Bytes) : ∀ t ∈ lex input, 1 ≤ t.line := lex_lines input

/-- PARTIAL (same gap: no `import`) — the model's answer satisfies the judge: for every import-free input the
totality half of C10 holds of what the model answers — server blocks, or an error that names a non-empty file
and a line ≥ 1; never a panic, never a timeout.  This is the predicate (`ParserSpec.total`, verdict `"ok"`) that
the model driver applies to the answers of the REAL parser. -/
theorem C10_model_verdict_ok_partial (cfg : Cfg) (fuel : Nat) (fn : String) (input : Bytes) (hfn : fn ≠ "")
    (hp : Plain cfg (lex input)) (hf : (lex input).length + 3 ≤ fuel) :
    totalVerdictA (answerOf (parse cfg fuel fn input)) = "ok" := by
  rw [totalVerdictA_ok_iff]
  have h := parse_fin cfg fuel fn input hfn hp hf
  cases hr : parse cfg fuel fn input with
  | ok bs => rfl
  | err c f l =>
    rw [hr] at h
    obtain ⟨h1, h2⟩ := h
    simp only [answerOf, total, Bool.and_eq_true, bne_iff_ne, ne_eq, decide_eq_true_eq]
    exact ⟨h1, h2⟩
  | panic m => exact absurd hr (C10_parse_no_panic cfg fuel fn input m)
  | timeout => rw [hr] at h; exact h.elim

/-- The error-position clause at full strength: EVERY error `Parse` returns names a non-empty file and a line ≥ 1 —
for every input, every set of files, every snippet, every environment and every fuel; no hypothesis beyond a
non-empty file name given to `Parse`.  (Proofs/ParserPos.lean: every token in the list and in a snippet body has a
line ≥ 1; an error is raised at a cursor ≥ 0 of a non-empty token list.  The list CAN become empty — an import at
cursor 0 that expands to nothing — but then the only error left, `addresses`' end of input, needs a comma-ended
address read before, i.e. a cursor ≥ 1.) -/
theorem C10_error_position (cfg : Cfg) (fuel : Nat) (fn : String) (input : Bytes) (hfn : fn ≠ "")
    (c f : String) (l : Nat) (h : parse cfg fuel fn input = .err c f l) : f ≠ "" ∧ 1 ≤ l := by
  have := parse_pos cfg fuel fn input hfn
  rw [h] at this
  exact this

/-- non-vacuity (finding F22's input, evaluated): `a,⏎import nothing*` — the import at the end of the input expands to
nothing, the end-of-input error is raised past the end of the shrunken token list and names the last line, not line 0;
and `import nothing*` alone, which EMPTIES the token list at cursor 0, is not an error -/
example :
    parse { envFuel := 3 } 20 "Casketfile" [0x61, 0x2C, 0x0A, 0x69, 0x6D, 0x70, 0x6F, 0x72, 0x74, 0x20, 0x6E, 0x6F, 0x74, 0x68, 0x69, 0x6E, 0x67, 0x2A]
      = .err "eof" "Casketfile" 1 ∧
    parse { envFuel := 3 } 20 "Casketfile" [0x69, 0x6D, 0x70, 0x6F, 0x72, 0x74, 0x20, 0x6E, 0x6F, 0x74, 0x68, 0x69, 0x6E, 0x67, 0x2A] = .ok [] := by
  decide

/-- … so for ALL inputs, files, environments and fuel the judge's verdict on the model's answer is `ok` unless the
answer is `timeout` -/
theorem C10_model_verdict_unless_timeout (cfg : Cfg) (fuel : Nat) (fn : String) (input : Bytes) (hfn : fn ≠ "") :
    totalVerdictA (answerOf (parse cfg fuel fn input)) = "ok" ∨ parse cfg fuel fn input = .timeout := by
  cases hr : parse cfg fuel fn input with
  | ok bs => exact Or.inl rfl
  | err c f l =>
    refine Or.inl ?_
    rw [totalVerdictA_ok_iff]
    obtain ⟨h1, h2⟩ := C10_error_position cfg fuel fn input hfn c f l hr
    simp only [answerOf, total, Bool.and_eq_true, bne_iff_ne, ne_eq, decide_eq_true_eq]
    exact ⟨h1, h2⟩
  | panic m => exact absurd hr (C10_parse_no_panic cfg fuel fn input m)
  | timeout => exact Or.inr rfl

/-- The model's answer satisfies the judge `total` WITH imports and snippets: for every input and every finite set of
files (imports of files, globs, snippets, cycles, snippet definitions) there is a fuel from which on the verdict of
`ParserSpec.total` — the predicate the driver applies to the answers of the REAL parser — is `ok`: server blocks, or an
error that names a non-empty file and a line ≥ 1; never a panic, never a timeout.
PARTIAL only as `C10_parse_total_partial` is: looping environment values (finding F19) are excluded by `HypS`. -/
theorem C10_model_verdict_ok_total_partial (cfg : Cfg) (fn : String) (input : Bytes) (hfn : fn ≠ "")
    (hyp : HypS cfg (lex input)) :
    ∃ f0, ∀ fuel, f0 ≤ fuel → totalVerdictA (answerOf (parse cfg fuel fn input)) = "ok" := by
  obtain ⟨f0, h0⟩ := C10_parse_total_partial cfg fn input hyp
  refine ⟨f0, fun fuel hf => ?_⟩
  rcases C10_model_verdict_unless_timeout cfg fuel fn input hfn with h | h
  · exact h
  · rcases (h0 fuel hf).1 with ⟨bs, hb⟩ | ⟨c, f, l, hb⟩ <;> rw [hb] at h <;> cases h

/-! ### structure preservation: the blocks returned are the blocks written -/

/-- For EVERY written configuration — any number of server blocks; keys on one line or continued after a comma;
directives with any arguments and arbitrarily nested sub-blocks, laid out in lines as the syntax demands
(`ParserRT.blockOK`: conditions on the tokens' files and line numbers only, so every layout and every mix of
inline / snippet / imported origins that yields such tokens is covered) — `Parse` returns exactly those blocks:
the keys in order (commas stripped) and, per directive name, the directive's tokens in order.
(Braced form of server blocks — the brace-less single-block form is `C10_parse_roundtrip_braceless`;
`validDirectives = nil`; tokens free of `{$`/`{%` references.) -/
theorem C10_parse_roundtrip (cfg : Cfg) (hf : 0 < cfg.envFuel) (hv : cfg.valid = none) (fn : String) (bs : List WBlock)
    (hall : ∀ b ∈ bs, blockOK b = true) (fuel : Nat) (hfuel : (flatten bs).length + 1 ≤ fuel) :
    parseTokens cfg fuel fn (flatten bs) = .ok (bs.map expectedBlock) :=
  parseTokens_rt cfg hf hv fn bs hall fuel hfuel

/-- … and from the text: if the lexer's tokens for `input` are a written configuration, `Parse(input)` returns it.
With `C10_lex_render` (what the lexer returns for a text in any layout) this is the print–parse round trip. -/
theorem C10_parse_roundtrip_text (cfg : Cfg) (hf : 0 < cfg.envFuel) (hv : cfg.valid = none) (fn : String) (input : Bytes)
    (bs : List WBlock) (hlex : lex input = flatten bs) (hall : ∀ b ∈ bs, blockOK b = true) (fuel : Nat)
    (hfuel : (flatten bs).length + 1 ≤ fuel) :
    parse cfg fuel fn input = .ok (bs.map expectedBlock) := by
  unfold parse; rw [hlex]; exact parseTokens_rt cfg hf hv fn bs hall fuel hfuel

/-- the model's answer satisfies the round-trip judge (`ParserSpec.roundTrip`, what c10.rt applies to the answers of
the real parser) for every written configuration -/
theorem C10_roundtrip_model_verdict_ok (cfg : Cfg) (hf : 0 < cfg.envFuel) (hv : cfg.valid = none) (fn : String)
    (bs : List WBlock) (hall : ∀ b ∈ bs, blockOK b = true) (fuel : Nat) (hfuel : (flatten bs).length + 1 ≤ fuel) :
    roundTrip (bs.map expectedBlock) (answerOf (parseTokens cfg fuel fn (flatten bs))) = true := by
  rw [parseTokens_rt cfg hf hv fn bs hall fuel hfuel]
  exact sameBlocks_refl _

/-- non-vacuity (a test, by evaluation): the text
`host, b {⏎ dir a {⏎  sub x⏎ }⏎ log⏎}` is a written configuration — its lexer tokens are `flatten` of a block
that passes `blockOK` — so the theorem applies to it; the expected answer is spelled out. -/
example :
    let t (l : Nat) (s : List UInt8) : Token := ⟨"", l, s⟩
    let b : WBlock := {
      keys := [t 1 [0x68, 0x6F, 0x73, 0x74, 0x2C], t 1 [0x62]], open_ := t 1 lbrace,
      dirs := [⟨t 2 [0x64, 0x69, 0x72], [t 2 [0x61], t 2 lbrace, t 3 [0x73, 0x75, 0x62], t 3 [0x78], t 4 rbrace]⟩,
               ⟨t 5 [0x6C, 0x6F, 0x67], []⟩],
      close := t 6 rbrace }
    lex [0x68, 0x6F, 0x73, 0x74, 0x2C, 0x20, 0x62, 0x20, 0x7B, 0x0A, 0x20, 0x64, 0x69, 0x72, 0x20, 0x61, 0x20, 0x7B, 0x0A,
         0x20, 0x20, 0x73, 0x75, 0x62, 0x20, 0x78, 0x0A, 0x20, 0x7D, 0x0A, 0x20, 0x6C, 0x6F, 0x67, 0x0A, 0x7D] = flatten [b] ∧
    blockOK b = true ∧
    (expectedBlock b).keys = [[0x68, 0x6F, 0x73, 0x74], [0x62]] ∧
    (expectedBlock b).tokens.map (fun p => (p.1, p.2.length)) = [([0x64, 0x69, 0x72], 6), ([0x6C, 0x6F, 0x67], 1)] := by
  decide

/-- The brace-less single-block form: a configuration written as ONE server block without braces — keys on the first
line(s), then at least one directive, each as in `C10_parse_roundtrip`, to the end of the input — parses to exactly that
block (`expectedE b` = `expectedBlock` of the braced form, whatever the braces: `expectedE_eq`).  `addresses()` stops on
the first token of the line after the keys, `blockContents()` steps back one token, `directives()` runs to the end of the
input.  (`validDirectives = nil`; tokens free of `{$`/`{%` references; a block of keys only is not covered.) -/
theorem C10_parse_roundtrip_braceless (cfg : Cfg) (hf : 0 < cfg.envFuel) (hv : cfg.valid = none) (fn : String) (b : WBlockE)
    (hok : blockEOK b = true) (fuel : Nat) (hfuel : 2 * b.toks.length + 4 ≤ fuel) :
    parseTokens cfg fuel fn b.toks = .ok [expectedE b] :=
  parseTokens_nb cfg hf hv fn b hok fuel hfuel

/-- … and from the text, composing with `C10_lex_render` as `C10_parse_roundtrip_text` does -/
theorem C10_parse_roundtrip_braceless_text (cfg : Cfg) (hf : 0 < cfg.envFuel) (hv : cfg.valid = none) (fn : String)
    (input : Bytes) (b : WBlockE) (hlex : lex input = b.toks) (hok : blockEOK b = true) (fuel : Nat)
    (hfuel : 2 * b.toks.length + 4 ≤ fuel) :
    parse cfg fuel fn input = .ok [expectedE b] := by
  unfold parse; rw [hlex]; exact parseTokens_nb cfg hf hv fn b hok fuel hfuel

/-- non-vacuity (a test, by evaluation): `host, b⏎gzip⏎log a {⏎ x⏎}⏎` is such a configuration -/
example :
    let t (l : Nat) (s : List UInt8) : Token := ⟨"", l, s⟩
    let b : WBlockE := ⟨[t 1 [104, 111, 115, 116, 44], t 1 [98]],
      [⟨t 2 [103, 122, 105, 112], []⟩, ⟨t 3 [108, 111, 103], [t 3 [97], t 3 lbrace, t 4 [120], t 5 rbrace]⟩]⟩
    lex [104, 111, 115, 116, 44, 32, 98, 10, 103, 122, 105, 112, 10, 108, 111, 103, 32, 97, 32, 123, 10, 32, 120, 10, 125, 10] = b.toks ∧
    blockEOK b = true ∧ (expectedE b).keys = [[104, 111, 115, 116], [98]] ∧
    (expectedE b).tokens.map (fun p => (p.1, p.2.length)) = [([103, 122, 105, 112], 1), ([108, 111, 103], 5)] := by
  decide

/-- Structure preservation ACROSS an import.  A server block one run of whose directives has been moved, as whole
lines, into a file and replaced by the line `import <file>` parses — together with any blocks written after it —
to the blocks of the inline text in which that run stands in its place: same keys, and per directive name the
same tokens in order; the tokens of the run carry the file's name and lines (`fileToks`).
PARTIAL — what is missing: more than one import per parse, an import in a block other than the first, imports
nested in sub-blocks or at address position, glob patterns matching several files, snippets (all of these are
covered by the stream c10.rt, which splits at random up to three levels deep). -/
theorem C10_import_splice_partial (cfg : Cfg) (hf : 0 < cfg.envFuel) (hv : cfg.valid = none) (hcc : cfg.cycleCheck = true)
    (fn : String) (b : WBlockI) (run : List WDir) (bs : List WBlock) (name : String) (content : Bytes)
    (hline : importLineOK b ((dirToks b.ds2 ++ [b.close]).head?.getD b.close) = true)
    (hres : resolve cfg.fs b.arg.text = .files [(name, content)]) (hcont : content.isEmpty = false)
    (hrun : dirToks run = fileToks name content)
    (hinl : blockOK (b.inline run) = true) (hbs : ∀ x ∈ bs, blockOK x = true) (fuel : Nat)
    (hfuel : 2 * (b.toks ++ flatten bs).length + 2 * (fileToks name content).length + 6 ≤ fuel) :
    parseTokens cfg fuel fn (b.toks ++ flatten bs) = .ok (expectedBlock (b.inline run) :: bs.map expectedBlock) :=
  parse_splice cfg hf hv hcc fn b run bs name content hline hres hcont hrun hinl hbs fuel hfuel

/-- non-vacuity (a test, by evaluation): `host {⏎ dir1 a⏎ import f0⏎ log⏎}` with the file `f0` = `dir2 x⏎` satisfies every
hypothesis of the splice theorem — the lexer's tokens are `b.toks`, the import line is well formed, the file resolves, its
tokens are the run, and the inline block passes `blockOK` -/
example :
    let t (f : String) (l : Nat) (s : List UInt8) : Token := ⟨f, l, s⟩
    let b : WBlockI := {
      keys := [t "" 1 [0x68, 0x6F, 0x73, 0x74]], open_ := t "" 1 lbrace, ds1 := [⟨t "" 2 [0x64, 0x69, 0x72, 0x31], [t "" 2 [0x61]]⟩],
      imp := t "" 3 sImport, arg := t "" 3 [0x66, 0x30], ds2 := [⟨t "" 4 [0x6C, 0x6F, 0x67], []⟩], close := t "" 5 rbrace }
    let run : List WDir := [⟨t "f0" 1 [0x64, 0x69, 0x72, 0x32], [t "f0" 1 [0x78]]⟩]
    let fs : FS := ⟨[("f0", [0x64, 0x69, 0x72, 0x32, 0x20, 0x78, 0x0A])]⟩
    lex [0x68, 0x6F, 0x73, 0x74, 0x20, 0x7B, 0x0A, 0x20, 0x64, 0x69, 0x72, 0x31, 0x20, 0x61, 0x0A, 0x20, 0x69, 0x6D, 0x70, 0x6F, 0x72, 0x74, 0x20, 0x66, 0x30, 0x0A, 0x20, 0x6C, 0x6F, 0x67, 0x0A, 0x7D] = b.toks ∧
    importLineOK b ((dirToks b.ds2 ++ [b.close]).head?.getD b.close) = true ∧
    resolve fs b.arg.text = .files [("f0", [0x64, 0x69, 0x72, 0x32, 0x20, 0x78, 0x0A])] ∧
    dirToks run = fileToks "f0" [0x64, 0x69, 0x72, 0x32, 0x20, 0x78, 0x0A] ∧ blockOK (b.inline run) = true := by
  decide

/-- "Regardless of whether the text was written inline or in an imported file": if the same directives (same texts,
`dirTexts`) are written inline as `runI` — any layout that is a written configuration — instead of being imported,
both parses succeed and return the same blocks up to the tokens' file/line attributes (`textsOf`: keys, and
per directive name the token texts in order).  PARTIAL: same scope as `C10_import_splice_partial`. -/
theorem C10_inline_import_equiv_partial (cfg : Cfg) (hf : 0 < cfg.envFuel) (hv : cfg.valid = none) (hcc : cfg.cycleCheck = true)
    (fn : String) (b : WBlockI) (run runI : List WDir) (bs : List WBlock) (name : String) (content : Bytes)
    (hline : importLineOK b ((dirToks b.ds2 ++ [b.close]).head?.getD b.close) = true)
    (hres : resolve cfg.fs b.arg.text = .files [(name, content)]) (hcont : content.isEmpty = false)
    (hrun : dirToks run = fileToks name content)
    (hinl : blockOK (b.inline run) = true) (hinlI : blockOK (b.inline runI) = true)
    (hsame : run.map dirTexts = runI.map dirTexts) (hbs : ∀ x ∈ bs, blockOK x = true) (fuel : Nat)
    (hfuel : 2 * (b.toks ++ flatten bs).length + 2 * (fileToks name content).length + 6 ≤ fuel)
    (hfuelI : (flatten (b.inline runI :: bs)).length + 1 ≤ fuel) :
    ∃ r1 r2, parseTokens cfg fuel fn (b.toks ++ flatten bs) = .ok r1 ∧
      parseTokens cfg fuel fn (flatten (b.inline runI :: bs)) = .ok r2 ∧ r1.map textsOf = r2.map textsOf := by
  refine ⟨_, _, parse_splice cfg hf hv hcc fn b run bs name content hline hres hcont hrun hinl hbs fuel hfuel,
    parseTokens_rt cfg hf hv fn (b.inline runI :: bs) (fun x hx => by
      rcases List.mem_cons.mp hx with rfl | hx
      · exact hinlI
      · exact hbs x hx) fuel hfuelI, ?_⟩
  simp only [List.map_cons, List.cons.injEq, and_true]
  exact textsOf_expected b run runI hsame

/-- Structure preservation across ANY NUMBER of imports, in ANY block.  A configuration in which, in every server block,
any number of runs of whole directives have been moved into files and replaced by `import <file>` lines (`WItem`: a
block's body is a list of directives and import lines; the same file may be imported several times) parses to the
blocks of the inline text in which every run stands in place of its import line: same keys, and per directive name the
same tokens in order, the imported ones carrying their file's name and lines.
PARTIAL — what is missing: import lines nested inside a directive's `{ … }` sub-block or at address position, glob
patterns matching several files, imports inside imported files, snippets (covered by the stream c10.rt). -/
theorem C10_import_splice_multi_partial (cfg : Cfg) (hf : 0 < cfg.envFuel) (hv : cfg.valid = none) (hcc : cfg.cycleCheck = true)
    (fn : String) (bs : List WBlockM) (hall : ∀ b ∈ bs, blockMOK cfg b = true) (fuel : Nat)
    (hfuel : 2 * ((flattenM bs).length + impLenB bs) + 2 ≤ fuel) :
    parseTokens cfg fuel fn (flattenM bs) = .ok (bs.map fun b => expectedBlock b.inline) :=
  parseTokens_m cfg hf hv hcc fn bs hall fuel hfuel

/-- non-vacuity (a test, by evaluation): `a {⏎ import f0⏎}⏎b {⏎ d1 x⏎ import f0⏎ import f1⏎ log⏎}` with the files `f0` = `dir2 x⏎`
and `f1` = `gz⏎tls off⏎` — two blocks, three import lines, one file imported twice — is such a configuration: the lexer's
tokens are `flattenM`, every block passes `blockMOK`; the second block's directives are spelled out -/
example :
    let t (f : String) (l : Nat) (s : List UInt8) : Token := ⟨f, l, s⟩
    let c0 : Bytes := [100, 105, 114, 50, 32, 120, 10]
    let c1 : Bytes := [103, 122, 10, 116, 108, 115, 32, 111, 102, 102, 10]
    let run0 : List WDir := [⟨t "f0" 1 [100, 105, 114, 50], [t "f0" 1 [120]]⟩]
    let run1 : List WDir := [⟨t "f1" 1 [103, 122], []⟩, ⟨t "f1" 2 [116, 108, 115], [t "f1" 2 [111, 102, 102]]⟩]
    let b1 : WBlockM := ⟨[t "" 1 [97]], t "" 1 lbrace, [.imp (t "" 2 sImport) (t "" 2 [102, 48]) "f0" c0 run0], t "" 3 rbrace⟩
    let b2 : WBlockM := ⟨[t "" 4 [98]], t "" 4 lbrace,
      [.dir ⟨t "" 5 [100, 49], [t "" 5 [120]]⟩, .imp (t "" 6 sImport) (t "" 6 [102, 48]) "f0" c0 run0,
       .imp (t "" 7 sImport) (t "" 7 [102, 49]) "f1" c1 run1, .dir ⟨t "" 8 [108, 111, 103], []⟩],
      t "" 9 rbrace⟩
    let cfg : Cfg := { fs := ⟨[("f0", c0), ("f1", c1)]⟩ }
    lex [97, 32, 123, 10, 32, 105, 109, 112, 111, 114, 116, 32, 102, 48, 10, 125, 10, 98, 32, 123, 10, 32, 100, 49, 32, 120, 10,
         32, 105, 109, 112, 111, 114, 116, 32, 102, 48, 10, 32, 105, 109, 112, 111, 114, 116, 32, 102, 49, 10, 32, 108, 111,
         103, 10, 125] = flattenM [b1, b2] ∧
    blockMOK cfg b1 = true ∧ blockMOK cfg b2 = true ∧
    (expectedBlock b2.inline).tokens.map (fun p => (p.1, p.2.length)) =
      [([100, 49], 2), ([100, 105, 114, 50], 2), ([103, 122], 1), ([116, 108, 115], 2), ([108, 111, 103], 1)] := by
  decide

/-- "Regardless of whether the text was written inline or in imported files", any number of imports: if for every block
the directives are ALSO written inline as `q.2` (any layout that is a written configuration) with the same texts as the
items stand for, both parses succeed and return the same blocks up to the tokens' file/line attributes.
PARTIAL: same scope as `C10_import_splice_multi_partial`. -/
theorem C10_inline_import_equiv_multi_partial (cfg : Cfg) (hf : 0 < cfg.envFuel) (hv : cfg.valid = none)
    (hcc : cfg.cycleCheck = true) (fn : String) (pairs : List (WBlockM × List WDir))
    (hall : ∀ q ∈ pairs, blockMOK cfg q.1 = true ∧ blockOK (q.1.inlineWith q.2) = true ∧
      (inlineDirs q.1.items).map dirTexts = q.2.map dirTexts) (fuel : Nat)
    (hfuel : 2 * ((flattenM (pairs.map (·.1))).length + impLenB (pairs.map (·.1))) + 2 ≤ fuel)
    (hfuelI : (flatten (pairs.map fun q => q.1.inlineWith q.2)).length + 1 ≤ fuel) :
    ∃ r1 r2, parseTokens cfg fuel fn (flattenM (pairs.map (·.1))) = .ok r1 ∧
      parseTokens cfg fuel fn (flatten (pairs.map fun q => q.1.inlineWith q.2)) = .ok r2 ∧
      r1.map textsOf = r2.map textsOf := by
  refine ⟨_, _, parseTokens_m cfg hf hv hcc fn _ (fun b hb => by
      obtain ⟨q, hq, rfl⟩ := List.mem_map.mp hb; exact (hall q hq).1) fuel hfuel,
    parseTokens_rt cfg hf hv fn _ (fun x hx => by
      obtain ⟨q, hq, rfl⟩ := List.mem_map.mp hx; exact (hall q hq).2.1) fuel hfuelI, ?_⟩
  simp only [List.map_map]
  apply List.map_congr_left
  intro q hq
  exact textsOf_inlineWith q.1 q.2 (hall q hq).2.2

/-! ### environment placeholders -/

/-- A placeholder `{$NAME}` inside a token is replaced by the variable's value (unset = empty): for every text
`pre{$NAME}post` whose other bytes, name and value are free of `{` (a value that itself contains a placeholder
is expanded again by the real code — and a value that contains its own placeholder is finding F19).
Nested and adjacent placeholders are covered by the correspondence streams only. -/
theorem C10_env_replaced (env : Env) (pre name post : Bytes) (fuel : Nat) (hfuel : 2 ≤ fuel)
    (h1 : (0x7B : UInt8) ∉ pre) (h2 : (0x7B : UInt8) ∉ name) (h3 : (0x7B : UInt8) ∉ post)
    (h4 : (0x7B : UInt8) ∉ getenv env name) (h5 : (0x7D : UInt8) ∉ name) (h6 : name ≠ []) :
    replaceEnvVars env fuel (dollarRef pre name post) = some (pre ++ getenv env name ++ post) :=
  replaceEnvVars_dollar env pre name post fuel hfuel h1 h2 h3 h4 h5 h6

/-- The Windows-style placeholder `{%NAME%}` likewise (the name additionally free of `%` and `}`). -/
theorem C10_env_replaced_percent (env : Env) (pre name post : Bytes) (fuel : Nat) (hfuel : 2 ≤ fuel)
    (h1 : (0x7B : UInt8) ∉ pre) (h2 : (0x7B : UInt8) ∉ name) (h3 : (0x7B : UInt8) ∉ post)
    (h4 : (0x7B : UInt8) ∉ getenv env name) (h5 : (0x7D : UInt8) ∉ name) (h5' : (0x25 : UInt8) ∉ name) (h6 : name ≠ []) :
    replaceEnvVars env fuel (percentRef pre name post) = some (pre ++ getenv env name ++ post) :=
  replaceEnvVars_percent env pre name post fuel hfuel h1 h2 h3 h4 h5 h5' h6

/-- non-vacuity: `a{$X}:80` with X = `hi` -/
example : replaceEnvVars [([0x58], [0x68, 0x69])] 5 (dollarRef [0x61] [0x58] [0x3A, 0x38, 0x30]) = some [0x61, 0x68, 0x69, 0x3A, 0x38, 0x30] :=
  C10_env_replaced _ _ _ _ 5 (by decide) (by decide) (by decide) (by decide) (by decide) (by decide) (by decide)

/-! ### import cycles (finding F8, repaired) -/

/-- Finding F8 on the code as it was (`cycleCheck := false` is the parser before the `fix:` commit):
a file that imports itself is followed forever — whatever the fuel, the answer is `timeout`. -/
theorem C10_cycle_diverges_unfixed (fuel : Nat) :
    parse unfixed fuel "Casketfile" sImportF0 = .timeout := by
  cases fuel with
  | zero => rfl
  | succ n =>
    have hs : (Disp.new "Casketfile" (lex sImportF0)).next =
        (true, ⟨"Casketfile", [⟨"", 1, sImport⟩, ⟨"", 1, [0x66, 0x30]⟩], 0, 0⟩) := by decide
    unfold parse parseTokens parseAll
    simp only [hs, Bool.not_true, Bool.false_eq_true, if_false]
    unfold begin
    have hne : (List.isEmpty [(⟨"", 1, sImport⟩ : Token), ⟨"", 1, [0x66, 0x30]⟩]) = false := rfl
    simp only [hne, Bool.false_eq_true, if_false]
    unfold addresses
    have h1 : envR unfixed (Disp.val ⟨"Casketfile", [⟨"", 1, sImport⟩, ⟨"", 1, [0x66, 0x30]⟩], 0, 0⟩) = .ok sImport := by decide
    have h2 : (sImport == sImport && Disp.isNewLine ⟨"Casketfile", [⟨"", 1, sImport⟩, ⟨"", 1, [0x66, 0x30]⟩], 0, 0⟩) = true := by decide
    have h3 : doImport unfixed { d := ⟨"Casketfile", [⟨"", 1, sImport⟩, ⟨"", 1, [0x66, 0x30]⟩], 0, 0⟩, keys := [], btoks := [] }
        = .ok loopState := by decide
    simp only [h1, Res.bind, h2, if_true, h3, addresses_loops]

/-- The repaired parser (the model the correspondence stream runs) answers the same input with
an error that names the importing file and line. -/
theorem C10_cycle_rejected :
    answerOf (parse { fs := selfFS, envFuel := 3 } 10 "Casketfile" sImportF0) = .error "import-cycle" "f0" 1 := by
  decide

end Casket.Props.C10
