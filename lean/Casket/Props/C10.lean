import Casket.Spec.Parser
/-
C10 — Casketfile parsing is total, terminating and structure-preserving.

Statements only (helper lemmas: Casket/Proofs/Lexer.lean, Casket/Proofs/Parser.lean).
The model (`Casket.Lexer.lex`, `Casket.Parser.parse`) is tied to casketfile/lexer.go and
casketfile/parse.go by the streams c10.lex / c10.parse / c10.rt.
-/
namespace Casket.Props.C10
open Casket.Lexer Casket.Dispenser Casket.Parser Casket.ParserSpec

/-! ### import cycles (finding F8, repaired) -/

def sImportF0 : Bytes := sImport ++ [0x20, 0x66, 0x30, 0x0A]      -- "import f0\n"
/-- a directory whose file `f0` imports itself -/
def selfFS : FS := ⟨[("f0", sImportF0)]⟩
def unfixed : Cfg := { fs := selfFS, cycleCheck := false, envFuel := 3 }

/-- the state the unrepaired parser keeps coming back to -/
def loopState : PState := { d := ⟨"Casketfile", [⟨"f0", 1, sImport⟩, ⟨"f0", 1, [0x66, 0x30]⟩], 0, 0⟩ }

theorem loopState_step : doImport unfixed loopState = .ok loopState := by decide

theorem addresses_loops (fuel : Nat) : addresses unfixed fuel loopState false = .timeout := by
  induction fuel with
  | zero => rfl
  | succ n ih =>
    have h1 : envR unfixed loopState.d.val = .ok sImport := by decide
    have h2 : (sImport == sImport && loopState.d.isNewLine) = true := by decide
    unfold addresses
    rw [h1]
    simp only [Res.bind, h2, if_true, loopState_step, ih]

/-- Finding F8 on the code as it was (`cycleCheck := false` is the parser before the `fix:` commit):
a file that imports itself is followed forever — whatever the fuel, the answer is `timeout`. -/
theorem C10_cycle_diverges_unfixed (fuel : Nat) :
    parse unfixed fuel "Casketfile" sImportF0 = .timeout := by
  cases fuel with
  | zero => rfl
  | succ n =>
    have hs : (Disp.new "Casketfile" (lex sImportF0)).next =
        (true, ⟨"Casketfile", [⟨"", 1, sImport⟩, ⟨"", 1, [0x66, 0x30]⟩], 0, 0⟩) := by decide
    unfold parse parseTokens parseAll
    simp only [hs, Bool.not_true, Bool.false_eq_true, if_false]
    unfold begin
    have hne : (List.isEmpty [(⟨"", 1, sImport⟩ : Token), ⟨"", 1, [0x66, 0x30]⟩]) = false := rfl
    simp only [hne, Bool.false_eq_true, if_false]
    unfold addresses
    have h1 : envR unfixed (Disp.val ⟨"Casketfile", [⟨"", 1, sImport⟩, ⟨"", 1, [0x66, 0x30]⟩], 0, 0⟩) = .ok sImport := by decide
    have h2 : (sImport == sImport && Disp.isNewLine ⟨"Casketfile", [⟨"", 1, sImport⟩, ⟨"", 1, [0x66, 0x30]⟩], 0, 0⟩) = true := by decide
    have h3 : doImport unfixed { d := ⟨"Casketfile", [⟨"", 1, sImport⟩, ⟨"", 1, [0x66, 0x30]⟩], 0, 0⟩, keys := [], btoks := [] }
        = .ok loopState := by decide
    simp only [h1, Res.bind, h2, if_true, h3, addresses_loops]

/-- The repaired parser (the model the correspondence stream runs) answers the same input with
an error that names the importing file and line. -/
theorem C10_cycle_rejected :
    answerOf (parse { fs := selfFS, envFuel := 3 } 10 "Casketfile" sImportF0) = .error "import-cycle" "f0" 1 := by
  decide

end Casket.Props.C10
