import Casket.Model.Middleware
import Casket.Spec.Middleware
namespace Casket.Props.C12
open Casket.Mw Casket.MwSpec

theorem C12_placeholder : (runOps []).commits = 0 := rfl

end Casket.Props.C12
