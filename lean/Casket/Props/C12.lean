import Casket.Proofs.Middleware
import Casket.Generated.Directives
/-
C12 — Each request gets exactly one well-formed response; panics are contained.

Statements only; helper lemmas live in Casket/Proofs/Middleware.lean.  `serve c r n i` is the
model of Server.ServeHTTP over the site's chain (log, gzip, header, errors, templates in directive
order; limits, request_id, rewrite, status, mime, internal are the identity on requests that do
not trigger them) around the innermost behaviour `i`, observed by a ResponseWriter that counts
header commits.  It is tied to the Go code by the stream c12.serve (real loader, real
Server.ServeHTTP, a `probe` directive as innermost handler).  `MwSpec.good` is the property for
one request; `MwSpec.verdict` (= "ok" iff good) is what the driver applies to the
implementation's answers.

Quantification: every subset of the wrappers (`Cfg`: 2⁴ × the four `errors` configurations),
every request class (`Req`), every innermost behaviour satisfying the handler contract
(`Inner.ok`): any status, any body — plain, or a template that renders, does not parse, or fails
while executing —, with or without its own Content-Length, with or without an error value, panics
before and after writing.  io.Copy, io.WriteString and a trailing Flush are a Write in the model
(that is what the property demands of every wrapper's fast path; the stream exercises them).
-/
namespace Casket.Props.C12
open Casket.Mw Casket.MwSpec

/-- `templates` renders this request -/
abbrev tplOn (c : Cfg) (r : Req) : Bool := c.templates && r.html

/-- The whole judged predicate holds of the model for every stack, request and behaviour. -/
theorem C12_good (c : Cfg) (r : Req) (n : Nat) (i : Inner) (hok : Inner.ok i = true) :
    good (tplOn c r) (effectiveErrors c) i (serve c r n i) = true :=
  inv_server _ _ _ _ (inv_chain c r n i hok)

theorem statusOK_of_core (tpl : Bool) (m : Option ErrMode) (i : Inner) (r : Resp)
    (h : goodCore tpl m i r = true) : statusOK tpl m i r = true := by
  unfold goodCore at h
  unfold statusOK
  cases i with
  | ret s e =>
    by_cases hs : s ≥ 400
    · simp only [hs, if_true, Bool.and_eq_true] at h ⊢; exact h.1
    · simp only [hs, if_false, Bool.and_eq_true] at h ⊢; exact h.1
  | write s b e k cl =>
    simp only [Bool.and_eq_true] at h ⊢
    refine ⟨h.1, ?_⟩
    have hw := h.2
    unfold writtenOK at hw
    cases tpl <;> cases e <;> cases k <;> simp_all
  | panicBefore => simp only [Bool.and_eq_true] at h ⊢; exact h.1
  | panicAfter s b =>
    simp only [Bool.or_eq_true, Bool.and_eq_true] at h ⊢
    rcases h with h | h
    · exact Or.inl h.1
    · exact Or.inr h.1

/-- What is on the wire (net/http's rules for HEAD, 204 and 304, trusted): exactly one
well-formed response also there — committed once with the status the property asks for, no body,
no Content-Length on 204/304; for every other response the full predicate. -/
theorem statusOK_congr (tpl : Bool) (m : Option ErrMode) (i : Inner) (r r' : Resp)
    (hc : r'.commits = r.commits) (hs : r'.status = r.status) : statusOK tpl m i r' = statusOK tpl m i r := by
  unfold statusOK; cases i <;> simp only [hc, hs]

theorem C12_good_wire (c : Cfg) (r : Req) (n : Nat) (i : Inner) (hok : Inner.ok i = true) :
    goodWire r.head (tplOn c r) (effectiveErrors c) i (serveWire c r n i) = true := by
  have hg := C12_good c r n i hok
  unfold serveWire
  generalize serve c r n i = R at hg
  unfold goodWire wire
  by_cases hb : bodiless r.head R.status = true
  · have hcore : goodCore (tplOn c r) (effectiveErrors c) i R = true := by
      unfold good at hg; simp only [Bool.and_eq_true] at hg; exact hg.1
    have hs := statusOK_of_core _ _ _ _ hcore
    have key : ∀ R' : Resp, R'.commits = R.commits → R'.status = R.status →
        statusOK (tplOn c r) (effectiveErrors c) i R' = true :=
      fun R' h1 h2 => by rw [statusOK_congr _ _ _ R R' h1 h2]; exact hs
    simp only [hb, if_true, Bool.and_eq_true]
    refine ⟨⟨key _ rfl rfl, rfl⟩, ?_⟩
    by_cases h24 : R.status = 204 ∨ R.status = 304
    · rcases h24 with h24 | h24 <;> simp [h24]
    · have h1 : ¬ R.status = 204 := fun e => h24 (Or.inl e)
      have h2 : ¬ R.status = 304 := fun e => h24 (Or.inr e)
      simp [h1, h2]
  · have hb' : bodiless r.head R.status = false := by simpa using hb
    simp only [hb', Bool.false_eq_true, if_false]
    exact hg

theorem C12_model_verdict_ok (c : Cfg) (r : Req) (n : Nat) (i : Inner) (hok : Inner.ok i = true) :
    verdict r.head (tplOn c r) (effectiveErrors c) i (serveWire c r n i) = "ok" := by
  unfold verdict; rw [C12_good_wire c r n i hok]; rfl

theorem C12_core (c : Cfg) (r : Req) (n : Nat) (i : Inner) (hok : Inner.ok i = true) :
    goodCore (tplOn c r) (effectiveErrors c) i (serve c r n i) = true := by
  have := C12_good c r n i hok
  unfold good at this
  simp only [Bool.and_eq_true] at this
  exact this.1

/-- Well-formed: whatever the stack and whatever the handler did — including setting a
Content-Length for a body that `templates` then renders, refuses to parse or fails to execute —
the Content-Length committed with the header describes exactly the body that is sent. -/
theorem C12_content_length_consistent (c : Cfg) (r : Req) (n : Nat) (i : Inner) (hok : Inner.ok i = true) :
    clOK (serve c r n i) = true := by
  have := C12_good c r n i hok
  unfold good at this
  simp only [Bool.and_eq_true] at this
  exact this.2

/-- The response header is committed at most once — for every behaviour except a panic after
the handler started writing; exactly once whenever there is anything to say. -/
theorem C12_commits_once (c : Cfg) (r : Req) (n : Nat) (i : Inner) (hok : Inner.ok i = true)
    (hna : ∀ s b, i ≠ .panicAfter s b) : (serve c r n i).commits ≤ 1 := by
  have h := C12_core c r n i hok
  unfold goodCore at h
  cases i with
  | ret s e =>
    by_cases hs : s ≥ 400
    · simp only [hs, if_true, Bool.and_eq_true, beq_iff_eq] at h; omega
    · simp only [hs, if_false, Bool.and_eq_true, decide_eq_true_eq] at h; exact h.1.1
  | write s b e k cl => simp only [Bool.and_eq_true, beq_iff_eq] at h; omega
  | panicBefore => simp only [Bool.and_eq_true, beq_iff_eq] at h; omega
  | panicAfter s b => exact absurd rfl (hna s b)

/-- A handler that reports an error status without writing: the client receives exactly that
status, once, with one error body — the configured page if one is configured for the status,
else the default text (or, under `errors visible`, the debug text when an error value came along). -/
theorem C12_error_status_gets_error_body (c : Cfg) (r : Req) (n : Nat) (s : Nat) (e : Bool) (hs : s ≥ 400) :
    (serve c r n (.ret s e)).commits = 1 ∧ (serve c r n (.ret s e)).status = s ∧
    ∃ ch, chunks (serve c r n (.ret s e)) = [ch] ∧ errorBodyOK (effectiveErrors c) s e ch = true := by
  have h := C12_core c r n (.ret s e) (by simp [Inner.ok, hs])
  unfold goodCore at h
  simp only [hs, if_true, Bool.and_eq_true, beq_iff_eq] at h
  refine ⟨h.1.1, h.1.2, ?_⟩
  generalize chunks (serve c r n (.ret s e)) = cs at h
  match cs, h with
  | [ch], h => exact ⟨ch, rfl, h.2⟩

theorem write_ok (s : Option Nat) (b : Bytes) (e : Bool) (k : BodyKind) (cl : Bool)
    (hs : ∀ code, s = some code → code ≥ 100) : Inner.ok (.write s b e k cl) = true := by
  cases s with
  | none => rfl
  | some code => simp [Inner.ok, hs code rfl]

/-- A handler that wrote a response which `templates` does not render (directive absent, other
extension, or the handler also returned an error value): the client receives its status and
exactly its body, committed once, whatever wrappers surround it, however the body was output
(Write, io.Copy, io.WriteString, with a trailing Flush) and with or without its own
Content-Length (one chunk ⇒ coded as a whole or not at all). -/
theorem C12_written_response_unaltered (c : Cfg) (r : Req) (n : Nat) (s : Option Nat) (b : Bytes) (e : Bool)
    (k : BodyKind) (cl : Bool) (hs : ∀ code, s = some code → code ≥ 100) (hn : (tplOn c r && !e) = false) :
    (serve c r n (.write s b e k cl)).commits = 1 ∧ (serve c r n (.write s b e k cl)).status = statusOf s ∧
    chunks (serve c r n (.write s b e k cl)) = [.inner b] := by
  have h := C12_core c r n (.write s b e k cl) (write_ok s b e k cl hs)
  unfold goodCore writtenOK at h
  simp only [hn, Bool.false_eq_true, if_false, Bool.and_eq_true, beq_iff_eq] at h
  exact ⟨h.1, h.2.1, h.2.2⟩

/-- … and when `templates` renders it: a plain body arrives as it is, a template arrives
rendered, both with the handler's status; a template that does not parse or that fails while it
executes gives exactly one 500 error response with one proper error body. -/
theorem C12_templates_outcomes (c : Cfg) (r : Req) (n : Nat) (s : Option Nat) (b : Bytes) (k : BodyKind) (cl : Bool)
    (hs : ∀ code, s = some code → code ≥ 100) (ht : tplOn c r = true) :
    (serve c r n (.write s b false k cl)).commits = 1 ∧
    match k with
    | .plain => (serve c r n (.write s b false k cl)).status = statusOf s ∧
        chunks (serve c r n (.write s b false k cl)) = [.inner b]
    | .tplOK => (serve c r n (.write s b false k cl)).status = statusOf s ∧
        chunks (serve c r n (.write s b false k cl)) = [.rendered b]
    | .tplParse => (serve c r n (.write s b false k cl)).status = 500 ∧
        oneChunk (errorBodyOK (effectiveErrors c) 500 true) (chunks (serve c r n (.write s b false k cl))) = true
    | .tplExec => (serve c r n (.write s b false k cl)).status = 500 ∧
        oneChunk (errorBodyOK (effectiveErrors c) 500 true) (chunks (serve c r n (.write s b false k cl))) = true := by
  have h := C12_core c r n (.write s b false k cl) (write_ok s b false k cl hs)
  unfold goodCore writtenOK at h
  simp only [ht, Bool.not_false, Bool.and_true, if_true, Bool.and_eq_true, beq_iff_eq] at h
  refine ⟨h.1, ?_⟩
  cases k <;> simp only [Bool.and_eq_true, beq_iff_eq] at h ⊢ <;> exact h.2

/-- A panic before anything was written is contained: the client receives 500, once, with an
error body. -/
theorem C12_panic_before_write_500 (c : Cfg) (r : Req) (n : Nat) :
    (serve c r n .panicBefore).commits = 1 ∧ (serve c r n .panicBefore).status = 500 ∧
    ∃ ch, chunks (serve c r n .panicBefore) = [ch] ∧ panicBodyOK (effectiveErrors c) ch = true := by
  have h := C12_core c r n .panicBefore rfl
  unfold goodCore at h
  simp only [Bool.and_eq_true, beq_iff_eq] at h
  refine ⟨h.1.1, h.1.2, ?_⟩
  generalize chunks (serve c r n .panicBefore) = cs at h
  match cs, h with
  | [ch], h => exact ⟨ch, rfl, h.2⟩

/-- A panic after the handler started writing is contained too: a response is always produced
(the panic never escapes Server.ServeHTTP in the model: `serve` is total), and either the
handler's own status and bytes come first, or — when a buffering wrapper still held them — the
client sees the panic-before-writing response. -/
theorem C12_panic_after_write_contained (c : Cfg) (r : Req) (n : Nat) (s : Option Nat) (b : Bytes)
    (hs : ∀ code, s = some code → code ≥ 100) :
    (serve c r n (.panicAfter s b)).commits ≥ 1 ∧
    (((serve c r n (.panicAfter s b)).status = statusOf s ∧
        firstChunkIs (.inner b) (chunks (serve c r n (.panicAfter s b))) = true) ∨
     ((serve c r n (.panicAfter s b)).commits = 1 ∧ (serve c r n (.panicAfter s b)).status = 500)) := by
  have hok : Inner.ok (.panicAfter s b) = true := by
    cases s with
    | none => rfl
    | some code => simp [Inner.ok, hs code rfl]
  have h := C12_core c r n (.panicAfter s b) hok
  unfold goodCore at h
  simp only [Bool.or_eq_true, Bool.and_eq_true, beq_iff_eq, bne_iff_ne, ne_eq] at h
  rcases h with h | h
  · exact ⟨by omega, Or.inr ⟨h.1.1, h.1.2⟩⟩
  · exact ⟨by omega, Or.inl ⟨h.1.2, h.2⟩⟩

/-- Nothing to say: a handler that neither wrote nor reported an error leaves at most one
commit and an empty body (net/http then answers 200). -/
theorem C12_nothing_invented (c : Cfg) (r : Req) (n : Nat) (s : Nat) (hs : s < 400) (hv : s = 0 ∨ s ≥ 100) :
    (serve c r n (.ret s false)).commits ≤ 1 ∧ chunks (serve c r n (.ret s false)) = [] := by
  have hok : Inner.ok (.ret s false) = true := by
    rcases hv with hv | hv <;> simp [Inner.ok, hv]
  have h := C12_core c r n (.ret s false) hok
  unfold goodCore at h
  have hn : ¬ s ≥ 400 := by omega
  simp only [hn, if_false, Bool.and_eq_true, decide_eq_true_eq, List.isEmpty_iff] at h
  exact ⟨h.1.1, h.2⟩

/-- "Only that request is affected": whatever a request did — including a panic before or after
writing, through any stack — the responses to the requests that follow on the same server are the
responses those requests would get on a fresh server: each is a function of its own request alone.
(The server state of the model: the gzip writer pool, the templates buffer pool, the access log;
the middleware chain is never written by a request.) -/
theorem C12_panic_isolated (c : Cfg) (st : ServerState) (first : Req × Nat × Inner)
    (later : List (Req × Nat × Inner)) :
    (serveAll c st (first :: later)).tail = later.map (fun q => serve c q.1 q.2.1 q.2.2) := by
  rw [serveAll_eq]; rfl

/-- … and for the request itself: the state earlier requests left does not show in its response. -/
theorem C12_response_independent_of_state (c : Cfg) (r : Req) (n : Nat) (i : Inner) (st st' : ServerState) :
    (serveSt true c r n i st).1 = (serveSt true c r n i st').1 := by
  rw [serveSt_resp, serveSt_resp]

/-- What a request leaves behind differs from what it found only in benign components: every
scratch object it took is back in its pool — also when the handler panicked — (a new one was
made if the pool was empty), holding bytes that the next user clears; the access log grew by at
most one entry.  Nothing else exists in the state. -/
theorem C12_state_after (c : Cfg) (r : Req) (n : Nat) (i : Inner) (st : ServerState) :
    let st' := (serveSt true c r n i st).2
    (st'.tplPool.length = if c.templates then max 1 st.tplPool.length else st.tplPool.length) ∧
    (st.gzPool.length ≤ st'.gzPool.length ∧ st'.gzPool.length ≤ max 1 st.gzPool.length) ∧
    (st.logLines ≤ st'.logLines ∧ st'.logLines ≤ st.logLines + 1) := by
  simp only [serveSt]
  exact ⟨putBack_length _ _ _ _, putBack_bounds _ _ _ _, logAfter_bounds _ _⟩

/-- Every pooled object (gzip writer, template buffer) is in its pool at most once and was really
handed out before — so `sync.Pool` never gives one object to two requests that are in flight
together —: an invariant of the server state, preserved by every request (also one that panics,
also one that returns an error status after the compressing writer was taken).  Returning a
writer to its pool twice would break exactly this. -/
theorem C12_pool_objects_unique (c : Cfg) (reqs : List (Req × Nat × Inner)) (st : ServerState)
    (h : poolsSound st) :
    poolsSound (reqs.foldl (fun st q => (serveSt true c q.1 q.2.1 q.2.2 st).2) st) := by
  induction reqs generalizing st with
  | nil => exact h
  | cons q qs ih => exact ih _ (poolsSound_step c q.1 q.2.1 q.2.2 st h)

/-- Informational headers are not the response: the error-status clause (and every other one)
holds after any number of them — in particular gzip, which lets them through, still answers an
unhandled error status afterwards. -/
theorem C12_error_after_informational (c : Cfg) (r : Req) (n : Nat) (s : Nat) (e : Bool) (hs : s ≥ 400) :
    (serve c r n (.ret s e)).commits = 1 ∧ (serve c r n (.ret s e)).status = s :=
  ⟨(C12_error_status_gets_error_body c r n s e hs).1, (C12_error_status_gets_error_body c r n s e hs).2.1⟩

def isSubseq : List String → List String → Bool
  | [], _ => true
  | _ :: _, [] => false
  | a :: as, b :: bs => if a = b then isSubseq as bs else isSubseq (a :: as) bs

/-- The order of the wrappers the model's chain assumes (and the place of the test-only probe
directive, before `proxy`) is the order of `directives` in plugin.go (regenerated on every run). -/
theorem C12_directive_order :
    isSubseq ["limits", "request_id", "log", "rewrite", "gzip", "header", "errors", "status", "mime",
      "internal", "templates", "proxy"] Casket.Generated.directives = true := by
  decide

/-! ### the site as it is written (several lines per directive, scopes, outputs, order)

`Site` is the configuration line by line; `siteServe` runs the chain in terms of the rule lists the
directives' setup functions build from those lines (first matching log rule / gzip config /
templates rule, one merged errors handler); `Site.cfg s path` is its meaning for a request path.
The stream writes the lines into a Casketfile and loads it with the real loader. -/

/-- `templates` renders this request on this site -/
abbrev siteTplOn (s : Site) (path : String) (r : Req) : Bool := (tplRuleFor s.templates path).isSome && r.html

/-- However the site is written — any number of lines per directive, any scopes, outputs,
formats, levels, in any order —, the judged predicate holds of the response to every request and
every behaviour satisfying the handler contract. -/
theorem C12_site_good (s : Site) (path : String) (r : Req) (n : Nat) (i : Inner) (hok : Inner.ok i = true) :
    good (siteTplOn s path r) s.errMode i (siteServe s path r n i) = true := by
  have h := C12_good (s.cfg path) r n i hok
  rw [site_effectiveErrors] at h
  rw [siteServe_eq]; exact h

/-- … and so does what the driver applies to the implementation's answers (judge and theorem are one spec). -/
theorem C12_site_model_verdict_ok (s : Site) (path : String) (r : Req) (n : Nat) (i : Inner) (hok : Inner.ok i = true) :
    verdict r.head ((s.cfg path).templates && r.html) (effectiveErrors (s.cfg path)) i (siteServeWire s path r n i) = "ok" := by
  rw [siteServeWire_eq]; exact C12_model_verdict_ok (s.cfg path) r n i hok

/-- Every spelling of the same meaning gives the same answer: the response depends on the lines
written only through what they mean for the request path. -/
theorem C12_spelling_irrelevant (s s' : Site) (path : String) (r : Req) (n : Nat) (i : Inner)
    (h : s.cfg path = s'.cfg path) : siteServe s path r n i = siteServe s' path r n i := by
  rw [siteServe_eq, siteServe_eq, h]

/-- What the `log` lines mean for a request: `log` acts on it iff the scope of SOME line matches
its path — not how many lines there are, which outputs they name (the same one or different
ones), which formats, or in which order they are written. -/
theorem C12_log_lines_meaning (s : Site) (path : String) :
    (s.cfg path).log = s.log.any fun l => pathMatches path (l.scope.getD "/") :=
  site_log_meaning s.log path

/-- log's setup starts the logger of EVERY entry of every rule, also of a second entry that
names an output an earlier line named already. -/
theorem C12_log_entries_all_started (lines : List LogLine) (r : LogRule) (h : r ∈ logSetup lines) :
    r.entries.all (·.started) = true :=
  logSetup_started lines r h

/-- … `templates` and `gzip`: the first rule / config that lets the request through decides, so
they act iff some line does. -/
theorem C12_templates_lines_meaning (s : Site) (path : String) :
    (s.cfg path).templates = s.templates.any fun t => pathMatches path t.path :=
  tplRuleFor_isSome s.templates path

/-- the error-status clause on a site as written: exactly one response with that status and one
acceptable error body, whatever lines the wrappers are configured with -/
theorem C12_site_error_status (s : Site) (path : String) (r : Req) (n : Nat) (st : Nat) (e : Bool) (hs : st ≥ 400) :
    (siteServe s path r n (.ret st e)).commits = 1 ∧ (siteServe s path r n (.ret st e)).status = st ∧
    ∃ ch, chunks (siteServe s path r n (.ret st e)) = [ch] ∧ errorBodyOK s.errMode st e ch = true := by
  have h := C12_error_status_gets_error_body (s.cfg path) r n st e hs
  rw [site_effectiveErrors] at h
  rw [siteServe_eq]; exact h

/-! ### gzip's response filters (min_length, an already encoded response, 204)

`gzip` wraps the writer in a ResponseFilterWriter whose filters decide, when the header is
committed, between the compressing writer and the plain one.  `dec` is ANY such decision (a
function of the calls that reach gzip); `respFilters` is the one the code takes.  Whatever is
decided, every clause holds — in particular the header is committed once also when the handler
flushes a response the filters declined (a Flush is a Write for the model: on the plain writer it
goes straight to the underlying writer). -/

/-- the judged predicate, for every decision of the response filters -/
theorem C12_filtered_good (dec : List WOp → Bool) (c : Cfg) (r : Req) (n : Nat) (i : Inner) (hok : Inner.ok i = true) :
    good (tplOn c r) (effectiveErrors c) i (serveF dec c r n i) = true :=
  inv_server _ _ _ _ (inv_chainF dec c r n i hok)

/-- net/http's wire rules applied to any response of which `good` holds -/
theorem goodWire_of_good (head tpl : Bool) (m : Option ErrMode) (i : Inner) (R : Resp)
    (hg : good tpl m i R = true) : goodWire head tpl m i (wire head R) = true := by
  unfold goodWire wire
  by_cases hb : bodiless head R.status = true
  · have hcore : goodCore tpl m i R = true := by
      unfold good at hg; simp only [Bool.and_eq_true] at hg; exact hg.1
    have hs := statusOK_of_core _ _ _ _ hcore
    have key : ∀ R' : Resp, R'.commits = R.commits → R'.status = R.status →
        statusOK tpl m i R' = true :=
      fun R' h1 h2 => by rw [statusOK_congr _ _ _ R R' h1 h2]; exact hs
    simp only [hb, if_true, Bool.and_eq_true]
    refine ⟨⟨key _ rfl rfl, rfl⟩, ?_⟩
    by_cases h24 : R.status = 204 ∨ R.status = 304
    · rcases h24 with h24 | h24 <;> simp [h24]
    · have h1 : ¬ R.status = 204 := fun e => h24 (Or.inl e)
      have h2 : ¬ R.status = 304 := fun e => h24 (Or.inr e)
      simp [h1, h2]
  · have hb' : bodiless head R.status = false := by simpa using hb
    simp only [hb', Bool.false_eq_true, if_false]
    exact hg

theorem C12_filtered_model_verdict_ok (dec : List WOp → Bool) (c : Cfg) (r : Req) (n : Nat) (i : Inner)
    (hok : Inner.ok i = true) :
    verdict r.head (tplOn c r) (effectiveErrors c) i (serveWireF dec c r n i) = "ok" := by
  unfold verdict serveWireF
  rw [goodWire_of_good _ _ _ _ _ (C12_filtered_good dec c r n i hok)]; rfl

/-- committed at most once, whatever the filters decide (a panic after writing excepted) -/
theorem C12_filtered_commits_once (dec : List WOp → Bool) (c : Cfg) (r : Req) (n : Nat) (i : Inner)
    (hok : Inner.ok i = true) (hna : ∀ s b, i ≠ .panicAfter s b) : (serveF dec c r n i).commits ≤ 1 := by
  have h : goodCore (tplOn c r) (effectiveErrors c) i (serveF dec c r n i) = true := by
    have := C12_filtered_good dec c r n i hok
    unfold good at this
    simp only [Bool.and_eq_true] at this
    exact this.1
  unfold goodCore at h
  cases i with
  | ret s e =>
    by_cases hs : s ≥ 400
    · simp only [hs, if_true, Bool.and_eq_true, beq_iff_eq] at h; omega
    · simp only [hs, if_false, Bool.and_eq_true, decide_eq_true_eq] at h; exact h.1.1
  | write s b e k cl => simp only [Bool.and_eq_true, beq_iff_eq] at h; omega
  | panicBefore => simp only [Bool.and_eq_true, beq_iff_eq] at h; omega
  | panicAfter s b => exact absurd rfl (hna s b)

/-- filters that never decline give the chain of the theorems above -/
theorem C12_filters_all_compress (c : Cfg) (r : Req) (n : Nat) (i : Inner) :
    serveF (fun _ => true) c r n i = serve c r n i := by
  unfold serveF serve; rw [chainF_all]

/-- what the driver computes and judges: the site as written, the response filters of the first
gzip config that lets the request through, the facts they read off the response header -/
theorem C12_site_filtered_model_verdict_ok (f : RespFacts) (s : Site) (path : String) (r : Req) (n : Nat)
    (i : Inner) (hok : Inner.ok i = true) :
    verdict r.head ((s.cfg path).templates && r.html) (effectiveErrors (s.cfg path)) i
      (siteServeWireF f s path r n i) = "ok" := by
  rw [siteServeWireF_eq]; exact C12_filtered_model_verdict_ok _ (s.cfg path) r n i hok

/-- test: min_length 1000, a 404 written with Content-Length 5 and flushed — the filters decline,
one commit, 404, the bytes uncoded, the Content-Length kept; with min_length 3 it is compressed -/
example :
    let i := Inner.write (some 404) [1, 2, 3, 4, 5] false .plain true
    let c : Cfg := { log := false, gzip := true, header := false, errors := none, templates := false }
    let len : Chunk → Nat := fun ch => match ch with | .inner b => b.length | _ => 0
    (serveF (respFilters (some 1000) false len) c ⟨true, true, false⟩ 0 i =
      { commits := 1, status := 404, body := [(.inner [1, 2, 3, 4, 5], false)],
        cl := some (.inner [1, 2, 3, 4, 5]), live := some (.inner [1, 2, 3, 4, 5]) }) ∧
    (serveF (respFilters (some 3) false len) c ⟨true, true, false⟩ 0 i).body = [(.inner [1, 2, 3, 4, 5], true)] ∧
    (serveF (respFilters none true len) c ⟨true, true, false⟩ 0 i).body = [(.inner [1, 2, 3, 4, 5], false)] ∧
    (serveF (respFilters none false len) c ⟨true, true, false⟩ 0 (.write (some 204) [7] false .plain false)).body =
      [(.inner [7], false)] := by
  decide

/-! Non-vacuity and tests on literals. -/

def full : Cfg := { log := true, gzip := true, header := true, errors := some .page404, templates := true }

/-- test: full stack, template request offering gzip, handler returns (404, err): one commit,
404, the configured page, gzip-coded, no Content-Length -/
example : serve full ⟨true, true, false⟩ 0 (.ret 404 true) =
    { commits := 1, status := 404, body := [(.custom 404, true)], cl := none, live := none } := by decide

/-- test: F16 — templates around a handler that wrote 201 "hi" with Content-Length and returned (0, err) -/
example : serve { full with gzip := false, errors := none } ⟨true, false, false⟩ 0 (.write (some 201) [104, 105] true .plain true) =
    { commits := 1, status := 201, body := [(.inner [104, 105], false)], cl := some (.inner [104, 105]),
      live := some (.inner [104, 105]) } := by decide

/-- test: the seeded scenario — templates, no gzip, a body with its own Content-Length that parses
but fails in Execute: a clean 500 with no Content-Length left behind -/
example : serve { full with gzip := false, errors := none, log := false, header := false } ⟨true, false, false⟩ 0
      (.write (some 200) [1, 2, 3] false .tplExec true) =
    { commits := 1, status := 500, body := [(.errText 500, false)], cl := none, live := none } := by decide

/-- test: a template that renders gets the length of the rendered text -/
example : (serve { full with gzip := false } ⟨true, false, false⟩ 0 (.write none [1, 2, 3] false .tplOK true)).cl =
    some (.rendered [1, 2, 3]) := by decide

/-- test: no `errors`, no `gzip`: a panic after writing reaches Server.ServeHTTP, whose fallback
is a second commit attempt after the handler's own bytes (the tolerated exception) -/
example : (serve { full with gzip := false, errors := none, templates := false, header := false } ⟨true, false, false⟩ 0
      (.panicAfter (some 200) [1])).commits = 2 := by decide

/-- test: the seeded scenario C12-gzip-tracking-writer-1xx — a chain with gzip but without errors
(assembled through the API, no Casketfile), two informational headers, then (404, nil): gzip must
still write the error response -/
example : serve { log := false, gzip := true, header := false, errors := none, templates := false, inject := false }
      ⟨true, true, false⟩ 2 (.ret 404 false) =
    { commits := 1, status := 404, body := [(.errText 404, false)], cl := none, live := none } := by decide

/-- non-vacuity of `C12_pool_objects_unique`: the empty state is sound, and so is one with two
distinct objects; a pool holding one object twice is not -/
example : poolsSound { gzPool := [], tplPool := [], logLines := 0, nextId := 0 } ∧
    poolsSound { gzPool := [⟨0, []⟩], tplPool := [⟨1, []⟩], logLines := 3, nextId := 2 } ∧
    ¬ poolsSound { gzPool := [⟨0, []⟩, ⟨0, []⟩], tplPool := [], logLines := 0, nextId := 1 } := by
  refine ⟨⟨by simp, by simp⟩, ⟨by simp, by intro p hp; simp at hp; rcases hp with rfl | rfl <;> simp⟩, ?_⟩
  intro h; have := h.1; simp at this

/-- non-vacuity: the contract hypothesis `Inner.ok` admits every kind of behaviour, and excludes
exactly the contract violations named in docs/C12.md -/
example : Inner.ok (.ret 404 true) = true ∧ Inner.ok (.ret 0 false) = true ∧ Inner.ok (.ret 301 false) = true ∧
    Inner.ok (.write (some 201) [104, 105] true .tplExec true) = true ∧ Inner.ok (.write none [1] false .plain false) = true ∧
    Inner.ok .panicBefore = true ∧ Inner.ok (.panicAfter (some 500) [1]) = true ∧
    Inner.ok (.ret 0 true) = false ∧ Inner.ok (.ret 200 true) = false ∧
    Inner.ok (.write (some 7) [1] false .plain false) = false := by
  decide

/-- test (the isolation theorem is about the clearing of pooled objects): on a server that did
NOT clear them when taken, the body a panicking request left in the templates buffer would show up
in the next response -/
example :
    let c : Cfg := { full with gzip := false, errors := none, log := false, header := false }
    let st0 : ServerState := { gzPool := [], tplPool := [], logLines := 0, nextId := 0 }
    let st1 := (serveSt false c ⟨true, false, false⟩ 0 (.write (some 200) [9] false .plain false) st0).2
    (serveSt false c ⟨true, false, false⟩ 0 (.write (some 200) [1] false .plain false) st1).1 ≠
      serve c ⟨true, false, false⟩ 0 (.write (some 200) [1] false .plain false) ∧
    (serveSt true c ⟨true, false, false⟩ 0 (.write (some 200) [1] false .plain false) st1).1 =
      serve c ⟨true, false, false⟩ 0 (.write (some 200) [1] false .plain false) := by decide

/-- non-vacuity of the hypotheses of `C12_written_response_unaltered` / `C12_templates_outcomes` -/
example : (tplOn full ⟨false, true, false⟩ && !false) = false ∧ (tplOn full ⟨true, true, false⟩ && !true) = false ∧
    tplOn full ⟨true, false, false⟩ = true := by decide

/-- test: the judge rejects a dropped body, a doubled commit, a wrong error page, and a 500 that
carries the Content-Length of the unrendered template (the seeded regression) -/
example :
    good false none (.write (some 200) [1] true .plain false) { commits := 0, status := 0, body := [], cl := none, live := none } = false ∧
    good false none (.write (some 200) [1] false .plain false)
      { commits := 2, status := 200, body := [(.inner [1], false)], cl := none, live := none } = false ∧
    good false (some .page404) (.ret 404 false)
      { commits := 1, status := 404, body := [(.errText 404, false)], cl := none, live := none } = false ∧
    good true none (.write (some 200) [1, 2, 3] false .tplExec true)
      { commits := 1, status := 500, body := [(.errText 500, false)], cl := some (.inner [1, 2, 3]), live := none } = false ∧
    good true none (.write (some 200) [1, 2, 3] false .tplExec true)
      { commits := 1, status := 500, body := [(.errText 500, false)], cl := none, live := none } = true := by
  decide

/-- the seeded scenario C12-log-same-output-started-once as written: `log /api access.log "{combined}"`
followed by `log / access.log` — two rules, one output -/
def twoLogs : Site :=
  { log := [⟨some "/api", "a", some "{combined}"⟩, ⟨some "/", "a", none⟩], gzip := [], header := [], errors := [],
    templates := [] }

/-- test: a request under the second rule that ends in (404, nil) gets one 404 with one error body;
the same site written with one line, or with the lines for two different outputs, answers the same -/
example : siteServe twoLogs "/x.html" ⟨true, false, false⟩ 0 (.ret 404 false) =
      { commits := 1, status := 404, body := [(.errText 404, false)], cl := none, live := none } ∧
    twoLogs.cfg "/x.html" = { twoLogs with log := [⟨none, "b", none⟩] }.cfg "/x.html" ∧
    (twoLogs.cfg "/x.html").log = true ∧ (twoLogs.cfg "/api/x.html").log = true ∧
    ({ twoLogs with log := [⟨some "/api", "a", none⟩] }.cfg "/x.html").log = false := by decide

/-- test (`C12_log_entries_all_started` is what the response relies on): under a rule whose second
entry was NOT started the handler's error response would be followed by a panic in the log
middleware — Server.ServeHTTP's fallback then hits the committed response a second time and
appends a second error body -/
example :
    let rule : LogRule := ⟨"/", [⟨"a", "{common}", true⟩, ⟨"a", "{common}", false⟩]⟩
    runOps (serverW (logRuleW (some rule) (Inner.ret 404 false).beh)) =
      { commits := 2, status := 404, body := [(.errText 404, false), (.errText 500, false)], cl := none, live := none } ∧
    good false none (.ret 404 false) (runOps (serverW (logRuleW (some rule) (Inner.ret 404 false).beh))) = false := by decide

/-- test: the meaning depends on the request path — `gzip { not /x }` then `gzip { level 9 }`:
the second config compresses /x.html; alone, the first does not; `templates /f-` leaves /x.html alone -/
example :
    let s : Site := { log := [], gzip := [⟨["/x"], none, none⟩, ⟨[], some 9, none⟩], header := [⟨"/api", 1⟩], errors := [⟨.visible, []⟩, ⟨.visible, []⟩],
                      templates := [⟨"/F-"⟩] }
    (s.cfg "/x.html").gzip = true ∧ ({ s with gzip := [⟨["/x"], none, none⟩] }.cfg "/x.html").gzip = false ∧
    ({ s with gzip := [⟨["/x"], none, none⟩] }.cfg "/f-tok.html").gzip = true ∧ (s.cfg "/x.html").header = true ∧
    (s.cfg "/x.html").templates = false ∧ (s.cfg "/f-tok.html").templates = true ∧ s.errMode = some .visible ∧
    { s with errors := [] }.errMode = some .plain ∧ { s with errors := [], gzip := [] }.errMode = none ∧
    { s with errors := [⟨.logFile "a", []⟩, ⟨.none, [404]⟩] }.errMode = some .page404 := by decide

end Casket.Props.C12
