import Casket.Proofs.Exec
import Casket.Generated.Directives
import Casket.Generated.Registered
/-
C09 — Directives act in the fixed documented order, not in file order.

Model: Model/Exec.lean (`parseLines` = the parser's per-directive grouping, `inspect` =
InspectServerBlocks' implicit `errors`, `execSeq` = executeDirectives, `siteMiddleware`/`compile` =
AddMiddleware + NewServer).  `D` below is any directive list; the facts at the end are about the
regenerated list `Casket.Generated.directives` (plugin.go).  The streams c09.group / c09.perm tie the
model to the real parser and loader and compare real responses; what a directive's setup function
does with its tokens is NOT modelled — the theorems show that every setup function receives the
same tokens, in the same global call sequence, whatever the order of the lines.
-/
namespace Casket.Props.C09
open Casket.Exec Casket.ExecSpec

/-- Grouping: a reordering of a block's lines that keeps lines of the same directive in their
relative order gives every directive exactly the same tokens. -/
theorem C09_group_stable_perm (ls ls' : List Line) (h : StablePerm ls ls') (d : Dir) :
    tokensOf (parseLines ls) d = tokensOf (parseLines ls') d := by
  rw [tokensOf_parseLines, tokensOf_parseLines]
  simp only [lineTokens, h d]

/-- Execution: for any directive list and any server blocks, reordering the lines inside the
blocks (stably) leaves the whole sequence of setup calls — which directive, for which block and
key, with which tokens, in which order — unchanged. -/
theorem C09_exec_independent (D : List Dir) (blocks blocks' : List Block) (h : BlocksPerm blocks blocks') :
    execSeq D blocks = execSeq D blocks' := by
  induction D with
  | nil => rfl
  | cons d ds ih => simp only [execSeq, ih, callsForBlocks_congr d blocks blocks' 0 h]

/-- Nesting follows the list: the middleware of a site, from the outside in, is a subsequence
of the directive list (each directive at most once, in list order) — for every block contents. -/
theorem C09_nesting_follows_list (D : List Dir) (adds : Dir → Bool) (blocks : List Block) (i j : Nat) :
    (compile (siteMiddleware adds (execSeq D blocks) i j)).order.Sublist D := by
  have : ∀ l : List Dir, (compile l).order = l := by
    intro l
    induction l with
    | nil => rfl
    | cons m ms ih => simp [compile, Chain.order, ih]
  rw [this]
  exact siteMiddleware_sublist adds blocks i j D

/-- … hence a directive earlier in a duplicate-free list wraps every later one that is present. -/
theorem C09_earlier_wraps_later (D : List Dir) (hn : D.Nodup) (adds : Dir → Bool) (blocks : List Block) (i j : Nat)
    (a b : Dir) (ha : a ∈ siteMiddleware adds (execSeq D blocks) i j) (hb : b ∈ siteMiddleware adds (execSeq D blocks) i j)
    (hab : idx D a < idx D b) : [a, b].Sublist (siteMiddleware adds (execSeq D blocks) i j) :=
  sublist_order (siteMiddleware_sublist adds blocks i j D) hn a b ha hb hab

/-- Parsing callbacks follow their directive: with a duplicate-free directive list, the whole
sequence of setup calls AND parsing callbacks is sorted by `rank` (setups of the directive at list
position i: 2i, its callback: 2i+1) — for every block contents and every set of registered
callbacks.  So the callback after `d` runs after every setup of `d` (and of every earlier directive)
and before every setup of every later directive. -/
theorem C09_parsing_callbacks_follow_their_directive (cbs : Dir → Bool) (D : List Dir) (hn : D.Nodup)
    (blocks : List Block) : (execEvents cbs D blocks).Pairwise (fun a b => rank D a ≤ rank D b) :=
  execEvents_sorted cbs blocks D hn

/-- spelled out: no setup of `d` or of an earlier directive comes after the callback of `d`, and no
setup of a later directive comes before it -/
theorem C09_callback_between (cbs : Dir → Bool) (D : List Dir) (hn : D.Nodup) (blocks : List Block) (d : Dir) (c : Call) :
    ([Event.cb d, Event.setup c].Sublist (execEvents cbs D blocks) → idx D d < idx D c.dir) ∧
    ([Event.setup c, Event.cb d].Sublist (execEvents cbs D blocks) → idx D c.dir ≤ idx D d) := by
  have h : ∀ {a b : Event}, [a, b].Sublist (execEvents cbs D blocks) → rank D a ≤ rank D b :=
    List.pairwise_iff_forall_sublist.mp (C09_parsing_callbacks_follow_their_directive cbs D hn blocks)
  constructor
  · intro hs
    have := h hs
    simp only [rank] at this
    omega
  · intro hs
    have := h hs
    simp only [rank] at this
    omega

/-- the callback of `d` runs exactly when `d` is in the list and a callback is registered after it
— whether or not any block uses `d` — and reordering lines does not change the event sequence -/
theorem C09_callback_runs_iff (cbs : Dir → Bool) (D : List Dir) (blocks : List Block) (d : Dir) :
    Event.cb d ∈ execEvents cbs D blocks ↔ d ∈ D ∧ cbs d = true :=
  mem_cb_execEvents cbs blocks d D

theorem C09_events_independent (cbs : Dir → Bool) (D : List Dir) (blocks blocks' : List Block)
    (h : BlocksPerm blocks blocks') : execEvents cbs D blocks = execEvents cbs D blocks' :=
  execEvents_congr cbs D blocks blocks' h

/-- Model and judge are one spec (stream `c09.callbacks`): on the model's own event sequences for a
configuration and a stable reordering of its blocks' lines the schedule verdict is "ok". -/
theorem C09_schedule_model_verdict_ok (cbs : Dir → Bool) (D : List Dir) (hn : D.Nodup)
    (blocks blocks' : List Block) (h : BlocksPerm blocks blocks') :
    scheduleVerdict D cbs (execEvents cbs D blocks) (execEvents cbs D blocks') = "ok" := by
  have heq := C09_events_independent cbs D blocks blocks' h
  have hs := adjSorted_of_pairwise D _ (C09_parsing_callbacks_follow_their_directive cbs D hn blocks')
  have hc : (D.all fun d => cbCount (execEvents cbs D blocks') d == (if cbs d then 1 else 0)) = true := by
    rw [List.all_eq_true]
    intro d hd
    rw [cbCount_execEvents cbs blocks' d D hn]
    by_cases hcb : cbs d = true <;> simp [hd, hcb]
  simp [scheduleVerdict, heq, scheduleOk, hs, hc]

/-- Regenerated fact: WHICH parsing callbacks the distribution registers (the
`RegisterParsingCallback` call sites): hiding the Casketfile follows `root`, activating HTTPS
follows `tls`; both directives are in the `setup` class, hence (documented order) their callbacks
have run before any request-handling directive is set up. -/
theorem parsing_callbacks_regenerated :
    Casket.Generated.registeredParsingCallbacks = [("root", "hideCasketfile"), ("tls", "activateHTTPS")] ∧
    (Casket.Generated.registeredParsingCallbacks.all fun p => clsSetup.members.contains p.1) = true := by
  decide

/-- test: root's callback sits between root's setup and browse's, whichever line is written first -/
example :
    let cbs : Dir → Bool := fun d => (Casket.Generated.registeredParsingCallbacks.map (·.1)).contains d
    let b1 : Block := ⟨["k"], [⟨"browse", ["browse", "/dir"]⟩, ⟨"root", ["root", "/srv"]⟩]⟩
    ((execEvents cbs Casket.Generated.directives [b1]).filter fun e => e.dir == "root" || e.dir == "browse" || e.dir == "tls")
      = [.setup ⟨"root", 0, 0, ["root", "/srv"]⟩, .cb "root", .cb "tls", .setup ⟨"browse", 0, 0, ["browse", "/dir"]⟩] := by
  decide

/-- Model and judge are one spec: for a block and a stable reordering of it the model's two
handler chains satisfy the predicate the driver applies to the chains of the real loader. -/
theorem C09_model_verdict_ok (D : List Dir) (ls ls' : List Line) (h : StablePerm ls ls') :
    verdict D (chainOf D ls) (chainOf D ls') true = "ok" := by
  have heq : chainOf D ls = chainOf D ls' := by
    unfold chainOf
    rw [C09_exec_independent D [{ keys := ["site"], lines := ls }] [{ keys := ["site"], lines := ls' }]
      (BlocksPerm.cons rfl h BlocksPerm.nil)]
  have hcan : canonical D (chainOf D ls') = true := by
    unfold canonical chainOf
    rw [List.isSublist_iff_sublist]
    exact siteMiddleware_sublist _ _ 0 0 D
  simp [verdict, heq, hcan]

theorem C09_group_model_verdict_ok (ls ls' : List Line) (h : StablePerm ls ls') :
    groupVerdict (ls.map (·.dir)) (parseLines ls) (parseLines ls') = "ok" := by
  have hall : ∀ l : List Dir, groupsEqual l (parseLines ls) (parseLines ls') = true := by
    intro l
    simp only [groupsEqual, List.all_eq_true]
    intro d _
    simp [C09_group_stable_perm ls ls' h d]
  have hmem : ∀ d, (tokensOf (parseLines ls) d).isSome = true → d ∈ ls.map (·.dir) := by
    intro d hd
    rw [tokensOf_parseLines] at hd
    by_cases hf : (ls.filter fun l => l.dir == d) = []
    · simp [hf] at hd
    · obtain ⟨l, hl⟩ := List.exists_mem_of_ne_nil _ hf
      rw [List.mem_filter] at hl
      exact List.mem_map.mpr ⟨l, hl.1, by simpa using hl.2⟩
  simp only [groupVerdict, hall, Bool.and_self, if_true]
  by_cases hp : (tokensOf (parseLines ls) "!parse-error").isSome = true
  · have := hmem _ hp
    simp [hp, this]
  · simp [hp]

/-- `InspectServerBlocks`: a block with `gzip` always ends up with an `errors` directive (used by
C20: behind `errors` no handler panic escapes the access log) -/
theorem gzip_implies_errors (m : TokMap) (h : (tokensOf m "gzip").isSome = true) :
    (tokensOf (inspect m) "errors").isSome = true := by
  unfold inspect
  by_cases he : (tokensOf m "errors").isNone = true
  · simp only [h, he, Bool.and_self, if_true]
    rw [tokensOf_append]
    cases tokensOf m "errors" <;> simp
  · simp only [h, he, Bool.true_and, if_false]
    cases ht : tokensOf m "errors" with
    | none => simp [ht] at he
    | some _ => simp [ht]

/-- test (non-vacuity): a reordering that moves `rewrite` lines behind `basicauth` and `gzip` in
front of both is stable; the chain is the same and in list order -/
example :
    let ls : List Line := [⟨"rewrite", ["rewrite", "/a", "/b"]⟩, ⟨"basicauth", ["basicauth", "/s", "u", "p"]⟩,
      ⟨"rewrite", ["rewrite", "/c", "/d"]⟩, ⟨"gzip", ["gzip"]⟩]
    let ls' : List Line := [⟨"gzip", ["gzip"]⟩, ⟨"basicauth", ["basicauth", "/s", "u", "p"]⟩,
      ⟨"rewrite", ["rewrite", "/a", "/b"]⟩, ⟨"rewrite", ["rewrite", "/c", "/d"]⟩]
    stablePerm ls ls' = true ∧
    chainOf Casket.Generated.directives ls = ["rewrite", "gzip", "errors", "basicauth"] ∧
    chainOf Casket.Generated.directives ls' = ["rewrite", "gzip", "errors", "basicauth"] ∧
    tokensOf (parseLines ls') "rewrite" = some ["rewrite", "/a", "/b", "rewrite", "/c", "/d"] := by
  decide

/-- the executable check used by the driver agrees with the definition -/
theorem stablePerm_sound (ls ls' : List Line) (h : StablePerm ls ls') : stablePerm ls ls' = true := by
  simp only [stablePerm, List.all_eq_true]
  intro l _
  simp [h l.dir]

/-- the judge is not vacuous: a loader that nested handlers in file order is rejected -/
example : verdict Casket.Generated.directives ["basicauth", "rewrite"] ["rewrite", "basicauth"] true
    = "bad:chain-differs:reordering the lines changed the handler nesting (or whether the block loads)" := by decide
example : verdict Casket.Generated.directives ["basicauth", "rewrite"] ["basicauth", "rewrite"] true
    = "bad:not-list-order:handler nesting does not follow the directive list" := by decide

/-! ### the documented order, over the regenerated list (`decide` over the complete table) -/

def D : List Dir := Casket.Generated.directives

/-- no directive is listed twice (so "position in the list" is well defined) -/
theorem directives_nodup : D.Nodup := by decide

def before (a b : Dir) : Bool := D.contains a && D.contains b && decide (idx D a < idx D b)

/-- content handlers -/
def contentHandlers : List Dir :=
  ["templates", "proxy", "fastcgi", "websocket", "markdown", "browse", "push", "pprof", "expvar"]

/-- request rewriting happens before authentication -/
theorem order_rewrite_before_auth : before "rewrite" "basicauth" = true ∧ before "tryfiles" "basicauth" = true := by
  decide

/-- every directive that changes the request path (`tryfiles`, `rewrite`, `ext`) comes before
every access control that matches on the path (`basicauth`, `internal`), so those see the path
that is finally served (seeded change C03-ext-moved-after-basicauth) -/
theorem order_path_rewriters_before_access_controls :
    (["tryfiles", "rewrite", "ext"].all fun a => ["basicauth", "internal"].all fun c => before a c) = true := by
  decide

/-- authentication, redirects, fixed statuses and `internal` come before every content handler -/
theorem order_auth_before_content :
    (["basicauth", "redir", "status", "internal"].all fun a => contentHandlers.all fun c => before a c) = true := by
  decide

/-- logging, compression, response headers and error pages wrap all content handlers and the
access controls -/
theorem order_wrappers_around_content :
    (["log", "gzip", "header", "errors"].all fun w =>
      (contentHandlers ++ ["basicauth", "redir", "status", "internal"]).all fun c => before w c) = true := by
  decide

/-- `log` is outside `errors` and `gzip` (so it records generated error pages and compressed
sizes), `gzip` is outside `errors` (see InspectServerBlocks) -/
theorem order_log_gzip_errors : before "log" "gzip" = true ∧ before "gzip" "errors" = true ∧ before "log" "rewrite" = true := by
  decide

/-! ### the documented order, exhaustively: classes over the regenerated tables -/

/-- the standard directives of this distribution: in the list and with a registered plugin -/
def standard : List Dir := D.filter fun d => Casket.Generated.registeredPlugins.contains d

/-- Every standard directive is classified, exactly once, and the classes contain nothing else
(`decide` over the regenerated list and the regenerated plugin names): a directive added to the
list or a plugin newly compiled in must be given a class before this check passes again. -/
theorem classification_covers_standard :
    (standard.all fun d => ((classes.flatMap (·.members)).filter (· == d)).length == 1) = true ∧
    ((classes.flatMap (·.members)).all fun d => standard.contains d) = true := by
  decide

/-- THE documented order: for every documented pair of classes (X, Y), every member of X comes
before every member of Y in the regenerated list. -/
theorem documented_order_holds :
    (documentedOrder.all fun (xy : DirClass × DirClass) =>
      xy.1.members.all fun a => xy.2.members.all fun b => before a b) = true := by
  decide

/-- the same as a statement about members -/
theorem C09_documented_order (X Y : DirClass) (hxy : (X, Y) ∈ documentedOrder) (a b : Dir)
    (ha : a ∈ X.members) (hb : b ∈ Y.members) : before a b = true := by
  have h := List.all_eq_true.mp documented_order_holds (X, Y) hxy
  have h2 := List.all_eq_true.mp h a ha
  exact List.all_eq_true.mp h2 b hb

/-- every probe of the stream `c09.pairs` is an instance of a documented class pair, and every
documented class pair between handler classes that the probes can tell apart has one -/
theorem probes_are_documented :
    (scenarios.all fun s => documentedOrder.any fun xy => xy.1.members.contains s.outer && xy.2.members.contains s.inner) = true := by
  decide

/-- the handler-adding directives are exactly the classified ones outside the `setup` class -/
theorem middleware_directives_are_the_handler_classes :
    (middlewareDirectives.all fun d => ((classes.drop 1).flatMap (·.members)).contains d) = true ∧
    (((classes.drop 1).flatMap (·.members)).all fun d => middlewareDirectives.contains d) = true := by
  decide

/-- every directive the model treats as adding a handler is in the list -/
theorem middleware_directives_listed : (middlewareDirectives.all fun d => D.contains d) = true := by decide

/-- lifting the table facts to handler nesting: whenever both are present in a site,
`before a b` makes `a` wrap `b`, for every block contents -/
theorem C09_before_wraps (blocks : List Block) (i j : Nat) (a b : Dir) (hab : before a b = true)
    (ha : a ∈ siteMiddleware addsMiddleware (execSeq D blocks) i j)
    (hb : b ∈ siteMiddleware addsMiddleware (execSeq D blocks) i j) :
    [a, b].Sublist (siteMiddleware addsMiddleware (execSeq D blocks) i j) := by
  simp only [before, Bool.and_eq_true, decide_eq_true_eq] at hab
  exact C09_earlier_wraps_later D directives_nodup addsMiddleware blocks i j a b ha hb hab.2

/-- … and about handler nesting: in every site, for every block contents, a present member of X
wraps every present member of Y. -/
theorem C09_documented_nesting (X Y : DirClass) (hxy : (X, Y) ∈ documentedOrder) (a b : Dir)
    (ha : a ∈ X.members) (hb : b ∈ Y.members) (blocks : List Block) (i j : Nat)
    (hma : a ∈ siteMiddleware addsMiddleware (execSeq D blocks) i j)
    (hmb : b ∈ siteMiddleware addsMiddleware (execSeq D blocks) i j) :
    [a, b].Sublist (siteMiddleware addsMiddleware (execSeq D blocks) i j) :=
  C09_before_wraps blocks i j a b (C09_documented_order X Y hxy a b ha hb) hma hmb

/-! ### load histories in one process (stream `c09.history`) -/

/-- A load hands the directive list on unchanged, so after ANY history of loads — accepted or
rejected, whatever their contents — the process still has the list it started with. -/
theorem C09_history_keeps_list (D0 : List Dir) (h : List (List Block)) : (runHistory D0 h).1 = D0 := by
  induction h generalizing D0 with
  | nil => rfl
  | cons b rest ih => simp only [runHistory, loadStep]; exact ih D0

/-- … hence a Casketfile loaded after any history is treated exactly as if it were the first load
of the process: same verdict of the parser, same sequence of setup calls. -/
theorem C09_load_independent_of_history (D0 : List Dir) (h : List (List Block)) (blocks : List Block) :
    loadOnce (runHistory D0 h).1 blocks = loadOnce D0 blocks := by
  rw [C09_history_keeps_list]

/-- a Casketfile with a line of a directive that is not in the list is rejected (its setup
functions never run); one whose directives are all listed is loaded with `execSeq` -/
theorem C09_load_rejects_unknown (D0 : List Dir) (w : Dir) (hw : D0.contains w = false) (hr : D0.contains "root" = true) :
    loadOnce D0 (typoLoad w) = .rejected w := by
  have hw' : w ∉ D0 := by simpa using hw
  have hr' : "root" ∈ D0 := by simpa using hr
  simp [loadOnce, typoLoad, firstUnknown, List.find?, hw', hr']

theorem C09_load_accepts_listed (D0 : List Dir) (blocks : List Block)
    (h : ∀ b ∈ blocks, ∀ l ∈ b.lines, D0.contains l.dir = true) :
    loadOnce D0 blocks = .loaded (execSeq D0 blocks) := by
  have hn : firstUnknown D0 blocks = none := by
    induction blocks with
    | nil => rfl
    | cons b bs ih =>
      have hb : b.lines.find? (fun l => !D0.contains l.dir) = none := by
        rw [List.find?_eq_none]
        intro l hl
        have := h b (List.mem_cons_self ..) l hl
        simpa using this
      simp only [firstUnknown, hb]
      exact ih fun b' hb' => h b' (List.mem_cons_of_mem _ hb')
  simp [loadOnce, hn]

/-- over the regenerated list the model predicts the documented observation for every probe
scenario (`decide` over the complete tables) -/
theorem pairs_predict_documented :
    (scenarios.all fun s => pairPrediction D s == s.documented) = true := by
  decide

/-- judge of `c09.pairs` on the model's answers -/
theorem C09_pairs_model_verdict_ok (s : Scenario) (hs : s ∈ scenarios) :
    pairVerdict s (pairPrediction D s) = "ok" := by
  have hd : pairPrediction D s = s.documented := by
    simpa using List.all_eq_true.mp pairs_predict_documented s hs
  simp [pairVerdict, hd]

/-- Model and judge of `c09.history` are one spec: whatever was loaded before (any history, not
only the rejected Casketfiles the stream generates), the site loaded afterwards shows the
documented nesting and the list is the documented one. -/
theorem C09_history_model_verdict_ok (h : List (List Block)) (s : Scenario) (hs : s ∈ scenarios) :
    historyVerdict D s (pairPrediction (runHistory D h).1 s) (runHistory D h).1 = "ok" := by
  rw [C09_history_keeps_list]
  have hd : pairPrediction D s = s.documented := by
    simpa using List.all_eq_true.mp pairs_predict_documented s hs
  simp [historyVerdict, hd]

/-- test (non-vacuity): the typos the stream uses are rejected, a valid site is loaded, and a
process whose list had been permuted by a rejected load (what a "did you mean" helper sorting the
shared slice would do: `basicauth` moved to the front) is judged bad -/
example : loadOnce D (typoLoad "basicauht") = .rejected "basicauht" := by decide
example : (runHistory D [typoLoad "basicauht", typoLoad "gzi"]).2 = [.rejected "basicauht", .rejected "gzi"] := by decide
example :
    let s : Scenario := ⟨"rewrite-before-basicauth", "rewrite", "basicauth", "401", "200"⟩
    let D' := "basicauth" :: D.filter (· != "basicauth")
    historyVerdict D s (pairPrediction D' s) D' =
      "bad:documented-order-after-history:rewrite does not act before/around basicauth in a site loaded after rejected Casketfiles" := by
  decide

end Casket.Props.C09
