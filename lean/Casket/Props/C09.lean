import Casket.Model.Exec
import Casket.Spec.Exec
import Casket.Generated.Directives
namespace Casket.Props.C09
open Casket.Exec Casket.ExecSpec

theorem C09_placeholder : (1 : Nat) = 1 := rfl

end Casket.Props.C09
