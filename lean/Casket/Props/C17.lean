import Casket.Model.Limits
import Casket.Spec.Limits
namespace Casket.Props.C17
open Casket.Limits Casket.LimitsSpec

theorem C17_placeholder : makeHeaderLimit [] = 0 := rfl

end Casket.Props.C17
