import Casket.Proofs.Limits
import Casket.Generated.Limits
/-
C17 — Body-size limits are exact; shared listener limits are the strictest.

Statements only; helper lemmas live in Casket/Proofs/Limits.lean.  The model
(Casket/Model/Limits.lean) is tied to the Go code by the streams c17.reader, c17.scope,
c17.match, c17.listener and c17.proxy; the predicates of Casket/Spec/Limits.lean are the
judge the driver applies to the implementation's answers.

Quantification: every limit, every body, every way the underlying reader chunks it (including
zero-length reads and an error delivered with the last bytes), every sequence of caller buffer
sizes; every table of `body` lines and every request path; every group of sites.
-/
namespace Casket.Props.C17
open Casket.Limits Casket.LimitsSpec

/-- The body reader configured with `limit` over the scripted body `u`. -/
abbrev limited (limit : Nat) (u : Under) : MBR := { n := limit, err := none, under := u }

/-- Safety, for every chunking and every caller: what the handler receives is a prefix of the
body and never longer than the limit. -/
theorem C17_never_beyond_limit (limit : Nat) (u : Under) (bufs : List Nat) :
    delivered ((limited limit u).run bufs) <+: u.data ∧
    (delivered ((limited limit u).run bufs)).length ≤ limit := by
  have hp : delivered ((limited limit u).run bufs) <+: u.data.take limit :=
    (MBR.run_spec bufs (limited limit u) rfl).1
  refine ⟨List.IsPrefix.trans hp (List.take_prefix _ _), ?_⟩
  have := List.IsPrefix.length_le hp
  rw [List.length_take] at this
  omega

/-- Whenever a Read reports an error, exactly min(len, limit) bytes have been delivered
(bodies up to the limit intact, longer ones cut at the limit), and the error is the too-large
error iff the body is longer than the limit (otherwise the stream's own end). -/
theorem C17_error_iff_over (limit : Nat) (u : Under) (bufs : List Nat) (e : RErr)
    (h : firstErr ((limited limit u).run bufs) = some e) :
    delivered ((limited limit u).run bufs) = u.data.take limit ∧
    e = (if u.data.length > limit then RErr.tooLarge else u.endErr) := by
  have := (MBR.run_spec bufs (limited limit u) rfl).2.2 e h
  simpa [limited, wantErr] using this

/-- Liveness: a handler that keeps reading with non-empty buffers from a reader that makes
progress reaches the end, hence receives exactly `min(len, limit)` bytes. -/
theorem C17_delivers_min (limit : Nat) (u : Under) (bufs : List Nat)
    (hb : ∀ b ∈ bufs, 1 ≤ b) (hs : ∀ c ∈ u.script, 1 ≤ c) (hn : u.data.length + 1 ≤ bufs.length) :
    delivered ((limited limit u).run bufs) = u.data.take limit ∧
    (delivered ((limited limit u).run bufs)).length = min limit u.data.length := by
  have hsome := MBR.run_reaches_end bufs (limited limit u) rfl hb hs hn
  cases hf : firstErr ((limited limit u).run bufs) with
  | none => rw [hf] at hsome; simp at hsome
  | some e =>
    have := (C17_error_iff_over limit u bufs e hf).1
    rw [this, List.length_take]
    exact ⟨rfl, rfl⟩

/-- The error is sticky: every Read after the first error returns no bytes and the same error. -/
theorem C17_sticky (limit : Nat) (u : Under) (bufs : List Nat) :
    stickyOK ((limited limit u).run bufs) = true :=
  (MBR.run_spec bufs (limited limit u) rfl).2.1

/-- Longest scope wins, for ANY table holding the parsed entries sorted longest path first
(Go's sort.Sort is stable only up to 12 elements; the order among equally long paths does not
matter): the first matching entry matches the request, no configured matching path is longer,
and its limit is the last one configured for that path; nothing is picked only if no configured
path matches. -/
theorem C17_longest_scope_wins_any_order (cs : Bool) (raw : List (Bytes × Nat)) (p : Bytes) (t : Table)
    (hmem : ∀ e, e ∈ t ↔ e ∈ parseArguments raw) (hsorted : t.Pairwise geLen) :
    match selectLimit cs t p with
    | some e => pathMatches cs p e.path = true ∧ lastLimit raw e.path = some e.limit ∧
        ∀ r ∈ raw, pathMatches cs p (normPath r.1) = true → (normPath r.1).length ≤ e.path.length
    | none => ∀ r ∈ raw, pathMatches cs p (normPath r.1) = false := by
  obtain ⟨hI1, hI2⟩ := parseArguments_inv raw
  cases hf : selectLimit cs t p with
  | none =>
    intro r hr
    obtain ⟨x, hx, hxp⟩ := hI2 r hr
    have := List.find?_eq_none.mp hf x ((hmem x).mpr hx)
    rw [← hxp]; simpa using this
  | some e =>
    obtain ⟨h1, h2, h3⟩ := find_sorted_longest _ _ hsorted e hf
    refine ⟨h1, hI1 e ((hmem e).mp h2), ?_⟩
    intro r hr hm
    obtain ⟨x, hx, hxp⟩ := hI2 r hr
    have := h3 x ((hmem x).mpr hx) (by rw [hxp]; exact hm)
    rw [hxp] at this; exact this

/-- … in particular for the table the `limits` directive builds (parse, then the stable
insertion sort that sort.Sort performs on up to 12 entries). -/
theorem C17_longest_scope_wins (cs : Bool) (raw : List (Bytes × Nat)) (p : Bytes) :
    match selectLimit cs (buildTable raw) p with
    | some e => pathMatches cs p e.path = true ∧ lastLimit raw e.path = some e.limit ∧
        ∀ r ∈ raw, pathMatches cs p (normPath r.1) = true → (normPath r.1).length ≤ e.path.length
    | none => ∀ r ∈ raw, pathMatches cs p (normPath r.1) = false :=
  C17_longest_scope_wins_any_order cs raw p (buildTable raw) (sortDesc_mem (parseArguments raw))
    (sortDesc_sorted (parseArguments raw))

/-- The whole judged predicate for the request-body part: for every table, path, scripted body
and caller, what the model's innermost handler observes gets the verdict "ok". -/
theorem C17_model_verdict_ok (cs : Bool) (raw : List (Bytes × Nat)) (p : Bytes) (u : Under) (bufs : List Nat) :
    handlerVerdict cs raw p u.data u.endErr (serveBody cs (buildTable raw) p u bufs) = "ok" :=
  handlerVerdict_ok cs raw p u bufs

/-- Listener-wide timeouts are the strictest configured values, field by field
(0 = "none" is the least strict; the default only when no site sets the field). -/
theorem C17_timeouts_strictest (group : List SiteTimeouts) (d : Timeouts) :
    timeoutVerdict group d (makeTimeouts group d) = "ok" := by
  unfold timeoutVerdict makeTimeouts
  simp [mergeTimeout_strictest]

/-- Defaults apply only where no site sets a value. -/
theorem C17_defaults_only_if_unset (vals : List TSetting) (dflt : Nat) :
    ((∀ v ∈ vals, v = none) → mergeTimeout vals dflt = dflt) ∧
    ((∃ v ∈ vals, v ≠ none) → some (mergeTimeout vals dflt) ∈ vals) := by
  have hinv := mergeFold_inv vals [] none ⟨by simp, by intro m hm; cases hm⟩
  simp only [List.nil_append] at hinv
  obtain ⟨h1, h2⟩ := hinv
  unfold mergeTimeout
  cases hacc : vals.foldl mergeStep none with
  | none =>
    refine ⟨fun _ => rfl, ?_⟩
    rintro ⟨v, hv, hne⟩
    exact absurd (h1 hacc v hv) hne
  | some m =>
    have hm := (h2 m hacc).1
    refine ⟨fun hall => ?_, fun _ => hm⟩
    have := hall _ hm; cases this

/-- After the repair of F12: a site's explicit `timeouts none` never removes a finite timeout
another site on the same listener configures. -/
theorem C17_explicit_none_never_wins (vals : List TSetting) (dflt d : Nat) (hd : some d ∈ vals) (h0 : d ≠ 0) :
    mergeTimeout vals dflt ≠ 0 ∧ mergeTimeout vals dflt ≤ d := by
  have hinv := mergeFold_inv vals [] none ⟨by simp, by intro m hm; cases hm⟩
  simp only [List.nil_append] at hinv
  obtain ⟨h1, h2⟩ := hinv
  unfold mergeTimeout
  cases hacc : vals.foldl mergeStep none with
  | none => have := h1 hacc _ hd; cases this
  | some m => exact (h2 m hacc).2 d hd h0

/-- MaxHeaderBytes is the smallest header limit any site sets (untouched when none does). -/
theorem C17_header_limit_min_nonzero (group : List Nat) :
    headerVerdict group (makeHeaderLimit group) = "ok" := by
  unfold headerVerdict; simp [makeHeaderLimit_min]

/-- A proxied request is answered 413 exactly when its body exceeds the limit that applies
(after the repairs: whatever the framing, buffered for retries or not). -/
theorem C17_proxy_413 (cs : Bool) (raw : List (Bytes × Nat)) (p : Bytes) (data : Bytes) (chunked : Bool) :
    proxyVerdict cs raw p data (proxyServe cs (buildTable raw) p data chunked) true = "ok" := by
  have hsel := select_allowed cs raw p
  unfold proxyVerdict
  simp only [Bool.not_true, Bool.false_eq_true, if_false]
  suffices h : ((allowed cs raw p).any fun lim =>
      ((match lim with | some l => decide (data.length > l) | none => false) &&
        proxyServe cs (buildTable raw) p data chunked == 413) ||
      (!(match lim with | some l => decide (data.length > l) | none => false) &&
        proxyServe cs (buildTable raw) p data chunked == 0)) = true by
    exact if_pos h
  rw [List.any_eq_true]
  refine ⟨_, hsel, ?_⟩
  unfold proxyServe
  by_cases hz : (!chunked && data.isEmpty) = true
  · simp only [hz, if_true]
    have hd : data.length = 0 := by
      simp only [Bool.and_eq_true] at hz
      simp [List.isEmpty_iff.mp hz.2]
    cases selectLimit cs (buildTable raw) p <;> simp [hd]
  · simp only [hz]
    unfold serveBody proxyStatus
    generalize hbufs : List.replicate (data.length + 2) 32768 = bufs
    have hb1 : ∀ b ∈ bufs, 1 ≤ b := by
      intro b hb; rw [← hbufs, List.mem_replicate] at hb; omega
    have hblen : (wireBody data).data.length + 1 ≤ bufs.length := by
      rw [← hbufs]; simp [wireBody]
    cases hs : selectLimit cs (buildTable raw) p with
    | none =>
      simp only [Option.map_none]
      have hspec := (Under.run_spec bufs (wireBody data)).2
      cases hf : firstErr (Under.run (wireBody data) bufs) with
      | none => simp
      | some e =>
        have := (hspec e hf).2
        have he : e = RErr.eof := this
        subst he
        simp
    | some e =>
      simp only [Option.map_some]
      have hlive := MBR.run_reaches_end bufs (limited e.limit (wireBody data)) rfl hb1 (by simp [wireBody]) hblen
      cases hf : firstErr ((limited e.limit (wireBody data)).run bufs) with
      | none => rw [hf] at hlive; simp at hlive
      | some x =>
        have := (C17_error_iff_over e.limit (wireBody data) bufs x hf).2
        have hx : x = if data.length > e.limit then RErr.tooLarge else RErr.eof := this
        by_cases hgt : data.length > e.limit
        · simp only [hgt, if_true] at hx
          subst hx
          simp [hgt]
        · simp only [hgt, if_false] at hx
          subst hx
          simp [hgt]

/-- The defaults and the set of merged fields are the ones in the source
(regenerated from server.go / siteconfig.go on every run). -/
theorem C17_defaults_regenerated :
    Casket.Generated.defaultTimeouts =
      [defaultTimeouts.read, defaultTimeouts.header, defaultTimeouts.write, defaultTimeouts.idle] ∧
    Casket.Generated.timeoutFields = ["ReadTimeout", "ReadHeaderTimeout", "WriteTimeout", "IdleTimeout"] := by
  decide

/-! Non-vacuity and tests on literals (labelled as tests, not the general claims). -/

/-- non-vacuity of `C17_longest_scope_wins_any_order`: the reversed-among-equals order is admitted too -/
example : (∀ e, e ∈ [(⟨[47, 98], 2⟩ : PathLimit), ⟨[47, 97], 1⟩] ↔ e ∈ parseArguments [([47, 97], 1), ([47, 98], 2)]) ∧
    [(⟨[47, 98], 2⟩ : PathLimit), ⟨[47, 97], 1⟩].Pairwise geLen := by
  have hp : parseArguments [([47, 97], 1), ([47, 98], 2)] = [⟨[47, 97], 1⟩, ⟨[47, 98], 2⟩] := by decide
  constructor
  · intro e
    rw [hp]
    simp only [List.mem_cons, List.not_mem_nil, or_false]
    exact Or.comm
  · rw [List.pairwise_cons]
    refine ⟨?_, List.pairwise_cons.mpr ⟨by simp, List.Pairwise.nil⟩⟩
    intro a ha
    simp only [List.mem_singleton] at ha
    subst ha
    show ([47, 98] : Bytes).length ≥ ([47, 97] : Bytes).length
    decide

/-- test: hypotheses of `C17_delivers_min` are met by a body of 7 bytes arriving as 3+1+3,
read with 2-byte buffers under a limit of 5; 5 bytes are delivered and the 3rd Read reports too-large. -/
example :
    let u : Under := { data := [1, 2, 3, 4, 5, 6, 7], script := [3, 1, 3], errWithLast := true, endErr := .eof }
    (∀ c ∈ u.script, 1 ≤ c) ∧
    delivered ((limited 5 u).run (List.replicate 8 2)) = [1, 2, 3, 4, 5] ∧
    firstErr ((limited 5 u).run (List.replicate 8 2)) = some .tooLarge := by decide

/-- test: body exactly at the limit arrives intact and ends with EOF -/
example :
    let u : Under := { data := [1, 2, 3], script := [], errWithLast := false, endErr := .eof }
    delivered ((limited 3 u).run [8, 8, 8]) = [1, 2, 3] ∧ firstErr ((limited 3 u).run [8, 8, 8]) = some .eof := by
  decide

/-- test: nested scopes — "/a/b" (limit 2) beats "/a" (limit 9) and "/" (limit 4) for /a/b/c;
a later line for the same path replaces the limit -/
example :
    (selectLimit false (buildTable [([47], 4), ([47, 97], 9), ([47, 97, 47, 98], 7), ([47, 97, 47, 98], 2)])
      [47, 97, 47, 98, 47, 99]).map (·.limit) = some 2 := by decide

/-- test: F12's group [10s, none] keeps the 10 s timeout; only-none keeps "no timeout";
nothing set takes the default -/
example : mergeTimeout [some 10000000000, some 0] 7 = 10000000000 ∧ mergeTimeout [some 0, none] 7 = 0 ∧
    mergeTimeout [none, none] 7 = 7 := by decide

/-- test: the judge rejects the numeric minimum the unrepaired code computed for [10s, none] -/
example : strictestOK [some 10000000000, some 0] 7 0 = false := by decide

/-- test: the judge rejects one byte beyond the limit, a short delivery and a missing error -/
example : readerVerdict (some 2) [1, 2, 3] .eof [([1, 2, 3], some .eof)] ≠ "ok" ∧
    readerVerdict (some 2) [1, 2, 3] .eof [([1], some .tooLarge)] ≠ "ok" ∧
    readerVerdict (some 2) [1, 2, 3] .eof [([1, 2], some .eof)] ≠ "ok" ∧
    readerVerdict (some 2) [1, 2, 3] .eof [([1, 2], some .tooLarge), ([], none)] ≠ "ok" := by decide

/-! ### the wire spelling of the request path (stream c17.target) -/

/-- However the client spells the path on the wire — any subset of its bytes percent-encoded, hex
digits in either case — the server decodes the same path, so the handler sees exactly what it sees
for the plain spelling: the limit of the longest scope matching the decoded path applies. -/
theorem C17_spelling_irrelevant (cs : Bool) (t : Table) (ch : List (Option Bool)) (p : Bytes) (u : Under)
    (bufs : List Nat) :
    serveTarget cs t (spell ch p) u bufs = some (serveBody cs t p u bufs) := by
  unfold serveTarget; rw [unescape_spell]; rfl

/-- A target without `%` is its own decoded form. -/
theorem C17_plain_spelling (cs : Bool) (t : Table) (p : Bytes) (h : ∀ c ∈ p, c ≠ 37) (u : Under) (bufs : List Nat) :
    serveTarget cs t p u bufs = some (serveBody cs t p u bufs) := by
  unfold serveTarget; rw [unescape_plain p h]; rfl

/-- The judged predicate of c17.target holds of the model for every table, request target,
scripted body and caller. -/
theorem C17_target_model_verdict_ok (cs : Bool) (raw : List (Bytes × Nat)) (target : Bytes) (u : Under)
    (bufs : List Nat) :
    targetVerdict cs raw target u.data u.endErr (serveTarget cs (buildTable raw) target u bufs) = "ok" :=
  targetVerdict_ok cs raw target u bufs

/-- non-vacuity of `h` in `C17_plain_spelling` -/
example : ∀ c ∈ ([47, 117, 112] : Bytes), c ≠ 37 := by decide

/-- test: `/upl%6Fad/a` and `/%75pload` are spellings of `/upload/a` and `/upload`; `/files/my%20docs`
of `/files/my docs`; a malformed escape is no path -/
example : unescapePath [47, 117, 112, 108, 37, 54, 70, 97, 100, 47, 97] = some [47, 117, 112, 108, 111, 97, 100, 47, 97] ∧
    unescapePath [47, 37, 55, 53, 112] = some [47, 117, 112] ∧
    spell [none, some true] [47, 117, 112] = [47, 37, 55, 53, 112] ∧
    unescapePath [47, 109, 121, 37, 50, 48, 100] = some [47, 109, 121, 32, 100] ∧
    unescapePath [47, 37, 54] = none := by decide

/-- test: the judge refuses a handler that was given the root scope's 9 bytes for `/%75p` under
`body / 9`, `body /up 3` -/
example : targetVerdict true [([47], 9), ([47, 117, 112], 3)] [47, 37, 55, 53, 112] [1, 2, 3, 4, 5] .eof
      (some [([1, 2, 3, 4, 5], some .eof)]) ≠ "ok" ∧
    targetVerdict true [([47], 9), ([47, 117, 112], 3)] [47, 37, 55, 53, 112] [1, 2, 3, 4, 5] .eof
      (some [([1, 2, 3], some .tooLarge)]) = "ok" := by decide

end Casket.Props.C17
