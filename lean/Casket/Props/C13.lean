import Casket.Proofs.FCGI
import Casket.Proofs.FCGIRoute
import Casket.Proofs.FCGIShared
import Casket.Generated.FCGI
/-
C13 — FastCGI requests and responses cross the wire intact.

Statements only; lemmas live in Casket/Proofs/FCGI.lean and Proofs/FCGIRoute.lean.

`Casket.FCGI` is the model of the client (fcgiclient.go), tied to the real code byte for
byte by the stream c13.wire and, for the response direction, by c13.demux.  `Casket.FCGISpec`
is the reference decoder: what a standard-conforming responder reads.  `Casket.FCGIRoute`
models `Handler.ServeHTTP`'s routing and `buildEnv` (stream c13.route).
-/
namespace Casket.Props.C13
open Casket.Fault Casket.FCGI Casket.FCGISpec Casket.FCGIRoute Casket.FCGIRouteSpec

/-! ### request direction -/

/-- name and value lengths survive `encodeSize` (1 byte below 128, 4 bytes from 128 on) for
every length below 2^31 -/
theorem C13_size_roundtrip (n : Nat) (rest : Bytes) (h : n < 2147483648) :
    decodeSize (encodeSize n ++ rest) = some (n, rest) :=
  decodeSize_encodeSize n rest h

/-- `header.init`: content plus padding is a multiple of 8, padding below 8, for every length -/
theorem C13_padding_mod8 (n : Nat) : (n + padLen n) % 8 = 0 ∧ padLen n < 8 :=
  ⟨padLen_mod8 n, padLen_lt n⟩

/-- a record written by `writeRecord` is read back with its type, request id and content,
for every content below 64 KiB -/
theorem C13_record_roundtrip (t rid : Nat) (c rest : Bytes)
    (ht : t < 256) (hid : rid < 65536) (hc : c.length < 65536) :
    decodeRecord (writeRecord t rid c ++ rest) = some ({ typ := t, id := rid, content := c }, rest) :=
  decodeRecord_writeRecord t rid c rest ht hid hc

/-- what `writePairs` writes, for every list of pairs in every iteration order: Params
records of 1..65500 content bytes followed by exactly one empty record, whose contents
concatenated are the encodings of the pairs (over-long values cut, over-long names dropped).
In particular no flush ever splits a record and nothing is written after the terminator. -/
theorem C13_records_wellformed (rid : Nat) (ps : List Pair) :
    ∃ chunks : List Bytes,
      writePairs typeParams rid ps = .ok (recordsOf typeParams rid chunks ++ streamClose typeParams rid) ∧
      (∀ c ∈ chunks, c ≠ [] ∧ c.length ≤ maxWrite) ∧
      chunks.flatten = (ps.filterMap effective).flatMap encodePair :=
  writePairs_wire typeParams rid ps

/-- the request body crosses intact for every body length: full records, the remainder, the
empty record — read back as exactly the body -/
theorem C13_stdin_roundtrip (rid : Nat) (hid : rid < 65536) (body rest : Bytes) :
    readStream typeStdin rid (body.length + 2) (stdinRecords rid body ++ rest) = some (body, rest) :=
  readStream_stdin rid hid body rest _ (Nat.lt_succ_self _)

/-- The stdin records do not depend on how the body reader behaves under `io.Copy`: no reader
(empty body), a reader with `WriteTo` (one big `Write`), or a plain reader returning any positive
byte counts per call (with or without data on EOF) through `bufio.Writer.ReadFrom` — always full
records of 65500 bytes, the remainder, the empty record. -/
theorem C13_stdin_reader_independent (rid : Nat) (ps : List Pair) (body : Bytes) (rk : BodyReader)
    (hnone : rk = .none → body = []) : clientWireVia rid ps body rk = clientWire rid ps body := by
  unfold clientWireVia clientWire
  rw [stdinWire_eq rid body rk hnone]

/-- The contract of the `bufio.Writer` model (`BufW`) that the request side relies on, for every
state, every `p` and every record type: `Write(p)` and `WriteString(p)` accept all of `p` (the Go
calls return `len(p)`), `Flush` changes nothing but where the bytes sit, and after `Close` the
wire is whole records of 1..65500 bytes carrying exactly the bytes written, in order, followed by
exactly one empty record — wherever the flush boundaries fell. -/
theorem C13_writer_contract (t rid : Nat) (w : BufW) (s p : Bytes) (h : Holds t rid w s) :
    Holds t rid (BufW.write t rid w p) (s ++ p) ∧ Holds t rid (BufW.writeString t rid w p) (s ++ p) ∧
    Holds t rid (BufW.flush t rid w) s ∧
    ∃ chunks : List Bytes, BufW.close t rid w = recordsOf t rid chunks ++ streamClose t rid ∧
      (∀ c ∈ chunks, c ≠ [] ∧ c.length ≤ maxWrite) ∧ chunks.flatten = s :=
  ⟨write_holds p h, writeString_holds p h, (flush_holds h).1, close_holds h⟩

/-- it holds initially -/
example (t rid : Nat) : Holds t rid {} [] := holds_empty t rid

/-- THE request-direction claim.  For every request id, every list of name-value pairs that
each fit a single record (`8+len(name)+len(value) ≤ 65500`), in every iteration order, and every
body: a conforming responder decodes from what `Do` wrote exactly those pairs, in that order,
and exactly the body. -/
theorem C13_pairs_roundtrip (rid : Nat) (hid : rid < 65536) (ps : List Pair) (body : Bytes)
    (hfit : ∀ p ∈ ps, fits p = true) :
    ∃ wire, clientWire rid ps body = .ok wire ∧
      received wire = some { id := rid, role := roleResponder, flags := 0, params := ps, stdin := body } := by
  obtain ⟨wire, h1, h2⟩ := received_clientWire rid hid ps body
  refine ⟨wire, h1, ?_⟩
  have : ps.filterMap effective = ps := by
    clear h1 h2
    induction ps with
    | nil => rfl
    | cons p rest ih =>
      rw [List.filterMap_cons, effective_fits (hfit p (List.mem_cons_self ..))]
      simp only
      rw [ih (fun x hx => hfit x (List.mem_cons_of_mem _ hx))]
  rw [this] at h2
  exact h2

/-- without the size hypothesis: the responder receives the pairs as `effective` describes
(values cut to what fits next to their name, names above 65492 bytes left out) and the body -/
theorem C13_request_any_sizes (rid : Nat) (hid : rid < 65536) (ps : List Pair) (body : Bytes) :
    ∃ wire, clientWire rid ps body = .ok wire ∧
      received wire = some { id := rid, role := roleResponder, flags := 0,
                             params := ps.filterMap effective, stdin := body } :=
  received_clientWire rid hid ps body

/-! ### response direction -/

/-- For every way a responder cuts its stdout and stderr into records — any record sizes
(empty ones included), any padding up to 255, any interleaving, anything after EndRequest —
the client's reader yields exactly the stdout pieces in order, exactly the stderr bytes in the
error-log buffer, and a clean end. -/
theorem C13_demux (rid : Nat) (hid : rid < 65536) (ps : List Piece) (tail : Bytes) (h : WellSized ps) :
    demux (framing rid ps tail) = .ok { out := outsOf ps, err := errsOf ps, fin := .eof } :=
  demux_framing rid hid ps tail h

/-- so the response the caller sees is a function of the responder's stdout bytes alone: the
framing does not matter (for framings with fewer than 100 empty stdout records; a conforming one has one) -/
theorem C13_response_framing_independent (rid : Nat) (hid : rid < 65536) (ps qs : List Piece)
    (t1 t2 : Bytes) (hp : WellSized ps) (hq : WellSized qs)
    (hpe : emptyOuts ps < maxConsecutiveEmptyReads) (hqe : emptyOuts qs < maxConsecutiveEmptyReads)
    (hout : (outsOf ps).flatten = (outsOf qs).flatten) (herr : errsOf ps = errsOf qs) :
    clientView (framing rid ps t1) = clientView (framing rid qs t2) := by
  unfold clientView
  rw [C13_demux rid hid ps t1 hp, C13_demux rid hid qs t2 hq]
  have h1 : ¬ ((List.filter (fun x => x.isEmpty) (outsOf ps)).length ≥ maxConsecutiveEmptyReads) := by
    unfold emptyOuts at hpe; omega
  have h2 : ¬ ((List.filter (fun x => x.isEmpty) (outsOf qs)).length ≥ maxConsecutiveEmptyReads) := by
    unfold emptyOuts at hqe; omega
  simp only [h1, h2, if_false, hout, herr]

/-- no Status header (or an empty one): the status is 200 -/
theorem C13_status_default_200 (stdout : Bytes) (hs : List (Bytes × Bytes)) (body : Bytes)
    (hp : parseHeaders (stdout.length + 1) stdout = some (hs, body))
    (hte : hs.any (fun h => h.1 == bytes "Transfer-Encoding") = false)
    (hno : hs.find? (fun h => h.1 == bytes "Status") = none) :
    parseResponse stdout = .resp { status := 200, statusText := [], headers := hs, body := body } := by
  unfold parseResponse
  rw [hp]
  simp [hte, hno]

/-! ### routing -/

/-- A request for an existing regular file that carries a rule's extension in any letter case,
under that rule's path and not excepted, is sent to a responder by the first rule that takes it
— it never reaches the next handler (the static file server) and never gets a 500.  Holds for
every request path (trailing dots and spaces included) in both path-case modes.

PARTIAL — two hypotheses on the covering rule's configuration, outside which the code does hand
the script to the static file server (witness theorems below, known finding C13-ext-not-splittable):
`SplitInExt`: the split string is empty or occurs in the extension (the php preset: both `.php`);
`ExtPlain`: the extension does not end in a dot or a space. -/
theorem C13_ext_any_case_sent_partial (cs : Bool) (fs : FS) (urlPath : Bytes) (rules : List Rule)
    (hcov : ∃ r ∈ rules, ruleCovers cs fs urlPath r = true ∧ SplitInExt r ∧ ExtPlain r) :
    ∃ j f, routeFrom cs fs urlPath rules 0 = .sent j f := by
  obtain ⟨r, hr, hc, hs, hp⟩ := hcov
  obtain ⟨hne, hlast⟩ := covers_nonempty hc
  have hc' := hc
  simp only [ruleCovers, Bool.and_eq_true, Bool.not_eq_true', bne_iff_ne, ne_eq] at hc'
  obtain ⟨⟨⟨⟨⟨hext, _⟩, _⟩, _⟩, _⟩, hsuf⟩ := hc'
  have hext' : r.ext ≠ [] := by
    intro he; rw [he] at hext; simp at hext
  have htrim := trim_of_ext hp hext' hsuf
  exact routeFrom_sent cs fs urlPath hne hlast htrim rules 0 ⟨r, hr, hc, hs⟩

/-- the judge never flags the model's routing when every rule is configured that way -/
theorem C13_route_model_verdict_ok_partial (cs : Bool) (fs : FS) (urlPath : Bytes) (rules : List Rule)
    (hcfg : ∀ r ∈ rules, SplitInExt r ∧ ExtPlain r) :
    routeVerdict cs fs urlPath rules (route cs fs urlPath rules) = "ok" := by
  unfold route
  split
  · rfl
  · by_cases hm : mustBeSent cs fs urlPath rules = true
    · have hcov : ∃ r ∈ rules, ruleCovers cs fs urlPath r = true ∧ SplitInExt r ∧ ExtPlain r := by
        simp only [mustBeSent, List.any_eq_true] at hm
        obtain ⟨r, hr, hc⟩ := hm
        exact ⟨r, hr, hc, (hcfg r hr).1, (hcfg r hr).2⟩
      obtain ⟨j, f, hjf⟩ := C13_ext_any_case_sent_partial cs fs urlPath rules hcov
      rw [hjf]; rfl
    · unfold routeVerdict
      split <;> simp_all

/-- outside `SplitInExt`: `ext .php` with `split .cgi` — the existing `/a.php` cannot be split, the
rule is skipped and the request reaches the next handler -/
theorem C13_ext_unsplittable_fails_witness :
    let rule : Rule := { path := [0x2f], ext := bytes ".php", split := bytes ".cgi" }
    route false [bytes "/a.php"] (bytes "/a.php") [rule] = .next ∧
    routeVerdict false [bytes "/a.php"] (bytes "/a.php") [rule] .next =
      "bad:static:an existing file with the rule's extension is not sent to the responder" := by
  decide +kernel

/-- outside `ExtPlain`: `ext .php.` — for the existing `/t.php.` the trimmed path `/t.php` exists
too and does not carry the extension: next handler -/
theorem C13_ext_trailing_dot_fails_witness :
    let rule : Rule := { path := [0x2f], ext := bytes ".php.", split := bytes ".php" }
    route false [bytes "/t.php", bytes "/t.php."] (bytes "/t.php.") [rule] = .next ∧
    routeVerdict false [bytes "/t.php", bytes "/t.php."] (bytes "/t.php.") [rule] .next =
      "bad:static:an existing file with the rule's extension is not sent to the responder" := by
  decide +kernel

/-- WHERE the path is split (`Rule.splitPos`; `buildEnv` cuts DOCUMENT_URI / SCRIPT_NAME right
behind it and PATH_INFO is the rest — `C13_env_model_verdict_partial`): at the FIRST occurrence of
the split string under the mode's comparison.  With case-insensitive paths (the default) that is the
first occurrence in any letter case: no earlier offset carries the split string in any spelling.
With CASE_SENSITIVE_PATH it is the first occurrence in the configured spelling if there is one, and
otherwise — no offset carries the configured spelling — the first one in any letter case.
Letter case is ASCII letter case, so offsets into the folded path are offsets into the path. -/
theorem C13_split_at_first_occurrence (cs : Bool) (rule : Rule) (p : Bytes) (sp : Nat)
    (h : splitPos cs rule p = some sp) :
    (cs = false →
      toLower rule.split <+: (toLower p).drop sp ∧
      ∀ j, j < sp → ¬ (toLower rule.split <+: (toLower p).drop j)) ∧
    (cs = true →
      (rule.split <+: p.drop sp ∧ ∀ j, j < sp → ¬ (rule.split <+: p.drop j)) ∨
      ((∀ j, ¬ (rule.split <+: p.drop j)) ∧ toLower rule.split <+: (toLower p).drop sp ∧
        ∀ j, j < sp → ¬ (toLower rule.split <+: (toLower p).drop j))) := by
  unfold splitPos at h
  constructor
  · intro hcs
    subst hcs
    simp only [Bool.false_eq_true, if_false] at h
    exact ⟨indexOf_at h, indexOf_first h⟩
  · intro hcs
    subst hcs
    simp only [if_true] at h
    cases he : indexOf p rule.split with
    | some i =>
      rw [he] at h
      simp only [Option.some.injEq] at h
      subst h
      exact Or.inl ⟨indexOf_at he, indexOf_first he⟩
    | none =>
      rw [he] at h
      exact Or.inr ⟨indexOf_none he, indexOf_at h, indexOf_first h⟩

/-- `/UP.PHP/report.php` under the php preset, default mode: cut behind `.PHP`, not behind the
later `.php` (the configured spelling) -/
example : splitPos false { path := [0x2f], ext := bytes ".php", split := bytes ".php" } (bytes "/UP.PHP/report.php") = some 3 := by
  decide +kernel

/-! ### environment -/

/-- For every request that `route` sends to rule `j` with script path `f`, the environment the
model derives satisfies the environment verdict: every request header arrives as HTTP_*, no other
HTTP_* variable arrives (only HTTP_HOST, configured entries and the request's own headers may lie in
that namespace: `buildEnv_ownVars`), every configured entry arrives, DOCUMENT_URI ++ PATH_INFO is the script path cut right after the first
occurrence of the split string, and stdin is exactly the body.

PARTIAL: it excludes HEAD and OPTIONS requests that carry a body — `Head`/`Options` pass no body
reader, see `C13_head_options_body_fails_witness` and known finding C13-head-options-body. -/
theorem C13_env_model_verdict_partial (cs : Bool) (srv : Server) (fs : FS) (r : Req) (rules : List Rule)
    (j : Nat) (f : Bytes) (hroute : route cs fs r.path rules = .sent j f)
    (hbody : (r.method ≠ bytes "HEAD" ∧ r.method ≠ bytes "OPTIONS") ∨ r.body = []) :
    ∃ rule env, rules[j]? = some rule ∧ buildEnv cs srv r rule f = some env ∧
      envVerdict cs r rule env (stdinOf r) = "ok" := by
  unfold route at hroute
  split at hroute
  · cases hroute
  · obtain ⟨rule, hr, _, htr⟩ := routeFrom_sent_rule cs fs r.path rules 0 j f hroute
    simp only [Nat.sub_zero] at hr
    obtain ⟨hcand, hsp⟩ := tryRule_sent_candidate cs fs r rule f htr
    have hstd : stdinOf r = r.body := by
      unfold stdinOf
      rcases hbody with ⟨h1, h2⟩ | h0
      · have e1 : (r.method == bytes "HEAD") = false := by simpa using h1
        have e2 : (r.method == bytes "OPTIONS") = false := by simpa using h2
        simp [e1, e2]
      · split <;> simp [h0]
    rcases hb : buildEnv cs srv r rule f with _ | env
    · exfalso
      unfold buildEnv at hb
      cases hh : splitPos cs rule f with
      | none => rw [hh] at hsp; cases hsp
      | some sp => rw [hh] at hb; cases hb
    · exact ⟨rule, env, hr, hb, envVerdict_buildEnv cs srv r rule f env hb hcand hstd⟩

/-- the excluded case does fail: an OPTIONS request with a one-byte body under the php preset —
the responder's stdin is empty -/
theorem C13_head_options_body_fails_witness :
    let r : Req := { method := bytes "OPTIONS", host := bytes "h", path := bytes "/a.php",
                     remoteAddr := bytes "1:2", body := [0x78] }
    let rule : Rule := { path := [0x2f], ext := bytes ".php", split := bytes ".php" }
    route false [bytes "/a.php"] r.path [rule] = .sent 0 (bytes "/a.php") ∧
    stdinOf r = [] ∧
    (buildEnv false { name := [], port := [], software := [] } r rule (bytes "/a.php")).map
      (fun env => envVerdict false r rule env (stdinOf r)) =
      some "bad:body:the responder does not receive exactly the request body" := by
  decide +kernel

/-! ### the judges accept the model's answers -/

theorem count_self_eq (p : Pair) (l : List Pair) : (count p l == count p l) = true := by simp

theorem samePairs_refl (l : List Pair) : samePairs l l = true := by
  simp [samePairs]

/-- c13.wire: the reference decoder applied to the model's wire accepts it, for all fitting pairs -/
theorem C13_wire_model_verdict_ok (rid : Nat) (hid : rid < 65536) (ps : List Pair) (body : Bytes)
    (hfit : ∀ p ∈ ps, fits p = true) :
    ∃ wire, clientWire rid ps body = .ok wire ∧ wireVerdict rid ps body wire = "ok" := by
  obtain ⟨wire, h1, h2⟩ := C13_pairs_roundtrip rid hid ps body hfit
  refine ⟨wire, h1, ?_⟩
  unfold wireVerdict
  rw [h2]
  have hall : ps.all fits = true := List.all_eq_true.mpr hfit
  simp [hall, samePairs_refl]

/-- c13.demux: whenever the responder's stdout is a CGI response of the modelled grammar, the
client view computed from any framing of it satisfies the response verdict -/
theorem C13_demux_model_verdict_ok (rid : Nat) (hid : rid < 65536) (ps : List Piece) (tail : Bytes)
    (h : WellSized ps) (hempty : emptyOuts ps < maxConsecutiveEmptyReads)
    (r : Resp) (hr : parseResponse (outsOf ps).flatten = .resp r) :
    ∃ v, clientView (framing rid ps tail) = .ok v ∧ respVerdict (outsOf ps).flatten (errsOf ps) v = "ok" := by
  unfold clientView
  rw [C13_demux rid hid ps tail h]
  have hne : ¬ ((List.filter (fun x => x.isEmpty) (outsOf ps)).length ≥ maxConsecutiveEmptyReads) := by
    unfold emptyOuts at hempty; omega
  simp only [hne, if_false, hr]
  refine ⟨_, rfl, ?_⟩
  unfold respVerdict
  simp [hr]

/-! ### the io.Reader contract of the response stream -/

/-- One `Read(p)` of the demultiplexing reader with a non-empty `p`, from any state, on any bytes
from the responder: it reports an error (EOF included), or delivers at least one byte, or it has
just taken an empty data record off the connection (which is then the last record it consumed).
Stderr records — however many in a row — are consumed inside the call and never end it. -/
theorem C13_read_progress (s s' : SR) (plen : Nat) (o : ReadOut) (hp : 0 < plen)
    (h : s.read plen = .ok (s', o)) :
    o.err.isSome = true ∨ o.data ≠ [] ∨
      ∃ rec, o.consumed.getLast? = some rec ∧ isEmptyData rec = true :=
  read_progress s s' plen o hp h

/-- So, for ANY responder bytes and any buffer size, the calls of a whole conversation that return
(0, nil) are at most the empty data records the reader consumed. -/
theorem C13_zero_reads_bounded (raw : Bytes) (plen : Nat) (hp : 0 < plen) (t : Trace)
    (h : readTrace raw plen = .ok t) : t.zero ≤ t.empties :=
  readAll_zero_le plen hp _ _ _ _ h (Nat.le_refl _)

/-- And for every framing of (stdout, stderr) — any record sizes, paddings, interleavings, runs of
stderr records of any length — read with any buffer size: exactly the stdout bytes, exactly the
stderr bytes, a clean end, and exactly as many (0, nil) returns as there are empty stdout records
(one for a conforming responder: the stream terminator). A caller that tolerates fewer than 100
consecutive empty reads, like bufio.Reader, therefore never gives up on a conforming responder. -/
theorem C13_reads_exact_for_framings (rid : Nat) (hid : rid < 65536) (ps : List Piece) (tail : Bytes)
    (h : WellSized ps) (plen : Nat) (hp : 0 < plen) :
    readTrace (framing rid ps tail) plen =
      .ok { zero := emptyOuts ps, empties := emptyOuts ps, out := (outsOf ps).flatten,
            stderr := errsOf ps, fin := .eof } :=
  readTrace_framing rid hid ps tail h plen hp

/-- c13.reads: the judge accepts the model's answer for every framing (the reference decoder
counts the same empty data records the reader stumbles over) -/
theorem C13_reads_model_verdict_ok (rid : Nat) (hid : rid < 65536) (ps : List Piece) (tail : Bytes)
    (h : WellSized ps) (plen : Nat) (hp : 0 < plen) :
    ∃ t, readTrace (framing rid ps tail) plen = .ok t ∧
      readsVerdict (framing rid ps tail) t.zero t.zero true = "ok" := by
  refine ⟨_, C13_reads_exact_for_framings rid hid ps tail h plen hp, ?_⟩
  unfold readsVerdict
  rw [emptyDataRecords_framing rid hid tail ps _ h (framing_length rid ps tail)]
  simp

/-! ### several requests in flight

`Model/FCGIShared.lean`: the readers of one process over a common heap of record buffers, `w.buf`
as a slice into the buffer `record.read` filled, and the source of those buffers (`Alloc`) as a
parameter.  The code makes a new buffer for every record (`allocFresh`). -/

/-- A record buffer belongs to one reader until its content is consumed — then the readers of a
process are independent.  For EVERY allocator that never hands out a buffer in which some reader
still has unread bytes (`Alloc.Safe`; `make` per record is the simplest one), every list of
responder byte streams (conforming or not) and EVERY interleaving of the `Read` calls of the
readers, with any buffer sizes: what reader `i` has delivered to its caller, the end of stream it
has reported and what it has put into its error log are what reader `i` delivers alone, on its own
connection, when called with the same buffer sizes. -/
theorem C13_readers_independent (a : Alloc) (ha : a.Safe) (raws : List Bytes) (sched : Sched)
    (sh' : Shared) (g' : Nat → Got)
    (h : Shared.run a (Shared.init raws) (fun _ => {}) sched = .ok (sh', g'))
    (i : Nat) (raw : Bytes) (hi : raws[i]? = some raw) :
    ∃ s' r', SR.readUntil { inp := raw } {} (plensOf i sched) = .ok (s', g' i) ∧
      sh'.readers i = some r' ∧ r'.stderr = s'.stderr :=
  shared_run_reader a ha raws sched sh' g' h i raw hi

/-- the allocator of the code is safe, so the theorem speaks about fcgiclient.go as it is -/
theorem C13_fresh_buffer_per_record_safe : allocFresh.Safe := allocFresh_safe

/-- and the shared system gets through every schedule the readers get through alone (no fault, no
fuel problem arises from sharing) -/
theorem C13_readers_independent_total (a : Alloc) (ha : a.Safe) (raws : List Bytes) (sched : Sched)
    (hall : ∀ i raw, raws[i]? = some raw →
      ∃ res, SR.readUntil { inp := raw } {} (plensOf i sched) = .ok res) :
    ∃ sh' g', Shared.run a (Shared.init raws) (fun _ => {}) sched = .ok (sh', g') :=
  shared_run_total a ha raws sched hall

/-- Hence, with any number of responses in flight: for every framing of every responder's (stdout,
stderr), every interleaving of the clients' `Read` calls with any buffer sizes, and every buffer
size for reading the streams to their ends afterwards, each client ends up with exactly ITS
responder's stdout, a clean end, and exactly ITS responder's stderr in its error log. -/
theorem C13_overlap_exact_for_framings (a : Alloc) (ha : a.Safe) (fs : List Fr) (hfs : ∀ f ∈ fs, f.Ok)
    (sched : Sched) (drain : Nat) (hd : 0 < drain) :
    overlapRun a (fs.map Fr.bytes) sched drain = .ok (fs.map Fr.ending) :=
  overlap_framings a ha fs hfs sched drain hd

/-- c13.overlap (level r): the judge accepts the model's answer, for all framings and schedules -/
theorem C13_overlap_model_verdict_ok (fs : List Fr) (hfs : ∀ f ∈ fs, f.Ok) (sched : Sched) (drain : Nat)
    (hd : 0 < drain) :
    ∃ es, overlapRun allocFresh (fs.map Fr.bytes) sched drain = .ok es ∧
      overlapVerdict (fs.map fun f => ((outsOf f.ps).flatten, errsOf f.ps)) es = "ok" :=
  ⟨_, overlap_framings allocFresh allocFresh_safe fs hfs sched drain hd, overlapVerdict_endings fs⟩

/-- The hypothesis is needed.  An allocator that hands the first buffer out again while a reader
still has unread bytes in it — a pool whose buffers go back at the end of every `Read` — is not
safe, and under it two conforming responses read in turn get mixed up: client 0, whose responder
sent `AAAA`, receives `AABB`; the judge calls it cross-talk. -/
theorem C13_buffer_reused_before_consumed_crosstalk_witness :
    let ra := framing 1 [⟨false, [0x41, 0x41, 0x41, 0x41], 0⟩, ⟨false, [], 0⟩] []
    let rb := framing 1 [⟨false, [0x42, 0x42, 0x42, 0x42], 4⟩, ⟨false, [], 0⟩] []
    overlapRun allocAlwaysFirst [ra, rb] [(0, 2), (1, 2), (0, 2)] 2 =
      .ok [{ out := [0x41, 0x41, 0x42, 0x42], fin := some .eof, stderr := [] },
           { out := [0x42, 0x42, 0x42, 0x42], fin := some .eof, stderr := [] }] ∧
    overlapRun allocFresh [ra, rb] [(0, 2), (1, 2), (0, 2)] 2 =
      .ok [{ out := [0x41, 0x41, 0x41, 0x41], fin := some .eof, stderr := [] },
           { out := [0x42, 0x42, 0x42, 0x42], fin := some .eof, stderr := [] }] ∧
    (overlapVerdict [([0x41, 0x41, 0x41, 0x41], []), ([0x42, 0x42, 0x42, 0x42], [])]
      [{ out := [0x41, 0x41, 0x42, 0x42], fin := some .eof, stderr := [] },
       { out := [0x42, 0x42, 0x42, 0x42], fin := some .eof, stderr := [] }]).startsWith "bad:cross-talk" = true := by
  decide +kernel

theorem C13_pool_released_per_read_not_safe : ¬ allocAlwaysFirst.Safe := by
  intro h
  exact h { heap := [[1]], readers := fun j => if j = 0 then some { inp := [], ref := { id := 0, off := 0, len := 1 } } else none }
    0 rfl 0 _ rfl (by decide) rfl

/-- two conforming framings satisfy the hypotheses of the theorems above -/
example : ∀ f ∈ [({ rid := 1, ps := [⟨false, [0x41], 3⟩, ⟨true, [0x65], 0⟩, ⟨false, [], 1⟩], tail := [] } : Fr),
                 { rid := 7, ps := [⟨false, [], 0⟩], tail := [9] }], f.Ok := by
  intro f hf
  simp only [List.mem_cons, List.not_mem_nil, or_false] at hf
  rcases hf with rfl | rfl <;> refine ⟨by decide, ?_⟩ <;> intro p hp <;> simp at hp
  · rcases hp with rfl | rfl | rfl <;> simp
  · subst hp; simp

/-! #### the request direction with several requests in flight

`Do` shares nothing between requests: every `newWriter` makes its own `bufio.Writer`, `c.buf` and
`c.h` belong to the client.  What each connection receives is therefore `clientWire` of its own
request whatever the other requests do (stream c13.woverlap compares exactly that, after failed
requests and under every kind of interleaving of the write phases), and the per-connection verdict
accepts it. -/

/-- every request on its own: its wire, and the reference responder's verdict on it -/
theorem wires_each_ok (qs : List Asked)
    (hq : ∀ q ∈ qs, q.id < 65536 ∧ ∀ p ∈ q.pairs, fits p = true) :
    ∃ ws, qs.mapM (fun q => clientWire q.id q.pairs q.body) = .ok ws ∧ qs.length = ws.length ∧
      ∀ v ∈ (qs.zip ws).map (fun x => wireVerdict x.1.id x.1.pairs x.1.body x.2), v = "ok" := by
  induction qs with
  | nil => exact ⟨[], rfl, rfl, by simp⟩
  | cons q rest ih =>
    obtain ⟨ws, hws, hl, hv⟩ := ih (fun x hx => hq x (List.mem_cons_of_mem _ hx))
    obtain ⟨hid, hfit⟩ := hq q (List.mem_cons_self ..)
    obtain ⟨w, hw, hwv⟩ := C13_wire_model_verdict_ok q.id hid q.pairs q.body hfit
    refine ⟨w :: ws, ?_, by simp [hl], ?_⟩
    · rw [List.mapM_cons, hw, hws]; rfl
    · intro v hv'
      simp only [List.zip_cons_cons, List.map_cons, List.mem_cons] at hv'
      rcases hv' with rfl | hm
      · exact hwv
      · exact hv v hm

/-- c13.woverlap: the judge accepts the model's answers, for every list of requests whose pairs fit -/
theorem C13_overlap_wire_model_verdict_ok (qs : List Asked)
    (hq : ∀ q ∈ qs, q.id < 65536 ∧ ∀ p ∈ q.pairs, fits p = true) :
    ∃ ws, qs.mapM (fun q => clientWire q.id q.pairs q.body) = .ok ws ∧ overlapWireVerdict qs ws = "ok" := by
  obtain ⟨ws, hws, hl, hv⟩ := wires_each_ok qs hq
  refine ⟨ws, hws, ?_⟩
  unfold overlapWireVerdict
  simp only [hl, ne_eq, not_true_eq_false, if_false]
  exact firstBad_all_ok _ _ 0 hv

/-! ### regenerated constants -/

theorem C13_constants_match_source :
    maxWrite = Casket.Generated.fcgiMaxWrite ∧ maxPad = Casket.Generated.fcgiMaxPad ∧
    [typeBeginRequest, typeAbortRequest, typeEndRequest, typeParams, typeStdin, typeStdout, typeStderr]
      = Casket.Generated.fcgiRecordTypes.take 7 ∧
    roleResponder = Casket.Generated.fcgiRoleResponder := by
  decide

/-! ### non-vacuity -/

/-- one pair, one body byte: the exact wire image, and what the responder decodes from it -/
example : clientWire 1 [([0x41], [0x42])] [0x78] = .ok
    [1, 1, 0, 1, 0, 8, 0, 0,  0, 1, 0, 0, 0, 0, 0, 0,
     1, 4, 0, 1, 0, 4, 4, 0,  1, 1, 0x41, 0x42, 0, 0, 0, 0,
     1, 4, 0, 1, 0, 0, 0, 0,
     1, 5, 0, 1, 0, 1, 7, 0,  0x78, 0, 0, 0, 0, 0, 0, 0,
     1, 5, 0, 1, 0, 0, 0, 0] := by decide +kernel

example : (received [1, 1, 0, 1, 0, 8, 0, 0,  0, 1, 0, 0, 0, 0, 0, 0,
     1, 4, 0, 1, 0, 4, 4, 0,  1, 1, 0x41, 0x42, 0, 0, 0, 0,
     1, 4, 0, 1, 0, 0, 0, 0,
     1, 5, 0, 1, 0, 1, 7, 0,  0x78, 0, 0, 0, 0, 0, 0, 0,
     1, 5, 0, 1, 0, 0, 0, 0]) =
    some { id := 1, role := 1, flags := 0, params := [([0x41], [0x42])], stdin := [0x78] } := by decide +kernel

/-- the size switch at 127/128 -/
example : encodeSize 127 = [127] ∧ encodeSize 128 = [128, 0, 0, 128] := by decide

/-- a framing with split stdout, interleaved stderr and odd paddings satisfies `WellSized` and is
demultiplexed -/
example : demux (framing 1 [⟨false, [0x61], 3⟩, ⟨true, [0x65], 0⟩, ⟨false, [0x62], 255⟩, ⟨false, [], 1⟩] [9]) =
    .ok { out := [[0x61], [0x62], []], err := [0x65], fin := .eof } := by decide +kernel

/-- 3 stderr records in a row, then data, the terminator, EndRequest, read one byte at a time:
one call without progress (the terminator), none for the stderr records -/
example : readTrace (framing 1 [⟨true, [0x65], 0⟩, ⟨true, [0x66], 1⟩, ⟨true, [0x67], 2⟩, ⟨false, [0x61, 0x62], 3⟩,
      ⟨false, [], 0⟩] []) 1 =
    .ok { zero := 1, empties := 1, out := [0x61, 0x62], stderr := [0x65, 0x66, 0x67], fin := .eof } := by
  decide +kernel

/-- `/y.PHP` under the php preset in case-sensitive mode: covered, and sent -/
def presetRule : Rule := { path := [0x2f], ext := bytes ".php", split := bytes ".php", index := [bytes "index.php"] }

example : SplitInExt presetRule ∧ ExtPlain presetRule :=
  ⟨⟨[], [], by simp [presetRule]⟩, by intro b hb; revert hb; simp [presetRule, bytes]; intro h; subst h; decide⟩

end Casket.Props.C13
