import Casket.Model.FCGI
import Casket.Spec.FCGI
namespace Casket.Props.C13
theorem placeholder : True := trivial
end Casket.Props.C13
