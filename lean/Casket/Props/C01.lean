import Casket.Model.VHost
import Casket.Spec.VHost
import Casket.Generated.VHost
namespace Casket.Props.C01
open Casket.VHost Casket.VHostSpec

theorem C01_placeholder : True := trivial

end Casket.Props.C01
