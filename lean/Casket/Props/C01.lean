import Casket.Proofs.VHost
import Casket.Proofs.VHostStack
import Casket.Generated.VHost
import Casket.Spec.VHostAuto
import Casket.Proofs.AutoHTTPSSites
import Casket.Spec.VHostWire
/-
C01 — Virtual-host routing picks the most specific site, or none.

Statements only; helper lemmas live in Casket/Proofs/VHost.lean.

`route` is the model of `NewServer` + `serveHTTP` + `vhostTrie` (character trie, double
port stripping, bracket handling, fallback list), tied to the Go code by the
correspondence stream `c01.route`.  `specRoute` / `chosenKey` are the property written
without any trie (Spec/VHost.lean); `verdict` is the judge the driver applies to the
implementation's answers.

Domain of the theorems (`inDomain`): host spellings of the shapes name, name:port, [v6], [v6]:port,
bare v6; origin-form request paths (leading `/`).  The judge (`judged`) additionally restricts to
ASCII hosts (the model's lower-casing is ASCII; Go's is Unicode) and excludes ACME HTTP-challenge
requests (intercepted before routing; out of scope).  Outside it the model is still compared
with the code, but the property is not judged.
-/
namespace Casket.Props.C01
open Casket.VHost Casket.VHostSpec

/-- Refinement: on the whole domain — every site list, declaration order, fallback flags,
request host spelling, path and protocol — the trie model computes exactly the
specification (most specific host pattern first, then the longest path prefix). -/
theorem C01_refines_spec (sites : List Site) (r : Req) (hd : inDomain sites r = true) :
    route sites r = specRoute sites r :=
  route_eq_spec sites r hd

/-- What the specification chooses, read as an address: `specRoute` serves with site `i`
and prefix `p` exactly when `chosenKey` is (host pattern of site `i`, `p`). -/
theorem C01_spec_site_key (sites : List Site) (r : Req) (i : Nat) (p : Bytes)
    (h : specRoute sites r = .site i p) :
    ∃ e ∈ entries sites, e.idx = i ∧ e.path = p ∧ chosenKey sites r = some (e.host, p) :=
  spec_site_key sites r i p h

/-- … and it answers "not found" exactly when there is no such address; the status is 404,
or 421 from HTTP/2 on, and the outcome carries no site (no handler chain runs). -/
theorem C01_unmatched_is_notfound (sites : List Site) (r : Req) (st : Nat)
    (h : specRoute sites r = .notFound st) :
    chosenKey sites r = none ∧ st = (if r.protoMajor ≥ 2 then 421 else 404) := by
  unfold specRoute at h
  simp only [] at h
  unfold chosenKey
  simp only []
  cases hc : List.find? (declared (entries sites)) (candidates (normHost r.host) (fallbacks sites)) with
  | none =>
    rw [hc] at h
    simp only [Outcome.notFound.injEq] at h
    exact ⟨rfl, by rw [← h]; rfl⟩
  | some c =>
    rw [hc] at h
    simp only [] at h ⊢
    cases hf : List.findSome? (lastWith (entries sites) c) (prefixesDesc r.path) with
    | some e => rw [hf] at h; cases h
    | none =>
      rw [hf] at h
      simp only [Outcome.notFound.injEq] at h
      refine ⟨?_, by rw [← h]; rfl⟩
      rw [Option.map_eq_none_iff, List.find?_eq_none]
      intro k hk
      have := List.findSome?_eq_none_iff.mp hf k hk
      rw [← lastWith_isSome, this]
      simp

/-- Most specific host, longest path.  If the request is served under address `(c, k)` then
`c` is a candidate pattern for the request host that some site declares and no candidate
before it (more specific: the exact name, fewer leading `*` labels, earlier catch-all) is
declared by any site; `k` is a non-empty prefix of the request path declared for `c`, and
every other path declared for `c` that is a prefix of the request path is no longer. -/
theorem C01_most_specific (sites : List Site) (r : Req) (c k : Bytes)
    (h : chosenKey sites r = some (c, k)) :
    (∃ before after, candidates (normHost r.host) (fallbacks sites) = before ++ c :: after ∧
        ∀ c' ∈ before, declared (entries sites) c' = false) ∧
    declared (entries sites) c = true ∧
    k <+: r.path ∧ (∃ e ∈ entries sites, e.host = c ∧ e.path = k) ∧
    ∀ e ∈ entries sites, e.host = c → e.path <+: r.path → e.path.length ≤ k.length := by
  unfold chosenKey at h
  simp only [] at h
  cases hc : List.find? (declared (entries sites)) (candidates (normHost r.host) (fallbacks sites)) with
  | none => rw [hc] at h; cases h
  | some c0 =>
    rw [hc] at h
    simp only [] at h
    cases hk : List.find? (fun k => (entries sites).any (fun e => e.host == c0 && e.path == k)) (prefixesDesc r.path) with
    | none => rw [hk] at h; cases h
    | some k0 =>
      rw [hk] at h
      simp only [Option.map_some, Option.some.injEq, Prod.mk.injEq] at h
      obtain ⟨rfl, rfl⟩ := h
      obtain ⟨hdecl, before, after, hsplit, hbefore⟩ := List.find?_eq_some_iff_append.mp hc
      obtain ⟨hany, kb, ka, hksplit, hkb⟩ := List.find?_eq_some_iff_append.mp hk
      have hkmem : k0 ∈ prefixesDesc r.path := by rw [hksplit]; simp
      refine ⟨⟨before, after, hsplit, fun c' hc' => by simpa using hbefore c' hc'⟩, hdecl,
        (mem_prefixesDesc.mp hkmem).2, ?_, ?_⟩
      · obtain ⟨e, he, hp⟩ := List.any_eq_true.mp hany
        simp only [Bool.and_eq_true, beq_iff_eq] at hp
        exact ⟨e, he, hp.1, hp.2⟩
      · intro e he hhost hpre
        have hne : e.path ≠ [] := by
          have := entriesFrom_path_head sites 0 e he
          intro hnil; rw [hnil] at this; simp at this
        have hmem : e.path ∈ prefixesDesc r.path := mem_prefixesDesc.mpr ⟨hne, hpre⟩
        rw [hksplit] at hmem
        have hpw := prefixesDesc_pairwise r.path
        rw [hksplit] at hpw
        simp only [List.mem_append, List.mem_cons] at hmem
        rcases hmem with hm | hm | hm
        · -- an earlier (longer) prefix would have been found first
          have := hkb _ hm
          simp only [Bool.not_eq_true', List.any_eq_false] at this
          have := this e he
          simp [hhost] at this
        · rw [hm]; exact Nat.le_refl _
        · have := (List.pairwise_append.mp hpw).2.1
          have := (List.pairwise_cons.mp this).1 _ hm
          omega

/-- Declaration order, general form: two orders of the same sites that also yield the same
fallback list choose the same address for every request. -/
theorem C01_order_independent_partial {sites sites' : List Site} (r : Req) (hp : sites.Perm sites')
    (hfb : fallbacks sites = fallbacks sites') : chosenKey sites r = chosenKey sites' r :=
  chosenKey_perm r hp hfb

/-- Declaration order never matters when no site is a plugin-designated fallback site
(`FallbackSite`, which no directive of this repository sets). -/
theorem C01_order_independent {sites sites' : List Site} (r : Req) (hp : sites.Perm sites')
    (hn : sites.all (fun s => !s.fallback) = true) : chosenKey sites r = chosenKey sites' r :=
  chosenKey_perm r hp (fallbacks_perm_of_none hp hn)

/-- The fallback-order clause is observable: two designated fallback sites with different hosts are
tried in declaration order, so swapping them changes who serves an unmatched host.
(`a`/`b` fallback sites, request host `z`.) -/
theorem C01_order_fails_witness :
    let a : Site := ⟨[97], true, [97]⟩
    let b : Site := ⟨[98], true, [98]⟩
    let r : Req := ⟨[122], [47], 1⟩
    [a, b].Perm [b, a] ∧ chosenKey [a, b] r = some ([97], [47]) ∧ chosenKey [b, a] r = some ([98], [47]) := by
  refine ⟨List.Perm.swap _ _ _, by decide, by decide⟩

/-- Case and port of the Host header are ignored: a name spelled in another letter case and
with any port appended routes exactly like the name itself (names without `:` and not
starting with `[`; IP literals in brackets are covered by `normHost` through
`C01_refines_spec`). -/
theorem C01_case_port_insensitive (sites : List Site) (n n' port path : Bytes) (pm : Nat)
    (hn : ¬ cColon ∈ n) (hb : n.head? ≠ some cLbr) (hn' : ¬ cColon ∈ n') (hb' : n'.head? ≠ some cLbr)
    (hport : ¬ cColon ∈ port) (hcase : lower n' = lower n) :
    specRoute sites ⟨n' ++ cColon :: port, path, pm⟩ = specRoute sites ⟨n, path, pm⟩ ∧
    specRoute sites ⟨n', path, pm⟩ = specRoute sites ⟨n, path, pm⟩ := by
  unfold specRoute
  refine ⟨?_, ?_⟩ <;>
    simp only [normHost_name_port hn' hb' hport, normHost_name hn hb, normHost_name hn' hb', hcase]

/-- …and therefore so does the trie model, on its domain. -/
theorem C01_case_port_insensitive_model (sites : List Site) (n n' port path : Bytes) (pm : Nat)
    (hn : ¬ cColon ∈ n) (hb : n.head? ≠ some cLbr) (hn' : ¬ cColon ∈ n') (hb' : n'.head? ≠ some cLbr)
    (hport : ¬ cColon ∈ port) (hcase : lower n' = lower n)
    (hd : inDomain sites ⟨n, path, pm⟩ = true) (hd' : inDomain sites ⟨n' ++ cColon :: port, path, pm⟩ = true) :
    route sites ⟨n' ++ cColon :: port, path, pm⟩ = route sites ⟨n, path, pm⟩ := by
  rw [C01_refines_spec _ _ hd, C01_refines_spec _ _ hd']
  exact (C01_case_port_insensitive sites n n' port path pm hn hb hn' hb' hport hcase).1

/-- Declaration order, as the specification states it: given the order in which the designated
fallback hosts are tried, the choice depends on the SET of site addresses only — any permutation
of the sites chooses the same address for every request.  (The fallback order itself is the clause
"among designated fallback sites the first declared wins"; `C01_order_fails_witness` shows it is
observable, so it has to be a clause.) -/
theorem C01_order_independent_given_fallback_order {sites sites' : List Site} (fbs : List Bytes) (r : Req)
    (hp : sites.Perm sites') : chosenKeyWith fbs sites r = chosenKeyWith fbs sites' r :=
  chosenKeyWith_perm fbs r hp

/-- The judged predicate, total: for every site list (any fallback flags, any order) and every
request the model's answer gets the verdict "ok". -/
theorem C01_model_verdict_ok (sites : List Site) (r : Req) :
    verdict sites r (route sites r) = "ok" := by
  unfold verdict
  by_cases hj : judged sites r = true
  · have hd : inDomain sites r = true := by
      unfold judged at hj
      simp only [Bool.and_eq_true] at hj
      exact hj.1.1.1
    simp only [hj, Bool.not_true, Bool.false_eq_true, if_false, C01_refines_spec sites r hd]
    cases specRoute sites r with
    | site i p => simp
    | notFound st => simp
  · simp [hj]

/-! ### Through the real loader (stream `c01.stack`; loader model = `Casket.AutoHTTPS.inspect` of C15) -/

/-- `Address.VHost()` (the address text after the first `://`), which `NewServer` inserts into the
trie, is exactly the key the C01 model and specification split into host pattern and path. -/
theorem C01_stack_vhost_is_routed_key (a : Casket.AutoHTTPS.Address) :
    Casket.VHostStack.toNats a.vhost = vhostOf (Casket.VHostStack.siteOfAddr a).key := by
  unfold Casket.AutoHTTPS.Address.vhost vhostOf Casket.VHostStack.siteOfAddr
  exact Casket.VHostStack.vhost_eq a.original

/-- Two site addresses with the same normalised key (`standardizeAddress` → `Normalize` → `Key`)
anywhere in a Casketfile make `InspectServerBlocks` fail: no server is built. -/
theorem C01_stack_duplicate_keys_rejected (addrs : List Casket.AutoHTTPS.Bytes) (port : Casket.AutoHTTPS.Bytes)
    (r : Req) (h : Casket.VHostStackSpec.hasDuplicateKey addrs = true) :
    ∃ e, Casket.VHostStack.stackRoute addrs port r = .loadError e := by
  obtain ⟨e, he⟩ := Casket.VHostStack.inspect_dup addrs h
  exact ⟨e, by simp [Casket.VHostStack.stackRoute, he]⟩

/-- The full-stack judge: for every Casketfile (list of site addresses), listener port and request
the model's answer gets the verdict "ok", provided the sites the loader accepts for that listener
have pairwise different routing keys.  `_partial`: the hypothesis fails for addresses that differ
only in an explicit scheme on one explicit port (known finding C01-scheme-only-duplicate, see the
witness below); `host` vs `host/` used to fail it too and is now rejected by the loader. -/
theorem C01_stack_model_verdict_ok_partial (addrs : List Casket.AutoHTTPS.Bytes) (port : Casket.AutoHTTPS.Bytes) (r : Req)
    (hdistinct : ∀ as, Casket.AutoHTTPS.inspect addrs = .ok as →
      Casket.VHostStackSpec.hasDuplicateRouteKey
        (entries ((Casket.VHostStack.groupOf as port 0).map (fun p => Casket.VHostStack.siteOfAddr p.1))) = false) :
    Casket.VHostStackSpec.verdict addrs port r (Casket.VHostStack.stackRoute addrs port r) = "ok" := by
  unfold Casket.VHostStackSpec.verdict
  by_cases hdom : addrs.all Casket.AutoHTTPS.inAddrDomain = true
  · simp only [hdom, Bool.not_true, Bool.false_eq_true, if_false]
    by_cases hdup : Casket.VHostStackSpec.hasDuplicateKey addrs = true
    · obtain ⟨e, he⟩ := C01_stack_duplicate_keys_rejected addrs port r hdup
      simp [hdup, he]
    · simp only [hdup, if_false]
      unfold Casket.VHostStack.stackRoute
      cases hi : Casket.AutoHTTPS.inspect addrs with
      | error e => rfl
      | ok as =>
        simp only []
        cases hg : Casket.VHostStack.groupOf as port 0 with
        | nil => rfl
        | cons p0 grest =>
          simp only []
          rw [← hg]
          have hd := hdistinct as hi
          have hv := C01_model_verdict_ok
            ((Casket.VHostStack.groupOf as port 0).map (fun p => Casket.VHostStack.siteOfAddr p.1)) r
          cases hr : route ((Casket.VHostStack.groupOf as port 0).map (fun p => Casket.VHostStack.siteOfAddr p.1)) r with
          | notFound st =>
            simp only [hd, Bool.false_eq_true, if_false]
            rw [hr] at hv; exact hv
          | site j pfx =>
            simp only []
            have hj : j < (Casket.VHostStack.groupOf as port 0).length := by
              have := Casket.VHostStack.route_index_lt hr
              simpa using this
            have hgj : (Casket.VHostStack.groupOf as port 0)[j]? = some (Casket.VHostStack.groupOf as port 0)[j] :=
              List.getElem?_eq_getElem hj
            rw [hgj]
            simp only [hd, Bool.false_eq_true, if_false, Casket.VHostStack.groupOf_indexIn hgj]
            rw [hr] at hv; exact hv
  · simp [hdom]

/-- What `_partial` excludes is real: `http://a.com:8080/foo` and `https://a.com:8080/foo` pass the
loader, share the listener on 8080 and the routing key (`a.com`, `/foo`); the later one serves. -/
theorem C01_stack_duplicate_route_key_witness :
    let addrs : List Casket.AutoHTTPS.Bytes := [b!"http://a.com:8080/foo", b!"https://a.com:8080/foo"]
    Casket.VHostStack.stackRoute addrs b!"8080" ⟨[97, 46, 99, 111, 109], [47, 102, 111, 111], 1⟩ = .site 1 [47, 102, 111, 111] ∧
    Casket.VHostStackSpec.verdict addrs b!"8080" ⟨[97, 46, 99, 111, 109], [47, 102, 111, 111], 1⟩ (.site 1 [47, 102, 111, 111]) ≠ "ok" := by
  decide

/-! ### bind, tls and the synthesised redirect sites (stream c01.auto) -/

/-- when the c01.auto model serves a request, the outcome is the C01 `route` over the sites of the listener -/
theorem C01_auto_served_is_route {blocks : List Casket.VHostAuto.Block} {lbind lport : Casket.AutoHTTPS.Bytes} {r : Req}
    {n : Nat} {ms : List Casket.VHostAuto.Member} {o : Outcome}
    (h : Casket.VHostAuto.autoRoute blocks lbind lport r = .served n ms o) :
    o = route (ms.map Casket.VHostAuto.Member.site) r := by
  unfold Casket.VHostAuto.autoRoute at h
  cases hi : Casket.AutoHTTPS.inspect (blocks.map (·.addr)) with
  | error e => rw [hi] at h; cases h
  | ok as =>
    rw [hi] at h
    simp only [] at h
    unfold Casket.VHostAuto.afterLoad at h
    split at h
    · cases h
    · split at h
      · cases h
      · unfold Casket.VHostAuto.serveListener at h
        split at h
        · cases h
        · unfold Casket.VHostAuto.serveGroup at h
          split at h
          · cases h
          · cases h; rfl

/-- The c01.auto judge: for every Casketfile of (address, bind, tls) blocks, every listener and every request
the model's answer gets the verdict "ok", provided the sites the model puts on that listener — declared and
synthesised — have pairwise different routing addresses.  `_partial`: the hypothesis fails for the two known
findings (C01-scheme-only-duplicate, C01-managed-port-duplicate: see the witness below). -/
theorem C01_auto_model_verdict_ok_partial (blocks : List Casket.VHostAuto.Block) (lbind lport : Casket.AutoHTTPS.Bytes) (r : Req)
    (hdistinct : ∀ n ms o, Casket.VHostAuto.autoRoute blocks lbind lport r = .served n ms o →
      Casket.VHostStackSpec.hasDuplicateRouteKey (entries (ms.map Casket.VHostAuto.Member.site)) = false) :
    Casket.VHostAutoSpec.verdict blocks r (Casket.VHostAuto.autoRoute blocks lbind lport r) = "ok" := by
  unfold Casket.VHostAutoSpec.verdict
  split
  · rfl
  · cases h : Casket.VHostAuto.autoRoute blocks lbind lport r with
    | served n ms o =>
      simp only [hdistinct n ms o h, Bool.false_eq_true, if_false]
      rw [C01_auto_served_is_route h]
      exact C01_model_verdict_ok _ r
    | _ => rfl

/-- A synthesised redirect site never stands beside a declared site of its host on the HTTP port — WHATEVER the
`bind` values of the two sites are (`hostHasOtherPort` compares host and port only): in the model no declared
plain-HTTP site can be shadowed by a redirect site, however the interface it is bound to is spelled. -/
theorem C01_auto_no_redirect_beside_declared_http_site (e : List Casket.AutoHTTPS.Site) (s : Casket.AutoHTTPS.Site)
    (hs : s ∈ Casket.AutoHTTPS.makePlaintextRedirects e) :
    s ∈ e ∨ (s.port = Casket.AutoHTTPS.Ports.std.http ∧
      ∀ d ∈ e, ¬(d.host = s.host ∧ d.port = Casket.AutoHTTPS.Ports.std.http)) := by
  unfold Casket.AutoHTTPS.makePlaintextRedirects at hs
  rw [Casket.AutoHTTPS.makePlaintextRedirects_eq, List.mem_append] at hs
  rcases hs with hs | hs
  · exact Or.inl hs
  · obtain ⟨k, c, _, _, _, hrc, hno⟩ :=
      (Casket.AutoHTTPS.inv_final Casket.AutoHTTPS.Ports.std_ok e).sound s hs
    subst hrc
    exact Or.inr ⟨rfl, hno⟩

/-- the seeded configuration in the model: `https://a.com { bind 127.0.0.1; tls self_signed }` and
`http://a.com { bind ::ffff:127.0.0.1 }` share the listener 127.0.0.1:80, which holds the declared HTTP site only,
and that site serves `a.com/foo` -/
theorem C01_auto_bind_spelling_example :
    Casket.VHostAuto.autoRoute
      [{ addr := b!"https://a.com", bind := b!"127.0.0.1", tls := { base := .selfSigned } },
       { addr := b!"http://a.com", bind := b!"::ffff:127.0.0.1" }]
      b!"127.0.0.1" b!"80" ⟨[97, 46, 99, 111, 109], [47, 102, 111, 111], 1⟩
    = .served 2 [⟨1, [104, 116, 116, 112, 58, 47, 47, 97, 46, 99, 111, 109], [97, 46, 99, 111, 109]⟩] (.site 0 [47]) := by
  decide

set_option maxRecDepth 20000 in
/-- What `_partial` excludes is real: `a.com { tls admin@verif.test }` is moved to the HTTPS port after the duplicate
checks; beside `a.com:443` it shares the :443 listener and the routing address (`a.com`, `/`). -/
theorem C01_auto_managed_port_duplicate_witness :
    let blocks : List Casket.VHostAuto.Block :=
      [{ addr := b!"a.com", tls := { base := .email } }, { addr := b!"a.com:443" }]
    let r : Req := ⟨[97, 46, 99, 111, 109], [47], 1⟩
    Casket.VHostAutoSpec.verdict blocks r (Casket.VHostAuto.autoRoute blocks [] b!"443" r) ≠ "ok" := by
  decide

/-! ### Paths with multi-byte UTF-8 characters, raw and percent-encoded on the wire (stream `c01.wire`) -/

open Casket.VHostWire in
theorem hexVal_hexDigit (n : Nat) (h : n < 16) : hexVal (hexDigit n) = some n := by
  have key : ∀ m : Fin 16, hexVal (hexDigit m.val) = some m.val := by decide
  exact key ⟨n, h⟩

open Casket.VHostWire in
theorem pctDecode_cons_ne (c : Nat) (rest : Bytes) (h : c ≠ cPct) :
    pctDecode (c :: rest) = (pctDecode rest).map (fun t => c :: t) := by
  conv => lhs; unfold pctDecode
  simp only [h, if_false]

open Casket.VHostWire in
theorem pctDecode_pct (h l a b : Nat) (rest : Bytes) (ha : hexVal h = some a) (hb : hexVal l = some b) :
    pctDecode (cPct :: h :: l :: rest) = (pctDecode rest).map (fun t => (16 * a + b) :: t) := by
  conv => lhs; unfold pctDecode
  simp only [if_true, ha, hb]

open Casket.VHostWire in
/-- Percent-encoding is undone by the model of `url.unescape`: whatever bytes a path consists of (multi-byte
UTF-8 characters, `%`, `?`, space …), the encoded spelling decodes to exactly these bytes. -/
theorem C01_wire_pct_roundtrip (p : Bytes) (hb : ∀ c ∈ p, c < 256) : pctDecode (pctEncode p) = some p := by
  induction p with
  | nil => rfl
  | cons c rest ih =>
    have ih' := ih (fun x hx => hb x (List.mem_cons_of_mem _ hx))
    have hc : c < 256 := hb c (List.mem_cons_self ..)
    by_cases hu : unreserved c = true
    · have hne : c ≠ cPct := by
        intro h
        rw [h] at hu
        exact absurd hu (by decide)
      have he : pctEncode (c :: rest) = c :: pctEncode rest := by
        rw [pctEncode]; simp [hu]
      rw [he, pctDecode_cons_ne _ _ hne, ih']
      rfl
    · have h1 : c / 16 < 16 := by omega
      have h2 : c % 16 < 16 := by omega
      have h3 : 16 * (c / 16) + c % 16 = c := by omega
      have he : pctEncode (c :: rest) = cPct :: hexDigit (c / 16) :: hexDigit (c % 16) :: pctEncode rest := by
        rw [pctEncode]; simp [hu]
      rw [he, pctDecode_pct _ _ _ _ _ (hexVal_hexDigit _ h1) (hexVal_hexDigit _ h2), ih', h3]
      rfl

/-- The judged predicate of `c01.wire`, total: for every site list, Host, request-target (raw bytes, percent
escapes, broken escapes, a query) and protocol version the model's answer gets the verdict "ok". -/
theorem C01_wire_model_verdict_ok (sites : List Site) (host target : Bytes) (pm : Nat) :
    Casket.VHostWireSpec.verdict sites host pm (Casket.VHostWire.wireRoute sites host target pm) = "ok" := by
  unfold Casket.VHostWire.wireRoute
  cases Casket.VHostWire.targetPath target with
  | none => rfl
  | some p => exact C01_model_verdict_ok sites ⟨host, p, pm⟩

/-- Sites `a.com` and `a.com/café` (é = bytes C3 A9): `GET /café/m` is served by the second one with prefix
`/café`, whether the target arrives raw or as `/caf%C3%A9/m` … -/
theorem C01_wire_non_ascii_path_example :
    let sites : List Site := [⟨[97, 46, 99, 111, 109], false, []⟩, ⟨[97, 46, 99, 111, 109, 47, 99, 97, 102, 195, 169], false, []⟩]
    let want := Casket.VHostWire.WireOutcome.routed [47, 99, 97, 102, 195, 169, 47, 109] (.site 1 [47, 99, 97, 102, 195, 169])
    Casket.VHostWire.wireRoute sites [97, 46, 99, 111, 109] [47, 99, 97, 102, 195, 169, 47, 109] 1 = want ∧
    Casket.VHostWire.wireRoute sites [97, 46, 99, 111, 109] [47, 99, 97, 102, 37, 67, 51, 37, 65, 57, 47, 109] 1 = want := by
  decide

set_option maxRecDepth 20000 in
/-- … the case is inside the judged domain (only the HOST part of an address has to be ASCII), and an
implementation that stops the path walk at the first multi-byte character — the shorter-prefix site `a.com`
runs, or 404 when there is none — is judged bad. -/
theorem C01_wire_non_ascii_path_is_judged :
    let sites : List Site := [⟨[97, 46, 99, 111, 109], false, []⟩, ⟨[97, 46, 99, 111, 109, 47, 99, 97, 102, 195, 169], false, []⟩]
    let r : Req := ⟨[97, 46, 99, 111, 109], [47, 99, 97, 102, 195, 169, 47, 109], 1⟩
    judged sites r = true ∧ verdict sites r (.site 0 [47]) ≠ "ok" ∧ verdict (sites.drop 1) r (.notFound 404) ≠ "ok" := by
  decide

/-- The catch-all hosts of the model are the ones in the source
(regenerated from `newVHostTrie` on every run). -/
theorem C01_fallback_hosts_regenerated :
    Casket.Generated.vhostFallbackHosts.map (fun s => s.toList.map Char.toNat) = defaultFallbacks := by
  decide

/-! Non-vacuity and tests on literals (labelled: these are tests, not the general claims). -/

/-- sites `a.com`, `*.com/f`, `:80` — a request for `A.COM:8080/f` is in the domain … -/
example : inDomain [⟨[97, 46, 99, 111, 109], false, []⟩, ⟨[42, 46, 99, 111, 109, 47, 102], false, []⟩, ⟨[58, 56, 48], false, []⟩]
    ⟨[65, 46, 67, 79, 77, 58, 56, 48, 56, 48], [47, 102], 1⟩ = true := by decide

/-- … and is served by the exact host (site 0), not by the wildcard with the longer path. -/
example : route [⟨[97, 46, 99, 111, 109], false, []⟩, ⟨[42, 46, 99, 111, 109, 47, 102], false, []⟩, ⟨[58, 56, 48], false, []⟩]
    ⟨[65, 46, 67, 79, 77, 58, 56, 48, 56, 48], [47, 102], 1⟩ = .site 0 [47] := by decide

/-- a host hit without a path hit is not served, even though a catch-all exists (HTTP/2: 421) -/
example : route [⟨[97, 46, 99, 111, 109, 47, 102], false, []⟩, ⟨[], false, []⟩]
    ⟨[97, 46, 99, 111, 109], [47, 103], 2⟩ = .notFound 421 := by decide

/-- `[::]:8080` is a catch-all and `[::1]` = `[::1]:2015` (the repaired F20 class) -/
example : route [⟨[91, 58, 58, 93, 58, 56, 48, 56, 48], false, []⟩] ⟨[122], [47], 1⟩ = .site 0 [47] := by decide
example : route [⟨[91, 58, 58, 49, 93], false, []⟩] ⟨[91, 58, 58, 49, 93, 58, 50, 48, 49, 53], [47], 1⟩ = .site 0 [47] := by decide


/-! ### sequences of lookups through one routing table (stream c01.seq) -/

/-- Routing is a function of the sites and the request: for EVERY trie and EVERY sequence of lookups, the
k-th answer is what that lookup gets on its own, whatever came before it, misses included. -/
theorem C01_lookups_history_independent (t : Trie) (pre qs : List Bytes) (q : Bytes) :
    (lookups t (pre ++ q :: qs))[pre.length]? = some (t.match_ q) := by
  simp [lookups]

/-- the judge of c01.seq accepts every model answer, for every rendering of the answers -/
theorem C01_seq_model_verdict_ok (t : Trie) (qs : List Bytes) (render : Option Val → String) :
    seqVerdict ((lookups t qs).map render) (qs.map (fun q => render (t.match_ q))) = "ok" := by
  simp [seqVerdict, lookups]

/-- non-vacuity: a path miss followed by a hit on the same host — the shape of the seeded regression -/
example : seqVerdict ["-", "0:2f617070"] ["-", "0:2f617070"] = "ok" := by decide
example : seqVerdict ["-", "-"] ["-", "0:2f617070"] ≠ "ok" := by decide

end Casket.Props.C01
