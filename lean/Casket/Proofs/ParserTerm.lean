import Casket.Proofs.Parser
/-
Termination of the parser model for inputs without imports (C10, partial): every loop of parse.go
advances the cursor, so a fuel of `number of tokens + 3` is never exhausted.

The hypothesis `Plain cfg o` says of the written tokens `o`: none is `import`, and the environment
replacement of each ends (within `cfg.envFuel`) in something other than `import`.
-/
namespace Casket.Parser
open Casket.Lexer Casket.Dispenser Casket.Dispenser.Disp Casket.DispenserSpec

/-- a step that did not run out of fuel; an `ok` state satisfies `P`; an error names a file and a line ≥ 1 -/
def Fin {α : Type} (P : α → Prop) : Res α → Prop
  | .ok a => P a
  | .timeout => False
  | .err _ f l => f ≠ "" ∧ 1 ≤ l
  | .panic _ => True

theorem Fin.bind {α β : Type} {P : α → Prop} {Q : β → Prop} {r : Res α} {f : α → Res β}
    (hr : Fin P r) (hf : ∀ a, P a → Fin Q (f a)) : Fin Q (r.bind f) := by
  cases r with
  | ok a => exact hf a hr
  | err c fl l => exact hr
  | panic m => exact trivial
  | timeout => exact hr.elim

/-- the written tokens use neither `import` nor an environment reference that loops or expands to `import` -/
def Plain (cfg : Cfg) (o : List Token) : Prop :=
  0 < cfg.envFuel ∧ ∀ t ∈ o, t.text ≠ sImport ∧ ∃ r, envR cfg t.text = .ok r ∧ r ≠ sImport

theorem envR_nil (cfg : Cfg) (h : 0 < cfg.envFuel) : envR cfg [] = .ok [] := by
  unfold envR replaceEnvVars
  obtain ⟨n, hn⟩ : ∃ n, cfg.envFuel = n + 1 := ⟨cfg.envFuel - 1, by omega⟩
  rw [hn]
  rfl

/-- tokens beyond position `c` are still the written ones -/
def Agree (c : Int) (ts o : List Token) : Prop := ∀ i : Nat, c < (i : Int) → ts[i]? = o[i]?

structure Inv (o : List Token) (s : PState) : Prop where
  ok : cursorOk s.d
  len : s.d.tokens.length = o.length
  agree : Agree s.d.cursor s.d.tokens o
  lines : ∀ t ∈ s.d.tokens, 1 ≤ t.line
  fn : s.d.filename ≠ ""

/-- an error raised here names a file and a line -/
theorem fin_errAt {α : Type} {o : List Token} {s : PState} (P : α → Prop) (c : String) (h : Inv o s)
    (h0 : 0 ≤ s.d.cursor) (hne : o ≠ []) : Fin P (errAt c s.d : Res α) := by
  have hl : s.d.tokens ≠ [] := by
    intro he; have := h.len; rw [he] at this
    exact hne (List.length_eq_zero_iff.mp this.symm)
  unfold errAt Disp.errPos
  cases hlast : s.d.tokens.getLast? with
  | none => exact absurd (List.getLast?_eq_none_iff.mp hlast) hl
  | some last =>
    have hmem : last ∈ s.d.tokens := List.mem_of_getLast? hlast
    simp only
    split
    · refine ⟨?_, h.lines last hmem⟩
      simp only
      split
      · rename_i hf; simpa using hf
      · exact h.fn
    · rename_i hlt
      have hlt' : s.d.cursor < (s.d.tokens.length : Int) := by simp only [Disp.len] at hlt; omega
      obtain ⟨t, ht⟩ := tokAt_isSome h0 hlt'
      have htm : t ∈ s.d.tokens := by
        unfold tokAt at ht; rw [if_pos h0] at ht; exact List.mem_of_getElem? ht
      unfold Disp.file Disp.line Disp.tok?
      rw [ht]
      refine ⟨?_, h.lines t htm⟩
      simp only
      split
      · rename_i hf; simpa using hf
      · exact h.fn

/-- … and the token under the cursor is a written one too -/
def Fresh (o : List Token) (s : PState) : Prop := Inv o s ∧ 0 ≤ s.d.cursor ∧ Agree (s.d.cursor - 1) s.d.tokens o

/-- what is left to read -/
def M (s : PState) : Nat := (s.d.len - s.d.cursor).toNat

theorem fresh_tok {o : List Token} {s : PState} (h : Fresh o s) {t : Token} (ht : s.d.tok? s.d.cursor = some t) : t ∈ o := by
  obtain ⟨_, h0, ha⟩ := h
  unfold Disp.tok? tokAt at ht
  rw [if_pos h0] at ht
  have := ha s.d.cursor.toNat (by omega)
  rw [ht] at this
  exact List.mem_of_getElem? this.symm

theorem fresh_val {cfg : Cfg} {o : List Token} {s : PState} (h : Fresh o s) (hp : Plain cfg o) :
    s.d.val ≠ sImport ∧ ∃ r, envR cfg s.d.val = .ok r ∧ r ≠ sImport := by
  unfold Disp.val
  cases ht : s.d.tok? s.d.cursor with
  | none => exact ⟨by decide, [], envR_nil cfg hp.1, by decide⟩
  | some t => exact hp.2 t (fresh_tok h ht)


theorem inv_next {o : List Token} {s : PState} (h : Inv o s) (ht : s.d.next.1 = true) :
    Fresh o { s with d := s.d.next.2 } ∧ M { s with d := s.d.next.2 } + 1 = M s ∧
    (∃ t, s.d.next.2.tok? s.d.next.2.cursor = some t) := by
  obtain ⟨hs, hlt⟩ := next_spec s.d h.ok
  obtain ⟨hc, _⟩ := hs.2.2.1 ht
  have hb := hlt ht
  have hl := hs.mono.len
  obtain ⟨hok1, h01, htok⟩ := next_true_tok h.ok ht
  have hcur := h.ok
  unfold cursorOk at hcur
  refine ⟨⟨⟨hok1, ?_, ?_, ?_, ?_⟩, h01, ?_⟩, ?_, htok⟩
  · simp only; rw [hs.1.tokens]; exact h.len
  · intro i hi
    simp only at hi ⊢
    rw [hs.1.tokens]
    exact h.agree i (by omega)
  · simp only; rw [hs.1.tokens]; exact h.lines
  · simp only; rw [hs.1.filename]; exact h.fn
  · intro i hi
    simp only at hi ⊢
    rw [hs.1.tokens]
    exact h.agree i (by omega)
  · unfold M
    simp only [hl]
    omega

theorem inv_next_false {s : PState} (h : cursorOk s.d) (hf : s.d.next.1 = false) : s.d.len - 1 ≤ s.d.cursor := by
  unfold Disp.next at hf
  by_cases hc : s.d.cursor < s.d.len - 1
  · simp [hc] at hf
  · omega

theorem inv_back {o : List Token} {s : PState} (h : Fresh o s) : Inv o (back s) ∧ (back s).d.cursor = s.d.cursor - 1 := by
  obtain ⟨hi, h0, ha⟩ := h
  refine ⟨⟨ok_back ⟨hi.ok, h0⟩, hi.len, ?_, hi.lines, hi.fn⟩, rfl⟩
  intro i hlt
  exact ha i hlt

theorem appendCur_fin (cfg : Cfg) (dir : Bytes) {o : List Token} {s : PState} (h : Fresh o s) (hp : Plain cfg o)
    (ht : ∃ t, s.d.tok? s.d.cursor = some t) :
    Fin (fun s' => Inv o s' ∧ s'.d.cursor = s.d.cursor ∧ M s' = M s) (appendCur cfg dir s) := by
  obtain ⟨t, ht⟩ := ht
  obtain ⟨_, r, hr, _⟩ := hp.2 t (fresh_tok h ht)
  unfold appendCur
  rw [ht]
  simp only [hr, Res.bind]
  show Inv o _ ∧ _
  obtain ⟨hi, h0, ha⟩ := h
  refine ⟨⟨?_, ?_, ?_, ?_, hi.fn⟩, rfl, ?_⟩
  · have := hi.ok
    unfold cursorOk at this ⊢
    simp only [Disp.len, List.length_set] at this ⊢
    exact this
  · simp only [List.length_set]; exact hi.len
  · intro i hlt
    simp only at hlt ⊢
    rw [List.getElem?_set]
    have : s.d.cursor.toNat ≠ i := by omega
    simp only [this, if_false]
    exact hi.agree i hlt
  · intro x hx
    simp only at hx
    rcases List.mem_or_eq_of_mem_set hx with hx | hx
    · exact hi.lines x hx
    · rw [hx]
      have htm : t ∈ s.d.tokens := by
        unfold Disp.tok? tokAt at ht; rw [if_pos h0] at ht; exact List.mem_of_getElem? ht
      exact hi.lines t htm
  · unfold M
    simp only [Disp.len, List.length_set]


theorem Fin.mono {α : Type} {P Q : α → Prop} {r : Res α} (hr : Fin P r) (h : ∀ a, P a → Q a) : Fin Q r := by
  cases r with
  | ok a => exact h a hr
  | err c fl l => exact hr
  | panic m => exact trivial
  | timeout => exact hr.elim

theorem bne_of_ne {a b : Bytes} (h : a ≠ b) : (a == b) = false := by simpa using h

theorem directiveLoop_fin (cfg : Cfg) (dir : Bytes) {o : List Token} (hp : Plain cfg o) (hne0 : o ≠ []) (fuel : Nat) (s : PState) (n : Nat)
    (h : Inv o s) (h0 : 0 ≤ s.d.cursor) (hf : M s < fuel) :
    Fin (fun s' => Inv o s' ∧ s.d.cursor ≤ s'.d.cursor) (directiveLoop cfg dir fuel s n) := by
  induction fuel generalizing s n with
  | zero => omega
  | succ k ih =>
    unfold directiveLoop
    simp only
    cases hn : s.d.next.1 with
    | false =>
      simp only [Bool.not_false, if_true]
      have hd : s.d.next.2 = s.d := next_false_eq h.ok hn
      split
      · rw [hd]; exact fin_errAt _ _ h h0 hne0
      · exact ⟨h, Int.le_refl _⟩
    | true =>
      simp only [Bool.not_true, Bool.false_eq_true, if_false]
      obtain ⟨hfr, hm, htok⟩ := inv_next h hn
      have hc1 : s.d.next.2.cursor = s.d.cursor + 1 := ((next_spec s.d h.ok).1.2.2.1 hn).1
      have hne : (s.d.next.2.val == sImport) = false := bne_of_ne (fresh_val hfr hp).1
      have happ : ∀ m, Fin (fun s' => Inv o s' ∧ s.d.cursor ≤ s'.d.cursor)
          ((appendCur cfg dir { s with d := s.d.next.2 }).bind fun s2 => directiveLoop cfg dir k s2 m) := by
        intro m
        refine Fin.bind (appendCur_fin cfg dir hfr hp htok) fun s2 h2 => ?_
        obtain ⟨hi2, hc2, hm2⟩ := h2
        simp only at hc2
        refine (ih s2 m hi2 (by omega) (by omega)).mono fun s' hs' => ⟨hs'.1, ?_⟩
        have := hs'.2
        omega
      split
      · exact happ _
      · split
        · obtain ⟨hb, hbc⟩ := inv_back hfr
          refine ⟨hb, ?_⟩
          rw [hbc]; simp only; omega
        · split
          · exact happ _
          · split
            · exact fin_errAt (s := { s with d := s.d.next.2 }) _ _ hfr.1 hfr.2.1 hne0
            · simp only [hne, Bool.false_and, Bool.false_eq_true, if_false]
              exact happ _

theorem directive_fin (cfg : Cfg) {o : List Token} (hp : Plain cfg o) (hne0 : o ≠ []) (fuel : Nat) (s : PState)
    (h : Fresh o s) (ht : ∃ t, s.d.tok? s.d.cursor = some t) (hf : M s < fuel) :
    Fin (fun s' => Inv o s' ∧ s.d.cursor ≤ s'.d.cursor) (directive cfg fuel s) := by
  obtain ⟨t, ht⟩ := ht
  obtain ⟨_, r, hr, _⟩ := fresh_val h hp
  unfold directive
  simp only [hr, Res.bind]
  split
  · exact fin_errAt _ _ h.1 h.2.1 hne0
  · rw [ht]
    exact directiveLoop_fin cfg r hp hne0 fuel _ 0 ⟨h.1.ok, h.1.len, h.1.agree, h.1.lines, h.1.fn⟩ h.2.1 hf

theorem directives_fin (cfg : Cfg) {o : List Token} (hp : Plain cfg o) (hne0 : o ≠ []) (fuel : Nat) (s : PState)
    (h : Inv o s) (hf : M s < fuel) :
    Fin (fun s' => Inv o s' ∧ s.d.cursor ≤ s'.d.cursor ∧ (s.d.cursor + 1 < s.d.len → s.d.cursor + 1 ≤ s'.d.cursor))
      (directives cfg fuel s) := by
  induction fuel generalizing s with
  | zero => omega
  | succ k ih =>
    unfold directives
    simp only
    cases hn : s.d.next.1 with
    | false =>
      simp only [Bool.not_false, if_true]
      have := inv_next_false h.ok hn
      exact ⟨h, Int.le_refl _, fun hlt => by omega⟩
    | true =>
      simp only [Bool.not_true, Bool.false_eq_true, if_false]
      obtain ⟨hfr, hm, htok⟩ := inv_next h hn
      have hc1 : s.d.next.2.cursor = s.d.cursor + 1 := ((next_spec s.d h.ok).1.2.2.1 hn).1
      have hne : (s.d.next.2.val == sImport) = false := bne_of_ne (fresh_val hfr hp).1
      split
      · refine ⟨hfr.1, ?_, fun _ => ?_⟩ <;> simp only <;> omega
      · simp only [hne, Bool.false_eq_true, if_false]
        refine Fin.bind (directive_fin cfg hp hne0 (k + 1) _ hfr htok (by omega)) fun s2 h2 => ?_
        obtain ⟨hi2, hc2⟩ := h2
        simp only at hc2
        have hm2 : M s2 < k := by
          unfold M at hm hf ⊢
          have hl2 : s2.d.len = s.d.len := by simp only [Disp.len, hi2.len, h.len]
          have hl1 : s.d.next.2.len = s.d.len := (next_spec s.d h.ok).1.mono.len
          simp only [hl1] at hm
          rw [hl2]
          have := h.ok; unfold cursorOk at this
          omega
        refine (ih s2 hi2 hm2).mono fun s' hs' => ⟨hs'.1, ?_, fun _ => ?_⟩
        · have := hs'.2.1; omega
        · have := hs'.2.1; omega


theorem inv_of_d {o : List Token} {s s' : PState} (h : Inv o s) (hd : s'.d = s.d) : Inv o s' :=
  ⟨by rw [hd]; exact h.ok, by rw [hd]; exact h.len, by rw [hd]; exact h.agree, by rw [hd]; exact h.lines, by rw [hd]; exact h.fn⟩

theorem fresh_of_d {o : List Token} {s s' : PState} (h : Fresh o s) (hd : s'.d = s.d) : Fresh o s' :=
  ⟨inv_of_d h.1 hd, by rw [hd]; exact h.2.1, by rw [hd]; exact h.2.2⟩

/-- where `addresses` stops: at the end of the input, or on a written token -/
def AddrPost (o : List Token) (s s' : PState) : Prop :=
  Inv o s' ∧ s.d.cursor ≤ s'.d.cursor ∧ (s'.eof = true ∨ (Fresh o s' ∧ ∃ t, s'.d.tok? s'.d.cursor = some t))

theorem addresses_fin (cfg : Cfg) {o : List Token} (hp : Plain cfg o) (hne0 : o ≠ []) (fuel : Nat) (s : PState) (e : Bool)
    (h : Fresh o s) (hf : M s < fuel) : Fin (AddrPost o s) (addresses cfg fuel s e) := by
  induction fuel generalizing s e with
  | zero => omega
  | succ k ih =>
    obtain ⟨_, r, hr, hri⟩ := fresh_val h hp
    unfold addresses
    simp only [hr, Res.bind]
    have hne : (r == sImport) = false := bne_of_ne hri
    simp only [hne, Bool.false_and, Bool.false_eq_true, if_false]
    split
    · rename_i hlb
      split
      · exact fin_errAt _ _ h.1 h.2.1 hne0
      · refine ⟨h.1, Int.le_refl _, Or.inr ⟨h, ?_⟩⟩
        cases ht : s.d.tok? s.d.cursor with
        | some t => exact ⟨t, rfl⟩
        | none =>
          have hv : s.d.val = [] := by unfold Disp.val; rw [ht]
          rw [hv, envR_nil cfg hp.1] at hr
          cases hr
          exact absurd hlb (by decide)
    · cases hn : s.d.next.1 with
      | false =>
        have hd : s.d.next.2 = s.d := next_false_eq h.1.ok hn
        simp only [Bool.not_false, Bool.and_true]
        split
        · rw [hd]; exact fin_errAt _ _ h.1 h.2.1 hne0
        · simp only [if_true]
          exact ⟨inv_of_d h.1 hd, by simp only [hd]; exact Int.le_refl _, Or.inl rfl⟩
      | true =>
        obtain ⟨hfr, hm, htok⟩ := inv_next h.1 hn
        have hc1 : s.d.next.2.cursor = s.d.cursor + 1 := ((next_spec s.d h.1.ok).1.2.2.1 hn).1
        simp only [Bool.not_true, Bool.and_false, Bool.false_eq_true, if_false]
        have hfr' : Fresh o { s with d := s.d.next.2, keys := (addKey s.keys e r).1 } := fresh_of_d hfr rfl
        split
        · exact ⟨hfr'.1, by simp only; omega, Or.inr ⟨hfr', htok⟩⟩
        · refine (ih _ _ hfr' (by have : M { s with d := s.d.next.2, keys := (addKey s.keys e r).1 } = M { s with d := s.d.next.2 } := rfl
                                  omega)).mono fun s' hs' => ⟨hs'.1, ?_, hs'.2.2⟩
          have := hs'.2.1
          simp only at this
          omega

theorem snippetLoop_fin {o : List Token} (hne0 : o ≠ []) (fuel : Nat) (s : PState) (c : Nat) (acc : List Token)
    (h : Inv o s) (h0 : 0 ≤ s.d.cursor) (hf : M s < fuel) :
    Fin (fun r => Inv o r.1 ∧ s.d.cursor ≤ r.1.d.cursor) (snippetLoop fuel s c acc) := by
  induction fuel generalizing s c acc with
  | zero => omega
  | succ k ih =>
    unfold snippetLoop
    simp only
    cases hn : s.d.next.1 with
    | false =>
      simp only [Bool.not_false, if_true]
      have hd : s.d.next.2 = s.d := next_false_eq h.ok hn
      split
      · rw [hd]; exact fin_errAt _ _ h h0 hne0
      · exact ⟨h, Int.le_refl _⟩
    | true =>
      simp only [Bool.not_true, Bool.false_eq_true, if_false]
      obtain ⟨hfr, hm, t, htok⟩ := inv_next h hn
      have hc1 : s.d.next.2.cursor = s.d.cursor + 1 := ((next_spec s.d h.ok).1.2.2.1 hn).1
      rw [htok]
      have hrec : ∀ c', Fin (fun r => Inv o r.1 ∧ s.d.cursor ≤ r.1.d.cursor)
          (snippetLoop k { s with d := s.d.next.2 } c' (acc ++ [t])) := by
        intro c'
        refine (ih _ c' _ hfr.1 hfr.2.1 (by omega)).mono fun r hr => ⟨hr.1, ?_⟩
        have := hr.2
        simp only at this
        omega
      by_cases hv : (s.d.next.2.val == rbrace) = true
      · simp only [hv, if_true, Bool.true_and]
        split
        · exact ⟨hfr.1, by simp only; omega⟩
        · exact hrec _
      · simp only [hv, Bool.false_and, Bool.false_eq_true, if_false]
        exact hrec _

theorem blockContents_fin (cfg : Cfg) {o : List Token} (hp : Plain cfg o) (hne0 : o ≠ []) (fuel : Nat) (s : PState)
    (h : Fresh o s) (ht : ∃ t, s.d.tok? s.d.cursor = some t) (hf : M s + 1 < fuel) :
    Fin (fun s' => Inv o s' ∧ s.d.cursor ≤ s'.d.cursor) (blockContents cfg fuel s) := by
  obtain ⟨t, ht⟩ := ht
  have hlt : s.d.cursor < s.d.len := by
    have := (tokAt_some (show tokAt s.d.tokens s.d.cursor = some t from ht)).2
    simp only [Disp.len]; exact this
  unfold blockContents
  simp only
  by_cases hno : (s.d.val != lbrace) = true
  · simp only [hno, if_true]
    obtain ⟨hb, hbc⟩ := inv_back h
    have hmb : M (back s) < fuel := by
      unfold M at hf ⊢
      have : (back s).d.len = s.d.len := rfl
      rw [this, hbc]
      have := h.1.ok; unfold cursorOk at this
      omega
    refine Fin.bind (directives_fin cfg hp hne0 fuel _ hb hmb) fun s1 h1 => ?_
    obtain ⟨hi1, _, hstep⟩ := h1
    have hbl : (back s).d.len = s.d.len := rfl
    have := hstep (by rw [hbc, hbl]; omega)
    simp only [Bool.not_true, Bool.false_and, Bool.false_eq_true, if_false]
    exact ⟨hi1, by rw [hbc] at this; omega⟩
  · simp only [hno, Bool.false_eq_true, if_false]
    refine Fin.bind (directives_fin cfg hp hne0 fuel _ h.1 (by omega)) fun s1 h1 => ?_
    split
    · exact fin_errAt _ _ h1.1 (Int.le_trans h.2.1 h1.2.1) hne0
    · exact ⟨h1.1, h1.2.1⟩

theorem begin_fin (cfg : Cfg) {o : List Token} (hp : Plain cfg o) (hne0 : o ≠ []) (fuel : Nat) (s : PState)
    (h : Fresh o s) (hf : M s + 1 < fuel) :
    Fin (fun s' => Inv o s' ∧ s.d.cursor ≤ s'.d.cursor) (begin cfg fuel s) := by
  unfold begin
  split
  · exact ⟨h.1, Int.le_refl _⟩
  · refine Fin.bind (addresses_fin cfg hp hne0 fuel s false h (by omega)) fun s1 h1 => ?_
    obtain ⟨hi1, hc1, hcase⟩ := h1
    have hm1 : M s1 ≤ M s := by
      unfold M
      have : s1.d.len = s.d.len := by simp only [Disp.len, hi1.len, h.1.len]
      rw [this]; omega
    split
    · exact ⟨hi1, hc1⟩
    · rename_i hneof
      cases hcase with
      | inl he => exact absurd he hneof
      | inr hfr =>
        obtain ⟨hfr1, htok1⟩ := hfr
        split
        · split
          · exact fin_errAt _ _ hi1 hfr1.2.1 hne0
          · unfold snippetTokens
            split
            · have := fin_errAt (α := PState × List Token) (fun _ => True) "syntax-open" hi1 hfr1.2.1 hne0
              unfold errAt at this ⊢
              exact this
            · refine Fin.bind (snippetLoop_fin hne0 fuel s1 1 [] hi1 hfr1.2.1 (by omega)) fun st hst => ?_
              exact ⟨inv_of_d hst.1 rfl, by have := hst.2; simp only; omega⟩
        · exact (blockContents_fin cfg hp hne0 fuel s1 hfr1 htok1 (by omega)).mono fun s' hs' => ⟨hs'.1, by have := hs'.2; omega⟩

theorem parseAll_fin (cfg : Cfg) {o : List Token} (hp : Plain cfg o) (hne0 : o ≠ []) (fuel : Nat) (s : PState) (bs : List ServerBlock)
    (h : Inv o s) (hf : M s + 1 < fuel) : Fin (fun _ => True) (parseAll cfg fuel s bs) := by
  induction fuel generalizing s bs with
  | zero => omega
  | succ k ih =>
    unfold parseAll
    simp only
    cases hn : s.d.next.1 with
    | false => simp only [Bool.not_false, if_true]; exact trivial
    | true =>
      simp only [Bool.not_true, Bool.false_eq_true, if_false]
      obtain ⟨hfr, hm, _⟩ := inv_next h hn
      have hfr' : Fresh o { s with d := s.d.next.2, keys := [], btoks := [] } := fresh_of_d hfr rfl
      have hm' : M { s with d := s.d.next.2, keys := [], btoks := [] } = M { s with d := s.d.next.2 } := rfl
      refine Fin.bind (begin_fin cfg hp hne0 (k + 1) _ hfr' (by omega)) fun s1 h1 => ?_
      obtain ⟨hi1, hc1⟩ := h1
      have hc1' : s.d.next.2.cursor ≤ s1.d.cursor := hc1
      have hnc : s.d.next.2.cursor = s.d.cursor + 1 := ((next_spec s.d h.ok).1.2.2.1 hn).1
      have hb : s.d.next.2.cursor < s.d.len := (next_spec s.d h.ok).2 hn
      clear hc1 hm hm' hfr hfr'
      refine ih s1 _ hi1 ?_
      have hl1 : s1.d.len = s.d.len := by simp only [Disp.len, hi1.len, h.len]
      have := h.ok; unfold cursorOk at this
      unfold M at hf ⊢
      rw [hl1]
      omega

theorem lexRunes_lines (cs : List Chr) (line tl : Nat) (val : List Chr) (cm q e : Bool) (hl : 1 ≤ line)
    (htl : (val.isEmpty = false ∨ q = true) → 1 ≤ tl) :
    ∀ t ∈ lexRunes cs line tl val cm q e, 1 ≤ t.line := by
  induction cs generalizing line tl val cm q e with
  | nil =>
    unfold lexRunes
    split
    · intro t ht; cases ht
    · rename_i hv
      intro t ht
      simp only [List.mem_singleton] at ht
      rw [ht]; exact htl (Or.inl (by simpa using hv))
  | cons c cs ih =>
    have hmk : ∀ v, (mkTok tl v).line = tl := fun _ => rfl
    have hline : ∀ b : Bool, 1 ≤ (if b = true then line + 1 else line) := by intro b; split <;> omega
    unfold lexRunes
    intro t ht
    by_cases hq : q = true
    · subst hq
      have h1 := htl (Or.inr rfl)
      simp only [if_true] at ht
      split at ht
      · exact ih _ _ _ _ _ _ hl (fun _ => h1) t ht
      · split at ht
        · rcases List.mem_cons.mp ht with ht | ht
          · rw [ht, hmk]; exact h1
          · exact ih _ _ _ _ _ _ hl (fun hx => by simp at hx) t ht
        · exact ih _ _ _ _ _ _ (hline _) (fun _ => h1) t ht
    · have hq' : q = false := by simpa using hq
      subst hq'
      simp only [Bool.false_eq_true, if_false] at ht
      split at ht
      · split at ht
        · exact ih _ _ _ _ _ _ hl (fun hx => htl (by simpa using hx)) t ht
        · split at ht
          · rename_i hv
            rcases List.mem_cons.mp ht with ht | ht
            · rw [ht, hmk]; exact htl (Or.inl (by simpa using hv))
            · exact ih _ _ _ _ _ _ (hline _) (fun hx => by simp at hx) t ht
          · exact ih _ _ _ _ _ _ (hline _) (fun hx => htl (by simpa using hx)) t ht
      · split at ht
        · exact ih _ _ _ _ _ _ hl (fun hx => htl (by simpa using hx)) t ht
        · split at ht
          · split at ht
            · exact ih _ _ _ _ _ _ hl (fun _ => hl) t ht
            · exact ih _ _ _ _ _ _ hl (fun _ => hl) t ht
          · rename_i hv
            exact ih _ _ _ _ _ _ hl (fun _ => htl (Or.inl (by simpa using hv))) t ht

/-- every token the lexer produces carries a line number ≥ 1 -/
theorem lex_lines (input : Bytes) : ∀ t ∈ lex input, 1 ≤ t.line := by
  unfold lex
  exact lexRunes_lines _ 1 0 [] false false false (Nat.le_refl 1) (fun hx => by simp at hx)

/-- without imports `Parse` ends: a fuel of (number of tokens + 3) is never used up; and an error it returns
names a file and a line -/
theorem parse_fin (cfg : Cfg) (fuel : Nat) (fn : String) (input : Bytes) (hfn : fn ≠ "")
    (hp : Plain cfg (lex input)) (hf : (lex input).length + 3 ≤ fuel) :
    Fin (fun _ => True) (parse cfg fuel fn input) := by
  unfold parse parseTokens
  by_cases hne0 : lex input = []
  · rw [hne0]
    obtain ⟨k, hk⟩ : ∃ k, fuel = k + 1 := ⟨fuel - 1, by omega⟩
    rw [hk]
    unfold parseAll
    simp [Disp.new, Disp.next, Disp.len, Fin]
  · refine parseAll_fin cfg hp hne0 fuel _ [] ⟨new_ok fn _, rfl, fun i _ => rfl, lex_lines input, hfn⟩ ?_
    unfold M Disp.new Disp.len
    simp only
    omega

/-- no `{%` and no `{$` in the text: nothing for the environment replacement to do -/
def noRef (s : Bytes) : Bool := (indexOf s pctOpen).isNone && (indexOf s dolOpen).isNone

theorem envR_noRef (cfg : Cfg) (h : 0 < cfg.envFuel) (s : Bytes) (hs : noRef s = true) : envR cfg s = .ok s := by
  unfold noRef at hs
  simp only [Bool.and_eq_true, Option.isNone_iff_eq_none] at hs
  obtain ⟨n, hn⟩ : ∃ n, cfg.envFuel = n + 1 := ⟨cfg.envFuel - 1, by omega⟩
  unfold envR replaceEnvVars
  rw [hn]
  simp only [replaceEnvRefs, hs.1, hs.2]

/-- a decidable sufficient condition for `Plain`: no token is `import` or contains `{%` / `{$` -/
theorem plain_of_noRef (cfg : Cfg) (h : 0 < cfg.envFuel) (o : List Token)
    (ho : (o.all fun t => t.text != sImport && noRef t.text) = true) : Plain cfg o := by
  refine ⟨h, fun t ht => ?_⟩
  have := List.all_eq_true.mp ho t ht
  simp only [Bool.and_eq_true, bne_iff_ne, ne_eq] at this
  exact ⟨this.1, t.text, envR_noRef cfg h _ this.2, this.1⟩

end Casket.Parser
