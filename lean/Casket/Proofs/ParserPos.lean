import Casket.Proofs.ParserTerm
/-
Every error of the parser model names a file and a line ≥ 1 (C10) — for ALL inputs, files, snippets, environments
and fuel; an invariant argument, independent of termination.

Invariant (`LInv`): the cursor is legal, every token in the list and in a snippet body has a line ≥ 1 (the lexer's
tokens do, `lex_lines`; splicing, environment replacement and snippet definitions keep it), the file name given to
`Parse` is not empty.  An error raised on a dispenser whose cursor is ≥ 0 and whose token list is not empty (`EP`)
names the token under the cursor or, past the end, the last token.  The token list can become EMPTY (an import at
cursor 0 that expands to nothing); then the cursor is 0, no error is raised before the end of the input is
reported: `addresses` raises its end-of-input error only when it expects another address, and then a comma-ended
address was read before (`expecting → 1 ≤ cursor`).
-/
namespace Casket.Parser
open Casket.Lexer Casket.Dispenser Casket.Dispenser.Disp Casket.DispenserSpec

/-- an `ok` state satisfies `P`; an error names a file and a line ≥ 1 -/
def ErrPos {α : Type} (P : α → Prop) : Res α → Prop
  | .ok a => P a
  | .err _ f l => f ≠ "" ∧ 1 ≤ l
  | _ => True

theorem ErrPos.bind {α β : Type} {P : α → Prop} {Q : β → Prop} {r : Res α} {f : α → Res β}
    (hr : ErrPos P r) (hf : ∀ a, P a → ErrPos Q (f a)) : ErrPos Q (r.bind f) := by
  cases r with
  | ok a => exact hf a hr
  | err c fl l => exact hr
  | panic m => exact trivial
  | timeout => exact trivial

theorem ErrPos.mono {α : Type} {P Q : α → Prop} {r : Res α} (hr : ErrPos P r) (h : ∀ a, P a → Q a) : ErrPos Q r := by
  cases r with
  | ok a => exact h a hr
  | err c fl l => exact hr
  | panic m => exact trivial
  | timeout => exact trivial

theorem errPos_envR (cfg : Cfg) (b : Bytes) : ErrPos (fun _ => True) (envR cfg b) := by
  unfold envR; split <;> trivial

theorem envR_nil_eq {cfg : Cfg} {r : Bytes} (h : envR cfg [] = .ok r) : r = [] := by
  by_cases hf : 0 < cfg.envFuel
  · rw [envR_nil cfg hf] at h; cases h; rfl
  · have h0 : cfg.envFuel = 0 := by omega
    unfold envR replaceEnvVars at h
    rw [h0] at h
    simp [replaceEnvRefs] at h

theorem envR_import (cfg : Cfg) {r : Bytes} (h : envR cfg sImport = .ok r) : r = sImport := by
  by_cases hf : 0 < cfg.envFuel
  · rw [envR_noRef cfg hf sImport (by decide)] at h; cases h; rfl
  · have h0 : cfg.envFuel = 0 := by omega
    unfold envR replaceEnvVars at h
    rw [h0] at h
    simp [replaceEnvRefs] at h

/-- the dispenser part of the invariant -/
structure DInv (d : Disp) : Prop where
  ok : cursorOk d
  lines : ∀ t ∈ d.tokens, 1 ≤ t.line
  fn : d.filename ≠ ""

/-- where an error can be raised: on or after the first token of a non-empty list -/
def EPd (d : Disp) : Prop := 0 ≤ d.cursor ∧ d.tokens ≠ []

structure LInv (s : PState) : Prop where
  d : DInv s.d
  snl : ∀ p ∈ s.snippets, ∀ t ∈ p.2, 1 ≤ t.line

def EP (s : PState) : Prop := EPd s.d

theorem epd_of_tok {d : Disp} (h : ∃ t, d.tok? d.cursor = some t) : EPd d := by
  obtain ⟨t, ht⟩ := h
  have := tokAt_some (show tokAt d.tokens d.cursor = some t from ht)
  refine ⟨this.1, ?_⟩
  intro he; rw [he] at this; simp at this; omega

theorem epd_of_pos {d : Disp} (hok : cursorOk d) (h : 1 ≤ d.cursor) : EPd d := by
  refine ⟨by omega, ?_⟩
  intro he
  unfold cursorOk Disp.len at hok
  rw [he] at hok
  simp at hok
  omega

/-- an error raised here names a file and a line -/
theorem errPos_errAt {α : Type} (P : α → Prop) (c : String) {d : Disp} (h : DInv d) (hep : EPd d) :
    ErrPos P (errAt c d : Res α) := by
  obtain ⟨h0, hl⟩ := hep
  unfold errAt Disp.errPos
  cases hlast : d.tokens.getLast? with
  | none => exact absurd (List.getLast?_eq_none_iff.mp hlast) hl
  | some last =>
    have hmem : last ∈ d.tokens := List.mem_of_getLast? hlast
    simp only
    split
    · refine ⟨?_, h.lines last hmem⟩
      simp only
      split
      · rename_i hf; simpa using hf
      · exact h.fn
    · rename_i hlt
      have hlt' : d.cursor < (d.tokens.length : Int) := by simp only [Disp.len] at hlt; omega
      obtain ⟨t, ht⟩ := tokAt_isSome h0 hlt'
      have htm : t ∈ d.tokens := by
        unfold tokAt at ht; rw [if_pos h0] at ht; exact List.mem_of_getElem? ht
      unfold Disp.file Disp.line Disp.tok?
      rw [ht]
      refine ⟨?_, h.lines t htm⟩
      simp only
      split
      · rename_i hf; simpa using hf
      · exact h.fn

/-- a value other than the empty one comes from a token -/
theorem tok_of_val {cfg : Cfg} {d : Disp} {r : Bytes} (hr : envR cfg d.val = .ok r) (hne : r ≠ []) :
    ∃ t, d.tok? d.cursor = some t := by
  cases ht : d.tok? d.cursor with
  | some t => exact ⟨t, rfl⟩
  | none =>
    have hv : d.val = [] := by unfold Disp.val; rw [ht]
    rw [hv] at hr
    exact absurd (envR_nil_eq hr) hne

theorem dinv_step {d d' : Disp} (h : DInv d) (hs : Step d d') : DInv d' :=
  ⟨hs.ok, by rw [hs.tokens]; exact h.lines, by rw [hs.filename]; exact h.fn⟩

theorem importFiles_lines (ms : List (String × Bytes)) : ∀ t ∈ (importFiles ms).flatMap (·.2), 1 ≤ t.line := by
  induction ms with
  | nil => intro t ht; simp [importFiles] at ht
  | cons p rest ih =>
    obtain ⟨n, b⟩ := p
    intro t ht
    simp only [importFiles, List.flatMap_cons, List.mem_append, List.mem_map] at ht
    rcases ht with ⟨t0, ht0, rfl⟩ | ht
    · exact lex_lines b t0 ht0
    · exact ih t ht

theorem lookupSnippet_mem {sn : List (Bytes × List Token)} {k : Bytes} {body : List Token}
    (h : lookupSnippet sn k = some body) : ∃ p ∈ sn, p.2 = body := by
  unfold lookupSnippet at h
  cases hf : sn.find? (fun p => p.1 == k) with
  | none => rw [hf] at h; cases h
  | some p =>
    rw [hf] at h
    simp only [Option.map_some, Option.some.injEq] at h
    exact ⟨p, List.mem_of_find?_eq_some hf, h⟩

theorem resolveImport_pos (cfg : Cfg) (s : PState) (h : LInv s) (d1 : Disp) (hd : DInv d1) (hep : EPd d1) (pat : Bytes) (A : Nat) :
    ErrPos (fun imp => ∀ t ∈ imp.1, 1 ≤ t.line) (resolveImport cfg s d1 pat A) := by
  unfold resolveImport
  simp only
  cases hl : lookupSnippet s.snippets pat with
  | some body =>
    obtain ⟨p, hp, rfl⟩ := lookupSnippet_mem hl
    simp only
    repeat' (first | exact errPos_errAt _ _ hd hep | exact h.snl p hp | split)
  | none =>
    simp only
    split
    · exact errPos_errAt _ _ hd hep
    · split
      · exact errPos_errAt _ _ hd hep
      · exact importFiles_lines _

/-- `doImport`: errors are placed; the cursor stays; after an import at cursor ≥ 1 the token list is not empty -/
theorem doImport_pos (cfg : Cfg) (s : PState) (h : LInv s) (hep : EP s) :
    ErrPos (fun s2 => LInv s2 ∧ s2.d.cursor = s.d.cursor ∧ s2.keys = s.keys ∧ s2.eof = s.eof ∧
      (1 ≤ s.d.cursor → s2.d.tokens ≠ [])) (doImport cfg s) := by
  have hs := nextArg_spec s.d h.d.ok
  unfold doImport
  simp only
  cases hr1 : s.d.nextArg.1 with
  | false => simp only [Bool.not_false, if_true]; exact errPos_errAt _ _ h.d hep
  | true =>
    simp only [Bool.not_true, Bool.false_eq_true, if_false]
    obtain ⟨hc, hb⟩ := hs.2.2.1 hr1
    have hl : s.d.nextArg.2.len = s.d.len := hs.mono.len
    have htoks : s.d.nextArg.2.tokens = s.d.tokens := hs.1.tokens
    have hd1 : DInv s.d.nextArg.2 := dinv_step h.d hs.1
    have hep1 : EPd s.d.nextArg.2 := ⟨by have := hep.1; omega, by rw [htoks]; exact hep.2⟩
    refine ErrPos.bind (errPos_envR cfg _) fun pat _ => ?_
    split
    · exact errPos_errAt _ _ hd1 hep1
    · have hs2 := nextArg_spec s.d.nextArg.2 hd1.ok
      split
      · rename_i hr2
        obtain ⟨hc2, _⟩ := hs2.2.2.1 hr2
        exact errPos_errAt _ _ (dinv_step hd1 hs2.1) ⟨by have := hep1.1; omega, by rw [hs2.1.tokens]; exact hep1.2⟩
      · split
        · exact trivial
        · rename_i hnp
          refine ErrPos.bind (resolveImport_pos cfg s h _ hd1 hep1 pat _) fun imp himp => ?_
          have hlen := len_nonneg s.d
          have h0 := hep.1
          have hlenT : s.d.nextArg.2.tokens.length = s.d.tokens.length := by rw [htoks]
          simp only [Disp.len] at hb hlen hl hnp
          refine ⟨⟨⟨⟨?_, ?_⟩, ?_, hd1.fn⟩, h.snl⟩, ?_, rfl, rfl, ?_⟩
          · simp only; omega
          · simp only [Disp.len, List.length_append, List.length_take, List.length_drop]
            omega
          · intro t ht
            simp only [List.mem_append] at ht
            rcases ht with (ht | ht) | ht
            · exact hd1.lines t (List.mem_of_mem_take ht)
            · exact himp t ht
            · exact hd1.lines t (List.mem_of_mem_drop ht)
          · simp only; omega
          · intro h1
            simp only
            intro he
            have : (List.take (s.d.nextArg.2.cursor - 1).toNat s.d.nextArg.2.tokens ++ imp.1 ++
                List.drop (s.d.nextArg.2.cursor + 1).toNat s.d.nextArg.2.tokens).length = 0 := by rw [he]; rfl
            simp only [List.length_append, List.length_take, List.length_drop] at this
            omega

theorem linv_of_d {s s' : PState} (h : LInv s) (hd : s'.d = s.d) (hs : s'.snippets = s.snippets) : LInv s' :=
  ⟨by rw [hd]; exact h.d, by rw [hs]; exact h.snl⟩

/-- a successful `Next` -/
theorem lnext {s : PState} (h : LInv s) (ht : s.d.next.1 = true) :
    LInv { s with d := s.d.next.2 } ∧ s.d.next.2.cursor = s.d.cursor + 1 ∧ 0 ≤ s.d.next.2.cursor ∧
    (∃ t, s.d.next.2.tok? s.d.next.2.cursor = some t) ∧ s.d.next.2.tokens = s.d.tokens := by
  obtain ⟨hs, _⟩ := next_spec s.d h.d.ok
  obtain ⟨hc, _⟩ := hs.2.2.1 ht
  obtain ⟨_, h01, htok⟩ := next_true_tok h.d.ok ht
  exact ⟨⟨dinv_step h.d hs.1, h.snl⟩, hc, h01, htok, hs.1.tokens⟩

theorem lback {s : PState} (h : LInv s) (h0 : 0 ≤ s.d.cursor) : LInv (back s) :=
  ⟨⟨ok_back ⟨h.d.ok, h0⟩, h.d.lines, h.d.fn⟩, h.snl⟩

theorem appendCur_pos (cfg : Cfg) (dir : Bytes) {s : PState} (h : LInv s) (ht : ∃ t, s.d.tok? s.d.cursor = some t) :
    ErrPos (fun s' => LInv s' ∧ s'.d.cursor = s.d.cursor ∧ s'.d.tokens ≠ []) (appendCur cfg dir s) := by
  obtain ⟨t, ht⟩ := ht
  have hep := epd_of_tok ⟨t, ht⟩
  unfold appendCur
  rw [ht]
  refine ErrPos.bind (errPos_envR cfg _) fun txt _ => ?_
  have htm : t ∈ s.d.tokens := by
    unfold Disp.tok? tokAt at ht; rw [if_pos hep.1] at ht; exact List.mem_of_getElem? ht
  refine ⟨⟨⟨?_, ?_, h.d.fn⟩, h.snl⟩, rfl, ?_⟩
  · have := h.d.ok
    unfold cursorOk at this ⊢
    simp only [Disp.len, List.length_set] at this ⊢
    exact this
  · intro x hx
    simp only at hx
    rcases List.mem_or_eq_of_mem_set hx with hx | hx
    · exact h.d.lines x hx
    · rw [hx]; exact h.d.lines t htm
  · simp only
    intro he
    have : (s.d.tokens.set s.d.cursor.toNat { t with text := txt }).length = 0 := by rw [he]; rfl
    rw [List.length_set] at this
    exact hep.2 (List.length_eq_zero_iff.mp this)

theorem directiveLoop_pos (cfg : Cfg) (dir : Bytes) (fuel : Nat) (s : PState) (n : Nat) (h : LInv s) (hep : EP s) :
    ErrPos (fun s' => LInv s' ∧ EP s') (directiveLoop cfg dir fuel s n) := by
  induction fuel generalizing s n with
  | zero => exact trivial
  | succ k ih =>
    unfold directiveLoop
    simp only
    cases hn : s.d.next.1 with
    | false =>
      simp only [Bool.not_false, if_true]
      have hd : s.d.next.2 = s.d := next_false_eq h.d.ok hn
      split
      · rw [hd]; exact errPos_errAt _ _ h.d hep
      · exact ⟨h, hep⟩
    | true =>
      simp only [Bool.not_true, Bool.false_eq_true, if_false]
      obtain ⟨h1, hc1, h01, htok, htk⟩ := lnext h hn
      have hep1 : EP { s with d := s.d.next.2 } := epd_of_tok htok
      have hpos : 1 ≤ s.d.next.2.cursor := by have := hep.1; omega
      have happ : ∀ m, ErrPos (fun s' => LInv s' ∧ EP s')
          ((appendCur cfg dir { s with d := s.d.next.2 }).bind fun s2 => directiveLoop cfg dir k s2 m) := by
        intro m
        refine ErrPos.bind (appendCur_pos cfg dir h1 htok) fun s2 h2 => ?_
        obtain ⟨hi2, hc2, hne2⟩ := h2
        exact ih s2 m hi2 ⟨by rw [hc2]; exact h01, hne2⟩
      split
      · exact happ _
      · split
        · exact ⟨lback h1 h01, by simp only [EP, EPd, back, setCursor_cursor, setCursor_tokens]; exact ⟨by omega, hep1.2⟩⟩
        · split
          · exact happ _
          · split
            · exact errPos_errAt _ _ h1.d hep1
            · split
              · refine ErrPos.bind (doImport_pos cfg _ h1 hep1) fun s2 h2 => ?_
                obtain ⟨hi2, hc2, _, _, hne2⟩ := h2
                simp only at hc2 hne2
                refine ih _ _ (lback hi2 (by omega)) ?_
                simp only [EP, EPd, back, setCursor_cursor, setCursor_tokens]
                exact ⟨by omega, hne2 hpos⟩
              · exact happ _

theorem directive_pos (cfg : Cfg) (fuel : Nat) (s : PState) (h : LInv s) (ht : ∃ t, s.d.tok? s.d.cursor = some t) :
    ErrPos (fun s' => LInv s' ∧ EP s') (directive cfg fuel s) := by
  have hep : EP s := epd_of_tok ht
  obtain ⟨t, ht⟩ := ht
  unfold directive
  refine ErrPos.bind (errPos_envR cfg _) fun dir _ => ?_
  split
  · exact errPos_errAt _ _ h.d hep
  · rw [ht]
    exact directiveLoop_pos cfg dir fuel _ 0 (linv_of_d h rfl rfl) hep

/-- where `directives` may start: the list is not empty, and if the cursor is before the first token, that token is
not `import` -/
def DP (s : PState) : Prop :=
  s.d.tokens ≠ [] ∧ (0 ≤ s.d.cursor ∨ ∀ t, s.d.tok? 0 = some t → t.text ≠ sImport)

theorem directives_pos (cfg : Cfg) (fuel : Nat) (s : PState) (h : LInv s) (hdp : DP s) :
    ErrPos (fun s' => LInv s' ∧ EP s') (directives cfg fuel s) := by
  induction fuel generalizing s with
  | zero => exact trivial
  | succ k ih =>
    unfold directives
    simp only
    cases hn : s.d.next.1 with
    | false =>
      simp only [Bool.not_false, if_true]
      refine ⟨h, ?_, hdp.1⟩
      -- with a non-empty list `Next` fails only at a cursor ≥ 0
      have hlen : 1 ≤ s.d.len := by
        unfold Disp.len
        have : s.d.tokens.length ≠ 0 := fun he => hdp.1 (List.length_eq_zero_iff.mp he)
        omega
      unfold Disp.next at hn
      by_cases hc : s.d.cursor < s.d.len - 1
      · simp [hc] at hn
      · omega
    | true =>
      simp only [Bool.not_true, Bool.false_eq_true, if_false]
      obtain ⟨h1, hc1, h01, htok, htk⟩ := lnext h hn
      have hep1 : EP { s with d := s.d.next.2 } := epd_of_tok htok
      split
      · exact ⟨h1, hep1⟩
      · split
        · rename_i himp
          have hpos : 1 ≤ s.d.next.2.cursor := by
            by_cases h0 : 0 ≤ s.d.cursor
            · omega
            · have hni : ∀ t, s.d.tok? 0 = some t → t.text ≠ sImport := by
                rcases hdp.2 with h0' | hni
                · exact absurd h0' h0
                · exact hni
              exfalso
              have hcur := h.d.ok; unfold cursorOk at hcur
              have hc0 : s.d.next.2.cursor = 0 := by omega
              obtain ⟨t, ht⟩ := htok
              have hv : s.d.next.2.val = t.text := by unfold Disp.val; rw [ht]
              rw [hc0, show s.d.next.2.tok? 0 = s.d.tok? 0 from by unfold Disp.tok?; rw [htk]] at ht
              have := hni t ht
              rw [hv] at himp
              exact this (by simpa using himp)
          refine ErrPos.bind (doImport_pos cfg _ h1 hep1) fun s2 h2 => ?_
          obtain ⟨hi2, hc2, _, _, hne2⟩ := h2
          simp only at hc2 hne2
          refine ih _ (lback hi2 (by omega)) ⟨hne2 hpos, Or.inl ?_⟩
          simp only [back, setCursor_cursor]; omega
        · refine ErrPos.bind (directive_pos cfg (k + 1) _ h1 htok) fun s2 h2 => ?_
          exact ih s2 h2.1 ⟨h2.2.2, Or.inl h2.2.1⟩

/-- where `addresses` stops: at the end of the input, or on a token that is not an `import` at the very beginning -/
def AddrPostP (s' : PState) : Prop :=
  LInv s' ∧ (s'.eof = true ∨ ((∃ t, s'.d.tok? s'.d.cursor = some t) ∧ (1 ≤ s'.d.cursor ∨ s'.d.val ≠ sImport)))

theorem addresses_pos (cfg : Cfg) (fuel : Nat) (s : PState) (e : Bool) (h : LInv s) (h0 : 0 ≤ s.d.cursor)
    (he : e = true → 1 ≤ s.d.cursor) : ErrPos AddrPostP (addresses cfg fuel s e) := by
  induction fuel generalizing s e with
  | zero => exact trivial
  | succ k ih =>
    unfold addresses
    cases hr : envR cfg s.d.val with
    | err c fl l => unfold envR at hr; split at hr <;> cases hr
    | panic m => exact trivial
    | timeout => exact trivial
    | ok tkn =>
      simp only [Res.bind]
      split
      · -- import: the value is not empty, so there is a token
        rename_i himp
        have hti : tkn = sImport := by simp only [Bool.and_eq_true, beq_iff_eq] at himp; exact himp.1
        have htok := tok_of_val hr (by rw [hti]; decide)
        refine ErrPos.bind (doImport_pos cfg s h (epd_of_tok htok)) fun s2 h2 => ?_
        obtain ⟨hi2, hc2, _, _, _⟩ := h2
        exact ih s2 e hi2 (by omega) (fun hh => by have := he hh; omega)
      · rename_i hnimp
        split
        · rename_i hlb
          have hti : tkn = lbrace := by simpa using hlb
          have htok := tok_of_val hr (by rw [hti]; decide)
          split
          · exact errPos_errAt _ _ h.d (epd_of_tok htok)
          · refine ⟨h, Or.inr ⟨htok, ?_⟩⟩
            by_cases h1 : 1 ≤ s.d.cursor
            · exact Or.inl h1
            · refine Or.inr fun hv => ?_
              rw [hv] at hr
              have := envR_import cfg hr
              rw [hti] at this
              exact absurd this (by decide)
        · obtain ⟨hs, _⟩ := next_spec s.d h.d.ok
          cases hn : s.d.next.1 with
          | false =>
            have hd : s.d.next.2 = s.d := next_false_eq h.d.ok hn
            simp only [Bool.not_false, Bool.and_true]
            split
            · rename_i hke
              rw [hd]
              refine errPos_errAt _ _ h.d ?_
              -- expecting another address: a comma-ended one was read before, or is under the cursor
              by_cases hte : tkn = []
              · have : e = true := by
                  rw [hte] at hke
                  simpa [addKey] using hke
                exact epd_of_pos h.d.ok (he this)
              · exact epd_of_tok (tok_of_val hr hte)
            · simp only [if_true]
              exact ⟨linv_of_d h hd rfl, Or.inl rfl⟩
          | true =>
            obtain ⟨h1, hc1, h01, htok, htk⟩ := lnext h hn
            simp only [Bool.not_true, Bool.and_false, Bool.false_eq_true, if_false]
            have h1' : LInv { s with d := s.d.next.2, keys := (addKey s.keys e tkn).1 } := linv_of_d h1 rfl rfl
            split
            · exact ⟨h1', Or.inr ⟨htok, Or.inl (by simp only; omega)⟩⟩
            · exact ih _ _ h1' (by simp only; omega) (fun _ => by simp only; omega)

theorem snippetLoop_pos (fuel : Nat) (s : PState) (c : Nat) (acc : List Token) (h : LInv s) (hep : EP s)
    (hacc : ∀ t ∈ acc, 1 ≤ t.line) :
    ErrPos (fun r => LInv r.1 ∧ (∀ t ∈ r.2, 1 ≤ t.line) ∧ r.1.snippets = s.snippets) (snippetLoop fuel s c acc) := by
  induction fuel generalizing s c acc with
  | zero => exact trivial
  | succ k ih =>
    unfold snippetLoop
    simp only
    cases hn : s.d.next.1 with
    | false =>
      simp only [Bool.not_false, if_true]
      have hd : s.d.next.2 = s.d := next_false_eq h.d.ok hn
      split
      · rw [hd]; exact errPos_errAt _ _ h.d hep
      · exact ⟨h, hacc, rfl⟩
    | true =>
      simp only [Bool.not_true, Bool.false_eq_true, if_false]
      obtain ⟨h1, hc1, h01, ⟨t, htok⟩, htk⟩ := lnext h hn
      have hep1 : EP { s with d := s.d.next.2 } := epd_of_tok ⟨t, htok⟩
      rw [htok]
      have htm : t ∈ s.d.next.2.tokens := by
        unfold Disp.tok? tokAt at htok; rw [if_pos h01] at htok; exact List.mem_of_getElem? htok
      have hacc' : ∀ x ∈ acc ++ [t], 1 ≤ x.line := by
        intro x hx
        rcases List.mem_append.mp hx with hx | hx
        · exact hacc x hx
        · simp only [List.mem_singleton] at hx; rw [hx]; exact h1.d.lines t htm
      have hrec : ∀ c', ErrPos (fun r => LInv r.1 ∧ (∀ t ∈ r.2, 1 ≤ t.line) ∧ r.1.snippets = s.snippets)
          (snippetLoop k { s with d := s.d.next.2 } c' (acc ++ [t])) :=
        fun c' => (ih _ c' _ h1 hep1 hacc').mono fun r hr => ⟨hr.1, hr.2.1, hr.2.2⟩
      by_cases hv : (s.d.next.2.val == rbrace) = true
      · simp only [hv, if_true, Bool.true_and]
        split
        · exact ⟨h1, hacc, rfl⟩
        · exact hrec _
      · simp only [hv, Bool.false_and, Bool.false_eq_true, if_false]
        exact hrec _

theorem blockContents_pos (cfg : Cfg) (fuel : Nat) (s : PState) (h : LInv s) (ht : ∃ t, s.d.tok? s.d.cursor = some t)
    (hni : 1 ≤ s.d.cursor ∨ s.d.val ≠ sImport) : ErrPos LInv (blockContents cfg fuel s) := by
  have hep : EP s := epd_of_tok ht
  unfold blockContents
  simp only
  by_cases hno : (s.d.val != lbrace) = true
  · simp only [hno, if_true]
    have hdp : DP (back s) := by
      refine ⟨hep.2, ?_⟩
      rcases hni with h1 | hv
      · exact Or.inl (by simp only [back, setCursor_cursor]; omega)
      · by_cases h1 : 1 ≤ s.d.cursor
        · exact Or.inl (by simp only [back, setCursor_cursor]; omega)
        · refine Or.inr fun t ht0 => ?_
          have hc0 : s.d.cursor = 0 := by have := hep.1; omega
          have : s.d.val = t.text := by
            unfold Disp.val
            rw [hc0]
            simp only [back, Disp.tok?, setCursor_tokens] at ht0
            unfold Disp.tok?
            rw [ht0]
          rw [← this]; exact hv
    refine ErrPos.bind (directives_pos cfg fuel _ (lback h hep.1) hdp) fun s1 h1 => ?_
    simp only [Bool.not_true, Bool.false_and, Bool.false_eq_true, if_false]
    exact h1.1
  · simp only [hno, Bool.false_eq_true, if_false]
    refine ErrPos.bind (directives_pos cfg fuel _ h ⟨hep.2, Or.inl hep.1⟩) fun s1 h1 => ?_
    split
    · exact errPos_errAt _ _ h1.1.d h1.2
    · exact h1.1

theorem begin_pos (cfg : Cfg) (fuel : Nat) (s : PState) (h : LInv s) (h0 : 0 ≤ s.d.cursor) :
    ErrPos LInv (begin cfg fuel s) := by
  unfold begin
  split
  · exact h
  · refine ErrPos.bind (addresses_pos cfg fuel s false h h0 (fun hh => by cases hh)) fun s1 h1 => ?_
    obtain ⟨hi1, hcase⟩ := h1
    split
    · exact hi1
    · rename_i hneof
      rcases hcase with he | ⟨htok1, hni1⟩
      · exact absurd he hneof
      · have hep1 : EP s1 := epd_of_tok htok1
        split
        · split
          · exact errPos_errAt _ _ hi1.d hep1
          · unfold snippetTokens
            split
            · have := errPos_errAt (α := PState × List Token) (fun _ => True) "syntax-open" hi1.d hep1
              unfold errAt at this ⊢
              exact this
            · refine ErrPos.bind (snippetLoop_pos fuel s1 1 [] hi1 hep1 (fun t ht => by cases ht)) fun st hst => ?_
              refine ⟨hst.1.d, ?_⟩
              intro p hp t ht
              simp only at hp
              rcases List.mem_append.mp hp with hp | hp
              · exact hst.1.snl p hp t ht
              · simp only [List.mem_singleton] at hp
                subst hp
                exact hst.2.1 t ht
        · exact blockContents_pos cfg fuel s1 hi1 htok1 hni1

theorem parseAll_pos (cfg : Cfg) (fuel : Nat) (s : PState) (bs : List ServerBlock) (h : LInv s) :
    ErrPos (fun _ => True) (parseAll cfg fuel s bs) := by
  induction fuel generalizing s bs with
  | zero => exact trivial
  | succ k ih =>
    unfold parseAll
    simp only
    cases hn : s.d.next.1 with
    | false => simp only [Bool.not_false, if_true]; exact trivial
    | true =>
      simp only [Bool.not_true, Bool.false_eq_true, if_false]
      obtain ⟨h1, _, h01, _, _⟩ := lnext h hn
      exact ErrPos.bind (begin_pos cfg (k + 1) _ (linv_of_d h1 rfl rfl) h01) fun s1 hs1 => ih s1 _ hs1

/-- every error `Parse` returns names a file and a line ≥ 1 — whatever the input, the files, the environment, the fuel -/
theorem parse_pos (cfg : Cfg) (fuel : Nat) (fn : String) (input : Bytes) (hfn : fn ≠ "") :
    ErrPos (fun _ => True) (parse cfg fuel fn input) := by
  unfold parse parseTokens
  exact parseAll_pos cfg fuel _ [] ⟨⟨new_ok fn _, lex_lines input, hfn⟩, fun p hp => by cases hp⟩

end Casket.Parser
