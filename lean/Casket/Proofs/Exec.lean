import Casket.Model.Exec
import Casket.Spec.Exec
/-
Helper lemmas for C09.
-/
namespace Casket.Exec
open Casket.ExecSpec

/-! ### grouping -/

theorem tokensOf_appendTokens (m : TokMap) (d d' : Dir) (ts : List String) :
    tokensOf (appendTokens m d ts) d' =
      if d' = d then some ((tokensOf m d).getD [] ++ ts) else tokensOf m d' := by
  induction m with
  | nil =>
    by_cases h : d' = d
    · simp [appendTokens, tokensOf, h]
    · have h' : ¬ d = d' := fun hh => h hh.symm
      simp [appendTokens, tokensOf, h, h']
  | cons kv rest ih =>
    obtain ⟨k, v⟩ := kv
    unfold appendTokens
    by_cases hk : k = d
    · simp only [hk, if_true]
      by_cases h : d' = d
      · subst h; simp [tokensOf, List.find?]
      · have h' : ¬ d = d' := fun hh => h hh.symm
        simp [tokensOf, List.find?, h, h']
    · simp only [hk, if_false]
      by_cases h : d' = d
      · subst h
        have := ih
        simp only [if_true] at this
        simp only [tokensOf, List.find?, hk, decide_false, if_true] at this ⊢
        exact this
      · have := ih
        simp only [h, if_false] at this
        by_cases hk' : k = d'
        · simp [tokensOf, List.find?, hk', h]
        · simp only [tokensOf, List.find?, hk', decide_false, h, if_false] at this ⊢
          exact this

/-- the tokens the lines of directive `d` contribute, in line order -/
def lineTokens (ls : List Line) (d : Dir) : List String :=
  (ls.filter fun l => l.dir == d).flatMap (·.tokens)

theorem tokensOf_parseLinesGo (d : Dir) : ∀ (ls : List Line) (m : TokMap),
    tokensOf (parseLinesGo ls m) d =
      if (ls.filter fun l => l.dir == d) = [] then tokensOf m d
      else some ((tokensOf m d).getD [] ++ lineTokens ls d) := by
  intro ls
  induction ls with
  | nil => intro m; simp [parseLinesGo]
  | cons l rest ih =>
    intro m
    unfold parseLinesGo
    rw [ih, tokensOf_appendTokens]
    by_cases hl : l.dir = d
    · subst hl
      by_cases hr : (rest.filter fun x => x.dir == l.dir) = []
      · simp [hr, lineTokens, List.filter]
      · simp [hr, lineTokens, List.filter, List.append_assoc]
    · have hl' : ¬ d = l.dir := fun hh => hl hh.symm
      have hb : (l.dir == d) = false := by simpa using hl
      by_cases hr : (rest.filter fun x => x.dir == d) = []
      · simp [hr, hl', List.filter, hb]
      · simp [hr, hl', lineTokens, List.filter, hb]

/-- what the parser hands to directive `d`: nothing if no line names it, else the tokens of its
lines in their relative order — the position among other directives' lines plays no role -/
theorem tokensOf_parseLines (ls : List Line) (d : Dir) :
    tokensOf (parseLines ls) d =
      if (ls.filter fun l => l.dir == d) = [] then none else some (lineTokens ls d) := by
  unfold parseLines
  rw [tokensOf_parseLinesGo]
  simp [tokensOf]

theorem tokensOf_append (m : TokMap) (d d' : Dir) (ts : List String) :
    tokensOf (m ++ [(d, ts)]) d' = match tokensOf m d' with
      | some x => some x
      | none => if d = d' then some ts else none := by
  induction m with
  | nil => by_cases h : d = d' <;> simp [tokensOf, h]
  | cons kv rest ih =>
    obtain ⟨k, v⟩ := kv
    by_cases hk : k = d'
    · simp [tokensOf, List.find?, hk]
    · simp only [tokensOf, List.cons_append, List.find?, hk, decide_false] at ih ⊢
      exact ih

theorem tokensOf_inspect_congr (m m' : TokMap) (h : ∀ d, tokensOf m d = tokensOf m' d) (d : Dir) :
    tokensOf (inspect m) d = tokensOf (inspect m') d := by
  unfold inspect
  rw [h "gzip", h "errors"]
  split
  · rw [tokensOf_append, tokensOf_append, h d]
  · exact h d

/-! ### execution -/

theorem callsForBlocks_congr (d : Dir) : ∀ (bs bs' : List Block) (i : Nat),
    BlocksPerm bs bs' → callsForBlocks d i bs = callsForBlocks d i bs' := by
  intro bs bs' i h
  induction h generalizing i with
  | nil => rfl
  | @cons b b' rest rest' hk hp _ ih =>
    unfold callsForBlocks
    have ht : ∀ d, tokensOf (parseLines b.lines) d = tokensOf (parseLines b'.lines) d := by
      intro d
      rw [tokensOf_parseLines, tokensOf_parseLines]
      simp only [lineTokens, hp d]
    rw [tokensOf_inspect_congr _ _ ht d, hk, ih]

theorem callsForKeys_dir (d : Dir) (i : Nat) (toks : Option (List String)) : ∀ (ks : List String) (j : Nat),
    ∀ c ∈ callsForKeys d i toks j ks, c.dir = d ∧ c.block = i ∧ j ≤ c.key := by
  intro ks
  induction ks with
  | nil => intro j c h; simp [callsForKeys] at h
  | cons k rest ih =>
    intro j c h
    unfold callsForKeys at h
    cases toks with
    | none =>
      obtain ⟨h1, h2, h3⟩ := ih (j + 1) c h
      exact ⟨h1, h2, by omega⟩
    | some ts =>
      simp only [List.mem_cons] at h
      rcases h with h | h
      · subst h; simp
      · obtain ⟨h1, h2, h3⟩ := ih (j + 1) c h
        exact ⟨h1, h2, by omega⟩

/-- a directive is set up at most once per site (block, key) -/
theorem callsForKeys_site (d : Dir) (i : Nat) (toks : Option (List String)) (adds : Dir → Bool) (i0 j0 : Nat) :
    ∀ (ks : List String) (j : Nat),
    ((callsForKeys d i toks j ks).filter fun c => c.block == i0 && c.key == j0 && adds c.dir).map (·.dir) = [] ∨
    ((callsForKeys d i toks j ks).filter fun c => c.block == i0 && c.key == j0 && adds c.dir).map (·.dir) = [d] := by
  intro ks
  induction ks with
  | nil => intro j; simp [callsForKeys]
  | cons k rest ih =>
    intro j
    unfold callsForKeys
    cases toks with
    | none => exact ih (j + 1)
    | some ts =>
      simp only [List.filter_cons]
      by_cases hc : (i == i0 && j == j0 && adds d) = true
      · simp only [hc, if_true, List.map_cons]
        right
        have hnone : ((callsForKeys d i (some ts) (j + 1) rest).filter fun c => c.block == i0 && c.key == j0 && adds c.dir) = [] := by
          rw [List.filter_eq_nil_iff]
          intro c hcm
          obtain ⟨_, _, h3⟩ := callsForKeys_dir d i (some ts) rest (j + 1) c hcm
          simp only [Bool.and_eq_true, beq_iff_eq] at hc
          have : c.key ≠ j0 := by omega
          simp [this]
        simp [hnone]
      · simp only [hc]
        exact ih (j + 1)

theorem callsForBlocks_site (d : Dir) (adds : Dir → Bool) (i0 j0 : Nat) : ∀ (bs : List Block) (i : Nat),
    ((callsForBlocks d i bs).filter fun c => c.block == i0 && c.key == j0 && adds c.dir).map (·.dir) = [] ∨
    ((callsForBlocks d i bs).filter fun c => c.block == i0 && c.key == j0 && adds c.dir).map (·.dir) = [d] := by
  intro bs
  induction bs with
  | nil => intro i; simp [callsForBlocks]
  | cons b rest ih =>
    intro i
    unfold callsForBlocks
    rw [List.filter_append, List.map_append]
    by_cases hi : i = i0
    · -- later blocks have a larger index
      have hrest : ((callsForBlocks d (i + 1) rest).filter fun c => c.block == i0 && c.key == j0 && adds c.dir) = [] := by
        rw [List.filter_eq_nil_iff]
        intro c hcm
        have : i + 1 ≤ c.block := callsForBlocks_block d rest (i + 1) c hcm
        have : c.block ≠ i0 := by omega
        simp [this]
      rw [hrest]
      simpa using callsForKeys_site d i _ adds i0 j0 b.keys 0
    · have hthis : ((callsForKeys d i (tokensOf (inspect (parseLines b.lines)) d) 0 b.keys).filter
          fun c => c.block == i0 && c.key == j0 && adds c.dir) = [] := by
        rw [List.filter_eq_nil_iff]
        intro c hcm
        obtain ⟨_, h2, _⟩ := callsForKeys_dir d i _ b.keys 0 c hcm
        have : c.block ≠ i0 := by rw [h2]; exact hi
        simp [this]
      rw [hthis]
      simpa using ih (i + 1)
where
  callsForBlocks_block (d : Dir) : ∀ (bs : List Block) (i : Nat), ∀ c ∈ callsForBlocks d i bs, i ≤ c.block := by
    intro bs
    induction bs with
    | nil => intro i c h; simp [callsForBlocks] at h
    | cons b rest ih =>
      intro i c h
      unfold callsForBlocks at h
      rw [List.mem_append] at h
      rcases h with h | h
      · obtain ⟨_, h2, _⟩ := callsForKeys_dir d i _ b.keys 0 c h
        omega
      · have := ih (i + 1) c h
        omega

/-- handler nesting of a site follows the directive list: its middleware list is a subsequence -/
theorem siteMiddleware_sublist (adds : Dir → Bool) (blocks : List Block) (i j : Nat) : ∀ (D : List Dir),
    (siteMiddleware adds (execSeq D blocks) i j).Sublist D := by
  intro D
  induction D with
  | nil => simp [execSeq, siteMiddleware]
  | cons d ds ih =>
    unfold execSeq siteMiddleware
    rw [List.filter_append, List.map_append]
    rcases callsForBlocks_site d adds i j blocks 0 with h | h
    · rw [h]
      exact List.Sublist.cons d ih
    · rw [h]
      exact List.Sublist.cons_cons d ih

/-! ### positions in a duplicate-free list -/

theorem idx_cons_ne (x a : Dir) (D : List Dir) (h : x ≠ a) : idx (x :: D) a = idx D a + 1 := by
  have hb : (x == a) = false := by simpa using h
  simp [idx, List.findIdx_cons, hb]

theorem idx_cons_self (x : Dir) (D : List Dir) : idx (x :: D) x = 0 := by
  simp [idx, List.findIdx_cons]

/-- in a subsequence of a duplicate-free list, an element at an earlier list position comes first -/
theorem sublist_order {D chain : List Dir} (h : chain.Sublist D) (hn : D.Nodup) (a b : Dir)
    (ha : a ∈ chain) (hb : b ∈ chain) (hab : idx D a < idx D b) : [a, b].Sublist chain := by
  induction h with
  | slnil => simp at ha
  | cons x h' ih =>
    rename_i l D'
    have hx : x ∉ D' := (List.nodup_cons.mp hn).1
    have hax : x ≠ a := fun e => hx (e ▸ h'.subset ha)
    have hbx : x ≠ b := fun e => hx (e ▸ h'.subset hb)
    rw [idx_cons_ne x a D' hax, idx_cons_ne x b D' hbx] at hab
    exact ih (List.nodup_cons.mp hn).2 ha hb (by omega)
  | cons_cons x h' ih =>
    rename_i l D'
    have hx : x ∉ D' := (List.nodup_cons.mp hn).1
    by_cases hax : a = x
    · subst hax
      have hbx : a ≠ b := by
        intro e
        subst e
        omega
      have hbl : b ∈ l := by
        simp only [List.mem_cons] at hb
        rcases hb with hb | hb
        · exact absurd hb.symm hbx
        · exact hb
      exact List.Sublist.cons_cons a (List.singleton_sublist.mpr hbl)
    · have hal : a ∈ l := by
        simp only [List.mem_cons] at ha
        rcases ha with ha | ha
        · exact absurd ha hax
        · exact ha
      have hbx : b ≠ x := by
        intro e
        subst e
        rw [idx_cons_self] at hab
        omega
      have hbl : b ∈ l := by
        simp only [List.mem_cons] at hb
        rcases hb with hb | hb
        · exact absurd hb hbx
        · exact hb
      rw [idx_cons_ne x a D' (fun e => hax e.symm), idx_cons_ne x b D' (fun e => hbx e.symm)] at hab
      exact List.Sublist.cons x (ih (List.nodup_cons.mp hn).2 hal hbl (by omega))

end Casket.Exec
