import Casket.Model.Exec
import Casket.Spec.Exec
/-
Helper lemmas for C09.
-/
namespace Casket.Exec
open Casket.ExecSpec

/-! ### grouping -/

theorem tokensOf_appendTokens (m : TokMap) (d d' : Dir) (ts : List String) :
    tokensOf (appendTokens m d ts) d' =
      if d' = d then some ((tokensOf m d).getD [] ++ ts) else tokensOf m d' := by
  induction m with
  | nil =>
    by_cases h : d' = d
    · simp [appendTokens, tokensOf, h]
    · have h' : ¬ d = d' := fun hh => h hh.symm
      simp [appendTokens, tokensOf, h, h']
  | cons kv rest ih =>
    obtain ⟨k, v⟩ := kv
    unfold appendTokens
    by_cases hk : k = d
    · simp only [hk, if_true]
      by_cases h : d' = d
      · subst h; simp [tokensOf, List.find?]
      · have h' : ¬ d = d' := fun hh => h hh.symm
        simp [tokensOf, List.find?, h, h']
    · simp only [hk, if_false]
      by_cases h : d' = d
      · subst h
        have := ih
        simp only [if_true] at this
        simp only [tokensOf, List.find?, hk, decide_false, if_true] at this ⊢
        exact this
      · have := ih
        simp only [h, if_false] at this
        by_cases hk' : k = d'
        · simp [tokensOf, List.find?, hk', h]
        · simp only [tokensOf, List.find?, hk', decide_false, h, if_false] at this ⊢
          exact this

/-- the tokens the lines of directive `d` contribute, in line order -/
def lineTokens (ls : List Line) (d : Dir) : List String :=
  (ls.filter fun l => l.dir == d).flatMap (·.tokens)

theorem tokensOf_parseLinesGo (d : Dir) : ∀ (ls : List Line) (m : TokMap),
    tokensOf (parseLinesGo ls m) d =
      if (ls.filter fun l => l.dir == d) = [] then tokensOf m d
      else some ((tokensOf m d).getD [] ++ lineTokens ls d) := by
  intro ls
  induction ls with
  | nil => intro m; simp [parseLinesGo]
  | cons l rest ih =>
    intro m
    unfold parseLinesGo
    rw [ih, tokensOf_appendTokens]
    by_cases hl : l.dir = d
    · subst hl
      by_cases hr : (rest.filter fun x => x.dir == l.dir) = []
      · simp [hr, lineTokens, List.filter]
      · simp [hr, lineTokens, List.filter, List.append_assoc]
    · have hl' : ¬ d = l.dir := fun hh => hl hh.symm
      have hb : (l.dir == d) = false := by simpa using hl
      by_cases hr : (rest.filter fun x => x.dir == d) = []
      · simp [hr, hl', List.filter, hb]
      · simp [hr, hl', lineTokens, List.filter, hb]

/-- what the parser hands to directive `d`: nothing if no line names it, else the tokens of its
lines in their relative order — the position among other directives' lines plays no role -/
theorem tokensOf_parseLines (ls : List Line) (d : Dir) :
    tokensOf (parseLines ls) d =
      if (ls.filter fun l => l.dir == d) = [] then none else some (lineTokens ls d) := by
  unfold parseLines
  rw [tokensOf_parseLinesGo]
  simp [tokensOf]

theorem tokensOf_append (m : TokMap) (d d' : Dir) (ts : List String) :
    tokensOf (m ++ [(d, ts)]) d' = match tokensOf m d' with
      | some x => some x
      | none => if d = d' then some ts else none := by
  induction m with
  | nil => by_cases h : d = d' <;> simp [tokensOf, h]
  | cons kv rest ih =>
    obtain ⟨k, v⟩ := kv
    by_cases hk : k = d'
    · simp [tokensOf, List.find?, hk]
    · simp only [tokensOf, List.cons_append, List.find?, hk, decide_false] at ih ⊢
      exact ih

theorem tokensOf_inspect_congr (m m' : TokMap) (h : ∀ d, tokensOf m d = tokensOf m' d) (d : Dir) :
    tokensOf (inspect m) d = tokensOf (inspect m') d := by
  unfold inspect
  rw [h "gzip", h "errors"]
  split
  · rw [tokensOf_append, tokensOf_append, h d]
  · exact h d

/-! ### execution -/

theorem callsForBlocks_congr (d : Dir) : ∀ (bs bs' : List Block) (i : Nat),
    BlocksPerm bs bs' → callsForBlocks d i bs = callsForBlocks d i bs' := by
  intro bs bs' i h
  induction h generalizing i with
  | nil => rfl
  | @cons b b' rest rest' hk hp _ ih =>
    unfold callsForBlocks
    have ht : ∀ d, tokensOf (parseLines b.lines) d = tokensOf (parseLines b'.lines) d := by
      intro d
      rw [tokensOf_parseLines, tokensOf_parseLines]
      simp only [lineTokens, hp d]
    rw [tokensOf_inspect_congr _ _ ht d, hk, ih]

theorem callsForKeys_dir (d : Dir) (i : Nat) (toks : Option (List String)) : ∀ (ks : List String) (j : Nat),
    ∀ c ∈ callsForKeys d i toks j ks, c.dir = d ∧ c.block = i ∧ j ≤ c.key := by
  intro ks
  induction ks with
  | nil => intro j c h; simp [callsForKeys] at h
  | cons k rest ih =>
    intro j c h
    unfold callsForKeys at h
    cases toks with
    | none =>
      obtain ⟨h1, h2, h3⟩ := ih (j + 1) c h
      exact ⟨h1, h2, by omega⟩
    | some ts =>
      simp only [List.mem_cons] at h
      rcases h with h | h
      · subst h; simp
      · obtain ⟨h1, h2, h3⟩ := ih (j + 1) c h
        exact ⟨h1, h2, by omega⟩

/-- a directive is set up at most once per site (block, key) -/
theorem callsForKeys_site (d : Dir) (i : Nat) (toks : Option (List String)) (adds : Dir → Bool) (i0 j0 : Nat) :
    ∀ (ks : List String) (j : Nat),
    ((callsForKeys d i toks j ks).filter fun c => c.block == i0 && c.key == j0 && adds c.dir).map (·.dir) = [] ∨
    ((callsForKeys d i toks j ks).filter fun c => c.block == i0 && c.key == j0 && adds c.dir).map (·.dir) = [d] := by
  intro ks
  induction ks with
  | nil => intro j; simp [callsForKeys]
  | cons k rest ih =>
    intro j
    unfold callsForKeys
    cases toks with
    | none => exact ih (j + 1)
    | some ts =>
      simp only [List.filter_cons]
      by_cases hc : (i == i0 && j == j0 && adds d) = true
      · simp only [hc, if_true, List.map_cons]
        right
        have hnone : ((callsForKeys d i (some ts) (j + 1) rest).filter fun c => c.block == i0 && c.key == j0 && adds c.dir) = [] := by
          rw [List.filter_eq_nil_iff]
          intro c hcm
          obtain ⟨_, _, h3⟩ := callsForKeys_dir d i (some ts) rest (j + 1) c hcm
          simp only [Bool.and_eq_true, beq_iff_eq] at hc
          have : c.key ≠ j0 := by omega
          simp [this]
        simp [hnone]
      · simp only [hc]
        exact ih (j + 1)

theorem callsForBlocks_site (d : Dir) (adds : Dir → Bool) (i0 j0 : Nat) : ∀ (bs : List Block) (i : Nat),
    ((callsForBlocks d i bs).filter fun c => c.block == i0 && c.key == j0 && adds c.dir).map (·.dir) = [] ∨
    ((callsForBlocks d i bs).filter fun c => c.block == i0 && c.key == j0 && adds c.dir).map (·.dir) = [d] := by
  intro bs
  induction bs with
  | nil => intro i; simp [callsForBlocks]
  | cons b rest ih =>
    intro i
    unfold callsForBlocks
    rw [List.filter_append, List.map_append]
    by_cases hi : i = i0
    · -- later blocks have a larger index
      have hrest : ((callsForBlocks d (i + 1) rest).filter fun c => c.block == i0 && c.key == j0 && adds c.dir) = [] := by
        rw [List.filter_eq_nil_iff]
        intro c hcm
        have : i + 1 ≤ c.block := callsForBlocks_block d rest (i + 1) c hcm
        have : c.block ≠ i0 := by omega
        simp [this]
      rw [hrest]
      simpa using callsForKeys_site d i _ adds i0 j0 b.keys 0
    · have hthis : ((callsForKeys d i (tokensOf (inspect (parseLines b.lines)) d) 0 b.keys).filter
          fun c => c.block == i0 && c.key == j0 && adds c.dir) = [] := by
        rw [List.filter_eq_nil_iff]
        intro c hcm
        obtain ⟨_, h2, _⟩ := callsForKeys_dir d i _ b.keys 0 c hcm
        have : c.block ≠ i0 := by rw [h2]; exact hi
        simp [this]
      rw [hthis]
      simpa using ih (i + 1)
where
  callsForBlocks_block (d : Dir) : ∀ (bs : List Block) (i : Nat), ∀ c ∈ callsForBlocks d i bs, i ≤ c.block := by
    intro bs
    induction bs with
    | nil => intro i c h; simp [callsForBlocks] at h
    | cons b rest ih =>
      intro i c h
      unfold callsForBlocks at h
      rw [List.mem_append] at h
      rcases h with h | h
      · obtain ⟨_, h2, _⟩ := callsForKeys_dir d i _ b.keys 0 c h
        omega
      · have := ih (i + 1) c h
        omega

/-- handler nesting of a site follows the directive list: its middleware list is a subsequence -/
theorem siteMiddleware_sublist (adds : Dir → Bool) (blocks : List Block) (i j : Nat) : ∀ (D : List Dir),
    (siteMiddleware adds (execSeq D blocks) i j).Sublist D := by
  intro D
  induction D with
  | nil => simp [execSeq, siteMiddleware]
  | cons d ds ih =>
    unfold execSeq siteMiddleware
    rw [List.filter_append, List.map_append]
    rcases callsForBlocks_site d adds i j blocks 0 with h | h
    · rw [h]
      exact List.Sublist.cons d ih
    · rw [h]
      exact List.Sublist.cons_cons d ih

/-! ### positions in a duplicate-free list -/

theorem idx_cons_ne (x a : Dir) (D : List Dir) (h : x ≠ a) : idx (x :: D) a = idx D a + 1 := by
  have hb : (x == a) = false := by simpa using h
  simp [idx, List.findIdx_cons, hb]

theorem idx_cons_self (x : Dir) (D : List Dir) : idx (x :: D) x = 0 := by
  simp [idx, List.findIdx_cons]

/-- in a subsequence of a duplicate-free list, an element at an earlier list position comes first -/
theorem sublist_order {D chain : List Dir} (h : chain.Sublist D) (hn : D.Nodup) (a b : Dir)
    (ha : a ∈ chain) (hb : b ∈ chain) (hab : idx D a < idx D b) : [a, b].Sublist chain := by
  induction h with
  | slnil => simp at ha
  | cons x h' ih =>
    rename_i l D'
    have hx : x ∉ D' := (List.nodup_cons.mp hn).1
    have hax : x ≠ a := fun e => hx (e ▸ h'.subset ha)
    have hbx : x ≠ b := fun e => hx (e ▸ h'.subset hb)
    rw [idx_cons_ne x a D' hax, idx_cons_ne x b D' hbx] at hab
    exact ih (List.nodup_cons.mp hn).2 ha hb (by omega)
  | cons_cons x h' ih =>
    rename_i l D'
    have hx : x ∉ D' := (List.nodup_cons.mp hn).1
    by_cases hax : a = x
    · subst hax
      have hbx : a ≠ b := by
        intro e
        subst e
        omega
      have hbl : b ∈ l := by
        simp only [List.mem_cons] at hb
        rcases hb with hb | hb
        · exact absurd hb.symm hbx
        · exact hb
      exact List.Sublist.cons_cons a (List.singleton_sublist.mpr hbl)
    · have hal : a ∈ l := by
        simp only [List.mem_cons] at ha
        rcases ha with ha | ha
        · exact absurd ha hax
        · exact ha
      have hbx : b ≠ x := by
        intro e
        subst e
        rw [idx_cons_self] at hab
        omega
      have hbl : b ∈ l := by
        simp only [List.mem_cons] at hb
        rcases hb with hb | hb
        · exact absurd hb hbx
        · exact hb
      rw [idx_cons_ne x a D' (fun e => hax e.symm), idx_cons_ne x b D' (fun e => hbx e.symm)] at hab
      exact List.Sublist.cons x (ih (List.nodup_cons.mp hn).2 hal hbl (by omega))

/-! ### setups and parsing callbacks in one schedule -/

theorem callsForBlocks_dir (d : Dir) : ∀ (bs : List Block) (i : Nat), ∀ c ∈ callsForBlocks d i bs, c.dir = d := by
  intro bs
  induction bs with
  | nil => intro i c h; simp [callsForBlocks] at h
  | cons b rest ih =>
    intro i c h
    unfold callsForBlocks at h
    rw [List.mem_append] at h
    rcases h with h | h
    · exact (callsForKeys_dir d i _ b.keys 0 c h).1
    · exact ih (i + 1) c h

theorem execEvents_dir_mem (cbs : Dir → Bool) (blocks : List Block) : ∀ (D : List Dir),
    ∀ e ∈ execEvents cbs D blocks, e.dir ∈ D := by
  intro D
  induction D with
  | nil => intro e h; simp [execEvents] at h
  | cons d ds ih =>
    intro e h
    unfold execEvents at h
    simp only [List.mem_append, List.mem_map] at h
    rcases h with (⟨c, hc, rfl⟩ | h) | h
    · simp [Event.dir, callsForBlocks_dir d blocks 0 c hc]
    · by_cases hcb : cbs d = true
      · simp [hcb] at h; subst h; simp [Event.dir]
      · simp [hcb] at h
    · exact List.mem_cons_of_mem _ (ih e h)

theorem pairwise_of_forall {α : Type} {R : α → α → Prop} : ∀ (l : List α), (∀ a ∈ l, ∀ b ∈ l, R a b) → l.Pairwise R
  | [], _ => List.Pairwise.nil
  | x :: xs, h => List.Pairwise.cons (fun b hb => h x (by simp) b (by simp [hb]))
      (pairwise_of_forall xs (fun a ha b hb => h a (by simp [ha]) b (by simp [hb])))

theorem rank_cons (d : Dir) (ds : List Dir) (e : Event) (he : e.dir ≠ d) : rank (d :: ds) e = rank ds e + 2 := by
  cases e with
  | setup c => simp only [rank, Event.dir] at *; rw [idx_cons_ne d c.dir ds (fun h => he h.symm)]; omega
  | cb x => simp only [rank, Event.dir] at *; rw [idx_cons_ne d x ds (fun h => he h.symm)]; omega

/-- the whole event sequence is sorted by rank -/
theorem execEvents_sorted (cbs : Dir → Bool) (blocks : List Block) : ∀ (D : List Dir), D.Nodup →
    (execEvents cbs D blocks).Pairwise (fun a b => rank D a ≤ rank D b) := by
  intro D
  induction D with
  | nil => intro _; simp [execEvents]
  | cons d ds ih =>
    intro hn
    have hd : d ∉ ds := (List.nodup_cons.mp hn).1
    unfold execEvents
    have hhead : ∀ e ∈ (callsForBlocks d 0 blocks).map Event.setup ++ (if cbs d then [Event.cb d] else []),
        rank (d :: ds) e ≤ 1 ∧ (rank (d :: ds) e = 1 → e = Event.cb d) := by
      intro e he
      simp only [List.mem_append, List.mem_map] at he
      rcases he with ⟨c, hc, rfl⟩ | he
      · have := callsForBlocks_dir d blocks 0 c hc
        simp [rank, this, idx_cons_self]
      · by_cases hcb : cbs d = true
        · simp [hcb] at he; subst he; simp [rank, idx_cons_self]
        · simp [hcb] at he
    have htail : ∀ e ∈ execEvents cbs ds blocks, rank (d :: ds) e = rank ds e + 2 := by
      intro e he
      apply rank_cons
      intro h
      exact hd (h ▸ execEvents_dir_mem cbs blocks ds e he)
    rw [List.pairwise_append]
    refine ⟨?_, ?_, ?_⟩
    · rw [List.pairwise_append]
      refine ⟨?_, ?_, ?_⟩
      · apply pairwise_of_forall
        intro a ha b hb
        simp only [List.mem_map] at ha hb
        obtain ⟨ca, hca, rfl⟩ := ha
        obtain ⟨cb, hcb, rfl⟩ := hb
        simp [rank, callsForBlocks_dir d blocks 0 ca hca, callsForBlocks_dir d blocks 0 cb hcb]
      · by_cases hcb : cbs d = true <;> simp [hcb]
      · intro a ha b hb
        simp only [List.mem_map] at ha
        obtain ⟨ca, hca, rfl⟩ := ha
        by_cases hcb : cbs d = true
        · simp [hcb] at hb; subst hb
          simp [rank, callsForBlocks_dir d blocks 0 ca hca, idx_cons_self]
        · simp [hcb] at hb
    · have := ih (List.nodup_cons.mp hn).2
      refine List.Pairwise.imp_of_mem ?_ this
      intro a b ha hb hab
      rw [htail a ha, htail b hb]
      omega
    · intro a ha b hb
      rw [htail b hb]
      have := (hhead a ha).1
      omega

theorem execEvents_congr (cbs : Dir → Bool) (D : List Dir) (blocks blocks' : List Block) (h : BlocksPerm blocks blocks') :
    execEvents cbs D blocks = execEvents cbs D blocks' := by
  induction D with
  | nil => rfl
  | cons d ds ih => simp only [execEvents, ih, callsForBlocks_congr d blocks blocks' 0 h]

theorem mem_cb_execEvents (cbs : Dir → Bool) (blocks : List Block) (x : Dir) : ∀ (D : List Dir),
    Event.cb x ∈ execEvents cbs D blocks ↔ x ∈ D ∧ cbs x = true := by
  intro D
  induction D with
  | nil => simp [execEvents]
  | cons d ds ih =>
    unfold execEvents
    simp only [List.mem_append, List.mem_map, ih, List.mem_cons]
    constructor
    · rintro ((⟨c, _, hc⟩ | h) | h)
      · cases hc
      · by_cases hcb : cbs d = true
        · simp [hcb] at h; subst h; exact ⟨Or.inl rfl, hcb⟩
        · simp [hcb] at h
      · exact ⟨Or.inr h.1, h.2⟩
    · rintro ⟨rfl | h, hc⟩
      · exact Or.inl (Or.inr (by simp [hc]))
      · exact Or.inr ⟨h, hc⟩

theorem adjSorted_of_pairwise (D : List Dir) : ∀ (l : List Event),
    l.Pairwise (fun a b => rank D a ≤ rank D b) → adjSorted D l = true
  | [], _ => rfl
  | [_], _ => rfl
  | a :: b :: rest, h => by
    have h1 := List.pairwise_cons.mp h
    simp only [adjSorted, Bool.and_eq_true, decide_eq_true_eq]
    exact ⟨h1.1 b (by simp), adjSorted_of_pairwise D (b :: rest) h1.2⟩

theorem cbCount_append (a b : List Event) (d : Dir) : cbCount (a ++ b) d = cbCount a d + cbCount b d := by
  simp [cbCount, List.filter_append]

theorem cbCount_setups (cs : List Call) (d : Dir) : cbCount (cs.map Event.setup) d = 0 := by
  simp only [cbCount, List.length_eq_zero_iff, List.filter_eq_nil_iff, List.mem_map]
  rintro e ⟨c, _, rfl⟩
  simp

theorem cbCount_execEvents (cbs : Dir → Bool) (blocks : List Block) (x : Dir) : ∀ (D : List Dir), D.Nodup →
    cbCount (execEvents cbs D blocks) x = if x ∈ D ∧ cbs x = true then 1 else 0 := by
  intro D
  induction D with
  | nil => intro _; simp [execEvents, cbCount]
  | cons d ds ih =>
    intro hn
    have hd : d ∉ ds := (List.nodup_cons.mp hn).1
    unfold execEvents
    rw [cbCount_append, cbCount_append, cbCount_setups, ih (List.nodup_cons.mp hn).2]
    by_cases hx : x = d
    · subst hx
      by_cases hc : cbs x = true
      · simp [hc, hd, cbCount]
      · simp [hc, cbCount]
    · have hne : ¬ d = x := fun h => hx h.symm
      by_cases hc : cbs d = true
      · simp [hc, hx, hne, cbCount]
      · simp [hc, hx, cbCount]

end Casket.Exec
