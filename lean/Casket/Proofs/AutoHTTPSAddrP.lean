import Casket.Proofs.AutoHTTPSAddr6
/-
Helper lemmas for Props/C15.lean, part: the address theorems with the configured HTTP / HTTPS ports as a parameter
(certmagic.HTTPPort / HTTPSPort, flags -http-port / -https-port).  Core Lean only.
-/
set_option linter.unusedSimpArgs false
namespace Casket.AutoHTTPS
open Casket.Generated Casket.AutoHTTPSSpec

/-! the functions without suffix are the parametrised ones at the default ports -/

theorem standardizeAddressP_std (input : Bytes) : standardizeAddressP Ports.std input = standardizeAddress input := rfl
theorem siteStringP_std (a : Address) : a.siteStringP Ports.std = a.siteString := rfl
theorem normalizedAddrP_std (k : Bytes) : normalizedAddrP Ports.std k = normalizedAddr k := rfl

/-- the port of the table: the written one, else the scheme's (configured ports) -/
def tablePortP (P : Ports) (scheme : Bytes) (port : Option Bytes) : Bytes :=
  match port with
  | some p => p
  | none => if scheme == b!"http" then P.http else if scheme == b!"https" then P.https else []

/-- the scheme of the table: the written one, else the port's (configured ports) -/
def tableSchemeP (P : Ports) (scheme port : Bytes) : Bytes :=
  if scheme.isEmpty then (if port == P.http then b!"http" else if port == P.https then b!"https" else scheme) else scheme

/-- what standardizeAddress must give for `[scheme://]name[:port]` under the configured ports -/
def expectedAddrP (P : Ports) (a : AddrParts) : Except AddrErr Address :=
  let scheme := toLower a.scheme
  let port := tablePortP P scheme a.port
  if (scheme == b!"http" && port == P.https) || (scheme == b!"https" && port == P.http) then .error .convention
  else .ok { original := composeAddr a, scheme := tableSchemeP P scheme port, host := a.host, port := port, path := [] }

def expectedAddr6P (P : Ports) (a : V6Parts) : Except AddrErr Address :=
  let scheme := toLower a.scheme
  let port := tablePortP P scheme a.port
  if (scheme == b!"http" && port == P.https) || (scheme == b!"https" && port == P.http) then .error .convention
  else .ok { original := composeAddr6 a, scheme := tableSchemeP P scheme port, host := a.v6, port := port, path := [] }

theorem expectedAddrP_std (a : AddrParts) : expectedAddrP Ports.std a = expectedAddr a := rfl

/-- THE FRONT HALF of standardizeAddress for any configured ports (the text has no ":h", so what `:http` / `:https` would be
replaced with does not matter) -/
theorem standardize_frontP (P : Ports) (scheme hp : Bytes) (halpha : scheme.all isAlpha = true) (hnc : noColonH hp = true)
    (h47 : (47 : UInt8) ∉ hp) (hdom : inAddrDomain hp = true) (hph : parseHost hp = some hp) :
    standardizeAddressP P (schemePrefix scheme ++ hp) = finishStandardizeP P (schemePrefix scheme ++ hp) (toLower scheme) hp [] := by
  obtain ⟨pnc, plast, pdom⟩ := schemePrefix_facts scheme halpha
  have hnoc : noColonH (schemePrefix scheme ++ hp) = true := noColonH_append _ _ pnc hnc (Or.inl plast)
  have hind : inAddrDomain (schemePrefix scheme ++ hp) = true := by
    unfold inAddrDomain at *
    rw [List.all_append, pdom, hdom]; rfl
  unfold standardizeAddressP urlTextP
  simp only [hind, Bool.not_true, Bool.false_eq_true, if_false]
  have hr1 : replaceFirst (schemePrefix scheme ++ hp) b!":https" (b!":" ++ P.https) = schemePrefix scheme ++ hp := replaceFirst_noColonH _ _ _ hnoc
  have hr2 : replaceFirst (schemePrefix scheme ++ hp) b!":http" (b!":" ++ P.http) = schemePrefix scheme ++ hp := replaceFirst_noColonH _ _ _ hnoc
  rw [hr1, hr2]
  have hstr : (if (!containsSub (schemePrefix scheme ++ hp) b!"//" && !hasPrefix (schemePrefix scheme ++ hp) b!"/") = true
      then b!"//" ++ (schemePrefix scheme ++ hp) else schemePrefix scheme ++ hp) =
      (if scheme.isEmpty then [] else scheme ++ b!":") ++ (b!"//" ++ hp) := by
    unfold schemePrefix
    by_cases hs : scheme.isEmpty = true
    · simp only [hs, if_true, List.nil_append]
      rw [containsSub_false_of_not_mem _ b!"//" 47 (by simp) h47, hasPrefix_false_of_not_mem _ b!"/" 47 (by simp) h47]
      simp
    · simp only [hs, Bool.false_eq_true, if_false]
      have : containsSub (scheme ++ 58 :: 47 :: 47 :: hp) b!"//" = true := by
        have := containsSub_mid (scheme ++ b!":") b!"//" hp
        simpa using this
      simp [this]
  rw [hstr, urlParse_authority_gen scheme hp halpha h47 hph]

/-- THE SCHEME/PORT TABLE, for all configured ports -/
theorem standardize_composeP (P : Ports) (a : AddrParts) (hok : a.ok) : standardizeAddressP P (composeAddr a) = expectedAddrP P a := by
  obtain ⟨hnc, h47, h91, h93, _, hdom⟩ := hostPort_facts a hok
  rw [composeAddr_eq, standardize_frontP P a.scheme _ hok.1 hnc h47 hdom (parseHost_hostPort a hok), ← composeAddr_eq]
  have hhn := not_mem_name a.host hok.2.1
  unfold finishStandardizeP splitURLHost expectedAddrP tablePortP tableSchemeP portPart
  cases hpt : a.port with
  | none =>
    simp only [List.append_nil]
    rw [splitHostPort_none_of_no_colon _ hhn.1,
      splitHostPort_join a.host [] ⟨hhn.1, hhn.2.2.1, hhn.2.2.2⟩ ⟨by simp, by simp, by simp⟩]
    simp
  | some p =>
    have hpn := not_mem_digits p (hok.2.2 p hpt).2
    have hpne : p.isEmpty = false := by
      have := (hok.2.2 p hpt).1
      cases p <;> simp_all
    simp only
    rw [splitHostPort_join a.host p ⟨hhn.1, hhn.2.2.1, hhn.2.2.2⟩ ⟨hpn.1, hpn.2.2.1, hpn.2.2.2⟩]
    simp [hpne]

theorem standardize_compose6P (P : Ports) (a : V6Parts) (hok : a.ok) : standardizeAddressP P (composeAddr6 a) = expectedAddr6P P a := by
  have hf := v6_facts a hok
  unfold composeAddr6
  rw [standardize_frontP P a.scheme _ hok.1 hf.nc hf.n47 hf.dom (parseHost_hostPort6 a hok)]
  unfold finishStandardizeP splitURLHost expectedAddr6P composeAddr6 tablePortP tableSchemeP hostPort6 portPart6
  cases hpt : a.port with
  | none =>
    have e1 : 91 :: a.v6 ++ 93 :: ([] : Bytes) = 91 :: a.v6 ++ [93] := rfl
    have e2 : 91 :: a.v6 ++ [93] ++ b!":" = 91 :: a.v6 ++ 93 :: 58 :: [] := by simp
    simp only [e1]
    rw [splitHostPort_bracket_noport a.v6 hf.v93 hf.v58, e2,
      splitHostPort_bracket a.v6 [] ⟨hf.v91, hf.v93⟩ ⟨by simp, by simp, by simp⟩]
    simp
  | some p =>
    have hpn := not_mem_digits p (hok.2.2.2 p hpt).2
    have hpne : p.isEmpty = false := by
      have := (hok.2.2.2 p hpt).1
      cases p <;> simp_all
    simp only
    rw [splitHostPort_bracket a.v6 p ⟨hf.v91, hf.v93⟩ ⟨hpn.1, hpn.2.2.1, hpn.2.2.2⟩]
    simp [hpne]

/-- The specification's reader with configured ports gives the same table (host lower-cased). -/
theorem readAddrP_compose (P : Ports) (a : AddrParts) (hok : a.ok) :
    readAddrP P (composeAddr a) =
      (tableSchemeP P (toLower a.scheme) (tablePortP P (toLower a.scheme) a.port), toLower a.host, tablePortP P (toLower a.scheme) a.port) := by
  have hlok := lower_ok a hok
  obtain ⟨_, h47, _, _, _, _⟩ := hostPort_facts a.lower hlok
  unfold readAddrP
  rw [toLower_compose a hok, splitScheme_compose a.lower hlok]
  simp only
  rw [cutByte_of_not_mem _ 47 h47]
  simp only
  rw [splitPort_hostPort a.lower hlok]
  unfold tableSchemeP tablePortP
  show _ = (_, toLower a.host, _)
  have hl : a.lower.scheme = toLower a.scheme := rfl
  have hh : a.lower.host = toLower a.host := rfl
  have hp : a.lower.port = a.port := rfl
  simp only [hl, hh, hp]
  cases hpt : a.port with
  | none => simp
  | some p =>
    obtain ⟨hne, hd⟩ := hok.2.2 p hpt
    have hsv := digits_not_service p hne hd
    have hpe : p.isEmpty = false := by cases p <;> simp_all
    simp [hsv.1, hsv.2, hpe]

/-- …so for every well-formed address and all configured ports, what standardizeAddress + Normalize leave is what the
judge of stream c15.addr reads from the text. -/
theorem reader_agreesP (P : Ports) (a : AddrParts) (hok : a.ok) (r : Address) (h : standardizeAddressP P (composeAddr a) = .ok r) :
    (r.normalize.scheme, r.normalize.host, r.normalize.port) = readAddrP P (composeAddr a) := by
  rw [standardize_composeP P a hok] at h
  rw [readAddrP_compose P a hok]
  unfold expectedAddrP at h
  simp only at h
  split at h
  · cases h
  · injection h with h
    subst h
    rw [normalize_eq]
    have hts : toLower (tableSchemeP P (toLower a.scheme) (tablePortP P (toLower a.scheme) a.port)) =
        tableSchemeP P (toLower a.scheme) (tablePortP P (toLower a.scheme) a.port) := by
      unfold tableSchemeP
      split
      · split
        · decide
        · split
          · decide
          · exact toLower_idem _
      · exact toLower_idem _
    simp only [canonHost_name _ hok.2.1, hts]

/-- every well-formed `[scheme://]name[:port]` is in the scope of the judge of stream c15.addr -/
theorem wellFormed_compose (a : AddrParts) (hok : a.ok) : wellFormedAddr (composeAddr a) = true := by
  have hhn := not_mem_name a.host hok.2.1
  have hname : nameByteS = nameByte := rfl
  unfold wellFormedAddr
  rw [splitScheme_compose a hok]
  simp only
  rw [splitPort_hostPort a hok, hname]
  unfold composeAddr portPart
  cases hpt : a.port with
  | none =>
    have h58 : hasByte (a.host ++ []) 58 = false := by rw [List.append_nil]; exact (hasByte_false_iff _ _).mpr hhn.1
    simp only [h58, hok.1, hok.2.1]
    simp
  | some p =>
    obtain ⟨hne, hd⟩ := hok.2.2 p hpt
    have hpe : p.isEmpty = false := by cases p <;> simp_all
    have h58 : hasByte (a.host ++ 58 :: p) 58 = true := by simp [hasByte]
    simp only [h58, hok.1, hok.2.1, hd, hpe]
    simp

end Casket.AutoHTTPS
