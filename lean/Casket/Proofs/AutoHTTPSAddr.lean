import Casket.Proofs.AutoHTTPS
import Casket.Proofs.AutoHTTPSRedirect
/-
Helper lemmas for Props/C15.lean, part: site addresses — standardizeAddress (with the modelled part of net/url.Parse) and
the specification's own reader on every well-formed `[scheme://]name[:port]`.  Core Lean only.
-/
set_option linter.unusedSimpArgs false
namespace Casket.AutoHTTPS
open Casket.Generated Casket.AutoHTTPSSpec

/-! ## byte-string plumbing for addresses -/

theorem hasByte_append (a b : Bytes) (c : UInt8) : hasByte (a ++ b) c = (hasByte a c || hasByte b c) := by
  simp [hasByte]

theorem indexByte_none_of_not_mem (s : Bytes) (c : UInt8) (h : c ∉ s) : indexByte s c = none := by
  unfold indexByte
  rw [List.findIdx?_eq_none_iff]
  intro x hx; simp; intro hxc; subst hxc; exact h hx

theorem indexByte_append (a b : Bytes) (c : UInt8) (h : c ∉ a) : indexByte (a ++ c :: b) c = some a.length := by
  unfold indexByte
  rw [List.findIdx?_eq_some_iff_getElem]
  refine ⟨by simp, by simp, ?_⟩
  intro j hj
  have : (a ++ c :: b)[j]'(by simp; omega) = a[j] := by rw [List.getElem_append_left hj]
  rw [this]
  have hm : a[j] ∈ a := List.getElem_mem hj
  intro hh; simp at hh; rw [hh] at hm; exact h hm

theorem lastIndexByte_none_of_not_mem (s : Bytes) (c : UInt8) (h : c ∉ s) : lastIndexByte s c = none := by
  unfold lastIndexByte
  have : s.reverse.findIdx? (· == c) = none := by
    rw [List.findIdx?_eq_none_iff]
    intro x hx; simp; intro hxc; subst hxc; exact h (by simpa using hx)
  rw [this]; rfl

theorem lastIndexByte_append (a b : Bytes) (c : UInt8) (h : c ∉ b) : lastIndexByte (a ++ c :: b) c = some a.length := by
  unfold lastIndexByte
  have hrev : (a ++ c :: b).reverse = b.reverse ++ c :: a.reverse := by simp
  have : (a ++ c :: b).reverse.findIdx? (· == c) = some b.length := by
    rw [hrev]
    have := indexByte_append b.reverse a.reverse c (by simpa using h)
    unfold indexByte at this
    simpa using this
  rw [this]
  simp

/-- no byte of `s` is `c` -/
theorem not_mem_of_all (s : Bytes) (p : UInt8 → Bool) (c : UInt8) (h : s.all p = true) (hc : p c = false) : c ∉ s := by
  intro hm
  rw [List.all_eq_true] at h
  have := h c hm
  rw [hc] at this; cases this

theorem hasByte_false_iff (s : Bytes) (c : UInt8) : hasByte s c = false ↔ c ∉ s := by
  simp [hasByte]

theorem splitHostPort_none_of_no_colon (s : Bytes) (h : (58 : UInt8) ∉ s) : splitHostPort s = none := by
  unfold splitHostPort
  rw [lastIndexByte_none_of_not_mem s 58 h]

/-- `host:port` splits into its parts when neither part contains ':' '[' ']' -/
theorem splitHostPort_join (host port : Bytes)
    (hh : (58 : UInt8) ∉ host ∧ (91 : UInt8) ∉ host ∧ (93 : UInt8) ∉ host)
    (hp : (58 : UInt8) ∉ port ∧ (91 : UInt8) ∉ port ∧ (93 : UInt8) ∉ port) :
    splitHostPort (host ++ 58 :: port) = some (host, port) := by
  unfold splitHostPort
  rw [lastIndexByte_append host port 58 hp.1]
  have hhead : ((host ++ 58 :: port).head? == some 91) = false := by
    cases host with
    | nil => simp
    | cons a t =>
      have : a ≠ 91 := fun h => hh.2.1 (by simp [h])
      simp [this]
  simp only [hhead, Bool.false_eq_true, if_false]
  have h1 : (host ++ 58 :: port).take host.length = host := by simp
  have h2 : (host ++ 58 :: port).drop (host.length + 1) = port := by
    rw [← List.drop_drop]; simp
  rw [h1, h2]
  have e1 : hasByte host 58 = false := (hasByte_false_iff _ _).mpr hh.1
  have e2 : hasByte (host ++ 58 :: port) 91 = false := by
    rw [hasByte_false_iff]; intro hm
    rcases List.mem_append.mp hm with hm | hm
    · exact hh.2.1 hm
    · simp at hm; exact hp.2.1 hm
  have e3 : hasByte (host ++ 58 :: port) 93 = false := by
    rw [hasByte_false_iff]; intro hm
    rcases List.mem_append.mp hm with hm | hm
    · exact hh.2.2 hm
    · simp at hm; exact hp.2.2 hm
  simp [e1, e2, e3]

/-- no ':' of `s` is followed by 'h' -/
def noColonH : Bytes → Bool
  | [] => true
  | c :: t => !(c == 58 && t.head? == some 104) && noColonH t

/-- strings.Replace of a pattern starting with ":h" leaves such a string alone -/
theorem replaceFirst_noColonH (s o' new : Bytes) (h : noColonH s = true) : replaceFirst s (58 :: 104 :: o') new = s := by
  induction s with
  | nil => simp [replaceFirst]
  | cons c t ih =>
    unfold noColonH at h
    simp only [Bool.and_eq_true, Bool.not_eq_true'] at h
    unfold replaceFirst
    have hnp : (58 :: 104 :: o').isPrefixOf (c :: t) = false := by
      cases hp : (58 :: 104 :: o').isPrefixOf (c :: t) with
      | false => rfl
      | true =>
        exfalso
        rw [List.isPrefixOf_iff_prefix] at hp
        obtain ⟨r, hr⟩ := hp
        simp at hr
        obtain ⟨rfl, rfl⟩ := hr
        simp at h
    simp only [hnp, Bool.false_eq_true, if_false]
    rw [ih h.2]

theorem noColonH_append (a b : Bytes) (ha : noColonH a = true) (hb : noColonH b = true)
    (hj : a.getLast? ≠ some 58 ∨ b.head? ≠ some 104) : noColonH (a ++ b) = true := by
  induction a with
  | nil => simpa using hb
  | cons c t ih =>
    unfold noColonH at ha
    simp only [Bool.and_eq_true, Bool.not_eq_true'] at ha
    cases t with
    | nil =>
      simp only [List.cons_append, List.nil_append]
      unfold noColonH
      simp only [Bool.and_eq_true, Bool.not_eq_true', hb, and_true]
      rcases hj with hj | hj
      · have : c ≠ 58 := by intro h; apply hj; simp [h]
        simp [this]
      · cases hbh : b.head? with
        | none => simp
        | some x =>
          have : x ≠ 104 := by intro h; apply hj; rw [hbh, h]
          simp [this]
    | cons d t' =>
      simp only [List.cons_append]
      unfold noColonH
      simp only [Bool.and_eq_true, Bool.not_eq_true']
      refine ⟨by simpa using ha.1, ?_⟩
      apply ih ha.2
      rcases hj with hj | hj
      · left; simpa [List.getLast?_cons_cons] using hj
      · right; exact hj

/-- a string without ':' has no ":h" -/
theorem noColonH_of_no_colon (s : Bytes) (h : (58 : UInt8) ∉ s) : noColonH s = true := by
  induction s with
  | nil => rfl
  | cons c t ih =>
    unfold noColonH
    have hc : c ≠ 58 := fun hh => h (by simp [hh])
    simp [hc, ih (fun hm => h (by simp [hm]))]

theorem containsSub_mid (a sub b : Bytes) : containsSub (a ++ sub ++ b) sub = true := by
  induction a with
  | nil =>
    cases hs : (sub ++ b) with
    | nil =>
      have h1 : sub = [] := by cases sub <;> simp_all
      have h2 : b = [] := by rw [h1] at hs; simpa using hs
      simp [containsSub, h1, h2]
    | cons c t =>
      simp only [List.nil_append, hs]
      unfold containsSub
      have : sub.isPrefixOf (c :: t) = true := by
        rw [← hs, List.isPrefixOf_iff_prefix]; exact List.prefix_append _ _
      simp [this]
  | cons c t ih =>
    simp only [List.cons_append]
    unfold containsSub
    simp only [Bool.or_eq_true]
    right
    simpa using ih

theorem containsSub_false_of_not_mem (s sub : Bytes) (x : UInt8) (hx : x ∈ sub) (hs : x ∉ s) : containsSub s sub = false := by
  induction s with
  | nil =>
    unfold containsSub
    cases sub with
    | nil => cases hx
    | cons _ _ => rfl
  | cons c t ih =>
    unfold containsSub
    have h1 : sub.isPrefixOf (c :: t) = false := by
      cases hp : sub.isPrefixOf (c :: t) with
      | false => rfl
      | true =>
        exfalso
        rw [List.isPrefixOf_iff_prefix] at hp
        obtain ⟨r, hr⟩ := hp
        apply hs
        rw [← hr]; simp [hx]
    rw [h1, ih (fun hm => hs (by simp [hm]))]
    rfl

/-- getScheme over `pre ++ ":" ++ rest` with an all-letters `pre` -/
theorem getSchemeGo_alpha (pre rest : Bytes) (hpre : pre.all isAlpha = true) :
    ∀ done : Bytes, getSchemeGo (pre ++ 58 :: rest) (done ++ pre ++ 58 :: rest) done.length =
      if done.length + pre.length = 0 then none else some (done ++ pre, rest) := by
  induction pre with
  | nil =>
    intro done
    simp only [List.nil_append, List.append_nil, List.length_nil, Nat.add_zero]
    unfold getSchemeGo
    have : isAlpha 58 = false := by decide
    have h2 : (isDigit 58 || (58:UInt8) == 43 || (58:UInt8) == 45 || (58:UInt8) == 46) = false := by decide
    simp only [this, Bool.false_eq_true, if_false, h2, beq_self_eq_true, if_true]
    by_cases hd : done.length = 0
    · simp [hd]
    · simp only [hd, if_false]
      have : (done ++ 58 :: rest).take done.length = done := by simp
      have hne : (done.length == 0) = false := by simpa using hd
      simp [this, hne]
  | cons c t ih =>
    intro done
    simp only [List.all_cons, Bool.and_eq_true] at hpre
    simp only [List.cons_append]
    unfold getSchemeGo
    simp only [hpre.1, if_true]
    have := ih hpre.2 (done ++ [c])
    simp only [List.append_assoc, List.singleton_append, List.length_append, List.length_singleton, List.cons_append, List.nil_append] at this ⊢
    rw [this]
    simp only [List.length_cons]
    have e1 : done.length + 1 + t.length = done.length + (t.length + 1) := by omega
    rw [e1]

theorem getScheme_alpha (pre rest : Bytes) (hpre : pre.all isAlpha = true) (hne : pre ≠ []) :
    getScheme (pre ++ 58 :: rest) = some (pre, rest) := by
  have := getSchemeGo_alpha pre rest hpre []
  simp only [List.nil_append, List.length_nil, Nat.zero_add] at this
  unfold getScheme
  rw [this]
  have : pre.length ≠ 0 := by cases pre <;> simp_all
  simp [this]

theorem getScheme_slash (rest : Bytes) : getScheme (47 :: rest) = some ([], 47 :: rest) := by
  unfold getScheme getSchemeGo
  have h1 : isAlpha 47 = false := by decide
  have h2 : (isDigit 47 || (47:UInt8) == 43 || (47:UInt8) == 45 || (47:UInt8) == 46) = false := by decide
  have h3 : ((47:UInt8) == 58) = false := by decide
  simp [h1, h2, h3]

/-! ## well-formed site addresses `[scheme://]name[:port]` -/

/-- bytes of a host name as written in a site address: letters, digits, '-', '.', '_', '*' -/
def nameByte (c : UInt8) : Bool := isAlpha c || isDigit c || c == 45 || c == 46 || c == 95 || c == 42

structure AddrParts where
  scheme : Bytes := []
  host : Bytes := []
  port : Option Bytes := none

/-- scheme: letters only (possibly none); host: name bytes; port: digits, at least one -/
def AddrParts.ok (a : AddrParts) : Prop :=
  a.scheme.all isAlpha = true ∧ a.host.all nameByte = true ∧ ∀ p, a.port = some p → p ≠ [] ∧ p.all isDigit = true

def portPart (a : AddrParts) : Bytes := match a.port with | none => [] | some p => 58 :: p

/-- the address text -/
def composeAddr (a : AddrParts) : Bytes :=
  (if a.scheme.isEmpty then [] else a.scheme ++ b!"://") ++ (a.host ++ portPart a)

set_option maxRecDepth 100000 in
theorem nameByte_facts (c : UInt8) (h : nameByte c = true) :
    c ≠ 58 ∧ c ≠ 47 ∧ c ≠ 91 ∧ c ≠ 93 ∧ hostByteOK c = true ∧ (0x21 ≤ c && c ≤ 0x7e && c != 35 && c != 63 && c != 37 && c != 64) = true := by
  have := forall_uint8 (fun c => !nameByte c || (c != 58 && c != 47 && c != 91 && c != 93 && hostByteOK c &&
    (0x21 ≤ c && c ≤ 0x7e && c != 35 && c != 63 && c != 37 && c != 64))) (by decide) c
  simp only [h, Bool.not_true, Bool.false_or, Bool.and_eq_true, bne_iff_ne, ne_eq] at this
  obtain ⟨⟨⟨⟨⟨h1, h2⟩, h3⟩, h4⟩, h5⟩, h6⟩ := this
  refine ⟨h1, h2, h3, h4, h5, ?_⟩
  simp only [Bool.and_eq_true, bne_iff_ne, ne_eq]
  exact h6

theorem all_alpha_name (s : Bytes) (h : s.all isAlpha = true) : s.all nameByte = true := by
  rw [List.all_eq_true] at h ⊢
  intro c hc; simp [nameByte, h c hc]

set_option maxRecDepth 100000 in
theorem digit_facts (c : UInt8) (h : isDigit c = true) :
    c ≠ 58 ∧ c ≠ 47 ∧ c ≠ 91 ∧ c ≠ 93 ∧ c ≠ 104 ∧ hostByteOK c = true ∧ nameByte c = true := by
  have := forall_uint8 (fun c => !isDigit c || (c != 58 && c != 47 && c != 91 && c != 93 && c != 104 && hostByteOK c && nameByte c)) (by decide) c
  simp only [h, Bool.not_true, Bool.false_or, Bool.and_eq_true, bne_iff_ne, ne_eq] at this
  obtain ⟨⟨⟨⟨⟨⟨h1, h2⟩, h3⟩, h4⟩, h5⟩, h6⟩, h7⟩ := this
  exact ⟨h1, h2, h3, h4, h5, h6, h7⟩

theorem not_mem_name (s : Bytes) (h : s.all nameByte = true) :
    (58 : UInt8) ∉ s ∧ (47 : UInt8) ∉ s ∧ (91 : UInt8) ∉ s ∧ (93 : UInt8) ∉ s := by
  rw [List.all_eq_true] at h
  refine ⟨?_, ?_, ?_, ?_⟩ <;> intro hm
  · exact (nameByte_facts _ (h _ hm)).1 rfl
  · exact (nameByte_facts _ (h _ hm)).2.1 rfl
  · exact (nameByte_facts _ (h _ hm)).2.2.1 rfl
  · exact (nameByte_facts _ (h _ hm)).2.2.2.1 rfl

theorem not_mem_digits (s : Bytes) (h : s.all isDigit = true) :
    (58 : UInt8) ∉ s ∧ (47 : UInt8) ∉ s ∧ (91 : UInt8) ∉ s ∧ (93 : UInt8) ∉ s := by
  rw [List.all_eq_true] at h
  refine ⟨?_, ?_, ?_, ?_⟩ <;> intro hm
  · exact (digit_facts _ (h _ hm)).1 rfl
  · exact (digit_facts _ (h _ hm)).2.1 rfl
  · exact (digit_facts _ (h _ hm)).2.2.1 rfl
  · exact (digit_facts _ (h _ hm)).2.2.2.1 rfl

theorem getLast?_append_ne (a b : Bytes) (hb : b ≠ []) : (a ++ b).getLast? = b.getLast? := by
  simp [List.getLast?_append, hb]
  cases h : b.getLast? with
  | none => rw [List.getLast?_eq_none_iff] at h; exact absurd h hb
  | some x => simp

theorem getLast?_ne_of_not_mem (s : Bytes) (c : UInt8) (h : c ∉ s) : s.getLast? ≠ some c := by
  intro hl
  exact h (List.mem_of_getLast? hl)

/-- the part of the address after the scheme: `name[:port]` has no ":h", no '/', and only the port's ':' -/
theorem hostPort_facts (a : AddrParts) (hok : a.ok) :
    noColonH (a.host ++ portPart a) = true ∧ (47 : UInt8) ∉ (a.host ++ portPart a) ∧
    (91 : UInt8) ∉ (a.host ++ portPart a) ∧ (93 : UInt8) ∉ (a.host ++ portPart a) ∧
    (a.host ++ portPart a).all (fun c => c ≥ 0x80 || hostByteOK c) = true ∧
    inAddrDomain (a.host ++ portPart a) = true := by
  obtain ⟨_, hh, hp⟩ := hok
  have hhn := not_mem_name a.host hh
  have hhall : ∀ c ∈ a.host, nameByte c = true := by rw [List.all_eq_true] at hh; exact hh
  unfold portPart
  cases hport : a.port with
  | none =>
    simp only [List.append_nil]
    refine ⟨noColonH_of_no_colon _ hhn.1, hhn.2.1, hhn.2.2.1, hhn.2.2.2, ?_, ?_⟩
    · rw [List.all_eq_true]; intro c hc; simp [(nameByte_facts c (hhall c hc)).2.2.2.2.1]
    · unfold inAddrDomain; rw [List.all_eq_true]; intro c hc; exact (nameByte_facts c (hhall c hc)).2.2.2.2.2
  | some p =>
    obtain ⟨hpne, hpd⟩ := hp p hport
    have hpn := not_mem_digits p hpd
    have hpall : ∀ c ∈ p, isDigit c = true := by rw [List.all_eq_true] at hpd; exact hpd
    simp only
    refine ⟨?_, ?_, ?_, ?_, ?_, ?_⟩
    · apply noColonH_append _ _ (noColonH_of_no_colon _ hhn.1)
      · unfold noColonH
        have : p.head? ≠ some 104 := by
          cases p with
          | nil => exact absurd rfl hpne
          | cons d t => simp; exact (digit_facts d (hpall d (by simp))).2.2.2.2.1
        simp [this, noColonH_of_no_colon p hpn.1]
      · left; exact getLast?_ne_of_not_mem _ _ hhn.1
    · intro hm; rcases List.mem_append.mp hm with hm | hm
      · exact hhn.2.1 hm
      · simp at hm; exact hpn.2.1 hm
    · intro hm; rcases List.mem_append.mp hm with hm | hm
      · exact hhn.2.2.1 hm
      · simp at hm; exact hpn.2.2.1 hm
    · intro hm; rcases List.mem_append.mp hm with hm | hm
      · exact hhn.2.2.2 hm
      · simp at hm; exact hpn.2.2.2 hm
    · rw [List.all_eq_true]; intro c hc
      rcases List.mem_append.mp hc with hc | hc
      · simp [(nameByte_facts c (hhall c hc)).2.2.2.2.1]
      · simp at hc; rcases hc with rfl | hc
        · decide
        · simp [(digit_facts c (hpall c hc)).2.2.2.2.2.1]
    · unfold inAddrDomain; rw [List.all_eq_true]; intro c hc
      rcases List.mem_append.mp hc with hc | hc
      · exact (nameByte_facts c (hhall c hc)).2.2.2.2.2
      · simp at hc; rcases hc with rfl | hc
        · decide
        · exact (nameByte_facts c (digit_facts c (hpall c hc)).2.2.2.2.2.2).2.2.2.2.2

theorem hasPrefix_false_of_not_mem (s p : Bytes) (x : UInt8) (hx : x ∈ p) (hs : x ∉ s) : hasPrefix s p = false := by
  cases h : hasPrefix s p with
  | false => rfl
  | true =>
    exfalso
    unfold hasPrefix at h
    rw [List.isPrefixOf_iff_prefix] at h
    obtain ⟨r, rfl⟩ := h
    exact hs (by simp [hx])

theorem parseHost_hostPort (a : AddrParts) (hok : a.ok) : parseHost (a.host ++ portPart a) = some (a.host ++ portPart a) := by
  obtain ⟨hnc, _, h91, _, hall, _⟩ := hostPort_facts a hok
  have hpre : hasPrefix (a.host ++ portPart a) b!"[" = false := hasPrefix_false_of_not_mem _ _ 91 (by simp) h91
  obtain ⟨_, hh, hp⟩ := hok
  unfold parseHost
  simp only [hpre, Bool.false_eq_true, if_false, hall, if_true]
  unfold portPart at *
  cases hpt : a.port with
  | none =>
    simp only [List.append_nil]
    rw [lastIndexByte_none_of_not_mem _ _ (not_mem_name a.host hh).1]
    simp
  | some p =>
    simp only
    rw [lastIndexByte_append a.host p 58 (not_mem_digits p (hp p hpt).2).1]
    simp [validOptionalPort, (hp p hpt).2]

/-- the scheme prefix of an address text -/
def schemePrefix (scheme : Bytes) : Bytes := if scheme.isEmpty then [] else scheme ++ b!"://"

/-- net/url.Parse of `[scheme:]//hostport` for a host-port text without '/' that net/url's parseHost accepts -/
theorem urlParse_authority_gen (scheme hp : Bytes) (halpha : scheme.all isAlpha = true) (h47 : (47 : UInt8) ∉ hp)
    (hph : parseHost hp = some hp) :
    urlParse ((if scheme.isEmpty then [] else scheme ++ b!":") ++ (b!"//" ++ hp)) = some (toLower scheme, hp, []) := by
  have hidx : indexByte hp 47 = none := indexByte_none_of_not_mem hp 47 h47
  have hno3 : hasPrefix (b!"//" ++ hp) b!"///" = false := by
    cases hp with
    | nil => decide
    | cons c t =>
      have : c ≠ 47 := fun h => h47 (by simp [h])
      simp [hasPrefix, List.isPrefixOf, this, Ne.symm this]
  unfold urlParse
  by_cases hs : scheme.isEmpty = true
  · have hs' : scheme = [] := by simpa using hs
    have hstar : ((47 :: 47 :: hp) == b!"*") = false := by
      rw [beq_eq_false_iff_ne]; intro h; have := congrArg List.length h
      simp only [List.length_cons, List.length_nil] at this; omega
    have gs : getScheme (47 :: 47 :: hp) = some ([], 47 :: 47 :: hp) := getScheme_slash _
    have hp1 : hasPrefix (47 :: 47 :: hp) b!"/" = true := by simp [hasPrefix, List.isPrefixOf]
    have hp2 : hasPrefix (47 :: 47 :: hp) b!"//" = true := by simp [hasPrefix, List.isPrefixOf]
    have hno3' : hasPrefix (47 :: 47 :: hp) b!"///" = false := hno3
    simp [hs', hstar, gs, hp1, hp2, hno3', hidx, hph, toLower]
  · have hne : scheme ≠ [] := by simpa using hs
    simp only [hs, Bool.false_eq_true, if_false]
    have hraw : scheme ++ b!":" ++ (b!"//" ++ hp) = scheme ++ 58 :: (b!"//" ++ hp) := by simp
    rw [hraw]
    have hstar : ((scheme ++ 58 :: (b!"//" ++ hp)) == b!"*") = false := by
      rw [beq_eq_false_iff_ne]; intro h; have := congrArg List.length h
      simp only [List.length_append, List.length_cons, List.length_nil] at this; omega
    have := getScheme_alpha scheme (b!"//" ++ hp) halpha hne
    simp only [hstar, Bool.false_eq_true, if_false, this]
    have hp1 : hasPrefix (47 :: 47 :: hp) b!"/" = true := by simp [hasPrefix, List.isPrefixOf]
    have hp2 : hasPrefix (47 :: 47 :: hp) b!"//" = true := by simp [hasPrefix, List.isPrefixOf]
    have hle : (toLower scheme).isEmpty = false := by
      cases hsc : scheme with
      | nil => exact absurd hsc hne
      | cons c t => simp [toLower]
    simp [hp1, hp2, hidx, hph, hle]

/-- net/url.Parse of `[scheme:]//name[:port]` -/
theorem urlParse_authority (a : AddrParts) (hok : a.ok) :
    urlParse ((if a.scheme.isEmpty then [] else a.scheme ++ b!":") ++ (b!"//" ++ (a.host ++ portPart a))) =
      some (toLower a.scheme, a.host ++ portPart a, []) :=
  urlParse_authority_gen a.scheme _ hok.1 (hostPort_facts a hok).2.1 (parseHost_hostPort a hok)

theorem schemePrefix_facts (scheme : Bytes) (halpha : scheme.all isAlpha = true) :
    noColonH (schemePrefix scheme) = true ∧ (schemePrefix scheme).getLast? ≠ some 58 ∧ inAddrDomain (schemePrefix scheme) = true := by
  unfold schemePrefix
  by_cases hs : scheme.isEmpty = true
  · simp [hs, noColonH, inAddrDomain]
  · have hsn := not_mem_name scheme (all_alpha_name _ halpha)
    simp only [hs, Bool.false_eq_true, if_false]
    refine ⟨?_, ?_, ?_⟩
    · exact noColonH_append _ _ (noColonH_of_no_colon _ hsn.1) (by decide) (Or.inr (by decide))
    · rw [getLast?_append_ne _ _ (by simp)]; decide
    · unfold inAddrDomain
      rw [List.all_append, Bool.and_eq_true]
      refine ⟨?_, by decide⟩
      have := all_alpha_name _ halpha
      rw [List.all_eq_true] at this ⊢
      intro c hc; exact (nameByte_facts c (this c hc)).2.2.2.2.2

/-- THE FRONT HALF of standardizeAddress on `[scheme://]hostport`: for a host-port text without ":h", without '/', inside the
address domain, that net/url's parseHost accepts, the `:http(s)` replacement and the "//" normalisation do nothing harmful and
net/url.Parse delivers (lower-cased scheme, hostport, no path). -/
theorem standardize_front (scheme hp : Bytes) (halpha : scheme.all isAlpha = true) (hnc : noColonH hp = true)
    (h47 : (47 : UInt8) ∉ hp) (hdom : inAddrDomain hp = true) (hph : parseHost hp = some hp) :
    standardizeAddress (schemePrefix scheme ++ hp) = finishStandardize (schemePrefix scheme ++ hp) (toLower scheme) hp [] := by
  obtain ⟨pnc, plast, pdom⟩ := schemePrefix_facts scheme halpha
  have hnoc : noColonH (schemePrefix scheme ++ hp) = true := noColonH_append _ _ pnc hnc (Or.inl plast)
  have hind : inAddrDomain (schemePrefix scheme ++ hp) = true := by
    unfold inAddrDomain at *
    rw [List.all_append, pdom, hdom]; rfl
  unfold standardizeAddress urlText
  simp only [hind, Bool.not_true, Bool.false_eq_true, if_false]
  have hr1 : replaceFirst (schemePrefix scheme ++ hp) b!":https" (b!":" ++ httpsPort) = schemePrefix scheme ++ hp := replaceFirst_noColonH _ _ _ hnoc
  have hr2 : replaceFirst (schemePrefix scheme ++ hp) b!":http" (b!":" ++ httpPort) = schemePrefix scheme ++ hp := replaceFirst_noColonH _ _ _ hnoc
  rw [hr1, hr2]
  have hstr : (if (!containsSub (schemePrefix scheme ++ hp) b!"//" && !hasPrefix (schemePrefix scheme ++ hp) b!"/") = true
      then b!"//" ++ (schemePrefix scheme ++ hp) else schemePrefix scheme ++ hp) =
      (if scheme.isEmpty then [] else scheme ++ b!":") ++ (b!"//" ++ hp) := by
    unfold schemePrefix
    by_cases hs : scheme.isEmpty = true
    · simp only [hs, if_true, List.nil_append]
      rw [containsSub_false_of_not_mem _ b!"//" 47 (by simp) h47, hasPrefix_false_of_not_mem _ b!"/" 47 (by simp) h47]
      simp
    · simp only [hs, Bool.false_eq_true, if_false]
      have : containsSub (scheme ++ 58 :: 47 :: 47 :: hp) b!"//" = true := by
        have := containsSub_mid (scheme ++ b!":") b!"//" hp
        simpa using this
      simp [this]
  rw [hstr, urlParse_authority_gen scheme hp halpha h47 hph]

/-- the port of the table: the written one, else the scheme's -/
def tablePort (scheme : Bytes) (port : Option Bytes) : Bytes :=
  match port with
  | some p => p
  | none => if scheme == b!"http" then httpPort else if scheme == b!"https" then httpsPort else []

/-- the scheme of the table: the written one, else the port's -/
def tableScheme (scheme port : Bytes) : Bytes :=
  if scheme.isEmpty then (if port == httpPort then b!"http" else if port == httpsPort then b!"https" else scheme) else scheme

/-- what standardizeAddress must give for `[scheme://]name[:port]` -/
def expectedAddr (a : AddrParts) : Except AddrErr Address :=
  let scheme := toLower a.scheme
  let port := tablePort scheme a.port
  if (scheme == b!"http" && port == httpsPort) || (scheme == b!"https" && port == httpPort) then .error .convention
  else .ok { original := composeAddr a, scheme := tableScheme scheme port, host := a.host, port := port, path := [] }

theorem prefix_facts (a : AddrParts) (hok : a.ok) :
    let pre := (if a.scheme.isEmpty then [] else a.scheme ++ b!"://")
    noColonH pre = true ∧ pre.getLast? ≠ some 58 ∧ inAddrDomain pre = true := by
  intro pre
  by_cases hs : a.scheme.isEmpty = true
  · simp [pre, hs, noColonH, inAddrDomain]
  · have hsn := not_mem_name a.scheme (all_alpha_name _ hok.1)
    have hpre : pre = a.scheme ++ b!"://" := by simp [pre, hs]
    rw [hpre]
    refine ⟨?_, ?_, ?_⟩
    · exact noColonH_append _ _ (noColonH_of_no_colon _ hsn.1) (by decide) (Or.inr (by decide))
    · rw [getLast?_append_ne _ _ (by simp)]; decide
    · unfold inAddrDomain
      rw [List.all_append, Bool.and_eq_true]
      refine ⟨?_, by decide⟩
      have := all_alpha_name _ hok.1
      rw [List.all_eq_true] at this ⊢
      intro c hc; exact (nameByte_facts c (this c hc)).2.2.2.2.2

theorem composeAddr_eq (a : AddrParts) : composeAddr a = schemePrefix a.scheme ++ (a.host ++ portPart a) := rfl

/-- standardizeAddress on every well-formed `[scheme://]name[:port]`: the scheme/port table -/
theorem standardize_compose (a : AddrParts) (hok : a.ok) : standardizeAddress (composeAddr a) = expectedAddr a := by
  obtain ⟨hnc, h47, h91, h93, _, hdom⟩ := hostPort_facts a hok
  rw [composeAddr_eq, standardize_front a.scheme _ hok.1 hnc h47 hdom (parseHost_hostPort a hok), ← composeAddr_eq]
  -- host and port
  have hhn := not_mem_name a.host hok.2.1
  unfold finishStandardize splitURLHost expectedAddr tablePort tableScheme portPart
  cases hpt : a.port with
  | none =>
    simp only [List.append_nil]
    rw [splitHostPort_none_of_no_colon _ hhn.1,
      splitHostPort_join a.host [] ⟨hhn.1, hhn.2.2.1, hhn.2.2.2⟩ ⟨by simp, by simp, by simp⟩]
    simp
  | some p =>
    have hpn := not_mem_digits p (hok.2.2 p hpt).2
    have hpne : p.isEmpty = false := by
      have := (hok.2.2 p hpt).1
      cases p <;> simp_all
    simp only
    rw [splitHostPort_join a.host p ⟨hhn.1, hhn.2.2.1, hhn.2.2.2⟩ ⟨hpn.1, hpn.2.2.1, hpn.2.2.2⟩]
    simp [hpne]

/-! ## the specification's own reading of an address agrees with standardizeAddress + Normalize -/

theorem indexSub_none_of_not_mem (s sub : Bytes) (x : UInt8) (hx : x ∈ sub) (hs : x ∉ s) : ∀ k, indexSub s sub k = none := by
  induction s with
  | nil =>
    intro k
    unfold indexSub
    cases sub with
    | nil => cases hx
    | cons _ _ => rfl
  | cons c t ih =>
    intro k
    unfold indexSub
    have h1 : sub.isPrefixOf (c :: t) = false := by
      cases hp : sub.isPrefixOf (c :: t) with
      | false => rfl
      | true =>
        exfalso
        rw [List.isPrefixOf_iff_prefix] at hp
        obtain ⟨r, hr⟩ := hp
        apply hs; rw [← hr]; simp [hx]
    simp only [h1, Bool.false_eq_true, if_false]
    exact ih (fun hm => hs (by simp [hm])) _

theorem indexSub_first (pre post : Bytes) (x : UInt8) (sub' : Bytes) (hx : x ∉ pre) :
    ∀ k, indexSub (pre ++ (x :: sub') ++ post) (x :: sub') k = some (k + pre.length) := by
  induction pre with
  | nil =>
    intro k
    simp only [List.nil_append, List.length_nil, Nat.add_zero, List.cons_append]
    unfold indexSub
    have : (x :: sub').isPrefixOf (x :: (sub' ++ post)) = true := by
      rw [List.isPrefixOf_iff_prefix]; exact ⟨post, by simp⟩
    simp [this]
  | cons c t ih =>
    intro k
    simp only [List.cons_append]
    unfold indexSub
    have hc : c ≠ x := fun h => hx (by simp [h])
    have : (x :: sub').isPrefixOf (c :: (t ++ x :: sub' ++ post)) = false := by
      simp [List.isPrefixOf, Ne.symm hc]
    simp only [List.append_assoc, List.cons_append] at this ⊢
    simp only [this, Bool.false_eq_true, if_false]
    have := ih (fun hm => hx (by simp [hm])) (k + 1)
    simp only [List.append_assoc, List.cons_append] at this
    rw [this]
    simp only [List.length_cons]
    congr 1; omega

set_option maxRecDepth 100000 in
theorem lower_facts (c : UInt8) : (isAlpha c = true → isAlpha (lowerByte c) = true) ∧ (nameByte c = true → nameByte (lowerByte c) = true) ∧
    (isDigit c = true → lowerByte c = c) ∧ lowerByte (lowerByte c) = lowerByte c := by
  have := forall_uint8 (fun c => (!isAlpha c || isAlpha (lowerByte c)) && (!nameByte c || nameByte (lowerByte c)) &&
    (!isDigit c || lowerByte c == c) && (lowerByte (lowerByte c) == lowerByte c)) (by decide) c
  simp only [Bool.and_eq_true, Bool.or_eq_true, Bool.not_eq_true', beq_iff_eq] at this
  obtain ⟨⟨⟨h1, h2⟩, h3⟩, h4⟩ := this
  refine ⟨fun h => ?_, fun h => ?_, fun h => ?_, h4⟩
  · rcases h1 with h1 | h1; rw [h] at h1; cases h1; exact h1
  · rcases h2 with h2 | h2; rw [h] at h2; cases h2; exact h2
  · rcases h3 with h3 | h3; rw [h] at h3; cases h3; exact h3

/-- lower-casing an address text = composing the lower-cased parts -/
def AddrParts.lower (a : AddrParts) : AddrParts := { scheme := toLower a.scheme, host := toLower a.host, port := a.port }

theorem toLower_digits (p : Bytes) (h : p.all isDigit = true) : toLower p = p := by
  induction p with
  | nil => rfl
  | cons c t ih =>
    simp only [List.all_cons, Bool.and_eq_true] at h
    simp only [toLower, List.map_cons] at ih ⊢
    rw [(lower_facts c).2.2.1 h.1, ih h.2]

theorem lower_ok (a : AddrParts) (hok : a.ok) : a.lower.ok := by
  obtain ⟨h1, h2, h3⟩ := hok
  refine ⟨?_, ?_, h3⟩
  · show (toLower a.scheme).all isAlpha = true
    rw [List.all_eq_true] at h1 ⊢
    intro c hc
    obtain ⟨x, hx, rfl⟩ := List.mem_map.mp hc
    exact (lower_facts x).1 (h1 x hx)
  · show (toLower a.host).all nameByte = true
    rw [List.all_eq_true] at h2 ⊢
    intro c hc
    obtain ⟨x, hx, rfl⟩ := List.mem_map.mp hc
    exact (lower_facts x).2.1 (h2 x hx)

theorem toLower_compose (a : AddrParts) (hok : a.ok) : toLower (composeAddr a) = composeAddr a.lower := by
  unfold composeAddr AddrParts.lower portPart
  have hp : toLower (match a.port with | none => [] | some p => 58 :: p) = (match a.port with | none => [] | some p => 58 :: p) := by
    cases hpt : a.port with
    | none => rfl
    | some p =>
      have := toLower_digits p (hok.2.2 p hpt).2
      simp only [toLower, List.map_cons] at this ⊢
      rw [this]; rfl
  have happ : ∀ x y : Bytes, toLower (x ++ y) = toLower x ++ toLower y := by intro x y; simp [toLower]
  by_cases hs : a.scheme.isEmpty = true
  · have hs' : a.scheme = [] := by simpa using hs
    simp only [hs', toLower, List.map_nil, List.isEmpty_nil, if_true, List.nil_append] at hp ⊢
    rw [List.map_append, hp]
  · have hs2 : (toLower a.scheme).isEmpty = false := by
      cases hsc : a.scheme with
      | nil => simp [hsc] at hs
      | cons c t => simp [toLower]
    simp only [hs, Bool.false_eq_true, if_false, hs2]
    rw [happ, happ, happ, hp]
    rfl

theorem digits_not_service (p : Bytes) (hne : p ≠ []) (hd : p.all isDigit = true) : (p == b!"http") = false ∧ (p == b!"https") = false := by
  cases p with
  | nil => exact absurd rfl hne
  | cons c t =>
    simp only [List.all_cons, Bool.and_eq_true] at hd
    have : c ≠ 104 := (digit_facts c hd.1).2.2.2.2.1
    constructor <;> (rw [beq_eq_false_iff_ne]; intro h; simp at h; exact this h.1)

theorem splitScheme_compose (a : AddrParts) (hok : a.ok) :
    splitScheme (composeAddr a) = (a.scheme, a.host ++ portPart a) := by
  obtain ⟨_, h47, _, _, _, _⟩ := hostPort_facts a hok
  have hsn := not_mem_name a.scheme (all_alpha_name _ hok.1)
  unfold splitScheme composeAddr
  by_cases hs : a.scheme.isEmpty = true
  · have hs' : a.scheme = [] := by simpa using hs
    simp only [hs, if_true, List.nil_append]
    rw [indexSub_none_of_not_mem _ b!"://" 47 (by simp) h47 0, hs']
  · simp only [hs, Bool.false_eq_true, if_false]
    have := indexSub_first a.scheme (a.host ++ portPart a) 58 [47, 47] hsn.1 0
    simp only [Nat.zero_add] at this
    have e : a.scheme ++ b!"://" ++ (a.host ++ portPart a) = a.scheme ++ 58 :: [47, 47] ++ (a.host ++ portPart a) := by simp
    rw [e, this]
    simp

theorem splitPort_hostPort (a : AddrParts) (hok : a.ok) :
    splitPort (a.host ++ portPart a) = (a.host, match a.port with | some p => p | none => []) := by
  have hhn := not_mem_name a.host hok.2.1
  unfold splitPort portPart
  cases hpt : a.port with
  | none =>
    simp only [List.append_nil]
    rw [splitHostPort_none_of_no_colon _ hhn.1]
    simp only
    rw [trimCutset_of_none]
    intro c hc
    by_cases h91 : c = 91
    · subst h91; exact absurd hc hhn.2.2.1
    · by_cases h93 : c = 93
      · subst h93; exact absurd hc hhn.2.2.2
      · simp [h91, h93]
  | some p =>
    have hpn := not_mem_digits p (hok.2.2 p hpt).2
    simp only
    rw [splitHostPort_join a.host p ⟨hhn.1, hhn.2.2.1, hhn.2.2.2⟩ ⟨hpn.1, hpn.2.2.1, hpn.2.2.2⟩]

/-- The specification's reader on `[scheme://]name[:port]`: scheme and port by the table, host lower-cased. -/
theorem readAddr_compose (a : AddrParts) (hok : a.ok) :
    readAddr (composeAddr a) =
      (tableScheme (toLower a.scheme) (tablePort (toLower a.scheme) a.port), toLower a.host, tablePort (toLower a.scheme) a.port) := by
  have hlok := lower_ok a hok
  obtain ⟨_, h47, _, _, _, _⟩ := hostPort_facts a.lower hlok
  unfold readAddr
  rw [toLower_compose a hok, splitScheme_compose a.lower hlok]
  simp only
  rw [cutByte_of_not_mem _ 47 h47]
  simp only
  rw [splitPort_hostPort a.lower hlok]
  unfold tableScheme tablePort servicePort
  rw [tables_ports.1, tables_ports.2.1]
  show _ = (_, toLower a.host, _)
  have hl : a.lower.scheme = toLower a.scheme := rfl
  have hh : a.lower.host = toLower a.host := rfl
  have hp : a.lower.port = a.port := rfl
  simp only [hl, hh, hp]
  cases hpt : a.port with
  | none => simp
  | some p =>
    obtain ⟨hne, hd⟩ := hok.2.2 p hpt
    have hsv := digits_not_service p hne hd
    have hpe : p.isEmpty = false := by cases p <;> simp_all
    simp [hsv.1, hsv.2, hpe]

theorem toLower_idem (s : Bytes) : toLower (toLower s) = toLower s := by
  induction s with
  | nil => rfl
  | cons c t ih =>
    simp only [toLower, List.map_cons] at ih ⊢
    rw [(lower_facts c).2.2.2, ih]

theorem toLower_tableScheme (s p : Bytes) : toLower (tableScheme (toLower s) p) = tableScheme (toLower s) p := by
  unfold tableScheme
  split
  · split
    · decide
    · split
      · decide
      · exact toLower_idem s
  · exact toLower_idem s

/-- Address.Normalize in terms of `canonHost` -/
theorem normalize_eq (a : Address) :
    a.normalize = { a with scheme := toLower a.scheme, host := toLower (canonHost a.host), path := toLower a.path } := by
  unfold Address.normalize canonHost
  cases parseIP a.host <;> rfl

theorem canonHost_of_not_ip (h : Bytes) (hn : parseIP h = none) : canonHost h = h := by
  unfold canonHost; rw [hn]

/-- For every well-formed `[scheme://]name[:port]` whose host is not an IP literal, what the model's
standardizeAddress + Normalize leave in the Address is what the specification reads from the text. -/
theorem reader_agrees_canon (a : AddrParts) (hok : a.ok) (hcan : canonHost a.host = a.host) (r : Address)
    (h : standardizeAddress (composeAddr a) = .ok r) :
    (r.normalize.scheme, r.normalize.host, r.normalize.port) = readAddr (composeAddr a) := by
  rw [standardize_compose a hok] at h
  rw [readAddr_compose a hok]
  unfold expectedAddr at h
  simp only at h
  split at h
  · cases h
  · injection h with h
    subst h
    rw [normalize_eq]
    simp only [hcan, toLower_tableScheme]

/-! ## Address.VHost and Address.Key on well-formed addresses -/

theorem vhost_eq_splitScheme (a : Address) : a.vhost = (splitScheme a.original).2 := by
  unfold Address.vhost splitScheme
  cases indexSub a.original b!"://" 0 <;> rfl

/-- the normalised Address of a well-formed text -/
theorem normalized_compose_canon (a : AddrParts) (hok : a.ok) (hcan : canonHost a.host = a.host) (r : Address)
    (h : standardizeAddress (composeAddr a) = .ok r) :
    r.normalize = { original := composeAddr a, scheme := tableScheme (toLower a.scheme) (tablePort (toLower a.scheme) a.port),
                    host := toLower a.host, port := tablePort (toLower a.scheme) a.port, path := [] } := by
  rw [standardize_compose a hok] at h
  unfold expectedAddr at h
  simp only at h
  split at h
  · cases h
  · injection h with h
    subst h
    rw [normalize_eq]
    simp only [hcan, toLower_tableScheme]
    rfl

/-- VHost = the address text without its scheme: `name[:port]` -/
theorem vhost_compose_canon (a : AddrParts) (hok : a.ok) (hcan : canonHost a.host = a.host) (r : Address)
    (h : standardizeAddress (composeAddr a) = .ok r) : r.normalize.vhost = a.host ++ portPart a := by
  rw [normalized_compose_canon a hok hcan r h, vhost_eq_splitScheme]
  simp only
  rw [splitScheme_compose a hok]

theorem toLower_length (s : Bytes) : (toLower s).length = s.length := by simp [toLower]

/-- the site key of a well-formed address -/
def expectedKey (a : AddrParts) : Bytes :=
  let port := tablePort (toLower a.scheme) a.port
  let s := tableScheme (toLower a.scheme) port
  (if s.isEmpty then [] else s ++ b!"://") ++ toLower a.host ++
    (match a.port with
     | some p => if a.scheme.isEmpty && !s.isEmpty then [] else 58 :: p
     | none => [])

theorem hasPrefix_self_cons (x : UInt8) (p t : Bytes) : hasPrefix (x :: p ++ t) (x :: p) = true := by
  unfold hasPrefix; rw [List.isPrefixOf_iff_prefix]; exact ⟨t, by simp⟩

/-- Address.Key of a well-formed address: `[scheme://]name[:port]` with the scheme of the table and the lower-cased name;
the port is kept when it was written — except that a written 80/443 without scheme is absorbed into the inferred scheme. -/
theorem key_compose_canon (a : AddrParts) (hok : a.ok) (hcan : canonHost a.host = a.host) (r : Address)
    (h : standardizeAddress (composeAddr a) = .ok r) : r.normalize.key = expectedKey a := by
  rw [normalized_compose_canon a hok hcan r h]
  unfold Address.key expectedKey
  simp only [List.append_nil]
  by_cases hs : a.scheme.isEmpty = true
  · -- no scheme written
    have hs' : a.scheme = [] := by simpa using hs
    have hcomp : composeAddr a = a.host ++ portPart a := by unfold composeAddr; simp [hs]
    have hl : toLower a.scheme = [] := by rw [hs']; rfl
    rw [hcomp, hl]
    unfold portPart
    cases hpt : a.port with
    | none =>
      have : tablePort [] none = [] := by unfold tablePort; simp
      simp only [this]
      have : tableScheme [] [] = [] := by decide
      simp [this]
    | some p =>
      obtain ⟨hne, hd⟩ := hok.2.2 p hpt
      have hpe : p.isEmpty = false := by cases p <;> simp_all
      have htp : tablePort [] (some p) = p := rfl
      simp only [htp, hs', List.isEmpty_nil, Bool.true_and]
      unfold tableScheme
      simp only [List.isEmpty_nil, if_true]
      rw [tables_ports.1, tables_ports.2.1]
      by_cases h80 : (p == b!"80") = true
      · have : p = b!"80" := by simpa using h80
        subst this
        simp [toLower_length]
        omega
      · simp only [h80, Bool.false_eq_true, if_false]
        by_cases h443 : (p == b!"443") = true
        · have : p = b!"443" := by simpa using h443
          subst this
          simp [toLower_length]
          omega
        · simp only [h443, Bool.false_eq_true, if_false, List.isEmpty_nil, if_true, List.nil_append, Bool.not_true,
            hpe, Bool.not_false, Bool.true_and, toLower_length, List.length_append, List.length_cons]
          have hdrop : (a.host ++ 58 :: p).drop a.host.length = 58 :: p := by simp
          simp [hdrop, hasPrefix]
  · -- scheme written
    have hne : a.scheme ≠ [] := by simpa using hs
    have hl : (toLower a.scheme).isEmpty = false := by
      cases hsc : a.scheme with
      | nil => exact absurd hsc hne
      | cons c t => simp [toLower]
    have hcomp : composeAddr a = a.scheme ++ b!"://" ++ (a.host ++ portPart a) := by unfold composeAddr; simp [hs]
    have hts : ∀ p, tableScheme (toLower a.scheme) p = toLower a.scheme := by intro p; unfold tableScheme; simp [hl]
    rw [hcomp]
    simp only [hts, hl, Bool.false_eq_true, if_false, hs, Bool.false_and]
    have hlen : (toLower a.scheme ++ b!"://" ++ toLower a.host).length = (a.scheme ++ b!"://").length + a.host.length := by
      have h1 := toLower_length a.scheme
      have h2 := toLower_length a.host
      simp only [List.length_append, List.length_cons, List.length_nil] at *
      omega
    have hdrop : (a.scheme ++ b!"://" ++ (a.host ++ portPart a)).drop (toLower a.scheme ++ b!"://" ++ toLower a.host).length = portPart a := by
      rw [hlen]
      have : a.scheme ++ b!"://" ++ (a.host ++ portPart a) = (a.scheme ++ b!"://" ++ a.host) ++ portPart a := by simp
      rw [this]
      have hl2 : (a.scheme ++ b!"://").length + a.host.length = (a.scheme ++ b!"://" ++ a.host).length := by
        simp only [List.length_append]
      rw [hl2, List.drop_left]
    rw [hdrop]
    unfold portPart
    cases hpt : a.port with
    | none =>
      simp only [hasPrefix]
      have : ∀ q : Bytes, (b!":" ++ q).isPrefixOf ([] : Bytes) = false := by intro q; rfl
      simp [this]
    | some p =>
      obtain ⟨hne', hd⟩ := hok.2.2 p hpt
      have hpe : p.isEmpty = false := by cases p <;> simp_all
      have htp : tablePort (toLower a.scheme) (some p) = p := rfl
      have hge : (a.scheme ++ b!"://" ++ (a.host ++ 58 :: p)).length ≥ (toLower a.scheme ++ b!"://" ++ toLower a.host).length := by
        have h1 := toLower_length a.scheme
        have h2 := toLower_length a.host
        simp only [List.length_append, List.length_cons, List.length_nil] at *
        omega
      simp [htp, hpe, hasPrefix, toLower_length]

/-- the site key, taken apart again -/
def keyParts (a : AddrParts) : AddrParts :=
  let port := tablePort (toLower a.scheme) a.port
  let s := tableScheme (toLower a.scheme) port
  { scheme := s, host := toLower a.host,
    port := match a.port with
      | some p => if a.scheme.isEmpty && !s.isEmpty then none else some p
      | none => none }

theorem expectedKey_eq_compose (a : AddrParts) : expectedKey a = composeAddr (keyParts a) := by
  unfold expectedKey composeAddr keyParts portPart
  simp only
  cases hpt : a.port with
  | none => simp
  | some p =>
    simp only
    by_cases hc : (a.scheme.isEmpty && !(tableScheme (toLower a.scheme) (tablePort (toLower a.scheme) (some p))).isEmpty) = true
    · simp [hc]
    · simp [hc]

theorem tableScheme_alpha (s p : Bytes) (h : s.all isAlpha = true) : (tableScheme s p).all isAlpha = true := by
  unfold tableScheme
  split
  · split
    · decide
    · split
      · decide
      · exact h
  · exact h

theorem keyParts_ok (a : AddrParts) (hok : a.ok) : (keyParts a).ok := by
  have hl := lower_ok a hok
  refine ⟨tableScheme_alpha _ _ hl.1, hl.2.1, ?_⟩
  intro p hp
  unfold keyParts at hp
  simp only at hp
  cases hpt : a.port with
  | none => simp [hpt] at hp
  | some q =>
    simp only [hpt] at hp
    split at hp
    · cases hp
    · cases hp; exact hok.2.2 _ hpt

/-- the error test of standardizeAddress does not fire on the key of an address that passed it -/
theorem key_table (a : AddrParts) :
    let k := keyParts a
    tablePort (toLower k.scheme) k.port = tablePort (toLower a.scheme) a.port ∧
    tableScheme (toLower k.scheme) (tablePort (toLower k.scheme) k.port) = tableScheme (toLower a.scheme) (tablePort (toLower a.scheme) a.port) := by
  intro k
  have hks : toLower k.scheme = k.scheme := toLower_tableScheme _ _
  have hport : tablePort (toLower k.scheme) k.port = tablePort (toLower a.scheme) a.port := by
    rw [hks]
    show tablePort (tableScheme (toLower a.scheme) (tablePort (toLower a.scheme) a.port)) (keyParts a).port = _
    unfold keyParts
    simp only
    cases hpt : a.port with
    | none =>
      -- no port written: the port follows from the scheme, which the key keeps
      unfold tablePort tableScheme
      simp only
      by_cases h1 : (toLower a.scheme == b!"http") = true
      · have : toLower a.scheme = b!"http" := by simpa using h1
        rw [this]; decide
      · by_cases h2 : (toLower a.scheme == b!"https") = true
        · have : toLower a.scheme = b!"https" := by simpa using h2
          rw [this]; decide
        · simp only [h1, h2, Bool.false_eq_true, if_false]
          by_cases he : (toLower a.scheme).isEmpty = true
          · have : toLower a.scheme = [] := by simpa using he
            rw [this]; decide
          · simp [he, h1, h2]
    | some p =>
      by_cases hs : a.scheme.isEmpty = true
      · have hs' : a.scheme = [] := by simpa using hs
        have hl : toLower a.scheme = [] := by rw [hs']; rfl
        simp only [hs, hl, Bool.true_and]
        have htp : tablePort [] (some p) = p := rfl
        rw [htp]
        unfold tableScheme
        simp only [List.isEmpty_nil, if_true]
        by_cases h80 : (p == httpPort) = true
        · have : p = httpPort := by simpa using h80
          subst this; decide
        · simp only [h80, Bool.false_eq_true, if_false]
          by_cases h443 : (p == httpsPort) = true
          · have : p = httpsPort := by simpa using h443
            subst this; decide
          · simp [h443, tablePort]
      · simp only [hs, Bool.false_and, Bool.false_eq_true, if_false]
        rfl
  refine ⟨hport, ?_⟩
  rw [hport, hks]
  show tableScheme (tableScheme (toLower a.scheme) (tablePort (toLower a.scheme) a.port)) _ = _
  generalize tablePort (toLower a.scheme) a.port = port
  unfold tableScheme
  by_cases he : (toLower a.scheme).isEmpty = true
  · simp only [he, if_true]
    by_cases h80 : (port == httpPort) = true
    · simp [h80]
    · by_cases h443 : (port == httpsPort) = true
      · simp [h80, h443]
      · simp [h80, h443, he]
  · simp [he]

theorem expectedAddr_ok_of_key (a : AddrParts) (r : Address) (h : expectedAddr a = .ok r) :
    ∃ r', expectedAddr (keyParts a) = .ok r' := by
  have hkt := key_table a
  simp only at hkt
  unfold expectedAddr at h ⊢
  simp only at h ⊢
  split at h
  · cases h
  · rename_i hconv
    rw [hkt.1]
    have hks : toLower (keyParts a).scheme = (keyParts a).scheme := toLower_tableScheme _ _
    rw [hks]
    have hsch : (keyParts a).scheme = tableScheme (toLower a.scheme) (tablePort (toLower a.scheme) a.port) := rfl
    rw [hsch]
    generalize tablePort (toLower a.scheme) a.port = port at hconv ⊢
    have hnc : ((tableScheme (toLower a.scheme) port == b!"http" && port == httpsPort) ||
        (tableScheme (toLower a.scheme) port == b!"https" && port == httpPort)) = false := by
      unfold tableScheme
      by_cases he : (toLower a.scheme).isEmpty = true
      · simp only [he, if_true]
        by_cases h80 : (port == httpPort) = true
        · have : port = httpPort := by simpa using h80
          subst this
          simp only [beq_self_eq_true, if_true]; decide
        · by_cases h443 : (port == httpsPort) = true
          · have : port = httpsPort := by simpa using h443
            subst this
            have : (httpsPort == httpPort) = false := by decide
            simp only [this, Bool.false_eq_true, if_false, beq_self_eq_true, if_true]; decide
          · have he' : toLower a.scheme = [] := by simpa using he
            simp [h80, h443, he']
      · simp only [he, Bool.false_eq_true, if_false]
        simpa using hconv
    simp [hnc]

/-- ROUND TRIP through the site key: the key of a well-formed address is itself a well-formed address; parsing it again
gives the same scheme, host and port, and the same key. -/
theorem key_roundtrip_canon (a : AddrParts) (hok : a.ok) (hcan : canonHost a.host = a.host) (hcan' : canonHost (toLower a.host) = toLower a.host)
    (r : Address) (h : standardizeAddress (composeAddr a) = .ok r) :
    ∃ r', standardizeAddress r.normalize.key = .ok r' ∧ r'.normalize.scheme = r.normalize.scheme ∧
      r'.normalize.host = r.normalize.host ∧ r'.normalize.port = r.normalize.port ∧ r'.normalize.key = r.normalize.key := by
  have hkok := keyParts_ok a hok
  have hkey := key_compose_canon a hok hcan r h
  have hnorm := normalized_compose_canon a hok hcan r h
  have hexp : expectedAddr a = .ok r := by rw [← standardize_compose a hok]; exact h
  obtain ⟨r', hr'⟩ := expectedAddr_ok_of_key a r hexp
  have hstd : standardizeAddress (composeAddr (keyParts a)) = .ok r' := by rw [standardize_compose _ hkok]; exact hr'
  have hnorm' := normalized_compose_canon (keyParts a) hkok hcan' r' hstd
  have hkt := key_table a
  simp only at hkt
  have hkhost : (keyParts a).host = toLower a.host := rfl
  refine ⟨r', by rw [hkey, expectedKey_eq_compose]; exact hstd, ?_, ?_, ?_, ?_⟩
  · rw [hnorm', hnorm]; exact hkt.2
  · rw [hnorm', hnorm]; simp only [hkhost]; exact toLower_idem _
  · rw [hnorm', hnorm]; exact hkt.1
  · rw [key_compose_canon (keyParts a) hkok hcan' r' hstd, hkey, expectedKey_eq_compose, expectedKey_eq_compose]
    congr 1
    -- keyParts is idempotent
    have hs2 : (keyParts (keyParts a)).scheme = (keyParts a).scheme := hkt.2
    have hh2 : (keyParts (keyParts a)).host = (keyParts a).host := toLower_idem _
    have hp2 : (keyParts (keyParts a)).port = (keyParts a).port := by
      show (match (keyParts a).port with
        | some p => if (keyParts a).scheme.isEmpty && !(keyParts (keyParts a)).scheme.isEmpty then none else some p
        | none => none) = (keyParts a).port
      rw [hs2]
      cases (keyParts a).port with
      | none => rfl
      | some p => cases (keyParts a).scheme.isEmpty <;> simp
    cases hk : keyParts (keyParts a) with
    | mk s2 h2 p2 =>
      cases hk1 : keyParts a with
      | mk s1 h1 p1 =>
        rw [hk, hk1] at hs2 hh2 hp2
        simp only at hs2 hh2 hp2
        rw [hs2, hh2, hp2]

/-! the same statements for hosts that are no IP literals (the forms first proved; kept under their names) -/

theorem reader_agrees (a : AddrParts) (hok : a.ok) (hnip : parseIP a.host = none) (r : Address)
    (h : standardizeAddress (composeAddr a) = .ok r) :
    (r.normalize.scheme, r.normalize.host, r.normalize.port) = readAddr (composeAddr a) :=
  reader_agrees_canon a hok (canonHost_of_not_ip _ hnip) r h

theorem normalized_compose (a : AddrParts) (hok : a.ok) (hnip : parseIP a.host = none) (r : Address)
    (h : standardizeAddress (composeAddr a) = .ok r) :
    r.normalize = { original := composeAddr a, scheme := tableScheme (toLower a.scheme) (tablePort (toLower a.scheme) a.port),
                    host := toLower a.host, port := tablePort (toLower a.scheme) a.port, path := [] } :=
  normalized_compose_canon a hok (canonHost_of_not_ip _ hnip) r h

theorem vhost_compose (a : AddrParts) (hok : a.ok) (hnip : parseIP a.host = none) (r : Address)
    (h : standardizeAddress (composeAddr a) = .ok r) : r.normalize.vhost = a.host ++ portPart a :=
  vhost_compose_canon a hok (canonHost_of_not_ip _ hnip) r h

theorem key_compose (a : AddrParts) (hok : a.ok) (hnip : parseIP a.host = none) (r : Address)
    (h : standardizeAddress (composeAddr a) = .ok r) : r.normalize.key = expectedKey a :=
  key_compose_canon a hok (canonHost_of_not_ip _ hnip) r h

theorem key_roundtrip (a : AddrParts) (hok : a.ok) (hnip : parseIP a.host = none) (hnip' : parseIP (toLower a.host) = none)
    (r : Address) (h : standardizeAddress (composeAddr a) = .ok r) :
    ∃ r', standardizeAddress r.normalize.key = .ok r' ∧ r'.normalize.scheme = r.normalize.scheme ∧
      r'.normalize.host = r.normalize.host ∧ r'.normalize.port = r.normalize.port ∧ r'.normalize.key = r.normalize.key :=
  key_roundtrip_canon a hok (canonHost_of_not_ip _ hnip) (canonHost_of_not_ip _ hnip') r h

end Casket.AutoHTTPS
