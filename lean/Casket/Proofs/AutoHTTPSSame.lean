import Casket.Proofs.AutoHTTPSAddrIP
import Casket.Proofs.AutoHTTPSInspect
/-
Helper lemmas for Props/C15.lean, part: Address.String and its round trip; a clash in the bookkeeping of
InspectServerBlocks ⇔ the same site.  Core Lean only.
-/
set_option linter.unusedSimpArgs false
namespace Casket.AutoHTTPS
open Casket.Generated Casket.AutoHTTPSSpec

/-! ## Address.String (with the default port filled in) and its round trip -/

/-- scheme none, http or https (any case) -/
def AddrParts.stdScheme (a : AddrParts) : Prop :=
  toLower a.scheme = [] ∨ toLower a.scheme = b!"http" ∨ toLower a.scheme = b!"https"

/-- the site a well-formed address denotes: effective scheme (http unless https written or implied by 443), lower-cased host,
port with the default port filled in -/
def effective (a : AddrParts) : Bytes × Bytes × Bytes :=
  let port := tablePort (toLower a.scheme) a.port
  let portF := if port.isEmpty then defaultPort else port
  let s := tableScheme (toLower a.scheme) port
  let sEff := if s.isEmpty then (if portF == httpsPort then b!"https" else b!"http") else s
  (sEff, toLower a.host, portF)

/-- the effective site, written as address parts again: the port is left out when it is the scheme's default -/
def effectiveParts (a : AddrParts) : AddrParts :=
  let (s, h, p) := effective a
  { scheme := s, host := h, port := if (s == b!"https" && p == defaultHTTPSPort) || (s == b!"http" && p == defaultHTTPPort) then none else some p }

theorem ports_lits : httpPort = b!"80" ∧ httpsPort = b!"443" ∧ defaultPort = b!"2015" ∧ defaultHTTPPort = b!"80" ∧ defaultHTTPSPort = b!"443" := by decide

/-- Address.String of the normalised address with the default port filled in = the text of the effective site -/
theorem siteString_compose (a : AddrParts) (hok : a.ok) (hstd : a.stdScheme) (r : Address)
    (h : standardizeAddress (composeAddr a) = .ok r) :
    r.normalize.siteString = composeAddr (effectiveParts a) := by
  have hexp : expectedAddr a = .ok r := by rw [← standardize_compose a hok]; exact h
  rw [normalized_compose_all a hok r h]
  have hh58 : hasByte (toLower a.host) 58 = false := (hasByte_false_iff _ _).mpr (not_mem_name _ (lower_ok a hok).2.1).1
  unfold expectedAddr at hexp
  obtain ⟨l1, l2, l3, l4, l5⟩ := ports_lits
  unfold Address.siteString Address.filled Address.string effectiveParts effective composeAddr portPart tableScheme tablePort joinHostPort
  unfold tablePort tableScheme at hexp
  simp only [l1, l2, l3, l4, l5] at hexp ⊢
  rcases hstd with hs | hs | hs <;> rw [hs] at hexp ⊢ <;> cases hp : a.port with
  | none => simp [hp, hh58] at hexp ⊢
  | some p =>
    obtain ⟨hne, _⟩ := hok.2.2 p hp
    have hpe : p.isEmpty = false := by cases p <;> simp_all
    by_cases h80 : (p == b!"80") = true
    · have : p = b!"80" := by simpa using h80
      subst this; simp [hp, hh58] at hexp ⊢
    · by_cases h443 : (p == b!"443") = true
      · have : p = b!"443" := by simpa using h443
        subst this; simp [hp, hh58] at hexp ⊢
      · have n80 : p ≠ b!"80" := by simpa using h80
        have n443 : p ≠ b!"443" := by simpa using h443
        simp [hp, hh58, hpe, h80, h443, n80, n443] at hexp ⊢

theorem effectiveParts_ok (a : AddrParts) (hok : a.ok) (hstd : a.stdScheme) : (effectiveParts a).ok := by
  obtain ⟨l1, l2, l3, l4, l5⟩ := ports_lits
  refine ⟨?_, (lower_ok a hok).2.1, ?_⟩
  · unfold effectiveParts effective tableScheme tablePort
    simp only [l1, l2, l3]
    rcases hstd with hs | hs | hs <;> rw [hs] <;> cases a.port <;> simp <;> (repeat' split) <;> decide
  · intro q hq
    have hq' : q = (effective a).2.2 := by
      unfold effectiveParts at hq
      simp only at hq
      split at hq
      · cases hq
      · cases hq; rfl
    rw [hq']
    unfold effective tablePort
    simp only [l1, l2, l3]
    cases hp : a.port with
    | none =>
      rcases hstd with hs | hs | hs <;> rw [hs] <;> exact ⟨by decide, by decide⟩
    | some p =>
      obtain ⟨hne, hd⟩ := hok.2.2 p hp
      have hpe : p.isEmpty = false := by cases p <;> simp_all
      simp only [hpe, Bool.false_eq_true, if_false]
      exact ⟨hne, hd⟩

/-- the effective site as an Address whose text is the site string -/
def effectiveAddr (a : AddrParts) : Address :=
  { original := composeAddr (effectiveParts a), scheme := (effective a).1, host := (effective a).2.1, port := (effective a).2.2, path := [] }

/-- standardizeAddress on the text of the effective site gives the effective site -/
theorem expectedAddr_effective (a : AddrParts) (hok : a.ok) (hstd : a.stdScheme) (r : Address) (hexp : expectedAddr a = .ok r) :
    expectedAddr (effectiveParts a) = .ok (effectiveAddr a) := by
  unfold effectiveAddr
  obtain ⟨l1, l2, l3, l4, l5⟩ := ports_lits
  have hlow : toLower (toLower a.host) = toLower a.host := toLower_idem _
  have t1 : toLower b!"http" = b!"http" := by decide
  have t2 : toLower b!"https" = b!"https" := by decide
  have t3 : toLower ([] : Bytes) = [] := rfl
  unfold expectedAddr at hexp ⊢
  unfold effectiveParts effective tableScheme tablePort at *
  simp only [l1, l2, l3, l4, l5] at hexp ⊢
  rcases hstd with hs | hs | hs <;> rw [hs] at hexp ⊢ <;> cases hp : a.port with
  | none => simp [hp, t1, t2, t3, hlow] at hexp ⊢
  | some p =>
    obtain ⟨hne, _⟩ := hok.2.2 p hp
    have hpe : p.isEmpty = false := by cases p <;> simp_all
    by_cases h80 : (p == b!"80") = true
    · have : p = b!"80" := by simpa using h80
      subst this; simp [hp, t1, t2, t3, hlow] at hexp ⊢
    · by_cases h443 : (p == b!"443") = true
      · have : p = b!"443" := by simpa using h443
        subst this; simp [hp, t1, t2, t3, hlow] at hexp ⊢
      · have n80 : p ≠ b!"80" := by simpa using h80
        have n443 : p ≠ b!"443" := by simpa using h443
        simp [hp, hpe, h80, h443, n80, n443, t1, t2, t3, hlow] at hexp ⊢

theorem effective_idem (a : AddrParts) (hok : a.ok) (hstd : a.stdScheme) (r : Address) (hexp : expectedAddr a = .ok r) :
    effective (effectiveParts a) = effective a := by
  obtain ⟨l1, l2, l3, l4, l5⟩ := ports_lits
  have hlow : toLower (toLower a.host) = toLower a.host := toLower_idem _
  have t1 : toLower b!"http" = b!"http" := by decide
  have t2 : toLower b!"https" = b!"https" := by decide
  have t3 : toLower ([] : Bytes) = [] := rfl
  unfold expectedAddr at hexp
  unfold effectiveParts effective tableScheme tablePort at *
  simp only [l1, l2, l3, l4, l5] at hexp ⊢
  rcases hstd with hs | hs | hs <;> rw [hs] at hexp ⊢ <;> cases hp : a.port with
  | none => simp [hp, t1, t2, t3, hlow] at hexp ⊢
  | some p =>
    obtain ⟨hne, _⟩ := hok.2.2 p hp
    have hpe : p.isEmpty = false := by cases p <;> simp_all
    by_cases h80 : (p == b!"80") = true
    · have : p = b!"80" := by simpa using h80
      subst this; simp [hp, t1, t2, t3, hlow] at hexp ⊢
    · by_cases h443 : (p == b!"443") = true
      · have : p = b!"443" := by simpa using h443
        subst this; simp [hp, t1, t2, t3, hlow] at hexp ⊢
      · have n80 : p ≠ b!"80" := by simpa using h80
        have n443 : p ≠ b!"443" := by simpa using h443
        simp [hp, hpe, h80, h443, n80, n443, t1, t2, t3, hlow] at hexp ⊢

theorem effective_scheme (a : AddrParts) (hstd : a.stdScheme) : (effective a).1 = b!"http" ∨ (effective a).1 = b!"https" := by
  obtain ⟨l1, l2, l3, l4, l5⟩ := ports_lits
  unfold effective tableScheme tablePort
  simp only [l1, l2, l3]
  rcases hstd with hs | hs | hs <;> rw [hs]
  · cases a.port with
    | none => left; decide
    | some p =>
      simp only
      by_cases h80 : (p == b!"80") = true
      · simp [h80]
      · by_cases h443 : (p == b!"443") = true
        · simp [h80, h443]
        · by_cases he : p.isEmpty = true
          · have : p = [] := by simpa using he
            subst this; left; decide
          · simp [h80, h443, he]
  · left; simp
  · right; simp

/-- address parts of an effective triple -/
def partsOf (e : Bytes × Bytes × Bytes) : AddrParts :=
  { scheme := e.1, host := e.2.1,
    port := if (e.1 == b!"https" && e.2.2 == defaultHTTPSPort) || (e.1 == b!"http" && e.2.2 == defaultHTTPPort) then none else some e.2.2 }

theorem effectiveParts_eq (a : AddrParts) : effectiveParts a = partsOf (effective a) := rfl

theorem effectiveParts_std (a : AddrParts) (hstd : a.stdScheme) : (effectiveParts a).stdScheme := by
  have t1 : toLower b!"http" = b!"http" := by decide
  have t2 : toLower b!"https" = b!"https" := by decide
  rw [effectiveParts_eq]
  unfold AddrParts.stdScheme partsOf
  rcases effective_scheme a hstd with h | h <;> simp [h, t1, t2]

/-- ROUND TRIP through Address.String: the site string (String with the default port filled in) of a well-formed address is itself
a well-formed address; standardizeAddress gives the effective site back — scheme http/https made explicit, default port filled
in — and the site string of that is the same text again. -/
theorem siteString_roundtrip (a : AddrParts) (hok : a.ok) (hstd : a.stdScheme) (r : Address)
    (h : standardizeAddress (composeAddr a) = .ok r) :
    standardizeAddress r.normalize.siteString = .ok (effectiveAddr a) ∧
    (effectiveAddr a).normalize.siteString = r.normalize.siteString := by
  have hexp : expectedAddr a = .ok r := by rw [← standardize_compose a hok]; exact h
  have hs := siteString_compose a hok hstd r h
  have heok := effectiveParts_ok a hok hstd
  have hstd2 : standardizeAddress (composeAddr (effectiveParts a)) = .ok (effectiveAddr a) := by
    rw [standardize_compose _ heok]; exact expectedAddr_effective a hok hstd r hexp
  refine ⟨by rw [hs]; exact hstd2, ?_⟩
  rw [siteString_compose (effectiveParts a) heok (effectiveParts_std a hstd) (effectiveAddr a) hstd2, hs]
  have hexp2 : expectedAddr (effectiveParts a) = .ok (effectiveAddr a) := expectedAddr_effective a hok hstd r hexp
  have := effective_idem a hok hstd r hexp
  rw [effectiveParts_eq (effectiveParts a), this, ← effectiveParts_eq]

/-! ## rejected as duplicates ⇔ the same site -/

/-- the effective site computed from the three fields of the normalised address -/
def effOf (s h p : Bytes) : Bytes × Bytes × Bytes :=
  let pF := if p.isEmpty then defaultPort else p
  (if s.isEmpty then (if pF == httpsPort then b!"https" else b!"http") else s, h, pF)

theorem effective_of_fields (a : AddrParts) (hok : a.ok) (r : Address) (h : standardizeAddress (composeAddr a) = .ok r) :
    effective a = effOf r.normalize.scheme r.normalize.host r.normalize.port := by
  rw [normalized_compose_all a hok r h]
  rfl

/-- Two well-formed addresses (scheme none/http/https; name or IPv4 host; optional numeric port) clash in the bookkeeping of
InspectServerBlocks — same normalised key or same site string — exactly when they denote the same site. -/
theorem clash_iff_same_site (a b : AddrParts) (hoa : a.ok) (hob : b.ok) (hsa : a.stdScheme) (hsb : b.stdScheme)
    (ra rb : Address) (ha : standardizeAddress (composeAddr a) = .ok ra) (hb : standardizeAddress (composeAddr b) = .ok rb) :
    (ra.normalize.key = rb.normalize.key ∨ ra.normalize.siteString = rb.normalize.siteString) ↔ effective a = effective b := by
  constructor
  · rintro (hk | hs)
    · obtain ⟨r1, h1, s1, o1, p1, _⟩ := key_roundtrip_all a hoa ra ha
      obtain ⟨r2, h2, s2, o2, p2, _⟩ := key_roundtrip_all b hob rb hb
      rw [hk, h2] at h1
      injection h1 with h1
      subst h1
      rw [effective_of_fields a hoa ra ha, effective_of_fields b hob rb hb, ← s1, ← o1, ← p1, s2, o2, p2]
    · have h1 := (siteString_roundtrip a hoa hsa ra ha).1
      have h2 := (siteString_roundtrip b hob hsb rb hb).1
      rw [hs, h2] at h1
      injection h1 with h1
      have e1 : effective a = ((effectiveAddr a).scheme, (effectiveAddr a).host, (effectiveAddr a).port) := rfl
      have e2 : effective b = ((effectiveAddr b).scheme, (effectiveAddr b).host, (effectiveAddr b).port) := rfl
      rw [e1, e2, h1]
  · intro he
    right
    rw [siteString_compose a hoa hsa ra ha, siteString_compose b hob hsb rb hb, effectiveParts_eq, effectiveParts_eq, he]

/-- …so a pair of such addresses is accepted by InspectServerBlocks exactly when they denote different sites. -/
theorem inspect_pair (a b : AddrParts) (hoa : a.ok) (hob : b.ok) (hsa : a.stdScheme) (hsb : b.stdScheme)
    (ra rb : Address) (ha : standardizeAddress (composeAddr a) = .ok ra) (hb : standardizeAddress (composeAddr b) = .ok rb) :
    (∃ as, inspect [composeAddr a, composeAddr b] = .ok as) ↔ effective a ≠ effective b := by
  have hna : normalizedAddr (composeAddr a) = some ra.normalize := by simp [normalizedAddr, ha]
  have hnb : normalizedAddr (composeAddr b) = some rb.normalize := by simp [normalizedAddr, hb]
  have hall : ∀ k ∈ [composeAddr a, composeAddr b], (normalizedAddr k).isSome = true := by
    intro k hk; simp at hk; rcases hk with rfl | rfl <;> simp [hna, hnb]
  have hn : normalizedAddrs [composeAddr a, composeAddr b] = [ra.normalize, rb.normalize] := by
    simp [normalizedAddrs, hna, hnb]
  rw [(inspect_duplicates_iff _ hall).1, hn]
  have hc := clash_iff_same_site a b hoa hob hsa hsb ra rb ha hb
  simp only [List.map_cons, List.map_nil, List.nodup_cons, List.mem_singleton, List.not_mem_nil, not_false_eq_true, List.nodup_nil, and_true]
  constructor
  · intro ⟨h1, h2⟩ he
    rcases hc.mpr he with h | h
    · exact h1 h
    · exact h2 h
  · intro hne
    exact ⟨fun h => hne (hc.mp (Or.inl h)), fun h => hne (hc.mp (Or.inr h))⟩

/-- the specification's `denotes` (used by the judge of stream c15.inspect) is the effective site -/
theorem denotes_compose (a : AddrParts) (hok : a.ok) :
    denotes (composeAddr a) = ((effective a).1, (effective a).2.1, (effective a).2.2, []) := by
  have hlok := lower_ok a hok
  obtain ⟨_, h47, _, _, _, _⟩ := hostPort_facts a.lower hlok
  have hpath : readPath (composeAddr a) = [] := by
    unfold readPath
    rw [toLower_compose a hok, splitScheme_compose a.lower hlok]
    simp only
    rw [indexByte_none_of_not_mem _ 47 h47]
  have hcan : canonHost (toLower a.host) = toLower a.host := (canon_ok a hok).2
  obtain ⟨l1, l2, l3, l4, l5⟩ := ports_lits
  unfold denotes
  rw [readAddr_compose a hok, hpath]
  simp only [hcan]
  unfold effective
  simp only [l2, l3]

end Casket.AutoHTTPS
