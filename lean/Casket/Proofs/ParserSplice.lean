import Casket.Proofs.ParserRT
/-
Structure preservation across an import (C10): a run of whole directives moved into a file and replaced by
`import <file>` parses to the same block as the inline text.
-/
namespace Casket.ParserRT
open Casket.Lexer Casket.Dispenser Casket.Dispenser.Disp Casket.Parser

/-- `directives()` over the first directives of a block: one unit of fuel each, every token recorded, and the loop goes
on from the last token of the last of them -/
theorem directives_prefix (cfg : Cfg) (hf : 0 < cfg.envFuel) (hv : cfg.valid = none) (ts : List Token) (nx : Token)
    (hnx : nx.text ≠ lbrace) (post : List Token) (ds : List WDir) :
    ∀ (p : Nat) (s : PState) (fuel : Nat), At ts p s → ts.drop (p + 1) = dirToks ds ++ nx :: post →
      dirsOK ds nx = true → ts.length ≤ fuel →
      directives cfg (fuel + ds.length) s =
        directives cfg fuel { moveTo s (p + (dirToks ds).length) with btoks := foldDirs s.btoks ds } := by
  induction ds with
  | nil =>
    intro p s fuel hat _ _ _
    simp only [List.length_nil, Nat.add_zero, dirToks, List.flatMap_nil, foldDirs, List.foldl_nil, moveTo_self hat]
  | cons d ds' ih =>
    intro p s fuel hat hseg hok hfuel
    simp only [dirsOK, Bool.and_eq_true, bne_iff_ne, ne_eq] at hok
    obtain ⟨⟨⟨⟨⟨⟨hnr, hnrb⟩, hnlb⟩, hnimp⟩, hrest⟩, hnl⟩, hds⟩ := hok
    have hseg1 : ts.drop (p + 1) = (d.name :: d.rest) ++ (dirToks ds' ++ nx :: post) := by
      rw [hseg]; simp [dirToks, WDir.toks, List.flatMap_cons]
    have hname : ts[p + 1]? = some d.name := by have := getElem?_of_drop hseg1 0; simpa using this
    have hrestseg : ∀ i, i < d.rest.length → ts[p + 1 + 1 + i]? = d.rest[i]? := by
      intro i hi
      have := getElem?_of_drop hseg1 (1 + i)
      have e : p + 1 + (1 + i) = p + 1 + 1 + i := by omega
      rw [e] at this
      rw [this]
      simp only [List.cons_append, Nat.add_comm 1 i, List.getElem?_cons_succ]
      exact List.getElem?_append_left hi
    have hseg2 : ts.drop (p + 1 + 1 + d.rest.length) = dirToks ds' ++ nx :: post := by
      have := drop_drop' hseg1
      simp only [List.length_cons] at this
      have e : p + 1 + (d.rest.length + 1) = p + 1 + 1 + d.rest.length := by omega
      rw [e] at this; exact this
    have hlen : p + 1 + ((d.name :: d.rest) ++ (dirToks ds' ++ nx :: post)).length = ts.length :=
      length_of_drop hseg1 (by simp)
    simp only [List.length_append, List.length_cons] at hlen
    have hend : EndsAt ts (p + 1 + 1 + d.rest.length) (lastOf d.name d.rest) := by
      unfold EndsAt
      have h0 := getElem?_of_drop hseg2 0
      simp only [Nat.add_zero] at h0
      rw [h0, lastOf_eq]
      cases ds' with
      | nil =>
        simp only [dirToks, List.flatMap_nil, List.nil_append, List.getElem?_cons_zero]
        exact ⟨hnx, hnl⟩
      | cons d' ds'' =>
        simp only [dirToks, List.flatMap_cons, WDir.toks, List.cons_append, List.getElem?_cons_zero]
        simp only [dirsOK, Bool.and_eq_true, bne_iff_ne, ne_eq] at hds
        exact ⟨hds.1.1.1.1.2, hnl⟩
    have hat1 : At ts (p + 1) (moveTo s (p + 1)) := at_moveTo hat _
    have hvl : (s.d.setCursor ((p + 1 : Nat) : Int)).val = d.name.text := at_val hat1 hname
    have hrb : (d.name.text == rbrace) = false := by simpa using hnrb
    have himp : (d.name.text == sImport) = false := by simpa using hnimp
    rw [show fuel + (d :: ds').length = (fuel + ds'.length) + 1 by simp; omega]
    conv => lhs; unfold directives
    rw [next_some hat hname]
    simp only [Bool.not_true, Bool.false_eq_true, if_false, hvl, hrb, himp]
    have hdir := directive_rt cfg hf hv ts d (p + 1) (moveTo s (p + 1)) (fuel + ds'.length + 1) hat1 hname hrestseg hnr hrest hend (by omega)
    have hdir' : directive cfg (fuel + ds'.length + 1) { s with d := s.d.setCursor ((p + 1 : Nat) : Int) } = _ := hdir
    rw [hdir']
    simp only [Res.bind]
    have hat2 : At ts (p + 1 + d.rest.length)
        { moveTo (moveTo s (p + 1)) (p + 1 + d.rest.length) with
          btoks := d.rest.foldl (fun m t => addTok m d.name.text t) (addTok (moveTo s (p + 1)).btoks d.name.text d.name) } :=
      ⟨hat.1, rfl⟩
    have hseg2' : ts.drop (p + 1 + d.rest.length + 1) = dirToks ds' ++ nx :: post := by
      have e : p + 1 + d.rest.length + 1 = p + 1 + 1 + d.rest.length := by omega
      rw [e]; exact hseg2
    rw [ih (p + 1 + d.rest.length) _ fuel hat2 hseg2' hds hfuel]
    congr 1
    simp only [dirToks, List.flatMap_cons, WDir.toks, List.length_append, List.length_cons, foldDirs, List.foldl_cons]
    unfold moveTo Disp.setCursor
    simp only
    congr 2
    omega


theorem nextArg_true {ts : List Token} {q : Nat} {d : Disp} (h1 : d.tokens = ts) (h2 : d.cursor = (q : Int)) {a b : Token}
    (ha : ts[q]? = some a) (hb : ts[q + 1]? = some b)
    (hc : (a.file == b.file && a.line + numLineBreaks a.text == b.line) = true) :
    d.nextArg = (true, d.setCursor ((q + 1 : Nat) : Int)) := by
  have hq : q < ts.length := (List.getElem?_eq_some_iff.mp ha).1
  unfold Disp.nextArg Disp.tok? Disp.len
  rw [h1, h2]
  have e1 : ¬ ((q : Int) < 0) := by omega
  have e2 : ¬ ((q : Int) ≥ (ts.length : Int)) := by omega
  have e3 : (q : Int) + 1 = ((q + 1 : Nat) : Int) := by omega
  simp only [e1, e2, if_false, e3, tokAt_nat, ha, hb, hc, if_true]

theorem nextArg_false {ts : List Token} {q : Nat} {d : Disp} (h1 : d.tokens = ts) (h2 : d.cursor = (q : Int)) {a : Token}
    (ha : ts[q]? = some a)
    (hb : ∀ b, ts[q + 1]? = some b → (a.file == b.file && a.line + numLineBreaks a.text == b.line) = false) :
    d.nextArg = (false, d) := by
  have hq : q < ts.length := (List.getElem?_eq_some_iff.mp ha).1
  unfold Disp.nextArg Disp.tok? Disp.len
  rw [h1, h2]
  have e1 : ¬ ((q : Int) < 0) := by omega
  have e2 : ¬ ((q : Int) ≥ (ts.length : Int)) := by omega
  have e3 : (q : Int) + 1 = ((q + 1 : Nat) : Int) := by omega
  simp only [e1, e2, if_false, e3, tokAt_nat, ha]
  cases hn : ts[q + 1]? with
  | none => rfl
  | some b => simp only [hb b hn, Bool.false_eq_true, if_false]

/-- the tokens of an imported file, as `doSingleImport` returns them -/
def fileToks (name : String) (content : Bytes) : List Token := (lex content).map fun t => { t with file := name }

/-- an `import <file>` line in front of the cursor: what `doImport` does to the state (every source on the import stack
ended before the directive) -/
theorem doImport_file (cfg : Cfg) (hf : 0 < cfg.envFuel) (hcc : cfg.cycleCheck = true) (ts : List Token) (q : Nat) (s : PState)
    (imp arg : Token) (after : List Token) (name : String) (content : Bytes)
    (hat : At ts q s) (hseg : ts.drop q = imp :: arg :: after)
    (hline : (imp.file == arg.file && imp.line + numLineBreaks imp.text == arg.line) = true)
    (hnr : noRef arg.text = true) (hne : arg.text.isEmpty = false)
    (hend : ∀ b, after.head? = some b → (arg.file == b.file && arg.line + numLineBreaks arg.text == b.line) = false)
    (hsn : s.snippets = []) (hfr : popFrames after.length s.frames = [])
    (hres : resolve cfg.fs arg.text = .files [(name, content)]) (hcont : content.isEmpty = false) :
    doImport cfg s = .ok { s with d := { s.d with tokens := ts.take q ++ fileToks name content ++ after, cursor := (q : Int) },
                                  frames := [[⟨.file name, after.length⟩]] } := by
  have himp : ts[q]? = some imp := by have := getElem?_of_drop hseg 0; simpa using this
  have harg : ts[q + 1]? = some arg := by have := getElem?_of_drop hseg 1; simpa using this
  have hafter : ts.drop (q + 2) = after := by
    have := drop_drop' (a := [imp, arg]) (b := after) (by simpa using hseg)
    simpa using this
  have hnext : ∀ b, ts[q + 1 + 1]? = some b → (arg.file == b.file && arg.line + numLineBreaks arg.text == b.line) = false := by
    intro b hb
    apply hend b
    have := getElem?_of_drop hafter 0
    simp only [Nat.add_zero] at this
    rw [← hafter, List.head?_drop]; exact hb
  have hr1 := nextArg_true hat.1 hat.2 himp harg hline
  have hat1 : (s.d.setCursor ((q + 1 : Nat) : Int)).tokens = ts ∧ (s.d.setCursor ((q + 1 : Nat) : Int)).cursor = ((q + 1 : Nat) : Int) :=
    ⟨hat.1, rfl⟩
  have hr2 := nextArg_false hat1.1 hat1.2 harg hnext
  have hval : (s.d.setCursor ((q + 1 : Nat) : Int)).val = arg.text := by
    unfold Disp.val Disp.tok?; rw [hat1.1, hat1.2, tokAt_nat, harg]
  have hlen : q + 2 ≤ ts.length := by
    have := (List.getElem?_eq_some_iff.mp harg).1; omega
  unfold doImport
  simp only [hr1, Bool.not_true, Bool.false_eq_true, if_false, hval, envR_noRef' cfg hf _ hnr, Res.bind, hne, hr2]
  have hb : ¬ (((q + 1 : Nat) : Int) - 1 < 0 ∨ ((q + 1 : Nat) : Int) + 1 > (s.d.setCursor ((q + 1 : Nat) : Int)).len) := by
    have : (s.d.setCursor ((q + 1 : Nat) : Int)).len = (ts.length : Int) := by
      show ((s.d.tokens.length : Nat) : Int) = _
      rw [hat.1]
    rw [this]; omega
  simp only [setCursor_cursor, hb, if_false]
  have e1 : (((q + 1 : Nat) : Int) - 1).toNat = q := by omega
  have e2 : (((q + 1 : Nat) : Int) + 1).toNat = q + 2 := by omega
  have e3 : ((q + 1 : Nat) : Int) - 1 = (q : Int) := by omega
  simp only [setCursor_tokens, hat.1, e1, e2, e3, hafter]
  have hri : resolveImport cfg s (s.d.setCursor ((q + 1 : Nat) : Int)) arg.text after.length =
      .ok (fileToks name content, [[⟨.file name, after.length⟩]]) := by
    unfold resolveImport
    simp only [hcc, hsn, hfr, if_true, lookupSnippet, List.find?_nil, Option.map_none, hres]
    simp only [scanFiles, importing, List.any_nil, Bool.and_false, Bool.false_eq_true, if_false, hcont, importFiles,
      List.flatMap_cons, List.flatMap_nil, List.append_nil, activesOf, List.map_nil, List.sum_nil, Nat.add_zero, fileToks]
  rw [hri]
  simp only [Int.toNat_natCast]
  rfl


theorem dirsOK_append_right (a b : List WDir) (c : Token) (h : dirsOK (a ++ b) c = true) : dirsOK b c = true := by
  induction a with
  | nil => exact h
  | cons d ds ih =>
    simp only [List.cons_append, dirsOK, Bool.and_eq_true] at h
    exact ih h.2

theorem dirToks_append (a b : List WDir) : dirToks (a ++ b) = dirToks a ++ dirToks b := by
  simp [dirToks]

theorem foldDirs_append (m : List (Bytes × List Token)) (a b : List WDir) : foldDirs m (a ++ b) = foldDirs (foldDirs m a) b := by
  simp [foldDirs, List.foldl_append]

/-- one turn of the `directives()` loop on an `import` line -/
theorem directives_import_step (cfg : Cfg) (fuel : Nat) (S S2 : PState) (d1 : Disp)
    (hn : S.d.next = (true, d1)) (hv : d1.val = sImport) (hdo : doImport cfg { S with d := d1 } = .ok S2) :
    directives cfg (fuel + 1) S = directives cfg fuel (back S2) := by
  conv => lhs; unfold directives
  have hrb : (sImport == rbrace) = false := by decide
  simp only [hn, Bool.not_true, Bool.false_eq_true, if_false, hv, hrb, beq_self_eq_true, if_true, hdo, Res.bind]

/-- `directives()` over  ds1 ⏎ import file ⏎ ds2 ⏎ }  where the file holds the directives `run`: the same tokens are
recorded as for  ds1 ⏎ run ⏎ ds2 ⏎ }  written inline -/
theorem directives_splice (cfg : Cfg) (hf : 0 < cfg.envFuel) (hv : cfg.valid = none) (hcc : cfg.cycleCheck = true)
    (ts : List Token) (p : Nat) (s : PState) (fuel : Nat)
    (ds1 run ds2 : List WDir) (imp arg close : Token) (post : List Token) (name : String) (content : Bytes)
    (hat : At ts p s) (hsn : s.snippets = []) (hfr : s.frames = [])
    (hseg : ts.drop (p + 1) = dirToks ds1 ++ imp :: arg :: (dirToks ds2 ++ close :: post))
    (hclose : close.text = rbrace) (himp : imp.text = sImport)
    (hds1 : dirsOK ds1 imp = true)
    (hline : (imp.file == arg.file && imp.line + numLineBreaks imp.text == arg.line) = true)
    (hnr : noRef arg.text = true) (hne : arg.text.isEmpty = false)
    (hend : ∀ b, (dirToks ds2 ++ close :: post).head? = some b →
      (arg.file == b.file && arg.line + numLineBreaks arg.text == b.line) = false)
    (hres : resolve cfg.fs arg.text = .files [(name, content)]) (hcont : content.isEmpty = false)
    (hrun : dirToks run = fileToks name content)
    (hall : dirsOK (ds1 ++ run ++ ds2) close = true)
    (hfuel : ts.length + (fileToks name content).length + ds1.length + 2 ≤ fuel) :
    ∃ S' : PState, directives cfg fuel s = .ok S' ∧
      S'.d.tokens = ts.take (p + 1 + (dirToks ds1).length) ++ fileToks name content ++ (dirToks ds2 ++ close :: post) ∧
      S'.d.cursor = ((p + 1 + (dirToks (ds1 ++ run ++ ds2)).length : Nat) : Int) ∧
      S'.btoks = foldDirs s.btoks (ds1 ++ run ++ ds2) ∧ S'.keys = s.keys ∧ S'.eof = s.eof ∧ S'.snippets = [] := by
  obtain ⟨f1, rfl⟩ : ∃ f1, fuel = f1 + 1 + ds1.length := ⟨fuel - 1 - ds1.length, by omega⟩
  have hnx : imp.text ≠ lbrace := by rw [himp]; decide
  rw [show f1 + 1 + ds1.length = (f1 + 1) + ds1.length by rfl,
    directives_prefix cfg hf hv ts imp hnx _ ds1 p s (f1 + 1) hat hseg hds1 (by omega)]
  -- S: the state on the last token of ds1
  obtain ⟨S, hS⟩ : ∃ S : PState, S = { moveTo s (p + (dirToks ds1).length) with btoks := foldDirs s.btoks ds1 } := ⟨_, rfl⟩
  rw [← hS]
  have hSat : At ts (p + (dirToks ds1).length) S := by rw [hS]; exact ⟨hat.1, rfl⟩
  have hSsn : S.snippets = [] := by rw [hS]; exact hsn
  have hSfr : S.frames = [] := by rw [hS]; exact hfr
  have hSbt : S.btoks = foldDirs s.btoks ds1 := by rw [hS]
  have hSk : S.keys = s.keys := by rw [hS]; rfl
  have hSe : S.eof = s.eof := by rw [hS]; rfl
  clear hS
  have hsegq : ts.drop (p + (dirToks ds1).length + 1) = imp :: arg :: (dirToks ds2 ++ close :: post) := by
    have := drop_drop' hseg
    have e : p + 1 + (dirToks ds1).length = p + (dirToks ds1).length + 1 := by omega
    rw [e] at this; exact this
  have hi : ts[p + (dirToks ds1).length + 1]? = some imp := by have := getElem?_of_drop hsegq 0; simpa using this
  have hlen1 : p + (dirToks ds1).length + 3 ≤ ts.length := by
    have := congrArg List.length hsegq
    simp only [List.length_drop, List.length_cons, List.length_append] at this
    omega
  -- the import line
  obtain ⟨S1, hS1⟩ : ∃ S1 : PState, S1 = { S with d := S.d.setCursor ((p + (dirToks ds1).length + 1 : Nat) : Int) } := ⟨_, rfl⟩
  have hS1at : At ts (p + (dirToks ds1).length + 1) S1 := by rw [hS1]; exact ⟨hSat.1, rfl⟩
  have hdo := doImport_file cfg hf hcc ts (p + (dirToks ds1).length + 1) S1 imp arg _ name content hS1at hsegq hline hnr hne hend
    (by rw [hS1]; exact hSsn) (by rw [hS1]; show popFrames _ S.frames = []; rw [hSfr]; rfl) hres hcont
  have hstep := directives_import_step cfg f1 S _ _ (next_some hSat hi)
    (by rw [← himp]; exact at_val (s := S1) hS1at hi ▸ (by rw [hS1])) (by rw [← hS1]; exact hdo)
  rw [hstep]
  -- on the spliced token list
  obtain ⟨S2, hS2⟩ : ∃ S2 : PState, S2 = back { S1 with d := { S1.d with tokens := ts.take (p + (dirToks ds1).length + 1) ++ fileToks name content ++ (dirToks ds2 ++ close :: post), cursor := ((p + (dirToks ds1).length + 1 : Nat) : Int) }, frames := [[⟨ImpName.file name, (dirToks ds2 ++ close :: post).length⟩]] } := ⟨_, rfl⟩
  rw [← hS2]
  have hS2at : At (ts.take (p + (dirToks ds1).length + 1) ++ fileToks name content ++ (dirToks ds2 ++ close :: post)) (p + (dirToks ds1).length) S2 := by
    rw [hS2]
    refine ⟨rfl, ?_⟩
    simp only [back, setCursor_cursor]
    omega
  have hS2bt : S2.btoks = foldDirs s.btoks ds1 := by rw [hS2, hS1]; exact hSbt
  have hS2k : S2.keys = s.keys := by rw [hS2, hS1]; exact hSk
  have hS2e : S2.eof = s.eof := by rw [hS2, hS1]; exact hSe
  have hS2sn : S2.snippets = [] := by rw [hS2, hS1]; exact hSsn
  clear hS2 hstep hdo
  have hdrop' : (ts.take (p + (dirToks ds1).length + 1) ++ fileToks name content ++ (dirToks ds2 ++ close :: post)).drop (p + (dirToks ds1).length + 1) =
      dirToks (run ++ ds2) ++ close :: post := by
    have hl : (ts.take (p + (dirToks ds1).length + 1)).length = p + (dirToks ds1).length + 1 := by
      simp only [List.length_take]; omega
    rw [List.append_assoc, List.drop_append, hl, List.drop_of_length_le (by omega), Nat.sub_self, List.drop_zero,
      List.nil_append, dirToks_append, hrun, List.append_assoc]
  have hok2 : dirsOK (run ++ ds2) close = true := by
    rw [List.append_assoc] at hall
    exact dirsOK_append_right ds1 _ _ hall
  have hrt := directives_rt cfg hf hv _ close hclose post (run ++ ds2) (p + (dirToks ds1).length) S2 f1 hS2at hdrop' hok2
    (by have hl : (ts.take (p + (dirToks ds1).length + 1)).length = p + (dirToks ds1).length + 1 := by
          simp only [List.length_take]; omega
        simp only [List.length_append, hl, List.length_cons]
        have := congrArg List.length hsegq
        simp only [List.length_drop, List.length_cons, List.length_append] at this
        omega) (by omega)
  refine ⟨_, hrt, ?_, ?_, ?_, hS2k, hS2e, hS2sn⟩
  · have e : p + 1 + (dirToks ds1).length = p + (dirToks ds1).length + 1 := by omega
    rw [e]; exact hS2at.1
  · simp only [moveTo, setCursor_cursor, dirToks_append, List.length_append]
    congr 1; omega
  · show foldDirs S2.btoks (run ++ ds2) = _
    rw [hS2bt]; simp only [foldDirs_append, List.append_assoc]


/-- a server block written with one run of its directives moved into a file -/
structure WBlockI where
  keys : List Token
  open_ : Token
  ds1 : List WDir
  imp : Token
  arg : Token
  ds2 : List WDir
  close : Token

def WBlockI.toks (b : WBlockI) : List Token :=
  b.keys ++ b.open_ :: (dirToks b.ds1 ++ b.imp :: b.arg :: (dirToks b.ds2 ++ [b.close]))

/-- the same block with the run written inline -/
def WBlockI.inline (b : WBlockI) (run : List WDir) : WBlock := ⟨b.keys, b.open_, b.ds1 ++ run ++ b.ds2, b.close⟩

/-- the `import` line is well formed: `import` and its argument on one line, nothing else on that line, the argument a
plain non-empty word; the directives before it end before it -/
def importLineOK (b : WBlockI) (nextTok : Token) : Bool :=
  b.imp.text == sImport && dirsOK b.ds1 b.imp &&
  (b.imp.file == b.arg.file && b.imp.line + numLineBreaks b.imp.text == b.arg.line) &&
  noRef b.arg.text && !b.arg.text.isEmpty &&
  !(b.arg.file == nextTok.file && b.arg.line + numLineBreaks b.arg.text == nextTok.line)

theorem dirs_length_le (ds : List WDir) : ds.length ≤ (dirToks ds).length := by
  induction ds with
  | nil => exact Nat.le_refl _
  | cons d rest ih => simp only [dirToks, List.flatMap_cons, WDir.toks, List.length_append, List.length_cons] at ih ⊢; omega

/-- `begin()` on a block one run of whose directives sits in a file -/
theorem begin_splice (cfg : Cfg) (hf : 0 < cfg.envFuel) (hv : cfg.valid = none) (hcc : cfg.cycleCheck = true)
    (ts : List Token) (s0 : PState) (fuel : Nat) (b : WBlockI) (run : List WDir) (post : List Token) (name : String) (content : Bytes)
    (hat : At ts 0 s0) (hk0 : s0.keys = []) (hb0 : s0.btoks = []) (he0 : s0.eof = false) (hs0 : s0.snippets = []) (hf0 : s0.frames = [])
    (hseg : ts = b.toks ++ post)
    (himp : b.imp.text = sImport) (hds1 : dirsOK b.ds1 b.imp = true)
    (hl1 : (b.imp.file == b.arg.file && b.imp.line + numLineBreaks b.imp.text == b.arg.line) = true)
    (hnr : noRef b.arg.text = true) (hne : b.arg.text.isEmpty = false)
    (hend : ∀ t, (dirToks b.ds2 ++ b.close :: post).head? = some t →
        (b.arg.file == t.file && b.arg.line + numLineBreaks b.arg.text == t.line) = false)
    (hres : resolve cfg.fs b.arg.text = .files [(name, content)]) (hcont : content.isEmpty = false)
    (hrun : dirToks run = fileToks name content) (hinl : blockOK (b.inline run) = true)
    (hfuel : 2 * ts.length + (fileToks name content).length + 4 ≤ fuel) :
    ∃ S' : PState, begin cfg fuel s0 = .ok S' ∧
      S'.d.tokens = ts.take (b.keys.length + 1 + (dirToks b.ds1).length) ++ fileToks name content ++ (dirToks b.ds2 ++ b.close :: post) ∧
      S'.d.cursor = ((b.keys.length + 1 + (dirToks (b.ds1 ++ run ++ b.ds2)).length : Nat) : Int) ∧
      S'.btoks = foldDirs [] (b.ds1 ++ run ++ b.ds2) ∧ S'.keys = b.keys.map keyOf ∧ S'.eof = false := by
  simp only [blockOK, WBlockI.inline, Bool.and_eq_true, beq_iff_eq, Option.isNone_iff_eq_none] at hinl
  obtain ⟨⟨⟨⟨hk, hsn⟩, hopen⟩, hclose⟩, hdirs⟩ := hinl
  obtain ⟨k, more, hkm⟩ := keysOK_ne hk
  have hseg0 : ts.drop 0 = (k :: more) ++ b.open_ :: ((dirToks b.ds1 ++ b.imp :: b.arg :: (dirToks b.ds2 ++ [b.close])) ++ post) := by
    rw [hseg, WBlockI.toks, hkm]; simp
  have hlen0 : ts.length = b.keys.length + 1 + (dirToks b.ds1).length + 2 + (dirToks b.ds2).length + 1 + post.length := by
    rw [hseg, WBlockI.toks]; simp only [List.length_append, List.length_cons, List.length_nil]; omega
  have hd1 := dirs_length_le b.ds1
  have hne0 : ts.isEmpty = false := by
    cases hh : ts with
    | nil => rw [hh] at hlen0; simp only [List.length_nil] at hlen0; omega
    | cons _ _ => rfl
  -- addresses
  obtain ⟨s1, hs1⟩ : ∃ s1 : PState, s1 = { moveTo s0 (0 + (k :: more).length) with keys := s0.keys ++ (k :: more).map keyOf } := ⟨_, rfl⟩
  have haddr : addresses cfg fuel s0 false = .ok s1 := by
    rw [hs1]
    exact addresses_rt cfg hf ts b.open_ hopen _ more k 0 s0 fuel false hat hseg0 (hkm ▸ hk)
      (by rw [hkm] at hlen0; simp only [List.length_cons] at hlen0 ⊢; omega)
  have hs1at : At ts b.keys.length s1 := by rw [hs1, hkm]; exact ⟨hat.1, by simp [moveTo]⟩
  have hs1e : s1.eof = false := by rw [hs1]; exact he0
  have hs1k : s1.keys = b.keys.map keyOf := by rw [hs1, hk0, hkm]; rfl
  have hs1b : s1.btoks = [] := by rw [hs1]; exact hb0
  have hs1s : s1.snippets = [] := by rw [hs1]; exact hs0
  have hs1f : s1.frames = [] := by rw [hs1]; exact hf0
  clear hs1
  have hsegq : ts.drop b.keys.length = b.open_ :: ((dirToks b.ds1 ++ b.imp :: b.arg :: (dirToks b.ds2 ++ [b.close])) ++ post) := by
    have := drop_drop' hseg0
    rw [hkm]; simpa using this
  have ho : ts[b.keys.length]? = some b.open_ := by have := getElem?_of_drop hsegq 0; simpa using this
  have hsegd : ts.drop (b.keys.length + 1) = dirToks b.ds1 ++ b.imp :: b.arg :: (dirToks b.ds2 ++ b.close :: post) := by
    have := drop_drop' (a := [b.open_]) (by simpa using hsegq)
    simpa using this
  obtain ⟨S', hS', h1, h2, h3, h4, h5, _⟩ := directives_splice cfg hf hv hcc ts b.keys.length s1 fuel
    b.ds1 run b.ds2 b.imp b.arg b.close post name content hs1at hs1s hs1f hsegd
    hclose himp hds1 hl1 hnr hne hend hres hcont hrun hdirs (by omega)
  -- the closing brace under the cursor
  have hcl : S'.d.val = b.close.text := by
    have hl : (ts.take (b.keys.length + 1 + (dirToks b.ds1).length)).length = b.keys.length + 1 + (dirToks b.ds1).length := by
      simp only [List.length_take]; omega
    have hidx : (ts.take (b.keys.length + 1 + (dirToks b.ds1).length) ++ fileToks name content ++ (dirToks b.ds2 ++ b.close :: post))[b.keys.length + 1 + (dirToks (b.ds1 ++ run ++ b.ds2)).length]? = some b.close := by
      have e : b.keys.length + 1 + (dirToks (b.ds1 ++ run ++ b.ds2)).length =
          (ts.take (b.keys.length + 1 + (dirToks b.ds1).length) ++ fileToks name content ++ dirToks b.ds2).length := by
        simp only [dirToks_append, hrun, List.length_append, hl]; omega
      rw [show ts.take (b.keys.length + 1 + (dirToks b.ds1).length) ++ fileToks name content ++ (dirToks b.ds2 ++ b.close :: post) =
        (ts.take (b.keys.length + 1 + (dirToks b.ds1).length) ++ fileToks name content ++ dirToks b.ds2) ++ (b.close :: post) by simp]
      rw [e, List.getElem?_append_right (Nat.le_refl _), Nat.sub_self]
      rfl
    unfold Disp.val Disp.tok?
    rw [h1, h2, tokAt_nat, hidx]
  refine ⟨S', ?_, h1, h2, ?_, ?_, ?_⟩
  · unfold begin
    rw [hat.1, hne0]
    simp only [Bool.false_eq_true, if_false, haddr, Res.bind, hs1e, hs1k, hsn]
    unfold blockContents
    rw [at_val hs1at ho, hopen]
    simp only [bne_self_eq_false, Bool.false_eq_true, if_false, Bool.not_false, Bool.true_and, hS', Res.bind, hcl, hclose]
  · rw [h3, hs1b]
  · rw [h4, hs1k]
  · rw [h5, hs1e]

theorem parse_splice (cfg : Cfg) (hf : 0 < cfg.envFuel) (hv : cfg.valid = none) (hcc : cfg.cycleCheck = true)
    (fn : String) (b : WBlockI) (run : List WDir) (bs : List WBlock) (name : String) (content : Bytes)
    (hline : importLineOK b ((dirToks b.ds2 ++ [b.close]).head?.getD b.close) = true)
    (hres : resolve cfg.fs b.arg.text = .files [(name, content)]) (hcont : content.isEmpty = false)
    (hrun : dirToks run = fileToks name content)
    (hinl : blockOK (b.inline run) = true) (hbs : ∀ x ∈ bs, blockOK x = true) (fuel : Nat)
    (hfuel : 2 * (b.toks ++ flatten bs).length + 2 * (fileToks name content).length + 6 ≤ fuel) :
    parseTokens cfg fuel fn (b.toks ++ flatten bs) = .ok (expectedBlock (b.inline run) :: bs.map expectedBlock) := by
  have hline' := hline
  simp only [importLineOK, Bool.and_eq_true, Bool.not_eq_true'] at hline'
  obtain ⟨⟨⟨⟨⟨himp, hds1⟩, hl1⟩, hnr⟩, hne⟩, hendb⟩ := hline'
  have himp' : b.imp.text = sImport := by simpa using himp
  have hl1' : (b.imp.file == b.arg.file && b.imp.line + numLineBreaks b.imp.text == b.arg.line) = true := by
    simp only [Bool.and_eq_true]; exact hl1
  have hk : ∃ k more, b.keys = k :: more := by
    have := hinl
    simp only [blockOK, WBlockI.inline, Bool.and_eq_true] at this
    exact keysOK_ne this.1.1.1.1
  obtain ⟨k, more, hkm⟩ := hk
  obtain ⟨ts, hts⟩ : ∃ ts, ts = b.toks ++ flatten bs := ⟨_, rfl⟩
  rw [← hts] at hfuel ⊢
  obtain ⟨f, rfl⟩ : ∃ f, fuel = f + 1 := ⟨fuel - 1, by omega⟩
  have hk0 : ts[0]? = some k := by rw [hts, WBlockI.toks, hkm]; rfl
  have hend : ∀ t, (dirToks b.ds2 ++ b.close :: flatten bs).head? = some t →
      (b.arg.file == t.file && b.arg.line + numLineBreaks b.arg.text == t.line) = false := by
    intro t ht
    have : (dirToks b.ds2 ++ [b.close]).head?.getD b.close = t := by
      cases hd : dirToks b.ds2 with
      | nil => rw [hd] at ht; simp at ht ⊢; exact ht
      | cons x xs => rw [hd] at ht; simp at ht ⊢; exact ht
    rw [this] at hendb; exact hendb
  unfold parseTokens parseAll
  have hnx : (Disp.new fn ts).next = (true, (Disp.new fn ts).setCursor ((0 : Nat) : Int)) :=
    next_pred (s := { d := Disp.new fn ts }) rfl (by simp [Disp.new]) hk0
  simp only [hnx, Bool.not_true, Bool.false_eq_true, if_false]
  obtain ⟨S', hS', h1, h2, h3, h4, h5⟩ := begin_splice cfg hf hv hcc ts
    { d := (Disp.new fn ts).setCursor ((0 : Nat) : Int), keys := [], btoks := [] } (f + 1) b run (flatten bs) name content
    ⟨rfl, rfl⟩ rfl rfl rfl rfl rfl hts himp' hds1 hl1' hnr (by simpa using hne) hend hres hcont hrun hinl (by omega)
  rw [hS']
  simp only [Res.bind]
  have hkne : S'.keys.isEmpty = false := by rw [h4, hkm]; rfl
  simp only [hkne, Bool.false_eq_true, if_false, List.nil_append]
  -- the blocks after it, on the spliced token list
  obtain ⟨ts', hts'⟩ : ∃ ts', ts' = ts.take (b.keys.length + 1 + (dirToks b.ds1).length) ++ fileToks name content ++ (dirToks b.ds2 ++ b.close :: flatten bs) := ⟨_, rfl⟩
  have hlen0 : ts.length = b.keys.length + 1 + (dirToks b.ds1).length + 2 + (dirToks b.ds2).length + 1 + (flatten bs).length := by
    rw [hts, WBlockI.toks]; simp only [List.length_append, List.length_cons, List.length_nil]; omega
  have hl : (ts.take (b.keys.length + 1 + (dirToks b.ds1).length)).length = b.keys.length + 1 + (dirToks b.ds1).length := by
    simp only [List.length_take]; omega
  have hlen' : ts'.length = b.keys.length + 1 + (dirToks b.ds1).length + (fileToks name content).length + (dirToks b.ds2).length + 1 + (flatten bs).length := by
    rw [hts']; simp only [List.length_append, hl, List.length_cons]; omega
  have hdrop : ts'.drop (b.keys.length + 1 + (dirToks (b.ds1 ++ run ++ b.ds2)).length + 1) = flatten bs := by
    have e : b.keys.length + 1 + (dirToks (b.ds1 ++ run ++ b.ds2)).length + 1 =
        (ts.take (b.keys.length + 1 + (dirToks b.ds1).length) ++ fileToks name content ++ dirToks b.ds2 ++ [b.close]).length := by
      simp only [dirToks_append, hrun, List.length_append, hl, List.length_cons, List.length_nil]; omega
    rw [hts', show ts.take (b.keys.length + 1 + (dirToks b.ds1).length) ++ fileToks name content ++ (dirToks b.ds2 ++ b.close :: flatten bs) =
      (ts.take (b.keys.length + 1 + (dirToks b.ds1).length) ++ fileToks name content ++ dirToks b.ds2 ++ [b.close]) ++ flatten bs by simp]
    rw [e, List.drop_left]
  have hrest := parseAll_rt cfg hf hv ts' bs (b.keys.length + 1 + (dirToks (b.ds1 ++ run ++ b.ds2)).length + 1) S'
    [⟨S'.keys, S'.btoks⟩] f (by rw [h1, hts']) (by rw [h2]; omega) h5 hdrop hbs
    (by rw [hlen']; simp only [dirToks_append, hrun, List.length_append]; omega)
    (by rw [hlen']; simp only [dirToks_append, hrun, List.length_append]; omega)
  rw [hrest, h3, h4]
  rfl


/-! ### "the same blocks", up to where each token was written -/

/-- a server block without the tokens' file/line: keys, and per directive the token texts -/
def textsOf (sb : ServerBlock) : List Bytes × List (Bytes × List Bytes) :=
  (sb.keys, sb.tokens.map fun p => (p.1, p.2.map (·.text)))

def addT (m : List (Bytes × List Bytes)) (k : Bytes) (t : Bytes) : List (Bytes × List Bytes) :=
  if m.any (fun p => p.1 == k) then m.map (fun p => if p.1 == k then (p.1, p.2 ++ [t]) else p) else m ++ [(k, [t])]

def projT (m : List (Bytes × List Token)) : List (Bytes × List Bytes) := m.map fun p => (p.1, p.2.map (·.text))

theorem projT_addTok (m : List (Bytes × List Token)) (k : Bytes) (t : Token) : projT (addTok m k t) = addT (projT m) k t.text := by
  unfold addTok addT projT
  have hany : (m.map fun p => (p.1, p.2.map (·.text))).any (fun p => p.1 == k) = m.any (fun p => p.1 == k) := by
    rw [List.any_map]; rfl
  rw [hany]
  split
  · simp only [List.map_map]
    apply List.map_congr_left
    intro p _
    simp only [Function.comp]
    split <;> simp
  · simp

/-- the texts of a directive -/
def dirTexts (d : WDir) : Bytes × List Bytes := (d.name.text, d.rest.map (·.text))

theorem projT_foldDirs (m : List (Bytes × List Token)) (ds ds' : List WDir) (h : ds.map dirTexts = ds'.map dirTexts) :
    ∀ m', projT m = projT m' → projT (foldDirs m ds) = projT (foldDirs m' ds') := by
  induction ds generalizing ds' m with
  | nil =>
    cases ds' with
    | nil => intro m' hm; exact hm
    | cons _ _ => simp at h
  | cons d rest ih =>
    cases ds' with
    | nil => simp at h
    | cons d' rest' =>
      simp only [List.map_cons, List.cons.injEq, dirTexts, Prod.mk.injEq] at h
      obtain ⟨⟨hn, hr⟩, hrest⟩ := h
      intro m' hm
      simp only [foldDirs, List.foldl_cons]
      apply ih (m := _) rest' hrest
      -- the inner fold over the directive's tokens
      have hinner : ∀ (l l' : List Token) (a a' : List (Bytes × List Token)), l.map (·.text) = l'.map (·.text) → projT a = projT a' →
          projT (l.foldl (fun m t => addTok m d.name.text t) a) = projT (l'.foldl (fun m t => addTok m d'.name.text t) a') := by
        intro l
        induction l with
        | nil => intro l' a a' hl ha; cases l' with
          | nil => exact ha
          | cons _ _ => simp at hl
        | cons t ts ihl =>
          intro l' a a' hl ha
          cases l' with
          | nil => simp at hl
          | cons t' ts' =>
            simp only [List.map_cons, List.cons.injEq] at hl
            simp only [List.foldl_cons]
            apply ihl ts' _ _ hl.2
            rw [projT_addTok, projT_addTok, ha, hl.1, hn]
      apply hinner d.rest d'.rest _ _ hr
      rw [projT_addTok, projT_addTok, hm, hn]

theorem textsOf_expected (b : WBlockI) (run run' : List WDir) (h : run.map dirTexts = run'.map dirTexts) :
    textsOf (expectedBlock (b.inline run)) = textsOf (expectedBlock (b.inline run')) := by
  unfold textsOf expectedBlock WBlockI.inline
  simp only [Prod.mk.injEq, true_and]
  have := projT_foldDirs [] (b.ds1 ++ run ++ b.ds2) (b.ds1 ++ run' ++ b.ds2) (by simp [h]) [] rfl
  exact this

end Casket.ParserRT
