import Casket.Spec.TplPool
/-
Proofs for the templates/pool model (C03): the pooled buffer is unobservable because it is Reset
right after `Get`; hence a sequence of requests is answered request by request, and no response
to a request without valid credentials carries a token of a covered file.
-/
namespace Casket.TplPoolProofs
open Casket.Path Casket.Chain Casket.TplPool Casket.TplPoolSpec

/-- with the Reset after Get, response AND the buffer handed back do not depend on what the
buffer held -/
theorem serveWith_buffer_irrelevant (fuel : Nat) (s : TSite) (b : Page) (r : TReq) :
    serveWith true fuel s b r = serveWith true fuel s [] r := by
  simp [serveWith, tplServe]

theorem run_eq_map (fuel : Nat) (s : TSite) (steps : List (TReq × Option Nat)) :
    ∀ pool, run true fuel s pool steps = steps.map fun st => serveFresh fuel s st.1 := by
  induction steps with
  | nil => intro pool; simp [run]
  | cons st rest ih =>
    intro pool
    obtain ⟨r, ch⟩ := st
    simp only [run, List.map_cons]
    rw [serveWith_buffer_irrelevant fuel s (takeBuf pool ch).1 r]
    cases h : (serveWith true fuel s [] r).2 with
    | none => simp only [ih]; rfl
    | some b' => simp only [ih]; rfl

/-! ### safety of one request -/

/-- literal tokens identify their file -/
def TokensUnique (s : TSite) : Prop :=
  ∀ f ∈ s.files, ∀ g ∈ s.files, ∀ t, Item.lit t ∈ f.2 → Item.lit t ∈ g.2 → f.1 = g.1

/-- no file that some credentials may see includes a file the same credentials may not see -/
def IncludeSafe (s : TSite) : Prop :=
  ∀ f ∈ s.files, ∀ n, Item.incl n ∈ f.2 → ∀ creds, covered s creds n = true → covered s creds f.1 = true

theorem lookup_mem {files : List (Bytes × Page)} {p : Bytes} {pg : Page} (h : lookup files p = some pg) :
    (p, pg) ∈ files := by
  unfold lookup at h
  cases hf : files.find? (fun f => f.1 = p) with
  | none => simp [hf] at h
  | some f =>
    simp [hf] at h
    have hm := List.mem_of_find?_eq_some hf
    have hp := List.find?_some hf
    simp at hp
    subst h; subst hp
    exact hm

theorem offends_false_of (s : TSite) (creds : Option (Bytes × Bytes)) (t : Nat)
    (h : ∀ f ∈ s.files, Item.lit t ∈ f.2 → covered s creds f.1 = false) : offends s creds t = false := by
  unfold offends owners
  rw [List.any_eq_false]
  intro p hp
  simp only [List.mem_map, List.mem_filter] at hp
  obtain ⟨f, ⟨hf, hc⟩, rfl⟩ := hp
  have := h f hf (by simpa using hc)
  simp [this]

/-- a page whose own tokens and includes are all visible to these credentials -/
def Good (s : TSite) (creds : Option (Bytes × Bytes)) (p : Page) : Prop :=
  (∀ t, Item.lit t ∈ p → offends s creds t = false) ∧ (∀ n, Item.incl n ∈ p → covered s creds n = false)

theorem good_tail {s : TSite} {creds : Option (Bytes × Bytes)} {i : Item} {p : Page} (h : Good s creds (i :: p)) :
    Good s creds p :=
  ⟨fun t ht => h.1 t (List.mem_cons_of_mem _ ht), fun n hn => h.2 n (List.mem_cons_of_mem _ hn)⟩

theorem good_of_file (s : TSite) (hu : TokensUnique s) (hi : IncludeSafe s) (creds : Option (Bytes × Bytes))
    (n : Bytes) (pg : Page) (hl : lookup s.files n = some pg) (hc : covered s creds n = false) : Good s creds pg := by
  have hm := lookup_mem hl
  constructor
  · intro t ht
    apply offends_false_of
    intro g hg hgt
    have := hu (n, pg) hm g hg t ht hgt
    simp at this
    rw [← this]; exact hc
  · intro m hmi
    cases hcm : covered s creds m with
    | false => rfl
    | true =>
      have := hi (n, pg) hm m hmi creds hcm
      simp at this
      rw [this] at hc; cases hc

theorem exec_safe (s : TSite) (hu : TokensUnique s) (hi : IncludeSafe s) (creds : Option (Bytes × Bytes)) :
    ∀ fuel p, Good s creds p → ∀ t ∈ (exec s.files fuel p).1, offends s creds t = false := by
  intro fuel
  induction fuel with
  | zero => intro p _ t ht; simp [exec] at ht
  | succ fuel ih =>
    intro p hg t ht
    cases p with
    | nil => simp [exec] at ht
    | cons i rest =>
      cases i with
      | lit u =>
        simp only [exec, List.mem_cons] at ht
        cases ht with
        | inl h => subst h; exact hg.1 _ (List.mem_cons_self ..)
        | inr h => exact ih rest (good_tail hg) t h
      | fail => simp [exec] at ht
      | malformed => simp [exec] at ht
      | incl n =>
        simp only [exec] at ht
        cases hl : lookup s.files n with
        | none => simp [hl] at ht
        | some pg =>
          simp only [hl] at ht
          have hcn := hg.2 n (List.mem_cons_self ..)
          have hgp := good_of_file s hu hi creds n pg hl hcn
          by_cases hp : parses pg = true
          · simp only [hp, Bool.not_true, Bool.false_eq_true, if_false] at ht
            by_cases hr : (exec s.files fuel pg).2 = true
            · simp only [hr, if_true, List.mem_append] at ht
              cases ht with
              | inl h => exact ih pg hgp t h
              | inr h => exact ih rest (good_tail hg) t h
            · simp [hr] at ht
          · simp [hp] at ht

/-- one request on its own: no token of a covered file -/
theorem serveFresh_safe (fuel : Nat) (s : TSite) (hu : TokensUnique s) (hi : IncludeSafe s) (r : TReq) :
    ∀ t ∈ tokensOf (serveFresh fuel s r), offends s r.creds t = false := by
  intro t ht
  unfold serveFresh serveWith at ht
  by_cases ha : needsAuth s.auth r.path r.creds = true
  · simp [ha, tokensOf] at ht
  · by_cases hn : isInternal s.internal r.path = true
    · simp [ha, hn, tokensOf] at ht
    · have hc : covered s r.creds r.path = false := by simp [covered, ha, hn]
      simp only [ha, hn, Bool.false_eq_true, if_false] at ht
      unfold tplServe at ht
      cases hl : lookup s.files r.path with
      | none => cases hf : firstRule s.rules r.path <;> simp [hl, hf, tokensOf] at ht
      | some src =>
        have hg := good_of_file s hu hi r.creds r.path src hl hc
        have hraw : ∀ u ∈ tokensOf (.raw src), offends s r.creds u = false := by
          intro u hu'
          simp only [tokensOf, List.mem_filterMap] at hu'
          obtain ⟨i, him, hiu⟩ := hu'
          cases i <;> simp at hiu
          subst hiu; exact hg.1 _ him
        cases hf : firstRule s.rules r.path with
        | none => simp only [hl, hf] at ht; exact hraw t ht
        | some rule =>
          simp only [hl, hf, if_true, List.nil_append] at ht
          by_cases he : rule.exts.contains (pathExt r.path) = true
          · simp only [he, Bool.not_true, Bool.false_eq_true, if_false] at ht
            by_cases hp : parses src = true
            · simp only [hp, Bool.not_true, Bool.false_eq_true, if_false] at ht
              by_cases hx : (exec s.files fuel src).2 = true
              · simp only [hx, if_true, tokensOf] at ht
                exact exec_safe s hu hi r.creds fuel src hg t ht
              · simp [hx, tokensOf] at ht
            · simp [hp, tokensOf] at ht
          · simp only [he] at ht
            simp only [Bool.not_false, if_true] at ht
            exact hraw t ht

theorem stepVerdict_ok (fuelJ : Nat) (s : TSite) (r : TReq) (toks : List Nat)
    (h : ∀ t ∈ toks, offends s r.creds t = false) : stepVerdict fuelJ s r toks = "ok" := by
  unfold stepVerdict
  have : toks.find? (offends s r.creds) = none := by
    rw [List.find?_eq_none]; intro t ht; simp [h t ht]
  simp [this]

theorem verdict_ok (fuelJ : Nat) (s : TSite) (obs : List (TReq × List Nat))
    (h : ∀ o ∈ obs, stepVerdict fuelJ s o.1 o.2 = "ok") : verdict fuelJ s obs = "ok" := by
  unfold verdict
  have : (obs.map fun o => stepVerdict fuelJ s o.1 o.2).find? (· ≠ "ok") = none := by
    rw [List.find?_eq_none]
    intro v hv
    simp only [List.mem_map] at hv
    obtain ⟨o, ho, rfl⟩ := hv
    simp [h o ho]
  rw [this]; rfl

theorem observed_map (fuel : Nat) (s : TSite) (steps : List (TReq × Option Nat)) :
    observed steps (steps.map fun st => serveFresh fuel s st.1)
      = steps.map fun st => (st.1, tokensOf (serveFresh fuel s st.1)) := by
  unfold observed
  induction steps with
  | nil => rfl
  | cons st rest ih => simp only [List.map_cons, List.zip_cons_cons, ih]

/-- the whole sequence, any pool, any choice of buffers -/
theorem run_verdict_ok (fuel fuelJ : Nat) (s : TSite) (hu : TokensUnique s) (hi : IncludeSafe s)
    (pool : List Page) (steps : List (TReq × Option Nat)) :
    verdict fuelJ s (observed steps (run true fuel s pool steps)) = "ok" := by
  rw [run_eq_map, observed_map]
  apply verdict_ok
  intro o ho
  simp only [List.mem_map] at ho
  obtain ⟨st, _, rfl⟩ := ho
  exact stepVerdict_ok fuelJ s st.1 _ (serveFresh_safe fuel s hu hi st.1)

end Casket.TplPoolProofs
