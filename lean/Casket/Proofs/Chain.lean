import Casket.Proofs.FileServe
import Casket.Spec.Chain
/-
Helper lemmas for C03 (core Lean only).

  §1  Path.Matches decides the same on a rooted spelling and on the canonical URL
  §2  tryfiles / rewrite / ext keep the request path rooted
  §3  which path a 200 file body was opened under
  §4  basicauth and internal in front of the content handlers; the direct-request theorem
  §5  the partial no-disclosure theorem (hypotheses exclude exactly the known findings)
-/
namespace Casket.ChainProofs
open Casket.Path Casket.FS Casket.FileServe Casket.Chain Casket.ChainSpec Casket.FileServeProofs Casket.FileServeSpec

/-! ## §1 one spelling, one decision: Path.Matches on a rooted path and on its canonical form -/

theorem hasSuffix_singleton (s : Bytes) (c : UInt8) : hasSuffix s [c] = true ↔ s.getLast? = some c := by
  unfold hasSuffix
  rw [List.getLast?_eq_head?_reverse]
  cases s.reverse with
  | nil => simp [hasPrefix]
  | cons x xs => simp [hasPrefix]

theorem getLast?_joinSlash {E : List Bytes} (hE : E ≠ []) (h : NormalSegs E) :
    (joinSlash E).getLast? ≠ some slash := by
  induction E with
  | nil => exact absurd rfl hE
  | cons s rest ih =>
    have hs := h s (by simp)
    cases rest with
    | nil =>
      simp only [joinSlash]
      intro hc
      exact hs.2.2.2 (List.mem_of_getLast? hc)
    | cons s2 r2 =>
      simp only [joinSlash]
      have := ih (by simp) (fun x hx => h x (by simp [hx]))
      rw [List.getLast?_append]
      intro hc
      cases hj : (slash :: joinSlash (s2 :: r2)).getLast? with
      | none => simp at hj
      | some x =>
        rw [hj] at hc
        simp only [Option.some_or, Option.some.injEq] at hc
        subst hc
        -- the last byte of slash :: J is the last byte of J when J is not empty
        have hne : joinSlash (s2 :: r2) ≠ [] := by
          have h2 := h s2 (by simp)
          cases r2 with
          | nil => simpa [joinSlash] using h2.1
          | cons _ _ => simp only [joinSlash]; intro hh; exact h2.1 (List.append_eq_nil_iff.mp hh).1
        cases hJ : joinSlash (s2 :: r2) with
        | nil => exact hne hJ
        | cons y ys =>
          rw [hJ] at hj this
          rw [List.getLast?_cons_cons] at hj
          exact this hj

/-- `Path.Matches` decides the same for a rooted request path that does not end in a slash and
names something below the root, and for the canonical URL of what it names. -/
theorem pathMatches_canonical (t base : Bytes) (hlast : (slash :: t).getLast? ≠ some slash)
    (hne : jailElems (slash :: t) ≠ []) :
    pathMatches (slash :: t) base = pathMatches (slash :: joinSlash (jailElems (slash :: t))) base := by
  have hn := jailElems_normal (slash :: t)
  have h1 : hasSuffix (slash :: t) [slash] = false := by
    cases hh : hasSuffix (slash :: t) [slash] with
    | false => rfl
    | true => exact absurd ((hasSuffix_singleton _ _).mp hh) hlast
  have h2 : hasSuffix (slash :: joinSlash (jailElems (slash :: t))) [slash] = false := by
    cases hh : hasSuffix (slash :: joinSlash (jailElems (slash :: t))) [slash] with
    | false => rfl
    | true =>
      have := (hasSuffix_singleton _ _).mp hh
      have hj := getLast?_joinSlash hne hn
      cases hJ : joinSlash (jailElems (slash :: t)) with
      | nil =>
        cases hE : jailElems (slash :: t) with
        | nil => exact absurd hE hne
        | cons s r =>
          rw [hE] at hJ hn
          have hs := hn s (by simp)
          cases r with
          | nil => simp [joinSlash] at hJ; exact absurd hJ hs.1
          | cons _ _ => simp [joinSlash] at hJ
      | cons y ys =>
        rw [hJ] at this hj
        rw [List.getLast?_cons_cons] at this
        exact absurd this hj
  unfold pathMatches
  simp only [h1, h2, Bool.false_eq_true, if_false]
  rw [clean_rooted, clean_canon _ hn]


/-! ## §2 the rewriting stages keep the request path rooted -/

def Rooted (p : Bytes) : Prop := ∃ t, p = slash :: t

theorem candidate_rooted (orig without : Bytes) (tpl : Template) : Rooted (candidate orig without tpl).1 := by
  unfold candidate
  simp only []
  rw [clean_rooted]
  split
  · exact ⟨_, rfl⟩
  · exact ⟨_, rfl⟩

theorem pickTarget_rooted (fs : FS) (root : List Bytes) (orig without : Bytes) (to : List Template) (t0 q0 : Bytes)
    (h0 : Rooted t0 ∨ to ≠ []) : Rooted (pickTarget fs root orig without to t0 q0).1 := by
  induction to generalizing t0 q0 with
  | nil =>
    rcases h0 with h | h
    · simpa [pickTarget] using h
    · exact absurd rfl h
  | cons tpl rest ih =>
    unfold pickTarget
    simp only []
    split
    · exact candidate_rooted orig without tpl
    · exact ih _ _ (Or.inl (candidate_rooted orig without tpl))

theorem rewriteTo_rooted (fs : FS) (root : List Bytes) (orig without : Bytes) (to : List Template) (u : Url)
    (hu : Rooted u.path) (hto : to ≠ []) : Rooted (rewriteTo fs root orig without to u).path := by
  unfold rewriteTo
  simp only []
  obtain ⟨t, ht⟩ := pickTarget_rooted fs root orig without to [] [] (Or.inr hto)
  rw [ht]
  split
  · exact hu
  · have h35 : slash ≠ (35 : UInt8) := by decide
    rw [cut_cons_ne (sep := 35) t h35]
    simp only []
    split
    · exact hu
    · rw [unescape_slash]
      cases hx : unescape false (cut 35 t).1 with
      | none => simpa using hu
      | some p => exact ⟨p, by simp⟩

/-- every rewrite target list of the configuration is non-empty (setup guarantees it) -/
def TargetsNonEmpty (cs : ChainSite) : Prop :=
  (∀ tf, cs.tryfiles = some tf → tf.to ≠ []) ∧ ∀ r ∈ cs.rewrites, r.to ≠ []

theorem selectRule_mem (p : Bytes) (rules : List RewriteRule) (best : Option RewriteRule) (r : RewriteRule)
    (h : selectRule p rules best = some r) : r ∈ rules ∨ best = some r := by
  induction rules generalizing best with
  | nil => right; simpa [selectRule] using h
  | cons x rest ih =>
    unfold selectRule at h
    split at h
    · split at h
      · rcases ih _ h with h1 | h1
        · left; simp [h1]
        · left; simp only [Option.some.injEq] at h1; simp [h1]
      · split at h
        · rcases ih _ h with h1 | h1
          · left; simp [h1]
          · left; simp only [Option.some.injEq] at h1; simp [h1]
        · rcases ih _ h with h1 | h1
          · left; simp [h1]
          · right; exact h1
    · rcases ih _ h with h1 | h1
      · left; simp [h1]
      · right; exact h1

/-- basicauth, internal and the content handlers always see a rooted path. -/
theorem authUrl_rooted (fs : FS) (cs : ChainSite) (orig : Bytes) (u : Url) (hu : Rooted u.path)
    (hw : TargetsNonEmpty cs) : Rooted (authUrl fs cs orig u).path := by
  have h1 : Rooted (tryfilesStep fs cs orig u).path := by
    unfold tryfilesStep
    split
    · exact hu
    · rename_i tf htf
      split
      · exact hu
      · exact rewriteTo_rooted _ _ _ _ _ _ hu (hw.1 tf htf)
  have h2 : Rooted (rewriteStep fs cs orig (tryfilesStep fs cs orig u)).path := by
    unfold rewriteStep
    split
    · exact h1
    · rename_i r hr
      rcases selectRule_mem _ _ _ _ hr with hm | hm
      · exact rewriteTo_rooted _ _ _ _ _ _ h1 (hw.2 r hm)
      · simp at hm
  unfold authUrl extStep
  split
  · split
    · exact h2
    · split
      · obtain ⟨t, ht⟩ := h2
        rename_i e _
        exact ⟨t ++ e, by simp [ht]⟩
      · exact h2
  · exact h2


/-! ## §3 where a 200 file body comes from, path by path -/

/-- paths `serveFile` may open instead of the request path `p`: index pages of `p`, and
precompressed siblings of `p` or of such an index page -/
def derivedPaths (site : Site) (p : Bytes) : List Bytes :=
  let idx := site.indexPages.map (join2 p)
  idx ++ (p :: idx).flatMap fun q => site.encodings.map fun ne => q ++ ne.2

theorem staticServe_file_inv {fs : FS} {site : Site} {r : Req} {ino : Nat} {enc : Option Bytes}
    (h : staticServe fs site r = .file ino enc) :
    ∃ d, dirOpen fs site.root r.url.path = .ok d ∧
      (d.isDir = false → (fullPath site r.url.path).getLast? ≠ some slash) ∧
      staticContent fs site r d r.url.path = .file ino enc := by
  unfold staticServe at h
  split at h
  · simp at h
  · simp only [] at h
    split at h
    · simp at h
    · simp at h
    · rename_i d hd
      split at h
      · simp at h
      · split at h
        · simp at h
        · rename_i h1 h2
          refine ⟨d, hd, ?_, h⟩
          intro hf hl
          exact h2 ⟨by simp [hf], hl⟩

theorem staticContent_file_entry {fs : FS} {site : Site} {r : Req} {d : Entry} {p : Bytes} {ino : Nat} {enc : Option Bytes}
    (hd : dirOpen fs site.root p = .ok d) (h : staticContent fs site r d p = .file ino enc) :
    ∃ q e, dirOpen fs site.root q = .ok e ∧ e.isDir = false ∧ e.ino = ino ∧
      ((q = p ∧ e = d) ∨ q ∈ derivedPaths site p) := by
  unfold staticContent at h
  simp only [] at h
  -- the entry and path after index substitution
  have hres : (resolveIndex fs site d p = (d, p)) ∨
      (∃ ip ∈ site.indexPages, (resolveIndex fs site d p).2 = join2 p ip ∧
        dirOpen fs site.root (join2 p ip) = .ok (resolveIndex fs site d p).1) := by
    unfold resolveIndex
    split
    · split
      · rename_i ep hfi
        obtain ⟨e0, q0⟩ := ep
        obtain ⟨ip, hm, hq, hop⟩ := findIndex_some hfi
        right; exact ⟨ip, hm, hq, hq ▸ hop⟩
      · left; rfl
    · left; rfl
  split at h
  · simp at h
  · rename_i hnot
    simp only [Bool.or_eq_true, not_or, Bool.not_eq_true] at hnot
    split at h
    · rename_i ne hfs
      obtain ⟨name, e⟩ := ne
      obtain ⟨ext, hmem, _, hopen, hfile, _⟩ := findSibling_some hfs
      simp only [Resp.file.injEq] at h
      refine ⟨_, e, hopen, hfile, h.1, Or.inr ?_⟩
      unfold derivedPaths
      simp only [List.mem_append, List.mem_flatMap, List.mem_map, List.mem_cons]
      right
      rcases hres with hr | ⟨ip, hm, hq, _⟩
      · exact ⟨p, Or.inl rfl, (name, ext), hmem, by rw [hr]⟩
      · exact ⟨join2 p ip, Or.inr ⟨ip, hm, rfl⟩, (name, ext), hmem, by rw [hq]⟩
    · simp only [Resp.file.injEq] at h
      rcases hres with hr | ⟨ip, hm, hq, hop⟩
      · rw [hr] at h hnot
        exact ⟨p, d, hd, hnot.1, h.1, Or.inl ⟨rfl, rfl⟩⟩
      · refine ⟨join2 p ip, _, hop, hnot.1, h.1, Or.inr ?_⟩
        unfold derivedPaths
        simp only [List.mem_append, List.mem_map]
        left; exact ⟨ip, hm, rfl⟩


/-! ## §4 basicauth / internal in front of the content handlers -/

/-- basicauth answers 401 or internal answers 404 for this path -/
def covered (cs : ChainSite) (creds : Option (Bytes × Bytes)) (p : Bytes) : Bool :=
  needsAuth cs.auth p creds || isInternal cs.internal p

theorem guarded_served_inv {fs : FS} {cs : ChainSite} {r : CReq} {u : Url} {resp : Resp}
    (h : guarded fs cs r u = .served resp) :
    resp = .status 404 ∨
      (isInternal cs.internal u.path = false ∧ (r.method = mOPTIONS ∨ needsAuth cs.auth u.path r.creds = false) ∧
        browseServe fs cs.site { method := r.method, url := u, acceptEncoding := r.acceptEncoding } = resp) := by
  unfold guarded at h
  split at h
  · simp at h
  · rename_i hna
    split at h
    · left; simpa using h.symm
    · rename_i hint
      split at h
      · simp at h
      · right
        refine ⟨by simpa using hint, ?_, by simpa using h⟩
        by_cases hm : r.method = mOPTIONS
        · exact Or.inl hm
        · right
          cases hn : needsAuth cs.auth u.path r.creds with
          | false => rfl
          | true => exact absurd ⟨hm, hn⟩ hna

theorem staticServe_content_method {fs : FS} {site : Site} {r : Req} {ino : Nat} {enc : Option Bytes}
    (h : staticServe fs site r = .file ino enc) : r.method = mGET ∨ r.method = mHEAD := by
  unfold staticServe at h
  split at h
  · simp at h
  · rename_i hm
    by_cases h1 : r.method = mGET
    · exact Or.inl h1
    · by_cases h2 : r.method = mHEAD
      · exact Or.inr h2
      · exact absurd ⟨h1, h2⟩ hm

theorem browseServe_archive_method {fs : FS} {site : Site} {r : Req} {items : List Item}
    (h : browseServe fs site r = .archive items) : r.method = mGET ∨ r.method = mHEAD := by
  unfold browseServe at h
  split at h
  · exact absurd h staticServe_not_archive
  · split at h
    · exact absurd h staticServe_not_archive
    · split at h
      · exact absurd h staticServe_not_archive
      · split at h
        · assumption
        · split at h
          · simp at h
          · exact absurd h staticServe_not_archive

theorem get_head_ne_options {m : Bytes} (h : m = mGET ∨ m = mHEAD) : m ≠ mOPTIONS := by
  rcases h with h | h <;> rw [h] <;> decide

theorem canonURL_of_open {fs : FS} {site : Site} {q : Bytes} {e : Entry}
    (hroot : NormalSegs site.root) (ho : dirOpen fs site.root q = .ok e) :
    canonURL site e = slash :: joinSlash (jailElems q) := by
  unfold canonURL
  rw [dirOpen_path hroot ho, List.drop_left]

/-- Direct requests, every spelling: when the content handlers serve the regular file that the
(final, rooted) request path itself names, basicauth did not demand credentials for that file's
canonical URL and the URL is not internal — they decided on `u.path`, and decide the same on
the canonical form. -/
theorem direct_not_covered {fs : FS} {cs : ChainSite} {r : CReq} {u : Url} {e : Entry} {ino : Nat} {enc : Option Bytes}
    (hroot : NormalSegs cs.site.root) (hpre : NormalPrefix cs.site.pathPrefix) (hrd : RootIsDir fs cs.site)
    (hu : Rooted u.path)
    (hg : guarded fs cs r u = .served (.file ino enc))
    (ho : dirOpen fs cs.site.root u.path = .ok e) (hf : e.isDir = false) :
    covered cs r.creds (canonURL cs.site e) = false := by
  rcases guarded_served_inv hg with h404 | ⟨hint, hauth, hb⟩
  · simp at h404
  · have hs := browseServe_file hb
    have hmeth := get_head_ne_options (staticServe_content_method hs)
    have hna : needsAuth cs.auth u.path r.creds = false := hauth.resolve_left hmeth
    obtain ⟨d, hd, hlast, _⟩ := staticServe_file_inv hs
    simp only [] at hd hlast
    rw [ho] at hd
    have hde : e = d := by simpa using hd
    subst hde
    obtain ⟨t, ht⟩ := hu
    -- the request path does not end in a slash
    obtain ⟨_, _, hl, _⟩ := fullPath_facts (site := cs.site) (t := t) hpre
    have hlast' : (slash :: t).getLast? ≠ some slash := by
      rw [← hl, ← ht]; exact hlast hf
    -- and names something below the root
    have hne : jailElems (slash :: t) ≠ [] := by
      intro hj
      have := dirOpen_root_isDir hroot hrd (ht ▸ hj) ho
      rw [this] at hf; cases hf
    have hm : ∀ b, pathMatches (canonURL cs.site e) b = pathMatches u.path b := by
      intro b
      rw [canonURL_of_open hroot ho, ht]
      exact (pathMatches_canonical t b hlast' hne).symm
    have hmf : pathMatches (canonURL cs.site e) = pathMatches u.path := funext hm
    unfold covered needsAuth isInternal ruleCovers
    simp only [hmf]
    have h1 : needsAuth cs.auth u.path r.creds = false := hna
    unfold needsAuth ruleCovers at h1
    unfold isInternal at hint
    rw [h1, hint]; rfl


/-! ## §5 the partial no-disclosure theorem -/

/-- no two entries share an inode (the judge identifies content by inode) -/
def NoHardLinks (fs : FS) : Prop := ∀ e ∈ fs, ∀ e' ∈ fs, e.ino = e'.ino → e = e'

/-- Excludes exactly finding F4: whenever an index page or precompressed sibling that `serveFile`
would substitute for `p` is covered, `p` itself is covered. -/
def DerivedSafe (fs : FS) (cs : ChainSite) (creds : Option (Bytes × Bytes)) : Prop :=
  ∀ p q e, Rooted p → q ∈ derivedPaths cs.site p → dirOpen fs cs.site.root q = .ok e → e.isDir = false →
    covered cs creds (canonURL cs.site e) = true → covered cs creds p = true

/-- Excludes exactly finding F3: a directory URL that is not covered has no covered file below it. -/
def ArchiveSafe (fs : FS) (cs : ChainSite) (creds : Option (Bytes × Bytes)) : Prop :=
  ∀ p d e, Rooted p → dirOf fs cs.site p = some d → e ∈ fs → e.isDir = false →
    (∃ rel, rel ≠ [] ∧ e.path = d.path ++ rel) →
    covered cs creds (canonURL cs.site e) = true → covered cs creds p = true

/-- a proxy scope that is covered covers every path it matches; backend numbers name one scope -/
def BackendSafe (cs : ChainSite) (creds : Option (Bytes × Bytes)) : Prop :=
  (∀ p x, x ∈ cs.proxies → pathMatches p x.1 = true → covered cs creds x.1 = true → covered cs creds p = true) ∧
  (∀ x ∈ cs.proxies, ∀ y ∈ cs.proxies, x.2 = y.2 → x = y)

theorem not_flagged {fs : FS} {cs : ChainSite} {creds : Option (Bytes × Bytes)} {e : Entry}
    (hl : NoHardLinks fs) (he : e ∈ fs) (hc : covered cs creds (canonURL cs.site e) = false) :
    internalIno fs cs e.ino = false ∧ protectedIno fs cs creds e.ino = false := by
  unfold covered at hc
  simp only [Bool.or_eq_false_iff] at hc
  constructor
  · cases hh : internalIno fs cs e.ino with
    | false => rfl
    | true =>
      unfold internalIno at hh
      rw [List.any_eq_true] at hh
      obtain ⟨e', he', hp⟩ := hh
      simp only [Bool.and_eq_true, decide_eq_true_eq] at hp
      have := hl e' he' e he hp.1.1
      subst this
      rw [hc.2] at hp; simp at hp
  · cases hh : protectedIno fs cs creds e.ino with
    | false => rfl
    | true =>
      unfold protectedIno at hh
      rw [List.any_eq_true] at hh
      obtain ⟨e', he', hp⟩ := hh
      simp only [Bool.and_eq_true, decide_eq_true_eq] at hp
      have := hl e' he' e he hp.1.1
      subst this
      rw [hc.1] at hp; simp at hp

theorem proxyMatch_inv (p : Bytes) (l : List (Bytes × Nat)) (best : Option (Bytes × Nat)) (x : Bytes × Nat)
    (h : proxyMatch p l best = some x) : (x ∈ l ∧ pathMatches p x.1 = true) ∨ best = some x := by
  induction l generalizing best with
  | nil => right; simpa [proxyMatch] using h
  | cons y rest ih =>
    unfold proxyMatch at h
    by_cases hc : pathMatches p y.1 = true ∧ y.1.length > bestLen best
    · rw [if_pos hc] at h
      rcases ih _ h with h1 | h1
      · left; exact ⟨by simp [h1.1], h1.2⟩
      · left; simp only [Option.some.injEq] at h1; subst h1; exact ⟨by simp, hc.1⟩
    · rw [if_neg hc] at h
      rcases ih _ h with h1 | h1
      · left; exact ⟨by simp [h1.1], h1.2⟩
      · right; exact h1

/-- Below the rewriting stages, for every rooted path: what the chain answers passes the judge,
provided the configuration is outside the three known failing classes. -/
theorem guarded_verdict_ok {fs : FS} {cs : ChainSite} {r : CReq} {u : Url}
    (hroot : NormalSegs cs.site.root) (hpre : NormalPrefix cs.site.pathPrefix) (hrd : RootIsDir fs cs.site)
    (hu : Rooted u.path) (hl : NoHardLinks fs)
    (hds : DerivedSafe fs cs r.creds) (has : ArchiveSafe fs cs r.creds) (hbs : BackendSafe cs r.creds) :
    ChainSpec.verdict fs cs r (guarded fs cs r u) = "ok" := by
  unfold ChainSpec.verdict
  by_cases hopt : r.method = mOPTIONS
  · simp [hopt]
  · simp only [hopt, if_false]
    cases hg : guarded fs cs r u with
    | unauthorized => rfl
    | backend id =>
      simp only []
      -- the backend was chosen for a path that basicauth and internal let through
      unfold guarded at hg
      split at hg
      · simp at hg
      · rename_i hna
        split at hg
        · simp at hg
        · rename_i hint
          split at hg
          · rename_i x hpm
            simp only [CResp.backend.injEq] at hg
            rcases proxyMatch_inv _ _ _ _ hpm with ⟨hx, hm⟩ | hb
            · have hcov : covered cs r.creds u.path = false := by
                unfold covered
                have h1 : needsAuth cs.auth u.path r.creds = false := by
                  cases hn : needsAuth cs.auth u.path r.creds with
                  | false => rfl
                  | true => exact absurd ⟨hopt, hn⟩ hna
                have h2 : isInternal cs.internal u.path = false := by simpa using hint
                rw [h1, h2]; rfl
              have hxc : covered cs r.creds x.1 = false := by
                cases hc : covered cs r.creds x.1 with
                | false => rfl
                | true => rw [hbs.1 _ _ hx hm hc] at hcov; cases hcov
              have hfind : cs.proxies.find? (fun y => decide (y.2 = id)) = some x := by
                have : ∀ l : List (Bytes × Nat), x ∈ l → (∀ y ∈ l, y.2 = x.2 → y = x) →
                    l.find? (fun y => decide (y.2 = id)) = some x := by
                  intro l hxl hu'
                  induction l with
                  | nil => simp at hxl
                  | cons y rest ih =>
                    by_cases hy : y.2 = id
                    · have : y = x := hu' y (by simp) (by rw [hy, hg])
                      subst this
                      simp [List.find?, hy]
                    · have hne : x ≠ y := fun hh => hy (by rw [← hh, hg])
                      have hxr : x ∈ rest := by
                        rcases List.mem_cons.mp hxl with h | h
                        · exact absurd h hne
                        · exact h
                      simp only [List.find?, hy, decide_false]
                      exact ih hxr (fun z hz => hu' z (by simp [hz]))
                exact this _ hx (fun y hy hyx => hbs.2 y hy x hx hyx)
              rw [hfind]
              unfold covered at hxc
              simp only [Bool.or_eq_false_iff] at hxc
              simp [hxc.1, hxc.2]
            · simp at hb
          · simp at hg
    | served resp =>
      simp only []
      rcases guarded_served_inv hg with h404 | ⟨hint, hauth, hb⟩
      · subst h404; simp [contentInos]
      · have hna : needsAuth cs.auth u.path r.creds = false := hauth.resolve_left hopt
        have hcovu : covered cs r.creds u.path = false := by unfold covered; rw [hna, hint]; rfl
        cases resp with
        | status c => simp [contentInos]
        | redirect c loc => simp [contentInos]
        | listing names => simp [contentInos]
        | file ino enc =>
          have hs := browseServe_file hb
          obtain ⟨d, hd, _, hsc⟩ := staticServe_file_inv hs
          simp only [] at hd hsc
          obtain ⟨q, e, hoq, hfile, hino, hwhere⟩ := staticContent_file_entry hd hsc
          have hemem : e ∈ fs := dirOpen_mem hoq hfile
          have hcov : covered cs r.creds (canonURL cs.site e) = false := by
            rcases hwhere with ⟨hqp, hed⟩ | hder
            · subst hqp
              exact direct_not_covered hroot hpre hrd hu hg hoq hfile
            · cases hc : covered cs r.creds (canonURL cs.site e) with
              | false => rfl
              | true => rw [hds _ _ _ hu hder hoq hfile hc] at hcovu; cases hcovu
          obtain ⟨h1, h2⟩ := not_flagged hl hemem hcov
          rw [hino] at h1 h2
          simp [contentInos, h1, h2]
        | archive items =>
          obtain ⟨d, hdir, hall⟩ := browseServe_archive hroot hb
          simp only [] at hdir
          have key : ∀ ino ∈ contentInos (.archive items), internalIno fs cs ino = false ∧ protectedIno fs cs r.creds ino = false := by
            intro ino hin
            simp only [contentInos, List.mem_filterMap] at hin
            obtain ⟨it, hit, hcont⟩ := hin
            have hok := hall it hit
            unfold itemOk at hok
            simp only [Bool.and_eq_true, decide_eq_true_eq] at hok
            obtain ⟨⟨hrel, _⟩, hany⟩ := hok
            rw [List.any_eq_true] at hany
            obtain ⟨e, he, hp⟩ := hany
            rw [hcont] at hp
            simp only [Bool.and_eq_true, decide_eq_true_eq, Bool.not_eq_eq_eq_not, Bool.not_true] at hp
            obtain ⟨⟨hpath, _⟩, ⟨hnd, hi⟩, _⟩ := hp
            have hcov : covered cs r.creds (canonURL cs.site e) = false := by
              cases hc : covered cs r.creds (canonURL cs.site e) with
              | false => rfl
              | true => rw [has _ _ _ hu hdir he hnd ⟨_, hrel, hpath⟩ hc] at hcovu; cases hcovu
            have := not_flagged hl he hcov
            rw [hi] at this
            exact this
          have h1 : (contentInos (.archive items)).any (internalIno fs cs) = false := by
            rw [List.any_eq_false]; intro x hx; simp [(key x hx).1]
          have h2 : (contentInos (.archive items)).any (protectedIno fs cs r.creds) = false := by
            rw [List.any_eq_false]; intro x hx; simp [(key x hx).2]
          simp [h1, h2]


/-- The whole chain from the raw request target on. -/
theorem chainServe_verdict_ok {fs : FS} {cs : ChainSite} {r : CReq}
    (hroot : NormalSegs cs.site.root) (hpre : NormalPrefix cs.site.pathPrefix) (hrd : RootIsDir fs cs.site)
    (hw : TargetsNonEmpty cs) (hl : NoHardLinks fs)
    (hds : DerivedSafe fs cs r.creds) (has : ArchiveSafe fs cs r.creds) (hbs : BackendSafe cs r.creds) :
    ChainSpec.verdict fs cs r (chainServe fs cs r) = "ok" := by
  have hstatus : ∀ c, ChainSpec.verdict fs cs r (.served (.status c)) = "ok" := by
    intro c; unfold ChainSpec.verdict; split <;> simp [contentInos]
  unfold chainServe
  cases hp : parseRequestURI r.target with
  | none => exact hstatus 400
  | some u0 =>
    simp only []
    split
    · exact hstatus 404
    · have hok := parseRequestURI_ok hp
      have hu : Rooted (if cs.site.pathPrefix = [slash] then u0 else trimPathPrefix u0 cs.site.pathPrefix).path := by
        split
        · exact hok.1
        · exact (trimPathPrefix_ok hok).1
      exact guarded_verdict_ok hroot hpre hrd (authUrl_rooted fs cs u0.path _ hu hw) hl hds has hbs

/-- With credentials every covering rule accepts, basicauth is transparent. -/
theorem needsAuth_of_accepts (rules : List AuthRule) (p : Bytes) (creds : Option (Bytes × Bytes))
    (h : ∀ r ∈ rules, ruleCovers r p = true → ruleAccepts r creds = true) : needsAuth rules p creds = false := by
  unfold needsAuth
  cases hany : rules.any (fun r => ruleCovers r p) with
  | false => rfl
  | true =>
    rw [List.any_eq_true] at hany
    obtain ⟨r, hr, hc⟩ := hany
    have : rules.any (fun r => ruleCovers r p && ruleAccepts r creds) = true := by
      rw [List.any_eq_true]; exact ⟨r, hr, by simp [hc, h r hr hc]⟩
    simp [this]

theorem guarded_with_credentials {fs : FS} {cs : ChainSite} {r : CReq} {u : Url}
    (h : ∀ rule ∈ cs.auth, ruleAccepts rule r.creds = true) :
    guarded fs cs r u = guarded fs { cs with auth := [] } r u := by
  unfold guarded
  have h1 : needsAuth cs.auth u.path r.creds = false := needsAuth_of_accepts _ _ _ (fun rule hr _ => h rule hr)
  have h2 : needsAuth [] u.path r.creds = false := rfl
  simp [h1, h2]

end Casket.ChainProofs
