import Casket.Proofs.FileServe
import Casket.Spec.Chain
import Casket.Model.Cond
/-
Helper lemmas for C03 (core Lean only).

  §1  Path.Matches decides the same on a rooted spelling and on the canonical URL
  §2  tryfiles / rewrite / ext keep the request path rooted
  §3  which path a 200 file body was opened under
  §4  basicauth and internal in front of the content handlers; the direct-request theorem
  §5  the partial no-disclosure theorem (hypotheses exclude exactly the known findings)
  §7  archives and proxies: scopes that do not lie strictly above a protection scope are safe
  §6  a syntactic sufficient condition: directory scopes in normal form are safe for index
      pages and precompressed siblings (lower-casing commutes with splitting at a slash …)
-/
namespace Casket.ChainProofs
open Casket.Path Casket.FS Casket.FileServe Casket.Chain Casket.ChainSpec Casket.FileServeProofs Casket.FileServeSpec

/-! ## §1 one spelling, one decision: Path.Matches on a rooted path and on its canonical form -/

theorem hasSuffix_singleton (s : Bytes) (c : UInt8) : hasSuffix s [c] = true ↔ s.getLast? = some c := by
  unfold hasSuffix
  rw [List.getLast?_eq_head?_reverse]
  cases s.reverse with
  | nil => simp [hasPrefix]
  | cons x xs => simp [hasPrefix]

theorem getLast?_joinSlash {E : List Bytes} (hE : E ≠ []) (h : NormalSegs E) :
    (joinSlash E).getLast? ≠ some slash := by
  induction E with
  | nil => exact absurd rfl hE
  | cons s rest ih =>
    have hs := h s (by simp)
    cases rest with
    | nil =>
      simp only [joinSlash]
      intro hc
      exact hs.2.2.2 (List.mem_of_getLast? hc)
    | cons s2 r2 =>
      simp only [joinSlash]
      have := ih (by simp) (fun x hx => h x (by simp [hx]))
      rw [List.getLast?_append]
      intro hc
      cases hj : (slash :: joinSlash (s2 :: r2)).getLast? with
      | none => simp at hj
      | some x =>
        rw [hj] at hc
        simp only [Option.some_or, Option.some.injEq] at hc
        subst hc
        -- the last byte of slash :: J is the last byte of J when J is not empty
        have hne : joinSlash (s2 :: r2) ≠ [] := by
          have h2 := h s2 (by simp)
          cases r2 with
          | nil => simpa [joinSlash] using h2.1
          | cons _ _ => simp only [joinSlash]; intro hh; exact h2.1 (List.append_eq_nil_iff.mp hh).1
        cases hJ : joinSlash (s2 :: r2) with
        | nil => exact hne hJ
        | cons y ys =>
          rw [hJ] at hj this
          rw [List.getLast?_cons_cons] at hj
          exact this hj

/-- `Path.Matches` decides the same for a rooted request path that does not end in a slash and
names something below the root, and for the canonical URL of what it names. -/
theorem pathMatches_canonical (t base : Bytes) (hlast : (slash :: t).getLast? ≠ some slash)
    (hne : jailElems (slash :: t) ≠ []) :
    pathMatches (slash :: t) base = pathMatches (slash :: joinSlash (jailElems (slash :: t))) base := by
  have hn := jailElems_normal (slash :: t)
  have h1 : hasSuffix (slash :: t) [slash] = false := by
    cases hh : hasSuffix (slash :: t) [slash] with
    | false => rfl
    | true => exact absurd ((hasSuffix_singleton _ _).mp hh) hlast
  have h2 : hasSuffix (slash :: joinSlash (jailElems (slash :: t))) [slash] = false := by
    cases hh : hasSuffix (slash :: joinSlash (jailElems (slash :: t))) [slash] with
    | false => rfl
    | true =>
      have := (hasSuffix_singleton _ _).mp hh
      have hj := getLast?_joinSlash hne hn
      cases hJ : joinSlash (jailElems (slash :: t)) with
      | nil =>
        cases hE : jailElems (slash :: t) with
        | nil => exact absurd hE hne
        | cons s r =>
          rw [hE] at hJ hn
          have hs := hn s (by simp)
          cases r with
          | nil => simp [joinSlash] at hJ; exact absurd hJ hs.1
          | cons _ _ => simp [joinSlash] at hJ
      | cons y ys =>
        rw [hJ] at this hj
        rw [List.getLast?_cons_cons] at this
        exact absurd this hj
  unfold pathMatches
  simp only [h1, h2, Bool.false_eq_true, if_false]
  rw [clean_rooted, clean_canon _ hn]


/-! ## §2 the rewriting stages keep the request path rooted -/

def Rooted (p : Bytes) : Prop := ∃ t, p = slash :: t

theorem candidate_rooted (orig without : Bytes) (tpl : Template) : Rooted (candidate orig without tpl).1 := by
  unfold candidate
  simp only []
  rw [clean_rooted]
  split
  · exact ⟨_, rfl⟩
  · exact ⟨_, rfl⟩

theorem pickTarget_rooted (fs : FS) (root : List Bytes) (orig without : Bytes) (to : List Template) (t0 q0 : Bytes)
    (h0 : Rooted t0 ∨ to ≠ []) : Rooted (pickTarget fs root orig without to t0 q0).1 := by
  induction to generalizing t0 q0 with
  | nil =>
    rcases h0 with h | h
    · simpa [pickTarget] using h
    · exact absurd rfl h
  | cons tpl rest ih =>
    unfold pickTarget
    simp only []
    split
    · exact candidate_rooted orig without tpl
    · exact ih _ _ (Or.inl (candidate_rooted orig without tpl))

theorem rewriteTo_rooted (fs : FS) (root : List Bytes) (orig without : Bytes) (to : List Template) (u : Url)
    (hu : Rooted u.path) (hto : to ≠ []) : Rooted (rewriteTo fs root orig without to u).path := by
  unfold rewriteTo
  simp only []
  obtain ⟨t, ht⟩ := pickTarget_rooted fs root orig without to [] [] (Or.inr hto)
  rw [ht]
  split
  · exact hu
  · have h35 : slash ≠ (35 : UInt8) := by decide
    rw [cut_cons_ne (sep := 35) t h35]
    simp only []
    split
    · exact hu
    · rw [unescape_slash]
      cases hx : unescape false (cut 35 t).1 with
      | none => simpa using hu
      | some p => exact ⟨p, by simp⟩

/-- every rewrite target list of the configuration is non-empty (setup guarantees it) -/
def TargetsNonEmpty (cs : ChainSite) : Prop :=
  (∀ tf, cs.tryfiles = some tf → tf.to ≠ []) ∧ ∀ r ∈ cs.rewrites, r.to ≠ []

theorem selectRule_mem (p : Bytes) (rules : List RewriteRule) (best : Option RewriteRule) (r : RewriteRule)
    (h : selectRule p rules best = some r) : r ∈ rules ∨ best = some r := by
  induction rules generalizing best with
  | nil => right; simpa [selectRule] using h
  | cons x rest ih =>
    unfold selectRule at h
    split at h
    · split at h
      · rcases ih _ h with h1 | h1
        · left; simp [h1]
        · left; simp only [Option.some.injEq] at h1; simp [h1]
      · split at h
        · rcases ih _ h with h1 | h1
          · left; simp [h1]
          · left; simp only [Option.some.injEq] at h1; simp [h1]
        · rcases ih _ h with h1 | h1
          · left; simp [h1]
          · right; exact h1
    · rcases ih _ h with h1 | h1
      · left; simp [h1]
      · right; exact h1

/-- basicauth, internal and the content handlers always see a rooted path. -/
theorem authUrl_rooted (fs : FS) (cs : ChainSite) (orig : Bytes) (u : Url) (hu : Rooted u.path)
    (hw : TargetsNonEmpty cs) : Rooted (authUrl fs cs orig u).path := by
  have h1 : Rooted (tryfilesStep fs cs orig u).path := by
    unfold tryfilesStep
    split
    · exact hu
    · rename_i tf htf
      split
      · exact hu
      · exact rewriteTo_rooted _ _ _ _ _ _ hu (hw.1 tf htf)
  have h2 : Rooted (rewriteStep fs cs orig (tryfilesStep fs cs orig u)).path := by
    unfold rewriteStep
    split
    · exact h1
    · rename_i r hr
      rcases selectRule_mem _ _ _ _ hr with hm | hm
      · exact rewriteTo_rooted _ _ _ _ _ _ h1 (hw.2 r hm)
      · simp at hm
  unfold authUrl extStep
  split
  · split
    · exact h2
    · split
      · obtain ⟨t, ht⟩ := h2
        rename_i e _
        exact ⟨t ++ e, by simp [ht]⟩
      · exact h2
  · exact h2


/-! ## §3 where a 200 file body comes from, path by path -/

theorem staticServe_file_inv {fs : FS} {site : Site} {r : Req} {ino : Nat} {enc : Option Bytes}
    (h : staticServe fs site r = .file ino enc) :
    ∃ d, dirOpen fs site.root r.url.path = .ok d ∧
      (d.isDir = false → (fullPath site r.url.path).getLast? ≠ some slash) ∧
      (d.isDir = true → (fullPath site r.url.path).getLast? = some slash) ∧
      staticContent fs site r d r.url.path = .file ino enc := by
  unfold staticServe at h
  split at h
  · simp at h
  · simp only [] at h
    split at h
    · simp at h
    · simp at h
    · rename_i d hd
      split at h
      · simp at h
      · split at h
        · simp at h
        · rename_i h1 h2
          refine ⟨d, hd, ?_, ?_, h⟩
          · intro hf hl
            exact h2 ⟨by simp [hf], hl⟩
          · intro hdir
            cases hl : (fullPath site r.url.path).getLast? with
            | none => exact absurd ⟨hdir, by simp [hl]⟩ h1
            | some c =>
              by_cases hc : c = slash
              · rw [hc]
              · exact absurd ⟨hdir, by simp [hl, hc]⟩ h1

/-- Which file a 200 body of the static file server is: the file `e0` the request path names or
(for a directory) an index page of it — opened under `q0` — or a precompressed sibling of `e0`
opened under `q0 ++ ext`. -/
theorem staticContent_file_cases {fs : FS} {site : Site} {r : Req} {d : Entry} {p : Bytes} {ino : Nat} {enc : Option Bytes}
    (hd : dirOpen fs site.root p = .ok d) (h : staticContent fs site r d p = .file ino enc) :
    ∃ q0 e0, dirOpen fs site.root q0 = .ok e0 ∧ e0.isDir = false ∧
      ((q0 = p ∧ e0 = d) ∨ (d.isDir = true ∧ ∃ ip ∈ site.indexPages, q0 = join2 p ip)) ∧
      (e0.ino = ino ∨ ∃ ne ∈ site.encodings, ∃ e, dirOpen fs site.root (q0 ++ ne.2) = .ok e ∧ e.isDir = false ∧ e.ino = ino) ∧
      e0 = (resolveIndex fs site d p).1 := by
  unfold staticContent at h
  simp only [] at h
  have hres : (resolveIndex fs site d p = (d, p)) ∨
      (d.isDir = true ∧ ∃ ip ∈ site.indexPages, (resolveIndex fs site d p).2 = join2 p ip ∧
        dirOpen fs site.root (join2 p ip) = .ok (resolveIndex fs site d p).1) := by
    unfold resolveIndex
    split
    · rename_i hdir
      split
      · rename_i ep hfi
        obtain ⟨e0, q0⟩ := ep
        obtain ⟨ip, hm, hq, hop⟩ := findIndex_some hfi
        right; exact ⟨hdir, ip, hm, hq, hq ▸ hop⟩
      · left; rfl
    · left; rfl
  split at h
  · simp at h
  · rename_i hnot
    simp only [Bool.or_eq_true, not_or, Bool.not_eq_true] at hnot
    -- the entry and path after index substitution
    have hbase : ∃ q0 e0, resolveIndex fs site d p = (e0, q0) ∧ dirOpen fs site.root q0 = .ok e0 ∧
        ((q0 = p ∧ e0 = d) ∨ (d.isDir = true ∧ ∃ ip ∈ site.indexPages, q0 = join2 p ip)) := by
      rcases hres with hr | ⟨hdir, ip, hm, hq, hop⟩
      · exact ⟨p, d, hr, hd, Or.inl ⟨rfl, rfl⟩⟩
      · refine ⟨join2 p ip, (resolveIndex fs site d p).1, ?_, hop, Or.inr ⟨hdir, ip, hm, rfl⟩⟩
        rw [← hq]
    obtain ⟨q0, e0, hr, hop0, hwhich⟩ := hbase
    have hres0 : e0 = (resolveIndex fs site d p).1 := by rw [hr]
    rw [hr] at h hnot
    refine ⟨q0, e0, hop0, hnot.1, hwhich, ?_, hres0⟩
    split at h
    · rename_i ne hfs
      obtain ⟨name, e⟩ := ne
      obtain ⟨ext, hmem, _, hopen, hfile, _⟩ := findSibling_some hfs
      simp only [Resp.file.injEq] at h
      exact Or.inr ⟨(name, ext), hmem, e, hopen, hfile, h.1⟩
    · simp only [Resp.file.injEq] at h
      exact Or.inl h.1

/-! ## §4 basicauth / internal in front of the content handlers -/

/-- basicauth answers 401 or internal answers 404 for this path -/
def covered (cs : ChainSite) (creds : Option (Bytes × Bytes)) (p : Bytes) : Bool :=
  needsAuth cs.auth p creds || isInternal cs.internal p

theorem guarded_served_inv {fs : FS} {cs : ChainSite} {r : CReq} {u : Url} {resp : Resp}
    (h : guarded fs cs r u = .served resp) :
    resp = .status 404 ∨
      (isInternal cs.internal u.path = false ∧ (r.method = mOPTIONS ∨ needsAuth cs.auth u.path r.creds = false) ∧
        browseServe fs cs.site { method := r.method, url := u, acceptEncoding := r.acceptEncoding } = resp) := by
  unfold guarded at h
  split at h
  · simp at h
  · rename_i hna
    split at h
    · left; simpa using h.symm
    · rename_i hint
      split at h
      · simp at h
      · right
        refine ⟨by simpa using hint, ?_, by simpa using h⟩
        by_cases hm : r.method = mOPTIONS
        · exact Or.inl hm
        · right
          cases hn : needsAuth cs.auth u.path r.creds with
          | false => rfl
          | true => exact absurd ⟨hm, hn⟩ hna

theorem staticServe_content_method {fs : FS} {site : Site} {r : Req} {ino : Nat} {enc : Option Bytes}
    (h : staticServe fs site r = .file ino enc) : r.method = mGET ∨ r.method = mHEAD := by
  unfold staticServe at h
  split at h
  · simp at h
  · rename_i hm
    by_cases h1 : r.method = mGET
    · exact Or.inl h1
    · by_cases h2 : r.method = mHEAD
      · exact Or.inr h2
      · exact absurd ⟨h1, h2⟩ hm

theorem browseServe_archive_method {fs : FS} {site : Site} {r : Req} {items : List Item}
    (h : browseServe fs site r = .archive items) : r.method = mGET ∨ r.method = mHEAD := by
  unfold browseServe at h
  split at h
  · exact absurd h staticServe_not_archive
  · split at h
    · exact absurd h staticServe_not_archive
    · split at h
      · exact absurd h staticServe_not_archive
      · split at h
        · assumption
        · split at h
          · simp at h
          · exact absurd h staticServe_not_archive

theorem get_head_ne_options {m : Bytes} (h : m = mGET ∨ m = mHEAD) : m ≠ mOPTIONS := by
  rcases h with h | h <;> rw [h] <;> decide

theorem canonURL_of_open {fs : FS} {site : Site} {q : Bytes} {e : Entry}
    (hroot : NormalSegs site.root) (ho : dirOpen fs site.root q = .ok e) :
    canonURL site e = slash :: joinSlash (jailElems q) := by
  unfold canonURL
  rw [dirOpen_path hroot ho, List.drop_left]

/-- Direct requests, every spelling: when the content handlers serve the regular file that the
(final, rooted) request path itself names, basicauth did not demand credentials for that file's
canonical URL and the URL is not internal — they decided on `u.path`, and decide the same on
the canonical form. -/
theorem direct_not_covered {fs : FS} {cs : ChainSite} {r : CReq} {u : Url} {e : Entry} {ino : Nat} {enc : Option Bytes}
    (hroot : NormalSegs cs.site.root) (hpre : NormalPrefix cs.site.pathPrefix) (hrd : RootIsDir fs cs.site)
    (hu : Rooted u.path)
    (hg : guarded fs cs r u = .served (.file ino enc))
    (ho : dirOpen fs cs.site.root u.path = .ok e) (hf : e.isDir = false) :
    covered cs r.creds (canonURL cs.site e) = false := by
  rcases guarded_served_inv hg with h404 | ⟨hint, hauth, hb⟩
  · simp at h404
  · have hs := browseServe_file hb
    have hmeth := get_head_ne_options (staticServe_content_method hs)
    have hna : needsAuth cs.auth u.path r.creds = false := hauth.resolve_left hmeth
    obtain ⟨d, hd, hlast, _, _⟩ := staticServe_file_inv hs
    simp only [] at hd hlast
    rw [ho] at hd
    have hde : e = d := by simpa using hd
    subst hde
    obtain ⟨t, ht⟩ := hu
    -- the request path does not end in a slash
    obtain ⟨_, _, hl, _⟩ := fullPath_facts (site := cs.site) (t := t) hpre
    have hlast' : (slash :: t).getLast? ≠ some slash := by
      rw [← hl, ← ht]; exact hlast hf
    -- and names something below the root
    have hne : jailElems (slash :: t) ≠ [] := by
      intro hj
      have := dirOpen_root_isDir hroot hrd (ht ▸ hj) ho
      rw [this] at hf; cases hf
    have hm : ∀ b, pathMatches (canonURL cs.site e) b = pathMatches u.path b := by
      intro b
      rw [canonURL_of_open hroot ho, ht]
      exact (pathMatches_canonical t b hlast' hne).symm
    have hmf : pathMatches (canonURL cs.site e) = pathMatches u.path := funext hm
    unfold covered needsAuth isInternal ruleCovers
    simp only [hmf]
    have h1 : needsAuth cs.auth u.path r.creds = false := hna
    unfold needsAuth ruleCovers at h1
    unfold isInternal at hint
    rw [h1, hint]; rfl


/-! ## §5 the partial no-disclosure theorem -/

/-- no two entries share an inode (the judge identifies content by inode) -/
def NoHardLinks (fs : FS) : Prop := ∀ e ∈ fs, ∀ e' ∈ fs, e.ino = e'.ino → e = e'

/-- Excludes finding F4 (index pages): whenever an index page that `serveFile` would substitute
for the directory URL `p` is covered, `p` itself is covered. -/
def IndexSafe (fs : FS) (cs : ChainSite) (creds : Option (Bytes × Bytes)) : Prop :=
  ∀ p ip e, Rooted p → p.getLast? = some slash → ip ∈ cs.site.indexPages →
    dirOpen fs cs.site.root (join2 p ip) = .ok e → e.isDir = false →
    covered cs creds (canonURL cs.site e) = true → covered cs creds p = true

/-- a path `serveFile` looks for precompressed siblings of: a rooted request path that does not
end in a slash, or the path an index page was opened under -/
def SibSource (site : Site) (q : Bytes) : Prop :=
  (Rooted q ∧ q.getLast? ≠ some slash) ∨ ∃ p ip, Rooted p ∧ ip ∈ site.indexPages ∧ q = join2 p ip

/-- Excludes finding F4 (precompressed siblings): whenever the sibling `q ++ ext` of a regular
file is covered, the file is covered. -/
def SiblingSafe (fs : FS) (cs : ChainSite) (creds : Option (Bytes × Bytes)) : Prop :=
  ∀ q ne e0 e, SibSource cs.site q → dirOpen fs cs.site.root q = .ok e0 → e0.isDir = false →
    ne ∈ cs.site.encodings → dirOpen fs cs.site.root (q ++ ne.2) = .ok e → e.isDir = false →
    covered cs creds (canonURL cs.site e) = true → covered cs creds (canonURL cs.site e0) = true

/-- Excludes exactly finding F3: a directory URL inside an archive-enabled browse scope that is
not covered has no covered file below it. -/
def ArchiveSafe (fs : FS) (cs : ChainSite) (creds : Option (Bytes × Bytes)) : Prop :=
  ∀ p bc d e, Rooted p → p.getLast? = some slash →
    bc ∈ cs.site.browse → bc.archives ≠ [] → pathMatches p bc.scope = true →
    dirOf fs cs.site p = some d → e ∈ fs → e.isDir = false →
    (∃ rel, rel ≠ [] ∧ e.path = d.path ++ rel) →
    covered cs creds (canonURL cs.site e) = true → covered cs creds p = true

/-- no browse scope of the site offers archives -/
def NoArchives (site : Site) : Prop := ∀ bc ∈ site.browse, bc.archives = []

theorem archiveSafe_of_noArchives {fs : FS} {cs : ChainSite} {creds : Option (Bytes × Bytes)}
    (h : NoArchives cs.site) : ArchiveSafe fs cs creds := by
  intro p bc d e _ _ hbc hne
  exact absurd (h bc hbc) hne

/-- a proxy scope that is covered covers every path it matches; backend numbers name one scope -/
def BackendSafe (cs : ChainSite) (creds : Option (Bytes × Bytes)) : Prop :=
  (∀ p x, x ∈ cs.proxies → pathMatches p x.1 = true → covered cs creds x.1 = true → covered cs creds p = true) ∧
  (∀ x ∈ cs.proxies, ∀ y ∈ cs.proxies, x.2 = y.2 → x = y)

theorem not_flagged {fs : FS} {cs : ChainSite} {creds : Option (Bytes × Bytes)} {e : Entry}
    (hl : NoHardLinks fs) (he : e ∈ fs) (hc : covered cs creds (canonURL cs.site e) = false) :
    internalIno fs cs e.ino = false ∧ protectedIno fs cs creds e.ino = false := by
  unfold covered at hc
  simp only [Bool.or_eq_false_iff] at hc
  constructor
  · cases hh : internalIno fs cs e.ino with
    | false => rfl
    | true =>
      unfold internalIno at hh
      rw [List.any_eq_true] at hh
      obtain ⟨e', he', hp⟩ := hh
      simp only [Bool.and_eq_true, decide_eq_true_eq] at hp
      have := hl e' he' e he hp.1.1
      subst this
      rw [hc.2] at hp; simp at hp
  · cases hh : protectedIno fs cs creds e.ino with
    | false => rfl
    | true =>
      unfold protectedIno at hh
      rw [List.any_eq_true] at hh
      obtain ⟨e', he', hp⟩ := hh
      simp only [Bool.and_eq_true, decide_eq_true_eq] at hp
      have := hl e' he' e he hp.1.1
      subst this
      rw [hc.1] at hp; simp at hp

theorem proxyMatch_inv (p : Bytes) (l : List (Bytes × Nat)) (best : Option (Bytes × Nat)) (x : Bytes × Nat)
    (h : proxyMatch p l best = some x) : (x ∈ l ∧ pathMatches p x.1 = true) ∨ best = some x := by
  induction l generalizing best with
  | nil => right; simpa [proxyMatch] using h
  | cons y rest ih =>
    unfold proxyMatch at h
    by_cases hc : pathMatches p y.1 = true ∧ y.1.length > bestLen best
    · rw [if_pos hc] at h
      rcases ih _ h with h1 | h1
      · left; exact ⟨by simp [h1.1], h1.2⟩
      · left; simp only [Option.some.injEq] at h1; subst h1; exact ⟨by simp, hc.1⟩
    · rw [if_neg hc] at h
      rcases ih _ h with h1 | h1
      · left; exact ⟨by simp [h1.1], h1.2⟩
      · right; exact h1

theorem serveListing_archive_enabled {fs : FS} {site : Site} {bc : BrowseCfg} {r : Req} {info : Entry} {items : List Item}
    (h : serveListing fs site bc r info = .archive items) : bc.archives ≠ [] := by
  unfold serveListing at h
  simp only [] at h
  split at h
  · exact absurd h staticServe_not_archive
  · split at h
    · split at h
      · rename_i hc
        intro he
        rw [he] at hc
        simp at hc
      · simp at h
    · split at h <;> simp at h

theorem browseServe_archive_enabled {fs : FS} {site : Site} {r : Req} {items : List Item}
    (h : browseServe fs site r = .archive items) :
    ∃ bc ∈ site.browse, bc.archives ≠ [] ∧ pathMatches r.url.path bc.scope = true ∧
      (r.url.path ≠ [] → r.url.path.getLast? = some slash) := by
  unfold browseServe at h
  split at h
  · exact absurd h staticServe_not_archive
  · rename_i bc hfind
    have hmem : bc ∈ site.browse := List.mem_of_find?_eq_some hfind
    have hmatch : pathMatches r.url.path bc.scope = true := by
      have := List.find?_some hfind
      simpa using this
    split at h
    · exact absurd h staticServe_not_archive
    · split at h
      · exact absurd h staticServe_not_archive
      · split at h
        · simp only [] at h
          by_cases hl2 : (if r.url.path = [] then [slash] else r.url.path).getLast? ≠ some slash
          · rw [if_pos hl2] at h; simp at h
          · rw [if_neg hl2] at h
            refine ⟨bc, hmem, serveListing_archive_enabled h, hmatch, ?_⟩
            intro hne
            simp only [hne, if_false] at hl2
            cases hx : r.url.path.getLast? with
            | none => rw [hx] at hl2; simp at hl2
            | some c =>
              rw [hx] at hl2
              by_cases hc : c = slash
              · rw [hc]
              · exact absurd (by simp [hc]) hl2
        · split at h
          · simp at h
          · exact absurd h staticServe_not_archive

/-- Below the rewriting stages, for every rooted path: what the chain answers passes the judge,
provided the configuration is outside the three known failing classes. -/
theorem guarded_verdict_ok {fs : FS} {cs : ChainSite} {r : CReq} {u : Url}
    (hroot : NormalSegs cs.site.root) (hpre : NormalPrefix cs.site.pathPrefix) (hrd : RootIsDir fs cs.site)
    (hu : Rooted u.path) (hl : NoHardLinks fs)
    (his : IndexSafe fs cs r.creds) (hss : SiblingSafe fs cs r.creds)
    (has : ArchiveSafe fs cs r.creds) (hbs : BackendSafe cs r.creds) :
    ChainSpec.verdict fs cs r (guarded fs cs r u) = "ok" := by
  unfold ChainSpec.verdict
  by_cases hopt : r.method = mOPTIONS
  · simp [hopt]
  · simp only [hopt, if_false]
    cases hg : guarded fs cs r u with
    | unauthorized => rfl
    | backend id =>
      simp only []
      -- the backend was chosen for a path that basicauth and internal let through
      unfold guarded at hg
      split at hg
      · simp at hg
      · rename_i hna
        split at hg
        · simp at hg
        · rename_i hint
          split at hg
          · rename_i x hpm
            simp only [CResp.backend.injEq] at hg
            rcases proxyMatch_inv _ _ _ _ hpm with ⟨hx, hm⟩ | hb
            · have hcov : covered cs r.creds u.path = false := by
                unfold covered
                have h1 : needsAuth cs.auth u.path r.creds = false := by
                  cases hn : needsAuth cs.auth u.path r.creds with
                  | false => rfl
                  | true => exact absurd ⟨hopt, hn⟩ hna
                have h2 : isInternal cs.internal u.path = false := by simpa using hint
                rw [h1, h2]; rfl
              have hxc : covered cs r.creds x.1 = false := by
                cases hc : covered cs r.creds x.1 with
                | false => rfl
                | true => rw [hbs.1 _ _ hx hm hc] at hcov; cases hcov
              have hfind : cs.proxies.find? (fun y => decide (y.2 = id)) = some x := by
                have : ∀ l : List (Bytes × Nat), x ∈ l → (∀ y ∈ l, y.2 = x.2 → y = x) →
                    l.find? (fun y => decide (y.2 = id)) = some x := by
                  intro l hxl hu'
                  induction l with
                  | nil => simp at hxl
                  | cons y rest ih =>
                    by_cases hy : y.2 = id
                    · have : y = x := hu' y (by simp) (by rw [hy, hg])
                      subst this
                      simp [List.find?, hy]
                    · have hne : x ≠ y := fun hh => hy (by rw [← hh, hg])
                      have hxr : x ∈ rest := by
                        rcases List.mem_cons.mp hxl with h | h
                        · exact absurd h hne
                        · exact h
                      simp only [List.find?, hy, decide_false]
                      exact ih hxr (fun z hz => hu' z (by simp [hz]))
                exact this _ hx (fun y hy hyx => hbs.2 y hy x hx hyx)
              rw [hfind]
              unfold covered at hxc
              simp only [Bool.or_eq_false_iff] at hxc
              simp [hxc.1, hxc.2]
            · simp at hb
          · simp at hg
    | served resp =>
      simp only []
      rcases guarded_served_inv hg with h404 | ⟨hint, hauth, hb⟩
      · subst h404; simp [contentInos]
      · have hna : needsAuth cs.auth u.path r.creds = false := hauth.resolve_left hopt
        have hcovu : covered cs r.creds u.path = false := by unfold covered; rw [hna, hint]; rfl
        cases resp with
        | status c => simp [contentInos]
        | redirect c loc => simp [contentInos]
        | listing names => simp [contentInos]
        | file ino enc =>
          have hs := browseServe_file hb
          obtain ⟨d, hd, hlf, hld, hsc⟩ := staticServe_file_inv hs
          simp only [] at hd hsc hlf hld
          obtain ⟨q0, e0, hop0, hf0, hwhich, hino, hres0⟩ := staticContent_file_cases hd hsc
          obtain ⟨t, ht⟩ := hu
          obtain ⟨_, _, hlast, _⟩ := fullPath_facts (site := cs.site) (t := t) hpre
          -- the plain file (named directly, or an index page) is not covered
          have hcov0 : covered cs r.creds (canonURL cs.site e0) = false ∧ SibSource cs.site q0 := by
            rcases hwhich with ⟨hq, he⟩ | ⟨hdir, ip, hip, hq⟩
            · subst hq; subst he
              refine ⟨direct_not_covered hroot hpre hrd ⟨t, ht⟩ hg hop0 hf0, Or.inl ⟨⟨t, ht⟩, ?_⟩⟩
              rw [ht, ← hlast, ← ht]; exact hlf hf0
            · have hsl : u.path.getLast? = some slash := by
                rw [ht, ← hlast, ← ht]; exact hld hdir
              refine ⟨?_, Or.inr ⟨u.path, ip, ⟨t, ht⟩, hip, hq⟩⟩
              cases hc : covered cs r.creds (canonURL cs.site e0) with
              | false => rfl
              | true =>
                rw [his _ _ _ ⟨t, ht⟩ hsl hip (hq ▸ hop0) hf0 hc] at hcovu; cases hcovu
          obtain ⟨e, hemem, hcov, hei⟩ : ∃ e, e ∈ fs ∧ covered cs r.creds (canonURL cs.site e) = false ∧ e.ino = ino := by
            rcases hino with h0 | ⟨ne, hne, e, hoe, hfe, hie⟩
            · exact ⟨e0, dirOpen_mem hop0 hf0, hcov0.1, h0⟩
            · refine ⟨e, dirOpen_mem hoe hfe, ?_, hie⟩
              cases hc : covered cs r.creds (canonURL cs.site e) with
              | false => rfl
              | true => rw [hss _ _ _ _ hcov0.2 hop0 hf0 hne hoe hfe hc] at hcov0; exact absurd hcov0.1 (by simp)
          obtain ⟨h1, h2⟩ := not_flagged hl hemem hcov
          rw [hei] at h1 h2
          simp [contentInos, h1, h2]
        | archive items =>
          obtain ⟨d, hdir, hall⟩ := browseServe_archive hroot hb
          simp only [] at hdir
          obtain ⟨bc, hbc, hbne, hbm, hbl⟩ := browseServe_archive_enabled hb
          simp only [] at hbm hbl
          have hul : u.path.getLast? = some slash := hbl (by obtain ⟨t, ht⟩ := hu; rw [ht]; simp)
          have key : ∀ ino ∈ contentInos (.archive items), internalIno fs cs ino = false ∧ protectedIno fs cs r.creds ino = false := by
            intro ino hin
            simp only [contentInos, List.mem_filterMap] at hin
            obtain ⟨it, hit, hcont⟩ := hin
            have hok := hall it hit
            unfold itemOk at hok
            simp only [Bool.and_eq_true, decide_eq_true_eq] at hok
            obtain ⟨⟨hrel, _⟩, hany⟩ := hok
            rw [List.any_eq_true] at hany
            obtain ⟨e, he, hp⟩ := hany
            rw [hcont] at hp
            simp only [Bool.and_eq_true, decide_eq_true_eq, Bool.not_eq_eq_eq_not, Bool.not_true] at hp
            obtain ⟨⟨hpath, _⟩, ⟨hnd, hi⟩, _⟩ := hp
            have hcov : covered cs r.creds (canonURL cs.site e) = false := by
              cases hc : covered cs r.creds (canonURL cs.site e) with
              | false => rfl
              | true => rw [has _ _ _ _ hu hul hbc hbne hbm hdir he hnd ⟨_, hrel, hpath⟩ hc] at hcovu; cases hcovu
            have := not_flagged hl he hcov
            rw [hi] at this
            exact this
          have h1 : (contentInos (.archive items)).any (internalIno fs cs) = false := by
            rw [List.any_eq_false]; intro x hx; simp [(key x hx).1]
          have h2 : (contentInos (.archive items)).any (protectedIno fs cs r.creds) = false := by
            rw [List.any_eq_false]; intro x hx; simp [(key x hx).2]
          simp [h1, h2]


/-- The whole chain from the raw request target on. -/
theorem chainServe_verdict_ok {fs : FS} {cs : ChainSite} {r : CReq}
    (hroot : NormalSegs cs.site.root) (hpre : NormalPrefix cs.site.pathPrefix) (hrd : RootIsDir fs cs.site)
    (hw : TargetsNonEmpty cs) (hl : NoHardLinks fs)
    (his : IndexSafe fs cs r.creds) (hss : SiblingSafe fs cs r.creds)
    (has : ArchiveSafe fs cs r.creds) (hbs : BackendSafe cs r.creds) :
    ChainSpec.verdict fs cs r (chainServe fs cs r) = "ok" := by
  have hstatus : ∀ c, ChainSpec.verdict fs cs r (.served (.status c)) = "ok" := by
    intro c; unfold ChainSpec.verdict; split <;> simp [contentInos]
  unfold chainServe
  cases hp : parseRequestURI r.target with
  | none => exact hstatus 400
  | some u0 =>
    simp only []
    split
    · exact hstatus 404
    · have hok := parseRequestURI_ok hp
      have hu : Rooted (if cs.site.pathPrefix = [slash] then u0 else trimPathPrefix u0 cs.site.pathPrefix).path := by
        split
        · exact hok.1
        · exact (trimPathPrefix_ok hok).1
      exact guarded_verdict_ok hroot hpre hrd (authUrl_rooted fs cs u0.path _ hu hw) hl his hss has hbs

/-- The file whose mtime goes into Last-Modified (the named file or index page, before sibling
substitution) is not covered either whenever a file answer is served: HEAD, 304 and 206 answers
disclose no metadata of a covered file. -/
theorem guarded_resolved_ok {fs : FS} {cs : ChainSite} {r : CReq} {u : Url} {ino : Nat} {enc : Option Bytes}
    (hroot : NormalSegs cs.site.root) (hpre : NormalPrefix cs.site.pathPrefix) (hrd : RootIsDir fs cs.site)
    (hu : Rooted u.path) (hl : NoHardLinks fs) (his : IndexSafe fs cs r.creds)
    (hg : guarded fs cs r u = .served (.file ino enc)) :
    ChainSpec.verdict fs cs r (.served (.file (Casket.Cond.resolvedIno fs cs.site u) none)) = "ok" := by
  unfold ChainSpec.verdict
  by_cases hopt : r.method = mOPTIONS
  · simp [hopt]
  · simp only [hopt, if_false]
    rcases guarded_served_inv hg with h404 | ⟨hint, hauth, hb⟩
    · simp at h404
    · have hna : needsAuth cs.auth u.path r.creds = false := hauth.resolve_left hopt
      have hcovu : covered cs r.creds u.path = false := by unfold covered; rw [hna, hint]; rfl
      have hs := browseServe_file hb
      obtain ⟨d, hd, hlf, hld, hsc⟩ := staticServe_file_inv hs
      simp only [] at hd hsc hlf hld
      obtain ⟨q0, e0, hop0, hf0, hwhich, _, hres0⟩ := staticContent_file_cases hd hsc
      obtain ⟨t, ht⟩ := hu
      obtain ⟨_, _, hlast, _⟩ := fullPath_facts (site := cs.site) (t := t) hpre
      have hcov0 : covered cs r.creds (canonURL cs.site e0) = false := by
        rcases hwhich with ⟨hq, he⟩ | ⟨hdir, ip, hip, hq⟩
        · subst hq; subst he
          exact direct_not_covered hroot hpre hrd ⟨t, ht⟩ hg hop0 hf0
        · have hsl : u.path.getLast? = some slash := by
            rw [ht, ← hlast, ← ht]; exact hld hdir
          cases hc : covered cs r.creds (canonURL cs.site e0) with
          | false => rfl
          | true => rw [his _ _ _ ⟨t, ht⟩ hsl hip (hq ▸ hop0) hf0 hc] at hcovu; cases hcovu
      obtain ⟨h1, h2⟩ := not_flagged hl (dirOpen_mem hop0 hf0) hcov0
      have hri : Casket.Cond.resolvedIno fs cs.site u = e0.ino := by
        simp [Casket.Cond.resolvedIno, hd, hres0]
      rw [hri]
      simp [contentInos, h1, h2]

theorem chainServe_finalUrl {fs : FS} {cs : ChainSite} {r : CReq} {u : Url} (h : finalUrl fs cs r = some u) :
    chainServe fs cs r = guarded fs cs r u ∧ (TargetsNonEmpty cs → Rooted u.path) := by
  unfold finalUrl at h
  unfold chainServe
  cases hp : parseRequestURI r.target with
  | none => simp [hp] at h
  | some u0 =>
    simp only [hp] at h ⊢
    split at h
    · simp at h
    · rename_i hc
      simp only [Option.some.injEq] at h
      rw [if_neg hc, h]
      refine ⟨rfl, ?_⟩
      intro hw
      have hok := parseRequestURI_ok hp
      have hu : Rooted (if cs.site.pathPrefix = [slash] then u0 else trimPathPrefix u0 cs.site.pathPrefix).path := by
        split
        · exact hok.1
        · exact (trimPathPrefix_ok hok).1
      rw [← h]
      exact authUrl_rooted fs cs u0.path _ hu hw

/-- Whole chain: the file named by Last-Modified / used for If-Modified-Since passes the judge too. -/
theorem chainServe_resolved_ok {fs : FS} {cs : ChainSite} {r : CReq} {u : Url} {ino : Nat} {enc : Option Bytes}
    (hroot : NormalSegs cs.site.root) (hpre : NormalPrefix cs.site.pathPrefix) (hrd : RootIsDir fs cs.site)
    (hw : TargetsNonEmpty cs) (hl : NoHardLinks fs) (his : IndexSafe fs cs r.creds)
    (hu : finalUrl fs cs r = some u) (h : chainServe fs cs r = .served (.file ino enc)) :
    ChainSpec.verdict fs cs r (.served (.file (Casket.Cond.resolvedIno fs cs.site u) none)) = "ok" := by
  obtain ⟨he, hr⟩ := chainServe_finalUrl hu
  rw [he] at h
  exact guarded_resolved_ok hroot hpre hrd (hr hw) hl his h

/-- With credentials every covering rule accepts, basicauth is transparent. -/
theorem needsAuth_of_accepts (rules : List AuthRule) (p : Bytes) (creds : Option (Bytes × Bytes))
    (h : ∀ r ∈ rules, ruleCovers r p = true → ruleAccepts r creds = true) : needsAuth rules p creds = false := by
  unfold needsAuth
  cases hany : rules.any (fun r => ruleCovers r p) with
  | false => rfl
  | true =>
    rw [List.any_eq_true] at hany
    obtain ⟨r, hr, hc⟩ := hany
    have : rules.any (fun r => ruleCovers r p && ruleAccepts r creds) = true := by
      rw [List.any_eq_true]; exact ⟨r, hr, by simp [hc, h r hr hc]⟩
    simp [this]

theorem guarded_with_credentials {fs : FS} {cs : ChainSite} {r : CReq} {u : Url}
    (h : ∀ rule ∈ cs.auth, ruleAccepts rule r.creds = true) :
    guarded fs cs r u = guarded fs { cs with auth := [] } r u := by
  unfold guarded
  have h1 : needsAuth cs.auth u.path r.creds = false := needsAuth_of_accepts _ _ _ (fun rule hr _ => h rule hr)
  have h2 : needsAuth [] u.path r.creds = false := rfl
  simp [h1, h2]

/-! ## §6 a syntactic sufficient condition: directory scopes in normal form -/

theorem toLower_cons_slash (y : Bytes) : toLower (slash :: y) = slash :: toLower y := by
  have := toLower.eq_3 slash y (by intro r h; exact absurd h (by decide)) (by intro r h; exact absurd h (by decide))
  rw [this]; rfl

/-- `strings.ToLower` commutes with splitting at a slash -/
theorem toLower_append_slash (x y : Bytes) : toLower (x ++ slash :: y) = toLower x ++ slash :: toLower y := by
  fun_induction toLower x with
  | case1 rest ih => simp [toLower, ih]
  | case2 rest ih => simp [toLower, ih]
  | case3 c rest h1 h2 ih =>
    have e := toLower.eq_3 c (rest ++ slash :: y)
      (by
        intro r hc hh
        cases rest with
        | nil => simp [slash] at hh
        | cons a r2 =>
          cases r2 with
          | nil => simp [slash] at hh
          | cons b r3 =>
            simp only [List.cons_append, List.cons.injEq] at hh
            exact h1 r3 hc (by rw [hh.1, hh.2.1]))
      (by
        intro r hc hh
        cases rest with
        | nil => simp [slash] at hh
        | cons a r2 =>
          simp only [List.cons_append, List.cons.injEq] at hh
          exact h2 r2 hc (by rw [hh.1]))
    simp only [List.cons_append]
    rw [e, ih]
  | case4 => simp [toLower_cons_slash]

theorem lowerByte_ne_slash {c : UInt8} (h : c ≠ slash) : lowerByte c ≠ slash := by
  unfold lowerByte
  split
  · rename_i hc
    intro he
    have h1 : c.toNat + 32 < 256 := by
      have := hc.2; have : c.toNat ≤ 90 := this; omega
    have : (c + 32).toNat = 47 := by rw [he]; rfl
    rw [UInt8.toNat_add] at this
    have h65 : 65 ≤ c.toNat := hc.1
    simp at this
    omega
  · exact h

/-- lower-casing neither creates nor removes slashes -/
theorem slash_not_mem_toLower {s : Bytes} (h : slash ∉ s) : slash ∉ toLower s := by
  fun_induction toLower s with
  | case1 rest ih =>
    have : slash ∉ rest := fun hm => h (by simp [hm])
    intro hm; simp only [List.mem_cons] at hm
    rcases hm with hm | hm
    · exact absurd hm (by decide)
    · exact ih this hm
  | case2 rest ih =>
    have : slash ∉ rest := fun hm => h (by simp [hm])
    intro hm; simp only [List.mem_cons] at hm
    rcases hm with hm | hm
    · exact absurd hm (by decide)
    · exact ih this hm
  | case3 c rest h1 h2 ih =>
    have hc : c ≠ slash := fun hc => h (by simp [hc])
    have : slash ∉ rest := fun hm => h (by simp [hm])
    intro hm; simp only [List.mem_cons] at hm
    rcases hm with hm | hm
    · exact lowerByte_ne_slash hc hm.symm
    · exact ih this hm
  | case4 => simp

theorem hasPrefix_iff (s p : Bytes) : hasPrefix s p = true ↔ p <+: s := by
  induction p generalizing s with
  | nil => cases s <;> simp [hasPrefix]
  | cons b bs ih =>
    cases s with
    | nil => simp [hasPrefix]
    | cons a as =>
      simp only [hasPrefix, Bool.and_eq_true, beq_iff_eq, ih, List.cons_prefix_cons]
      constructor
      · rintro ⟨h1, h2⟩; exact ⟨h1.symm, h2⟩
      · rintro ⟨h1, h2⟩; exact ⟨h1.symm, h2⟩

/-- a prefix that ends in a slash cannot reach into a slash-free tail -/
theorem prefix_slash_of_append {a u v : Bytes} (h : a ++ [slash] <+: u ++ v) (hv : slash ∉ v) :
    a ++ [slash] <+: u := by
  by_cases hl : (a ++ [slash]).length ≤ u.length
  · exact List.prefix_of_prefix_length_le h (List.prefix_append u v) hl
  · exfalso
    obtain ⟨t, ht⟩ := h
    have hidx : (u ++ v)[a.length]? = some slash := by
      rw [← ht]; simp
    have hlen : u.length ≤ a.length := by simp at hl; omega
    rw [List.getElem?_append_right hlen] at hidx
    exact hv (List.mem_of_getElem? hidx)


/-- a protection scope written as a directory in normal form with a trailing slash, e.g. `/a/b/` -/
def DirBase (b : Bytes) : Prop := ∃ B, B ≠ [] ∧ NormalSegs B ∧ b = slash :: joinSlash B ++ [slash]

theorem splitOn_append_sep (sep : UInt8) (x : Bytes) : splitOn sep (x ++ [sep]) = splitOn sep x ++ [[]] := by
  induction x with
  | nil => simp [splitOn]
  | cons c cs ih =>
    by_cases hc : c = sep
    · simp [splitOn, hc, ih]
    · simp only [List.cons_append, splitOn, hc, if_false, ih]
      cases h : splitOn sep cs with
      | nil => exact absurd h (splitOn_ne_nil sep cs)
      | cons s ss => simp

theorem splitOn_append_seg (sep : UInt8) (x seg : Bytes) (h : sep ∉ seg) :
    splitOn sep (x ++ sep :: seg) = splitOn sep x ++ [seg] := by
  have single : ∀ s : Bytes, sep ∉ s → splitOn sep s = [s] := by
    intro s hs
    induction s with
    | nil => rfl
    | cons c cs ih =>
      have hc : c ≠ sep := fun hc => hs (by simp [hc])
      have hcs : sep ∉ cs := fun hm => hs (by simp [hm])
      simp only [splitOn, hc, if_false, ih hcs]
  induction x with
  | nil => simp [splitOn, single seg h]
  | cons c cs ih =>
    by_cases hc : c = sep
    · simp [splitOn, hc, ih]
    · simp only [List.cons_append, splitOn, hc, if_false, ih]
      cases h : splitOn sep cs with
      | nil => exact absurd h (splitOn_ne_nil sep cs)
      | cons s ss => simp

/-- one more (normal) element after a slash is one more element of the cleaned path -/
theorem cleanElems_append_seg (x seg : Bytes) (h : NormalSeg seg) :
    cleanElems true (x ++ slash :: seg) = cleanElems true x ++ [seg] := by
  unfold cleanElems
  rw [splitOn_append_seg slash x seg h.2.2.2, List.foldl_append]
  have h1 : ¬ (seg = [] ∨ seg = dotSeg) := fun hh => hh.elim h.1 h.2.1
  simp [cleanStep, h1, h.2.2.1]

theorem cleanElems_append_slash (x : Bytes) : cleanElems true (x ++ [slash]) = cleanElems true x := by
  unfold cleanElems
  rw [splitOn_append_sep, List.foldl_append]
  simp [cleanStep]

theorem dirBase_facts {b : Bytes} (h : DirBase b) :
    b ≠ [] ∧ b ≠ [slash] ∧ hasSuffix b [slash] = true ∧ clean b ++ [slash] = b := by
  obtain ⟨B, hne, hn, rfl⟩ := h
  have hlen : (joinSlash B).length ≥ 1 := by
    cases B with
    | nil => exact absurd rfl hne
    | cons s r =>
      have hs := hn s (by simp)
      have : s.length ≥ 1 := by
        cases s with
        | nil => exact absurd rfl hs.1
        | cons _ _ => simp
      cases r with
      | nil => simpa [joinSlash] using this
      | cons _ _ => simp only [joinSlash, List.length_append]; omega
  refine ⟨by simp, ?_, ?_, ?_⟩
  · intro hh
    have := congrArg List.length hh
    simp at this
  · rw [hasSuffix_singleton]
    rw [show slash :: joinSlash B ++ [slash] = (slash :: joinSlash B) ++ [slash] by simp, List.getLast?_append]
    simp
  · have : clean (slash :: joinSlash B ++ [slash]) = slash :: joinSlash B := by
      have e1 : slash :: joinSlash B ++ [slash] = slash :: (joinSlash B ++ [slash]) := by simp
      rw [e1, clean_rooted, jailElems_eq]
      have e2 : slash :: (joinSlash B ++ [slash]) = (slash :: joinSlash B) ++ [slash] := by simp
      rw [e2, cleanElems_append_slash, cleanElems_canon B hn]
    rw [this]

/-- `Path.Matches` against a directory scope in normal form: a prefix test on the normalised,
lower-cased request path -/
theorem pathMatches_dirBase {p b : Bytes} (h : DirBase b) :
    pathMatches p b = hasPrefix (toLower (if hasSuffix p [slash] then clean p ++ [slash] else clean p)) (toLower b) := by
  obtain ⟨h1, h2, h3, h4⟩ := dirBase_facts h
  unfold pathMatches
  have : ¬ (b = [slash] ∨ b = []) := fun hh => hh.elim h2 h1
  simp only [this, if_false, h3, if_true, h4]


/-- every resource, exclusion and internal path of the site is a directory scope in normal form -/
def DirScoped (cs : ChainSite) : Prop :=
  (∀ r ∈ cs.auth, (∀ b ∈ r.resources, DirBase b) ∧ (∀ b ∈ r.excludes, DirBase b)) ∧ ∀ b ∈ cs.internal, DirBase b

theorem any_congr_mem {α : Type} (l : List α) (f g : α → Bool) (h : ∀ x ∈ l, f x = g x) : l.any f = l.any g := by
  induction l with
  | nil => rfl
  | cons a r ih =>
    simp only [List.any_cons, h a (by simp), ih (fun x hx => h x (by simp [hx]))]

/-- If every directory scope decides the same on `c` and on `p`, a site whose scopes are all
directory scopes treats `c` and `p` alike. -/
theorem covered_congr {cs : ChainSite} {creds : Option (Bytes × Bytes)} {c p : Bytes} (hds : DirScoped cs)
    (h : ∀ b, DirBase b → pathMatches c b = pathMatches p b) : covered cs creds c = covered cs creds p := by
  have hr : ∀ r ∈ cs.auth, ruleCovers r c = ruleCovers r p := by
    intro r hr
    unfold ruleCovers
    rw [any_congr_mem r.resources _ _ (fun b hb => h b ((hds.1 r hr).1 b hb)),
      any_congr_mem r.excludes _ _ (fun b hb => h b ((hds.1 r hr).2 b hb))]
  unfold covered needsAuth isInternal
  rw [any_congr_mem cs.auth _ _ hr,
    any_congr_mem cs.auth (fun r => ruleCovers r c && ruleAccepts r creds) (fun r => ruleCovers r p && ruleAccepts r creds)
      (fun r hm => by rw [hr r hm]),
    any_congr_mem cs.internal _ _ (fun b hb => h b (hds.2 b hb))]

theorem toLower_ne_nil {s : Bytes} (h : s ≠ []) : toLower s ≠ [] := by
  fun_induction toLower s <;> simp_all

theorem joinSlash_append_singleton {E : List Bytes} (hE : E ≠ []) (x : Bytes) :
    joinSlash (E ++ [x]) = joinSlash E ++ slash :: x := by
  induction E with
  | nil => exact absurd rfl hE
  | cons s r ih =>
    cases r with
    | nil => simp [joinSlash]
    | cons s2 r2 =>
      have := ih (by simp)
      simp only [List.cons_append, joinSlash] at this ⊢
      rw [this]; simp

/-- the lower-cased form of a directory scope: `/`, something that does not start with `/`, `/` -/
theorem toLower_dirBase {b : Bytes} (h : DirBase b) :
    ∃ J, toLower b = slash :: J ++ [slash] ∧ J ≠ [] ∧ J.head? ≠ some slash := by
  obtain ⟨B, hne, hn, rfl⟩ := h
  refine ⟨toLower (joinSlash B), ?_, ?_, ?_⟩
  · rw [show slash :: joinSlash B ++ [slash] = (slash :: joinSlash B) ++ slash :: [] by simp, toLower_append_slash,
      toLower_cons_slash]
    simp [toLower]
  · apply toLower_ne_nil
    cases B with
    | nil => exact absurd rfl hne
    | cons s r =>
      have hs := hn s (by simp)
      cases r with
      | nil => simpa [joinSlash] using hs.1
      | cons _ _ => simp only [joinSlash]; intro hh; exact hs.1 (List.append_eq_nil_iff.mp hh).1
  · cases B with
    | nil => exact absurd rfl hne
    | cons s r =>
      have hs := hn s (by simp)
      have hsl : slash ∉ toLower s := slash_not_mem_toLower hs.2.2.2
      have hnn : toLower s ≠ [] := toLower_ne_nil hs.1
      have hhead : (toLower s).head? ≠ some slash := by
        intro hc
        cases hts : toLower s with
        | nil => exact hnn hts
        | cons a t => rw [hts] at hc hsl; simp at hc; exact hsl (by simp [hc])
      cases r with
      | nil => simpa [joinSlash] using hhead
      | cons s2 r2 =>
        simp only [joinSlash]
        rw [toLower_append_slash, head?_append_of_ne_nil hnn]
        exact hhead


theorem bool_eq_of_iff {a b : Bool} (h : a = true ↔ b = true) : a = b := by
  cases a <;> cases b <;> simp_all

theorem normalSegs_append_singleton {E : List Bytes} {x : Bytes} (hE : NormalSegs E) (hx : NormalSeg x) :
    NormalSegs (E ++ [x]) := by
  intro s hs
  rcases List.mem_append.mp hs with h | h
  · exact hE s h
  · simp at h; subst h; exact hx

/-- a canonical file URL (no trailing slash) against a directory scope -/
theorem pathMatches_canon_dirBase {C : List Bytes} {b : Bytes} (hC : C ≠ []) (hn : NormalSegs C) (hb : DirBase b) :
    pathMatches (slash :: joinSlash C) b = hasPrefix (toLower (slash :: joinSlash C)) (toLower b) := by
  rw [pathMatches_dirBase hb]
  have hs : hasSuffix (slash :: joinSlash C) [slash] = false := by
    cases hh : hasSuffix (slash :: joinSlash C) [slash] with
    | false => rfl
    | true =>
      have h1 := (hasSuffix_singleton _ _).mp hh
      have hj := getLast?_joinSlash hC hn
      cases hJ : joinSlash C with
      | nil =>
        cases C with
        | nil => exact absurd rfl hC
        | cons s r =>
          have hs := hn s (by simp)
          cases r with
          | nil => simp [joinSlash] at hJ; exact absurd hJ hs.1
          | cons _ _ => simp [joinSlash] at hJ
      | cons y ys =>
        rw [hJ] at h1 hj
        rw [List.getLast?_cons_cons] at h1
        exact absurd h1 hj
  simp only [hs, Bool.false_eq_true, if_false]
  rw [clean_canon C hn]

/-- The index page of a directory and the directory URL (with trailing slash, any spelling)
fall under exactly the same directory scopes. -/
theorem index_pathMatches {t ip b : Bytes} (hlast : (slash :: t).getLast? = some slash) (hip : NormalSeg ip)
    (hb : DirBase b) :
    pathMatches (slash :: joinSlash (jailElems (slash :: t) ++ [ip])) b = pathMatches (slash :: t) b := by
  have hnE := jailElems_normal (slash :: t)
  have hnC := normalSegs_append_singleton hnE hip
  rw [pathMatches_canon_dirBase (by simp) hnC hb, pathMatches_dirBase hb]
  have hsuf : hasSuffix (slash :: t) [slash] = true := (hasSuffix_singleton _ _).mpr hlast
  simp only [hsuf, if_true]
  rw [clean_rooted]
  obtain ⟨J, hJ, hJne, hJh⟩ := toLower_dirBase hb
  rw [hJ]
  have hipl : slash ∉ toLower ip := slash_not_mem_toLower hip.2.2.2
  generalize jailElems (slash :: t) = E at *
  apply bool_eq_of_iff
  rw [hasPrefix_iff, hasPrefix_iff]
  by_cases hE : E = []
  · subst hE
    -- the root: no directory scope matches "/ip" or "//"
    have e1 : toLower (slash :: joinSlash ([] ++ [ip])) = slash :: toLower ip := by
      simp [joinSlash, toLower_cons_slash]
    have e2 : toLower (slash :: joinSlash [] ++ [slash]) = [slash, slash] := by decide
    rw [e1, e2]
    constructor
    · intro h
      exfalso
      rw [show slash :: J ++ [slash] = slash :: (J ++ [slash]) by simp, List.cons_prefix_cons] at h
      have := List.IsPrefix.subset h.2 (by simp : slash ∈ J ++ [slash])
      exact hipl this
    · intro h
      exfalso
      rw [show slash :: J ++ [slash] = slash :: (J ++ [slash]) by simp, List.cons_prefix_cons] at h
      have h2 := h.2
      cases J with
      | nil => exact hJne rfl
      | cons a r =>
        simp only [List.cons_append, List.cons_prefix_cons] at h2
        exact hJh (by simp [h2.1])
  · rw [joinSlash_append_singleton hE ip]
    rw [show slash :: (joinSlash E ++ slash :: ip) = (slash :: joinSlash E) ++ slash :: ip by simp, toLower_append_slash]
    rw [show slash :: joinSlash E ++ [slash] = (slash :: joinSlash E) ++ slash :: [] by simp, toLower_append_slash]
    simp only [toLower]
    generalize toLower (slash :: joinSlash E) = T
    have e1 : T ++ slash :: toLower ip = (T ++ [slash]) ++ toLower ip := by simp
    constructor
    · intro h
      rw [e1, show slash :: J ++ [slash] = (slash :: J) ++ [slash] by simp] at h
      have := prefix_slash_of_append h hipl
      simpa using this
    · intro h
      rw [e1]
      exact List.IsPrefix.trans h (List.prefix_append _ _)


theorem jailElems_join2 {t ip : Bytes} (hip : NormalSeg ip) :
    jailElems (join2 (slash :: t) ip) = jailElems (slash :: t) ++ [ip] := by
  have hj : join2 (slash :: t) ip = clean (slash :: t ++ slash :: ip) := by
    unfold join2
    have h1 : ¬ (slash :: t = [] ∧ ip = []) := by simp
    have h2 : slash :: t ≠ [] := by simp
    simp [h1, h2, hip.1]
  rw [hj, show slash :: t ++ slash :: ip = slash :: (t ++ slash :: ip) by simp, clean_rooted,
    jailElems_eq (slash :: joinSlash _), cleanElems_canon _ (jailElems_normal _), jailElems_eq,
    show slash :: (t ++ slash :: ip) = (slash :: t) ++ slash :: ip by simp, cleanElems_append_seg _ _ hip,
    ← jailElems_eq]

/-- With directory scopes only, an index page is covered exactly when its directory URL is. -/
theorem index_covered_eq {fs : FS} {cs : ChainSite} {creds : Option (Bytes × Bytes)} {p ip : Bytes} {e : Entry}
    (hds : DirScoped cs) (hroot : NormalSegs cs.site.root) (hip : NormalSeg ip)
    (hp : Rooted p) (hlast : p.getLast? = some slash)
    (ho : dirOpen fs cs.site.root (join2 p ip) = .ok e) :
    covered cs creds (canonURL cs.site e) = covered cs creds p := by
  obtain ⟨t, rfl⟩ := hp
  rw [canonURL_of_open hroot ho, jailElems_join2 hip]
  exact covered_congr hds (fun b hb => index_pathMatches hlast hip hb)


/-! ### precompressed siblings -/

/-- lower-casing commutes with appending something whose first byte cannot complete one of the
two multi-byte patterns -/
theorem toLower_append_of_head (x y : Bytes) (hy : ∀ c r, y = c :: r → c ≠ 132 ∧ c ≠ 170 ∧ c ≠ 176) :
    toLower (x ++ y) = toLower x ++ toLower y := by
  fun_induction toLower x with
  | case1 rest ih => simp [toLower, ih]
  | case2 rest ih => simp [toLower, ih]
  | case3 c rest h1 h2 ih =>
    have e := toLower.eq_3 c (rest ++ y)
      (by
        intro r hc hh
        cases rest with
        | nil => simp only [List.nil_append] at hh; exact (hy _ _ hh).1 rfl
        | cons a r2 =>
          cases r2 with
          | nil =>
            simp only [List.cons_append, List.nil_append, List.cons.injEq] at hh
            exact (hy _ _ hh.2).2.1 rfl
          | cons b r3 =>
            simp only [List.cons_append, List.cons.injEq] at hh
            exact h1 r3 hc (by rw [hh.1, hh.2.1]))
      (by
        intro r hc hh
        cases rest with
        | nil => simp only [List.nil_append] at hh; exact (hy _ _ hh).2.2 rfl
        | cons a r2 =>
          simp only [List.cons_append, List.cons.injEq] at hh
          exact h2 r2 hc (by rw [hh.1]))
    simp only [List.cons_append]
    rw [e, ih]
  | case4 => simp [toLower]

/-- an extension as in `staticEncodingPriority`: a dot, a byte that is not a dot, no slash -/
def PlainExt (ext : Bytes) : Prop := ∃ c r, ext = dot :: c :: r ∧ c ≠ dot ∧ slash ∉ ext

theorem normalSeg_append_ext {l ext : Bytes} (hl : slash ∉ l) (he : PlainExt ext) : NormalSeg (l ++ ext) := by
  obtain ⟨c, r, rfl, hc, hs⟩ := he
  refine ⟨by simp, ?_, ?_, ?_⟩
  · intro h
    have := congrArg List.length h
    simp [dotSeg] at this
    omega
  · intro h
    cases l with
    | nil => simp [dotdotSeg] at h; exact hc h.1
    | cons a l' =>
      have := congrArg List.length h
      simp [dotdotSeg] at this
      omega
  · intro hm
    rcases List.mem_append.mp hm with h | h
    · exact hl h
    · exact hs h

theorem exists_last_seg (t : Bytes) : ∃ q0 l, slash :: t = q0 ++ slash :: l ∧ slash ∉ l := by
  induction t with
  | nil => exact ⟨[], [], rfl, by simp⟩
  | cons c r ih =>
    obtain ⟨q0, l, h, hl⟩ := ih
    by_cases hc : c = slash
    · -- slash :: slash :: r : shift the decomposition of slash :: r
      subst hc
      exact ⟨slash :: q0, l, by rw [h]; simp, hl⟩
    · cases q0 with
      | nil =>
        simp only [List.nil_append, List.cons.injEq, true_and] at h
        subst h
        exact ⟨[], c :: r, rfl, by simp [hc, hl]; exact fun h => hc h.symm⟩
      | cons a q1 =>
        simp only [List.cons_append, List.cons.injEq] at h
        exact ⟨slash :: c :: q1, l, by rw [h.2]; simp, hl⟩

theorem osWalk_prefix_dir {fs : FS} (A B cur : List Bytes) {e : Entry} (hn : NormalSegs (A ++ B)) (hB : B ≠ [])
    (h : osWalk fs cur (A ++ B) = .ok e) : ∃ d, stat fs (cur ++ A) = some d ∧ d.isDir = true := by
  induction A generalizing cur with
  | nil =>
    cases B with
    | nil => exact absurd rfl hB
    | cons b B' =>
      simp only [List.nil_append] at h
      unfold osWalk at h
      cases hs : stat fs cur with
      | none => simp [hs] at h
      | some d =>
        simp only [hs] at h
        by_cases hd : d.isDir = true
        · exact ⟨d, by simpa using hs, hd⟩
        · simp [hd] at h
  | cons a A' ih =>
    have hna := hn a (by simp)
    simp only [List.cons_append] at h
    unfold osWalk at h
    cases hs : stat fs cur with
    | none => simp [hs] at h
    | some d =>
      simp only [hs] at h
      by_cases hd : d.isDir = true
      · have h1 : ¬ (a = [] ∨ a = dotSeg) := fun hh => hh.elim hna.1 hna.2.1
        simp only [hd, Bool.not_true, Bool.false_eq_true, if_false, h1, hna.2.2.1] at h
        by_cases hl : a.length > 255
        · simp [hl] at h
        · simp only [hl, if_false] at h
          obtain ⟨d', hd', hdir⟩ := ih (cur ++ [a]) (fun x hx => hn x (by simp at hx ⊢; exact Or.inr hx)) h
          exact ⟨d', by simpa using hd', hdir⟩
      · simp [hd] at h


theorem joinSlash_append_ext (J0 : List Bytes) (l ext : Bytes) :
    joinSlash (J0 ++ [l ++ ext]) = joinSlash (J0 ++ [l]) ++ ext := by
  by_cases h : J0 = []
  · subst h; simp [joinSlash]
  · rw [joinSlash_append_singleton h, joinSlash_append_singleton h]; simp

/-- a file and its precompressed sibling fall under exactly the same directory scopes -/
theorem sibling_pathMatches {J0 : List Bytes} {l ext b : Bytes} (hJ : NormalSegs J0) (hl : NormalSeg l)
    (hext : PlainExt ext) (hb : DirBase b) :
    pathMatches (slash :: joinSlash (J0 ++ [l ++ ext])) b = pathMatches (slash :: joinSlash (J0 ++ [l])) b := by
  have hle := normalSeg_append_ext hl.2.2.2 hext
  rw [pathMatches_canon_dirBase (by simp) (normalSegs_append_singleton hJ hle) hb,
    pathMatches_canon_dirBase (by simp) (normalSegs_append_singleton hJ hl) hb, joinSlash_append_ext]
  obtain ⟨c, r, hext', hc, hs⟩ := hext
  have hhead : ∀ c' r', ext = c' :: r' → c' ≠ 132 ∧ c' ≠ 170 ∧ c' ≠ 176 := by
    intro c' r' h
    rw [hext'] at h
    simp only [List.cons.injEq] at h
    rw [← h.1]; decide
  rw [show slash :: (joinSlash (J0 ++ [l]) ++ ext) = (slash :: joinSlash (J0 ++ [l])) ++ ext by simp,
    toLower_append_of_head _ _ hhead]
  obtain ⟨J, hJe, _, _⟩ := toLower_dirBase hb
  rw [hJe]
  have hsl : slash ∉ toLower ext := slash_not_mem_toLower (hext' ▸ hs)
  apply bool_eq_of_iff
  rw [hasPrefix_iff, hasPrefix_iff]
  constructor
  · intro h
    rw [show slash :: J ++ [slash] = (slash :: J) ++ [slash] by simp] at h
    have := prefix_slash_of_append h hsl
    simpa using this
  · intro h
    exact List.IsPrefix.trans h (List.prefix_append _ _)

theorem dirOpen_inv {fs : FS} {root : List Bytes} {n : Bytes} {e : Entry} (h : dirOpen fs root n = .ok e) :
    osWalk fs [] (root ++ jailElems n) = .ok e := by
  unfold dirOpen at h
  by_cases hl : localizeOk (jailElems n) = true
  · simpa [hl, osOpen] using h
  · simp [hl] at h

theorem cleanElems_append_dot (x : Bytes) : cleanElems true (x ++ slash :: dotSeg) = cleanElems true x := by
  unfold cleanElems
  rw [splitOn_append_seg slash x dotSeg (by decide), List.foldl_append]
  simp [cleanStep]

theorem cleanElems_append_dotdot (x : Bytes) :
    cleanElems true (x ++ slash :: dotdotSeg) = (cleanElems true x).dropLast := by
  unfold cleanElems
  rw [splitOn_append_seg slash x dotdotSeg (by decide), List.foldl_append]
  have hn : NormalSegs ((splitOn slash x).foldl (cleanStep true) []) :=
    foldl_cleanStep_normal _ [] (by simp [NormalSegs]) (splitOn_no_sep slash x)
  generalize (splitOn slash x).foldl (cleanStep true) [] = st at hn
  have h1 : ¬ (dotdotSeg = [] ∨ dotdotSeg = dotSeg) := by decide
  cases st with
  | nil => simp [cleanStep, h1]
  | cons top rest =>
    have htop : top ≠ dotdotSeg := (hn top (by simp)).2.2.1
    simp [cleanStep, h1, htop]

/-- With directory scopes only, a precompressed sibling is covered exactly when the plain file is. -/
theorem sibling_covered_eq {fs : FS} {cs : ChainSite} {creds : Option (Bytes × Bytes)} {q ext : Bytes} {e0 e : Entry}
    (hds : DirScoped cs) (hroot : NormalSegs cs.site.root) (hrd : RootIsDir fs cs.site) (hext : PlainExt ext)
    (hq : Rooted q) (hlast : q.getLast? ≠ some slash)
    (ho0 : dirOpen fs cs.site.root q = .ok e0) (hf0 : e0.isDir = false)
    (ho : dirOpen fs cs.site.root (q ++ ext) = .ok e) :
    covered cs creds (canonURL cs.site e) = covered cs creds (canonURL cs.site e0) := by
  obtain ⟨t, rfl⟩ := hq
  obtain ⟨q0, l, hdec, hl⟩ := exists_last_seg t
  have hlne : l ≠ [] := by
    intro h; subst h
    apply hlast; rw [hdec]; simp
  have hJ0 : NormalSegs (cleanElems true q0) := cleanElems_true_normal q0
  have hle := normalSeg_append_ext hl hext
  -- where the sibling lives
  have hjs : jailElems (slash :: t ++ ext) = cleanElems true q0 ++ [l ++ ext] := by
    rw [jailElems_eq, hdec, show q0 ++ slash :: l ++ ext = q0 ++ slash :: (l ++ ext) by simp,
      cleanElems_append_seg _ _ hle]
  have hw := dirOpen_inv ho
  rw [hjs] at hw
  have hnall : NormalSegs (cs.site.root ++ (cleanElems true q0 ++ [l ++ ext])) := by
    intro s hs
    rcases List.mem_append.mp hs with h | h
    · exact hroot s h
    · exact normalSegs_append_singleton hJ0 hle s h
  -- the directory it lives in is a directory
  obtain ⟨d, hd, hddir⟩ := osWalk_prefix_dir (cs.site.root ++ cleanElems true q0) [l ++ ext] []
    (by simpa [List.append_assoc] using hnall) (by simp) (by simpa [List.append_assoc] using hw)
  simp only [List.nil_append] at hd
  have hw0 := dirOpen_inv ho0
  rw [jailElems_eq, hdec] at hw0
  by_cases hnl : NormalSeg l
  · -- the ordinary case
    rw [cleanElems_append_seg _ _ hnl] at hw0
    have hc0 : canonURL cs.site e0 = slash :: joinSlash (cleanElems true q0 ++ [l]) := by
      rw [canonURL_of_open hroot ho0, jailElems_eq, hdec, cleanElems_append_seg _ _ hnl]
    have hc : canonURL cs.site e = slash :: joinSlash (cleanElems true q0 ++ [l ++ ext]) := by
      rw [canonURL_of_open hroot ho, hjs]
    rw [hc0, hc]
    exact covered_congr hds (fun b hb => sibling_pathMatches hJ0 hnl hext hb)
  · -- the last element of the spelling is "." or "..": the named file would have to be a directory
    exfalso
    have hdots : l = dotSeg ∨ l = dotdotSeg := by
      by_cases h1 : l = dotSeg
      · exact Or.inl h1
      · by_cases h2 : l = dotdotSeg
        · exact Or.inr h2
        · exact absurd ⟨hlne, h1, h2, hl⟩ hnl
    rcases hdots with h | h
    · subst h
      rw [cleanElems_append_dot] at hw0
      have hst := osWalk_stat (fs := fs) (cur := []) (by
        intro s hs
        rcases List.mem_append.mp hs with h | h
        · exact hroot s h
        · exact hJ0 s h) hw0
      simp only [List.nil_append] at hst
      rw [hst] at hd
      simp only [Option.some.injEq] at hd
      subst hd
      rw [hddir] at hf0; cases hf0
    · subst h
      rw [cleanElems_append_dotdot] at hw0
      have hnd : NormalSegs (cs.site.root ++ (cleanElems true q0).dropLast) := by
        intro s hs
        rcases List.mem_append.mp hs with h | h
        · exact hroot s h
        · exact hJ0 s (List.dropLast_subset _ h)
      have hst := osWalk_stat (fs := fs) (cur := []) hnd hw0
      simp only [List.nil_append] at hst
      by_cases hJe : cleanElems true q0 = []
      · rw [hJe] at hst
        simp only [List.dropLast_nil, List.append_nil] at hst
        have := hrd e0 hst
        rw [this] at hf0; cases hf0
      · have hsplit : cleanElems true q0 = (cleanElems true q0).dropLast ++ [(cleanElems true q0).getLast hJe] :=
          (List.dropLast_concat_getLast hJe).symm
        have hw' : osWalk fs [] ((cs.site.root ++ (cleanElems true q0).dropLast) ++
            [(cleanElems true q0).getLast hJe, dotdotSeg ++ ext]) = .ok e := by
          have : cs.site.root ++ (cleanElems true q0 ++ [dotdotSeg ++ ext]) =
              (cs.site.root ++ (cleanElems true q0).dropLast) ++ [(cleanElems true q0).getLast hJe, dotdotSeg ++ ext] := by
            conv => lhs; rw [hsplit]
            simp
          rw [← this]; exact hw
        obtain ⟨d2, hd2, hd2dir⟩ := osWalk_prefix_dir _ _ [] (by
          intro s hs
          have : s ∈ cs.site.root ++ (cleanElems true q0 ++ [dotdotSeg ++ ext]) := by
            rcases List.mem_append.mp hs with h | h
            · rcases List.mem_append.mp h with h | h
              · simp [h]
              · simp [List.dropLast_subset _ h]
            · simp at h
              rcases h with h | h
              · subst h; simp [List.getLast_mem]
              · subst h; simp
          exact hnall s this) (by simp) hw'
        simp only [List.nil_append] at hd2
        rw [hst] at hd2
        simp only [Option.some.injEq] at hd2
        subst hd2
        rw [hd2dir] at hf0; cases hf0


/-! ### the syntactic theorem -/

/-- index names are ordinary file names, sibling extensions look like `.gz` -/
def PlainNames (site : Site) : Prop :=
  (∀ ip ∈ site.indexPages, NormalSeg ip) ∧ ∀ ne ∈ site.encodings, PlainExt ne.2

theorem join2_shape {t ip : Bytes} (hip : NormalSeg ip) :
    Rooted (join2 (slash :: t) ip) ∧ (join2 (slash :: t) ip).getLast? ≠ some slash := by
  have hj : join2 (slash :: t) ip = slash :: joinSlash (jailElems (slash :: t) ++ [ip]) := by
    have h0 : join2 (slash :: t) ip = clean (slash :: (t ++ slash :: ip)) := by
      unfold join2
      have h1 : ¬ (slash :: t = [] ∧ ip = []) := by simp
      have h2 : slash :: t ≠ [] := by simp
      simp [h1, h2, hip.1]
    rw [h0, clean_rooted, jailElems_eq, show slash :: (t ++ slash :: ip) = (slash :: t) ++ slash :: ip by simp,
      cleanElems_append_seg _ _ hip, ← jailElems_eq]
  rw [hj]
  refine ⟨⟨_, rfl⟩, ?_⟩
  have hn := normalSegs_append_singleton (jailElems_normal (slash :: t)) hip
  have hl := getLast?_joinSlash (E := jailElems (slash :: t) ++ [ip]) (by simp) hn
  cases hJ : joinSlash (jailElems (slash :: t) ++ [ip]) with
  | nil =>
    exfalso
    generalize jailElems (slash :: t) = E at hJ hn
    cases E with
    | nil => simp [joinSlash] at hJ; exact hip.1 hJ
    | cons s r =>
      rw [joinSlash_append_singleton (by simp)] at hJ
      simp at hJ
  | cons y ys =>
    rw [hJ] at hl
    rw [List.getLast?_cons_cons]
    exact hl

theorem indexSafe_of_dirScoped {fs : FS} {cs : ChainSite} {creds : Option (Bytes × Bytes)}
    (hds : DirScoped cs) (hroot : NormalSegs cs.site.root) (hpn : PlainNames cs.site) : IndexSafe fs cs creds := by
  intro p ip e hp hlast hip ho _ hc
  rw [← index_covered_eq hds hroot (hpn.1 ip hip) hp hlast ho]
  exact hc

theorem siblingSafe_of_dirScoped {fs : FS} {cs : ChainSite} {creds : Option (Bytes × Bytes)}
    (hds : DirScoped cs) (hroot : NormalSegs cs.site.root) (hrd : RootIsDir fs cs.site) (hpn : PlainNames cs.site) :
    SiblingSafe fs cs creds := by
  intro q ne e0 e hsrc ho0 hf0 hne ho _ hc
  have hq : Rooted q ∧ q.getLast? ≠ some slash := by
    rcases hsrc with h | ⟨p, ip, ⟨t, rfl⟩, hip, rfl⟩
    · exact h
    · exact join2_shape (hpn.1 ip hip)
  rw [← sibling_covered_eq hds hroot hrd (hpn.2 ne hne) hq.1 hq.2 ho0 hf0 ho]
  exact hc

/-- The no-disclosure theorem with syntactic hypotheses: every protection scope is a directory
written in normal form with a trailing slash (`/secret/`), index names and sibling extensions
are plain, no browse scope offers archives, the site does not proxy. -/
theorem chainServe_verdict_ok_dirScoped {fs : FS} {cs : ChainSite} {r : CReq}
    (hroot : NormalSegs cs.site.root) (hpre : NormalPrefix cs.site.pathPrefix) (hrd : RootIsDir fs cs.site)
    (hw : TargetsNonEmpty cs) (hl : NoHardLinks fs)
    (hds : DirScoped cs) (hpn : PlainNames cs.site) (hna : NoArchives cs.site) (hnp : cs.proxies = []) :
    ChainSpec.verdict fs cs r (chainServe fs cs r) = "ok" :=
  chainServe_verdict_ok hroot hpre hrd hw hl
    (indexSafe_of_dirScoped hds hroot hpn) (siblingSafe_of_dirScoped hds hroot hrd hpn) (archiveSafe_of_noArchives hna)
    ⟨by intro p x hx; rw [hnp] at hx; simp at hx, by intro x hx; rw [hnp] at hx; simp at hx⟩

/-! ## §7 archives and proxies: scopes that do not lie strictly above a protection scope -/

/-- the normal form `Path.Matches` compares: cleaned, trailing slash kept -/
def norm (x : Bytes) : Bytes := if hasSuffix x [slash] then clean x ++ [slash] else clean x

theorem pathMatches_norm (p b : Bytes) :
    pathMatches p b = if b = [slash] ∨ b = [] then true else hasPrefix (toLower (norm p)) (toLower (norm b)) := rfl

/-- every path a protection directive of the site names -/
def allBases (cs : ChainSite) : List Bytes := cs.auth.flatMap (fun r => r.resources ++ r.excludes) ++ cs.internal

theorem covered_congr_mem {cs : ChainSite} {creds : Option (Bytes × Bytes)} {c p : Bytes}
    (h : ∀ b ∈ allBases cs, pathMatches c b = pathMatches p b) : covered cs creds c = covered cs creds p := by
  have hb : ∀ r ∈ cs.auth, ∀ b ∈ r.resources ++ r.excludes, b ∈ allBases cs := by
    intro r hr b hb
    unfold allBases
    exact List.mem_append_left _ (List.mem_flatMap.mpr ⟨r, hr, hb⟩)
  have hr : ∀ r ∈ cs.auth, ruleCovers r c = ruleCovers r p := by
    intro r hr
    unfold ruleCovers
    rw [any_congr_mem r.resources _ _ (fun b hm => h b (hb r hr b (List.mem_append_left _ hm))),
      any_congr_mem r.excludes _ _ (fun b hm => h b (hb r hr b (List.mem_append_right _ hm)))]
  unfold covered needsAuth isInternal
  rw [any_congr_mem cs.auth _ _ hr,
    any_congr_mem cs.auth (fun r => ruleCovers r c && ruleAccepts r creds) (fun r => ruleCovers r p && ruleAccepts r creds)
      (fun r hm => by rw [hr r hm]),
    any_congr_mem cs.internal _ _ (fun b hm => h b (List.mem_append_right _ hm))]

theorem dirScoped_allBases {cs : ChainSite} (hds : DirScoped cs) : ∀ b ∈ allBases cs, DirBase b := by
  intro b hb
  unfold allBases at hb
  rcases List.mem_append.mp hb with h | h
  · obtain ⟨r, hr, hm⟩ := List.mem_flatMap.mp h
    rcases List.mem_append.mp hm with h1 | h1
    · exact (hds.1 r hr).1 b h1
    · exact (hds.1 r hr).2 b h1
  · exact hds.2 b h

/-- a browse or proxy scope in normal form: `/`, `/a/b` or `/a/b/` -/
def PlainScope (s : Bytes) : Prop :=
  s = [slash] ∨ ∃ S, S ≠ [] ∧ NormalSegs S ∧ (s = slash :: joinSlash S ∨ s = slash :: joinSlash S ++ [slash])

theorem toLower_join_head {S : List Bytes} (hne : S ≠ []) (hn : NormalSegs S) :
    toLower (joinSlash S) ≠ [] ∧ (toLower (joinSlash S)).head? ≠ some slash := by
  have hb : DirBase (slash :: joinSlash S ++ [slash]) := ⟨S, hne, hn, rfl⟩
  obtain ⟨J, hJ, h1, h2⟩ := toLower_dirBase hb
  have : toLower (slash :: joinSlash S ++ [slash]) = slash :: toLower (joinSlash S) ++ [slash] := by
    rw [show slash :: joinSlash S ++ [slash] = (slash :: joinSlash S) ++ slash :: [] by simp, toLower_append_slash,
      toLower_cons_slash]
    simp [toLower]
  rw [this] at hJ
  have hJe : toLower (joinSlash S) = J := by
    have := List.cons.inj hJ
    exact List.append_cancel_right this.2
  rw [hJe]; exact ⟨h1, h2⟩

/-- a non-trivial plain scope is its own normal form and starts with `/x`, x ≠ `/` -/
theorem plainScope_facts {s : Bytes} (h : PlainScope s) (hs : s ≠ [slash]) :
    s ≠ [] ∧ norm s = s ∧ ∃ J, toLower s = slash :: J ∧ J ≠ [] ∧ J.head? ≠ some slash := by
  rcases h with h | ⟨S, hne, hn, h | h⟩
  · exact absurd h hs
  · subst h
    obtain ⟨h1, h2⟩ := toLower_join_head hne hn
    refine ⟨by simp, ?_, toLower (joinSlash S), toLower_cons_slash _, h1, h2⟩
    unfold norm
    have hsuf : hasSuffix (slash :: joinSlash S) [slash] = false := by
      cases hh : hasSuffix (slash :: joinSlash S) [slash] with
      | false => rfl
      | true =>
        have hl := (hasSuffix_singleton _ _).mp hh
        have hj := getLast?_joinSlash hne hn
        cases hJ : joinSlash S with
        | nil => rw [hJ] at h1; simp [toLower] at h1
        | cons y ys => rw [hJ] at hl hj; rw [List.getLast?_cons_cons] at hl; exact absurd hl hj
    simp only [hsuf, Bool.false_eq_true, if_false]
    exact clean_canon S hn
  · subst h
    have hb : DirBase (slash :: joinSlash S ++ [slash]) := ⟨S, hne, hn, rfl⟩
    obtain ⟨f1, f2, f3, f4⟩ := dirBase_facts hb
    obtain ⟨h1, h2⟩ := toLower_join_head hne hn
    refine ⟨f1, ?_, toLower (joinSlash S) ++ [slash], ?_, by simp, ?_⟩
    · unfold norm; simp only [f3, if_true, f4]
    · rw [show slash :: joinSlash S ++ [slash] = (slash :: joinSlash S) ++ slash :: [] by simp, toLower_append_slash,
        toLower_cons_slash]
      simp [toLower]
    · rw [head?_append_of_ne_nil h1]; exact h2

theorem norm_dirBase {b : Bytes} (h : DirBase b) : norm b = b := by
  obtain ⟨_, _, f3, f4⟩ := dirBase_facts h
  unfold norm; simp only [f3, if_true, f4]

/-- the scope does not lie strictly above a protection scope: whatever protection scope lies
under it contains it -/
def ScopeClear (cs : ChainSite) (s : Bytes) : Prop :=
  PlainScope s ∧ ∀ b ∈ allBases cs, pathMatches b s = true → pathMatches s b = true


theorem joinSlash_append {E R : List Bytes} (hE : E ≠ []) (hR : R ≠ []) :
    joinSlash (E ++ R) = joinSlash E ++ slash :: joinSlash R := by
  induction E with
  | nil => exact absurd rfl hE
  | cons s r ih =>
    cases r with
    | nil =>
      cases R with
      | nil => exact absurd rfl hR
      | cons x xs => simp [joinSlash]
    | cons s2 r2 =>
      have := ih (by simp)
      simp only [List.cons_append, joinSlash] at this ⊢
      rw [this]; simp

/-- no directory scope matches the path `/` -/
theorem dirBase_not_root {b : Bytes} (hb : DirBase b) : hasPrefix (toLower [slash, slash]) (toLower b) = false := by
  obtain ⟨J, hJ, hJne, hJh⟩ := toLower_dirBase hb
  cases hh : hasPrefix (toLower [slash, slash]) (toLower b) with
  | false => rfl
  | true =>
    exfalso
    rw [hasPrefix_iff, hJ, show toLower [slash, slash] = [slash, slash] by decide,
      show slash :: J ++ [slash] = slash :: (J ++ [slash]) by simp, List.cons_prefix_cons] at hh
    cases J with
    | nil => exact hJne rfl
    | cons a r =>
      have h2 := hh.2
      simp only [List.cons_append, List.cons_prefix_cons] at h2
      exact hJh (by simp [h2.1])

theorem scopeClear_trivial_no_bases {cs : ChainSite} (hds : DirScoped cs) (hsc : ScopeClear cs [slash]) :
    ∀ b, b ∉ allBases cs := by
  intro b hb
  have hdb := dirScoped_allBases hds b hb
  have h1 := hsc.2 b hb (by simp [pathMatches])
  rw [pathMatches_dirBase hdb] at h1
  have hn : (if hasSuffix [slash] [slash] = true then clean [slash] ++ [slash] else clean [slash]) = [slash, slash] := by decide
  rw [hn, dirBase_not_root hdb] at h1
  cases h1

/-- Inside a clear archive scope, a file below a directory and the directory URL fall under
exactly the same protection scopes of the site. -/
theorem archive_pathMatches {cs : ChainSite} (hds : DirScoped cs) {s t b : Bytes} {R : List Bytes}
    (hsc : ScopeClear cs s) (hlast : (slash :: t).getLast? = some slash)
    (hs : pathMatches (slash :: t) s = true) (hR : R ≠ [])
    (hn : NormalSegs (jailElems (slash :: t) ++ R)) (hb : b ∈ allBases cs) :
    pathMatches (slash :: joinSlash (jailElems (slash :: t) ++ R)) b = pathMatches (slash :: t) b := by
  have hdb := dirScoped_allBases hds b hb
  have hsuf : hasSuffix (slash :: t) [slash] = true := (hasSuffix_singleton _ _).mpr hlast
  rw [pathMatches_canon_dirBase (by simp [hR]) hn hdb, pathMatches_dirBase hdb]
  simp only [hsuf, if_true]
  rw [clean_rooted]
  -- how the scope matched the directory URL
  have hs' := hs
  rw [pathMatches_norm] at hs'
  have hnp : norm (slash :: t) = slash :: joinSlash (jailElems (slash :: t)) ++ [slash] := by
    unfold norm; simp only [hsuf, if_true]; rw [clean_rooted]
  rw [hnp] at hs'
  generalize jailElems (slash :: t) = E at *
  by_cases hE : E = []
  · -- the site root: only the scope "/" matches it, and a clear "/" means there is nothing to protect
    subst hE
    exfalso
    by_cases hst : s = [slash]
    · subst hst; exact scopeClear_trivial_no_bases hds hsc b hb
    · obtain ⟨hsne, hsn, J, hJ, hJne, hJh⟩ := plainScope_facts hsc.1 hst
      have : ¬ (s = [slash] ∨ s = []) := fun h => h.elim hst hsne
      simp only [this, if_false, hsn, hJ, joinSlash] at hs'
      rw [hasPrefix_iff, show toLower (slash :: [] ++ [slash]) = [slash, slash] by decide, List.cons_prefix_cons] at hs'
      cases J with
      | nil => exact hJne rfl
      | cons a r =>
        have h2 := hs'.2
        simp only [List.cons_prefix_cons] at h2
        exact hJh (by simp [h2.1])
  · rw [joinSlash_append hE hR,
      show slash :: (joinSlash E ++ slash :: joinSlash R) = (slash :: joinSlash E) ++ slash :: joinSlash R by simp,
      toLower_append_slash,
      show slash :: joinSlash E ++ [slash] = (slash :: joinSlash E) ++ slash :: [] by simp, toLower_append_slash]
    rw [show slash :: joinSlash E ++ [slash] = (slash :: joinSlash E) ++ slash :: [] by simp, toLower_append_slash] at hs'
    simp only [toLower] at hs' ⊢
    generalize toLower (slash :: joinSlash E) = T at *
    have hPX : T ++ [slash] <+: T ++ slash :: toLower (joinSlash R) := by
      rw [show T ++ slash :: toLower (joinSlash R) = (T ++ [slash]) ++ toLower (joinSlash R) by simp]
      exact List.prefix_append _ _
    apply bool_eq_of_iff
    rw [hasPrefix_iff, hasPrefix_iff]
    constructor
    · intro hbX
      rcases List.prefix_or_prefix_of_prefix hbX hPX with h | hPb
      · exact h
      · -- the protection scope lies below the directory: then it lies under the archive scope,
        -- so by clearness the archive scope lies under it
        have hbs : pathMatches b s = true := by
          by_cases hst : s = [slash]
          · simp [pathMatches, hst]
          · obtain ⟨hsne, hsn, _⟩ := plainScope_facts hsc.1 hst
            have : ¬ (s = [slash] ∨ s = []) := fun h => h.elim hst hsne
            rw [pathMatches_norm]
            simp only [this, if_false, hsn, norm_dirBase hdb] at hs' ⊢
            rw [hasPrefix_iff] at hs' ⊢
            exact List.IsPrefix.trans hs' hPb
        have hsb := hsc.2 b hb hbs
        rw [pathMatches_dirBase hdb] at hsb
        by_cases hst : s = [slash]
        · subst hst
          have hn' : (if hasSuffix [slash] [slash] = true then clean [slash] ++ [slash] else clean [slash]) = [slash, slash] := by decide
          rw [hn', dirBase_not_root hdb] at hsb
          cases hsb
        · obtain ⟨hsne, hsn, _⟩ := plainScope_facts hsc.1 hst
          have : ¬ (s = [slash] ∨ s = []) := fun h => h.elim hst hsne
          simp only [this, if_false, hsn] at hs'
          have hsn' : (if hasSuffix s [slash] = true then clean s ++ [slash] else clean s) = s := hsn
          rw [hsn', hasPrefix_iff] at hsb
          rw [hasPrefix_iff] at hs'
          exact List.IsPrefix.trans hsb hs'
    · intro h
      exact List.IsPrefix.trans h hPX


/-- every entry of the file-system table has an ordinary path (true of every real file system) -/
def NormalFS (fs : FS) : Prop := ∀ e ∈ fs, NormalSegs e.path

/-- no `servearchive` browse scope lies strictly above a protection scope -/
def ArchiveScopesClear (cs : ChainSite) : Prop :=
  ∀ bc ∈ cs.site.browse, bc.archives ≠ [] → ScopeClear cs bc.scope

theorem archiveSafe_of_clear {fs : FS} {cs : ChainSite} {creds : Option (Bytes × Bytes)}
    (hds : DirScoped cs) (hroot : NormalSegs cs.site.root) (hfs : NormalFS fs) (hac : ArchiveScopesClear cs) :
    ArchiveSafe fs cs creds := by
  intro p bc d e hp hlast hbc hne hmatch hdir he _ hrel hc
  obtain ⟨t, rfl⟩ := hp
  obtain ⟨rel, hrne, hpath⟩ := hrel
  have hopen : dirOpen fs cs.site.root (slash :: t) = .ok d := by
    unfold dirOf at hdir
    cases ho : dirOpen fs cs.site.root (slash :: t) with
    | error _ => simp [ho] at hdir
    | ok d' =>
      simp only [ho] at hdir
      split at hdir
      · simp only [Option.some.injEq] at hdir; rw [hdir]
      · simp at hdir
  have hdp := dirOpen_path hroot hopen
  have hcanon : canonURL cs.site e = slash :: joinSlash (jailElems (slash :: t) ++ rel) := by
    unfold canonURL
    rw [hpath, hdp, List.append_assoc, List.drop_left]
  have hn : NormalSegs (jailElems (slash :: t) ++ rel) := by
    intro s hs
    apply hfs e he s
    rw [hpath, hdp, List.append_assoc]
    exact List.mem_append_right _ hs
  rw [hcanon] at hc
  rw [← covered_congr_mem (fun b hb => archive_pathMatches hds (hac bc hbc hne) hlast hmatch hrne hn hb)]
  exact hc

/-- no `proxy` scope lies strictly above a protection scope; backend numbers name one scope -/
def ProxyScopesClear (cs : ChainSite) : Prop :=
  (∀ x ∈ cs.proxies, ScopeClear cs x.1) ∧ (∀ x ∈ cs.proxies, ∀ y ∈ cs.proxies, x.2 = y.2 → x = y)

theorem covered_false_of_no_match {cs : ChainSite} {creds : Option (Bytes × Bytes)} {p : Bytes}
    (h : ∀ b ∈ allBases cs, pathMatches p b = false) : covered cs creds p = false := by
  have hr : ∀ r ∈ cs.auth, ruleCovers r p = false := by
    intro r hr
    unfold ruleCovers
    have : r.resources.any (pathMatches p) = false := by
      rw [List.any_eq_false]
      intro b hb
      have := h b (by unfold allBases; exact List.mem_append_left _ (List.mem_flatMap.mpr ⟨r, hr, List.mem_append_left _ hb⟩))
      simp [this]
    simp [this]
  unfold covered needsAuth isInternal
  have h1 : cs.auth.any (fun r => ruleCovers r p) = false := by
    rw [List.any_eq_false]; intro r hm; simp [hr r hm]
  have h2 : cs.internal.any (pathMatches p) = false := by
    rw [List.any_eq_false]; intro b hb
    have := h b (List.mem_append_right _ hb)
    simp [this]
  simp [h1, h2]

/-- A path matched by a clear proxy scope and the scope itself fall under the same protection scopes. -/
theorem proxy_pathMatches {cs : ChainSite} (hds : DirScoped cs) {f p b : Bytes} (hsc : ScopeClear cs f)
    (hf : f ≠ [slash]) (hm : pathMatches p f = true) (hb : b ∈ allBases cs) :
    pathMatches f b = pathMatches p b := by
  have hdb := dirScoped_allBases hds b hb
  obtain ⟨hfne, hfn, _⟩ := plainScope_facts hsc.1 hf
  have hfn' : (if hasSuffix f [slash] = true then clean f ++ [slash] else clean f) = f := hfn
  rw [pathMatches_norm] at hm
  have : ¬ (f = [slash] ∨ f = []) := fun h => h.elim hf hfne
  simp only [this, if_false, hfn] at hm
  rw [pathMatches_dirBase hdb, pathMatches_dirBase hdb, hfn']
  have hnp : (if hasSuffix p [slash] = true then clean p ++ [slash] else clean p) = norm p := rfl
  rw [hnp]
  apply bool_eq_of_iff
  rw [hasPrefix_iff, hasPrefix_iff]
  rw [hasPrefix_iff] at hm
  constructor
  · intro h; exact List.IsPrefix.trans h hm
  · intro h
    rcases List.prefix_or_prefix_of_prefix h hm with h1 | h1
    · exact h1
    · -- the protection scope lies under the proxy scope, so by clearness the proxy scope lies under it
      have hbf : pathMatches b f = true := by
        rw [pathMatches_norm]
        simp only [this, if_false, hfn, norm_dirBase hdb]
        rw [hasPrefix_iff]; exact h1
      have := hsc.2 b hb hbf
      rw [pathMatches_dirBase hdb, hfn', hasPrefix_iff] at this
      exact this

theorem backendSafe_of_clear {cs : ChainSite} {creds : Option (Bytes × Bytes)}
    (hds : DirScoped cs) (hpc : ProxyScopesClear cs) : BackendSafe cs creds := by
  refine ⟨?_, hpc.2⟩
  intro p x hx hm hc
  by_cases hf : x.1 = [slash]
  · -- the scope "/" as a path is not under any directory scope
    exfalso
    have : covered cs creds x.1 = false := by
      apply covered_false_of_no_match
      intro b hb
      have hdb := dirScoped_allBases hds b hb
      rw [hf, pathMatches_dirBase hdb]
      have hn' : (if hasSuffix [slash] [slash] = true then clean [slash] ++ [slash] else clean [slash]) = [slash, slash] := by decide
      rw [hn']; exact dirBase_not_root hdb
    rw [this] at hc; cases hc
  · rw [← covered_congr_mem (fun b hb => proxy_pathMatches hds (hpc.1 x hx) hf hm hb)]
    exact hc

/-- The no-disclosure theorem with syntactic hypotheses only, archives and proxies allowed. -/
theorem chainServe_verdict_ok_clear {fs : FS} {cs : ChainSite} {r : CReq}
    (hroot : NormalSegs cs.site.root) (hpre : NormalPrefix cs.site.pathPrefix) (hrd : RootIsDir fs cs.site)
    (hw : TargetsNonEmpty cs) (hl : NoHardLinks fs) (hfs : NormalFS fs)
    (hds : DirScoped cs) (hpn : PlainNames cs.site) (hac : ArchiveScopesClear cs) (hpc : ProxyScopesClear cs) :
    ChainSpec.verdict fs cs r (chainServe fs cs r) = "ok" :=
  chainServe_verdict_ok hroot hpre hrd hw hl
    (indexSafe_of_dirScoped hds hroot hpn) (siblingSafe_of_dirScoped hds hroot hrd hpn)
    (archiveSafe_of_clear hds hroot hfs hac) (backendSafe_of_clear hds hpc)

end Casket.ChainProofs
