import Casket.Model.TLSSetup
import Casket.Spec.TLSSetup
/-
Helper lemmas for the `tls` block model: what one line does to the protocol range, the client
certificate policy and the cipher / curve lists, and the resulting invariant over a whole block.
-/
namespace Casket.TLSSetup
open Casket.TLSSetupSpec Casket.TLSGroup
open Casket.VHost (Bytes lower)

theorem lookup_protocol_ne_zero {k : Bytes} {v : Nat} (h : lookup protocolTable k = some v) : v ≠ 0 := by
  unfold protocolTable at h
  simp only [lookup] at h
  split at h
  · simp only [Option.some.injEq] at h; omega
  · split at h
    · simp only [Option.some.injEq] at h; omega
    · split at h
      · simp only [Option.some.injEq] at h; omega
      · split at h
        · simp only [Option.some.injEq] at h; omega
        · cases h

/-- a plain line: a flag alone on its line, or a subdirective with arguments -/
theorem applyLine_plain (c : Raw) (l : Line) (hp : (!isFlag l.name || l.args.isEmpty) = true) :
    applyLine c l.name l.args = if isFlag l.name then .ok (setFlag c l.name) else applyOther c l.name l.args := by
  cases hargs : l.args with
  | nil => simp [applyLine]
  | cons a rest =>
    have hf : isFlag l.name = false := by
      rw [hargs] at hp
      simpa using hp
    simp [applyLine, hf]

theorem flag_ne {name : Bytes} (h : isFlag name = true) :
    name ≠ kProtocols ∧ name ≠ kClients ∧ name ≠ kCiphers ∧ name ≠ kCurves := by
  unfold isFlag at h
  simp only [Bool.or_eq_true, decide_eq_true_eq] at h
  rcases h with (h | h) | h <;> subst h <;> decide

/-- what one plain line does to the four judged parts of the config -/
theorem applyLine_effect {c c' : Raw} {l : Line} (hp : (!isFlag l.name || l.args.isEmpty) = true)
    (h : applyLine c l.name l.args = .ok c') :
    (c'.minV, c'.maxV) = (protoOf l).getD (c.minV, c.maxV) ∧
    (c'.clientAuth, c'.clientCerts) = (clientsOf l).getD (c.clientAuth, c.clientCerts) ∧
    (l.name ≠ kCiphers → c'.ciphers = c.ciphers) ∧ (l.name ≠ kCurves → c'.curves = c.curves) := by
  rw [applyLine_plain c l hp] at h
  by_cases hf : isFlag l.name = true
  · obtain ⟨h1, h2, _, _⟩ := flag_ne hf
    simp only [hf, if_true, Except.ok.injEq] at h
    subst h
    unfold setFlag protoOf clientsOf
    simp only [h1, h2, if_false]
    split <;> simp
  · simp only [hf, if_false, Bool.false_eq_true] at h
    unfold applyOther at h
    unfold protoOf clientsOf
    by_cases hpn : l.name = kProtocols
    · have e2 : ¬ l.name = kClients := by rw [hpn]; decide
      have e3 : ¬ l.name = kCiphers := by rw [hpn]; decide
      have e4 : ¬ l.name = kCurves := by rw [hpn]; decide
      simp only [hpn, if_true] at h ⊢
      have e2' : ¬ kProtocols = kClients := by decide
      simp only [e2', if_false]
      cases hargs : l.args with
      | nil => rw [hargs] at h; simp at h
      | cons a rest =>
        rw [hargs] at h
        cases rest with
        | nil =>
          simp only [] at h ⊢
          cases hl : lookup protocolTable (lower a) with
          | none => rw [hl] at h; simp at h
          | some v =>
            rw [hl] at h
            simp only [Except.ok.injEq] at h
            subst h
            simp
        | cons b rest' =>
          simp only [] at h ⊢
          cases hl : lookup protocolTable (lower a) with
          | none => rw [hl] at h; simp at h
          | some v =>
            rw [hl] at h
            simp only [] at h
            cases hl2 : lookup protocolTable (lower b) with
            | none => rw [hl2] at h; simp at h
            | some w =>
              rw [hl2] at h
              simp only [] at h
              split at h
              · cases h
              · simp only [Except.ok.injEq] at h
                subst h
                simp
    · simp only [hpn, if_false] at h ⊢
      by_cases hci : l.name = kCiphers
      · have e2 : ¬ kCiphers = kClients := by decide
        have e4 : ¬ kCiphers = kCurves := by decide
        simp only [hci, if_true, e2, if_false] at h ⊢
        cases hm : mapNames cipherTable SetupErr.badCipher l.args with
        | error e => rw [hm] at h; simp at h
        | ok vs =>
          rw [hm] at h
          simp only [Except.ok.injEq] at h
          subst h
          simp [e4]
      · simp only [hci, if_false] at h
        by_cases hcu : l.name = kCurves
        · have e2 : ¬ kCurves = kClients := by decide
          simp only [hcu, if_true, e2, if_false] at h ⊢
          cases hm : mapNames curveTable SetupErr.badCurve l.args with
          | error e => rw [hm] at h; simp at h
          | ok vs =>
            rw [hm] at h
            simp only [Except.ok.injEq] at h
            subst h
            simp
        · simp only [hcu, if_false] at h
          by_cases hcl : l.name = kClients
          · simp only [hcl, if_true] at h ⊢
            cases hcs : clients l.args with
            | error e => rw [hcs] at h; simp at h
            | ok p =>
              rw [hcs] at h
              obtain ⟨auth, certs⟩ := p
              simp only [Except.ok.injEq] at h
              subst h
              simp
          · simp only [hcl, if_false] at h ⊢
            by_cases hal : l.name = kAlpn
            · simp only [hal, if_true] at h
              split at h
              · cases h
              · simp only [Except.ok.injEq] at h
                subst h
                simp
            · simp [hal] at h

theorem applyLines_effect {c r : Raw} {block : List Line} (hp : plain block = true)
    (h : applyLines c block = .ok r) :
    (r.minV, r.maxV) = (lastSome protoOf block).getD (c.minV, c.maxV) ∧
    (r.clientAuth, r.clientCerts) = (lastSome clientsOf block).getD (c.clientAuth, c.clientCerts) ∧
    (mentions kCiphers block = false → r.ciphers = c.ciphers) ∧
    (mentions kCurves block = false → r.curves = c.curves) := by
  induction block generalizing c with
  | nil =>
    simp only [applyLines, Except.ok.injEq] at h
    subst h
    simp [lastSome]
  | cons l rest ih =>
    unfold plain at hp
    simp only [List.all_cons, Bool.and_eq_true] at hp
    simp only [applyLines] at h
    cases hl : applyLine c l.name l.args with
    | error e => rw [hl] at h; simp at h
    | ok c' =>
      rw [hl] at h
      simp only [] at h
      obtain ⟨e1, e2, e3, e4⟩ := applyLine_effect hp.1 hl
      obtain ⟨i1, i2, i3, i4⟩ := ih (c := c') (by unfold plain; exact hp.2) h
      refine ⟨?_, ?_, ?_, ?_⟩
      · simp only [lastSome]
        cases hs : lastSome protoOf rest with
        | some x => rw [hs] at i1; simpa using i1
        | none => rw [hs] at i1; simp only [Option.getD_none] at i1; rw [i1, e1]
      · simp only [lastSome]
        cases hs : lastSome clientsOf rest with
        | some x => rw [hs] at i2; simpa using i2
        | none => rw [hs] at i2; simp only [Option.getD_none] at i2; rw [i2, e2]
      · intro hm
        unfold mentions at hm
        simp only [List.any_cons, Bool.or_eq_false_iff, beq_eq_false_iff_ne, ne_eq] at hm
        rw [i3 (by unfold mentions; exact hm.2), e3 hm.1]
      · intro hm
        unfold mentions at hm
        simp only [List.any_cons, Bool.or_eq_false_iff, beq_eq_false_iff_ne, ne_eq] at hm
        rw [i4 (by unfold mentions; exact hm.2), e4 hm.1]

theorem protoOf_ne_zero {l : Line} {v w : Nat} (h : protoOf l = some (v, w)) : v ≠ 0 ∧ w ≠ 0 := by
  unfold protoOf at h
  by_cases hn : l.name = kProtocols
  · simp only [hn, if_true] at h
    cases hargs : l.args with
    | nil => rw [hargs] at h; cases h
    | cons a rest =>
      rw [hargs] at h
      cases rest with
      | nil =>
        simp only [] at h
        cases hl : lookup protocolTable (lower a) with
        | none => rw [hl] at h; simp at h
        | some x =>
          rw [hl] at h
          simp only [Option.map_some, Option.some.injEq, Prod.mk.injEq] at h
          obtain ⟨rfl, rfl⟩ := h
          exact ⟨lookup_protocol_ne_zero hl, lookup_protocol_ne_zero hl⟩
      | cons b rest' =>
        simp only [] at h
        cases hl : lookup protocolTable (lower a) with
        | none => rw [hl] at h; simp at h
        | some x =>
          cases hl2 : lookup protocolTable (lower b) with
          | none => rw [hl, hl2] at h; simp at h
          | some y =>
            rw [hl, hl2] at h
            simp only [Option.some.injEq, Prod.mk.injEq] at h
            obtain ⟨rfl, rfl⟩ := h
            exact ⟨lookup_protocol_ne_zero hl, lookup_protocol_ne_zero hl2⟩
  · simp [hn] at h

theorem lastSome_proto_ne_zero {block : List Line} {v w : Nat} (h : lastSome protoOf block = some (v, w)) :
    v ≠ 0 ∧ w ≠ 0 := by
  induction block with
  | nil => simp [lastSome] at h
  | cons l rest ih =>
    simp only [lastSome] at h
    cases hs : lastSome protoOf rest with
    | some x => rw [hs] at h; simp only [Option.some.injEq] at h; subst h; exact ih hs
    | none => rw [hs] at h; exact protoOf_ne_zero h

end Casket.TLSSetup
