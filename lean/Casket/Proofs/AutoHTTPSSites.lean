import Casket.Proofs.AutoHTTPS
/-
Helper lemmas for Props/C15.lean, part: makePlaintextRedirects (loop invariant), the per-site stages, the site-set verdict.  Core Lean only.
-/
set_option linter.unusedSimpArgs false
namespace Casket.AutoHTTPS
open Casket.Generated Casket.AutoHTTPSSpec

/-! ## makePlaintextRedirects -/

/-- some OTHER site of the list has the host of site `idx` and port `p` -/
def OtherHas (all : List Site) (idx : Nat) (this : Site) (p : Bytes) : Prop :=
  ∃ j o, j ≠ idx ∧ all[j]? = some o ∧ o.host = this.host ∧ o.port = p

theorem hhop_true_iff (all : List Site) (idx : Nat) (this : Site) (p : Bytes) (h : all[idx]? = some this) :
    hostHasOtherPort all idx p = some true ↔ OtherHas all idx this p := by
  unfold hostHasOtherPort OtherHas
  simp only [h, Option.some.injEq, List.any_eq_true, List.mem_range, Bool.and_eq_true, bne_iff_ne, ne_eq]
  constructor
  · rintro ⟨j, hj, hne, hm⟩
    cases ho : all[j]? with
    | none => simp [ho] at hm
    | some o =>
      simp only [ho, Bool.and_eq_true, beq_iff_eq] at hm
      exact ⟨j, o, hne, ho, hm.1, hm.2⟩
  · rintro ⟨j, o, hne, ho, hh, hp⟩
    have hj : j < all.length := by
      rcases Nat.lt_or_ge j all.length with h | h
      · exact h
      · rw [List.getElem?_eq_none h] at ho; cases ho
    exact ⟨j, hj, hne, by simp [ho, hh, hp]⟩

theorem hhop_false_iff (all : List Site) (idx : Nat) (this : Site) (p : Bytes) (h : all[idx]? = some this) :
    (hostHasOtherPort all idx p == some false) = true ↔ ¬ OtherHas all idx this p := by
  rw [← hhop_true_iff all idx this p h]
  unfold hostHasOtherPort
  simp only [h]
  generalize ((List.range all.length).any fun i => i != idx && match all[i]? with
    | some o => o.host == this.host && o.port == p | none => false) = b
  cases b <;> simp

/-- some OTHER site of the list has the host of site `idx`, port `p`, and wants a redirect itself -/
def OtherWants (all : List Site) (idx : Nat) (this : Site) (p : Bytes) : Prop :=
  ∃ j o, j ≠ idx ∧ all[j]? = some o ∧ o.host = this.host ∧ o.port = p ∧ wantsRedirect o = true

theorem hhrs_true_iff (all : List Site) (idx : Nat) (this : Site) (p : Bytes) (h : all[idx]? = some this) :
    hostHasRedirectingSiteOnPort all idx p = some true ↔ OtherWants all idx this p := by
  unfold hostHasRedirectingSiteOnPort OtherWants
  simp only [h, Option.some.injEq, List.any_eq_true, List.mem_range, Bool.and_eq_true, bne_iff_ne, ne_eq]
  constructor
  · rintro ⟨j, hj, hne, hm⟩
    cases ho : all[j]? with
    | none => simp [ho] at hm
    | some o =>
      simp only [ho, Bool.and_eq_true, beq_iff_eq] at hm
      exact ⟨j, o, hne, ho, hm.1.1, hm.1.2, hm.2⟩
  · rintro ⟨j, o, hne, ho, hh, hp, hw⟩
    have hj : j < all.length := by
      rcases Nat.lt_or_ge j all.length with h | h
      · exact h
      · rw [List.getElem?_eq_none h] at ho; cases ho
    exact ⟨j, hj, hne, by simp [ho, hh, hp, hw]⟩

theorem hhrs_false_iff (all : List Site) (idx : Nat) (this : Site) (p : Bytes) (h : all[idx]? = some this) :
    (hostHasRedirectingSiteOnPort all idx p == some false) = true ↔ ¬ OtherWants all idx this p := by
  rw [← hhrs_true_iff all idx this p h]
  unfold hostHasRedirectingSiteOnPort
  simp only [h]
  generalize ((List.range all.length).any fun i => i != idx && match all[i]? with
    | some o => o.host == this.host && o.port == p && wantsRedirect o | none => false) = b
  cases b <;> simp

/-- the redirect sites synthesised while the loop runs over `todo` (index `i` onwards), `e` the declared sites,
`rs` the redirect sites so far -/
def redirsGo (e : List Site) : List Site → Nat → List Site → List Site
  | [], _, rs => rs
  | c :: todo, i, rs =>
    let want := wantsRedirect c &&
      hostHasOtherPort (e ++ rs) i httpPort == some false &&
      (c.port == httpsPort || hostHasRedirectingSiteOnPort (e ++ rs) i httpsPort == some false)
    redirsGo e todo (i + 1) (if want then rs ++ [redirPlaintextHost c] else rs)

theorem redirectsGo_eq (e : List Site) : ∀ (todo : List Site) (i : Nat) (rs : List Site),
    redirectsGo todo i (e ++ rs) = e ++ redirsGo e todo i rs := by
  intro todo
  induction todo with
  | nil => intro i rs; rfl
  | cons c todo ih =>
    intro i rs
    unfold redirectsGo redirsGo
    simp only
    split
    · rw [List.append_assoc]; exact ih _ _
    · exact ih _ _

/-- makePlaintextRedirects returns the declared sites unchanged, followed by the synthesised ones -/
theorem makePlaintextRedirects_eq (e : List Site) : makePlaintextRedirects e = e ++ redirsGo e e 0 [] := by
  unfold makePlaintextRedirects
  have := redirectsGo_eq e e 0 []
  simpa using this

/-- no declared site has host `h` on the HTTP port -/
def NoPlain (e : List Site) (h : Bytes) : Prop := ∀ c ∈ e, ¬(c.host = h ∧ c.port = httpPort)

/-- some synthesised site serves host `h` -/
def Covered (rs : List Site) (h : Bytes) : Prop := ∃ r ∈ rs, r.host = h

/-- a site of the same host on the HTTPS port that wants a redirect is still to be visited -/
def Pending (e : List Site) (i : Nat) (c : Site) : Prop :=
  ∃ j c', i ≤ j ∧ e[j]? = some c' ∧ c'.host = c.host ∧ c'.port = httpsPort ∧ wantsRedirect c' = true

theorem otherHas_append (e rs : List Site) (i : Nat) (c : Site) (p : Bytes) (hi : i < e.length) :
    OtherHas (e ++ rs) i c p ↔
      (∃ j c', j ≠ i ∧ e[j]? = some c' ∧ c'.host = c.host ∧ c'.port = p) ∨ (∃ r ∈ rs, r.host = c.host ∧ r.port = p) := by
  unfold OtherHas
  constructor
  · rintro ⟨j, o, hne, ho, hh, hp⟩
    rcases Nat.lt_or_ge j e.length with hj | hj
    · rw [List.getElem?_append_left hj] at ho
      exact Or.inl ⟨j, o, hne, ho, hh, hp⟩
    · rw [List.getElem?_append_right hj] at ho
      exact Or.inr ⟨o, List.mem_of_getElem? ho, hh, hp⟩
  · rintro (⟨j, o, hne, ho, hh, hp⟩ | ⟨r, hr, hh, hp⟩)
    · have hj : j < e.length := by
        rcases Nat.lt_or_ge j e.length with h | h
        · exact h
        · rw [List.getElem?_eq_none h] at ho; cases ho
      exact ⟨j, o, hne, by rw [List.getElem?_append_left hj]; exact ho, hh, hp⟩
    · obtain ⟨m, hm, hrm⟩ := List.getElem_of_mem hr
      refine ⟨e.length + m, r, by omega, ?_, hh, hp⟩
      rw [List.getElem?_append_right (by omega)]
      simp [hm, hrm]

theorem redir_host (c : Site) : (redirPlaintextHost c).host = c.host := rfl
theorem redir_port (c : Site) : (redirPlaintextHost c).port = httpPort := rfl

structure Inv (e : List Site) (i : Nat) (rs : List Site) : Prop where
  sound : ∀ r ∈ rs, ∃ k c, k < i ∧ e[k]? = some c ∧ wantsRedirect c = true ∧ r = redirPlaintextHost c ∧ NoPlain e c.host
  nodup : (rs.map (·.host)).Nodup
  complete : ∀ k c, k < i → e[k]? = some c → wantsRedirect c = true → NoPlain e c.host →
    Covered rs c.host ∨ Pending e i c

theorem ports_differ : httpPort ≠ httpsPort := by decide

theorem inv_step (e : List Site) (i : Nat) (rs : List Site) (c : Site) (hc : e[i]? = some c) (inv : Inv e i rs) :
    Inv e (i + 1) (if (wantsRedirect c &&
      hostHasOtherPort (e ++ rs) i httpPort == some false &&
      (c.port == httpsPort || hostHasRedirectingSiteOnPort (e ++ rs) i httpsPort == some false)) = true
      then rs ++ [redirPlaintextHost c] else rs) := by
  have hi : i < e.length := by
    rcases Nat.lt_or_ge i e.length with h | h
    · exact h
    · rw [List.getElem?_eq_none h] at hc; cases hc
  have hci : (e ++ rs)[i]? = some c := by rw [List.getElem?_append_left hi]; exact hc
  have hrsport : ∀ r ∈ rs, r.port = httpPort := by
    intro r hr
    obtain ⟨k, c', _, _, _, hrc, _⟩ := inv.sound r hr
    rw [hrc]; rfl
  -- the two tests as propositions
  have h80 := hhop_false_iff (e ++ rs) i c httpPort hci
  rw [otherHas_append e rs i c httpPort hi] at h80
  have h443' : (hostHasRedirectingSiteOnPort (e ++ rs) i httpsPort == some false) = true ↔
      ¬ ∃ j c', j ≠ i ∧ e[j]? = some c' ∧ c'.host = c.host ∧ c'.port = httpsPort ∧ wantsRedirect c' = true := by
    rw [hhrs_false_iff (e ++ rs) i c httpsPort hci]
    unfold OtherWants
    constructor
    · intro h ⟨j, c', hne, ho, hh, hp, hw⟩
      have hj : j < e.length := by
        rcases Nat.lt_or_ge j e.length with h | h
        · exact h
        · rw [List.getElem?_eq_none h] at ho; cases ho
      exact h ⟨j, c', hne, by rw [List.getElem?_append_left hj]; exact ho, hh, hp, hw⟩
    · intro h ⟨j, o, hne, ho, hh, hp, hw⟩
      rcases Nat.lt_or_ge j e.length with hj | hj
      · rw [List.getElem?_append_left hj] at ho
        exact h ⟨j, o, hne, ho, hh, hp, hw⟩
      · rw [List.getElem?_append_right hj] at ho
        have := hrsport o (List.mem_of_getElem? ho)
        rw [this] at hp; exact ports_differ hp
  generalize hw : (wantsRedirect c &&
      hostHasOtherPort (e ++ rs) i httpPort == some false &&
      (c.port == httpsPort || hostHasRedirectingSiteOnPort (e ++ rs) i httpsPort == some false)) = want
  cases want with
  | true =>
    simp only [if_true]
    simp only [Bool.and_eq_true, Bool.or_eq_true] at hw
    obtain ⟨⟨hwants, hno80⟩, _⟩ := hw
    have hno80' := h80.mp hno80
    have hcport : c.port ≠ httpPort := by
      unfold wantsRedirect at hwants
      simp only [Bool.and_eq_true, bne_iff_ne, ne_eq] at hwants
      exact hwants.2
    have hnoplain : NoPlain e c.host := by
      intro c' hc' ⟨hh, hp⟩
      obtain ⟨j, hj, hje⟩ := List.getElem_of_mem hc'
      by_cases hji : j = i
      · subst hji
        have : e[j]? = some c' := by rw [List.getElem?_eq_getElem hj, hje]
        rw [hc] at this; cases this; exact hcport hp
      · exact hno80' (Or.inl ⟨j, c', hji, by rw [List.getElem?_eq_getElem hj, hje], hh, hp⟩)
    refine ⟨?_, ?_, ?_⟩
    · intro r hr
      rcases List.mem_append.mp hr with hr | hr
      · obtain ⟨k, c', hk, h1, h2, h3, h4⟩ := inv.sound r hr
        exact ⟨k, c', by omega, h1, h2, h3, h4⟩
      · simp at hr; subst hr
        exact ⟨i, c, by omega, hc, hwants, rfl, hnoplain⟩
    · rw [List.map_append, List.nodup_append]
      refine ⟨inv.nodup, by simp, ?_⟩
      intro a ha b hb
      simp at hb; subst hb
      obtain ⟨r, hr, hra⟩ := List.mem_map.mp ha
      intro hab
      exact hno80' (Or.inr ⟨r, hr, by rw [← hra] at hab; exact hab, hrsport r hr⟩)
    · intro k c' hk hck hwk hnp
      by_cases hki : k = i
      · subst hki
        rw [hc] at hck; cases hck
        exact Or.inl ⟨redirPlaintextHost c, by simp, rfl⟩
      · rcases inv.complete k c' (by omega) hck hwk hnp with hcov | ⟨j, cj, hij, hcj, hhj, hpj, hwj⟩
        · obtain ⟨r, hr, hrh⟩ := hcov
          exact Or.inl ⟨r, by simp [hr], hrh⟩
        · by_cases hji : j = i
          · subst hji
            rw [hc] at hcj; cases hcj
            exact Or.inl ⟨redirPlaintextHost c, by simp, hhj⟩
          · exact Or.inr ⟨j, cj, by omega, hcj, hhj, hpj, hwj⟩
  | false =>
    simp only [Bool.false_eq_true, if_false]
    refine ⟨?_, inv.nodup, ?_⟩
    · intro r hr
      obtain ⟨k, c', hk, h1, h2, h3, h4⟩ := inv.sound r hr
      exact ⟨k, c', by omega, h1, h2, h3, h4⟩
    · intro k c' hk hck hwk hnp
      by_cases hki : k = i
      · subst hki
        rw [hc] at hck; cases hck
        -- the site wants a redirect and has no plain site, yet none was made
        simp only [hwk, Bool.true_and, Bool.and_eq_false_iff, Bool.or_eq_false_iff] at hw
        rcases hw with hw | ⟨hp443, hw⟩
        · -- a site with this host sits on port 80: a redirect site made earlier
          have : ¬ ¬ ((∃ j c', j ≠ k ∧ e[j]? = some c' ∧ c'.host = c.host ∧ c'.port = httpPort) ∨
              ∃ r ∈ rs, r.host = c.host ∧ r.port = httpPort) := by
            intro hn; have := h80.mpr hn; rw [this] at hw; cases hw
          rcases Classical.not_not.mp this with ⟨j, cj, _, hcj, hhj, hpj⟩ | ⟨r, hr, hrh, _⟩
          · exact absurd ⟨hhj, hpj⟩ (hnp cj (List.mem_of_getElem? hcj))
          · exact Or.inl ⟨r, hr, hrh⟩
        · -- another site of the host sits on the HTTPS port
          have hcp : c.port ≠ httpsPort := by simpa using hp443
          have : ¬ ¬ ∃ j c', j ≠ k ∧ e[j]? = some c' ∧ c'.host = c.host ∧ c'.port = httpsPort ∧ wantsRedirect c' = true := by
            intro hn; have := h443'.mpr hn; rw [this] at hw; cases hw
          obtain ⟨j, cj, hjk, hcj, hhj, hpj, hwj⟩ := Classical.not_not.mp this
          rcases Nat.lt_or_ge j k with hlt | hge
          · have hnpj : NoPlain e cj.host := by rw [hhj]; exact hnp
            rcases inv.complete j cj hlt hcj hwj hnpj with hcov | ⟨j2, c2, h1, h2, h3, h4, h5⟩
            · obtain ⟨r, hr, hrh⟩ := hcov
              exact Or.inl ⟨r, hr, by rw [hrh, hhj]⟩
            · by_cases hj2 : j2 = k
              · subst hj2; rw [hc] at h2; cases h2; exact absurd h4 hcp
              · exact Or.inr ⟨j2, c2, by omega, h2, by rw [h3, hhj], h4, h5⟩
          · exact Or.inr ⟨j, cj, by omega, hcj, hhj, hpj, hwj⟩
      · rcases inv.complete k c' (by omega) hck hwk hnp with hcov | ⟨j, cj, hij, hcj, hhj, hpj, hwj⟩
        · exact Or.inl hcov
        · by_cases hji : j = i
          · -- the pending site is the one just visited: it wants a redirect, is on 443, and got none
            subst hji
            rw [hc] at hcj; cases hcj
            simp only [hwj, Bool.true_and, Bool.and_eq_false_iff, Bool.or_eq_false_iff] at hw
            rcases hw with hw | ⟨hp443, _⟩
            · have : ¬ ¬ ((∃ j' c', j' ≠ j ∧ e[j']? = some c' ∧ c'.host = c.host ∧ c'.port = httpPort) ∨
                  ∃ r ∈ rs, r.host = c.host ∧ r.port = httpPort) := by
                intro hn; have := h80.mpr hn; rw [this] at hw; cases hw
              rcases Classical.not_not.mp this with ⟨j', cj', _, hcj', hhj', hpj'⟩ | ⟨r, hr, hrh, _⟩
              · exact absurd ⟨by rw [hhj', hhj], hpj'⟩ (hnp cj' (List.mem_of_getElem? hcj'))
              · exact Or.inl ⟨r, hr, by rw [hrh, hhj]⟩
            · have : c.port = httpsPort := hpj
              simp [this] at hp443
          · exact Or.inr ⟨j, cj, by omega, hcj, hhj, hpj, hwj⟩

theorem inv_loop (e : List Site) : ∀ (todo : List Site) (i : Nat) (rs : List Site),
    (∀ m, todo[m]? = e[i + m]?) → Inv e i rs → Inv e (i + todo.length) (redirsGo e todo i rs) := by
  intro todo
  induction todo with
  | nil => intro i rs _ inv; simpa [redirsGo] using inv
  | cons c todo ih =>
    intro i rs hidx inv
    have hc : e[i]? = some c := by have := hidx 0; simpa using this.symm
    have hstep := inv_step e i rs c hc inv
    unfold redirsGo
    simp only
    have := ih (i + 1) _ (fun m => by have := hidx (m + 1); simp only [List.getElem?_cons_succ] at this; rw [this]; congr 1; omega) hstep
    rw [List.length_cons]
    have harith : i + (todo.length + 1) = i + 1 + todo.length := by omega
    rw [harith]
    exact this

theorem inv_final (e : List Site) : Inv e e.length (redirsGo e e 0 []) := by
  have h0 : Inv e 0 [] := by
    refine ⟨?_, ?_, ?_⟩
    · intro r hr; cases hr
    · simp
    · intro k c hk; omega
  have := inv_loop e e 0 [] (fun m => by simp) h0
  simpa using this

/-! ## the per-site stages of the pipeline -/

/-- markQualifiedForAutoHTTPS then enableAutoHTTPS, on one site -/
def stageE (d : Site) : Site := enableOne (markOne d)
/-- MakeServers on one site -/
def stageF (c : Site) : Site := defaultPortOne (makeServersOne c)

theorem markOne_fields (d : Site) : (markOne d).host = d.host ∧ (markOne d).port = d.port ∧ (markOne d).scheme = d.scheme ∧
    (markOne d).enabled = d.enabled ∧ (markOne d).noRedirect = d.noRedirect ∧ (markOne d).manual = d.manual ∧
    (markOne d).selfSigned = d.selfSigned ∧ (markOne d).onDemand = d.onDemand ∧ (markOne d).hasManager = d.hasManager ∧
    (markOne d).listen = d.listen ∧ (markOne d).redir = d.redir := by
  unfold markOne; split <;> simp

theorem enableOne_fields (c : Site) : (enableOne c).host = c.host ∧ (enableOne c).noRedirect = c.noRedirect ∧
    (enableOne c).manual = c.manual ∧ (enableOne c).selfSigned = c.selfSigned ∧ (enableOne c).onDemand = c.onDemand ∧
    (enableOne c).hasManager = c.hasManager ∧ (enableOne c).listen = c.listen ∧ (enableOne c).managed = c.managed ∧ (enableOne c).redir = c.redir := by
  unfold enableOne; split <;> simp

theorem stageF_host (c : Site) : (stageF c).host = c.host := by
  unfold stageF defaultPortOne makeServersOne
  repeat' split
  all_goals simp

theorem stageF_enabled (c : Site) : (stageF c).enabled = (c.enabled && !(c.port == httpPort || c.scheme == b!"http")) := by
  unfold stageF defaultPortOne makeServersOne
  cases he : c.enabled
  all_goals simp only [he, Bool.not_false, Bool.not_true, Bool.false_eq_true, if_true, if_false, Bool.false_and, Bool.true_and]
  all_goals repeat' split
  all_goals simp [he]

theorem stageF_noRedirect (c : Site) : (stageF c).noRedirect = c.noRedirect := by
  unfold stageF defaultPortOne makeServersOne
  repeat' split
  all_goals simp

/-- MakeServers fills in an empty port only: with the HTTPS port or the default port -/
theorem stageF_port (c : Site) : (stageF c).port =
    if c.port.isEmpty then (if c.enabled && ((!c.manual && !c.selfSigned) || c.onDemand) then httpsPort else defaultPort) else c.port := by
  have h443 : httpsPort.isEmpty = false := by decide
  unfold stageF defaultPortOne makeServersOne
  cases he : c.enabled
  · simp only [Bool.not_false, if_true, Bool.false_and, Bool.false_eq_true, if_false]
    split <;> rfl
  · simp only [Bool.not_true, Bool.false_eq_true, if_false, Bool.true_and]
    by_cases hp : c.port.isEmpty = true
    · by_cases hcnd : ((!c.manual && !c.selfSigned) || c.onDemand) = true
      · simp only [hp, hcnd, Bool.and_self, if_true, h443, Bool.false_eq_true, if_false]
      · simp only [hp, hcnd, Bool.and_false, Bool.false_eq_true, if_false, if_true, Bool.true_and]
    · simp only [hp, Bool.false_and, Bool.false_eq_true, if_false]

theorem stageF_port80 (c : Site) : ((stageF c).port == b!"80") = (c.port == b!"80") := by
  rw [stageF_port]
  by_cases hp : c.port.isEmpty = true
  · have : c.port = [] := by simpa using hp
    simp only [hp, if_true, this]
    have h1 : (httpsPort == b!"80") = false := by decide
    have h2 : (defaultPort == b!"80") = false := by decide
    by_cases hc : (c.enabled && (!c.manual && !c.selfSigned || c.onDemand)) = true
    · simp only [hc, if_true, h1]; rfl
    · simp only [hc, Bool.false_eq_true, if_false, h2]; rfl
  · simp [hp]

/-- a declared site as InspectServerBlocks and the directives leave it: not yet managed, not synthesised, with a
certmagic manager, and on-demand TLS only comes with a tls directive (which enables TLS) -/
def Fresh (d : Site) : Prop := d.managed = false ∧ d.hasManager = true ∧ d.redir = none ∧ (d.onDemand = true → d.enabled = true)

theorem wants_eq (d : Site) : obsWantsRedirect (observeSite d) = wantsRedirect (stageE d) := by
  unfold obsWantsRedirect observeSite wantsRedirect
  simp only
  have hf := stageF_enabled (stageE d)
  unfold stageF at hf
  unfold stageE at hf ⊢
  rw [hf]
  have h1 : (enableOne (markOne d)).noRedirect = d.noRedirect := by
    rw [(enableOne_fields _).2.1, (markOne_fields d).2.2.2.2.1]
  rw [h1]
  simp only [bne]
  generalize (enableOne (markOne d)).enabled = a
  generalize ((enableOne (markOne d)).port == httpPort) = b
  generalize ((enableOne (markOne d)).scheme == b!"http") = c
  generalize d.noRedirect = n
  revert a b c n; decide

theorem observe_fHost (d : Site) : (observeSite d).fHost = (stageE d).host := by
  unfold observeSite; simp only
  have := stageF_host (stageE d)
  unfold stageF stageE at this; unfold stageE; exact this

theorem observe_ePort (d : Site) : (observeSite d).ePort = (stageE d).port := rfl

theorem observe_fPort80 (d : Site) : ((observeSite d).fPort == b!"80") = ((stageE d).port == b!"80") := by
  unfold observeSite; simp only
  have := stageF_port80 (stageE d)
  unfold stageF stageE at this; unfold stageE; exact this

/-- declared as plain HTTP ⇒ never marked managed, TLS off in the end -/
theorem http_site_no_tls (d : Site) (hm : d.managed = false) (hd : declaredHTTP d.scheme d.port = true) :
    (markOne d).managed = false ∧ (stageF (stageE d)).enabled = false := by
  have hq : qualifies d = false := by
    unfold declaredHTTP at hd
    unfold qualifies qualifiesForManagedTLS
    rw [tables_ports.2.2.1]
    simp only [Bool.or_eq_true, beq_iff_eq] at hd
    rcases hd with hd | hd
    · simp [hd]
    · simp [hd]
  have hmark : markOne d = d := by unfold markOne; simp [hq]
  refine ⟨by rw [hmark]; exact hm, ?_⟩
  have he : stageE d = d := by unfold stageE; rw [hmark]; unfold enableOne; simp [hm]
  rw [he, stageF_enabled, tables_ports.1]
  unfold declaredHTTP at hd
  simp only [Bool.or_eq_true, beq_iff_eq] at hd
  rcases hd with hd | hd <;> simp [hd]

/-- marked managed ⇒ served over TLS in the end -/
theorem managed_site_tls (d : Site) (hf : Fresh d) (hm : (markOne d).managed = true) : (stageF (stageE d)).enabled = true := by
  obtain ⟨hm0, hman, _, hod⟩ := hf
  have hq : qualifies d = true := by
    unfold markOne at hm
    by_cases h : qualifies d = true
    · exact h
    · simp [h, hm0] at hm
  have hmark : markOne d = { d with managed := true } := by unfold markOne; simp [hq]
  have hq' := hq
  unfold qualifies qualifiesForManagedTLS at hq'
  rw [tables_ports.2.2.1] at hq'
  simp only [Bool.and_eq_true, bne_iff_ne, ne_eq, Bool.not_eq_true'] at hq'
  obtain ⟨⟨_, ⟨_, ⟨⟨⟨_, _⟩, hport⟩, _⟩, _⟩⟩, hscheme⟩ := hq'
  rw [stageF_enabled, tables_ports.1]
  unfold stageE
  rw [hmark]
  unfold enableOne
  cases ho : d.onDemand
  · simp only [hman, ho, Bool.not_true, Bool.or_false, Bool.false_eq_true, if_false, Bool.true_and]
    simp
    split
    · decide
    · exact hport
  · simp only [ho, Bool.or_true, if_true]
    have := hod ho
    simp [this, hport, hscheme]

/-- the port captured by the redirect handler is the port the HTTPS site ends up on (written empty when it is 443) -/
theorem redirect_target_port (c : Site) (hman : c.hasManager = true) (hw : wantsRedirect c = true) :
    ∃ t, (redirPlaintextHost c).redir = some t ∧ portSuffixOK t (stageF c).port = true := by
  have hen : c.enabled = true := by
    unfold wantsRedirect at hw; simp only [Bool.and_eq_true] at hw; exact hw.1.1.1
  refine ⟨_, rfl, ?_⟩
  rw [stageF_port]
  unfold portSuffixOK capturedPort
  rw [tables_ports.2.1, tables_ports.2.2.2.1]
  simp only [hman, hen, Bool.true_and]
  by_cases hp : c.port.isEmpty = true
  · have hp' : c.port = [] := by simpa using hp
    cases hm : c.manual <;> cases hs : c.selfSigned <;> cases ho : c.onDemand <;> simp [hp, hp'] <;> decide
  · simp only [hp, Bool.false_and, Bool.false_eq_true, if_false]
    by_cases h443 : (c.port == b!"443") = true
    · simp [h443]
    · simp [h443]

/-! ## the whole pipeline against the site-set specification -/

theorem stageF_redir (c : Site) : stageF (redirPlaintextHost c) = redirPlaintextHost c := by
  have h80 : httpPort.isEmpty = false := by decide
  unfold stageF defaultPortOne makeServersOne redirPlaintextHost
  simp [h80]

/-- the pipeline = the declared sites, each through its own stages, followed by the synthesised redirect sites -/
theorem pipeline_eq (ds : List Site) :
    pipeline ds = ds.map (fun d => stageF (stageE d)) ++ redirsGo (ds.map stageE) (ds.map stageE) 0 [] := by
  unfold pipeline makeServers enableAutoHTTPS markQualified
  rw [List.map_map, List.map_map]
  have he : (enableOne ∘ markOne) = stageE := rfl
  have hfd : (defaultPortOne ∘ makeServersOne) = stageF := rfl
  rw [he, hfd, makePlaintextRedirects_eq, List.map_append, List.map_map]
  congr 1
  have inv := inv_final (ds.map stageE)
  have : List.map stageF (redirsGo (ds.map stageE) (ds.map stageE) 0 []) =
      List.map id (redirsGo (ds.map stageE) (ds.map stageE) 0 []) := by
    apply List.map_congr_left
    intro r hr
    obtain ⟨k, c, _, _, _, hrc, _⟩ := inv.sound r hr
    rw [hrc]; exact stageF_redir c
  rw [this, List.map_id]

theorem chk_qualify (ds : List Site) (hf : ∀ d ∈ ds, Fresh d) : (ds.map observeSite).find? offQualify = none := by
  rw [List.find?_eq_none]
  intro o ho
  obtain ⟨d, hd, rfl⟩ := List.mem_map.mp ho
  unfold offQualify
  by_cases hs : (hostInScope d.host && bindInScope d.listen) = true
  · simp only [Bool.and_eq_true] at hs
    have : (observeSite d).managed = AutoHTTPSSpec.qualifies d := by
      show (markOne d).managed = _
      unfold markOne
      rw [qualifies_eq_spec d hs.1 hs.2]
      cases AutoHTTPSSpec.qualifies d <;> simp [(hf d hd).1]
    show ¬ (hostInScope d.host && bindInScope d.listen && (AutoHTTPSSpec.qualifies d != (observeSite d).managed)) = true
    rw [this]; simp
  · show ¬ (hostInScope d.host && bindInScope d.listen && (AutoHTTPSSpec.qualifies d != (observeSite d).managed)) = true
    simp only [hs, Bool.false_and]; simp

theorem chk_managedTLS (ds : List Site) (hf : ∀ d ∈ ds, Fresh d) : (ds.map observeSite).any offManagedTLS = false := by
  rw [List.any_eq_false]
  intro o ho
  obtain ⟨d, hd, rfl⟩ := List.mem_map.mp ho
  unfold offManagedTLS
  show ¬ ((markOne d).managed && !(stageF (stageE d)).enabled) = true
  cases hm : (markOne d).managed
  · simp
  · rw [managed_site_tls d (hf d hd) hm]; simp

theorem chk_http (ds : List Site) (hf : ∀ d ∈ ds, Fresh d) : (ds.map observeSite).any offHTTP = false := by
  rw [List.any_eq_false]
  intro o ho
  obtain ⟨d, hd, rfl⟩ := List.mem_map.mp ho
  unfold offHTTP
  show ¬ (declaredHTTP d.scheme d.port && (stageF (stageE d)).enabled) = true
  cases hdh : declaredHTTP d.scheme d.port
  · simp
  · rw [(http_site_no_tls d (hf d hd).1 hdh).2]; simp

theorem getElem?_stageE (ds : List Site) (k : Nat) (c : Site) (h : (ds.map stageE)[k]? = some c) :
    ∃ d, ds[k]? = some d ∧ d ∈ ds ∧ c = stageE d := by
  rw [List.getElem?_map] at h
  cases hd : ds[k]? with
  | none => simp [hd] at h
  | some d => simp [hd] at h; exact ⟨d, rfl, List.mem_of_getElem? hd, h.symm⟩

theorem hasPlain_iff (ds : List Site) (h : Bytes) :
    hasPlainSite (ds.map observeSite) h = true ↔ ¬ NoPlain (ds.map stageE) h := by
  unfold hasPlainSite NoPlain
  rw [List.any_eq_true]
  constructor
  · rintro ⟨o, ho, hcond⟩ hnp
    obtain ⟨d, hd, rfl⟩ := List.mem_map.mp ho
    simp only [Bool.and_eq_true, beq_iff_eq] at hcond
    have h80 : (stageE d).port = b!"80" := by
      have := observe_fPort80 d; rw [beq_iff_eq.mpr hcond.2] at this; exact beq_iff_eq.mp this.symm
    exact hnp (stageE d) (List.mem_map.mpr ⟨d, hd, rfl⟩) ⟨by rw [← observe_fHost]; exact hcond.1, by rw [tables_ports.1]; exact h80⟩
  · intro hnp
    simp only [Classical.not_forall, Classical.not_not] at hnp
    obtain ⟨c, hc, hh, hp⟩ := hnp
    obtain ⟨d, hd, rfl⟩ := List.mem_map.mp hc
    refine ⟨observeSite d, List.mem_map.mpr ⟨d, hd, rfl⟩, ?_⟩
    rw [tables_ports.1] at hp
    simp only [Bool.and_eq_true, beq_iff_eq]
    refine ⟨by rw [observe_fHost]; exact hh, ?_⟩
    have := observe_fPort80 d; rw [beq_iff_eq.mpr hp] at this; exact beq_iff_eq.mp this

theorem chk_redirects (ds : List Site) (hf : ∀ d ∈ ds, Fresh d) :
    let R := redirsGo (ds.map stageE) (ds.map stageE) 0 []
    let os := ds.map observeSite
    let rs := R.map observeRedirect
    rs.any offPlain = false ∧ rs.any (fun r => hasPlainSite os r.fHost) = false ∧
    rs.any (fun r => !os.any (targetsSite r)) = false ∧ (rs.map (·.fHost)).Nodup := by
  intro R os rs
  have inv := inv_final (ds.map stageE)
  refine ⟨?_, ?_, ?_, ?_⟩
  · rw [List.any_eq_false]
    intro r hr
    obtain ⟨x, hx, rfl⟩ := List.mem_map.mp hr
    obtain ⟨k, c, _, _, _, hrc, _⟩ := inv.sound x hx
    subst hrc
    unfold offPlain observeRedirect redirPlaintextHost
    simp only [Bool.false_or]
    rw [tables_ports.1]; simp
  · rw [List.any_eq_false]
    intro r hr
    obtain ⟨x, hx, rfl⟩ := List.mem_map.mp hr
    obtain ⟨k, c, _, _, _, hrc, hnp⟩ := inv.sound x hx
    subst hrc
    intro hplain
    exact (hasPlain_iff ds _).mp hplain hnp
  · rw [List.any_eq_false]
    intro r hr
    obtain ⟨x, hx, rfl⟩ := List.mem_map.mp hr
    obtain ⟨k, c, _, hck, hw, hrc, _⟩ := inv.sound x hx
    subst hrc
    obtain ⟨d, _, hd, rfl⟩ := getElem?_stageE ds k c hck
    simp only [Bool.not_eq_true', Bool.not_eq_false]
    rw [List.any_eq_true]
    refine ⟨observeSite d, List.mem_map.mpr ⟨d, hd, rfl⟩, ?_⟩
    unfold targetsSite
    have hman : (stageE d).hasManager = true := by
      unfold stageE; rw [(enableOne_fields _).2.2.2.2.2.1, (markOne_fields d).2.2.2.2.2.2.2.2.1]; exact (hf d hd).2.1
    obtain ⟨t, ht, hok⟩ := redirect_target_port (stageE d) hman hw
    have h1 : (observeRedirect (redirPlaintextHost (stageE d))).target = some t := ht
    have h2 : (observeSite d).fPort = (stageF (stageE d)).port := rfl
    have h3 : (observeRedirect (redirPlaintextHost (stageE d))).fHost = (stageE d).host := rfl
    rw [h1, h2, h3, observe_fHost, wants_eq, hw]
    simp [hok]
  · have : rs.map (·.fHost) = R.map (·.host) := by
      show (R.map observeRedirect).map (·.fHost) = _
      rw [List.map_map]; rfl
    rw [this]; exact inv.nodup

/-- completeness of redirect synthesis: no HTTPS site that wants a redirect and has no plain site of its host is left uncovered -/
theorem chk_cover (ds : List Site) :
    (ds.map observeSite).any (offCover (ds.map observeSite) ((redirsGo (ds.map stageE) (ds.map stageE) 0 []).map observeRedirect)) = false := by
  have inv := inv_final (ds.map stageE)
  rw [List.any_eq_false]
  intro o hmem hpred
  obtain ⟨k, hk, hko⟩ := List.getElem_of_mem hmem
  have hk' : k < ds.length := by simpa using hk
  have hod : o = observeSite ds[k] := by rw [← hko]; simp
  subst hod
  unfold offCover at hpred
  simp only [Bool.and_eq_true, Bool.not_eq_true'] at hpred
  obtain ⟨⟨hw, hnoplain⟩, hnocover⟩ := hpred
  rw [wants_eq] at hw
  have hnp : NoPlain (ds.map stageE) (stageE ds[k]).host := by
    have := (hasPlain_iff ds (observeSite ds[k]).fHost)
    rw [hnoplain] at this
    simp only [Bool.false_eq_true, false_iff, Classical.not_not] at this
    rw [observe_fHost] at this; exact this
  have hek : (ds.map stageE)[k]? = some (stageE ds[k]) := by
    rw [List.getElem?_map, List.getElem?_eq_getElem hk']; rfl
  rcases inv.complete k (stageE ds[k]) (by simpa using hk') hek hw hnp with hcov | hpend
  · obtain ⟨r, hr, hrh⟩ := hcov
    rw [List.any_eq_false] at hnocover
    have := hnocover (observeRedirect r) (List.mem_map.mpr ⟨r, hr, rfl⟩)
    apply this
    show (r.host == (observeSite ds[k]).fHost) = true
    rw [observe_fHost, hrh]; simp
  · obtain ⟨j, cj, hj, hcj, _⟩ := hpend
    rw [List.getElem?_eq_none (by simpa using hj)] at hcj
    cases hcj

/-- THE SITE-SET VERDICT of the model: "ok". -/
theorem sites_verdict (ds : List Site) (hf : ∀ d ∈ ds, Fresh d) :
    sitesVerdict (ds.map observeSite) ((redirsGo (ds.map stageE) (ds.map stageE) 0 []).map observeRedirect) = "ok" := by
  obtain ⟨h1, h2, h3, h4⟩ := chk_redirects ds hf
  unfold sitesVerdict
  rw [chk_qualify ds hf]
  simp only [chk_managedTLS ds hf, chk_http ds hf, h1, h2, h3, h4, chk_cover ds, Bool.false_eq_true, if_false, not_true_eq_false]
  simp

end Casket.AutoHTTPS
