import Casket.Proofs.AutoHTTPS
/-
Helper lemmas for Props/C15.lean, part: makePlaintextRedirectsP P (loop invariant), the per-site stages, the site-set verdict.  Core Lean only.
-/
set_option linter.unusedSimpArgs false
namespace Casket.AutoHTTPS
open Casket.Generated Casket.AutoHTTPSSpec

/-- what the theorems about the pipelineP P need of the configured ports: both non-empty, different from each other, and the
HTTP port is not the default port (a port-less site is put on the default port only after the redirects are made) -/
structure Ports.ok (P : Ports) : Prop where
  httpNe : P.http ≠ []
  httpsNe : P.https ≠ []
  differ : P.http ≠ P.https
  httpNotDefault : P.http ≠ defaultPort

theorem Ports.std_ok : Ports.std.ok := ⟨by decide, by decide, by decide, by decide⟩

variable {P : Ports}

/-! ## makePlaintextRedirectsP P -/

/-- some OTHER site of the list has the host of site `idx` and port `p` -/
def OtherHas (all : List Site) (idx : Nat) (this : Site) (p : Bytes) : Prop :=
  ∃ j o, j ≠ idx ∧ all[j]? = some o ∧ o.host = this.host ∧ o.port = p

theorem hhop_true_iff (all : List Site) (idx : Nat) (this : Site) (p : Bytes) (h : all[idx]? = some this) :
    hostHasOtherPort all idx p = some true ↔ OtherHas all idx this p := by
  unfold hostHasOtherPort OtherHas
  simp only [h, Option.some.injEq, List.any_eq_true, List.mem_range, Bool.and_eq_true, bne_iff_ne, ne_eq]
  constructor
  · rintro ⟨j, hj, hne, hm⟩
    cases ho : all[j]? with
    | none => simp [ho] at hm
    | some o =>
      simp only [ho, Bool.and_eq_true, beq_iff_eq] at hm
      exact ⟨j, o, hne, ho, hm.1, hm.2⟩
  · rintro ⟨j, o, hne, ho, hh, hp⟩
    have hj : j < all.length := by
      rcases Nat.lt_or_ge j all.length with h | h
      · exact h
      · rw [List.getElem?_eq_none h] at ho; cases ho
    exact ⟨j, hj, hne, by simp [ho, hh, hp]⟩

theorem hhop_false_iff (all : List Site) (idx : Nat) (this : Site) (p : Bytes) (h : all[idx]? = some this) :
    (hostHasOtherPort all idx p == some false) = true ↔ ¬ OtherHas all idx this p := by
  rw [← hhop_true_iff all idx this p h]
  unfold hostHasOtherPort
  simp only [h]
  generalize ((List.range all.length).any fun i => i != idx && match all[i]? with
    | some o => o.host == this.host && o.port == p | none => false) = b
  cases b <;> simp

/-- some OTHER site of the list has the host of site `idx`, port `p`, and wants a redirect itself -/
def OtherWants (P : Ports) (all : List Site) (idx : Nat) (this : Site) (p : Bytes) : Prop :=
  ∃ j o, j ≠ idx ∧ all[j]? = some o ∧ o.host = this.host ∧ o.port = p ∧ wantsRedirectP P o = true

theorem hhrs_true_iff (all : List Site) (idx : Nat) (this : Site) (p : Bytes) (h : all[idx]? = some this) :
    hostHasRedirectingSiteOnPortP P all idx p = some true ↔ OtherWants P all idx this p := by
  unfold hostHasRedirectingSiteOnPortP OtherWants
  simp only [h, Option.some.injEq, List.any_eq_true, List.mem_range, Bool.and_eq_true, bne_iff_ne, ne_eq]
  constructor
  · rintro ⟨j, hj, hne, hm⟩
    cases ho : all[j]? with
    | none => simp [ho] at hm
    | some o =>
      simp only [ho, Bool.and_eq_true, beq_iff_eq] at hm
      exact ⟨j, o, hne, ho, hm.1.1, hm.1.2, hm.2⟩
  · rintro ⟨j, o, hne, ho, hh, hp, hw⟩
    have hj : j < all.length := by
      rcases Nat.lt_or_ge j all.length with h | h
      · exact h
      · rw [List.getElem?_eq_none h] at ho; cases ho
    exact ⟨j, hj, hne, by simp [ho, hh, hp, hw]⟩

theorem hhrs_false_iff (all : List Site) (idx : Nat) (this : Site) (p : Bytes) (h : all[idx]? = some this) :
    (hostHasRedirectingSiteOnPortP P all idx p == some false) = true ↔ ¬ OtherWants P all idx this p := by
  rw [← hhrs_true_iff all idx this p h]
  unfold hostHasRedirectingSiteOnPortP
  simp only [h]
  generalize ((List.range all.length).any fun i => i != idx && match all[i]? with
    | some o => o.host == this.host && o.port == p && wantsRedirectP P o | none => false) = b
  cases b <;> simp

/-- the redirect sites synthesised while the loop runs over `todo` (index `i` onwards), `e` the declared sites,
`rs` the redirect sites so far -/
def redirsGo (P : Ports) (e : List Site) : List Site → Nat → List Site → List Site
  | [], _, rs => rs
  | c :: todo, i, rs =>
    let want := wantsRedirectP P c &&
      hostHasOtherPort (e ++ rs) i P.http == some false &&
      (c.port == P.https || hostHasRedirectingSiteOnPortP P (e ++ rs) i P.https == some false)
    redirsGo P e todo (i + 1) (if want then rs ++ [redirPlaintextHostP P c] else rs)

theorem redirectsGo_eq (e : List Site) : ∀ (todo : List Site) (i : Nat) (rs : List Site),
    redirectsGoP P todo i (e ++ rs) = e ++ redirsGo P e todo i rs := by
  intro todo
  induction todo with
  | nil => intro i rs; rfl
  | cons c todo ih =>
    intro i rs
    unfold redirectsGoP redirsGo
    simp only
    split
    · rw [List.append_assoc]; exact ih _ _
    · exact ih _ _

/-- makePlaintextRedirectsP P returns the declared sites unchanged, followed by the synthesised ones -/
theorem makePlaintextRedirects_eq (e : List Site) : makePlaintextRedirectsP P e = e ++ redirsGo P e e 0 [] := by
  unfold makePlaintextRedirectsP
  have := redirectsGo_eq (P := P) e e 0 []
  simpa using this

/-- no declared site has host `h` on the HTTP port -/
def NoPlain (P : Ports) (e : List Site) (h : Bytes) : Prop := ∀ c ∈ e, ¬(c.host = h ∧ c.port = P.http)

/-- some synthesised site serves host `h` -/
def Covered (rs : List Site) (h : Bytes) : Prop := ∃ r ∈ rs, r.host = h

/-- a site of the same host on the HTTPS port that wants a redirect is still to be visited -/
def Pending (P : Ports) (e : List Site) (i : Nat) (c : Site) : Prop :=
  ∃ j c', i ≤ j ∧ e[j]? = some c' ∧ c'.host = c.host ∧ c'.port = P.https ∧ wantsRedirectP P c' = true

theorem otherHas_append (e rs : List Site) (i : Nat) (c : Site) (p : Bytes) (hi : i < e.length) :
    OtherHas (e ++ rs) i c p ↔
      (∃ j c', j ≠ i ∧ e[j]? = some c' ∧ c'.host = c.host ∧ c'.port = p) ∨ (∃ r ∈ rs, r.host = c.host ∧ r.port = p) := by
  unfold OtherHas
  constructor
  · rintro ⟨j, o, hne, ho, hh, hp⟩
    rcases Nat.lt_or_ge j e.length with hj | hj
    · rw [List.getElem?_append_left hj] at ho
      exact Or.inl ⟨j, o, hne, ho, hh, hp⟩
    · rw [List.getElem?_append_right hj] at ho
      exact Or.inr ⟨o, List.mem_of_getElem? ho, hh, hp⟩
  · rintro (⟨j, o, hne, ho, hh, hp⟩ | ⟨r, hr, hh, hp⟩)
    · have hj : j < e.length := by
        rcases Nat.lt_or_ge j e.length with h | h
        · exact h
        · rw [List.getElem?_eq_none h] at ho; cases ho
      exact ⟨j, o, hne, by rw [List.getElem?_append_left hj]; exact ho, hh, hp⟩
    · obtain ⟨m, hm, hrm⟩ := List.getElem_of_mem hr
      refine ⟨e.length + m, r, by omega, ?_, hh, hp⟩
      rw [List.getElem?_append_right (by omega)]
      simp [hm, hrm]

theorem redir_host (c : Site) : (redirPlaintextHostP P c).host = c.host := rfl
theorem redir_port (c : Site) : (redirPlaintextHostP P c).port = P.http := rfl

structure Inv (P : Ports) (e : List Site) (i : Nat) (rs : List Site) : Prop where
  sound : ∀ r ∈ rs, ∃ k c, k < i ∧ e[k]? = some c ∧ wantsRedirectP P c = true ∧ r = redirPlaintextHostP P c ∧ NoPlain P e c.host
  nodup : (rs.map (·.host)).Nodup
  complete : ∀ k c, k < i → e[k]? = some c → wantsRedirectP P c = true → NoPlain P e c.host →
    Covered rs c.host ∨ Pending P e i c

theorem inv_step (hP : P.ok) (e : List Site) (i : Nat) (rs : List Site) (c : Site) (hc : e[i]? = some c) (inv : Inv P e i rs) :
    Inv P e (i + 1) (if (wantsRedirectP P c &&
      hostHasOtherPort (e ++ rs) i P.http == some false &&
      (c.port == P.https || hostHasRedirectingSiteOnPortP P (e ++ rs) i P.https == some false)) = true
      then rs ++ [redirPlaintextHostP P c] else rs) := by
  have hi : i < e.length := by
    rcases Nat.lt_or_ge i e.length with h | h
    · exact h
    · rw [List.getElem?_eq_none h] at hc; cases hc
  have hci : (e ++ rs)[i]? = some c := by rw [List.getElem?_append_left hi]; exact hc
  have hrsport : ∀ r ∈ rs, r.port = P.http := by
    intro r hr
    obtain ⟨k, c', _, _, _, hrc, _⟩ := inv.sound r hr
    rw [hrc]; rfl
  -- the two tests as propositions
  have h80 := hhop_false_iff (e ++ rs) i c P.http hci
  rw [otherHas_append e rs i c P.http hi] at h80
  have h443' : (hostHasRedirectingSiteOnPortP P (e ++ rs) i P.https == some false) = true ↔
      ¬ ∃ j c', j ≠ i ∧ e[j]? = some c' ∧ c'.host = c.host ∧ c'.port = P.https ∧ wantsRedirectP P c' = true := by
    rw [hhrs_false_iff (e ++ rs) i c P.https hci]
    unfold OtherWants
    constructor
    · intro h ⟨j, c', hne, ho, hh, hp, hw⟩
      have hj : j < e.length := by
        rcases Nat.lt_or_ge j e.length with h | h
        · exact h
        · rw [List.getElem?_eq_none h] at ho; cases ho
      exact h ⟨j, c', hne, by rw [List.getElem?_append_left hj]; exact ho, hh, hp, hw⟩
    · intro h ⟨j, o, hne, ho, hh, hp, hw⟩
      rcases Nat.lt_or_ge j e.length with hj | hj
      · rw [List.getElem?_append_left hj] at ho
        exact h ⟨j, o, hne, ho, hh, hp, hw⟩
      · rw [List.getElem?_append_right hj] at ho
        have := hrsport o (List.mem_of_getElem? ho)
        rw [this] at hp; exact hP.differ hp
  generalize hw : (wantsRedirectP P c &&
      hostHasOtherPort (e ++ rs) i P.http == some false &&
      (c.port == P.https || hostHasRedirectingSiteOnPortP P (e ++ rs) i P.https == some false)) = want
  cases want with
  | true =>
    simp only [if_true]
    simp only [Bool.and_eq_true, Bool.or_eq_true] at hw
    obtain ⟨⟨hwants, hno80⟩, _⟩ := hw
    have hno80' := h80.mp hno80
    have hcport : c.port ≠ P.http := by
      unfold wantsRedirectP at hwants
      simp only [Bool.and_eq_true, bne_iff_ne, ne_eq] at hwants
      exact hwants.2
    have hnoplain : NoPlain P e c.host := by
      intro c' hc' ⟨hh, hp⟩
      obtain ⟨j, hj, hje⟩ := List.getElem_of_mem hc'
      by_cases hji : j = i
      · subst hji
        have : e[j]? = some c' := by rw [List.getElem?_eq_getElem hj, hje]
        rw [hc] at this; cases this; exact hcport hp
      · exact hno80' (Or.inl ⟨j, c', hji, by rw [List.getElem?_eq_getElem hj, hje], hh, hp⟩)
    refine ⟨?_, ?_, ?_⟩
    · intro r hr
      rcases List.mem_append.mp hr with hr | hr
      · obtain ⟨k, c', hk, h1, h2, h3, h4⟩ := inv.sound r hr
        exact ⟨k, c', by omega, h1, h2, h3, h4⟩
      · simp at hr; subst hr
        exact ⟨i, c, by omega, hc, hwants, rfl, hnoplain⟩
    · rw [List.map_append, List.nodup_append]
      refine ⟨inv.nodup, by simp, ?_⟩
      intro a ha b hb
      simp at hb; subst hb
      obtain ⟨r, hr, hra⟩ := List.mem_map.mp ha
      intro hab
      exact hno80' (Or.inr ⟨r, hr, by rw [← hra] at hab; exact hab, hrsport r hr⟩)
    · intro k c' hk hck hwk hnp
      by_cases hki : k = i
      · subst hki
        rw [hc] at hck; cases hck
        exact Or.inl ⟨redirPlaintextHostP P c, by simp, rfl⟩
      · rcases inv.complete k c' (by omega) hck hwk hnp with hcov | ⟨j, cj, hij, hcj, hhj, hpj, hwj⟩
        · obtain ⟨r, hr, hrh⟩ := hcov
          exact Or.inl ⟨r, by simp [hr], hrh⟩
        · by_cases hji : j = i
          · subst hji
            rw [hc] at hcj; cases hcj
            exact Or.inl ⟨redirPlaintextHostP P c, by simp, hhj⟩
          · exact Or.inr ⟨j, cj, by omega, hcj, hhj, hpj, hwj⟩
  | false =>
    simp only [Bool.false_eq_true, if_false]
    refine ⟨?_, inv.nodup, ?_⟩
    · intro r hr
      obtain ⟨k, c', hk, h1, h2, h3, h4⟩ := inv.sound r hr
      exact ⟨k, c', by omega, h1, h2, h3, h4⟩
    · intro k c' hk hck hwk hnp
      by_cases hki : k = i
      · subst hki
        rw [hc] at hck; cases hck
        -- the site wants a redirect and has no plain site, yet none was made
        simp only [hwk, Bool.true_and, Bool.and_eq_false_iff, Bool.or_eq_false_iff] at hw
        rcases hw with hw | ⟨hp443, hw⟩
        · -- a site with this host sits on port 80: a redirect site made earlier
          have : ¬ ¬ ((∃ j c', j ≠ k ∧ e[j]? = some c' ∧ c'.host = c.host ∧ c'.port = P.http) ∨
              ∃ r ∈ rs, r.host = c.host ∧ r.port = P.http) := by
            intro hn; have := h80.mpr hn; rw [this] at hw; cases hw
          rcases Classical.not_not.mp this with ⟨j, cj, _, hcj, hhj, hpj⟩ | ⟨r, hr, hrh, _⟩
          · exact absurd ⟨hhj, hpj⟩ (hnp cj (List.mem_of_getElem? hcj))
          · exact Or.inl ⟨r, hr, hrh⟩
        · -- another site of the host sits on the HTTPS port
          have hcp : c.port ≠ P.https := by simpa using hp443
          have : ¬ ¬ ∃ j c', j ≠ k ∧ e[j]? = some c' ∧ c'.host = c.host ∧ c'.port = P.https ∧ wantsRedirectP P c' = true := by
            intro hn; have := h443'.mpr hn; rw [this] at hw; cases hw
          obtain ⟨j, cj, hjk, hcj, hhj, hpj, hwj⟩ := Classical.not_not.mp this
          rcases Nat.lt_or_ge j k with hlt | hge
          · have hnpj : NoPlain P e cj.host := by rw [hhj]; exact hnp
            rcases inv.complete j cj hlt hcj hwj hnpj with hcov | ⟨j2, c2, h1, h2, h3, h4, h5⟩
            · obtain ⟨r, hr, hrh⟩ := hcov
              exact Or.inl ⟨r, hr, by rw [hrh, hhj]⟩
            · by_cases hj2 : j2 = k
              · subst hj2; rw [hc] at h2; cases h2; exact absurd h4 hcp
              · exact Or.inr ⟨j2, c2, by omega, h2, by rw [h3, hhj], h4, h5⟩
          · exact Or.inr ⟨j, cj, by omega, hcj, hhj, hpj, hwj⟩
      · rcases inv.complete k c' (by omega) hck hwk hnp with hcov | ⟨j, cj, hij, hcj, hhj, hpj, hwj⟩
        · exact Or.inl hcov
        · by_cases hji : j = i
          · -- the pending site is the one just visited: it wants a redirect, is on 443, and got none
            subst hji
            rw [hc] at hcj; cases hcj
            simp only [hwj, Bool.true_and, Bool.and_eq_false_iff, Bool.or_eq_false_iff] at hw
            rcases hw with hw | ⟨hp443, _⟩
            · have : ¬ ¬ ((∃ j' c', j' ≠ j ∧ e[j']? = some c' ∧ c'.host = c.host ∧ c'.port = P.http) ∨
                  ∃ r ∈ rs, r.host = c.host ∧ r.port = P.http) := by
                intro hn; have := h80.mpr hn; rw [this] at hw; cases hw
              rcases Classical.not_not.mp this with ⟨j', cj', _, hcj', hhj', hpj'⟩ | ⟨r, hr, hrh, _⟩
              · exact absurd ⟨by rw [hhj', hhj], hpj'⟩ (hnp cj' (List.mem_of_getElem? hcj'))
              · exact Or.inl ⟨r, hr, by rw [hrh, hhj]⟩
            · have : c.port = P.https := hpj
              simp [this] at hp443
          · exact Or.inr ⟨j, cj, by omega, hcj, hhj, hpj, hwj⟩

theorem inv_loop (hP : P.ok) (e : List Site) : ∀ (todo : List Site) (i : Nat) (rs : List Site),
    (∀ m, todo[m]? = e[i + m]?) → Inv P e i rs → Inv P e (i + todo.length) (redirsGo P e todo i rs) := by
  intro todo
  induction todo with
  | nil => intro i rs _ inv; simpa [redirsGo] using inv
  | cons c todo ih =>
    intro i rs hidx inv
    have hc : e[i]? = some c := by have := hidx 0; simpa using this.symm
    have hstep := inv_step hP e i rs c hc inv
    unfold redirsGo
    simp only
    have := ih (i + 1) _ (fun m => by have := hidx (m + 1); simp only [List.getElem?_cons_succ] at this; rw [this]; congr 1; omega) hstep
    rw [List.length_cons]
    have harith : i + (todo.length + 1) = i + 1 + todo.length := by omega
    rw [harith]
    exact this

theorem inv_final (hP : P.ok) (e : List Site) : Inv P e e.length (redirsGo P e e 0 []) := by
  have h0 : Inv P e 0 [] := by
    refine ⟨?_, ?_, ?_⟩
    · intro r hr; cases hr
    · simp
    · intro k c hk; omega
  have := inv_loop hP e e 0 [] (fun m => by simp) h0
  simpa using this

/-! ## the per-site stages of the pipelineP P -/

/-- markQualifiedForAutoHTTPS then enableAutoHTTPSP P, on one site -/
def stageE (P : Ports) (d : Site) : Site := enableOneP P (markOneP P d)
/-- MakeServers on one site -/
def stageF (P : Ports) (c : Site) : Site := defaultPortOne (makeServersOneP P c)

theorem markOne_fields (d : Site) : (markOneP P d).host = d.host ∧ (markOneP P d).port = d.port ∧ (markOneP P d).scheme = d.scheme ∧
    (markOneP P d).enabled = d.enabled ∧ (markOneP P d).noRedirect = d.noRedirect ∧ (markOneP P d).manual = d.manual ∧
    (markOneP P d).selfSigned = d.selfSigned ∧ (markOneP P d).onDemand = d.onDemand ∧ (markOneP P d).hasManager = d.hasManager ∧
    (markOneP P d).listen = d.listen ∧ (markOneP P d).redir = d.redir := by
  unfold markOneP; split <;> simp

theorem enableOne_fields (c : Site) : (enableOneP P c).host = c.host ∧ (enableOneP P c).noRedirect = c.noRedirect ∧
    (enableOneP P c).manual = c.manual ∧ (enableOneP P c).selfSigned = c.selfSigned ∧ (enableOneP P c).onDemand = c.onDemand ∧
    (enableOneP P c).hasManager = c.hasManager ∧ (enableOneP P c).listen = c.listen ∧ (enableOneP P c).managed = c.managed ∧ (enableOneP P c).redir = c.redir := by
  unfold enableOneP; split <;> simp

theorem stageF_host (c : Site) : (stageF P c).host = c.host := by
  unfold stageF defaultPortOne makeServersOneP
  repeat' split
  all_goals simp

theorem stageF_enabled (c : Site) : (stageF P c).enabled = (c.enabled && !(c.port == P.http || c.scheme == b!"http")) := by
  unfold stageF defaultPortOne makeServersOneP
  cases he : c.enabled
  all_goals simp only [he, Bool.not_false, Bool.not_true, Bool.false_eq_true, if_true, if_false, Bool.false_and, Bool.true_and]
  all_goals repeat' split
  all_goals simp [he]

theorem stageF_noRedirect (c : Site) : (stageF P c).noRedirect = c.noRedirect := by
  unfold stageF defaultPortOne makeServersOneP
  repeat' split
  all_goals simp

/-- MakeServers fills in an empty port only: with the HTTPS port or the default port -/
theorem stageF_port (hP : P.ok) (c : Site) : (stageF P c).port =
    if c.port.isEmpty then (if c.enabled && ((!c.manual && !c.selfSigned) || c.onDemand) then P.https else defaultPort) else c.port := by
  have h443 : P.https.isEmpty = false := by
    have := hP.httpsNe; cases hh : P.https with
    | nil => exact absurd hh this
    | cons _ _ => rfl
  unfold stageF defaultPortOne makeServersOneP
  cases he : c.enabled
  · simp only [Bool.not_false, if_true, Bool.false_and, Bool.false_eq_true, if_false]
    split <;> rfl
  · simp only [Bool.not_true, Bool.false_eq_true, if_false, Bool.true_and]
    by_cases hp : c.port.isEmpty = true
    · by_cases hcnd : ((!c.manual && !c.selfSigned) || c.onDemand) = true
      · simp only [hp, hcnd, Bool.and_self, if_true, h443, Bool.false_eq_true, if_false]
      · simp only [hp, hcnd, Bool.and_false, Bool.false_eq_true, if_false, if_true, Bool.true_and]
    · simp only [hp, Bool.false_and, Bool.false_eq_true, if_false]

/-- a site ends on the HTTP port exactly if it was on it before MakeServers -/
theorem stageF_portHTTP (hP : P.ok) (c : Site) : ((stageF P c).port == P.http) = (c.port == P.http) := by
  rw [stageF_port hP]
  by_cases hp : c.port.isEmpty = true
  · have : c.port = [] := by simpa using hp
    simp only [hp, if_true, this]
    have h1 : (P.https == P.http) = false := by
      rw [beq_eq_false_iff_ne]; exact fun h => hP.differ h.symm
    have h2 : (defaultPort == P.http) = false := by
      rw [beq_eq_false_iff_ne]; exact fun h => hP.httpNotDefault h.symm
    have h3 : (([] : Bytes) == P.http) = false := by
      rw [beq_eq_false_iff_ne]; exact fun h => hP.httpNe h.symm
    by_cases hc : (c.enabled && (!c.manual && !c.selfSigned || c.onDemand)) = true
    · simp [hc, h1, h3]
    · simp [hc, h2, h3]
  · simp [hp]

/-- a declared site as InspectServerBlocks and the directives leave it: not yet managed, not synthesised, with a
certmagic manager, and on-demand TLS only comes with a tls directive (which enables TLS — unless a later `tls off` switched it
off again, which leaves the e-mail `off`) -/
def Fresh (d : Site) : Prop :=
  d.managed = false ∧ d.hasManager = true ∧ d.redir = none ∧ (d.onDemand = true → d.enabled = true ∨ d.email = unmanagedEmail)

theorem wants_eq (d : Site) : obsWantsRedirect (observeSite P d) = wantsRedirectP P (stageE P d) := by
  unfold obsWantsRedirect observeSite wantsRedirectP
  simp only
  have hf := stageF_enabled (P := P) (stageE P d)
  unfold stageF at hf
  unfold stageE at hf ⊢
  rw [hf]
  have h1 : (enableOneP P (markOneP P d)).noRedirect = d.noRedirect := by
    rw [(enableOne_fields _).2.1, (markOne_fields d).2.2.2.2.1]
  rw [h1]
  simp only [bne]
  generalize (enableOneP P (markOneP P d)).enabled = a
  generalize ((enableOneP P (markOneP P d)).port == P.http) = b
  generalize ((enableOneP P (markOneP P d)).scheme == b!"http") = c
  generalize d.noRedirect = n
  revert a b c n; decide

theorem observe_fHost (d : Site) : (observeSite P d).fHost = (stageE P d).host := by
  unfold observeSite; simp only
  have := stageF_host (P := P) (stageE P d)
  unfold stageF stageE at this; unfold stageE; exact this

theorem observe_ePort (d : Site) : (observeSite P d).ePort = (stageE P d).port := rfl

theorem observe_fPortHTTP (hP : P.ok) (d : Site) : ((observeSite P d).fPort == P.http) = ((stageE P d).port == P.http) := by
  unfold observeSite; simp only
  have := stageF_portHTTP hP (stageE P d)
  unfold stageF stageE at this; unfold stageE; exact this

/-- declared as plain HTTP ⇒ never marked managed, TLS off in the end -/
theorem http_site_no_tls (d : Site) (hm : d.managed = false) (hd : declaredHTTP P d.scheme d.port = true) :
    (markOneP P d).managed = false ∧ (stageF P (stageE P d)).enabled = false := by
  have hq : qualifiesP P d = false := by
    unfold declaredHTTP at hd
    unfold qualifiesP qualifiesForManagedTLSP
    simp only [Bool.or_eq_true, beq_iff_eq] at hd
    rcases hd with hd | hd
    · simp [hd]
    · simp [hd]
  have hmark : markOneP P d = d := by unfold markOneP; simp [hq]
  refine ⟨by rw [hmark]; exact hm, ?_⟩
  have he : stageE P d = d := by unfold stageE; rw [hmark]; unfold enableOneP; simp [hm]
  rw [he, stageF_enabled]
  unfold declaredHTTP at hd
  simp only [Bool.or_eq_true, beq_iff_eq] at hd
  rcases hd with hd | hd <;> simp [hd]

/-- marked managed ⇒ served over TLS in the end -/
theorem managed_site_tls (hP : P.ok) (d : Site) (hf : Fresh d) (hm : (markOneP P d).managed = true) : (stageF P (stageE P d)).enabled = true := by
  obtain ⟨hm0, hman, _, hod⟩ := hf
  have hq : qualifiesP P d = true := by
    unfold markOneP at hm
    by_cases h : qualifiesP P d = true
    · exact h
    · simp [h, hm0] at hm
  have hmark : markOneP P d = { d with managed := true } := by unfold markOneP; simp [hq]
  have hq' := hq
  unfold qualifiesP qualifiesForManagedTLSP at hq'
  simp only [Bool.and_eq_true, bne_iff_ne, ne_eq, Bool.not_eq_true'] at hq'
  obtain ⟨⟨_, ⟨_, ⟨⟨⟨_, _⟩, hport⟩, hemail⟩, _⟩⟩, hscheme⟩ := hq'
  rw [stageF_enabled]
  unfold stageE
  rw [hmark]
  unfold enableOneP
  cases ho : d.onDemand
  · simp only [hman, ho, Bool.not_true, Bool.or_false, Bool.false_eq_true, if_false, Bool.true_and]
    simp
    split
    · exact fun h => hP.differ h.symm
    · exact hport
  · simp only [ho, Bool.or_true, if_true]
    have := (hod ho).resolve_right hemail
    simp [this, hport, hscheme]

/-- the port captured by the redirect handler is the port the HTTPS site ends up on (written empty when it is the HTTPS port) -/
theorem redirect_target_port (hP : P.ok) (c : Site) (hman : c.hasManager = true) (hw : wantsRedirectP P c = true) :
    ∃ t, (redirPlaintextHostP P c).redir = some t ∧ portSuffixOK P t (stageF P c).port = true := by
  have hen : c.enabled = true := by
    unfold wantsRedirectP at hw; simp only [Bool.and_eq_true] at hw; exact hw.1.1.1
  have hse : (([] : Bytes) == P.https) = false := by
    rw [beq_eq_false_iff_ne]; exact fun h => hP.httpsNe h.symm
  refine ⟨_, rfl, ?_⟩
  rw [stageF_port hP]
  unfold portSuffixOK capturedPortP
  simp only [hman, hen, Bool.true_and]
  by_cases hp : c.port.isEmpty = true
  · have hp' : c.port = [] := by simpa using hp
    by_cases hd : (defaultPort == P.https) = true
    · cases hm : c.manual <;> cases hs : c.selfSigned <;> cases ho : c.onDemand <;> simp [hp, hp', hd, hse]
    · cases hm : c.manual <;> cases hs : c.selfSigned <;> cases ho : c.onDemand <;> simp [hp, hp', hd, hse]
  · simp only [hp, Bool.false_and, Bool.false_eq_true, if_false]
    by_cases h443 : (c.port == P.https) = true
    · simp [h443]
    · simp [h443]

/-! ## the whole pipelineP P against the site-set specification -/

theorem stageF_redir (hP : P.ok) (c : Site) : stageF P (redirPlaintextHostP P c) = redirPlaintextHostP P c := by
  have h80 : P.http.isEmpty = false := by
    have := hP.httpNe; cases hh : P.http with
    | nil => exact absurd hh this
    | cons _ _ => rfl
  unfold stageF defaultPortOne makeServersOneP redirPlaintextHostP
  simp [h80]

/-- the pipelineP P = the declared sites, each through its own stages, followed by the synthesised redirect sites -/
theorem pipeline_eq (hP : P.ok) (ds : List Site) :
    pipelineP P ds = ds.map (fun d => stageF P (stageE P d)) ++ redirsGo P (ds.map (stageE P)) (ds.map (stageE P)) 0 [] := by
  unfold pipelineP makeServersP enableAutoHTTPSP markQualifiedP
  rw [List.map_map, List.map_map]
  have he : (enableOneP P ∘ markOneP P) = stageE P := rfl
  have hfd : (defaultPortOne ∘ makeServersOneP P) = stageF P := rfl
  rw [he, hfd, makePlaintextRedirects_eq, List.map_append, List.map_map]
  congr 1
  have inv := inv_final hP (ds.map (stageE P))
  have : List.map (stageF P) (redirsGo P (ds.map (stageE P)) (ds.map (stageE P)) 0 []) =
      List.map id (redirsGo P (ds.map (stageE P)) (ds.map (stageE P)) 0 []) := by
    apply List.map_congr_left
    intro r hr
    obtain ⟨k, c, _, _, _, hrc, _⟩ := inv.sound r hr
    rw [hrc]; exact stageF_redir hP c
  rw [this, List.map_id]

theorem chk_qualify (ds : List Site) (hf : ∀ d ∈ ds, Fresh d) : (ds.map (observeSite P)).find? (offQualify P) = none := by
  rw [List.find?_eq_none]
  intro o ho
  obtain ⟨d, hd, rfl⟩ := List.mem_map.mp ho
  unfold offQualify
  by_cases hs : (hostInScope d.host && bindInScope d.listen) = true
  · simp only [Bool.and_eq_true] at hs
    have : (observeSite P d).managed = AutoHTTPSSpec.qualifies P d := by
      show (markOneP P d).managed = _
      unfold markOneP
      rw [qualifies_eq_spec P d hs.1 hs.2]
      cases AutoHTTPSSpec.qualifies P d <;> simp [(hf d hd).1]
    show ¬ (hostInScope d.host && bindInScope d.listen && (AutoHTTPSSpec.qualifies P d != (observeSite P d).managed)) = true
    rw [this]; simp
  · show ¬ (hostInScope d.host && bindInScope d.listen && (AutoHTTPSSpec.qualifies P d != (observeSite P d).managed)) = true
    simp only [hs, Bool.false_and]; simp

theorem chk_managedTLS (hP : P.ok) (ds : List Site) (hf : ∀ d ∈ ds, Fresh d) : (ds.map (observeSite P)).any offManagedTLS = false := by
  rw [List.any_eq_false]
  intro o ho
  obtain ⟨d, hd, rfl⟩ := List.mem_map.mp ho
  unfold offManagedTLS
  show ¬ ((markOneP P d).managed && !(stageF P (stageE P d)).enabled) = true
  cases hm : (markOneP P d).managed
  · simp
  · rw [managed_site_tls hP d (hf d hd) hm]; simp

theorem chk_http (ds : List Site) (hf : ∀ d ∈ ds, Fresh d) : (ds.map (observeSite P)).any (offHTTP P) = false := by
  rw [List.any_eq_false]
  intro o ho
  obtain ⟨d, hd, rfl⟩ := List.mem_map.mp ho
  unfold offHTTP
  show ¬ (declaredHTTP P d.scheme d.port && (stageF P (stageE P d)).enabled) = true
  cases hdh : declaredHTTP P d.scheme d.port
  · simp
  · rw [(http_site_no_tls d (hf d hd).1 hdh).2]; simp

theorem getElem?_stageE (ds : List Site) (k : Nat) (c : Site) (h : (ds.map (stageE P))[k]? = some c) :
    ∃ d, ds[k]? = some d ∧ d ∈ ds ∧ c = stageE P d := by
  rw [List.getElem?_map] at h
  cases hd : ds[k]? with
  | none => simp [hd] at h
  | some d => simp [hd] at h; exact ⟨d, rfl, List.mem_of_getElem? hd, h.symm⟩

theorem hasPlain_iff (hP : P.ok) (ds : List Site) (h : Bytes) :
    hasPlainSite P (ds.map (observeSite P)) h = true ↔ ¬ NoPlain P (ds.map (stageE P)) h := by
  unfold hasPlainSite NoPlain
  rw [List.any_eq_true]
  constructor
  · rintro ⟨o, ho, hcond⟩ hnp
    obtain ⟨d, hd, rfl⟩ := List.mem_map.mp ho
    simp only [Bool.and_eq_true, beq_iff_eq] at hcond
    have h80 : (stageE P d).port = P.http := by
      have := observe_fPortHTTP hP d; rw [beq_iff_eq.mpr hcond.2] at this; exact beq_iff_eq.mp this.symm
    exact hnp (stageE P d) (List.mem_map.mpr ⟨d, hd, rfl⟩) ⟨by rw [← observe_fHost]; exact hcond.1, h80⟩
  · intro hnp
    simp only [Classical.not_forall, Classical.not_not] at hnp
    obtain ⟨c, hc, hh, hp⟩ := hnp
    obtain ⟨d, hd, rfl⟩ := List.mem_map.mp hc
    refine ⟨observeSite P d, List.mem_map.mpr ⟨d, hd, rfl⟩, ?_⟩
    simp only [Bool.and_eq_true, beq_iff_eq]
    refine ⟨by rw [observe_fHost]; exact hh, ?_⟩
    have := observe_fPortHTTP hP d; rw [beq_iff_eq.mpr hp] at this; exact beq_iff_eq.mp this

theorem chk_redirects (hP : P.ok) (ds : List Site) (hf : ∀ d ∈ ds, Fresh d) :
    let R := redirsGo P (ds.map (stageE P)) (ds.map (stageE P)) 0 []
    let os := ds.map (observeSite P)
    let rs := R.map observeRedirect
    rs.any (offPlain P) = false ∧ rs.any (fun r => hasPlainSite P os r.fHost) = false ∧
    rs.any (fun r => !os.any (targetsSite P r)) = false ∧ (rs.map (·.fHost)).Nodup := by
  intro R os rs
  have inv := inv_final hP (ds.map (stageE P))
  refine ⟨?_, ?_, ?_, ?_⟩
  · rw [List.any_eq_false]
    intro r hr
    obtain ⟨x, hx, rfl⟩ := List.mem_map.mp hr
    obtain ⟨k, c, _, _, _, hrc, _⟩ := inv.sound x hx
    subst hrc
    unfold offPlain observeRedirect redirPlaintextHostP
    simp
  · rw [List.any_eq_false]
    intro r hr
    obtain ⟨x, hx, rfl⟩ := List.mem_map.mp hr
    obtain ⟨k, c, _, _, _, hrc, hnp⟩ := inv.sound x hx
    subst hrc
    intro hplain
    exact (hasPlain_iff hP ds _).mp hplain hnp
  · rw [List.any_eq_false]
    intro r hr
    obtain ⟨x, hx, rfl⟩ := List.mem_map.mp hr
    obtain ⟨k, c, _, hck, hw, hrc, _⟩ := inv.sound x hx
    subst hrc
    obtain ⟨d, _, hd, rfl⟩ := getElem?_stageE ds k c hck
    simp only [Bool.not_eq_true', Bool.not_eq_false]
    rw [List.any_eq_true]
    refine ⟨observeSite P d, List.mem_map.mpr ⟨d, hd, rfl⟩, ?_⟩
    unfold targetsSite
    have hman : (stageE P d).hasManager = true := by
      unfold stageE; rw [(enableOne_fields _).2.2.2.2.2.1, (markOne_fields d).2.2.2.2.2.2.2.2.1]; exact (hf d hd).2.1
    obtain ⟨t, ht, hok⟩ := redirect_target_port hP (stageE P d) hman hw
    have h1 : (observeRedirect (redirPlaintextHostP P (stageE P d))).target = some t := ht
    have h2 : (observeSite P d).fPort = (stageF P (stageE P d)).port := rfl
    have h3 : (observeRedirect (redirPlaintextHostP P (stageE P d))).fHost = (stageE P d).host := rfl
    rw [h1, h2, h3, observe_fHost, wants_eq, hw]
    simp [hok]
  · have : rs.map (·.fHost) = R.map (·.host) := by
      show (R.map observeRedirect).map (·.fHost) = _
      rw [List.map_map]; rfl
    rw [this]; exact inv.nodup

/-- completeness of redirect synthesis: no HTTPS site that wants a redirect and has no plain site of its host is left uncovered -/
theorem chk_cover (hP : P.ok) (ds : List Site) :
    (ds.map (observeSite P)).any (offCover P (ds.map (observeSite P)) ((redirsGo P (ds.map (stageE P)) (ds.map (stageE P)) 0 []).map observeRedirect)) = false := by
  have inv := inv_final hP (ds.map (stageE P))
  rw [List.any_eq_false]
  intro o hmem hpred
  obtain ⟨k, hk, hko⟩ := List.getElem_of_mem hmem
  have hk' : k < ds.length := by simpa using hk
  have hod : o = observeSite P ds[k] := by rw [← hko]; simp
  subst hod
  unfold offCover at hpred
  simp only [Bool.and_eq_true, Bool.not_eq_true'] at hpred
  obtain ⟨⟨hw, hnoplain⟩, hnocover⟩ := hpred
  rw [wants_eq] at hw
  have hnp : NoPlain P (ds.map (stageE P)) (stageE P ds[k]).host := by
    have := (hasPlain_iff hP ds (observeSite P ds[k]).fHost)
    rw [hnoplain] at this
    simp only [Bool.false_eq_true, false_iff, Classical.not_not] at this
    rw [observe_fHost] at this; exact this
  have hek : (ds.map (stageE P))[k]? = some (stageE P ds[k]) := by
    rw [List.getElem?_map, List.getElem?_eq_getElem hk']; rfl
  rcases inv.complete k (stageE P ds[k]) (by simpa using hk') hek hw hnp with hcov | hpend
  · obtain ⟨r, hr, hrh⟩ := hcov
    rw [List.any_eq_false] at hnocover
    have := hnocover (observeRedirect r) (List.mem_map.mpr ⟨r, hr, rfl⟩)
    apply this
    show (r.host == (observeSite P ds[k]).fHost) = true
    rw [observe_fHost, hrh]; simp
  · obtain ⟨j, cj, hj, hcj, _⟩ := hpend
    rw [List.getElem?_eq_none (by simpa using hj)] at hcj
    cases hcj

/-- THE SITE-SET VERDICT of the model: "ok" — for every pair of configured ports. -/
theorem sites_verdict (hP : P.ok) (ds : List Site) (hf : ∀ d ∈ ds, Fresh d) :
    sitesVerdict P (ds.map (observeSite P)) ((redirsGo P (ds.map (stageE P)) (ds.map (stageE P)) 0 []).map observeRedirect) = "ok" := by
  obtain ⟨h1, h2, h3, h4⟩ := chk_redirects hP ds hf
  unfold sitesVerdict
  rw [chk_qualify ds hf]
  simp only [chk_managedTLS hP ds hf, chk_http ds hf, h1, h2, h3, h4, chk_cover hP ds, Bool.false_eq_true, if_false, not_true_eq_false]
  simp

end Casket.AutoHTTPS
