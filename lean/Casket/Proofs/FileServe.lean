import Casket.Spec.FileServe
/-
Helper lemmas for C02 (core Lean only; nothing from Mathlib was needed).

  §1  path.Clean: what it keeps are normal names (the jail lemma)
  §2  the kernel walk over normal names is literal lookup; http.Dir lands inside the root
  §3  redirects: every step from the trimmed path to the Location keeps "exactly one slash"
  §4  static files / listing / archive: where a response's content comes from
-/
namespace Casket.FileServeProofs
open Casket.Path Casket.FS Casket.FileServe Casket.FileServeSpec

/-! ## §1 path.Clean -/

/-- a name the OS treats literally: not empty, not `.` or `..`, no slash inside -/
def NormalSeg (s : Bytes) : Prop := s ≠ [] ∧ s ≠ dotSeg ∧ s ≠ dotdotSeg ∧ slash ∉ s

def NormalSegs (l : List Bytes) : Prop := ∀ s ∈ l, NormalSeg s

theorem splitOn_ne_nil (sep : UInt8) (p : Bytes) : splitOn sep p ≠ [] := by
  induction p with
  | nil => simp [splitOn]
  | cons c cs ih =>
    unfold splitOn
    by_cases h : c = sep
    · simp [h]
    · simp only [h, if_false]
      cases hs : splitOn sep cs with
      | nil => simp
      | cons s ss => simp

theorem splitOn_no_sep (sep : UInt8) (p : Bytes) : ∀ s ∈ splitOn sep p, sep ∉ s := by
  induction p with
  | nil => intro s hs; simp [splitOn] at hs; simp [hs]
  | cons c cs ih =>
    intro s hs
    unfold splitOn at hs
    by_cases h : c = sep
    · simp only [h, if_true, List.mem_cons] at hs
      rcases hs with rfl | hs
      · simp
      · exact ih s hs
    · simp only [h, if_false] at hs
      cases hsp : splitOn sep cs with
      | nil => exact absurd hsp (splitOn_ne_nil sep cs)
      | cons s0 ss =>
        rw [hsp] at hs ih
        simp only [List.mem_cons] at hs
        rcases hs with rfl | hs
        · intro hmem
          simp only [List.mem_cons] at hmem
          rcases hmem with rfl | hmem
          · exact h rfl
          · exact ih s0 (by simp) hmem
        · exact ih s (by simp [hs])

theorem cleanStep_normal (stack : List Bytes) (seg : Bytes) (hst : NormalSegs stack) (hseg : slash ∉ seg) :
    NormalSegs (cleanStep true stack seg) := by
  unfold cleanStep
  by_cases h1 : seg = [] ∨ seg = dotSeg
  · simp only [h1, if_true]; exact hst
  · simp only [h1, if_false]
    by_cases h2 : seg = dotdotSeg
    · simp only [h2, if_true]
      cases stack with
      | nil => simp [NormalSegs]
      | cons top rest =>
        have htop : top ≠ dotdotSeg := (hst top (by simp)).2.2.1
        simp only [htop, if_false]
        intro s hs
        exact hst s (by simp [hs])
    · simp only [h2, if_false]
      intro s hs
      simp only [List.mem_cons] at hs
      rcases hs with rfl | hs
      · refine ⟨fun h => h1 (Or.inl h), fun h => h1 (Or.inr h), h2, hseg⟩
      · exact hst s hs

theorem foldl_cleanStep_normal (segs : List Bytes) (stack : List Bytes) (hst : NormalSegs stack)
    (hsegs : ∀ s ∈ segs, slash ∉ s) : NormalSegs (segs.foldl (cleanStep true) stack) := by
  induction segs generalizing stack with
  | nil => exact hst
  | cons s rest ih =>
    simp only [List.foldl_cons]
    exact ih _ (cleanStep_normal stack s hst (hsegs s (by simp))) (fun x hx => hsegs x (by simp [hx]))

/-- What rooted `path.Clean` keeps are normal names, for every input. -/
theorem cleanElems_true_normal (p : Bytes) : NormalSegs (cleanElems true p) := by
  unfold cleanElems
  intro s hs
  rw [List.mem_reverse] at hs
  exact foldl_cleanStep_normal _ [] (by simp [NormalSegs]) (splitOn_no_sep slash p) s hs

theorem jailElems_normal (name : Bytes) : NormalSegs (jailElems name) := cleanElems_true_normal _

/-- `joinSlash` and `splitOn` are inverse on lists of slash-free names: re-joining the cleaned
elements and letting the kernel split them again changes nothing. -/
theorem splitOn_joinSlash (l : List Bytes) (hne : l ≠ []) (h : ∀ s ∈ l, slash ∉ s) :
    splitOn slash (joinSlash l) = l := by
  have key : ∀ (s : Bytes) (t : Bytes), slash ∉ s → splitOn slash (s ++ slash :: t) = s :: splitOn slash t := by
    intro s t hs
    induction s with
    | nil => simp [splitOn]
    | cons c cs ih =>
      have hc : c ≠ slash := fun hc => hs (by simp [hc])
      have hcs : slash ∉ cs := fun hm => hs (by simp [hm])
      simp only [List.cons_append, splitOn, hc, if_false, ih hcs]
  have single : ∀ s : Bytes, slash ∉ s → splitOn slash s = [s] := by
    intro s hs
    induction s with
    | nil => rfl
    | cons c cs ih =>
      have hc : c ≠ slash := fun hc => hs (by simp [hc])
      have hcs : slash ∉ cs := fun hm => hs (by simp [hm])
      simp only [splitOn, hc, if_false, ih hcs]
  induction l with
  | nil => exact absurd rfl hne
  | cons s rest ih =>
    cases rest with
    | nil => simpa [joinSlash] using single s (h s (by simp))
    | cons s2 rest2 =>
      simp only [joinSlash]
      rw [key s _ (h s (by simp)), ih (by simp) (fun x hx => h x (by simp [hx]))]

/-! ### canonical paths are fixed points of path.Clean -/

theorem jailElems_eq (p : Bytes) : jailElems p = cleanElems true p := by
  unfold jailElems cleanElems
  have : splitOn slash (slash :: p) = [] :: splitOn slash p := by simp [splitOn]
  rw [this, List.foldl_cons]
  simp [cleanStep]

theorem foldl_cleanStep_push (E st : List Bytes) (h : NormalSegs E) :
    E.foldl (cleanStep true) st = E.reverse ++ st := by
  induction E generalizing st with
  | nil => rfl
  | cons s rest ih =>
    have hs := h s (by simp)
    have h1 : ¬ (s = [] ∨ s = dotSeg) := fun hh => hh.elim hs.1 hs.2.1
    have hstep : cleanStep true st s = s :: st := by simp [cleanStep, h1, hs.2.2.1]
    rw [List.foldl_cons, hstep, ih _ (fun x hx => h x (by simp [hx]))]
    simp

/-- cleaning a canonical path changes nothing -/
theorem cleanElems_canon (E : List Bytes) (h : NormalSegs E) : cleanElems true (slash :: joinSlash E) = E := by
  unfold cleanElems
  have hs : splitOn slash (slash :: joinSlash E) = [] :: splitOn slash (joinSlash E) := by simp [splitOn]
  rw [hs, List.foldl_cons]
  have h0 : cleanStep true [] [] = [] := by simp [cleanStep]
  rw [h0]
  by_cases hE : E = []
  · subst hE; simp [joinSlash, splitOn, cleanStep]
  · rw [splitOn_joinSlash E hE (fun s hs => (h s hs).2.2.2), foldl_cleanStep_push E [] h]
    simp

theorem clean_rooted (t : Bytes) : clean (slash :: t) = slash :: joinSlash (jailElems (slash :: t)) := by
  rw [jailElems_eq]; simp [clean]

theorem clean_canon (E : List Bytes) (h : NormalSegs E) : clean (slash :: joinSlash E) = slash :: joinSlash E := by
  rw [clean_rooted, jailElems_eq, cleanElems_canon E h]

/-! ## §2 the kernel walk and http.Dir -/

theorem stat_path {fs : FS} {p : List Bytes} {e : Entry} (h : stat fs p = some e) : e.path = p := by
  unfold stat at h
  by_cases hp : p = []
  · simp only [hp, if_true, Option.some.injEq] at h
    subst h; simp [rootEntry, hp]
  · simp only [hp, if_false] at h
    have := List.find?_some h
    simpa using this

theorem stat_mem {fs : FS} {p : List Bytes} {e : Entry} (h : stat fs p = some e) (hp : p ≠ []) : e ∈ fs := by
  unfold stat at h
  simp only [hp, if_false] at h
  exact List.mem_of_find?_eq_some h

/-- Over normal names the kernel walk is literal: the entry found has exactly the path asked for. -/
theorem osWalk_normal {fs : FS} {segs cur : List Bytes} {e : Entry}
    (hn : NormalSegs segs) (h : osWalk fs cur segs = .ok e) : e.path = cur ++ segs := by
  induction segs generalizing cur with
  | nil =>
    unfold osWalk at h
    cases hs : stat fs cur with
    | none => simp [hs] at h
    | some e' =>
      simp only [hs, Except.ok.injEq] at h
      subst h
      simp [stat_path hs]
  | cons s rest ih =>
    have hns := hn s (by simp)
    unfold osWalk at h
    cases hs : stat fs cur with
    | none => simp [hs] at h
    | some d =>
      simp only [hs] at h
      by_cases hd : d.isDir = true
      · have h1 : ¬ (s = [] ∨ s = dotSeg) := fun hh => hh.elim hns.1 hns.2.1
        simp only [hd, Bool.not_true, Bool.false_eq_true, if_false, h1, hns.2.2.1] at h
        by_cases hl : s.length > 255
        · simp [hl] at h
        · simp only [hl, if_false] at h
          have := ih (fun x hx => hn x (by simp [hx])) h
          simpa using this
      · simp [hd] at h

/-- `http.Dir(root).Open(name)` can only return an entry whose path is the root's elements
followed by the cleaned name's: nothing outside the root, whatever the spelling of `name`. -/
theorem dirOpen_path {fs : FS} {root : List Bytes} {name : Bytes} {e : Entry}
    (hroot : NormalSegs root) (h : dirOpen fs root name = .ok e) : e.path = root ++ jailElems name := by
  unfold dirOpen at h
  by_cases hl : localizeOk (jailElems name) = true
  · simp only [hl, Bool.not_true, Bool.false_eq_true, if_false] at h
    have hn : NormalSegs (root ++ jailElems name) := by
      intro s hs
      rcases List.mem_append.mp hs with h1 | h1
      · exact hroot s h1
      · exact jailElems_normal name s h1
    simpa [osOpen] using osWalk_normal hn h
  · simp [hl] at h

theorem osWalk_mem {fs : FS} {segs cur : List Bytes} {e : Entry}
    (h : osWalk fs cur segs = .ok e) (hfile : e.isDir = false) : e ∈ fs := by
  induction segs generalizing cur with
  | nil =>
    unfold osWalk at h
    cases hs : stat fs cur with
    | none => simp [hs] at h
    | some e' =>
      simp only [hs, Except.ok.injEq] at h
      subst h
      by_cases hc : cur = []
      · subst hc
        simp [stat, rootEntry] at hs
        subst hs; simp at hfile
      · exact stat_mem hs hc
  | cons s rest ih =>
    unfold osWalk at h
    cases hs : stat fs cur with
    | none => simp [hs] at h
    | some d =>
      simp only [hs] at h
      by_cases hd : d.isDir = true
      · simp only [hd, Bool.not_true, Bool.false_eq_true, if_false] at h
        by_cases h1 : s = [] ∨ s = dotSeg
        · simp only [h1, if_true] at h; exact ih h
        · simp only [h1, if_false] at h
          by_cases h2 : s = dotdotSeg
          · simp only [h2, if_true] at h; exact ih h
          · simp only [h2, if_false] at h
            by_cases hl : s.length > 255
            · simp [hl] at h
            · simp only [hl, if_false] at h; exact ih h
      · simp [hd] at h

/-- a regular file opened through `http.Dir` is an entry of the file-system table -/
theorem dirOpen_mem {fs : FS} {root : List Bytes} {name : Bytes} {e : Entry}
    (h : dirOpen fs root name = .ok e) (hfile : e.isDir = false) : e ∈ fs := by
  unfold dirOpen at h
  by_cases hl : localizeOk (jailElems name) = true
  · simp only [hl, Bool.not_true, Bool.false_eq_true, if_false] at h
    exact osWalk_mem h hfile
  · simp [hl] at h

theorem isPrefixOf_append (a b : List Bytes) : a.isPrefixOf (a ++ b) = true := by
  induction a with
  | nil => simp [List.isPrefixOf]
  | cons x xs ih => simp [List.isPrefixOf, ih]

/-- …and it is a regular file located inside the root, in the judge's sense. -/
theorem dirOpen_regularInRoot {fs : FS} {site : Site} {name : Bytes} {e : Entry}
    (hroot : NormalSegs site.root) (h : dirOpen fs site.root name = .ok e) (hfile : e.isDir = false) :
    regularInRoot fs site e.ino = true := by
  unfold regularInRoot
  rw [List.any_eq_true]
  refine ⟨e, dirOpen_mem h hfile, ?_⟩
  simp [hfile, dirOpen_path hroot h, isPrefixOf_append]

/-! ## §3 redirects -/

theorem sameOrigin_cons (t : Bytes) (h : t.head? ≠ some slash) : sameOrigin (slash :: t) = true := by
  cases t with
  | nil => rfl
  | cons c r =>
    have hc : c ≠ 47 := by simpa [slash] using h
    unfold sameOrigin
    split
    · rename_i heq; simp [slash] at heq; exact absurd heq.1 hc
    · rfl
    · rename_i h1 h2; exact absurd rfl (h2 _)

theorem sameOrigin_elim {s : Bytes} (h : sameOrigin s = true) : ∃ t, s = slash :: t ∧ t.head? ≠ some slash := by
  unfold sameOrigin at h
  split at h
  · simp at h
  · rename_i r hne
    refine ⟨r, rfl, ?_⟩
    cases r with
    | nil => simp
    | cons c r' =>
      intro hc
      simp [slash] at hc
      exact hne r' (by rw [hc])
  · simp at h

theorem head?_dropWhile_slash (r : Bytes) : (r.dropWhile (· = slash)).head? ≠ some slash := by
  induction r with
  | nil => simp
  | cons c r ih =>
    by_cases hc : c = slash
    · simpa [List.dropWhile, hc] using ih
    · simp [List.dropWhile, hc]

theorem sameOrigin_trimSlashes (r : Bytes) : sameOrigin (trimSlashes (slash :: r)) = true := by
  show sameOrigin (slash :: r.dropWhile (· = slash)) = true
  exact sameOrigin_cons _ (head?_dropWhile_slash r)

theorem head?_append_of_ne_nil {a b : Bytes} (h : a ≠ []) : (a ++ b).head? = a.head? := by
  cases a with
  | nil => exact absurd rfl h
  | cons x xs => rfl

theorem dropWhile_slash_nil_getLast {r : Bytes} (h : r.dropWhile (· = slash) = []) :
    (slash :: r).getLast? = some slash := by
  induction r with
  | nil => rfl
  | cons c r ih =>
    by_cases hc : c = slash
    · simp only [List.dropWhile, hc, decide_true] at h
      have := ih h
      rw [List.getLast?_cons_cons]
      rw [hc]
      exact this
    · simp [List.dropWhile, hc] at h

/-- directory case: a path that does not end in a slash, trimmed and given one -/
theorem sameOrigin_trim_dir {r : Bytes} (h : (slash :: r).getLast? ≠ some slash) :
    sameOrigin (trimSlashes (slash :: r) ++ [slash]) = true := by
  show sameOrigin (slash :: (r.dropWhile (· = slash) ++ [slash])) = true
  apply sameOrigin_cons
  have hne : r.dropWhile (· = slash) ≠ [] := fun h0 => h (dropWhile_slash_nil_getLast h0)
  rw [head?_append_of_ne_nil hne]
  exact head?_dropWhile_slash r

theorem escapePath_sameOrigin {m : Bytes} (h : sameOrigin m = true) : sameOrigin (escapePath m) = true := by
  obtain ⟨t, rfl, ht⟩ := sameOrigin_elim h
  have h47 : shouldEscapePath slash = false := by decide
  simp only [escapePath, h47, Bool.false_eq_true, if_false]
  apply sameOrigin_cons
  cases t with
  | nil => simp [escapePath]
  | cons c r =>
    have hc : c ≠ slash := by simpa using ht
    unfold escapePath
    by_cases he : shouldEscapePath c = true
    · simp [he, slash]
    · simp [he, hc]


theorem escapedPath_replace {u : Url} {m : Bytes}
    (hraw : u.rawPath = [] ∨ unescape false u.rawPath = some u.path) (hne : m ≠ u.path) (hstar : m ≠ [42]) :
    escapedPath { u with path := m } = escapePath m := by
  unfold escapedPath
  have hc : ¬ (u.rawPath ≠ [] ∧ validEncodedPath u.rawPath = true ∧ unescape false u.rawPath = some m) := by
    rintro ⟨h1, _, h3⟩
    rcases hraw with h | h
    · exact h1 h
    · rw [h] at h3; exact hne (Option.some.inj h3).symm
  simp only [hc, if_false, hstar]

theorem sameOrigin_append {p q : Bytes} (hp : sameOrigin p = true) (hq : q.head? ≠ some slash) :
    sameOrigin (p ++ q) = true := by
  obtain ⟨t, rfl, ht⟩ := sameOrigin_elim hp
  show sameOrigin (slash :: (t ++ q)) = true
  apply sameOrigin_cons
  cases t with
  | nil => simpa using hq
  | cons c r => simpa using ht

theorem urlString_sameOrigin {u : Url} {m : Bytes}
    (hraw : u.rawPath = [] ∨ unescape false u.rawPath = some u.path) (hne : m ≠ u.path)
    (hm : sameOrigin m = true) : sameOrigin (urlString { u with path := m }) = true := by
  obtain ⟨t, hmt, _⟩ := sameOrigin_elim hm
  have hstar : m ≠ [42] := by rw [hmt]; simp [slash]
  unfold urlString
  rw [escapedPath_replace hraw hne hstar]
  have hp := escapePath_sameOrigin hm
  obtain ⟨t', ht', _⟩ := sameOrigin_elim hp
  have hcut : (cut slash (escapePath m)).1 = [] := by rw [ht']; simp [cut]
  simp only [hcut, List.any_nil, Bool.false_eq_true, if_false]
  apply sameOrigin_append hp
  split <;> simp [slash]

theorem joinSlash_head {l : List Bytes} (h : NormalSegs l) : (joinSlash l).head? ≠ some slash := by
  cases l with
  | nil => simp [joinSlash]
  | cons s rest =>
    have hs := h s (by simp)
    have hhead : (joinSlash (s :: rest)).head? = s.head? := by
      cases rest with
      | nil => rfl
      | cons s2 r2 => simp only [joinSlash]; exact head?_append_of_ne_nil hs.1
    rw [hhead]
    intro hc
    cases s with
    | nil => exact hs.1 rfl
    | cons c r => simp at hc; exact hs.2.2.2 (by simp [hc])

theorem cut_cons_ne {sep c : UInt8} (t : Bytes) (h : c ≠ sep) :
    cut sep (c :: t) = (c :: (cut sep t).1, (cut sep t).2.1, (cut sep t).2.2) := by
  simp [cut, h]

theorem cleanKeepSlash_sameOrigin (p' : Bytes) : sameOrigin (cleanKeepSlash (slash :: p')) = true := by
  have hclean : clean (slash :: p') = slash :: joinSlash (cleanElems true (slash :: p')) := by
    simp [clean]
  unfold cleanKeepSlash
  rw [hclean]
  have hbody := joinSlash_head (cleanElems_true_normal (slash :: p'))
  generalize joinSlash (cleanElems true (slash :: p')) = body at hbody
  have hbase : sameOrigin (slash :: body) = true := sameOrigin_cons _ hbody
  split
  · rename_i hc
    cases body with
    | nil => simp [hasSuffix, hasPrefix] at hc
    | cons c r =>
      show sameOrigin (slash :: (c :: r ++ [slash])) = true
      exact sameOrigin_cons _ (by simpa using hbody)
  · exact hbase

/-- `http.Redirect` keeps a Location that starts with exactly one slash that way. -/
theorem redirectLocation_sameOrigin {old url : Bytes} (h : sameOrigin url = true) :
    sameOrigin (redirectLocation old url) = true := by
  obtain ⟨t, rfl, ht⟩ := sameOrigin_elim h
  have hpre : hasPrefix (slash :: t) [slash, slash] = false := by
    cases t with
    | nil => simp [hasPrefix]
    | cons c r =>
      have hc : c ≠ slash := by simpa using ht
      simp [hasPrefix, hc]
  unfold redirectLocation
  simp only [hpre, Bool.false_eq_true, false_and, if_false]
  by_cases hf : fragmentOk (slash :: t) = true
  · simp only [hf, Bool.not_true, Bool.false_eq_true, if_false]
    have habs : absolutize old (slash :: t) = slash :: t := rfl
    have h63 : slash ≠ (63 : UInt8) := by decide
    rw [habs, cut_cons_ne (sep := 63) t h63]
    simp only []
    have hstep := cleanKeepSlash_sameOrigin (cut 63 t).1
    split
    · exact sameOrigin_append hstep (by simp [slash])
    · exact hstep
  · simp only [hf, Bool.not_false, if_true]; exact h

/-! ## §4 handlers -/

/-- the path part of a site address: "/" or a path whose second byte is not a slash -/
def NormalPrefix (pre : Bytes) : Prop := pre = [slash] ∨ ∃ c t, pre = slash :: c :: t ∧ c ≠ slash

/-- a URL as `net/url` produces it from an origin-form target: the path starts with a slash
and RawPath, when set, is an escaping of Path -/
def UrlOk (u : Url) : Prop :=
  (∃ t, u.path = slash :: t) ∧ (u.rawPath = [] ∨ unescape false u.rawPath = some u.path)

/-- the site root is a directory -/
def RootIsDir (fs : FS) (site : Site) : Prop := ∀ e, stat fs site.root = some e → e.isDir = true

theorem osWalk_stat {fs : FS} {segs cur : List Bytes} {e : Entry}
    (hn : NormalSegs segs) (h : osWalk fs cur segs = .ok e) : stat fs (cur ++ segs) = some e := by
  induction segs generalizing cur with
  | nil =>
    unfold osWalk at h
    cases hs : stat fs cur with
    | none => simp [hs] at h
    | some e' => simp only [hs, Except.ok.injEq] at h; subst h; simpa using hs
  | cons s rest ih =>
    have hns := hn s (by simp)
    unfold osWalk at h
    cases hs : stat fs cur with
    | none => simp [hs] at h
    | some d =>
      simp only [hs] at h
      by_cases hd : d.isDir = true
      · have h1 : ¬ (s = [] ∨ s = dotSeg) := fun hh => hh.elim hns.1 hns.2.1
        simp only [hd, Bool.not_true, Bool.false_eq_true, if_false, h1, hns.2.2.1] at h
        by_cases hl : s.length > 255
        · simp [hl] at h
        · simp only [hl, if_false] at h
          have := ih (fun x hx => hn x (by simp [hx])) h
          simpa using this
      · simp [hd] at h

theorem dirOpen_root_isDir {fs : FS} {site : Site} {name : Bytes} {d : Entry}
    (hroot : NormalSegs site.root) (hrd : RootIsDir fs site) (hj : jailElems name = [])
    (h : dirOpen fs site.root name = .ok d) : d.isDir = true := by
  unfold dirOpen at h
  rw [hj] at h
  simp only [localizeOk, List.all_nil, Bool.not_true, Bool.false_eq_true, if_false, List.append_nil, osOpen] at h
  have := osWalk_stat hroot h
  exact hrd d (by simpa using this)

theorem length_trimSlashes_le (p : Bytes) : (trimSlashes p).length ≤ p.length := by
  unfold trimSlashes
  split
  · rename_i rest
    have : (rest.dropWhile (· = slash)).length ≤ rest.length := by
      induction rest with
      | nil => simp
      | cons c r ih =>
        by_cases hc : c = slash
        · simp only [List.dropWhile, hc, decide_true, List.length_cons]; omega
        · simp [List.dropWhile, hc]
    simp only [List.length_cons]; omega
  · exact Nat.le_refl _

theorem fullPath_facts {site : Site} {t : Bytes} (hp : NormalPrefix site.pathPrefix) :
    ∃ r, fullPath site (slash :: t) = slash :: r ∧
      (fullPath site (slash :: t)).getLast? = (slash :: t).getLast? ∧
      ((fullPath site (slash :: t) = slash :: t ∧ site.pathPrefix = [slash]) ∨
       ∃ c r', c ≠ slash ∧ r' ≠ [] ∧ fullPath site (slash :: t) = slash :: c :: r' ∧ r'.length ≥ t.length + 1) := by
  rcases hp with h | ⟨c, t', h, hc⟩
  · have hfp : fullPath site (slash :: t) = slash :: t := by simp [fullPath, h]
    rw [hfp]
    exact ⟨t, rfl, rfl, Or.inl ⟨rfl, h⟩⟩
  · have hfp : fullPath site (slash :: t) = slash :: c :: (t' ++ slash :: t) := by simp [fullPath, h]
    rw [hfp]
    refine ⟨c :: (t' ++ slash :: t), rfl, ?_, Or.inr ⟨c, t' ++ slash :: t, hc, by simp, rfl, by simp⟩⟩
    rw [show slash :: c :: (t' ++ slash :: t) = (slash :: c :: t') ++ (slash :: t) by simp, List.getLast?_append]
    cases h2 : (slash :: t).getLast? with
    | none => simp at h2
    | some x => simp


theorem staticContent_not_redirect {fs : FS} {site : Site} {r : Req} {d : Entry} {p : Bytes} {c : Nat} {loc : Bytes} :
    staticContent fs site r d p ≠ .redirect c loc := by
  unfold staticContent
  simp only []
  split
  · simp
  · split <;> simp

theorem getLast?_ne_of_ne {a b : Bytes} (h : a.getLast? ≠ b.getLast?) : a ≠ b := fun e => h (by rw [e])

theorem staticServe_redirect {fs : FS} {site : Site} {r : Req} {c : Nat} {loc : Bytes}
    (h : staticServe fs site r = .redirect c loc)
    (hu : UrlOk r.url) (hp : NormalPrefix site.pathPrefix) (hroot : NormalSegs site.root)
    (hrd : RootIsDir fs site) : sameOrigin loc = true := by
  obtain ⟨⟨t, hpath⟩, hraw⟩ := hu
  unfold staticServe at h
  by_cases hm : r.method ≠ mGET ∧ r.method ≠ mHEAD
  · simp [hm] at h
  · simp only [hm, if_false] at h
    cases hd : dirOpen fs site.root r.url.path with
    | error e => cases e <;> simp [hd] at h
    | ok d =>
      simp only [hd] at h
      obtain ⟨rr, hfull, hlast, hshape⟩ := fullPath_facts (site := site) (t := t) hp
      rw [hpath] at h
      by_cases h1 : d.isDir = true ∧ (fullPath site (slash :: t)).getLast? ≠ some slash
      · rw [if_pos h1] at h
        simp only [Resp.redirect.injEq] at h
        rw [← h.2]
        apply redirectLocation_sameOrigin
        apply urlString_sameOrigin hraw
        · -- the new path ends in a slash, the request path does not
          apply getLast?_ne_of_ne
          rw [hpath, ← hlast]
          simp only [List.getLast?_append, List.getLast?_singleton]
          exact fun hh => h1.2 hh.symm
        · rw [hfull] at h1 ⊢
          exact sameOrigin_trim_dir h1.2
      · rw [if_neg h1] at h
        by_cases h2 : (!d.isDir) = true ∧ (fullPath site (slash :: t)).getLast? = some slash
        · rw [if_pos h2] at h
          simp only [Resp.redirect.injEq] at h
          rw [← h.2]
          have hfile : d.isDir = false := by simpa using h2.1
          apply redirectLocation_sameOrigin
          rcases hshape with ⟨hsame, hpre⟩ | ⟨c', r', hc', hr', hsh, hlen⟩
          · -- no path prefix: up is the request path
            rw [hsame] at h2 ⊢
            cases t with
            | nil =>
              -- "/" names the root, which is a directory
              have := dirOpen_root_isDir hroot hrd (by decide) (hpath ▸ hd)
              rw [this] at hfile; cases hfile
            | cons c2 t2 =>
              have hdl : (slash :: c2 :: t2).dropLast = slash :: (c2 :: t2).dropLast := by simp [List.dropLast]
              apply urlString_sameOrigin hraw
              · intro he
                have h1 := length_trimSlashes_le ((slash :: c2 :: t2).dropLast)
                rw [he, hpath] at h1
                simp at h1
                omega
              · rw [hdl]; exact sameOrigin_trimSlashes _
          · rw [hsh] at h2 ⊢
            obtain ⟨x, xs, hx⟩ : ∃ x xs, r' = x :: xs := by
              cases r' with
              | nil => exact absurd rfl hr'
              | cons x xs => exact ⟨x, xs, rfl⟩
            have hdl : (slash :: c' :: r').dropLast = slash :: c' :: r'.dropLast := by
              rw [hx]; simp [List.dropLast]
            have htrim : trimSlashes (slash :: c' :: r'.dropLast) = slash :: c' :: r'.dropLast := by
              show slash :: List.dropWhile (· = slash) (c' :: r'.dropLast) = _
              simp [List.dropWhile, hc']
            apply urlString_sameOrigin hraw
            · intro he
              rw [hdl, htrim, hpath] at he
              have := congrArg List.length he
              simp at this
              omega
            · rw [hdl]; exact sameOrigin_trimSlashes _
        · rw [if_neg h2] at h
          exact absurd h staticContent_not_redirect


theorem serveListing_redirect {fs : FS} {site : Site} {bc : BrowseCfg} {r : Req} {info : Entry} {c : Nat} {loc : Bytes}
    (h : serveListing fs site bc r info = .redirect c loc) : staticServe fs site r = .redirect c loc := by
  unfold serveListing at h
  simp only [] at h
  split at h
  · exact h
  · split at h
    · split at h <;> simp at h
    · split at h <;> simp at h

/-- Every redirect issued by browse or the static file server stays on the same origin. -/
theorem browseServe_redirect {fs : FS} {site : Site} {r : Req} {c : Nat} {loc : Bytes}
    (h : browseServe fs site r = .redirect c loc)
    (hu : UrlOk r.url) (hp : NormalPrefix site.pathPrefix) (hroot : NormalSegs site.root)
    (hrd : RootIsDir fs site) : sameOrigin loc = true := by
  have hstatic : staticServe fs site r = .redirect c loc → sameOrigin loc = true :=
    fun hs => staticServe_redirect hs hu hp hroot hrd
  obtain ⟨⟨t, hpath⟩, hraw⟩ := hu
  unfold browseServe at h
  split at h
  · exact hstatic h
  · split at h
    · exact hstatic h
    · split at h
      · exact hstatic h
      · split at h
        · simp only [hpath, reduceCtorEq, if_false] at h
          split at h
          · rename_i hl
            simp only [Resp.redirect.injEq] at h
            rw [← h.2]
            apply redirectLocation_sameOrigin
            apply urlString_sameOrigin hraw
            · apply getLast?_ne_of_ne
              rw [hpath]
              simp only [List.getLast?_append, List.getLast?_singleton]
              exact fun hh => hl hh.symm
            · exact sameOrigin_trim_dir hl
          · exact hstatic (serveListing_redirect h)
        · split at h
          · simp at h
          · exact hstatic h


/-! ### static content -/

theorem findIndex_some {fs : FS} {root : List Bytes} {reqPath : Bytes} {ips : List Bytes} {e : Entry} {p : Bytes}
    (h : findIndex fs root reqPath ips = some (e, p)) :
    ∃ ip ∈ ips, p = join2 reqPath ip ∧ dirOpen fs root p = .ok e := by
  induction ips with
  | nil => simp [findIndex] at h
  | cons ip rest ih =>
    unfold findIndex at h
    simp only [] at h
    cases ho : dirOpen fs root (join2 reqPath ip) with
    | ok e' =>
      simp only [ho, Option.some.injEq, Prod.mk.injEq] at h
      obtain ⟨rfl, rfl⟩ := h
      exact ⟨ip, by simp, rfl, ho⟩
    | error _ =>
      simp only [ho] at h
      obtain ⟨ip', hm, hp, hop⟩ := ih h
      exact ⟨ip', by simp [hm], hp, hop⟩

theorem findSibling_some {fs : FS} {site : Site} {p ae : Bytes} {encs : List (Bytes × Bytes)} {name : Bytes} {e : Entry}
    (h : findSibling fs site p ae encs = some (name, e)) :
    ∃ ext, (name, ext) ∈ encs ∧ accepts ae name = true ∧ dirOpen fs site.root (p ++ ext) = .ok e ∧
      e.isDir = false ∧ isHidden fs site.root site.hide e.ino = false := by
  induction encs with
  | nil => simp [findSibling] at h
  | cons ne rest ih =>
    obtain ⟨n, ext⟩ := ne
    unfold findSibling at h
    have lift : (∃ ext', (name, ext') ∈ rest ∧ accepts ae name = true ∧ dirOpen fs site.root (p ++ ext') = .ok e ∧
        e.isDir = false ∧ isHidden fs site.root site.hide e.ino = false) →
        ∃ ext', (name, ext') ∈ (n, ext) :: rest ∧ accepts ae name = true ∧ dirOpen fs site.root (p ++ ext') = .ok e ∧
        e.isDir = false ∧ isHidden fs site.root site.hide e.ino = false := by
      rintro ⟨x, hx, rest'⟩; exact ⟨x, by simp [hx], rest'⟩
    by_cases ha : accepts ae n = true
    · simp only [ha, if_true] at h
      cases ho : dirOpen fs site.root (p ++ ext) with
      | ok e' =>
        simp only [ho] at h
        by_cases hb : (e'.isDir || isHidden fs site.root site.hide e'.ino) = true
        · simp only [hb, if_true] at h; exact lift (ih h)
        · simp only [hb, if_false, Option.some.injEq, Prod.mk.injEq] at h
          obtain ⟨rfl, rfl⟩ := h
          simp only [Bool.or_eq_true, not_or, Bool.not_eq_true] at hb
          exact ⟨ext, by simp, ha, ho, hb.1, hb.2⟩
      | error _ => simp only [ho] at h; exact lift (ih h)
    · simp only [ha, if_false] at h; exact lift (ih h)

theorem resolveIndex_facts {fs : FS} {site : Site} {d : Entry} {reqPath : Bytes}
    (hd : dirOpen fs site.root reqPath = .ok d) :
    (resolveIndex fs site d reqPath).2 ∈ basePaths site reqPath ∧
    dirOpen fs site.root (resolveIndex fs site d reqPath).2 = .ok (resolveIndex fs site d reqPath).1 := by
  unfold resolveIndex
  split
  · split
    · rename_i ep hfi
      obtain ⟨e, p⟩ := ep
      obtain ⟨ip, hm, hp, hop⟩ := findIndex_some hfi
      refine ⟨?_, hop⟩
      simp only [basePaths, List.mem_cons, List.mem_map]
      exact Or.inr ⟨ip, hm, hp.symm⟩
    · exact ⟨by simp [basePaths], hd⟩
  · exact ⟨by simp [basePaths], hd⟩

theorem mem_allowedInos_base {fs : FS} {site : Site} {p ae q : Bytes} {e : Entry}
    (hq : q ∈ basePaths site p) (ho : dirOpen fs site.root q = .ok e) : e.ino ∈ allowedInos fs site p ae := by
  unfold allowedInos
  simp only [List.mem_map, List.mem_flatMap, List.mem_append]
  exact ⟨e, ⟨q, hq, Or.inl (by simp [opens, ho])⟩, rfl⟩

theorem mem_allowedInos_sibling {fs : FS} {site : Site} {p ae q name ext : Bytes} {e : Entry}
    (hq : q ∈ basePaths site p) (hne : (name, ext) ∈ site.encodings) (ha : accepts ae name = true)
    (ho : dirOpen fs site.root (q ++ ext) = .ok e) : e.ino ∈ allowedInos fs site p ae := by
  unfold allowedInos
  simp only [List.mem_map, List.mem_flatMap, List.mem_append, List.mem_filter]
  exact ⟨e, ⟨q, hq, Or.inr ⟨(name, ext), ⟨hne, ha⟩, by simp [opens, ho]⟩⟩, rfl⟩

/-- What the static file server sends as a 200 body: a non-hidden regular file inside the root
that is the named file, an index page of it, or an accepted precompressed sibling. -/
theorem staticContent_file {fs : FS} {site : Site} {r : Req} {d : Entry} {reqPath : Bytes} {ino : Nat} {enc : Option Bytes}
    (hroot : NormalSegs site.root) (hd : dirOpen fs site.root reqPath = .ok d)
    (h : staticContent fs site r d reqPath = .file ino enc) :
    hidden fs site ino = false ∧ regularInRoot fs site ino = true ∧
      ino ∈ allowedInos fs site reqPath r.acceptEncoding := by
  obtain ⟨hq, hop⟩ := resolveIndex_facts (site := site) hd
  unfold staticContent at h
  simp only [] at h
  split at h
  · simp at h
  · rename_i hnot
    simp only [Bool.or_eq_true, not_or, Bool.not_eq_true] at hnot
    split at h
    · rename_i ne hfs
      obtain ⟨name, e⟩ := ne
      obtain ⟨ext, hmem, hacc, hopen, hfile, hhid⟩ := findSibling_some hfs
      simp only [Resp.file.injEq] at h
      rw [← h.1]
      exact ⟨hhid, dirOpen_regularInRoot hroot hopen hfile, mem_allowedInos_sibling hq hmem hacc hopen⟩
    · simp only [Resp.file.injEq] at h
      rw [← h.1]
      exact ⟨hnot.2, dirOpen_regularInRoot hroot hop hnot.1, mem_allowedInos_base hq hop⟩

theorem staticServe_file {fs : FS} {site : Site} {r : Req} {ino : Nat} {enc : Option Bytes}
    (hroot : NormalSegs site.root) (h : staticServe fs site r = .file ino enc) :
    hidden fs site ino = false ∧ regularInRoot fs site ino = true ∧
      ino ∈ allowedInos fs site r.url.path r.acceptEncoding := by
  unfold staticServe at h
  split at h
  · simp at h
  · simp only [] at h
    split at h
    · simp at h
    · simp at h
    · rename_i d hd
      split at h
      · simp at h
      · split at h
        · simp at h
        · exact staticContent_file hroot hd h

theorem staticServe_not_listing {fs : FS} {site : Site} {r : Req} {names : List Bytes} :
    staticServe fs site r ≠ .listing names := by
  unfold staticServe
  split
  · simp
  · simp only []
    split
    · simp
    · simp
    · split
      · simp
      · split
        · simp
        · unfold staticContent
          simp only []
          split
          · simp
          · split <;> simp

theorem staticServe_not_archive {fs : FS} {site : Site} {r : Req} {items : List Item} :
    staticServe fs site r ≠ .archive items := by
  unfold staticServe
  split
  · simp
  · simp only []
    split
    · simp
    · simp
    · split
      · simp
      · split
        · simp
        · unfold staticContent
          simp only []
          split
          · simp
          · split <;> simp


/-! ### browse -/

theorem browseServe_file {fs : FS} {site : Site} {r : Req} {ino : Nat} {enc : Option Bytes}
    (h : browseServe fs site r = .file ino enc) : staticServe fs site r = .file ino enc := by
  have hl : ∀ bc info, serveListing fs site bc r info = .file ino enc → staticServe fs site r = .file ino enc := by
    intro bc info h
    unfold serveListing at h
    simp only [] at h
    split at h
    · exact h
    · split at h
      · split at h <;> simp at h
      · split at h <;> simp at h
  unfold browseServe at h
  split at h
  · exact h
  · split at h
    · exact h
    · split at h
      · exact h
      · split at h
        · simp only [] at h
          by_cases hl2 : (if r.url.path = [] then [slash] else r.url.path).getLast? ≠ some slash
          · rw [if_pos hl2] at h; simp at h
          · rw [if_neg hl2] at h; exact hl _ _ h
        · split at h
          · simp at h
          · exact h

theorem readdir_mem {fs : FS} {d : List Bytes} {e : Entry} (h : e ∈ readdir fs d) :
    e ∈ fs ∧ e.path = d ++ [e.name] := by
  unfold readdir at h
  simp only [List.mem_filter, decide_eq_true_eq] at h
  obtain ⟨hm, hne, hd⟩ := h
  refine ⟨hm, ?_⟩
  unfold Entry.name
  have : ∀ l : List Bytes, l ≠ [] → l = l.dropLast ++ [l.getLast?.getD []] := by
    intro l hl
    induction l with
    | nil => exact absurd rfl hl
    | cons x xs ih =>
      cases xs with
      | nil => simp
      | cons y ys =>
        have := ih (by simp)
        simp only [List.dropLast_cons_cons, List.getLast?_cons_cons, List.cons_append]
        rw [← this]
  rw [← hd]
  exact this _ hne

theorem serveListing_listing {fs : FS} {site : Site} {bc : BrowseCfg} {r : Req} {info : Entry} {names : List Bytes}
    (h : serveListing fs site bc r info = .listing names) :
    ∀ n ∈ names, ∃ e ∈ fs, e.path = info.path ++ [n] ∧ hidden fs site e.ino = false := by
  unfold serveListing at h
  simp only [] at h
  split at h
  · exact absurd h staticServe_not_listing
  · split at h
    · split at h <;> simp at h
    · split at h
      · simp at h
      · simp only [Resp.listing.injEq] at h
        intro n hn
        rw [← h] at hn
        simp only [List.mem_map, List.mem_filter, Bool.not_eq_eq_eq_not, Bool.not_true] at hn
        obtain ⟨e, ⟨hm, hh⟩, rfl⟩ := hn
        obtain ⟨hfs, hp⟩ := readdir_mem hm
        exact ⟨e, hfs, hp, hh⟩

theorem walk_items {fs : FS} {site : Site} (fuel : Nat) (d pre : List Bytes) :
    ∀ it ∈ walk fs site fuel d pre, ∃ rel, rel ≠ [] ∧ it.name = pre ++ rel ∧
      ∃ e ∈ fs, e.path = d ++ rel ∧ hidden fs site e.ino = false ∧
        (match it.content with
         | none => e.isDir = true
         | some ino => e.isDir = false ∧ e.ino = ino) := by
  induction fuel generalizing d pre with
  | zero => intro it h; simp [walk] at h
  | succ n ih =>
    intro it h
    unfold walk at h
    simp only [List.mem_flatMap] at h
    obtain ⟨c, hc, hit⟩ := h
    obtain ⟨hcfs, hcp⟩ := readdir_mem hc
    by_cases hh : isHidden fs site.root site.hide c.ino = true
    · simp [hh] at hit
    · simp only [hh, Bool.false_eq_true, if_false] at hit
      have hh' : hidden fs site c.ino = false := by simpa [hidden] using hh
      by_cases hdir : c.isDir = true
      · simp only [hdir, if_true, List.mem_cons] at hit
        rcases hit with rfl | hit
        · exact ⟨[c.name], by simp, rfl, c, hcfs, hcp, hh', hdir⟩
        · obtain ⟨rel, hne, hname, e, he, hep, hhid, hcont⟩ := ih c.path (pre ++ [c.name]) it hit
          refine ⟨c.name :: rel, by simp, by simp [hname], e, he, ?_, hhid, hcont⟩
          rw [hep, hcp]; simp
      · simp only [hdir, Bool.false_eq_true, if_false, List.mem_singleton] at hit
        subst hit
        exact ⟨[c.name], by simp, rfl, c, hcfs, hcp, hh', by simpa using hdir, rfl⟩

theorem isPrefixOf_append' (a b : List Bytes) : a.isPrefixOf (a ++ b) = true := isPrefixOf_append a b

theorem walk_itemOk {fs : FS} {site : Site} {info : Entry} {top : List Bytes} {jail : List Bytes}
    (hinfo : info.path = site.root ++ jail) :
    ∀ it ∈ walk fs site (fs.length + 1) info.path top, itemOk fs site info top it = true := by
  intro it hit
  obtain ⟨rel, hne, hname, e, he, hep, hhid, hcont⟩ := walk_items _ _ _ it hit
  unfold itemOk
  simp only [hname, List.drop_left, Bool.and_eq_true, decide_eq_true_eq, isPrefixOf_append]
  refine ⟨⟨hne, trivial⟩, ?_⟩
  rw [List.any_eq_true]
  refine ⟨e, he, ?_⟩
  simp only [hep, hhid, decide_true, Bool.not_false, Bool.true_and]
  cases hc : it.content with
  | none => rw [hc] at hcont; simpa using hcont
  | some ino =>
    rw [hc] at hcont
    simp only [hcont.1, hcont.2, Bool.not_false, decide_true, Bool.true_and]
    unfold regularInRoot
    rw [List.any_eq_true]
    refine ⟨e, he, ?_⟩
    simp [hcont.1, hcont.2, hep, hinfo, List.append_assoc, isPrefixOf_append]


/-- archive name of the requested directory (its last element; none for the root) -/
def topOf (p : Bytes) : List Bytes :=
  match (jailElems (clean p)).getLast? with
  | some l => [l]
  | none => []

theorem browseServe_listing {fs : FS} {site : Site} {r : Req} {names : List Bytes}
    (h : browseServe fs site r = .listing names) :
    ∃ d, dirOf fs site r.url.path = some d ∧
      ∀ n ∈ names, ∃ e ∈ fs, e.path = d.path ++ [n] ∧ hidden fs site e.ino = false := by
  unfold browseServe at h
  split at h
  · exact absurd h staticServe_not_listing
  · split at h
    · exact absurd h staticServe_not_listing
    · rename_i info hopen
      split at h
      · exact absurd h staticServe_not_listing
      · rename_i hdir
        have hdir' : info.isDir = true := by simpa using hdir
        split at h
        · simp only [] at h
          by_cases hl2 : (if r.url.path = [] then [slash] else r.url.path).getLast? ≠ some slash
          · rw [if_pos hl2] at h; simp at h
          · rw [if_neg hl2] at h
            exact ⟨info, by simp [dirOf, hopen, hdir'], serveListing_listing h⟩
        · split at h
          · simp at h
          · exact absurd h staticServe_not_listing

theorem serveListing_archive {fs : FS} {site : Site} {bc : BrowseCfg} {r : Req} {info : Entry} {items : List Item}
    (h : serveListing fs site bc r info = .archive items) :
    items = walk fs site (fs.length + 1) info.path (topOf r.url.path) := by
  unfold serveListing at h
  simp only [] at h
  split at h
  · exact absurd h staticServe_not_archive
  · split at h
    · split at h
      · simp only [Resp.archive.injEq] at h; rw [← h]; rfl
      · simp at h
    · split at h <;> simp at h

theorem browseServe_archive {fs : FS} {site : Site} {r : Req} {items : List Item}
    (hroot : NormalSegs site.root) (h : browseServe fs site r = .archive items) :
    ∃ d, dirOf fs site r.url.path = some d ∧ ∀ it ∈ items, itemOk fs site d (topOf r.url.path) it = true := by
  unfold browseServe at h
  split at h
  · exact absurd h staticServe_not_archive
  · split at h
    · exact absurd h staticServe_not_archive
    · rename_i info hopen
      split at h
      · exact absurd h staticServe_not_archive
      · rename_i hdir
        have hdir' : info.isDir = true := by simpa using hdir
        split at h
        · simp only [] at h
          by_cases hl2 : (if r.url.path = [] then [slash] else r.url.path).getLast? ≠ some slash
          · rw [if_pos hl2] at h; simp at h
          · rw [if_neg hl2] at h
            refine ⟨info, by simp [dirOf, hopen, hdir'], ?_⟩
            rw [serveListing_archive h]
            exact walk_itemOk (dirOpen_path hroot hopen)
        · split at h
          · simp at h
          · exact absurd h staticServe_not_archive

/-! ### request-target decoding -/

theorem unescape_slash (r : Bytes) : unescape false (slash :: r) = (unescape false r).map (slash :: ·) := by
  show unescape false (47 :: r) = _
  rw [unescape]
  · simp [slash]
  · intro a b rest h; cases h
  · intro h; exact absurd h (by decide)

theorem setPath_ok {t p rp : Bytes} (h : setPath (slash :: t) = some (p, rp)) :
    (∃ t', p = slash :: t') ∧ (rp = [] ∨ unescape false rp = some p) := by
  unfold setPath at h
  rw [unescape_slash] at h
  cases hu : unescape false t with
  | none => simp [hu] at h
  | some t' =>
    simp only [hu, Option.map_some, Option.some.injEq, Prod.mk.injEq] at h
    obtain ⟨rfl, hrp⟩ := h
    refine ⟨⟨t', rfl⟩, ?_⟩
    by_cases he : escapePath (slash :: t') = slash :: t
    · simp [he] at hrp; exact Or.inl hrp
    · simp only [he, if_false] at hrp
      right; rw [← hrp, unescape_slash, hu]; rfl


theorem splitQuery_slash (t : Bytes) : ∃ r q f, splitQuery (slash :: t) = (slash :: r, q, f) := by
  unfold splitQuery
  split
  · rename_i hc
    cases t with
    | nil => simp [hasSuffix, hasPrefix, slash] at hc
    | cons c r => exact ⟨(c :: r).dropLast, [], true, by simp [List.dropLast]⟩
  · have h63 : slash ≠ (63 : UInt8) := by decide
    rw [cut_cons_ne (sep := 63) t h63]
    exact ⟨_, _, _, rfl⟩

theorem parseRequestURI_ok {target : Bytes} {u : Url} (h : parseRequestURI target = some u) : UrlOk u := by
  unfold parseRequestURI at h
  split at h
  · simp at h
  · split at h
    · rename_i t _
      obtain ⟨r, q, f, hs⟩ := splitQuery_slash t
      have hs' : splitQuery (47 :: t) = (slash :: r, q, f) := hs
      simp only [hs'] at h
      cases hp : setPath (slash :: r) with
      | none => simp [hp] at h
      | some pr =>
        obtain ⟨p, rp⟩ := pr
        simp only [hp, Option.some.injEq] at h
        subst h
        exact setPath_ok hp
    · simp at h

theorem trimPathPrefix_ok {u : Url} {pre : Bytes} (hu : UrlOk u) : UrlOk (trimPathPrefix u pre) := by
  unfold trimPathPrefix
  simp only []
  have hstart : ∃ t', (if hasPrefix (trimPrefix (escapedPath u) pre) [slash] = true then trimPrefix (escapedPath u) pre
      else slash :: trimPrefix (escapedPath u) pre) = slash :: t' := by
    split
    · rename_i hc
      cases hx : trimPrefix (escapedPath u) pre with
      | nil => rw [hx] at hc; simp [hasPrefix] at hc
      | cons c r =>
        rw [hx] at hc
        simp only [hasPrefix, Bool.and_true, beq_iff_eq] at hc
        exact ⟨r, by rw [hc]⟩
    · exact ⟨_, rfl⟩
  obtain ⟨t', ht'⟩ := hstart
  rw [ht']
  cases hp : setPath (slash :: t') with
  | none => simpa using hu
  | some pr =>
    obtain ⟨p, rp⟩ := pr
    exact setPath_ok hp

/-- what `serve` does, in terms of the URL the judge computes -/
theorem serve_cases (fs : FS) (site : Site) (method target ae : Bytes) :
    (∃ c, serve fs site method target ae = .status c) ∨
    ∃ u, siteUrl site target = some u ∧ UrlOk u ∧
      serve fs site method target ae = browseServe fs site { method := method, url := u, acceptEncoding := ae } := by
  unfold serve siteUrl
  cases hp : parseRequestURI target with
  | none => exact Or.inl ⟨400, rfl⟩
  | some u =>
    simp only []
    by_cases h1 : site.pathPrefix = [slash]
    · simp only [h1, if_true]
      exact Or.inr ⟨u, rfl, parseRequestURI_ok hp, rfl⟩
    · simp only [h1, if_false]
      by_cases h2 : (!hasPrefix u.path site.pathPrefix) = true
      · simp only [h2, if_true]; exact Or.inl ⟨404, rfl⟩
      · simp only [h2, if_false]
        exact Or.inr ⟨_, rfl, trimPathPrefix_ok (parseRequestURI_ok hp), rfl⟩

/-- The model's answer always satisfies the C02 predicate. -/
theorem serve_verdict_ok (fs : FS) (site : Site) (method target ae : Bytes)
    (hroot : NormalSegs site.root) (hp : NormalPrefix site.pathPrefix) (hrd : RootIsDir fs site) :
    verdict fs site target ae (serve fs site method target ae) = "ok" := by
  rcases serve_cases fs site method target ae with ⟨c, hc⟩ | ⟨u, hsu, hok, hs⟩
  · rw [hc]; rfl
  · rw [hs]
    cases hb : browseServe fs site { method := method, url := u, acceptEncoding := ae } with
    | status c => rfl
    | redirect c loc =>
      simp only [verdict, browseServe_redirect hb hok hp hroot hrd, if_true]
    | file ino enc =>
      obtain ⟨h1, h2, h3⟩ := staticServe_file hroot (browseServe_file hb)
      simp only [verdict, hsu, h1, h2, Bool.false_eq_true, if_false, Bool.not_true]
      have : (allowedInos fs site u.path ae).contains ino = true := by simpa using h3
      simp only [this, Bool.not_true, Bool.false_eq_true, if_false]
    | listing names =>
      obtain ⟨d, hd, hall⟩ := browseServe_listing hb
      simp only [verdict, hsu, hd]
      have : (names.all fun n => fs.any fun e => decide (e.path = d.path ++ [n]) && !hidden fs site e.ino) = true := by
        rw [List.all_eq_true]
        intro n hn
        obtain ⟨e, he, hpth, hh⟩ := hall n hn
        rw [List.any_eq_true]
        exact ⟨e, he, by simp [hpth, hh]⟩
      exact if_pos this
    | archive items =>
      obtain ⟨d, hd, hall⟩ := browseServe_archive hroot hb
      simp only [verdict, hsu, hd]
      have : (items.all (itemOk fs site d (topOf u.path))) = true := by
        rw [List.all_eq_true]; exact hall
      exact if_pos this

end Casket.FileServeProofs
