import Casket.Spec.AutoHTTPS
/-
Helper lemmas for Props/C15.lean.  Core Lean only (no Mathlib needed).
-/
namespace Casket.AutoHTTPS
open Casket.Generated Casket.AutoHTTPSSpec

/-! ## finite checks over all byte values -/

theorem forall_uint8 (p : UInt8 → Bool) (h : ∀ n : Fin 256, p (UInt8.ofNat n.val) = true) (b : UInt8) : p b = true := by
  have := h ⟨b.toNat, b.toNat_lt⟩
  simpa using this

/-! ## the regenerated tables are the ones the specification talks about -/

theorem tables_ports : httpPort = b!"80" ∧ httpsPort = b!"443" ∧ qualifiesComparesConfiguredHTTPPort = true ∧ defaultPort = b!"2015" ∧
    defaultHTTPPort = b!"80" ∧ defaultHTTPSPort = b!"443" := by decide

theorem tables_names : loopbackName = b!"localhost" ∧ loopbackSuffix = b!".localhost" ∧ loopbackTrimCutset = b!"[]" ∧
    internalTrimCutset = b!"[]" ∧ unmanagedEmail = b!"off" ∧ certInternalNames = [b!"localhost"] := by decide

theorem tables_tlds : privateTLDs = [b!".example", b!".invalid", b!".test", b!".local"] ∧
    certInternalSuffixes = [b!".localhost", b!".local", b!".home.arpa"] := by decide

theorem tables_forbidden : certForbiddenChars = forbiddenChars := by decide

theorem tables_nets : privateNetworks =
    [([10, 0, 0, 0], 8), ([172, 16, 0, 0], 12), ([192, 168, 0, 0], 16), ([252, 0, 0, 0, 0, 0, 0, 0, 0, 0, 0, 0, 0, 0, 0, 0], 7)] := by decide

/-! ## private address ranges: the CIDR table with mask arithmetic = numeric ranges -/

set_option maxRecDepth 100000 in
theorem byte_mask_240 (b : UInt8) : ((16 : UInt8) == b &&& 240) = (decide (16 ≤ b) && decide (b ≤ 31)) := by
  have := forall_uint8 (fun b => ((16 : UInt8) == b &&& 240) == (decide (16 ≤ b) && decide (b ≤ 31))) (by decide) b
  simpa using this

set_option maxRecDepth 100000 in
theorem byte_mask_254 (b : UInt8) : ((252 : UInt8) == b &&& 254) = (b == 252 || b == 253) := by
  have := forall_uint8 (fun b => ((252 : UInt8) == b &&& 254) == (b == 252 || b == 253)) (by decide) b
  simpa using this

set_option maxRecDepth 100000 in
theorem byte_and_255 (b : UInt8) : b &&& 255 = b := by
  have := forall_uint8 (fun b => b &&& 255 == b) (by decide) b
  simpa using this

theorem beq_swap (a b : UInt8) : (a == b) = (b == a) := BEq.comm

/-- IPNet.Contains over the regenerated `privateNetworks` table is membership in 10/8, 172.16/12, 192.168/16, fc00::/7 -/
theorem netContains_private (ip : List UInt8) (hlen : ip.length = 16) :
    privateNetworks.any (fun n => netContains n ip) = privateIP ip := by
  rw [tables_nets]
  match ip, hlen with
  | [x0, x1, x2, x3, x4, x5, x6, x7, x8, x9, x10, x11, x12, x13, x14, x15], _ =>
    by_cases h : ([x0, x1, x2, x3, x4, x5, x6, x7, x8, x9, x10, x11] == v4in6Prefix) = true
    · simp [netContains, privateIP, to4, h, maskedEq, maskByte, byte_and_255, (by decide : (16:UInt8) &&& 240 = 16), byte_mask_240,
        beq_swap 10 x12, beq_swap 172 x12, beq_swap 192 x12, beq_swap 168 x13, Bool.and_assoc, Bool.or_assoc]
    · simp [netContains, privateIP, to4, h, maskedEq, maskByte, (by decide : (252:UInt8) &&& 254 = 252), byte_mask_254]

/-! ## qualification of the site host -/

theorem trimCutset_of_none (s cut : Bytes) (h : ∀ c ∈ s, cut.contains c = false) : trimCutset s cut = s := by
  unfold trimCutset
  have h1 : s.dropWhile cut.contains = s := by
    cases s with
    | nil => rfl
    | cons a t =>
      have := h a (by simp)
      simp only [List.dropWhile_cons, this, Bool.false_eq_true, if_false]
  rw [h1]
  have h2 : s.reverse.dropWhile cut.contains = s.reverse := by
    cases hr : s.reverse with
    | nil => rfl
    | cons a t =>
      have : a ∈ s := by
        have : a ∈ s.reverse := by rw [hr]; simp
        simpa using this
      have := h a this
      simp only [List.dropWhile_cons, this, Bool.false_eq_true, if_false]
  rw [h2, List.reverse_reverse]

theorem wildcard_len (h : Bytes) (hp : hasPrefix h b!"*." = true) (hc : countByte h 46 ≥ 2) : h.length > 2 := by
  unfold hasPrefix at hp
  rw [List.isPrefixOf_iff_prefix] at hp
  obtain ⟨t, rfl⟩ := hp
  cases t with
  | nil => simp [countByte] at hc
  | cons a t => simp

/-- certmagic's two wildcard conditions together = the specification's wildcard rule -/
theorem wildcard_iff (h : Bytes) :
    ((!hasByte h 42 || hasPrefix h b!"*." || h == b!"*") &&
     (!hasByte h 42 || (countByte h 42 == 1 && countByte h 46 > 1 && h.length > 2 && hasPrefix h b!"*."))) = wildcardOK h := by
  unfold wildcardOK
  cases hs : hasByte h 42
  · simp
  · cases hp : hasPrefix h b!"*."
    · simp
    · by_cases hc : countByte h 46 ≥ 2
      · have := wildcard_len h hp hc
        simp [hc, this, show countByte h 46 > 1 from hc]
      · have : ¬ countByte h 46 > 1 := by omega
        simp [hc, this]

/-- internal by certmagic's SubjectIsInternal -/
def certInternal (h : Bytes) : Bool := h == b!"localhost" || [b!".localhost", b!".local", b!".home.arpa"].any (hasSuffix h)

theorem subjectIsInternal_eq (h : Bytes) : subjectIsInternal h = certInternal h := by
  unfold subjectIsInternal certInternal
  rw [tables_names.2.2.2.2.2, tables_tlds.2]
  by_cases hh : h = b!"localhost"
  · subst hh; decide
  · have : (h == b!"localhost") = false := by simpa using hh
    simp [hh, this]

theorem sqpc_iff (h : Bytes) :
    subjectQualifiesForPublicCert h = (certNameOK h && !certInternal h && (parseIP h).isNone) := by
  unfold subjectQualifiesForPublicCert subjectQualifiesForCert certNameOK subjectIsIP
  rw [subjectIsInternal_eq, tables_forbidden, ← wildcard_iff, ← Option.not_isSome]
  generalize allSpace h = a1
  generalize hasPrefix h b!"." = a2
  generalize hasSuffix h b!"." = a3
  generalize hasByte h 42 = a4
  generalize hasPrefix h b!"*." = a5
  generalize (h == b!"*") = a6
  generalize containsAny h forbiddenChars = a7
  generalize certInternal h = a8
  generalize (parseIP h).isSome = a9'
  generalize (countByte h 42 == 1 && decide (countByte h 46 > 1) && decide (h.length > 2)) = a10
  revert a1 a2 a3 a4 a5 a6 a7 a8 a9' a10
  decide

theorem no_brackets_of_not_forbidden (h : Bytes) (hf : containsAny h forbiddenChars = false) :
    ∀ c ∈ h, (b!"[]").contains c = false := by
  intro c hc
  unfold containsAny at hf
  rw [List.any_eq_false] at hf
  have h1 := hf c hc
  by_cases h91 : c = 91
  · subst h91; revert h1; decide
  · by_cases h93 : c = 93
    · subst h93; revert h1; decide
    · simp [h91, h93]

/-- what `isLoopback` and `isInternal` come to for a lower-case host without port and without brackets that is no IP literal -/
theorem isLoopback_name (h : Bytes) (hl : toLower h = h) (hs : splitHostPort h = none)
    (hb : ∀ c ∈ h, (b!"[]").contains c = false) (hip : parseIP h = none) :
    isLoopback h = (h == b!"localhost" || hasSuffix h b!".localhost") := by
  unfold isLoopback
  simp only [hl, hs]
  rw [tables_names.2.2.1, trimCutset_of_none h _ hb, hip, tables_names.1, tables_names.2.1]

theorem isInternal_name (h : Bytes) (hl : toLower h = h) (hs : splitHostPort h = none)
    (hb : ∀ c ∈ h, (b!"[]").contains c = false) (hip : parseIP h = none) :
    isInternal h = [b!".example", b!".invalid", b!".test", b!".local"].any (hasSuffix h) := by
  unfold isInternal
  simp only [hs]
  rw [tables_names.2.2.2.1, trimCutset_of_none h _ hb, hl, hip, tables_tlds.1]
  simp

theorem certNameOK_nonempty (h : Bytes) (hc : certNameOK h = true) : h ≠ [] := by
  intro he; subst he; revert hc; decide

theorem certNameOK_no_brackets (h : Bytes) (hc : certNameOK h = true) : ∀ c ∈ h, (b!"[]").contains c = false := by
  apply no_brackets_of_not_forbidden
  unfold certNameOK at hc
  simp only [Bool.and_eq_true, Bool.not_eq_true'] at hc
  exact hc.1.2

/-- Qualification of the site host: casket's three tests together are the specification's "public DNS name". -/
theorem host_public_iff (h : Bytes) (hl : toLower h = h) (hs : splitHostPort h = none) :
    (!isLoopback h && !isInternal h && subjectQualifiesForPublicCert h) = publicDNSName h := by
  rw [sqpc_iff]
  unfold publicDNSName classify
  by_cases hc : certNameOK h = true
  · have hne := certNameOK_nonempty h hc
    have hb := certNameOK_no_brackets h hc
    have hemp : h.isEmpty = false := by cases h <;> simp_all
    cases hip : parseIP h with
    | some ip => simp [hemp]
    | none =>
      rw [isLoopback_name h hl hs hb hip, isInternal_name h hl hs hb hip]
      simp only [hemp, hc, internalName, hl, certInternal, internalSuffixes, List.any_cons, List.any_nil, Option.isSome_none, Option.isNone_none]
      generalize (h == b!"localhost") = a
      generalize hasSuffix h b!".localhost" = b
      generalize hasSuffix h b!".local" = c
      generalize hasSuffix h b!".test" = d
      generalize hasSuffix h b!".example" = e
      generalize hasSuffix h b!".invalid" = f
      generalize hasSuffix h b!".home.arpa" = g
      revert a b c d e f g
      decide
  · have hc' : certNameOK h = false := by simpa using hc
    simp only [hc', Bool.false_and, Bool.and_false]
    split <;> try rfl
    split <;> try rfl
    split <;> rfl

/-! ## IP literals: alphabet and length; loopback / private hosts -/

set_option linter.unusedSimpArgs false

/-- bytes that can occur in the text of an IP address -/
def ipByte (c : UInt8) : Bool := isHexDigit c || c == 46 || c == 58

theorem ipv4Go_alphabet : ∀ (s : Bytes) (first prevDot : Bool) (val digLen : Nat) (acc r : List UInt8),
    ipv4Go s first prevDot val digLen acc = some r → ∀ c ∈ s, ipByte c = true := by
  intro s
  induction s with
  | nil => intro _ _ _ _ _ _ _ c hc; cases hc
  | cons a t ih =>
    intro first prevDot val digLen acc r h c hc
    unfold ipv4Go at h
    by_cases hd : isDigit a = true
    · simp only [hd, if_true] at h
      have ha : ipByte a = true := by simp [ipByte, isHexDigit, hd]
      by_cases h1 : (digLen == 1 && val == 0) = true
      · simp [h1] at h
      · simp only [h1] at h
        by_cases h2 : val * 10 + (a.toNat - 48) > 255
        · simp [h2] at h
        · simp only [h2, if_false] at h
          rcases List.mem_cons.mp hc with rfl | hc'
          · exact ha
          · exact ih _ _ _ _ _ _ h c hc'
    · simp only [hd] at h
      by_cases h46 : (a == 46) = true
      · simp only [h46, if_true] at h
        have ha : ipByte a = true := by simp [ipByte, h46]
        by_cases h1 : (first || t.isEmpty || prevDot) = true
        · simp [h1] at h
        · simp only [h1] at h
          by_cases h2 : (acc.length == 3) = true
          · simp [h2] at h
          · simp only [h2] at h
            rcases List.mem_cons.mp hc with rfl | hc'
            · exact ha
            · exact ih _ _ _ _ _ _ h c hc'
      · simp [h46] at h


theorem drop_length_takeWhile (p : UInt8 → Bool) (s : Bytes) : s.drop (s.takeWhile p).length = s.dropWhile p := by
  induction s with
  | nil => rfl
  | cons a t ih =>
    by_cases h : p a = true
    · simp [h, ih]
    · simp [h]

theorem mem_takeWhile_imp (p : UInt8 → Bool) (s : Bytes) : ∀ c ∈ s.takeWhile p, p c = true := by
  induction s with
  | nil => intro c hc; cases hc
  | cons a t ih =>
    intro c hc
    by_cases h : p a = true
    · simp only [List.takeWhile_cons, h, if_true] at hc
      rcases List.mem_cons.mp hc with rfl | hc'
      · exact h
      · exact ih c hc'
    · simp [List.takeWhile_cons, h] at hc

theorem hex_ipByte (c : UInt8) (h : isHexDigit c = true) : ipByte c = true := by simp [ipByte, h]

theorem ipv6Loop_alphabet : ∀ (fuel : Nat) (s : Bytes) (ip : List UInt8) (ell : Option Nat) (rest : Bytes) (ip' : List UInt8) (ell' : Option Nat),
    ipv6Loop fuel s ip ell = some (rest, ip', ell') → ∃ pre, s = pre ++ rest ∧ ∀ c ∈ pre, ipByte c = true := by
  intro fuel
  induction fuel with
  | zero => intro s ip ell rest ip' ell' h; simp [ipv6Loop] at h
  | succ n ih =>
    intro s ip ell rest ip' ell' h
    unfold ipv6Loop at h
    simp only [drop_length_takeWhile, Bool.false_eq_true, ↓reduceIte] at h
    have hs : s = s.takeWhile isHexDigit ++ s.dropWhile isHexDigit := (List.takeWhile_append_dropWhile).symm
    have hds : ∀ c ∈ s.takeWhile isHexDigit, ipByte c = true := fun c hc => hex_ipByte c (mem_takeWhile_imp _ _ c hc)
    generalize hdsd : s.takeWhile isHexDigit = ds at h hs hds
    generalize htl : s.dropWhile isHexDigit = tl at h hs
    by_cases h1 : ds.length > 4
    · simp [h1] at h
    · simp only [h1, if_false, Bool.false_eq_true, ↓reduceIte] at h
      by_cases h2 : (ds.length == 0) = true
      · simp [h2] at h
      · simp only [h2, Bool.false_eq_true, ↓reduceIte] at h
        by_cases h3 : (tl.head? == some 46) = true
        · simp only [h3, if_true, Bool.false_eq_true, ↓reduceIte] at h
          by_cases h4 : (ell.isNone && ip.length != 12) = true
          · simp [h4] at h
          · simp only [h4, Bool.false_eq_true, ↓reduceIte] at h
            by_cases h5 : ip.length + 4 > 16
            · simp [h5] at h
            · simp only [h5, if_false, Bool.false_eq_true, ↓reduceIte] at h
              cases hp : parseIPv4 s with
              | none => simp [hp] at h
              | some v4 =>
                simp only [hp, Option.some.injEq, Prod.mk.injEq, Bool.false_eq_true, ↓reduceIte] at h
                refine ⟨s, by rw [← h.1]; simp, ?_⟩
                exact ipv4Go_alphabet s _ _ _ _ _ _ hp
        · simp only [h3, Bool.false_eq_true, ↓reduceIte] at h
          match tl, hs, h with
          | [], hs, h =>
            simp only [Option.some.injEq, Prod.mk.injEq, Bool.false_eq_true, ↓reduceIte] at h
            refine ⟨s, by rw [← h.1]; simp, ?_⟩
            rw [hs]; simpa using hds
          | c :: s1, hs, h =>
            by_cases hc : (c != 58) = true
            · simp [hc] at h
            · simp only [hc, Bool.false_eq_true, ↓reduceIte] at h
              have hc58 : c = 58 := by simpa using hc
              match s1, hs, h with
              | [], hs, h => simp at h
              | c2 :: s2, hs, h =>
                by_cases hcc : (c2 == 58) = true
                · simp only [hcc, if_true, Bool.false_eq_true, ↓reduceIte] at h
                  have hc2 : c2 = 58 := by simpa using hcc
                  by_cases he : ell.isSome = true
                  · simp [he] at h
                  · simp only [he, Bool.false_eq_true, ↓reduceIte] at h
                    have hpre : ∀ x ∈ ds ++ [c, c2], ipByte x = true := by
                      intro x hx
                      rcases List.mem_append.mp hx with hx | hx
                      · exact hds x hx
                      · simp at hx; rcases hx with rfl | rfl <;> simp [ipByte, hc58, hc2]
                    by_cases hem : s2.isEmpty = true
                    · simp only [hem, if_true, Option.some.injEq, Prod.mk.injEq, Bool.false_eq_true, ↓reduceIte] at h
                      have : s2 = [] := by simpa using hem
                      refine ⟨ds ++ [c, c2], by rw [← h.1, hs, this]; simp, hpre⟩
                    · simp only [hem, Bool.false_eq_true, ↓reduceIte] at h
                      by_cases hlen : (ip ++ [UInt8.ofNat (hexAcc ds / 256), UInt8.ofNat (hexAcc ds % 256)]).length < 16
                      · simp only [hlen, if_true, Bool.false_eq_true, ↓reduceIte] at h
                        obtain ⟨pre2, hp2, hall⟩ := ih _ _ _ _ _ _ h
                        refine ⟨ds ++ [c, c2] ++ pre2, by rw [hs, hp2]; simp, ?_⟩
                        intro x hx
                        rcases List.mem_append.mp hx with hx | hx
                        · exact hpre x hx
                        · exact hall x hx
                      · simp only [hlen, if_false, Option.some.injEq, Prod.mk.injEq, Bool.false_eq_true, ↓reduceIte] at h
                        refine ⟨ds ++ [c, c2], by rw [← h.1, hs]; simp, hpre⟩
                · simp only [hcc, Bool.false_eq_true, ↓reduceIte] at h
                  have hpre : ∀ x ∈ ds ++ [c], ipByte x = true := by
                    intro x hx
                    rcases List.mem_append.mp hx with hx | hx
                    · exact hds x hx
                    · simp at hx; subst hx; simp [ipByte, hc58]
                  by_cases hlen : (ip ++ [UInt8.ofNat (hexAcc ds / 256), UInt8.ofNat (hexAcc ds % 256)]).length < 16
                  · simp only [hlen, if_true, Bool.false_eq_true, ↓reduceIte] at h
                    obtain ⟨pre2, hp2, hall⟩ := ih _ _ _ _ _ _ h
                    refine ⟨ds ++ [c] ++ pre2, by rw [hs, hp2]; simp, ?_⟩
                    intro x hx
                    rcases List.mem_append.mp hx with hx | hx
                    · exact hpre x hx
                    · exact hall x hx
                  · simp only [hlen, if_false, Option.some.injEq, Prod.mk.injEq, Bool.false_eq_true, ↓reduceIte] at h
                    refine ⟨ds ++ [c], by rw [← h.1, hs]; simp, hpre⟩

theorem ipv4Go_length : ∀ (s : Bytes) (first prevDot : Bool) (val digLen : Nat) (acc r : List UInt8),
    acc.length ≤ 3 → ipv4Go s first prevDot val digLen acc = some r → r.length = 4 := by
  intro s
  induction s with
  | nil =>
    intro _ _ val _ acc r hacc h
    unfold ipv4Go at h
    by_cases h3 : acc.length < 3
    · simp [h3] at h
    · simp only [h3, if_false, Option.some.injEq] at h
      rw [← h]; simp; omega
  | cons a t ih =>
    intro first prevDot val digLen acc r hacc h
    unfold ipv4Go at h
    by_cases hd : isDigit a = true
    · simp only [hd, if_true] at h
      by_cases h1 : (digLen == 1 && val == 0) = true
      · simp [h1] at h
      · simp only [h1] at h
        by_cases h2 : val * 10 + (a.toNat - 48) > 255
        · simp [h2] at h
        · simp only [h2, if_false] at h
          exact ih _ _ _ _ _ _ hacc h
    · simp only [hd] at h
      by_cases h46 : (a == 46) = true
      · simp only [h46, if_true] at h
        by_cases h1 : (first || t.isEmpty || prevDot) = true
        · simp [h1] at h
        · simp only [h1] at h
          by_cases h2 : (acc.length == 3) = true
          · simp [h2] at h
          · simp only [h2] at h
            have : acc.length ≠ 3 := by simpa using h2
            exact ih _ _ _ _ _ _ (by simp; omega) h
      · simp [h46] at h

theorem parseIPv4_length (s : Bytes) (r : List UInt8) (h : parseIPv4 s = some r) : r.length = 4 :=
  ipv4Go_length s _ _ _ _ [] r (by simp) h

theorem ipv6Loop_length : ∀ (fuel : Nat) (s : Bytes) (ip : List UInt8) (ell : Option Nat) (rest : Bytes) (ip' : List UInt8) (ell' : Option Nat),
    ip.length % 2 = 0 → ip.length < 16 → (∀ e, ell = some e → e ≤ ip.length) →
    ipv6Loop fuel s ip ell = some (rest, ip', ell') → ip'.length ≤ 16 ∧ (∀ e, ell' = some e → e ≤ ip'.length) := by
  intro fuel
  induction fuel with
  | zero => intro s ip ell rest ip' ell' _ _ _ h; simp [ipv6Loop] at h
  | succ n ih =>
    intro s ip ell rest ip' ell' hev hlt hell h
    unfold ipv6Loop at h
    generalize hds : s.takeWhile isHexDigit = ds at h
    by_cases h1 : ds.length > 4
    · simp [h1] at h
    · simp only [h1, if_false] at h
      by_cases h2 : (ds.length == 0) = true
      · simp [h2] at h
      · simp only [h2, Bool.false_eq_true, ↓reduceIte] at h
        by_cases h3 : ((s.drop ds.length).head? == some 46) = true
        · simp only [h3, if_true] at h
          by_cases h4 : (ell.isNone && ip.length != 12) = true
          · simp [h4] at h
          · simp only [h4, Bool.false_eq_true, ↓reduceIte] at h
            by_cases h5 : ip.length + 4 > 16
            · simp [h5] at h
            · simp only [h5, if_false] at h
              cases hp : parseIPv4 s with
              | none => simp [hp] at h
              | some v4 =>
                simp only [hp, Option.some.injEq, Prod.mk.injEq] at h
                obtain ⟨_, hip, hel⟩ := h
                have hv := parseIPv4_length s v4 hp
                subst hip; subst hel
                refine ⟨by simp; omega, ?_⟩
                intro e he; have := hell e he; simp; omega
        · simp only [h3, Bool.false_eq_true, ↓reduceIte] at h
          generalize hip2 : ip ++ [UInt8.ofNat (hexAcc ds / 256), UInt8.ofNat (hexAcc ds % 256)] = ip2 at h
          have hl2 : ip2.length = ip.length + 2 := by rw [← hip2]; simp
          have hev2 : ip2.length % 2 = 0 := by omega
          have hle2 : ip2.length ≤ 16 := by omega
          have hell2 : ∀ e, ell = some e → e ≤ ip2.length := by intro e he; have := hell e he; omega
          generalize s.drop ds.length = tl at h
          match tl, h with
          | [], h =>
            simp only [Option.some.injEq, Prod.mk.injEq] at h
            obtain ⟨_, hip, hel⟩ := h
            subst hip; subst hel
            exact ⟨hle2, hell2⟩
          | c :: s1, h =>
            by_cases hc : (c != 58) = true
            · simp [hc] at h
            · simp only [hc, Bool.false_eq_true, ↓reduceIte] at h
              match s1, h with
              | [], h => simp at h
              | c2 :: s2, h =>
                by_cases hcc : (c2 == 58) = true
                · simp only [hcc, if_true] at h
                  by_cases he : ell.isSome = true
                  · simp [he] at h
                  · simp only [he, Bool.false_eq_true, ↓reduceIte] at h
                    by_cases hem : s2.isEmpty = true
                    · simp only [hem, if_true, Option.some.injEq, Prod.mk.injEq] at h
                      obtain ⟨_, hip, hel⟩ := h
                      subst hip; subst hel
                      exact ⟨hle2, by intro e he'; cases he'; exact Nat.le_refl _⟩
                    · simp only [hem, Bool.false_eq_true, ↓reduceIte] at h
                      by_cases hlen : ip2.length < 16
                      · simp only [hlen, if_true] at h
                        exact ih _ _ _ _ _ _ hev2 hlen (by intro e he'; cases he'; exact Nat.le_refl _) h
                      · simp only [hlen, if_false, Option.some.injEq, Prod.mk.injEq] at h
                        obtain ⟨_, hip, hel⟩ := h
                        subst hip; subst hel
                        exact ⟨hle2, by intro e he'; cases he'; exact Nat.le_refl _⟩
                · simp only [hcc, Bool.false_eq_true, ↓reduceIte] at h
                  by_cases hlen : ip2.length < 16
                  · simp only [hlen, if_true] at h
                    exact ih _ _ _ _ _ _ hev2 hlen hell2 h
                  · simp only [hlen, if_false, Option.some.injEq, Prod.mk.injEq] at h
                    obtain ⟨_, hip, hel⟩ := h
                    subst hip; subst hel
                    exact ⟨hle2, hell2⟩

theorem finishIPv6_some (res : Bytes × List UInt8 × Option Nat) (r : List UInt8) (h : finishIPv6 res = some r) :
    res.1 = [] ∧ (res.2.1.length ≤ 16 → (∀ e, res.2.2 = some e → e ≤ res.2.1.length) → r.length = 16) := by
  obtain ⟨rest, ip, ell⟩ := res
  unfold finishIPv6 at h
  simp only at h
  by_cases hr : (!rest.isEmpty) = true
  · simp [hr] at h
  · simp only [hr, Bool.false_eq_true, ↓reduceIte] at h
    refine ⟨by simpa using hr, ?_⟩
    intro hle hel
    by_cases hlt : ip.length < 16
    · simp only [hlt, if_true] at h
      cases ell with
      | none => simp at h
      | some e =>
        simp only [Option.some.injEq] at h
        have := hel e rfl
        rw [← h]; simp; omega
    · simp only [hlt, if_false] at h
      by_cases hs : ell.isSome = true
      · simp [hs] at h
      · simp only [hs, Bool.false_eq_true, ↓reduceIte, Option.some.injEq] at h
        rw [← h]; simp only at hle; omega

theorem parseIPv6_some (s : Bytes) (r : List UInt8) (h : parseIPv6 s = some r) :
    (∀ c ∈ s, ipByte c = true) ∧ r.length = 16 := by
  unfold parseIPv6 at h
  by_cases hlead : hasPrefix s b!"::" = true
  · simp only [hlead, if_true, Bool.true_and] at h
    have hs : s = b!"::" ++ s.drop 2 := by
      unfold hasPrefix at hlead
      rw [List.isPrefixOf_iff_prefix] at hlead
      obtain ⟨t, rfl⟩ := hlead
      simp
    by_cases hemp : (s.drop 2).isEmpty = true
    · have : s.drop 2 = [] := by simpa using hemp
      simp only [hemp, if_true, Option.some.injEq] at h
      refine ⟨?_, by rw [← h]; simp⟩
      rw [hs, this]; intro c hc; simp at hc; rcases hc with rfl | rfl <;> decide
    · simp only [hemp, Bool.false_eq_true, ↓reduceIte] at h
      cases hl : ipv6Loop 9 (s.drop 2) [] (some 0) with
      | none => simp [hl] at h
      | some res =>
        simp only [hl, Option.bind_some] at h
        obtain ⟨hrest, hlen⟩ := finishIPv6_some res r h
        obtain ⟨rest, ip, ell⟩ := res
        simp only at hrest hlen
        have hinv := ipv6Loop_length _ _ _ _ _ _ _ (by simp) (by simp) (by intro e he; cases he; simp) hl
        refine ⟨?_, hlen hinv.1 hinv.2⟩
        obtain ⟨pre, hp, hall⟩ := ipv6Loop_alphabet _ _ _ _ _ _ _ hl
        rw [hrest, List.append_nil] at hp
        intro c hc
        rw [hs] at hc
        rcases List.mem_append.mp hc with hc | hc
        · simp at hc; rcases hc with rfl | rfl <;> decide
        · rw [hp] at hc; exact hall c hc
  · simp only [hlead, Bool.false_eq_true, ↓reduceIte, Bool.false_and] at h
    cases hl : ipv6Loop 9 s [] none with
    | none => simp [hl] at h
    | some res =>
      simp only [hl, Option.bind_some] at h
      obtain ⟨hrest, hlen⟩ := finishIPv6_some res r h
      obtain ⟨rest, ip, ell⟩ := res
      simp only at hrest hlen
      have hinv := ipv6Loop_length _ _ _ _ _ _ _ (by simp) (by simp) (by intro e he; cases he) hl
      refine ⟨?_, hlen hinv.1 hinv.2⟩
      obtain ⟨pre, hp, hall⟩ := ipv6Loop_alphabet _ _ _ _ _ _ _ hl
      rw [hrest, List.append_nil] at hp
      intro c hc
      rw [hp] at hc; exact hall c hc

/-- the text of an IP address consists of hex digits, '.' and ':' only; and the parsed address has 16 bytes -/
theorem parseIP_some (s : Bytes) (ip : List UInt8) (h : parseIP s = some ip) :
    (∀ c ∈ s, ipByte c = true) ∧ ip.length = 16 := by
  unfold parseIP at h
  by_cases h37 : hasByte s 37 = true
  · simp [h37] at h
  · simp only [h37, Bool.false_eq_true, ↓reduceIte] at h
    cases hf : s.find? (fun c => c == 46 || c == 58) with
    | none => simp [hf] at h
    | some c =>
      simp only [hf] at h
      by_cases hc : (c == 46) = true
      · simp only [hc, if_true] at h
        cases hp : parseIPv4 s with
        | none => simp [hp] at h
        | some v4 =>
          simp only [hp, Option.map_some, Option.some.injEq] at h
          refine ⟨ipv4Go_alphabet s _ _ _ _ _ _ hp, ?_⟩
          rw [← h]; simp [v4in6Prefix, parseIPv4_length s v4 hp]
      · simp only [hc, Bool.false_eq_true, ↓reduceIte] at h
        exact parseIPv6_some s ip h

set_option maxRecDepth 100000 in
theorem bracket_lower (c : UInt8) : (b!"[]").contains (lowerByte c) = (b!"[]").contains c := by
  have := forall_uint8 (fun c => (b!"[]").contains (lowerByte c) == (b!"[]").contains c) (by decide) c
  simpa using this

theorem dropWhile_bracket_lower (s : Bytes) :
    (toLower s).dropWhile (b!"[]").contains = toLower (s.dropWhile (b!"[]").contains) := by
  induction s with
  | nil => rfl
  | cons a t ih =>
    simp only [toLower, List.map_cons, List.dropWhile_cons, bracket_lower]
    by_cases h : (b!"[]").contains a = true
    · simp only [h, if_true]; exact ih
    · simp only [h, Bool.false_eq_true, if_false, List.map_cons]

theorem toLower_reverse (s : Bytes) : toLower s.reverse = (toLower s).reverse := by
  simp [toLower]

theorem toLower_trim (s : Bytes) : toLower (trimCutset s b!"[]") = trimCutset (toLower s) b!"[]" := by
  unfold trimCutset
  rw [dropWhile_bracket_lower, ← toLower_reverse, dropWhile_bracket_lower, ← toLower_reverse]

theorem no_suffix_of_ip (y t : Bytes) (ip : List UInt8) (h : parseIP y = some ip) (ht : t.any (fun c => !ipByte c) = true) :
    hasSuffix y t = false := by
  cases hs : hasSuffix y t with
  | false => rfl
  | true =>
    exfalso
    unfold hasSuffix at hs
    rw [List.isSuffixOf_iff_suffix] at hs
    obtain ⟨pre, rfl⟩ := hs
    rw [List.any_eq_true] at ht
    obtain ⟨c, hc, hnot⟩ := ht
    have := (parseIP_some _ _ h).1 c (by simp [hc])
    simp [this] at hnot

theorem local_iff (l : Bytes) (h1 : splitHostPort l = none) (h2 : splitHostPort (toLower l) = none) :
    (isLoopback l || isInternal l) = localHost l := by
  unfold isLoopback isInternal localHost
  simp only [h1, h2]
  rw [tables_names.2.2.1, tables_names.2.2.2.1, toLower_trim, tables_names.1, tables_names.2.1, tables_tlds.1]
  generalize trimCutset (toLower l) b!"[]" = y
  cases hip : parseIP y with
  | none =>
    simp only [List.any_cons, List.any_nil, Bool.or_false]
    generalize (y == b!"localhost") = a
    generalize hasSuffix y b!".localhost" = b
    generalize hasSuffix y b!".local" = c
    generalize hasSuffix y b!".test" = d
    generalize hasSuffix y b!".example" = e
    generalize hasSuffix y b!".invalid" = f
    revert a b c d e f
    decide
  | some ip =>
    have hlen := (parseIP_some y ip hip).2
    simp only [List.any_cons, List.any_nil, Bool.or_false]
    rw [no_suffix_of_ip y _ ip hip (by decide), no_suffix_of_ip y _ ip hip (by decide),
      no_suffix_of_ip y _ ip hip (by decide), no_suffix_of_ip y _ ip hip (by decide)]
    simp only [Bool.false_or]
    rw [netContains_private ip hlen]
    rfl

/-! ## the qualification decision -/

theorem qualifies_eq_spec (P : Ports) (c : Site) (hh : hostInScope c.host = true) (hb : bindInScope c.listen = true) :
    qualifiesP P c = AutoHTTPSSpec.qualifies P c := by
  unfold hostInScope at hh
  unfold bindInScope at hb
  simp only [Bool.and_eq_true, beq_iff_eq, Option.isNone_iff_eq_none] at hh hb
  obtain ⟨hl, hs⟩ := hh
  obtain ⟨hb1, hb2⟩ := hb
  have hl' : toLower c.host = c.host := hl.symm
  have e1 := host_public_iff c.host hl' hs
  have e2 := local_iff c.host hs (by rw [hl']; exact hs)
  have e3 := local_iff c.listen hb1 hb2
  unfold qualifiesP AutoHTTPSSpec.qualifies qualifiesForManagedTLSP tlsAllowsManaged declaredHTTP
  rw [← e1, ← e2, ← e3, tables_names.2.2.2.2.1]
  cases c.onDemand <;>
  · simp only [Bool.false_eq_true, ↓reduceIte, bne]
    generalize isLoopback c.host = a1
    generalize isLoopback c.listen = a2
    generalize isInternal c.host = a3
    generalize isInternal c.listen = a4
    generalize c.hasManager = a5
    generalize c.manual = a6
    generalize c.selfSigned = a7
    generalize (c.port == P.http) = a8
    generalize (c.email == b!"off") = a9
    generalize subjectQualifiesForPublicCert c.host = a10
    generalize (c.scheme == b!"http") = a11
    revert a1 a2 a3 a4 a5 a6 a7 a8 a9 a10 a11
    decide
end Casket.AutoHTTPS
