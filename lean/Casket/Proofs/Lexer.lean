import Casket.Spec.Lexer
/-
The lexer gives back exactly the tokens that were written, for every layout (C10, lexer half).
-/
namespace Casket.LexerSpec
open Casket.Lexer

/-! ### single steps of `next` -/

/-- white space with nothing collected: skipped (counting the line break) -/
theorem lex_ws (c : Chr) (rest : List Chr) (line tl : Nat) (hs : isSpace c.cp = true) :
    lexRunes (c :: rest) line tl [] false false false =
      lexRunes rest (line + (if c.cp == cpNL then 1 else 0)) tl [] false false false := by
  conv => lhs; unfold lexRunes
  simp only [Bool.false_eq_true, if_false, hs, if_true, List.isEmpty_nil, Bool.not_true]
  by_cases hcr : (c.cp == 0x0D) = true
  · have : (c.cp == cpNL) = false := by
      have : c.cp = 0x0D := by simpa using hcr
      simp [this, cpNL]
    simp only [hcr, if_true, this, Bool.false_eq_true, if_false, Nat.add_zero]
  · simp only [hcr, Bool.false_eq_true, if_false]
    by_cases hnl : (c.cp == 0x0A) = true
    · have : (c.cp == cpNL) = true := hnl
      simp only [hnl, if_true, this]
    · have : (c.cp == cpNL) = false := by simpa [cpNL] using hnl
      simp only [hnl, Bool.false_eq_true, if_false, this, Nat.add_zero]

/-- inside a comment everything up to the line break is skipped -/
theorem lex_comment_body (body rest : List Chr) (line tl : Nat) (hb : ∀ c ∈ body, c.cp ≠ cpNL) :
    lexRunes (body ++ nlChr :: rest) line tl [] true false false = lexRunes rest (line + 1) tl [] false false false := by
  induction body with
  | nil =>
    simp only [List.nil_append]
    conv => lhs; unfold lexRunes
    have h1 : isSpace nlChr.cp = true := by decide
    have h2 : (nlChr.cp == 0x0D) = false := by decide
    have h3 : (nlChr.cp == 0x0A) = true := by decide
    simp only [Bool.false_eq_true, if_false, h1, if_true, h2, h3, List.isEmpty_nil, Bool.not_true]
  | cons c cs ih =>
    have hc : c.cp ≠ cpNL := hb c (List.mem_cons_self)
    have hc' : (c.cp == 0x0A) = false := by simpa [cpNL] using hc
    have ih' := ih (fun x hx => hb x (List.mem_cons_of_mem _ hx))
    simp only [List.cons_append]
    conv => lhs; unfold lexRunes
    simp only [Bool.false_eq_true, if_false]
    by_cases hs : isSpace c.cp = true
    · simp only [hs, if_true, hc', Bool.false_eq_true, if_false, List.isEmpty_nil, Bool.not_true]
      by_cases hcr : (c.cp == 0x0D) = true
      · simp only [hcr, if_true]; exact ih'
      · simp only [hcr, Bool.false_eq_true, if_false]; exact ih'
    · simp only [hs, Bool.false_eq_true, if_false, Bool.true_or, if_true]; exact ih'

theorem lex_comment (body rest : List Chr) (line tl : Nat) (hb : ∀ c ∈ body, c.cp ≠ cpNL) :
    lexRunes (hashChr :: body ++ nlChr :: rest) line tl [] false false false =
      lexRunes rest (line + 1) tl [] false false false := by
  rw [← lex_comment_body body rest line tl hb]
  simp only [List.cons_append]
  conv => lhs; unfold lexRunes
  have h1 : isSpace hashChr.cp = false := by decide
  have h2 : (hashChr.cp == 0x23) = true := by decide
  simp only [Bool.false_eq_true, if_false, h1, h2, Bool.or_true, if_true]

theorem lex_gap_piece (g : Gap) (hg : g.WF) (rest : List Chr) (line tl : Nat) :
    lexRunes (g.runes ++ rest) line tl [] false false false =
      lexRunes rest (line + g.newlines) tl [] false false false := by
  cases g with
  | ws c => exact lex_ws c rest line tl hg
  | comment body =>
    simp only [Gap.runes, Gap.newlines, List.cons_append, List.append_assoc, List.singleton_append]
    exact lex_comment body rest line tl hg

theorem lex_gap (g : List Gap) (hg : ∀ x ∈ g, x.WF) (rest : List Chr) (line tl : Nat) :
    lexRunes (gapRunes g ++ rest) line tl [] false false false =
      lexRunes rest (line + gapNewlines g) tl [] false false false := by
  induction g generalizing line with
  | nil => simp [gapRunes, gapNewlines]
  | cons x xs ih =>
    simp only [gapRunes, gapNewlines, List.flatMap_cons, List.map_cons, List.sum_cons, List.append_assoc] at *
    rw [lex_gap_piece x (hg x List.mem_cons_self)]
    rw [ih (fun y hy => hg y (List.mem_cons_of_mem _ hy))]
    congr 1
    omega

/-! ### unquoted words -/

/-- collecting an unquoted word -/
theorem lex_word_more (w rest v : List Chr) (line tl : Nat) (hv : v ≠ [])
    (hw : ∀ c ∈ w, isSpace c.cp = false ∧ c.cp ≠ cpHash) :
    lexRunes (w ++ rest) line tl v false false false = lexRunes rest line tl (v ++ w) false false false := by
  induction w generalizing v with
  | nil => simp
  | cons c cs ih =>
    obtain ⟨h1, h2⟩ := hw c List.mem_cons_self
    have h2' : (c.cp == 0x23) = false := by simpa [cpHash] using h2
    have hve : v.isEmpty = false := by cases v with | nil => exact absurd rfl hv | cons _ _ => rfl
    simp only [List.cons_append]
    conv => lhs; unfold lexRunes
    simp only [Bool.false_eq_true, if_false, h1, h2', Bool.or_self, hve]
    rw [ih (v ++ [c]) (by simp) (fun x hx => hw x (List.mem_cons_of_mem _ hx))]
    simp

theorem lex_word_start (c : Chr) (rest : List Chr) (line tl : Nat)
    (h1 : isSpace c.cp = false) (h2 : c.cp ≠ cpHash) (h3 : c.cp ≠ cpQuote) :
    lexRunes (c :: rest) line tl [] false false false = lexRunes rest line line [c] false false false := by
  have h2' : (c.cp == 0x23) = false := by simpa [cpHash] using h2
  have h3' : (c.cp == 0x22) = false := by simpa [cpQuote] using h3
  conv => lhs; unfold lexRunes
  simp only [Bool.false_eq_true, if_false, h1, h2', Bool.or_self, List.isEmpty_nil, if_true, h3']

/-- white space other than `\r` ends the word -/
theorem lex_word_end (t : Chr) (rest v : List Chr) (line tl : Nat) (hv : v ≠ [])
    (hs : isSpace t.cp = true) (hcr : t.cp ≠ cpCR) :
    lexRunes (t :: rest) line tl v false false false =
      mkTok tl v :: lexRunes rest (line + (if t.cp == cpNL then 1 else 0)) tl [] false false false := by
  have hcr' : (t.cp == 0x0D) = false := by simpa [cpCR] using hcr
  have hve : v.isEmpty = false := by cases v with | nil => exact absurd rfl hv | cons _ _ => rfl
  conv => lhs; unfold lexRunes
  simp only [Bool.false_eq_true, if_false, hs, if_true, hcr', hve, Bool.not_false]
  by_cases hnl : (t.cp == 0x0A) = true
  · have : (t.cp == cpNL) = true := hnl
    simp only [hnl, if_true, this]
  · have : (t.cp == cpNL) = false := by simpa [cpNL] using hnl
    simp only [hnl, Bool.false_eq_true, if_false, this, Nat.add_zero]

theorem lex_word_eof (v : List Chr) (line tl : Nat) (hv : v ≠ []) :
    lexRunes [] line tl v false false false = [mkTok tl v] := by
  have hve : v.isEmpty = false := by cases v with | nil => exact absurd rfl hv | cons _ _ => rfl
  conv => lhs; unfold lexRunes
  simp [hve]

/-! ### quoted tokens -/

theorem lex_quoted_units (us : List QUnit) (hu : ∀ u ∈ us, u.WF) (rest v : List Chr) (line tl : Nat) (cm : Bool) :
    lexRunes (us.flatMap QUnit.written ++ quoteChr :: rest) line tl v cm true false =
      mkTok tl (v ++ us.flatMap QUnit.value) ::
        lexRunes rest (line + (us.map QUnit.newlines).sum) tl [] false false false := by
  induction us generalizing v line with
  | nil =>
    simp only [List.flatMap_nil, List.nil_append, List.append_nil, List.map_nil, List.sum_nil, Nat.add_zero]
    conv => lhs; unfold lexRunes
    have h1 : (quoteChr.cp == 0x5C) = false := by decide
    have h2 : (quoteChr.cp == 0x22) = true := by decide
    simp only [if_true, Bool.not_false, Bool.true_and, h1, Bool.false_eq_true, if_false, h2]
  | cons u rest' ih =>
    have hwf := hu u List.mem_cons_self
    have ih' := fun v line => ih (fun x hx => hu x (List.mem_cons_of_mem _ hx)) v line
    simp only [List.flatMap_cons, List.map_cons, List.sum_cons, List.append_assoc]
    cases u with
    | plain c =>
      obtain ⟨hb, hq⟩ := hwf
      have hb' : (c.cp == 0x5C) = false := by simpa [cpBslash] using hb
      have hq' : (c.cp == 0x22) = false := by simpa [cpQuote] using hq
      simp only [QUnit.written, QUnit.value, QUnit.newlines, List.singleton_append]
      conv => lhs; unfold lexRunes
      simp only [if_true, Bool.not_false, Bool.true_and, hb', hq', Bool.false_eq_true, if_false, Bool.false_and]
      rw [ih']
      simp only [List.append_assoc, List.singleton_append]
      congr 2
      by_cases hnl : (c.cp == 0x0A) = true
      · have : (c.cp == cpNL) = true := hnl
        simp only [hnl, this, if_true]; omega
      · have : (c.cp == cpNL) = false := by simpa [cpNL] using hnl
        simp only [hnl, this, Bool.false_eq_true, if_false]; omega
    | escQuote =>
      simp only [QUnit.written, QUnit.value, QUnit.newlines, List.cons_append, List.nil_append]
      conv => lhs; unfold lexRunes
      have h1 : (bslash.cp == 0x5C) = true := by decide
      simp only [if_true, Bool.not_false, Bool.true_and, h1]
      conv => lhs; unfold lexRunes
      have h2 : (quoteChr.cp == 0x0A) = false := by decide
      have h3 : (quoteChr.cp != 0x22) = false := by decide
      simp only [if_true, Bool.not_true, Bool.false_and, Bool.false_eq_true, if_false, h2, h3, Bool.and_false]
      rw [ih']
      simp only [List.append_assoc, List.singleton_append, Nat.zero_add]
    | escOther c =>
      have hq : c.cp ≠ cpQuote := hwf
      have hq' : (c.cp != 0x22) = true := by simpa [cpQuote] using hq
      simp only [QUnit.written, QUnit.value, QUnit.newlines, List.cons_append, List.nil_append]
      conv => lhs; unfold lexRunes
      have h1 : (bslash.cp == 0x5C) = true := by decide
      simp only [if_true, Bool.not_false, Bool.true_and, h1]
      conv => lhs; unfold lexRunes
      simp only [if_true, Bool.not_true, Bool.false_and, Bool.false_eq_true, if_false, hq', Bool.and_self]
      rw [ih']
      simp only [List.append_assoc, List.cons_append, List.nil_append]
      congr 2
      by_cases hnl : (c.cp == 0x0A) = true
      · have : (c.cp == cpNL) = true := hnl
        simp only [hnl, this, if_true]; omega
      · have : (c.cp == cpNL) = false := by simpa [cpNL] using hnl
        simp only [hnl, this, Bool.false_eq_true, if_false]; omega

theorem lex_quoted (us : List QUnit) (hu : ∀ u ∈ us, u.WF) (rest : List Chr) (line tl : Nat) :
    lexRunes ((Written.quoted us).runes ++ rest) line tl [] false false false =
      mkTok line ((Written.quoted us).value) ::
        lexRunes rest (line + (Written.quoted us).newlines) line [] false false false := by
  simp only [Written.runes, Written.value, Written.newlines, List.cons_append, List.append_assoc, List.singleton_append]
  conv => lhs; unfold lexRunes
  have h1 : isSpace quoteChr.cp = false := by decide
  have h2 : (quoteChr.cp == 0x23) = false := by decide
  have h3 : (quoteChr.cp == 0x22) = true := by decide
  simp only [Bool.false_eq_true, if_false, h1, h2, Bool.or_self, List.isEmpty_nil, if_true, h3]
  rw [lex_quoted_units us hu]
  simp


/-! ### whole texts -/

theorem lex_render_aux (items : List Item) (final : List Gap) (hwf : WF items final) (line tl : Nat) :
    lexRunes (render items final) line tl [] false false false = expected items line := by
  induction items generalizing line tl with
  | nil =>
    have := lex_gap final hwf [] line tl
    simp only [List.append_nil] at this
    simp only [render, expected, this]
    unfold lexRunes
    simp
  | cons it rest ih =>
    obtain ⟨hg, ht, hplain, hrest⟩ := hwf
    simp only [render, expected, List.append_assoc]
    rw [lex_gap it.gap hg]
    cases htok : it.tok with
    | quoted us =>
      rw [htok] at ht
      rw [lex_quoted us ht]
      rw [ih hrest]
      rfl
    | plain w =>
      rw [htok] at ht hplain
      obtain ⟨hne, hall, hhead⟩ := ht
      simp only [Written.runes, Written.value, Written.newlines, Nat.add_zero]
      cases w with
      | nil => exact absurd rfl hne
      | cons c cs =>
        obtain ⟨hc1, hc2⟩ := hall c List.mem_cons_self
        have hc3 : c.cp ≠ cpQuote := fun h => hhead (by simp [h])
        simp only [List.cons_append]
        rw [lex_word_start c _ _ _ hc1 hc2 hc3]
        rw [lex_word_more cs _ [c] _ _ (by simp) (fun x hx => hall x (List.mem_cons_of_mem _ hx))]
        simp only [List.singleton_append]
        have hp := hplain rfl
        -- what follows the word
        have key : ∀ (t : Chr) (tail : List Chr), render rest final = t :: tail → isSpace t.cp = true → t.cp ≠ cpCR →
            lexRunes (render rest final) (line + gapNewlines it.gap) (line + gapNewlines it.gap) (c :: cs) false false false =
              mkTok (line + gapNewlines it.gap) (c :: cs) :: expected rest (line + gapNewlines it.gap) := by
          intro t tail hr hs hcr
          rw [← ih hrest (line + gapNewlines it.gap) (line + gapNewlines it.gap)]
          rw [hr, lex_word_end t tail (c :: cs) _ _ (by simp) hs hcr, lex_ws t tail _ _ hs]
        cases rest with
        | nil =>
          simp only [render] at *
          cases hp with
          | inl hnil =>
            subst hnil
            simp only [gapRunes, List.flatMap_nil, expected]
            rw [lex_word_eof _ _ _ (by simp)]
            rfl
          | inr hends =>
            cases final with
            | nil => exact hends.elim
            | cons g gs =>
              cases g with
              | comment b => exact hends.elim
              | ws t =>
                have hs : isSpace t.cp = true := hrest (Gap.ws t) List.mem_cons_self
                exact key t (gapRunes gs) (by simp [gapRunes, Gap.runes]) hs hends
        | cons nxt more =>
          obtain ⟨hg2, _, _, _⟩ := hrest
          have hp : endsWord nxt.gap := hp
          cases hgap : nxt.gap with
          | nil => rw [hgap] at hp; exact hp.elim
          | cons g gs =>
            rw [hgap] at hp hg2
            cases g with
            | comment b => exact hp.elim
            | ws t =>
              have hs : isSpace t.cp = true := hg2 (Gap.ws t) List.mem_cons_self
              exact key t (gapRunes gs ++ nxt.tok.runes ++ render more final)
                (by simp [render, hgap, gapRunes, Gap.runes]) hs hp


/-! ### bytes -/

/-- the rune a single byte below 0x80 decodes to -/
def asciiChr (b : UInt8) : Chr := ⟨b.toNat, [b]⟩

theorem decode_ascii (bs : List UInt8) (h : ∀ b ∈ bs, b < 0x80) : decode bs = bs.map asciiChr := by
  induction bs with
  | nil => rfl
  | cons b rest ih =>
    have hb := h b List.mem_cons_self
    rw [decode.eq_def]
    simp only [hb, if_true, List.map_cons, asciiChr]
    rw [ih (fun x hx => h x (List.mem_cons_of_mem _ hx))]

theorem flatMap_bytes_ascii (bs : List UInt8) : (bs.map asciiChr).flatMap Chr.bytes = bs := by
  induction bs with
  | nil => rfl
  | cons b rest ih => simp only [List.map_cons, List.flatMap_cons, asciiChr, List.singleton_append, ih]

/-- the lexer on a byte string whose runes are `render items final` -/
theorem lex_render_bytes (items : List Item) (final : List Gap) (hwf : WF items final) (input : Bytes)
    (hdec : decode input = render items final)
    (hbom : ∀ c, (render items final).head? = some c → c.cp ≠ 0xFEFF) :
    lex input = expected items 1 := by
  unfold lex
  rw [hdec]
  have : skipBOM (render items final) = render items final := by
    cases hr : render items final with
    | nil => rfl
    | cons c cs =>
      have := hbom c (by rw [hr]; rfl)
      simp only [skipBOM]
      rw [if_neg]
      simpa using this
  rw [this]
  exact lex_render_aux items final hwf 1 0

/-- … and with a byte order mark in front -/
theorem lex_render_bytes_bom (items : List Item) (final : List Gap) (hwf : WF items final) (input : Bytes)
    (hdec : decode input = ⟨0xFEFF, [0xEF, 0xBB, 0xBF]⟩ :: render items final) :
    lex input = expected items 1 := by
  unfold lex
  rw [hdec]
  simp only [skipBOM]
  exact lex_render_aux items final hwf 1 0

end Casket.LexerSpec
