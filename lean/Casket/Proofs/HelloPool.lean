import Casket.Proofs.HelloSpec
/-
Several connections through one `tlsHelloListener` and one `bufpool` (Model/Hello.lean:
`Listener.run`): what is recorded for a connection is the reference reading of the bytes THAT
connection delivered, whatever the pool held, whichever buffer the pool hands out, and whatever
other connections did before or in between.
-/
namespace Casket.Hello
open Casket.Fault Casket.HelloSpec

/-! ### the proof-side `helloOf` is the spec-side `recordHello` -/

theorem lenOf_cons (a b c d e : UInt8) (rest : Bytes) :
    lenOf (a :: b :: c :: d :: e :: rest) = d.toNat * 256 + e.toNat := by
  have h := recordLen_ok (p := a :: b :: c :: d :: e :: rest) (by simp)
  have h2 : recordLen (a :: b :: c :: d :: e :: rest) = .ok (d.toNat * 256 + e.toNat) := by
    simp [recordLen, slice, be16, idx]
  rw [h] at h2
  exact Except.ok.inj h2

theorem helloOf_eq_recordHello (p : Bytes) : helloOf p = recordHello p := by
  match p with
  | [] => rfl
  | [_] => rfl
  | [_, _] => rfl
  | [_, _, _] => rfl
  | [_, _, _, _] => rfl
  | a :: b :: c :: d :: e :: rest =>
    unfold helloOf recordHello
    rw [lenOf_cons]
    have h5 : ¬ ((a :: b :: c :: d :: e :: rest).length < 5) := by simp
    simp only [h5, if_false]
    by_cases hl : rest.length < d.toNat * 256 + e.toNat
    · have : (a :: b :: c :: d :: e :: rest).length < 5 + (d.toNat * 256 + e.toNat) := by
        simp; omega
      rw [if_pos this, if_pos hl]
    · have : ¬ ((a :: b :: c :: d :: e :: rest).length < 5 + (d.toNat * 256 + e.toNat)) := by
        simp; omega
      simp only [this, hl, if_false]
      have e5 : 5 + (d.toNat * 256 + e.toNat) = (d.toNat * 256 + e.toNat) + 5 := by omega
      rw [e5]
      simp [List.take_succ_cons]

/-! ### one connection: the state follows the bytes delivered so far -/

/-- connection state `c` after the bytes `b` arrived (in whatever pieces) -/
def Tracks (c : Conn) (b : Bytes) : Prop :=
  match helloOf b with
  | none => c = { buf := b, readHello := false, recorded := none }
  | some h => c.readHello = true ∧ c.recorded = some (specRead h)

theorem tracks_init : Tracks {} [] := by
  simp [Tracks, helloOf]

theorem tracks_recorded {c : Conn} {b : Bytes} (h : Tracks c b) :
    c.recorded = (recordHello b).map specRead := by
  rw [← helloOf_eq_recordHello]
  unfold Tracks at h
  cases hq : helloOf b with
  | none => rw [hq] at h; rw [h]; rfl
  | some m => rw [hq] at h; simp [h.2]

theorem tracks_read {c : Conn} {b : Bytes} (seg : Bytes) (h : Tracks c b) :
    ∃ c', c.read seg = .ok c' ∧ Tracks c' (b ++ seg) := by
  unfold Tracks at h
  cases hq : helloOf b with
  | none =>
    rw [hq] at h
    subst h
    rw [read_unread]
    cases hq' : helloOf (b ++ seg) with
    | none => exact ⟨_, rfl, by simp [Tracks, hq']⟩
    | some m =>
      simp only [parse_eq_spec]
      exact ⟨_, rfl, by simp [Tracks, hq']⟩
  | some m =>
    rw [hq] at h
    refine ⟨c, by unfold Conn.read; simp [h.1], ?_⟩
    simp [Tracks, helloOf_append seg hq, h.1, h.2]

/-- `readP` is `read` plus bookkeeping of the pool: the pool has no influence on the connection -/
theorem readP_of_read {c c' : Conn} (p : Pool) {seg : Bytes} (h : c.read seg = .ok c') :
    ∃ p', c.readP p seg = .ok (c', p') := by
  unfold Conn.read at h
  unfold Conn.readP
  by_cases hr : c.readHello = true
  · simp only [hr, if_true] at h ⊢
    cases h; exact ⟨_, rfl⟩
  · simp only [hr] at h ⊢
    by_cases h5 : (c.buf ++ seg).length < 5
    · simp only [h5, if_true] at h ⊢
      cases h; exact ⟨_, rfl⟩
    · simp only [h5, if_false] at h ⊢
      cases hl : recordLen (c.buf ++ seg) with
      | error e => rw [hl] at h; cases h
      | ok length =>
        rw [hl] at h
        simp only at h ⊢
        by_cases hlen : (c.buf ++ seg).length < 5 + length
        · simp only [hlen, if_true] at h ⊢
          cases h; exact ⟨_, rfl⟩
        · simp only [hlen, if_false] at h ⊢
          cases hs : slice (c.buf ++ seg) 5 (5 + length) with
          | error e => rw [hs] at h; cases h
          | ok hello =>
            rw [hs] at h
            simp only at h ⊢
            cases hp : parseRawClientHello hello with
            | error e => rw [hp] at h; cases h
            | ok info =>
              rw [hp] at h
              simp only at h ⊢
              cases h; exact ⟨_, rfl⟩

theorem acceptConn_fst (p : Pool) (k : Nat) : (acceptConn p k).1 = {} := by
  unfold acceptConn Pool.get
  cases p.free[k]? <;> rfl

/-! ### the listener -/

/-- every connection of the listener is in a state some byte string explains -/
def AllTrack (l : Listener) : Prop :=
  ∀ j s, l.conns j = some s → ∃ b, Tracks s.conn b

/-- connection `i`, in phase `ph`, has delivered `b` so far -/
def ConnInv (i : Nat) (l : Listener) : Phase → Bytes → Prop
  | .fresh, b => l.conns i = none ∧ b = []
  | .opened, b => ∃ c, l.conns i = some { conn := c, closed := false } ∧ Tracks c b
  | .closed, b => ∃ c, l.conns i = some { conn := c, closed := true } ∧ Tracks c b

theorem setConn_same (f : Nat → Option ConnSt) (i : Nat) (s : ConnSt) : setConn f i s i = some s := by
  simp [setConn]

theorem setConn_other (f : Nat → Option ConnSt) {i j : Nat} (s : ConnSt) (h : j ≠ i) :
    setConn f i s j = f j := by
  simp [setConn, h]

theorem allTrack_set {l : Listener} (h : AllTrack l) (i : Nat) (p : Pool) {c : Conn} {b : Bytes}
    (cl : Bool) (hc : Tracks c b) :
    AllTrack { pool := p, conns := setConn l.conns i { conn := c, closed := cl } } := by
  intro j s hs
  by_cases hj : j = i
  · subst hj
    rw [show ({ pool := p, conns := setConn l.conns j { conn := c, closed := cl } } : Listener).conns j
        = some { conn := c, closed := cl } from setConn_same _ _ _] at hs
    cases hs
    exact ⟨b, hc⟩
  · rw [show ({ pool := p, conns := setConn l.conns i { conn := c, closed := cl } } : Listener).conns j
        = l.conns j from setConn_other _ _ hj] at hs
    exact h j s hs

/-! #### what one step does -/

theorem step_accept_new {l : Listener} {i : Nat} (k : Nat) (h : l.conns i = none) :
    ∃ p, l.step (.accept i k) = .ok { pool := p, conns := setConn l.conns i { conn := {} } } := by
  refine ⟨(acceptConn l.pool k).2, ?_⟩
  have := acceptConn_fst l.pool k
  unfold Listener.step
  simp only [h]
  rw [← this]

theorem step_accept_old {l : Listener} {i : Nat} (k : Nat) {s : ConnSt} (h : l.conns i = some s) :
    l.step (.accept i k) = .ok l := by
  unfold Listener.step
  simp only [h]

theorem step_read_open {l : Listener} {i : Nat} {seg : Bytes} {c c' : Conn}
    (h : l.conns i = some { conn := c, closed := false }) (hr : c.read seg = .ok c') :
    ∃ p, l.step (.read i seg) = .ok { pool := p, conns := setConn l.conns i { conn := c' } } := by
  obtain ⟨p', hp⟩ := readP_of_read l.pool hr
  refine ⟨p', ?_⟩
  unfold Listener.step
  simp only [h, hp]

theorem step_read_none {l : Listener} {i : Nat} (seg : Bytes) (h : l.conns i = none) :
    l.step (.read i seg) = .ok l := by
  unfold Listener.step
  simp only [h]

theorem step_read_closed {l : Listener} {i : Nat} (seg : Bytes) {c : Conn}
    (h : l.conns i = some { conn := c, closed := true }) : l.step (.read i seg) = .ok l := by
  unfold Listener.step
  simp only [h]

theorem step_close_open {l : Listener} {i : Nat} {c : Conn}
    (h : l.conns i = some { conn := c, closed := false }) :
    l.step (.close i) = .ok { pool := l.pool, conns := setConn l.conns i { conn := c, closed := true } } := by
  unfold Listener.step
  simp only [h, Conn.closeP]

theorem step_close_none {l : Listener} {i : Nat} (h : l.conns i = none) :
    l.step (.close i) = .ok l := by
  unfold Listener.step
  simp only [h]

theorem step_close_closed {l : Listener} {i : Nat} {c : Conn}
    (h : l.conns i = some { conn := c, closed := true }) : l.step (.close i) = .ok l := by
  unfold Listener.step
  simp only [h]

/-! #### connection `i` while the steps go by -/

/-- what one step means for connection `i` in phase `ph`: its next phase and what it delivered -/
def adv (i : Nat) : Phase → Step → Phase × List Bytes
  | .fresh, .accept j _ => if j = i then (.opened, []) else (.fresh, [])
  | .opened, .read j seg => if j = i then (.opened, [seg]) else (.opened, [])
  | .opened, .close j => if j = i then (.closed, []) else (.opened, [])
  | ph, _ => (ph, [])

theorem deliveries_cons (i : Nat) (ph : Phase) (s : Step) (ss : List Step) :
    deliveries i ph (s :: ss) = (adv i ph s).2 ++ deliveries i (adv i ph s).1 ss := by
  cases ph <;> cases s <;> simp only [deliveries, adv] <;> first | (split <;> simp) | simp

theorem connInv_other {i : Nat} {l l1 : Listener} {ph : Phase} {b : Bytes}
    (h : l1.conns i = l.conns i) (hi : ConnInv i l ph b) : ConnInv i l1 ph b := by
  cases ph <;> simp only [ConnInv] at hi ⊢ <;> rw [h] <;> exact hi

/-- a step that does not address connection `i` leaves its phase alone -/
theorem adv_other {i j : Nat} (h : j ≠ i) (ph : Phase) :
    (∀ k, adv i ph (.accept j k) = (ph, [])) ∧ (∀ seg, adv i ph (.read j seg) = (ph, [])) ∧
    adv i ph (.close j) = (ph, []) := by
  cases ph <;> simp [adv, h]

theorem step_inv (i : Nat) {l : Listener} {ph : Phase} {b : Bytes} (s : Step)
    (hl : AllTrack l) (hi : ConnInv i l ph b) :
    ∃ l1, l.step s = .ok l1 ∧ AllTrack l1 ∧
      ConnInv i l1 (adv i ph s).1 (b ++ (adv i ph s).2.flatten) := by
  cases s with
  | accept j k =>
    cases hc : l.conns j with
    | some st =>
      refine ⟨l, step_accept_old k hc, hl, ?_⟩
      by_cases hj : j = i
      · subst hj
        cases ph with
        | fresh => simp only [ConnInv] at hi; rw [hi.1] at hc; cases hc
        | opened => simpa [adv] using hi
        | closed => simpa [adv] using hi
      · rw [(adv_other hj ph).1 k]; simpa using hi
    | none =>
      obtain ⟨p, hp⟩ := step_accept_new k hc
      refine ⟨_, hp, allTrack_set hl j p false tracks_init, ?_⟩
      by_cases hj : j = i
      · subst hj
        cases ph with
        | fresh =>
          simp only [ConnInv] at hi
          simp only [adv, if_true, ConnInv, hi.2]
          exact ⟨{}, setConn_same _ _ _, tracks_init⟩
        | opened => simp only [ConnInv] at hi; obtain ⟨c, h1, _⟩ := hi; rw [h1] at hc; cases hc
        | closed => simp only [ConnInv] at hi; obtain ⟨c, h1, _⟩ := hi; rw [h1] at hc; cases hc
      · rw [(adv_other hj ph).1 k]
        simp only [List.flatten_nil, List.append_nil]
        exact connInv_other (setConn_other _ _ (Ne.symm hj)) hi
  | read j seg =>
    cases hc : l.conns j with
    | none =>
      refine ⟨l, step_read_none seg hc, hl, ?_⟩
      by_cases hj : j = i
      · subst hj
        cases ph with
        | fresh => simpa [adv] using hi
        | opened => simp only [ConnInv] at hi; obtain ⟨c, h1, _⟩ := hi; rw [h1] at hc; cases hc
        | closed => simpa [adv] using hi
      · rw [(adv_other hj ph).2.1 seg]; simpa using hi
    | some st =>
      obtain ⟨c, cl⟩ := st
      cases cl with
      | true =>
        refine ⟨l, step_read_closed seg hc, hl, ?_⟩
        by_cases hj : j = i
        · subst hj
          cases ph with
          | fresh => simpa [adv] using hi
          | opened =>
            simp only [ConnInv] at hi; obtain ⟨c2, h1, _⟩ := hi; rw [h1] at hc; cases hc
          | closed => simpa [adv] using hi
        · rw [(adv_other hj ph).2.1 seg]; simpa using hi
      | false =>
        by_cases hj : j = i
        · subst hj
          cases ph with
          | fresh => simp only [ConnInv] at hi; rw [hi.1] at hc; cases hc
          | closed =>
            simp only [ConnInv] at hi; obtain ⟨c2, h1, _⟩ := hi; rw [h1] at hc; cases hc
          | opened =>
            simp only [ConnInv] at hi
            obtain ⟨c2, h1, ht⟩ := hi
            rw [h1] at hc
            cases hc
            obtain ⟨c', hr, ht'⟩ := tracks_read seg ht
            obtain ⟨p, hp⟩ := step_read_open h1 hr
            refine ⟨_, hp, allTrack_set hl j p false ht', ?_⟩
            simp only [adv, if_true, ConnInv, List.flatten_cons, List.flatten_nil, List.append_nil]
            exact ⟨c', setConn_same _ _ _, ht'⟩
        · obtain ⟨b0, ht0⟩ := hl j _ hc
          obtain ⟨c', hr, ht'⟩ := tracks_read seg ht0
          obtain ⟨p, hp⟩ := step_read_open hc hr
          refine ⟨_, hp, allTrack_set hl j p false ht', ?_⟩
          rw [(adv_other hj ph).2.1 seg]
          simp only [List.flatten_nil, List.append_nil]
          exact connInv_other (setConn_other _ _ (Ne.symm hj)) hi
  | close j =>
    cases hc : l.conns j with
    | none =>
      refine ⟨l, step_close_none hc, hl, ?_⟩
      by_cases hj : j = i
      · subst hj
        cases ph with
        | fresh => simpa [adv] using hi
        | opened => simp only [ConnInv] at hi; obtain ⟨c, h1, _⟩ := hi; rw [h1] at hc; cases hc
        | closed => simpa [adv] using hi
      · rw [(adv_other hj ph).2.2]; simpa using hi
    | some st =>
      obtain ⟨c, cl⟩ := st
      cases cl with
      | true =>
        refine ⟨l, step_close_closed hc, hl, ?_⟩
        by_cases hj : j = i
        · subst hj
          cases ph with
          | fresh => simpa [adv] using hi
          | opened =>
            simp only [ConnInv] at hi; obtain ⟨c2, h1, _⟩ := hi; rw [h1] at hc; cases hc
          | closed => simpa [adv] using hi
        · rw [(adv_other hj ph).2.2]; simpa using hi
      | false =>
        obtain ⟨b0, ht0⟩ := hl j _ hc
        refine ⟨_, step_close_open hc, allTrack_set hl j l.pool true ht0, ?_⟩
        by_cases hj : j = i
        · subst hj
          cases ph with
          | fresh => simp only [ConnInv] at hi; rw [hi.1] at hc; cases hc
          | closed =>
            simp only [ConnInv] at hi; obtain ⟨c2, h1, _⟩ := hi; rw [h1] at hc; cases hc
          | opened =>
            simp only [ConnInv] at hi
            obtain ⟨c2, h1, ht⟩ := hi
            rw [h1] at hc
            cases hc
            simp only [adv, if_true, ConnInv, List.flatten_nil, List.append_nil]
            exact ⟨_, setConn_same _ _ _, ht⟩
        · rw [(adv_other hj ph).2.2]
          simp only [List.flatten_nil, List.append_nil]
          exact connInv_other (setConn_other _ _ (Ne.symm hj)) hi

/-- the phase of connection `i` after the steps -/
def phaseAfter (i : Nat) : Phase → List Step → Phase
  | ph, [] => ph
  | ph, s :: ss => phaseAfter i (adv i ph s).1 ss

theorem run_inv (i : Nat) : ∀ (steps : List Step) (l : Listener) (ph : Phase) (b : Bytes),
    AllTrack l → ConnInv i l ph b →
    ∃ l', l.run steps = .ok l' ∧
      ConnInv i l' (phaseAfter i ph steps) (b ++ (deliveries i ph steps).flatten) := by
  intro steps
  induction steps with
  | nil =>
    intro l ph b _ hi
    exact ⟨l, rfl, by simpa [phaseAfter, deliveries] using hi⟩
  | cons s ss ih =>
    intro l ph b hl hi
    obtain ⟨l1, h1, hl1, hi1⟩ := step_inv i s hl hi
    obtain ⟨l', h2, hi2⟩ := ih l1 _ _ hl1 hi1
    refine ⟨l', ?_, ?_⟩
    · unfold Listener.run
      rw [h1]
      exact h2
    · rw [deliveries_cons]
      simpa [phaseAfter, List.append_assoc] using hi2

theorem adv_not_fresh (i : Nat) {ph : Phase} (s : Step) (h : ph ≠ .fresh) : (adv i ph s).1 ≠ .fresh := by
  cases ph <;> cases s <;> simp only [adv] <;> first | exact absurd rfl h | (split <;> simp) | simp

theorem phaseAfter_not_fresh (i : Nat) : ∀ (steps : List Step) {ph : Phase}, ph ≠ .fresh →
    phaseAfter i ph steps ≠ .fresh := by
  intro steps
  induction steps with
  | nil => intro ph h; exact h
  | cons s ss ih => intro ph h; exact ih (adv_not_fresh i s h)

theorem phaseAfter_fresh (i : Nat) : ∀ (steps : List Step),
    (phaseAfter i .fresh steps = .fresh ↔ accepted i steps = false) := by
  intro steps
  induction steps with
  | nil => simp [phaseAfter, accepted]
  | cons s ss ih =>
    cases s with
    | accept j k =>
      by_cases hj : j = i
      · subst hj
        have : phaseAfter j .fresh (Step.accept j k :: ss) ≠ .fresh := by
          simp only [phaseAfter, adv, if_true]
          exact phaseAfter_not_fresh j ss (by simp)
        simp [this, accepted]
      · have e : phaseAfter i .fresh (Step.accept j k :: ss) = phaseAfter i .fresh ss := by
          simp [phaseAfter, adv, hj]
        rw [e, ih]
        simp [accepted, hj]
    | read j seg =>
      have e : phaseAfter i .fresh (Step.read j seg :: ss) = phaseAfter i .fresh ss := by
        simp [phaseAfter, adv]
      rw [e, ih]
      simp [accepted]
    | close j =>
      have e : phaseAfter i .fresh (Step.close j :: ss) = phaseAfter i .fresh ss := by
        simp [phaseAfter, adv]
      rw [e, ih]
      simp [accepted]

/-- THE statement: for every pool content, every choice of pooled buffers and every interleaving of
accepts, reads and closes, the steps never fault and the entry recorded for connection `i` is the
reference reading of the bytes connection `i` itself delivered (`HelloSpec.connReading`). -/
theorem run_recorded (p : Pool) (steps : List Step) :
    ∃ l, Listener.run { pool := p } steps = .ok l ∧ ∀ i, l.recordedOf i = connReading i steps := by
  have hall : AllTrack { pool := p } := by
    intro j s hs
    cases hs
  have h0 : ∀ i, ConnInv i ({ pool := p } : Listener) .fresh [] := fun i => ⟨rfl, rfl⟩
  obtain ⟨l, hrun, _⟩ := run_inv 0 steps _ _ _ hall (h0 0)
  refine ⟨l, hrun, ?_⟩
  intro i
  obtain ⟨l2, hrun2, hi⟩ := run_inv i steps _ _ _ hall (h0 i)
  rw [hrun] at hrun2
  cases hrun2
  simp only [List.nil_append] at hi
  unfold connReading Listener.recordedOf
  cases hph : phaseAfter i .fresh steps with
  | fresh =>
    rw [hph] at hi
    simp only [ConnInv] at hi
    rw [(phaseAfter_fresh i steps).1 hph, hi.1]
    simp
  | opened =>
    rw [hph] at hi
    simp only [ConnInv] at hi
    obtain ⟨c, hc, ht⟩ := hi
    have ha : accepted i steps = true := by
      cases h : accepted i steps with
      | true => rfl
      | false => rw [(phaseAfter_fresh i steps).2 h] at hph; cases hph
    rw [hc, ha]
    simpa using tracks_recorded ht
  | closed =>
    rw [hph] at hi
    simp only [ConnInv] at hi
    obtain ⟨c, hc, ht⟩ := hi
    have ha : accepted i steps = true := by
      cases h : accepted i steps with
      | true => rfl
      | false => rw [(phaseAfter_fresh i steps).2 h] at hph; cases hph
    rw [hc, ha]
    simpa using tracks_recorded ht

/-! ### the judges accept the model -/

theorem connsVerdictFrom_ok (steps : List Step) : ∀ (n i : Nat),
    connsVerdictFrom steps i ((List.range' i n).map fun j => connReading j steps) = "ok" := by
  intro n
  induction n with
  | zero => intro i; rfl
  | succ n ih =>
    intro i
    simp only [List.range'_succ, List.map_cons, connsVerdictFrom, if_true]
    exact ih (i + 1)

/-- one connection: the entry of the model is what `recordedVerdict` demands -/
theorem recorded_reading (segs : List Bytes) :
    recorded segs = .ok ((recordHello segs.flatten).map specRead) := by
  rw [recorded_eq_spec]
  unfold recordedSpec
  rw [helloOf_eq_recordHello]
  cases recordHello segs.flatten with
  | none => rfl
  | some h => simp [parse_eq_spec]

theorem recordedVerdict_reading (bs : Bytes) :
    recordedVerdict bs ((recordHello bs).map specRead) = "ok" := by
  unfold recordedVerdict
  cases recordHello bs with
  | none => simp
  | some h => simp [skewVerdict]

end Casket.Hello
