import Casket.Model.Middleware
import Casket.Spec.Middleware
/-
Helper lemmas for C12: what the counting writer sees is invariant under the wrappers'
bookkeeping (WriteHeader once, gzip marking), and an invariant of behaviours that holds after
the `errors` stage is preserved by header, gzip and log and finished by Server.ServeHTTP.
-/
set_option linter.unusedSimpArgs false
set_option linter.unusedVariables false

namespace Casket.Mw
open Casket.MwSpec

/-! ### the counting writer -/

theorem runGo_append (r : Resp) (a b : List WOp) : runGo r (a ++ b) = runGo (runGo r a) b := by
  induction a generalizing r with
  | nil => rfl
  | cons op ops ih =>
    cases op with
    | hdr c => simp only [List.cons_append, runGo]; exact ih _
    | write c e => simp only [List.cons_append, runGo]; exact ih _

/-- same response up to superfluous header commits -/
def Rel1 (r r' : Resp) : Prop := r'.body = r.body ∧ r'.status = r.status ∧ r'.commits = min 1 r.commits

theorem normGo_rel (ops : List WOp) (r r' : Resp) (h : Rel1 r r') :
    Rel1 (runGo r ops) (runGo r' (normGo (decide (r.commits ≠ 0)) ops)) := by
  induction ops generalizing r r' with
  | nil => simpa [normGo, runGo] using h
  | cons op ops ih =>
    obtain ⟨hb, hs, hc⟩ := h
    by_cases hz : r.commits = 0
    · have hz' : r'.commits = 0 := by rw [hc, hz]; rfl
      cases op with
      | hdr c =>
        simp only [hz, ne_eq, not_true_eq_false, decide_false, normGo, runGo, hz', if_true]
        have := ih { r with commits := r.commits + 1, status := c } { r' with commits := r'.commits + 1, status := c }
          ⟨hb, rfl, by simp [hz, hz']⟩
        simpa [hz, hz'] using this
      | write c e =>
        simp only [hz, ne_eq, not_true_eq_false, decide_false, normGo, runGo, hz', if_true]
        have := ih { commits := 1, status := 200, body := r.body ++ [(c, e)] }
          { commits := 1, status := 200, body := r'.body ++ [(c, e)] } ⟨by simp [hb], rfl, rfl⟩
        simpa [hz, hz'] using this
    · have hz' : r'.commits = 1 := by rw [hc]; omega
      have hd : decide (r.commits ≠ 0) = true := by simp [hz]
      cases op with
      | hdr c =>
        simp only [hd, normGo, runGo, hz, if_false]
        have := ih { r with commits := r.commits + 1 } r' ⟨hb, hs, by simp only [hz']; omega⟩
        simpa using this
      | write c e =>
        have hz1 : ¬ r'.commits = 0 := by omega
        simp only [hd, normGo, runGo, hz, hz1, if_false]
        have := ih { r with body := r.body ++ [(c, e)] } { r' with body := r'.body ++ [(c, e)] }
          ⟨by simp [hb], hs, hc⟩
        simpa [hz] using this

theorem norm_rel (ops : List WOp) : Rel1 (runOps ops) (runOps (norm ops)) := by
  have := normGo_rel ops { commits := 0, status := 0, body := [] } { commits := 0, status := 0, body := [] }
    ⟨rfl, rfl, rfl⟩
  simpa [runOps, norm] using this

/-- same response up to the gzip marking of the body -/
def Rel2 (r r' : Resp) : Prop := r'.commits = r.commits ∧ r'.status = r.status ∧ chunks r' = chunks r

theorem enc_rel (ops : List WOp) (r r' : Resp) (h : Rel2 r r') :
    Rel2 (runGo r ops) (runGo r' (ops.map encOp)) := by
  induction ops generalizing r r' with
  | nil => simpa [runGo] using h
  | cons op ops ih =>
    obtain ⟨hc, hs, hb⟩ := h
    cases op with
    | hdr c =>
      simp only [List.map_cons, encOp, runGo]
      apply ih
      exact ⟨by simp [hc], by simp [hc, hs], hb⟩
    | write c e =>
      simp only [List.map_cons, encOp, runGo]
      apply ih
      unfold chunks at hb
      by_cases hz : r.commits = 0
      · have hz' : r'.commits = 0 := by rw [hc, hz]
        simp [Rel2, chunks, hz, hz', hb]
      · have hz' : ¬ r'.commits = 0 := by rw [hc]; exact hz
        simp [Rel2, chunks, hz, hz', hb, hc, hs]

theorem enc_rel_ops (ops : List WOp) : Rel2 (runOps ops) (runOps (ops.map encOp)) :=
  enc_rel ops _ _ ⟨rfl, rfl, rfl⟩

/-! ### the judged predicate only looks at commits, status and chunks -/

theorem good_congr (m : Option ErrMode) (i : Inner) (r r' : Resp) (h : Rel2 r r') :
    good m i r' = good m i r := by
  obtain ⟨hc, hs, hb⟩ := h
  unfold good
  cases i <;> simp only [hc, hs, hb]

theorem good_min1 (m : Option ErrMode) (i : Inner) (r r' : Resp) (h : Rel1 r r') (hg : good m i r = true) :
    good m i r' = true := by
  obtain ⟨hb, hs, hc⟩ := h
  have hch : chunks r' = chunks r := by unfold chunks; rw [hb]
  by_cases h1 : r.commits ≤ 1
  · have : r'.commits = r.commits := by rw [hc]; omega
    rw [good_congr m i r r' ⟨this, hs, hch⟩]; exact hg
  · have hc1 : r'.commits = 1 := by rw [hc]; omega
    have hne1 : ¬ r.commits = 1 := by omega
    have hne0 : ¬ r.commits = 0 := by omega
    unfold good at hg ⊢
    cases i with
    | ret s e =>
      by_cases hs4 : s ≥ 400
      · simp only [hs4, if_true, Bool.and_eq_true, beq_iff_eq] at hg
        exact absurd hg.1.1 hne1
      · simp only [hs4, if_false, Bool.and_eq_true, decide_eq_true_eq] at hg
        exact absurd hg.1.1 h1
    | write s b e =>
      simp only [Bool.and_eq_true, beq_iff_eq] at hg
      exact absurd hg.1.1 hne1
    | panicBefore =>
      simp only [Bool.and_eq_true, beq_iff_eq] at hg
      exact absurd hg.1.1 hne1
    | panicAfter s b =>
      simp only [Bool.or_eq_true, Bool.and_eq_true, beq_iff_eq, bne_iff_ne, ne_eq] at hg
      rcases hg with hg | hg
      · exact absurd hg.1.1 hne1
      · simp only [hc1, hs, hch, Bool.or_eq_true, Bool.and_eq_true, beq_iff_eq, bne_iff_ne, ne_eq]
        right
        exact ⟨⟨by omega, hg.1.2⟩, hg.2⟩

/-! ### the invariant that holds from the `errors` stage outwards -/

/-- the innermost handler's own response reached the writer: its status, its bytes, once -/
def Wrote (s : Option Nat) (bb : Bytes) (R : Resp) : Prop :=
  R.commits = 1 ∧ R.status = statusOf s ∧ chunks R = [.inner bb]

/-- `m` is the site's effective `errors` mode.  A behaviour is either an unhandled error status
(only possible without `errors`, nothing written so far), or finished with the property already
true of what was written, or a panic in flight (only without `errors`) with either nothing or
exactly the inner response written. -/
def Inv (m : Option ErrMode) (i : Inner) (b : Beh) : Prop :=
  match b.out with
  | .ret s _ =>
    if s ≥ 400 then m = none ∧ b.ops = [] ∧ ∃ e', i = .ret s e'
    else good m i (runOps b.ops) = true
  | .panic => m = none ∧ ((b.ops = [] ∧ (i = .panicBefore ∨ ∃ s bb, i = .panicAfter s bb)) ∨
      ∃ s bb, i = .panicAfter s bb ∧ Wrote s bb (runOps b.ops))

theorem good_errResponse (s : Nat) (e : Bool) (hs : s ≥ 400) :
    good none (.ret s e) (runOps (errResponse s)) = true := by
  simp [good, runOps, runGo, errResponse, chunks, oneChunk, errorBodyOK, hs]

theorem wrote_norm {s : Option Nat} {bb : Bytes} {ops : List WOp} (h : Wrote s bb (runOps ops)) :
    Wrote s bb (runOps (norm ops)) := by
  obtain ⟨hb, hs, hc⟩ := norm_rel ops
  obtain ⟨h1, h2, h3⟩ := h
  refine ⟨by rw [hc, h1]; rfl, by rw [hs, h2], ?_⟩
  unfold chunks at h3 ⊢; rw [hb]; exact h3

theorem wrote_enc {s : Option Nat} {bb : Bytes} {ops : List WOp} (h : Wrote s bb (runOps ops)) :
    Wrote s bb (runOps (ops.map encOp)) := by
  obtain ⟨hc, hs, hb⟩ := enc_rel_ops ops
  obtain ⟨h1, h2, h3⟩ := h
  exact ⟨by rw [hc, h1], by rw [hs, h2], by rw [hb, h3]⟩

theorem inv_header (m : Option ErrMode) (i : Inner) (b : Beh) (h : Inv m i b) : Inv m i (headerW b) := by
  unfold Inv headerW at *
  cases hout : b.out with
  | ret s e =>
    simp only [hout] at h ⊢
    by_cases hs : s ≥ 400
    · simp only [hs, if_true] at h ⊢
      obtain ⟨h1, h2, h3⟩ := h
      exact ⟨h1, by rw [h2]; rfl, h3⟩
    · simp only [hs, if_false] at h ⊢
      exact good_min1 m i _ _ (norm_rel b.ops) h
  | panic =>
    simp only [hout] at h ⊢
    obtain ⟨h1, h2⟩ := h
    refine ⟨h1, ?_⟩
    rcases h2 with ⟨h2, h3⟩ | ⟨s, bb, h2, h3⟩
    · left; exact ⟨by rw [h2]; rfl, h3⟩
    · right; exact ⟨s, bb, h2, wrote_norm h3⟩

theorem inv_fallback (i : Inner) (ops : List WOp) (s : Nat) (e : Bool)
    (h : (none : Option ErrMode) = none ∧ ops = [] ∧ ∃ e', i = .ret s e') (hs : s ≥ 400) :
    good none i (runOps (ops ++ errResponse s)) = true := by
  obtain ⟨_, h2, e', h3⟩ := h
  rw [h2, h3, List.nil_append]
  exact good_errResponse s e' hs

theorem inv_gzip (m : Option ErrMode) (i : Inner) (b : Beh) (h : Inv m i b) : Inv m i (gzipW b) := by
  unfold Inv gzipW at *
  cases hout : b.out with
  | ret s e =>
    simp only [hout] at h ⊢
    by_cases hs : s ≥ 400
    · simp only [hs, if_true] at h ⊢
      obtain ⟨h1, h2, h3⟩ := h
      subst h1
      have : ¬ (0 ≥ 400) := by omega
      simp only [this, if_false]
      rw [h2]
      exact inv_fallback i [] s e ⟨rfl, rfl, h3⟩ hs
    · simp only [hs, if_false] at h ⊢
      have h1 := good_min1 m i _ _ (norm_rel b.ops) h
      rw [good_congr m i _ _ (enc_rel_ops (norm b.ops))]
      exact h1
  | panic =>
    simp only [hout] at h ⊢
    obtain ⟨h1, h2⟩ := h
    refine ⟨h1, ?_⟩
    rcases h2 with ⟨h2, h3⟩ | ⟨s, bb, h2, h3⟩
    · left; exact ⟨by rw [h2]; rfl, h3⟩
    · right; exact ⟨s, bb, h2, wrote_enc (wrote_norm h3)⟩

theorem inv_log (m : Option ErrMode) (i : Inner) (b : Beh) (h : Inv m i b) : Inv m i (logW b) := by
  unfold logW
  cases hout : b.out with
  | ret s e =>
    simp only []
    by_cases hs : s ≥ 400
    · simp only [hs, if_true]
      unfold Inv at h ⊢
      simp only [hout, hs, if_true] at h
      have : ¬ (0 ≥ 400) := by omega
      simp only [this, if_false]
      obtain ⟨h1, h2, h3⟩ := h
      subst h1
      rw [h2]
      exact inv_fallback i [] s e ⟨rfl, rfl, h3⟩ hs
    · simp only [hs, if_false]; exact h
  | panic => exact h

/-- `Server.ServeHTTP` finishes every behaviour that satisfies the invariant. -/
theorem inv_server (m : Option ErrMode) (i : Inner) (b : Beh) (h : Inv m i b) :
    good m i (runOps (serverW b)) = true := by
  unfold Inv at h
  unfold serverW
  cases hout : b.out with
  | ret s e =>
    simp only [hout] at h ⊢
    by_cases hs : s ≥ 400
    · simp only [hs, if_true] at h ⊢
      obtain ⟨h1, h2, h3⟩ := h
      subst h1
      rw [h2]
      exact inv_fallback i [] s e ⟨rfl, rfl, h3⟩ hs
    · simp only [hs, if_false] at h ⊢
      exact h
  | panic =>
    simp only [hout] at h ⊢
    obtain ⟨h1, h2⟩ := h
    subst h1
    rcases h2 with ⟨h2, h3⟩ | ⟨s, bb, h2, h3⟩
    · rw [h2]
      rcases h3 with h3 | ⟨s, bb, h3⟩
      · subst h3
        simp [good, runOps, runGo, errResponse, chunks, oneChunk, panicBodyOK]
      · subst h3
        simp [good, runOps, runGo, errResponse, chunks, oneChunk, panicBodyOK]
    · subst h2
      obtain ⟨w1, w2, w3⟩ := h3
      unfold runOps at w1 w2 w3 ⊢
      rw [runGo_append]
      generalize runGo { commits := 0, status := 0, body := [] } b.ops = R at w1 w2 w3
      unfold chunks at w3
      simp only [errResponse, runGo, w1]
      simp [good, chunks, w2, w3, firstChunkIs]

/-! ### the inner stages establish the invariant -/

/-- templates (absent, or present for a non-template / template extension), then errors -/
def stage2 (tpl : Option Bool) (m : Option ErrMode) (i : Inner) : Beh :=
  let b1 := match tpl with
    | some html => templatesW html i.beh
    | none => i.beh
  match m with
  | some mm => errorsW mm b1
  | none => b1

theorem inv_stage2_ret (tpl : Option Bool) (m : Option ErrMode) (s : Nat) (e : Bool)
    (hok : Inner.ok (.ret s e) = true) : Inv m (.ret s e) (stage2 tpl m (.ret s e)) := by
  unfold Inner.ok at hok
  by_cases h4 : s ≥ 400
  · have h3 : s ≥ 300 := by omega
    have h0 : ¬ s = 0 := by omega
    rcases tpl with _ | _ | _ <;> rcases m with _ | _ | _ | _ <;> cases e <;>
      simp [stage2, Inner.beh, templatesW, errorsW, errPage, norm, normGo, Inv, h4, h3, h0, good, runOps, runGo,
        chunks, oneChunk, errorBodyOK, bufStatus, bufWrites]
  · have he : e = false := by
      simp only [h4, decide_false, Bool.false_or, Bool.and_eq_true, Bool.not_eq_true'] at hok
      exact hok.1
    subst he
    by_cases h3 : s ≥ 300
    · have h0 : ¬ s = 0 := by omega
      rcases tpl with _ | _ | _ <;> rcases m with _ | _ | _ | _ <;>
        simp [stage2, Inner.beh, templatesW, errorsW, errPage, norm, normGo, Inv, h4, h3, h0, good, runOps, runGo,
          chunks, bufStatus, bufWrites]
    · rcases tpl with _ | _ | _ <;> rcases m with _ | _ | _ | _ <;>
        simp [stage2, Inner.beh, templatesW, errorsW, errPage, norm, normGo, Inv, h4, h3, good, runOps, runGo,
          chunks, bufStatus, bufWrites]

theorem inv_stage2_write (tpl : Option Bool) (m : Option ErrMode) (s : Option Nat) (bb : Bytes) (e : Bool) :
    Inv m (.write s bb e) (stage2 tpl m (.write s bb e)) := by
  rcases tpl with _ | _ | _ <;> rcases m with _ | _ | _ | _ <;> cases e <;> cases s <;>
    simp [stage2, Inner.beh, wroteOps, templatesW, errorsW, errPage, norm, normGo, Inv, good, runOps, runGo,
      chunks, bufStatus, bufWrites, statusOf]

theorem inv_stage2_panicBefore (tpl : Option Bool) (m : Option ErrMode) :
    Inv m .panicBefore (stage2 tpl m .panicBefore) := by
  rcases tpl with _ | _ | _ <;> rcases m with _ | _ | _ | _ <;>
    simp [stage2, Inner.beh, templatesW, errorsW, errPage, norm, normGo, Inv, good, runOps, runGo,
      chunks, oneChunk, panicBodyOK]

theorem inv_stage2_panicAfter (tpl : Option Bool) (m : Option ErrMode) (s : Option Nat) (bb : Bytes) :
    Inv m (.panicAfter s bb) (stage2 tpl m (.panicAfter s bb)) := by
  rcases tpl with _ | _ | _ <;> rcases m with _ | _ | _ | _ <;> cases s <;>
    simp [stage2, Inner.beh, wroteOps, templatesW, errorsW, errPage, norm, normGo, Inv, good, runOps, runGo,
      chunks, oneChunk, firstChunkIs, panicBodyOK, statusOf, Wrote]

theorem inv_stage2 (tpl : Option Bool) (m : Option ErrMode) (i : Inner) (hok : Inner.ok i = true) :
    Inv m i (stage2 tpl m i) := by
  cases i with
  | ret s e => exact inv_stage2_ret tpl m s e hok
  | write s bb e => exact inv_stage2_write tpl m s bb e
  | panicBefore => exact inv_stage2_panicBefore tpl m
  | panicAfter s bb => exact inv_stage2_panicAfter tpl m s bb

/-- the chain of a site is stage2 followed by header, gzip and log as configured -/
theorem chain_eq (c : Cfg) (r : Req) (i : Inner) :
    chain c r i =
      (fun b => if c.log then logW b else b)
        ((fun b => if c.gzip && r.html && r.ae then gzipW b else b)
          ((fun b => if c.header then headerW b else b)
            (stage2 (if c.templates then some r.html else none) (effectiveErrors c) i))) := by
  unfold chain stage2
  cases c.templates <;> rfl

theorem inv_chain (c : Cfg) (r : Req) (i : Inner) (hok : Inner.ok i = true) :
    Inv (effectiveErrors c) i (chain c r i) := by
  rw [chain_eq]
  simp only []
  have h2 := inv_stage2 (if c.templates then some r.html else none) (effectiveErrors c) i hok
  generalize stage2 (if c.templates then some r.html else none) (effectiveErrors c) i = b2 at h2
  have h3 : Inv (effectiveErrors c) i (if c.header then headerW b2 else b2) := by
    split
    · exact inv_header _ _ _ h2
    · exact h2
  generalize (if c.header then headerW b2 else b2) = b3 at h3
  have h4 : Inv (effectiveErrors c) i (if c.gzip && r.html && r.ae then gzipW b3 else b3) := by
    split
    · exact inv_gzip _ _ _ h3
    · exact h3
  generalize (if c.gzip && r.html && r.ae then gzipW b3 else b3) = b4 at h4
  show Inv (effectiveErrors c) i (if c.log then logW b4 else b4)
  split
  · exact inv_log _ _ _ h4
  · exact h4

end Casket.Mw
