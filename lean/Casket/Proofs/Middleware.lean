import Casket.Model.Middleware
import Casket.Spec.Middleware
/-
Helper lemmas for C12: what the counting writer sees is invariant under the wrappers'
bookkeeping (WriteHeader once, gzip marking), and an invariant of behaviours that holds after
the `errors` stage is preserved by header, gzip and log and finished by Server.ServeHTTP.
-/
set_option linter.unusedSimpArgs false
set_option linter.unusedVariables false

namespace Casket.Mw
open Casket.MwSpec

/-! ### the counting writer -/

theorem runGo_append (r : Resp) (a b : List WOp) : runGo r (a ++ b) = runGo (runGo r a) b := by
  induction a generalizing r with
  | nil => rfl
  | cons op ops ih =>
    cases op with
    | hdr c => simp only [List.cons_append, runGo]; exact ih _
    | write c e => simp only [List.cons_append, runGo]; exact ih _
    | setCL v => simp only [List.cons_append, runGo]; exact ih _
    | info => simp only [List.cons_append, runGo]; exact ih _

/-- once the header is committed the Content-Length that went out with it is fixed -/
theorem runGo_cl_stable (ops : List WOp) (a : Resp) (h : a.commits ≠ 0) : (runGo a ops).cl = a.cl := by
  induction ops generalizing a with
  | nil => rfl
  | cons op ops ih =>
    cases op with
    | hdr c => simp only [runGo, h, if_false]; rw [ih _ (by simp)]
    | write c e => simp only [runGo, h, if_false]; rw [ih _ (by simpa using h)]
    | setCL v => simp only [runGo]; rw [ih _ (by simpa using h)]
    | info => simp only [runGo]; exact ih _ h

/-- commits, status and body do not depend on the Content-Length bookkeeping -/
theorem runGo_core (ops : List WOp) (a a' : Resp)
    (h : a'.commits = a.commits ∧ a'.status = a.status ∧ a'.body = a.body) :
    (runGo a' ops).commits = (runGo a ops).commits ∧ (runGo a' ops).status = (runGo a ops).status ∧
    (runGo a' ops).body = (runGo a ops).body := by
  induction ops generalizing a a' with
  | nil => exact h
  | cons op ops ih =>
    obtain ⟨h1, h2, h3⟩ := h
    cases op with
    | hdr c => simp only [runGo]; exact ih _ _ ⟨by simp [h1], by simp [h1, h2], h3⟩
    | write c e =>
      simp only [runGo]
      apply ih
      by_cases hz : a.commits = 0
      · have hz' : a'.commits = 0 := by rw [h1, hz]
        simp [hz, hz', h3]
      · have hz' : ¬ a'.commits = 0 := by rw [h1]; exact hz
        simp [hz, hz', h1, h2, h3]
    | setCL v => simp only [runGo]; exact ih _ _ ⟨h1, h2, h3⟩
    | info => simp only [runGo]; exact ih _ _ ⟨h1, h2, h3⟩

/-- same response up to superfluous header commits -/
def Rel1 (r r' : Resp) : Prop :=
  r'.body = r.body ∧ r'.status = r.status ∧ r'.commits = min 1 r.commits ∧ r'.cl = r.cl ∧ r'.live = r.live

theorem normGo_rel (ops : List WOp) (r r' : Resp) (h : Rel1 r r') :
    Rel1 (runGo r ops) (runGo r' (normGo (decide (r.commits ≠ 0)) ops)) := by
  induction ops generalizing r r' with
  | nil => simpa [normGo, runGo] using h
  | cons op ops ih =>
    obtain ⟨hb, hs, hc, hcl, hl⟩ := h
    by_cases hz : r.commits = 0
    · have hz' : r'.commits = 0 := by rw [hc, hz]; rfl
      cases op with
      | hdr c =>
        simp only [hz, ne_eq, not_true_eq_false, decide_false, normGo, runGo, hz', if_true]
        have := ih { r with commits := r.commits + 1, status := c, cl := r.live }
          { r' with commits := r'.commits + 1, status := c, cl := r'.live }
          ⟨hb, rfl, by simp [hz, hz'], hl, hl⟩
        simpa [hz, hz'] using this
      | write c e =>
        simp only [hz, ne_eq, not_true_eq_false, decide_false, normGo, runGo, hz', if_true]
        have := ih { commits := 1, status := 200, body := r.body ++ [(c, e)], cl := r.live, live := r.live }
          { commits := 1, status := 200, body := r'.body ++ [(c, e)], cl := r'.live, live := r'.live }
          ⟨by simp [hb], rfl, rfl, hl, hl⟩
        simpa [hz, hz'] using this
      | setCL v =>
        simp only [hz, ne_eq, not_true_eq_false, decide_false, normGo, runGo]
        have := ih { r with live := v } { r' with live := v } ⟨hb, hs, hc, hcl, rfl⟩
        simpa [hz] using this
      | info =>
        simp only [hz, ne_eq, not_true_eq_false, decide_false, normGo, runGo]
        have := ih r r' ⟨hb, hs, hc, hcl, hl⟩
        simpa [hz] using this
    · have hz' : r'.commits = 1 := by rw [hc]; omega
      have hd : decide (r.commits ≠ 0) = true := by simp [hz]
      cases op with
      | hdr c =>
        simp only [hd, normGo, runGo, hz, if_false]
        have := ih { r with commits := r.commits + 1 } r' ⟨hb, hs, by simp only [hz']; omega, hcl, hl⟩
        simpa using this
      | write c e =>
        have hz1 : ¬ r'.commits = 0 := by omega
        simp only [hd, normGo, runGo, hz, hz1, if_false]
        have := ih { r with body := r.body ++ [(c, e)] } { r' with body := r'.body ++ [(c, e)] }
          ⟨by simp [hb], hs, hc, hcl, hl⟩
        simpa [hz] using this
      | setCL v =>
        simp only [hd, normGo, runGo]
        have := ih { r with live := v } { r' with live := v } ⟨hb, hs, hc, hcl, rfl⟩
        simpa [hz] using this
      | info =>
        simp only [hd, normGo, runGo]
        have := ih r r' ⟨hb, hs, hc, hcl, hl⟩
        simpa [hz] using this

theorem norm_rel (ops : List WOp) : Rel1 (runOps ops) (runOps (norm ops)) := by
  have := normGo_rel ops fresh fresh ⟨rfl, rfl, rfl, rfl, rfl⟩
  simpa [runOps, norm, fresh] using this

/-- same response up to the gzip marking of the body -/
def Rel2 (r r' : Resp) : Prop := r'.commits = r.commits ∧ r'.status = r.status ∧ chunks r' = chunks r

theorem enc_rel (ops : List WOp) (r r' : Resp) (h : Rel2 r r') :
    Rel2 (runGo r ops) (runGo r' (ops.map encOp)) := by
  induction ops generalizing r r' with
  | nil => simpa [runGo] using h
  | cons op ops ih =>
    obtain ⟨hc, hs, hb⟩ := h
    cases op with
    | hdr c =>
      simp only [List.map_cons, encOp, runGo]
      apply ih
      exact ⟨by simp [hc], by simp [hc, hs], hb⟩
    | write c e =>
      simp only [List.map_cons, encOp, runGo]
      apply ih
      unfold chunks at hb
      by_cases hz : r.commits = 0
      · have hz' : r'.commits = 0 := by rw [hc, hz]
        simp [Rel2, chunks, hz, hz', hb]
      · have hz' : ¬ r'.commits = 0 := by rw [hc]; exact hz
        simp [Rel2, chunks, hz, hz', hb, hc, hs]
    | setCL v =>
      simp only [List.map_cons, encOp, runGo]
      apply ih
      exact ⟨hc, hs, hb⟩
    | info =>
      simp only [List.map_cons, encOp, runGo]
      apply ih
      exact ⟨hc, hs, hb⟩

/-- deleting Content-Length just before the header goes out: same commits, status and body,
and no Content-Length is committed -/
theorem delCL_rel (ops : List WOp) (r : Resp) (h0 : r.commits = 0) (hcl : r.cl = none) :
    (runGo r (delCL ops)).commits = (runGo r ops).commits ∧ (runGo r (delCL ops)).status = (runGo r ops).status ∧
    (runGo r (delCL ops)).body = (runGo r ops).body ∧ (runGo r (delCL ops)).cl = none := by
  induction ops generalizing r with
  | nil => simp [delCL, runGo, hcl]
  | cons op ops ih =>
    cases op with
    | setCL v =>
      simp only [delCL, runGo]
      exact ih { r with live := v } h0 hcl
    | info =>
      simp only [delCL, runGo]
      exact ih r h0 hcl
    | hdr c =>
      simp only [delCL, runGo, h0, if_true]
      have hcore := runGo_core ops { r with commits := r.commits + 1, status := c, cl := r.live }
        { commits := r.commits + 1, status := c, body := r.body, cl := none, live := none } ⟨rfl, rfl, rfl⟩
      have hst := runGo_cl_stable ops
        { commits := r.commits + 1, status := c, body := r.body, cl := none, live := none } (by simp)
      simp only [h0] at hcore hst ⊢
      exact ⟨hcore.1, hcore.2.1, hcore.2.2, hst⟩
    | write c e =>
      simp only [delCL, runGo, h0, if_true]
      have hcore := runGo_core ops
        { commits := 1, status := 200, body := r.body ++ [(c, e)], cl := r.live, live := r.live }
        { commits := 1, status := 200, body := r.body ++ [(c, e)], cl := none, live := none } ⟨rfl, rfl, rfl⟩
      have hst := runGo_cl_stable ops
        { commits := 1, status := 200, body := r.body ++ [(c, e)], cl := none, live := none } (by simp)
      exact ⟨hcore.1, hcore.2.1, hcore.2.2, hst⟩

/-- what the gzip writer does to the calls below it, seen from the connection: commits collapse
to at most one, status and chunks stay, no Content-Length goes out -/
def RelG (r r' : Resp) : Prop :=
  r'.commits = min 1 r.commits ∧ r'.status = r.status ∧ chunks r' = chunks r ∧ r'.cl = none

theorem gz_rel (ops : List WOp) : RelG (runOps ops) (runOps (delCL ((norm ops).map encOp))) := by
  obtain ⟨hb, hs, hc, _, _⟩ := norm_rel ops
  obtain ⟨ec, es, eb⟩ := enc_rel (norm ops) fresh fresh ⟨rfl, rfl, rfl⟩
  obtain ⟨dc, ds, db, dcl⟩ := delCL_rel ((norm ops).map encOp) fresh rfl rfl
  unfold runOps at *
  refine ⟨by rw [dc, ec, hc], by rw [ds, es, hs], ?_, dcl⟩
  have : chunks (runGo fresh (delCL ((norm ops).map encOp))) = chunks (runGo fresh ((norm ops).map encOp)) := by
    unfold chunks; rw [db]
  rw [this, eb]; unfold chunks; rw [hb]

/-! ### the judged predicate only looks at commits, status, chunks and the Content-Length check -/

theorem goodCore_congr (tpl : Bool) (m : Option ErrMode) (i : Inner) (r r' : Resp) (h : Rel2 r r') :
    goodCore tpl m i r' = goodCore tpl m i r := by
  obtain ⟨hc, hs, hb⟩ := h
  unfold goodCore
  cases i <;> simp only [hc, hs, hb, writtenOK]

theorem goodCore_min1 (tpl : Bool) (m : Option ErrMode) (i : Inner) (r r' : Resp)
    (hb : chunks r' = chunks r) (hs : r'.status = r.status) (hc : r'.commits = min 1 r.commits)
    (hg : goodCore tpl m i r = true) : goodCore tpl m i r' = true := by
  by_cases h1 : r.commits ≤ 1
  · have : r'.commits = r.commits := by rw [hc]; omega
    rw [goodCore_congr tpl m i r r' ⟨this, hs, hb⟩]; exact hg
  · have hc1 : r'.commits = 1 := by rw [hc]; omega
    have hne1 : ¬ r.commits = 1 := by omega
    have hne0 : ¬ r.commits = 0 := by omega
    unfold goodCore at hg ⊢
    cases i with
    | ret s e =>
      by_cases hs4 : s ≥ 400
      · simp only [hs4, if_true, Bool.and_eq_true, beq_iff_eq] at hg
        exact absurd hg.1.1 hne1
      · simp only [hs4, if_false, Bool.and_eq_true, decide_eq_true_eq] at hg
        exact absurd hg.1.1 h1
    | write s b e k cl =>
      simp only [Bool.and_eq_true, beq_iff_eq] at hg
      exact absurd hg.1 hne1
    | panicBefore =>
      simp only [Bool.and_eq_true, beq_iff_eq] at hg
      exact absurd hg.1.1 hne1
    | panicAfter s b =>
      simp only [Bool.or_eq_true, Bool.and_eq_true, beq_iff_eq, bne_iff_ne, ne_eq] at hg
      rcases hg with hg | hg
      · exact absurd hg.1.1 hne1
      · simp only [hc1, hs, hb, Bool.or_eq_true, Bool.and_eq_true, beq_iff_eq, bne_iff_ne, ne_eq]
        right
        exact ⟨⟨by omega, hg.1.2⟩, hg.2⟩

theorem good_norm (tpl : Bool) (m : Option ErrMode) (i : Inner) (r r' : Resp) (h : Rel1 r r')
    (hg : good tpl m i r = true) : good tpl m i r' = true := by
  obtain ⟨hb, hs, hc, hcl, _⟩ := h
  unfold good at hg ⊢
  simp only [Bool.and_eq_true] at hg ⊢
  refine ⟨goodCore_min1 tpl m i r r' (by unfold chunks; rw [hb]) hs hc hg.1, ?_⟩
  have := hg.2
  unfold clOK at this ⊢
  rw [hcl, hb]; exact this

theorem good_gz (tpl : Bool) (m : Option ErrMode) (i : Inner) (r r' : Resp) (h : RelG r r')
    (hg : good tpl m i r = true) : good tpl m i r' = true := by
  obtain ⟨hc, hs, hb, hcl⟩ := h
  unfold good at hg ⊢
  simp only [Bool.and_eq_true] at hg ⊢
  exact ⟨goodCore_min1 tpl m i r r' hb hs hc hg.1, by unfold clOK; rw [hcl]⟩

/-! ### the invariant that holds from the `errors` stage outwards -/

/-- the innermost handler's own response reached the writer: its status, its bytes, once, and
no Content-Length was committed with it -/
def Wrote (s : Option Nat) (bb : Bytes) (R : Resp) : Prop :=
  R.commits = 1 ∧ R.status = statusOf s ∧ chunks R = [.inner bb] ∧ R.cl = none

/-- nothing but informational headers -/
def quiet (ops : List WOp) : Bool := ops.all (· == .info)

@[simp] theorem quiet_nil : quiet [] = true := rfl

theorem quiet_cons_info (ops : List WOp) : quiet (.info :: ops) = quiet ops := by simp [quiet]

theorem quiet_normGo (w : Bool) (ops : List WOp) (h : quiet ops = true) : normGo w ops = ops := by
  induction ops with
  | nil => cases w <;> rfl
  | cons op r ih =>
    cases op with
    | info => rw [quiet_cons_info] at h; cases w <;> simp [normGo, ih h]
    | hdr c => simp [quiet] at h
    | write c e => simp [quiet] at h
    | setCL v => simp [quiet] at h

theorem quiet_enc (ops : List WOp) (h : quiet ops = true) : ops.map encOp = ops := by
  induction ops with
  | nil => rfl
  | cons op r ih =>
    cases op with
    | info => rw [quiet_cons_info] at h; simp [encOp, ih h]
    | hdr c => simp [quiet] at h
    | write c e => simp [quiet] at h
    | setCL v => simp [quiet] at h

theorem quiet_delCL (ops : List WOp) (h : quiet ops = true) : delCL ops = ops := by
  induction ops with
  | nil => rfl
  | cons op r ih =>
    cases op with
    | info => rw [quiet_cons_info] at h; simp [delCL, ih h]
    | hdr c => simp [quiet] at h
    | write c e => simp [quiet] at h
    | setCL v => simp [quiet] at h

theorem runGo_quiet (r : Resp) (ops more : List WOp) (h : quiet ops = true) :
    runGo r (ops ++ more) = runGo r more := by
  induction ops with
  | nil => rfl
  | cons op rest ih =>
    cases op with
    | info => rw [quiet_cons_info] at h; simp only [List.cons_append, runGo]; exact ih h
    | hdr c => simp [quiet] at h
    | write c e => simp [quiet] at h
    | setCL v => simp [quiet] at h

theorem quiet_replicate (n : Nat) : quiet (List.replicate n .info) = true := by
  simp [quiet]

theorem quiet_append (a b : List WOp) : quiet (a ++ b) = (quiet a && quiet b) := by
  simp [quiet]

theorem quiet_gz (ops : List WOp) (h : quiet ops = true) : delCL ((norm ops).map encOp) = ops := by
  unfold norm
  rw [quiet_normGo false ops h, quiet_enc ops h, quiet_delCL ops h]

/-- `m` is the site's effective `errors` mode, `tpl` whether `templates` renders the request.
A behaviour is either an unhandled error status (only possible without `errors`; nothing but
informational headers went out, no header field was left behind, and the default error response is
what the property asks for), or finished with the property already true of what was written, or a
panic in flight (only without `errors`) with either nothing or exactly the inner response written. -/
def Inv (tpl : Bool) (m : Option ErrMode) (i : Inner) (b : Beh) : Prop :=
  match b.out with
  | .ret s _ =>
    if s ≥ 400 then m = none ∧ quiet b.ops = true ∧ good tpl none i (runOps (errResponse s)) = true
    else good tpl m i (runOps b.ops) = true
  | .panic => m = none ∧ ((quiet b.ops = true ∧ (i = .panicBefore ∨ ∃ s bb, i = .panicAfter s bb)) ∨
      ∃ s bb, i = .panicAfter s bb ∧ Wrote s bb (runOps b.ops))

theorem wrote_norm {s : Option Nat} {bb : Bytes} {ops : List WOp} (h : Wrote s bb (runOps ops)) :
    Wrote s bb (runOps (norm ops)) := by
  obtain ⟨hb, hs, hc, hcl, _⟩ := norm_rel ops
  obtain ⟨h1, h2, h3, h4⟩ := h
  refine ⟨by rw [hc, h1]; rfl, by rw [hs, h2], ?_, by rw [hcl, h4]⟩
  unfold chunks at h3 ⊢; rw [hb]; exact h3

theorem wrote_gz {s : Option Nat} {bb : Bytes} {ops : List WOp} (h : Wrote s bb (runOps ops)) :
    Wrote s bb (runOps (delCL ((norm ops).map encOp))) := by
  obtain ⟨hc, hs, hb, hcl⟩ := gz_rel ops
  obtain ⟨h1, h2, h3, _⟩ := h
  exact ⟨by rw [hc, h1]; rfl, by rw [hs, h2], by rw [hb, h3], hcl⟩

theorem inv_header (tpl : Bool) (m : Option ErrMode) (i : Inner) (b : Beh) (h : Inv tpl m i b) :
    Inv tpl m i (headerW b) := by
  unfold Inv headerW at *
  cases hout : b.out with
  | ret s e =>
    simp only [hout] at h ⊢
    by_cases hs : s ≥ 400
    · simp only [hs, if_true] at h ⊢
      obtain ⟨h1, h2, h3⟩ := h
      exact ⟨h1, by unfold norm; rw [quiet_normGo false _ h2]; exact h2, h3⟩
    · simp only [hs, if_false] at h ⊢
      exact good_norm tpl m i _ _ (norm_rel b.ops) h
  | panic =>
    simp only [hout] at h ⊢
    obtain ⟨h1, h2⟩ := h
    refine ⟨h1, ?_⟩
    rcases h2 with ⟨h2, h3⟩ | ⟨s, bb, h2, h3⟩
    · left; exact ⟨by unfold norm; rw [quiet_normGo false _ h2]; exact h2, h3⟩
    · right; exact ⟨s, bb, h2, wrote_norm h3⟩

theorem inv_gzip (tpl : Bool) (m : Option ErrMode) (i : Inner) (b : Beh) (h : Inv tpl m i b) :
    Inv tpl m i (gzipW b) := by
  unfold Inv gzipW at *
  cases hout : b.out with
  | ret s e =>
    simp only [hout] at h ⊢
    by_cases hs : s ≥ 400
    · simp only [hs, if_true] at h ⊢
      obtain ⟨h1, h2, h3⟩ := h
      subst h1
      have : ¬ (0 ≥ 400) := by omega
      simp only [this, if_false]
      rw [quiet_gz _ h2]
      unfold runOps
      rw [runGo_quiet _ _ _ h2]
      exact h3
    · simp only [hs, if_false] at h ⊢
      exact good_gz tpl m i _ _ (gz_rel b.ops) h
  | panic =>
    simp only [hout] at h ⊢
    obtain ⟨h1, h2⟩ := h
    refine ⟨h1, ?_⟩
    rcases h2 with ⟨h2, h3⟩ | ⟨s, bb, h2, h3⟩
    · left; exact ⟨by rw [quiet_gz _ h2]; exact h2, h3⟩
    · right; exact ⟨s, bb, h2, wrote_gz h3⟩

/-- the plain writer of gzip (response filters declined): WriteHeader-once bookkeeping and the
same fallback -/
theorem inv_gzipPlain (tpl : Bool) (m : Option ErrMode) (i : Inner) (b : Beh) (h : Inv tpl m i b) :
    Inv tpl m i (gzipPlainW b) := by
  unfold Inv gzipPlainW at *
  cases hout : b.out with
  | ret s e =>
    simp only [hout] at h ⊢
    by_cases hs : s ≥ 400
    · simp only [hs, if_true] at h ⊢
      obtain ⟨h1, h2, h3⟩ := h
      subst h1
      have : ¬ (0 ≥ 400) := by omega
      simp only [this, if_false]
      have hq : norm b.ops = b.ops := by unfold norm; exact quiet_normGo false _ h2
      rw [hq]
      unfold runOps
      rw [runGo_quiet _ _ _ h2]
      exact h3
    · simp only [hs, if_false] at h ⊢
      exact good_norm tpl m i _ _ (norm_rel b.ops) h
  | panic =>
    simp only [hout] at h ⊢
    obtain ⟨h1, h2⟩ := h
    refine ⟨h1, ?_⟩
    rcases h2 with ⟨h2, h3⟩ | ⟨s, bb, h2, h3⟩
    · left; exact ⟨by unfold norm; rw [quiet_normGo false _ h2]; exact h2, h3⟩
    · right; exact ⟨s, bb, h2, wrote_norm h3⟩

/-- whatever the response filters decide -/
theorem inv_gzipF (dec : List WOp → Bool) (tpl : Bool) (m : Option ErrMode) (i : Inner) (b : Beh)
    (h : Inv tpl m i b) : Inv tpl m i (gzipFW dec b) := by
  unfold gzipFW
  split
  · exact inv_gzip _ _ _ _ h
  · exact inv_gzipPlain _ _ _ _ h

theorem inv_log (tpl : Bool) (m : Option ErrMode) (i : Inner) (b : Beh) (h : Inv tpl m i b) :
    Inv tpl m i (logW b) := by
  unfold logW
  cases hout : b.out with
  | ret s e =>
    simp only []
    by_cases hs : s ≥ 400
    · simp only [hs, if_true]
      unfold Inv at h ⊢
      simp only [hout, hs, if_true] at h
      have : ¬ (0 ≥ 400) := by omega
      simp only [this, if_false]
      obtain ⟨h1, h2, h3⟩ := h
      subst h1
      unfold runOps
      rw [runGo_quiet _ _ _ h2]
      exact h3
    · simp only [hs, if_false]; exact h
  | panic => exact h

/-- `Server.ServeHTTP` finishes every behaviour that satisfies the invariant. -/
theorem inv_server (tpl : Bool) (m : Option ErrMode) (i : Inner) (b : Beh) (h : Inv tpl m i b) :
    good tpl m i (runOps (serverW b)) = true := by
  unfold Inv at h
  unfold serverW
  cases hout : b.out with
  | ret s e =>
    simp only [hout] at h ⊢
    by_cases hs : s ≥ 400
    · simp only [hs, if_true] at h ⊢
      obtain ⟨h1, h2, h3⟩ := h
      subst h1
      unfold runOps
      rw [runGo_quiet _ _ _ h2]
      exact h3
    · simp only [hs, if_false] at h ⊢
      exact h
  | panic =>
    simp only [hout] at h ⊢
    obtain ⟨h1, h2⟩ := h
    subst h1
    rcases h2 with ⟨h2, h3⟩ | ⟨s, bb, h2, h3⟩
    · unfold runOps
      rw [runGo_quiet _ _ _ h2]
      rcases h3 with h3 | ⟨s, bb, h3⟩
      · subst h3
        simp [good, goodCore, clOK, runOps, runGo, fresh, errResponse, chunks, oneChunk, panicBodyOK]
      · subst h3
        simp [good, goodCore, clOK, runOps, runGo, fresh, errResponse, chunks, oneChunk, panicBodyOK]
    · subst h2
      obtain ⟨w1, w2, w3, w4⟩ := h3
      unfold runOps at w1 w2 w3 w4 ⊢
      rw [runGo_append]
      generalize runGo fresh b.ops = R at w1 w2 w3 w4
      unfold chunks at w3
      simp only [errResponse, runGo, w1]
      simp [good, goodCore, clOK, chunks, w2, w3, w4, firstChunkIs]

/-! ### the inner stages establish the invariant -/

/-- templates (absent, or present for a non-template / template extension), then errors -/
def stage2 (tplc : Option Bool) (m : Option ErrMode) (i : Inner) : Beh :=
  let b1 := match tplc with
    | some html => templatesW html i
    | none => i.beh
  match m with
  | some mm => errorsW mm b1
  | none => b1

/-- the request is rendered by templates -/
def tplActive (tplc : Option Bool) : Bool := tplc == some true

theorem inv_stage2_ret (tplc : Option Bool) (m : Option ErrMode) (s : Nat) (e : Bool)
    (hok : Inner.ok (.ret s e) = true) : Inv (tplActive tplc) m (.ret s e) (stage2 tplc m (.ret s e)) := by
  unfold Inner.ok at hok
  by_cases h4 : s ≥ 400
  · have h3 : s ≥ 300 := by omega
    have h0 : ¬ s = 0 := by omega
    rcases tplc with _ | _ | _ <;> rcases m with _ | _ | _ | _ <;> cases e <;>
      simp [stage2, tplActive, Inner.beh, templatesW, errorsW, errPage, errResponse, Inv, h4, h3, h0, good, goodCore,
        clOK, runOps, runGo, fresh, chunks, oneChunk, errorBodyOK]
  · have he : e = false := by
      simp only [h4, decide_false, Bool.false_or, Bool.and_eq_true, Bool.not_eq_true'] at hok
      exact hok.1
    subst he
    by_cases h3 : s ≥ 300
    · have h0 : ¬ s = 0 := by omega
      rcases tplc with _ | _ | _ <;> rcases m with _ | _ | _ | _ <;>
        simp [stage2, tplActive, Inner.beh, templatesW, errorsW, errPage, Inv, h4, h3, h0, good, goodCore, clOK,
          runOps, runGo, fresh, chunks]
    · rcases tplc with _ | _ | _ <;> rcases m with _ | _ | _ | _ <;>
        simp [stage2, tplActive, Inner.beh, templatesW, errorsW, errPage, Inv, h4, h3, good, goodCore, clOK,
          runOps, runGo, fresh, chunks]

theorem inv_stage2_write (tplc : Option Bool) (m : Option ErrMode) (s : Option Nat) (bb : Bytes) (e : Bool)
    (k : BodyKind) (cl : Bool) :
    Inv (tplActive tplc) m (.write s bb e k cl) (stage2 tplc m (.write s bb e k cl)) := by
  rcases tplc with _ | _ | _ <;> rcases m with _ | _ | _ | _ <;> cases e <;> cases k <;> cases cl <;> cases s <;>
    simp [stage2, tplActive, Inner.beh, wroteOps, clOps, templatesW, errorsW, errPage, errResponse, norm, normGo, Inv,
      good, goodCore, writtenOK, clOK, runOps, runGo, fresh, chunks, oneChunk, errorBodyOK, statusOf]

theorem inv_stage2_panicBefore (tplc : Option Bool) (m : Option ErrMode) :
    Inv (tplActive tplc) m .panicBefore (stage2 tplc m .panicBefore) := by
  rcases tplc with _ | _ | _ <;> rcases m with _ | _ | _ | _ <;>
    simp [stage2, tplActive, Inner.beh, templatesW, errorsW, errPage, norm, normGo, Inv, good, goodCore, clOK,
      runOps, runGo, fresh, chunks, oneChunk, panicBodyOK]

theorem inv_stage2_panicAfter (tplc : Option Bool) (m : Option ErrMode) (s : Option Nat) (bb : Bytes) :
    Inv (tplActive tplc) m (.panicAfter s bb) (stage2 tplc m (.panicAfter s bb)) := by
  rcases tplc with _ | _ | _ <;> rcases m with _ | _ | _ | _ <;> cases s <;>
    simp [stage2, tplActive, Inner.beh, wroteOps, templatesW, errorsW, errPage, norm, normGo, Inv, good, goodCore,
      clOK, runOps, runGo, fresh, chunks, oneChunk, firstChunkIs, panicBodyOK, statusOf, Wrote]

theorem inv_stage2 (tplc : Option Bool) (m : Option ErrMode) (i : Inner) (hok : Inner.ok i = true) :
    Inv (tplActive tplc) m i (stage2 tplc m i) := by
  cases i with
  | ret s e => exact inv_stage2_ret tplc m s e hok
  | write s bb e k cl => exact inv_stage2_write tplc m s bb e k cl
  | panicBefore => exact inv_stage2_panicBefore tplc m
  | panicAfter s bb => exact inv_stage2_panicAfter tplc m s bb

/-- informational headers ahead of a behaviour do not disturb the invariant -/
theorem inv_pre (tpl : Bool) (m : Option ErrMode) (i : Inner) (b : Beh) (n : Nat) (h : Inv tpl m i b) :
    Inv tpl m i (pre n b) := by
  unfold Inv pre at *
  cases hout : b.out with
  | ret s e =>
    simp only [hout] at h ⊢
    by_cases hs : s ≥ 400
    · simp only [hs, if_true] at h ⊢
      exact ⟨h.1, by rw [quiet_append, quiet_replicate, h.2.1]; rfl, h.2.2⟩
    · simp only [hs, if_false] at h ⊢
      unfold runOps at h ⊢
      rw [runGo_quiet _ _ _ (quiet_replicate n)]
      exact h
  | panic =>
    simp only [hout] at h ⊢
    refine ⟨h.1, ?_⟩
    rcases h.2 with ⟨h2, h3⟩ | ⟨s, bb, h2, h3⟩
    · left; exact ⟨by rw [quiet_append, quiet_replicate, h2]; rfl, h3⟩
    · right
      refine ⟨s, bb, h2, ?_⟩
      unfold runOps at h3 ⊢
      rw [runGo_quiet _ _ _ (quiet_replicate n)]
      exact h3

theorem errorsW_pre (m : ErrMode) (n : Nat) (b : Beh) : errorsW m (pre n b) = pre n (errorsW m b) := by
  obtain ⟨ops, out⟩ := b
  unfold errorsW pre
  cases out with
  | panic => simp only []; split <;> simp [List.append_assoc]
  | ret s e =>
    simp only []
    split
    · simp [List.append_assoc]
    · split <;> simp [List.append_assoc]

/-- the chain of a site is stage2 (with the informational headers ahead) followed by header, gzip
and log as configured -/
theorem chain_eq (c : Cfg) (r : Req) (n : Nat) (i : Inner) :
    chain c r n i =
      (fun b => if c.log then logW b else b)
        ((fun b => if c.gzip && r.html && r.ae then gzipW b else b)
          ((fun b => if c.header then headerW b else b)
            (pre n (stage2 (if c.templates then some r.html else none) (effectiveErrors c) i)))) := by
  unfold chain stage2
  cases c.templates <;> cases effectiveErrors c <;> simp [errorsW_pre]

theorem tplActive_eq (c : Cfg) (r : Req) :
    tplActive (if c.templates then some r.html else none) = (c.templates && r.html) := by
  cases c.templates <;> cases r.html <;> rfl

theorem inv_chain (c : Cfg) (r : Req) (n : Nat) (i : Inner) (hok : Inner.ok i = true) :
    Inv (c.templates && r.html) (effectiveErrors c) i (chain c r n i) := by
  rw [chain_eq, ← tplActive_eq]
  simp only []
  have h2 := inv_pre _ _ _ _ n (inv_stage2 (if c.templates then some r.html else none) (effectiveErrors c) i hok)
  generalize pre n (stage2 (if c.templates then some r.html else none) (effectiveErrors c) i) = b2 at h2
  generalize tplActive (if c.templates then some r.html else none) = tp at h2 ⊢
  have h3 : Inv tp (effectiveErrors c) i (if c.header then headerW b2 else b2) := by
    split
    · exact inv_header _ _ _ _ h2
    · exact h2
  generalize (if c.header then headerW b2 else b2) = b3 at h3
  have h4 : Inv tp (effectiveErrors c) i (if c.gzip && r.html && r.ae then gzipW b3 else b3) := by
    split
    · exact inv_gzip _ _ _ _ h3
    · exact h3
  generalize (if c.gzip && r.html && r.ae then gzipW b3 else b3) = b4 at h4
  show Inv tp (effectiveErrors c) i (if c.log then logW b4 else b4)
  split
  · exact inv_log _ _ _ _ h4
  · exact h4

theorem chainF_eq (dec : List WOp → Bool) (c : Cfg) (r : Req) (n : Nat) (i : Inner) :
    chainF dec c r n i =
      (fun b => if c.log then logW b else b)
        ((fun b => if c.gzip && r.html && r.ae then gzipFW dec b else b)
          ((fun b => if c.header then headerW b else b)
            (pre n (stage2 (if c.templates then some r.html else none) (effectiveErrors c) i)))) := by
  unfold chainF stage2
  cases c.templates <;> cases effectiveErrors c <;> simp [errorsW_pre]

theorem inv_chainF (dec : List WOp → Bool) (c : Cfg) (r : Req) (n : Nat) (i : Inner) (hok : Inner.ok i = true) :
    Inv (c.templates && r.html) (effectiveErrors c) i (chainF dec c r n i) := by
  rw [chainF_eq, ← tplActive_eq]
  simp only []
  have h2 := inv_pre _ _ _ _ n (inv_stage2 (if c.templates then some r.html else none) (effectiveErrors c) i hok)
  generalize pre n (stage2 (if c.templates then some r.html else none) (effectiveErrors c) i) = b2 at h2
  generalize tplActive (if c.templates then some r.html else none) = tp at h2 ⊢
  have h3 : Inv tp (effectiveErrors c) i (if c.header then headerW b2 else b2) := by
    split
    · exact inv_header _ _ _ _ h2
    · exact h2
  generalize (if c.header then headerW b2 else b2) = b3 at h3
  have h4 : Inv tp (effectiveErrors c) i (if c.gzip && r.html && r.ae then gzipFW dec b3 else b3) := by
    split
    · exact inv_gzipF _ _ _ _ _ h3
    · exact h3
  generalize (if c.gzip && r.html && r.ae then gzipFW dec b3 else b3) = b4 at h4
  show Inv tp (effectiveErrors c) i (if c.log then logW b4 else b4)
  split
  · exact inv_log _ _ _ _ h4
  · exact h4

/-- filters that always say "compress": the chain without response filters -/
theorem chainF_all (c : Cfg) (r : Req) (n : Nat) (i : Inner) : chainF (fun _ => true) c r n i = chain c r n i := by
  unfold chainF chain gzipFW; simp

/-! ### server state: the response does not depend on what earlier requests left behind -/

theorem leak_nil (enc : Bool) (ops : List WOp) : leak [] enc ops = ops := by
  induction ops with
  | nil => rfl
  | cons op ops ih =>
    cases op with
    | hdr c => simp [leak, ih]
    | write c e => simp [leak]
    | setCL v => simp [leak, ih]
    | info => simp [leak, ih]

theorem templatesSt_clean (html : Bool) (i : Inner) : templatesSt [] html i = templatesW html i := by
  unfold templatesSt
  split <;> simp [leak_nil]

theorem gzipSt_clean (b : Beh) : gzipSt [] b = gzipW b := by
  unfold gzipSt; simp [leak_nil]

/-- with the scratch objects cleared when they are taken, the response to a request is the one
the stateless model computes, whatever state earlier requests left -/
theorem serveSt_resp (c : Cfg) (r : Req) (n : Nat) (i : Inner) (st : ServerState) :
    (serveSt true c r n i st).1 = serve c r n i := by
  unfold serveSt serve chain
  simp only [takeClean, if_true, templatesSt_clean, gzipSt_clean]

theorem serveAll_eq (c : Cfg) (st : ServerState) (reqs : List (Req × Nat × Inner)) :
    serveAll c st reqs = reqs.map (fun q => serve c q.1 q.2.1 q.2.2) := by
  induction reqs generalizing st with
  | nil => rfl
  | cons q qs ih =>
    obtain ⟨r, n, i⟩ := q
    unfold serveAll
    simp only [List.map_cons]
    rw [ih, serveSt_resp]

theorem putBack_length (fresh : Nat) (used : Bool) (leaves : List Chunk) (pool : List Pooled) :
    (putBack fresh used leaves pool).length = if used then max 1 pool.length else pool.length := by
  unfold putBack
  cases used
  · simp
  · cases pool <;> simp [getObj]

theorem putBack_bounds (fresh : Nat) (used : Bool) (leaves : List Chunk) (pool : List Pooled) :
    pool.length ≤ (putBack fresh used leaves pool).length ∧
    (putBack fresh used leaves pool).length ≤ max 1 pool.length := by
  rw [putBack_length]
  cases used <;> simp <;> omega

theorem logAfter_bounds (logged : Bool) (n : Nat) : n ≤ logAfter logged n ∧ logAfter logged n ≤ n + 1 := by
  unfold logAfter; cases logged <;> simp

/-- the identities in a pool after the deferred Put: the same as before, or — the pool was empty —
the one new object -/
theorem putBack_ids (fresh : Nat) (used : Bool) (leaves : List Chunk) (pool : List Pooled) :
    (putBack fresh used leaves pool).map (·.id) =
      if used && pool.isEmpty then [fresh] else pool.map (·.id) := by
  unfold putBack
  cases used
  · simp
  · cases pool <;> simp [getObj]

theorem mem_putBack_id {fresh : Nat} {used : Bool} {leaves : List Chunk} {pool : List Pooled} {p : Pooled}
    (hp : p ∈ putBack fresh used leaves pool) : p.id = fresh ∨ p.id ∈ pool.map (·.id) := by
  have : p.id ∈ (putBack fresh used leaves pool).map (·.id) := List.mem_map.mpr ⟨p, hp, rfl⟩
  rw [putBack_ids] at this
  split at this
  · left; simpa using this
  · right; exact this

/-- every object is in a pool at most once (so two requests in flight together are never handed
the same object by `sync.Pool`), and no identity is invented: preserved by every request. -/
theorem poolsSound_step (c : Cfg) (r : Req) (n : Nat) (i : Inner) (st : ServerState) (h : poolsSound st) :
    poolsSound (serveSt true c r n i st).2 := by
  obtain ⟨hnd, hlt⟩ := h
  have hlt' : ∀ x, x ∈ st.gzPool.map (·.id) ++ st.tplPool.map (·.id) → x < st.nextId := by
    intro x hx
    rcases List.mem_append.mp hx with hx | hx
    · obtain ⟨p, hp, rfl⟩ := List.mem_map.mp hx
      exact hlt p (List.mem_append_left _ hp)
    · obtain ⟨p, hp, rfl⟩ := List.mem_map.mp hx
      exact hlt p (List.mem_append_right _ hp)
  simp only [serveSt, poolsSound]
  generalize (c.gzip && r.html && r.ae && gzUses _) = ug
  constructor
  · rw [putBack_ids, putBack_ids]
    by_cases hg : (ug && st.gzPool.isEmpty) = true <;> by_cases ht : (c.templates && st.tplPool.isEmpty) = true
    · simp only [hg, ht, if_true]
      simp
    · simp only [hg, ht, if_true]
      have hfresh : st.nextId + 1 ∉ st.tplPool.map (·.id) := by
        intro hm
        have := hlt' _ (List.mem_append_right _ hm); omega
      have hnd2 : (st.tplPool.map (·.id)).Nodup := (List.nodup_append.mp hnd).2.1
      simp only [Bool.false_eq_true, if_false, List.singleton_append, List.nodup_cons]
      exact ⟨hfresh, hnd2⟩
    · simp only [hg, ht, if_true]
      have hfresh : st.nextId ∉ st.gzPool.map (·.id) := by
        intro hm
        have := hlt' _ (List.mem_append_left _ hm); omega
      have hnd1 : (st.gzPool.map (·.id)).Nodup := (List.nodup_append.mp hnd).1
      simp only [Bool.false_eq_true, if_false]
      rw [List.nodup_append]
      refine ⟨hnd1, by simp, ?_⟩
      intro a ha b hb
      simp only [List.mem_singleton] at hb
      subst hb
      intro hab; subst hab; exact hfresh ha
    · simp only [hg, ht]
      exact hnd
  · intro p hp
    rcases List.mem_append.mp hp with hp | hp
    · rcases mem_putBack_id hp with h | h
      · omega
      · have := hlt' _ (List.mem_append_left _ h); omega
    · rcases mem_putBack_id hp with h | h
      · omega
      · have := hlt' _ (List.mem_append_right _ h); omega

/-! ### the site as written: its chain is the chain of its meaning -/

theorem logSetup_started (lines : List LogLine) (r : LogRule) (h : r ∈ logSetup lines) :
    r.entries.all (·.started) = true := by
  unfold logSetup at h
  obtain ⟨r0, _, rfl⟩ := List.mem_map.mp h
  simp [List.all_eq_true]

/-- every entry of the rule a request falls under was started: `log` behaves as `logW` -/
theorem logRuleW_setup (lines : List LogLine) (path : String) (b : Beh) :
    logRuleW (logRuleFor (logSetup lines) path) b =
      if (logRuleFor (logSetup lines) path).isSome then logW b else b := by
  unfold logRuleW
  cases h : logRuleFor (logSetup lines) path with
  | none => simp
  | some r =>
    have hm : r ∈ logSetup lines := by
      unfold logRuleFor at h
      exact List.mem_of_find?_eq_some h
    simp [logSetup_started lines r hm]

theorem gzipConfigFor_isSome (cfgs : List GzipLine) (path : String) (html : Bool) :
    (gzipConfigFor cfgs path html).isSome = ((cfgs.any fun g => !g.notPaths.any (pathMatches path)) && html) := by
  unfold gzipConfigFor
  cases html
  · simp
  · simp only [Bool.and_true]
    induction cfgs with
    | nil => rfl
    | cons g gs ih =>
      simp only [List.find?_cons, List.any_cons]
      cases hg : (!g.notPaths.any (pathMatches path)) <;> simp [ih]

theorem site_effectiveErrors (s : Site) (path : String) : effectiveErrors (s.cfg path) = s.errMode := by
  unfold effectiveErrors Site.cfg
  cases s.errMode <;> simp

theorem tplRuleW_eq (o : Option TplLine) (html : Bool) (i : Inner) :
    tplRuleW o html i = if o.isSome then templatesW html i else i.beh := by
  cases o <;> rfl

theorem gzipConfigW_eq (o : Option GzipLine) (b : Beh) : gzipConfigW o b = if o.isSome then gzipW b else b := by
  cases o <;> rfl

/-- the chain written in terms of the rule lists is the chain of the site's meaning for the path -/
theorem siteChain_eq (s : Site) (path : String) (r : Req) (n : Nat) (i : Inner) :
    siteChain s path r n i = chain (s.cfg path) r n i := by
  unfold siteChain chain
  rw [logRuleW_setup, site_effectiveErrors, tplRuleW_eq, gzipConfigW_eq, gzipConfigFor_isSome]
  simp only [Site.cfg]
  have hb : ∀ x : Bool, x = false ∨ x = true := fun x => by cases x <;> simp
  rcases hb s.header.isEmpty with hE | hE <;> rcases hb r.ae with ha | ha <;>
    cases s.errMode <;> simp only [hE, ha, errorsOptW, Bool.not_false, Bool.not_true, Bool.and_true, Bool.and_false,
      if_true, Bool.false_eq_true, if_false] <;> rfl

theorem gzipConfigWF_eq (f : RespFacts) (o : Option GzipLine) (b : Beh) :
    gzipConfigWF f o b = if o.isSome then gzipFW (siteDec f o) b else b := by
  cases o <;> rfl

/-- … with gzip's response filters: those of the FIRST config that lets the request through -/
theorem siteChainF_eq (f : RespFacts) (s : Site) (path : String) (r : Req) (n : Nat) (i : Inner) :
    siteChainF f s path r n i = chainF (siteDec f (gzipConfigFor s.gzip path r.html)) (s.cfg path) r n i := by
  unfold siteChainF chainF
  simp only [gzipConfigWF_eq]
  generalize siteDec f (gzipConfigFor s.gzip path r.html) = dec
  rw [logRuleW_setup, site_effectiveErrors, tplRuleW_eq, gzipConfigFor_isSome]
  simp only [Site.cfg]
  have hb : ∀ x : Bool, x = false ∨ x = true := fun x => by cases x <;> simp
  rcases hb s.header.isEmpty with hE | hE <;> rcases hb r.ae with ha | ha <;>
    cases s.errMode <;> simp only [hE, ha, errorsOptW, Bool.not_false, Bool.not_true, Bool.and_true, Bool.and_false,
      if_true, Bool.false_eq_true, if_false] <;> rfl

theorem siteServeWireF_eq (f : RespFacts) (s : Site) (path : String) (r : Req) (n : Nat) (i : Inner) :
    siteServeWireF f s path r n i =
      serveWireF (siteDec f (gzipConfigFor s.gzip path r.html)) (s.cfg path) r n i := by
  unfold siteServeWireF serveWireF siteServeF serveF; rw [siteChainF_eq]

theorem siteServe_eq (s : Site) (path : String) (r : Req) (n : Nat) (i : Inner) :
    siteServe s path r n i = serve (s.cfg path) r n i := by
  unfold siteServe serve; rw [siteChain_eq]

theorem siteServeWire_eq (s : Site) (path : String) (r : Req) (n : Nat) (i : Inner) :
    siteServeWire s path r n i = serveWire (s.cfg path) r n i := by
  unfold siteServeWire serveWire; rw [siteServe_eq]

/-- appendEntry keeps the scopes already there and adds at most the new one -/
theorem appendEntry_scopes (rules : List LogRule) (sc : String) (e : LogEntry) :
    (appendEntry rules sc e).map (·.scope) =
      if sc ∈ rules.map (·.scope) then rules.map (·.scope) else rules.map (·.scope) ++ [sc] := by
  induction rules with
  | nil => simp [appendEntry]
  | cons r rs ih =>
    unfold appendEntry
    by_cases h : r.scope = sc
    · simp [h]
    · have h' : ¬ sc = r.scope := fun e => h e.symm
      simp only [h, if_false, List.map_cons, ih, List.mem_cons, h', false_or]
      split <;> simp

/-- whether `log` acts on a request is decided by the scopes written, not by outputs or formats -/
theorem logRuleFor_isSome_scopes (rules : List LogRule) (path : String) :
    (logRuleFor rules path).isSome = (rules.map (·.scope)).any (pathMatches path) := by
  unfold logRuleFor
  induction rules with
  | nil => rfl
  | cons r rs ih =>
    simp only [List.find?_cons, List.map_cons, List.any_cons]
    cases pathMatches path r.scope <;> simp [ih]

theorem logSetup_scopes (lines : List LogLine) : (logSetup lines).map (·.scope) = (logParse lines).map (·.scope) := by
  unfold logSetup; simp [List.map_map, Function.comp_def]

theorem any_append_singleton_of_mem {α} (l : List α) (p : α → Bool) (a : α) :
    (l ++ [a]).any p = (l.any p || p a) := by simp

theorem logParse_any_scope (lines : List LogLine) (path : String) (init : List LogRule) :
    ((lines.foldl (fun rules l => appendEntry rules (l.scope.getD "/") ⟨l.out, l.fmt.getD "{common}", false⟩) init).map
        (·.scope)).any (pathMatches path) =
      ((init.map (·.scope)).any (pathMatches path) || lines.any fun l => pathMatches path (l.scope.getD "/")) := by
  induction lines generalizing init with
  | nil => simp
  | cons l ls ih =>
    simp only [List.foldl_cons, List.any_cons]
    rw [ih, appendEntry_scopes]
    by_cases hm : l.scope.getD "/" ∈ init.map (·.scope)
    · simp only [hm, if_true]
      by_cases hp : pathMatches path (l.scope.getD "/") = true
      · have : (init.map (·.scope)).any (pathMatches path) = true :=
          List.any_eq_true.mpr ⟨_, hm, hp⟩
        simp [this]
      · have hp' : pathMatches path (l.scope.getD "/") = false := by simpa using hp
        simp [hp']
    · simp only [hm, if_false, List.any_append, List.any_cons, List.any_nil, Bool.or_false, Bool.or_assoc]

/-- `log` acts on a request iff some line written has a scope that matches its path — however
many lines there are, whatever outputs they name, whatever order they are in -/
theorem site_log_meaning (lines : List LogLine) (path : String) :
    (logRuleFor (logSetup lines) path).isSome = lines.any fun l => pathMatches path (l.scope.getD "/") := by
  rw [logRuleFor_isSome_scopes, logSetup_scopes]
  unfold logParse
  rw [logParse_any_scope]; simp

theorem tplRuleFor_isSome (rules : List TplLine) (path : String) :
    (tplRuleFor rules path).isSome = rules.any fun t => pathMatches path t.path := by
  unfold tplRuleFor
  induction rules with
  | nil => rfl
  | cons t ts ih =>
    simp only [List.find?_cons, List.any_cons]
    cases pathMatches path t.path <;> simp [ih]

end Casket.Mw
