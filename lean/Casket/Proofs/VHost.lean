import Casket.Model.VHost
import Casket.Spec.VHost
/-
Helper lemmas for C01: the path trie refines "longest declared prefix", the root map
refines "declared hosts", and the host normalisation of the code agrees with `normHost`
on well-formed host spellings.
-/
namespace Casket.VHost
open Casket.VHostSpec

/-! ### the path trie -/

namespace PTrie

/-- exact lookup of a non-empty path: the value stored at the node reached by `k` -/
def get : PTrie → Bytes → Option Val
  | _, [] => none
  | t, c :: k =>
    match t.find c with
    | none => none
    | some (val, ch) =>
      match k with
      | [] => val
      | _ :: _ => ch.get k

@[simp] theorem get_nil_path (t : PTrie) : t.get [] = none := by
  cases t <;> rfl

@[simp] theorem nil_get (k : Bytes) : PTrie.nil.get k = none := by
  cases k <;> simp [get, find]

theorem find_update_same (c : Nat) (f) (t : PTrie) :
    (t.update c f).find c = some (f ((t.find c).getD (none, nil)).1 ((t.find c).getD (none, nil)).2) := by
  induction t with
  | nil => simp [update, find]
  | node d val child sib _ ih =>
    by_cases h : c = d
    · subst h; simp [update, find]
    · simp [update, find, h, ih]

theorem find_update_ne {c c' : Nat} (h : c' ≠ c) (f) (t : PTrie) :
    (t.update c f).find c' = t.find c' := by
  induction t with
  | nil => simp [update, find, h]
  | node d val child sib _ ih =>
    by_cases hd : c = d
    · subst hd; simp [update, find, h]
    · by_cases hd' : c' = d
      · subst hd'; simp [update, find, hd]
      · simp [update, find, hd, hd', ih]

theorem get_ins (k : Bytes) (hk : k ≠ []) (v : Val) (t : PTrie) (k' : Bytes) :
    (t.ins k v).get k' = if k' = k then some v else t.get k' := by
  induction k generalizing t k' with
  | nil => exact absurd rfl hk
  | cons c rest ih =>
    cases rest with
    | nil =>
      -- ins [c]
      simp only [ins]
      cases k' with
      | nil => simp
      | cons c' r' =>
        by_cases hc : c' = c
        · subst hc
          simp only [get, find_update_same]
          cases r' with
          | nil => simp
          | cons d' r'' =>
            cases hf : t.find c' with
            | none => simp
            | some p => simp
        · simp only [get, find_update_ne hc]
          simp [hc]
    | cons d r =>
      simp only [ins]
      cases k' with
      | nil => simp
      | cons c' r' =>
        by_cases hc : c' = c
        · subst hc
          simp only [get, find_update_same]
          cases r' with
          | nil =>
            cases hf : t.find c' with
            | none => simp
            | some p => simp
          | cons d' r'' =>
            rw [ih (by simp)]
            cases hf : t.find c' with
            | none => simp
            | some p => simp
        · simp only [get, find_update_ne hc]
          simp [hc]

/-- `matchPath` returns the value of the longest non-empty prefix of `p` stored in the trie -/
theorem matchPath_eq (t : PTrie) (p : Bytes) (best : Option Val) :
    t.matchPath p best = ((prefixesDesc p).findSome? t.get).or best := by
  induction p generalizing t best with
  | nil => simp [matchPath, prefixesDesc]
  | cons c rest ih =>
    simp only [matchPath, prefixesDesc, List.findSome?_append, List.findSome?_map]
    cases hf : t.find c with
    | none =>
      have : List.findSome? (t.get ∘ fun x => c :: x) (prefixesDesc rest) = none := by
        rw [List.findSome?_eq_none_iff]; intro x _; simp [get, hf]
      simp [this, get, hf]
    | some pr =>
      obtain ⟨val, ch⟩ := pr
      have hcongr : List.findSome? (t.get ∘ fun x => c :: x) (prefixesDesc rest)
          = List.findSome? ch.get (prefixesDesc rest) := by
        have : ∀ l : List Bytes, (∀ x ∈ l, x ≠ []) →
            List.findSome? (t.get ∘ fun x => c :: x) l = List.findSome? ch.get l := by
          intro l hl
          induction l with
          | nil => rfl
          | cons x xs ihx =>
            have hx : x ≠ [] := hl x (by simp)
            cases x with
            | nil => exact absurd rfl hx
            | cons a as =>
              simp only [List.findSome?, Function.comp, get, hf]
              rw [ihx (fun y hy => hl y (by simp [hy]))]
        apply this
        intro x hx
        clear this ih hf
        induction rest generalizing x with
        | nil => simp [prefixesDesc] at hx
        | cons a as iha =>
          simp only [prefixesDesc, List.mem_append, List.mem_map, List.mem_singleton] at hx
          rcases hx with ⟨y, _, rfl⟩ | rfl <;> simp
      rw [hcongr]
      simp only [ih, get, hf, List.findSome?]
      cases hv : val with
      | none => simp
      | some v =>
        cases List.findSome? ch.get (prefixesDesc rest) <;> simp

end PTrie

/-! ### the root map -/

theorem rootLookup_rootInsert (r : Root) (h p : Bytes) (v : Val) (h' : Bytes) :
    rootLookup (rootInsert r h p v) h' =
      if h' = h then some (((rootLookup r h).getD .nil).ins p v) else rootLookup r h' := by
  induction r with
  | nil =>
    by_cases e : h' = h
    · subst e; simp [rootInsert, rootLookup]
    · have e' : ¬ h = h' := fun x => e x.symm
      simp [rootInsert, rootLookup, e, e']
  | cons kt rest ih =>
    obtain ⟨k, t⟩ := kt
    by_cases hk : k = h
    · subst hk
      by_cases e : h' = k
      · subst e; simp [rootInsert, rootLookup]
      · have e' : ¬ k = h' := fun x => e x.symm
        simp [rootInsert, rootLookup, e, e']
    · by_cases e : h' = h
      · subst e; simp [rootInsert, rootLookup, hk, ih]
      · by_cases hk' : k = h'
        · subst hk'; simp [rootInsert, rootLookup, hk, e]
        · simp [rootInsert, rootLookup, hk, hk', ih, e]

def valOf (e : Entry) : Val := (e.idx, e.path)

/-- one `Insert`, on entries -/
def stepE (r : Root) (e : Entry) : Root := rootInsert r e.host e.path (valOf e)

/-- the root map `r` represents the entry list `es` -/
structure Repr (r : Root) (es : List Entry) : Prop where
  decl : ∀ h, (rootLookup r h).isSome = declared es h
  look : ∀ h k, (rootLookup r h).bind (fun t => t.get k) = (lastWith es h k).map valOf

theorem repr_nil : Repr [] [] := by
  constructor <;> intros <;> simp [rootLookup, declared, lastWith]

theorem lastWith_snoc (es : List Entry) (e : Entry) (h k : Bytes) :
    lastWith (es ++ [e]) h k = if e.host = h ∧ e.path = k then some e else lastWith es h k := by
  unfold lastWith
  rw [List.reverse_append]
  simp only [List.reverse_cons, List.reverse_nil, List.nil_append, List.singleton_append, List.find?]
  by_cases c : e.host = h ∧ e.path = k
  · simp [c.1, c.2]
  · simp only [c, if_false]
    have : (e.host == h && e.path == k) = false := by
      rcases Classical.not_and_iff_not_or_not.mp c with c1 | c2
      · simp [c1]
      · simp [c2]
    simp [this]

theorem repr_step {r : Root} {es : List Entry} (hr : Repr r es) (e : Entry) (hp : e.path ≠ []) :
    Repr (stepE r e) (es ++ [e]) := by
  constructor
  · intro h
    unfold stepE
    rw [rootLookup_rootInsert]
    by_cases c : h = e.host
    · subst c; simp [declared]
    · have c' : ¬ e.host = h := fun x => c x.symm
      simp only [c, if_false, hr.decl h, declared, List.any_append, List.any_cons, List.any_nil,
        Bool.or_false]
      simp [c']
  · intro h k
    unfold stepE
    rw [rootLookup_rootInsert, lastWith_snoc]
    by_cases c : h = e.host
    · subst c
      simp only [if_true, Option.bind_some, true_and]
      rw [PTrie.get_ins _ hp]
      by_cases ck : k = e.path
      · subst ck; simp
      · have ck' : ¬ e.path = k := fun x => ck x.symm
        simp only [ck, ck', if_false]
        rw [← hr.look]
        cases rootLookup r e.host <;> simp
    · have c' : ¬ e.host = h := fun x => c x.symm
      simp only [c, c', if_false, false_and]
      exact hr.look h k

theorem repr_foldl (es : List Entry) (hp : ∀ e ∈ es, e.path ≠ []) {r : Root} {es0 : List Entry}
    (hr : Repr r es0) : Repr (es.foldl stepE r) (es0 ++ es) := by
  induction es generalizing r es0 with
  | nil => simpa using hr
  | cons e rest ih =>
    have := ih (fun x hx => hp x (by simp [hx])) (repr_step hr e (hp e (by simp)))
    simpa [List.append_assoc] using this

/-! ### host normalisation -/


theorem lowerByte_eq_iff {b c : Nat} (hc : c < 65 ∨ (90 < c ∧ c < 97) ∨ 122 < c) : lowerByte b = c ↔ b = c := by
  unfold lowerByte
  split <;> omega

theorem lowerByte_special {c : Nat} (hc : c < 65 ∨ (90 < c ∧ c < 97) ∨ 122 < c) : lowerByte c = c := by
  unfold lowerByte
  split <;> omega

theorem lowerByte_bne (c : Nat) (hc : c < 65 ∨ (90 < c ∧ c < 97) ∨ 122 < c) (b : Nat) :
    (lowerByte b != c) = (b != c) := by
  have := @lowerByte_eq_iff b c hc
  by_cases h : b = c
  · subst h; simp [lowerByte_special hc]
  · have h' : ¬ lowerByte b = c := fun x => h (this.mp x)
    rw [bne_iff_ne.mpr h, bne_iff_ne.mpr h']

theorem contains_lower (c : Nat) (hc : c < 65 ∨ (90 < c ∧ c < 97) ∨ 122 < c) (s : Bytes) :
    (lower s).contains c = s.contains c := by
  induction s with
  | nil => rfl
  | cons b rest ih =>
    simp only [lower, List.map_cons, List.contains_cons] at ih ⊢
    rw [ih]
    congr 1
    have := @lowerByte_eq_iff b c hc
    by_cases h : b = c
    · subst h; simp [lowerByte_special hc]
    · have h2 : ¬ lowerByte b = c := fun x => h (this.mp x)
      have h3 : ¬ c = lowerByte b := fun x => h2 x.symm
      have h4 : ¬ c = b := fun x => h x.symm
      rw [beq_eq_false_iff_ne.mpr h3, beq_eq_false_iff_ne.mpr h4]

theorem takeWhile_lower (c : Nat) (hc : c < 65 ∨ (90 < c ∧ c < 97) ∨ 122 < c) (s : Bytes) :
    (lower s).takeWhile (· != c) = lower (s.takeWhile (· != c)) := by
  induction s with
  | nil => rfl
  | cons b rest ih =>
    simp only [lower, List.map_cons, List.takeWhile_cons] at ih ⊢
    rw [lowerByte_bne c hc b]
    by_cases h : (b != c) = true
    · simp [h, ih]
    · simp [h]

theorem dropWhile_lower (c : Nat) (hc : c < 65 ∨ (90 < c ∧ c < 97) ∨ 122 < c) (s : Bytes) :
    (lower s).dropWhile (· != c) = lower (s.dropWhile (· != c)) := by
  induction s with
  | nil => rfl
  | cons b rest ih =>
    simp only [lower, List.map_cons, List.dropWhile_cons] at ih ⊢
    rw [lowerByte_bne c hc b]
    by_cases h : (b != c) = true
    · simp [h, ih]
    · simp [h]

theorem splitLastColon_lower (s : Bytes) :
    splitLastColon (lower s) = (splitLastColon s).map (fun ab => (lower ab.1, lower ab.2)) := by
  induction s with
  | nil => rfl
  | cons b rest ih =>
    simp only [lower, List.map_cons] at ih ⊢
    simp only [splitLastColon, ih]
    cases splitLastColon rest with
    | some ab => simp [lower]
    | none =>
      have := @lowerByte_eq_iff b cColon (by simp [cColon])
      by_cases h : b = cColon
      · subst h; simp [lowerByte_special (c := cColon) (by simp [cColon])]
      · have h' : ¬ lowerByte b = cColon := fun x => h (this.mp x)
        simp [h, h']

theorem sp_colon : cColon < 65 ∨ (90 < cColon ∧ cColon < 97) ∨ 122 < cColon := by simp [cColon]
theorem sp_lbr : cLbr < 65 ∨ (90 < cLbr ∧ cLbr < 97) ∨ 122 < cLbr := by simp [cLbr]
theorem sp_rbr : cRbr < 65 ∨ (90 < cRbr ∧ cRbr < 97) ∨ 122 < cRbr := by simp [cRbr]
theorem sp_slash : cSlash < 65 ∨ (90 < cSlash ∧ cSlash < 97) ∨ 122 < cSlash := by simp [cSlash]

theorem splitHostPort_lower (s : Bytes) : splitHostPort (lower s) = (splitHostPort s).map lower := by
  unfold splitHostPort
  rw [contains_lower _ sp_colon]
  by_cases hc : s.contains cColon = true
  · simp only [hc, Bool.not_true, Bool.false_eq_true, if_false]
    cases s with
    | nil => rfl
    | cons c rest =>
      have hl : lower (c :: rest) = lowerByte c :: lower rest := rfl
      rw [hl]
      simp only []
      simp only [lowerByte_eq_iff sp_lbr]
      by_cases hb : c = cLbr
      · simp only [hb, if_true]
        rw [dropWhile_lower _ sp_rbr]
        cases hd : List.dropWhile (fun x => x != cRbr) rest with
        | nil => rfl
        | cons x after =>
          have : lower (x :: after) = lowerByte x :: lower after := rfl
          rw [this]
          simp only []
          cases after with
          | nil => rfl
          | cons d p =>
            have : lower (d :: p) = lowerByte d :: lower p := rfl
            rw [this]
            simp only []
            rw [← this, contains_lower _ sp_colon, contains_lower _ sp_lbr, contains_lower _ sp_rbr,
              takeWhile_lower _ sp_rbr]
            simp only [lowerByte_eq_iff sp_colon]
            simp only [apply_ite (Option.map lower), Option.map_none, Option.map_some]
      · simp only [hb, if_false]
        rw [← hl, splitLastColon_lower]
        cases splitLastColon (c :: rest) with
        | none => rfl
        | some ab =>
          simp only [Option.map_some]
          rw [contains_lower _ sp_colon, contains_lower _ sp_lbr, contains_lower _ sp_rbr]
          simp only [apply_ite (Option.map lower), Option.map_none, Option.map_some]
  · simp only [hc]; rfl

theorem stripPort_lower (s : Bytes) : stripPort (lower s) = lower (stripPort s) := by
  unfold stripPort
  rw [splitHostPort_lower]
  cases splitHostPort s <;> simp

theorem stripBrackets_lower (s : Bytes) : stripBrackets (lower s) = lower (stripBrackets s) := by
  cases s with
  | nil => rfl
  | cons c rest =>
    have hl : lower (c :: rest) = lowerByte c :: lower rest := rfl
    rw [hl]
    unfold stripBrackets
    simp only []
    have e1 : (lowerByte c = cLbr) = (c = cLbr) := propext (lowerByte_eq_iff sp_lbr)
    have e2 : ((lower rest).getLast? = some cRbr) = (rest.getLast? = some cRbr) := by
      unfold lower
      rw [List.getLast?_map]
      cases rest.getLast? with
      | none => simp
      | some x => simp [lowerByte_eq_iff sp_rbr]
    simp only [e1, e2]
    by_cases h : c = cLbr ∧ rest.getLast? = some cRbr
    · simp only [h, and_self, if_true]; simp [lower]
    · simp only [h, if_false]; rfl



theorem splitLastColon_none {s : Bytes} (h : ¬ cColon ∈ s) : splitLastColon s = none := by
  induction s with
  | nil => rfl
  | cons c rest ih =>
    simp only [List.mem_cons, not_or] at h
    have hc : ¬ c = cColon := fun x => h.1 x.symm
    simp [splitLastColon, ih h.2, hc]

theorem splitLastColon_mem {s : Bytes} (h : cColon ∈ s) : ∃ a b, splitLastColon s = some (a, b) := by
  cases hs : splitLastColon s with
  | some ab => exact ⟨ab.1, ab.2, rfl⟩
  | none =>
    exfalso
    induction s with
    | nil => simp at h
    | cons c rest ih =>
      simp only [splitLastColon] at hs
      cases hr : splitLastColon rest with
      | some ab => rw [hr] at hs; cases hs
      | none =>
        rw [hr] at hs
        simp only [List.mem_cons] at h
        rcases h with h | h
        · simp [← h] at hs
        · exact ih h hr

theorem splitLastColon_some {s a b : Bytes} (h : splitLastColon s = some (a, b)) :
    s = a ++ cColon :: b ∧ ¬ cColon ∈ b := by
  induction s generalizing a b with
  | nil => simp [splitLastColon] at h
  | cons c rest ih =>
    simp only [splitLastColon] at h
    cases hr : splitLastColon rest with
    | some ab =>
      obtain ⟨a', b'⟩ := ab
      rw [hr] at h
      simp only [Option.some.injEq, Prod.mk.injEq] at h
      obtain ⟨rfl, rfl⟩ := h
      have := ih hr
      exact ⟨by rw [this.1]; simp, this.2⟩
    | none =>
      rw [hr] at h
      by_cases hc : c = cColon
      · simp only [hc, if_true, Option.some.injEq, Prod.mk.injEq] at h
        obtain ⟨rfl, rfl⟩ := h
        refine ⟨by simp [hc], ?_⟩
        intro hm
        obtain ⟨a', b', hab⟩ := splitLastColon_mem hm
        rw [hr] at hab; cases hab
      · simp [hc] at h

theorem takeWhile_ne_append {c : Nat} {a b : Bytes} (h : ¬ c ∈ a) :
    (a ++ c :: b).takeWhile (· != c) = a := by
  induction a with
  | nil => simp
  | cons x xs ih =>
    simp only [List.mem_cons, not_or] at h
    have hx : ¬ x = c := fun e => h.1 e.symm
    simp [List.takeWhile_cons, hx, ih h.2]

theorem dropWhile_ne_append {c : Nat} {a b : Bytes} (h : ¬ c ∈ a) :
    (a ++ c :: b).dropWhile (· != c) = c :: b := by
  induction a with
  | nil => simp
  | cons x xs ih =>
    simp only [List.mem_cons, not_or] at h
    have hx : ¬ x = c := fun e => h.1 e.symm
    simp [List.dropWhile_cons, hx, ih h.2]

theorem not_mem_takeWhile_ne (c : Nat) (s : Bytes) : ¬ c ∈ s.takeWhile (· != c) := by
  induction s with
  | nil => simp
  | cons x xs ih =>
    by_cases hx : x = c
    · simp [List.takeWhile_cons, hx]
    · have hx' : ¬ c = x := fun e => hx e.symm
      simp [List.takeWhile_cons, hx, hx', ih]

/-- the host as `splitHostPath` computes it from the lower-cased text before the first `/` -/
def norm2 (x : Bytes) : Bytes :=
  match splitHostPort x with
  | some y => y
  | none => stripBrackets x

theorem stripBrackets_of_not_lbr {x : Bytes} (h : x.head? ≠ some cLbr) : stripBrackets x = x := by
  cases x with
  | nil => rfl
  | cons c rest =>
    have : ¬ c = cLbr := by simpa using h
    simp [stripBrackets, this]

theorem splitHostPort_no_colon {x : Bytes} (h : ¬ cColon ∈ x) : splitHostPort x = none := by
  unfold splitHostPort
  simp [h]

theorem count_eq_zero_of_not_mem {c : Nat} {s : Bytes} (h : ¬ c ∈ s) : s.count c = 0 := by
  simpa [List.count_eq_zero] using h

/-- unbracketed spellings: both code paths agree with `normLower` -/
theorem norm_unbracketed (x : Bytes) (hl : ¬ cLbr ∈ x) (hr : ¬ cRbr ∈ x) :
    norm2 x = normLower x ∧ norm2 (stripPort x) = normLower x := by
  have hhead : x.head? ≠ some cLbr := by
    cases x with
    | nil => simp
    | cons c rest =>
      simp only [List.mem_cons, not_or] at hl
      simpa using fun e => hl.1 e.symm
  have hNL : normLower x = if x.count cColon = 1 then x.takeWhile (· != cColon) else x := by
    cases x with
    | nil => simp [normLower]
    | cons c rest =>
      simp only [List.mem_cons, not_or] at hl
      have : ¬ c = cLbr := fun e => hl.1 e.symm
      simp [normLower, this]
  by_cases hc : cColon ∈ x
  · obtain ⟨a, b, hab⟩ := splitLastColon_mem hc
    obtain ⟨hx, hb⟩ := splitLastColon_some hab
    have hcount : x.count cColon = a.count cColon + 1 := by
      rw [hx, List.count_append, List.count_cons_self, count_eq_zero_of_not_mem hb]
    have hsp : splitHostPort x = if a.contains cColon then none else some a := by
      unfold splitHostPort
      cases x with
      | nil => simp at hc
      | cons c rest =>
        simp only [List.mem_cons, not_or] at hl
        have h1 : ¬ c = cLbr := fun e => hl.1 e.symm
        have h2 : (c :: rest).contains cColon = true := by simpa using hc
        have h3 : (c :: rest).contains cLbr = false := by simpa using hl
        have h4 : (c :: rest).contains cRbr = false := by simpa using hr
        simp only [h2, Bool.not_true, Bool.false_eq_true, if_false, h1, hab, h3, h4]
    by_cases ha : cColon ∈ a
    · -- two or more colons: nothing is stripped
      have hsp' : splitHostPort x = none := by rw [hsp]; simp [ha]
      have hcnt : x.count cColon ≠ 1 := by
        have : 0 < a.count cColon := List.count_pos_iff.mpr ha
        omega
      have hn : norm2 x = x := by
        unfold norm2; rw [hsp']; exact stripBrackets_of_not_lbr hhead
      have hs : stripPort x = x := by unfold stripPort; rw [hsp']; rfl
      rw [hs, hn, hNL]; simp [hcnt]
    · -- exactly one colon: name:port
      have hsp' : splitHostPort x = some a := by rw [hsp]; simp [ha]
      have hcnt : x.count cColon = 1 := by rw [hcount, count_eq_zero_of_not_mem ha]
      have htw : x.takeWhile (· != cColon) = a := by rw [hx]; exact takeWhile_ne_append ha
      have hn : norm2 x = a := by unfold norm2; rw [hsp']
      have hs : stripPort x = a := by unfold stripPort; rw [hsp']; rfl
      have hla : ¬ cLbr ∈ a := fun h => hl (by rw [hx]; simp [h])
      have hheada : a.head? ≠ some cLbr := by
        cases a with
        | nil => simp
        | cons c rest =>
          simp only [List.mem_cons, not_or] at hla
          simpa using fun e => hla.1 e.symm
      have hn2 : norm2 a = a := by
        unfold norm2; rw [splitHostPort_no_colon ha]; exact stripBrackets_of_not_lbr hheada
      rw [hs, hn, hn2, hNL]; simp [hcnt, htw]
  · have hsp' : splitHostPort x = none := splitHostPort_no_colon hc
    have hn : norm2 x = x := by unfold norm2; rw [hsp']; exact stripBrackets_of_not_lbr hhead
    have hs : stripPort x = x := by unfold stripPort; rw [hsp']; rfl
    rw [hs, hn, hNL]; simp [count_eq_zero_of_not_mem hc]

theorem dropWhile_head_false {p : Nat → Bool} {l : Bytes} {y : Nat} {t : Bytes}
    (h : l.dropWhile p = y :: t) : p y = false := by
  induction l with
  | nil => simp at h
  | cons a as ih =>
    simp only [List.dropWhile_cons] at h
    by_cases ha : p a = true
    · simp only [ha, if_true] at h; exact ih h
    · simp only [ha] at h
      simp only [Bool.false_eq_true, if_false, List.cons.injEq] at h
      rw [← h.1]; simpa using ha

theorem normLower_unbracketed_noop {v : Bytes} (hl : ¬ cLbr ∈ v) (hc : v.count cColon ≠ 1) : normLower v = v := by
  cases v with
  | nil => rfl
  | cons c rest =>
    simp only [List.mem_cons, not_or] at hl
    have : ¬ c = cLbr := fun e => hl.1 e.symm
    simp [normLower, this, hc]

theorem norm_wf (x : Bytes) (hw : wfHost x = true) :
    norm2 x = normLower x ∧ norm2 (stripPort x) = normLower x := by
  unfold wfHost at hw
  simp only [Bool.and_eq_true] at hw
  obtain ⟨_, hw⟩ := hw
  cases x with
  | nil => exact norm_unbracketed [] (by simp) (by simp)
  | cons c rest =>
    simp only [] at hw
    by_cases hb : c = cLbr
    · subst hb
      simp only [if_true, Bool.and_eq_true, Bool.not_eq_true', bne_iff_ne, ne_eq] at hw
      obtain ⟨⟨hvl, hvc⟩, hd⟩ := hw
      have hvl' : ¬ cLbr ∈ rest.takeWhile (· != cRbr) := by simpa using hvl
      have hvr : ¬ cRbr ∈ rest.takeWhile (· != cRbr) := not_mem_takeWhile_ne cRbr rest
      have hNL : normLower (cLbr :: rest) = rest.takeWhile (· != cRbr) := by simp [normLower]
      cases hdw : rest.dropWhile (· != cRbr) with
      | nil => rw [hdw] at hd; simp at hd
      | cons y after =>
        rw [hdw] at hd
        simp only [] at hd
        have hy : y = cRbr := by
          have := dropWhile_head_false hdw
          simpa using this
        subst hy
        have hrest : rest = rest.takeWhile (· != cRbr) ++ cRbr :: after := by
          have := @List.takeWhile_append_dropWhile _ (· != cRbr) rest
          rw [hdw] at this; exact this.symm
        cases after with
        | nil =>
          have hsp : splitHostPort (cLbr :: rest) = none := by
            unfold splitHostPort
            by_cases hc : (cLbr :: rest).contains cColon = true
            · simp only [hc, Bool.not_true, Bool.false_eq_true, if_false, if_true, hdw]
            · have hc' : (cLbr :: rest).contains cColon = false := by simpa using hc
              simp only [hc', Bool.not_false, if_true]
          have hsb : stripBrackets (cLbr :: rest) = rest.takeWhile (· != cRbr) := by
            unfold stripBrackets
            have h1 : rest.getLast? = some cRbr := by rw [hrest]; simp
            have h2 : rest.dropLast = rest.takeWhile (· != cRbr) := by
              conv => lhs; rw [hrest]
              simp
            simp [h1, h2]
          have hn : norm2 (cLbr :: rest) = rest.takeWhile (· != cRbr) := by
            unfold norm2; rw [hsp]; exact hsb
          have hs : stripPort (cLbr :: rest) = cLbr :: rest := by unfold stripPort; rw [hsp]; rfl
          rw [hs, hn, hNL]; exact ⟨rfl, rfl⟩
        | cons d p =>
          simp only [Bool.and_eq_true, decide_eq_true_eq, Bool.not_eq_true'] at hd
          obtain ⟨⟨⟨hdc, hpc⟩, hpl⟩, hpr⟩ := hd
          subst hdc
          have hpc' : ¬ cColon ∈ p := by simpa using hpc
          have hpl' : ¬ cLbr ∈ p := by simpa using hpl
          have hpr' : ¬ cRbr ∈ p := by simpa using hpr
          have hsp : splitHostPort (cLbr :: rest) = some (rest.takeWhile (· != cRbr)) := by
            unfold splitHostPort
            have hc : (cLbr :: rest).contains cColon = true := by
              rw [hrest]; simp
            have h1 : rest.contains cLbr = false := by
              rw [hrest]
              simp only [List.contains_eq_mem, List.mem_append, List.mem_cons, decide_eq_false_iff_not]
              intro h
              rcases h with h | h | h | h
              · exact hvl' h
              · simp [cLbr, cRbr] at h
              · simp [cLbr, cColon] at h
              · exact hpl' h
            have h2 : (cColon :: p).contains cRbr = false := by
              simp only [List.contains_eq_mem, List.mem_cons, decide_eq_false_iff_not]
              intro h
              rcases h with h | h
              · simp [cRbr, cColon] at h
              · exact hpr' h
            simp only [hc, Bool.not_true, Bool.false_eq_true, if_false, if_true, hdw, hpc,
              Bool.not_false, and_self, h1, h2]
          have hn : norm2 (cLbr :: rest) = rest.takeWhile (· != cRbr) := by
            unfold norm2; rw [hsp]
          have hs : stripPort (cLbr :: rest) = rest.takeWhile (· != cRbr) := by
            unfold stripPort; rw [hsp]; rfl
          have hv := norm_unbracketed (rest.takeWhile (· != cRbr)) hvl' hvr
          rw [hs, hn, hNL, hv.1, normLower_unbracketed_noop hvl' hvc]
          exact ⟨rfl, rfl⟩
    · simp only [hb, if_false, Bool.and_eq_true, Bool.not_eq_true'] at hw
      exact norm_unbracketed _ (by simpa using hw.1) (by simpa using hw.2)


/-! ### `Match` against the entry list -/

theorem findSome?_flatMap' {α β γ : Type} (l : List α) (f : α → List β) (g : β → Option γ) :
    (l.flatMap f).findSome? g = l.findSome? (fun x => (f x).findSome? g) := by
  induction l with
  | nil => rfl
  | cons x xs ih =>
    simp only [List.flatMap_cons, List.findSome?_append, List.findSome?, ih]
    cases (f x).findSome? g <;> simp

theorem findSome?_eq_find?_bind {α β : Type} (l : List α) (g : α → Option β) :
    l.findSome? g = (l.find? (fun x => (g x).isSome)).bind g := by
  induction l with
  | nil => rfl
  | cons x xs ih =>
    simp only [List.findSome?, List.find?]
    cases h : g x with
    | none => simp [ih]
    | some y => simp [h]

theorem findSome?_map_opt {α β γ : Type} (l : List α) (g : α → Option β) (f : β → γ) :
    l.findSome? (fun x => (g x).map f) = (l.findSome? g).map f := by
  induction l with
  | nil => rfl
  | cons x xs ih =>
    simp only [List.findSome?]
    cases g x <;> simp [ih]

/-- `Match` computed on the entry list the root map represents -/
def matchSpec (es : List Entry) (fbs : List Bytes) (host path : Bytes) : Option Val :=
  match (candidates host fbs).find? (declared es) with
  | none => none
  | some c => ((prefixesDesc path).findSome? (lastWith es c)).map valOf

theorem match_eq {t : Trie} {es : List Entry} (hr : Repr t.root es) (key : Bytes) :
    t.match_ key = matchSpec es t.fallbacks (splitHostPath key).1 (splitHostPath key).2 := by
  unfold Trie.match_ matchSpec candidates
  have h1 : (((splitHostPath key).1 :: t.fallbacks).findSome? (matchHost t.root))
      = ((((splitHostPath key).1 :: t.fallbacks).flatMap hostCands).find? (declared es)).bind (rootLookup t.root) := by
    have : (fun x => (hostCands x).findSome? (rootLookup t.root)) = matchHost t.root := by
      funext x; rfl
    rw [← this, ← findSome?_flatMap', findSome?_eq_find?_bind]
    congr 2
    funext x
    exact hr.decl x
  simp only [] at h1 ⊢
  rw [h1]
  cases hc : List.find? (declared es) (((splitHostPath key).1 :: t.fallbacks).flatMap hostCands) with
  | none => simp
  | some c =>
    simp only [Option.bind_some]
    have hd : declared es c = true := by
      have := List.find?_some hc
      exact this
    cases hb : rootLookup t.root c with
    | none =>
      have := hr.decl c
      rw [hb, hd] at this
      simp at this
    | some branch =>
      simp only []
      rw [PTrie.matchPath_eq]
      simp only [Option.or_none]
      have : branch.get = fun k => (lastWith es c k).map valOf := by
        funext k
        have := hr.look c k
        rw [hb] at this
        simpa using this
      rw [this, findSome?_map_opt]

/-! ### the model's own entry list -/

def mEntry (s : Site) (i : Nat) : Entry :=
  ⟨(splitHostPath (vhostOf s.key)).1, (splitHostPath (vhostOf s.key)).2, i⟩

def mEntries : List Site → Nat → List Entry
  | [], _ => []
  | s :: rest, i => mEntry s i :: mEntries rest (i + 1)

theorem insertAll_root (t : Trie) (sites : List Site) (i : Nat) :
    (insertAll t sites i).root = (mEntries sites i).foldl stepE t.root ∧
    (insertAll t sites i).fallbacks = t.fallbacks := by
  induction sites generalizing t i with
  | nil => exact ⟨rfl, rfl⟩
  | cons s rest ih =>
    simp only [insertAll, mEntries, List.foldl]
    have := ih (t.insert (vhostOf s.key) i) (i + 1)
    exact ⟨this.1, this.2⟩

theorem mEntries_path_ne (sites : List Site) (i : Nat) : ∀ e ∈ mEntries sites i, e.path ≠ [] := by
  induction sites generalizing i with
  | nil => intro e he; simp [mEntries] at he
  | cons s rest ih =>
    intro e he
    simp only [mEntries, List.mem_cons] at he
    rcases he with rfl | he
    · simp [mEntry, splitHostPath]
    · exact ih _ e he

theorem newServer_repr (sites : List Site) : Repr (newServer sites).root (mEntries sites 0) := by
  unfold newServer
  rw [(insertAll_root _ sites 0).1]
  have := repr_foldl (mEntries sites 0) (mEntries_path_ne sites 0) repr_nil
  simpa using this

theorem newServer_fallbacks (sites : List Site) :
    (newServer sites).fallbacks = defaultFallbacks ++ (sites.filter (·.fallback)).map (·.addrHost) := by
  unfold newServer
  rw [(insertAll_root _ sites 0).2]


/-! ### the request key -/

theorem splitHostPort_subset {s y : Bytes} (h : splitHostPort s = some y) : ∀ c, c ∈ y → c ∈ s := by
  unfold splitHostPort at h
  by_cases hc : s.contains cColon = true
  · simp only [hc, Bool.not_true, Bool.false_eq_true, if_false] at h
    cases s with
    | nil => simp at h
    | cons c0 rest =>
      simp only [] at h
      by_cases hb : c0 = cLbr
      · simp only [hb, if_true] at h
        split at h
        · simp at h
        · split at h
          · simp at h
          · split at h
            · split at h
              · simp at h
              · split at h
                · simp at h
                · simp only [Option.some.injEq] at h
                  subst h
                  intro c hm
                  exact List.mem_cons_of_mem _ ((List.takeWhile_sublist _).subset hm)
            · simp at h
      · simp only [hb, if_false] at h
        cases hs : splitLastColon (c0 :: rest) with
        | none => rw [hs] at h; simp at h
        | some ab =>
          obtain ⟨a, b⟩ := ab
          rw [hs] at h
          simp only [] at h
          split at h
          · simp at h
          · split at h
            · simp at h
            · split at h
              · simp at h
              · simp only [Option.some.injEq] at h
                subst h
                intro c hm
                rw [(splitLastColon_some hs).1]
                simp [hm]
  · have hc' : s.contains cColon = false := by simpa using hc
    simp only [hc', Bool.not_false, if_true] at h
    cases h

theorem stripPort_no_slash {h : Bytes} (hs : ¬ cSlash ∈ h) : ¬ cSlash ∈ stripPort h := by
  unfold stripPort
  cases hsp : splitHostPort h with
  | none => simpa using hs
  | some y => exact fun hm => hs (splitHostPort_subset hsp _ hm)

theorem splitHostPath_eq (key : Bytes) :
    splitHostPath key = (norm2 (lower (keyHost key)), keyPath key) := by
  unfold splitHostPath norm2 keyHost keyPath
  rfl

theorem splitHostPath_request {h p : Bytes} (hs : ¬ cSlash ∈ h) (hp : p.head? = some cSlash) :
    splitHostPath (h ++ p) = (norm2 (lower h), p) := by
  cases p with
  | nil => simp at hp
  | cons c p' =>
    have : c = cSlash := by simpa using hp
    subst this
    rw [splitHostPath_eq]
    unfold keyHost keyPath
    rw [takeWhile_ne_append hs, dropWhile_ne_append hs]
    rfl

theorem mEntries_eq_entries (sites : List Site) (i : Nat)
    (hw : sites.all (fun s => wfHost (lower (keyHost (vhostOf s.key)))) = true) :
    mEntries sites i = entriesFrom sites i := by
  induction sites generalizing i with
  | nil => rfl
  | cons s rest ih =>
    simp only [List.all_cons, Bool.and_eq_true] at hw
    simp only [mEntries, entriesFrom, ih _ hw.2]
    congr 1
    unfold mEntry
    rw [splitHostPath_eq]
    simp only [normHost, (norm_wf _ hw.1).1]

/-- the trie model computes the specification on its domain -/
theorem route_eq_spec (sites : List Site) (r : Req) (hd : inDomain sites r = true) :
    route sites r = specRoute sites r := by
  unfold inDomain at hd
  simp only [Bool.and_eq_true] at hd
  obtain ⟨⟨hwf, hpath⟩, hsites⟩ := hd
  have hpath' : r.path.head? = some cSlash := by simpa using hpath
  have hslash : ¬ cSlash ∈ r.host := by
    have : (lower r.host).contains cSlash = false := by
      unfold wfHost at hwf
      simp only [Bool.and_eq_true, Bool.not_eq_true'] at hwf
      exact hwf.1
    rw [contains_lower _ sp_slash] at this
    simpa using this
  have hkey : splitHostPath (stripPort r.host ++ r.path) = (normHost r.host, r.path) := by
    rw [splitHostPath_request (stripPort_no_slash hslash) hpath', ← stripPort_lower]
    simp only [normHost, (norm_wf _ hwf).2]
  unfold route specRoute
  simp only []
  rw [match_eq (newServer_repr sites), hkey, newServer_fallbacks]
  unfold matchSpec entries fallbacks
  rw [mEntries_eq_entries sites 0 hsites]
  have hfb : defaultFallbacks = catchAll := rfl
  rw [hfb]
  simp only []
  cases List.find? (declared (entriesFrom sites 0))
      (candidates (normHost r.host) (catchAll ++ List.map (fun x => x.addrHost) (List.filter (fun x => x.fallback) sites))) with
  | none => rfl
  | some c =>
    simp only []
    cases List.findSome? (lastWith (entriesFrom sites 0) c) (prefixesDesc r.path) with
    | none => rfl
    | some e => rfl


/-! ### declaration order -/

/-- the address of a site as the specification reads it -/
def keyOf (s : Site) : Bytes × Bytes :=
  (normHost (keyHost (vhostOf s.key)), keyPath (vhostOf s.key))

theorem entriesFrom_any (sites : List Site) (i : Nat) (f : Bytes → Bytes → Bool) :
    (entriesFrom sites i).any (fun e => f e.host e.path) = sites.any (fun s => f (keyOf s).1 (keyOf s).2) := by
  induction sites generalizing i with
  | nil => rfl
  | cons s rest ih => simp only [entriesFrom, List.any_cons, ih, keyOf]

theorem chosenKey_perm {sites sites' : List Site} (r : Req) (hp : sites.Perm sites')
    (hfb : fallbacks sites = fallbacks sites') : chosenKey sites r = chosenKey sites' r := by
  unfold chosenKey entries
  have h1 : declared (entriesFrom sites 0) = declared (entriesFrom sites' 0) := by
    funext h
    unfold declared
    rw [entriesFrom_any sites 0 (fun a _ => a == h), entriesFrom_any sites' 0 (fun a _ => a == h)]
    exact hp.any_eq
  have h2 : ∀ c k, (entriesFrom sites 0).any (fun e => e.host == c && e.path == k)
      = (entriesFrom sites' 0).any (fun e => e.host == c && e.path == k) := by
    intro c k
    rw [entriesFrom_any sites 0 (fun a b => a == c && b == k), entriesFrom_any sites' 0 (fun a b => a == c && b == k)]
    exact hp.any_eq
  simp only [h1, hfb, h2]

theorem chosenKeyWith_perm {sites sites' : List Site} (fbs : List Bytes) (r : Req) (hp : sites.Perm sites') :
    chosenKeyWith fbs sites r = chosenKeyWith fbs sites' r := by
  unfold chosenKeyWith entries
  have h1 : declared (entriesFrom sites 0) = declared (entriesFrom sites' 0) := by
    funext h
    unfold declared
    rw [entriesFrom_any sites 0 (fun a _ => a == h), entriesFrom_any sites' 0 (fun a _ => a == h)]
    exact hp.any_eq
  have h2 : ∀ c k, (entriesFrom sites 0).any (fun e => e.host == c && e.path == k)
      = (entriesFrom sites' 0).any (fun e => e.host == c && e.path == k) := by
    intro c k
    rw [entriesFrom_any sites 0 (fun a b => a == c && b == k), entriesFrom_any sites' 0 (fun a b => a == c && b == k)]
    exact hp.any_eq
  simp only [h1, h2]

theorem chosenKey_eq_with (sites : List Site) (r : Req) :
    chosenKey sites r = chosenKeyWith (fallbacks sites) sites r := rfl

theorem fallbacks_perm_of_none {sites sites' : List Site} (hp : sites.Perm sites')
    (hn : sites.all (fun s => !s.fallback) = true) : fallbacks sites = fallbacks sites' := by
  have e1 : sites.filter (·.fallback) = [] := by
    rw [List.filter_eq_nil_iff]
    intro s hs
    have := List.all_eq_true.mp hn s hs
    simpa using this
  have e2 : sites'.filter (·.fallback) = [] := by
    have := (hp.filter (·.fallback))
    rw [e1] at this
    exact List.nil_perm.mp this
  unfold fallbacks
  rw [e1, e2]


/-! ### characterising the specification -/

theorem lastWith_isSome (es : List Entry) (c k : Bytes) :
    (lastWith es c k).isSome = es.any (fun e => e.host == c && e.path == k) := by
  unfold lastWith
  rw [List.isSome_find?, List.any_reverse]

theorem lastWith_some {es : List Entry} {c k : Bytes} {e : Entry} (h : lastWith es c k = some e) :
    e ∈ es ∧ e.host = c ∧ e.path = k := by
  unfold lastWith at h
  have h1 := List.mem_of_find?_eq_some h
  have h2 := List.find?_some h
  simp only [Bool.and_eq_true, beq_iff_eq] at h2
  exact ⟨by simpa using h1, h2.1, h2.2⟩

theorem mem_prefixesDesc {k p : Bytes} : k ∈ prefixesDesc p ↔ k ≠ [] ∧ k <+: p := by
  induction p generalizing k with
  | nil => simp [prefixesDesc]
  | cons c rest ih =>
    simp only [prefixesDesc, List.mem_append, List.mem_map, List.mem_singleton]
    constructor
    · rintro (⟨x, hx, rfl⟩ | rfl)
      · exact ⟨by simp, by simpa using (ih.mp hx).2⟩
      · exact ⟨by simp, by simp⟩
    · rintro ⟨hne, hpre⟩
      cases k with
      | nil => exact absurd rfl hne
      | cons a as =>
        rw [List.cons_prefix_cons] at hpre
        obtain ⟨rfl, hpre⟩ := hpre
        cases as with
        | nil => right; rfl
        | cons b bs => left; exact ⟨b :: bs, ih.mpr ⟨by simp, hpre⟩, rfl⟩

theorem prefixesDesc_pairwise (p : Bytes) :
    List.Pairwise (fun a b : Bytes => b.length < a.length) (prefixesDesc p) := by
  induction p with
  | nil => simp [prefixesDesc]
  | cons c rest ih =>
    simp only [prefixesDesc]
    rw [List.pairwise_append]
    refine ⟨?_, by simp, ?_⟩
    · rw [List.pairwise_map]
      exact ih.imp (by intro a b h; simpa using h)
    · intro a ha b hb
      simp only [List.mem_map] at ha
      simp only [List.mem_singleton] at hb
      obtain ⟨x, hx, rfl⟩ := ha
      subst hb
      have : x ≠ [] := (mem_prefixesDesc.mp hx).1
      cases x with
      | nil => exact absurd rfl this
      | cons y ys => simp

theorem entriesFrom_path_head (sites : List Site) (i : Nat) :
    ∀ e ∈ entriesFrom sites i, e.path.head? = some cSlash := by
  induction sites generalizing i with
  | nil => intro e he; simp [entriesFrom] at he
  | cons s rest ih =>
    intro e he
    simp only [entriesFrom, List.mem_cons] at he
    rcases he with rfl | he
    · simp [keyPath]
    · exact ih _ e he

theorem normLower_of_head {x : Bytes} (h : x.head? ≠ some cLbr) :
    normLower x = if x.count cColon = 1 then x.takeWhile (· != cColon) else x := by
  cases x with
  | nil => simp [normLower]
  | cons c rest =>
    have : ¬ c = cLbr := by simpa using h
    simp [normLower, this]

theorem not_mem_lower {c : Nat} (hc : c < 65 ∨ (90 < c ∧ c < 97) ∨ 122 < c) {s : Bytes} (h : ¬ c ∈ s) :
    ¬ c ∈ lower s := by
  have := contains_lower c hc s
  intro hm
  have h1 : (lower s).contains c = true := by simpa using hm
  rw [this] at h1
  exact h (by simpa using h1)

/-- a clean name (no colon, not starting with `[`) normalises to its lower case … -/
theorem normHost_name {n : Bytes} (hc : ¬ cColon ∈ n) (hb : n.head? ≠ some cLbr) : normHost n = lower n := by
  unfold normHost
  have hb' : (lower n).head? ≠ some cLbr := by
    cases n with
    | nil => simp [lower]
    | cons a as =>
      have : ¬ a = cLbr := by simpa using hb
      simp only [lower, List.map_cons, List.head?_cons, ne_eq, Option.some.injEq]
      exact fun e => this ((lowerByte_eq_iff sp_lbr).mp e)
  rw [normLower_of_head hb', count_eq_zero_of_not_mem (not_mem_lower sp_colon hc)]
  simp

/-- … and so does the name followed by `:port` -/
theorem normHost_name_port {n port : Bytes} (hc : ¬ cColon ∈ n) (hb : n.head? ≠ some cLbr)
    (hp : ¬ cColon ∈ port) : normHost (n ++ cColon :: port) = lower n := by
  unfold normHost
  have hl : lower (n ++ cColon :: port) = lower n ++ cColon :: lower port := by
    simp [lower, lowerByte_special sp_colon]
  rw [hl]
  have hb' : (lower n ++ cColon :: lower port).head? ≠ some cLbr := by
    cases n with
    | nil => simp [lower, cColon, cLbr]
    | cons a as =>
      have : ¬ a = cLbr := by simpa using hb
      simp only [lower, List.map_cons, List.cons_append, List.head?_cons, ne_eq, Option.some.injEq]
      exact fun e => this ((lowerByte_eq_iff sp_lbr).mp e)
  have hcnt : (lower n ++ cColon :: lower port).count cColon = 1 := by
    rw [List.count_append, List.count_cons_self, count_eq_zero_of_not_mem (not_mem_lower sp_colon hc),
      count_eq_zero_of_not_mem (not_mem_lower sp_colon hp)]
  rw [normLower_of_head hb', hcnt]
  simp only [if_true]
  exact takeWhile_ne_append (not_mem_lower sp_colon hc)


theorem spec_site_key (sites : List Site) (r : Req) (i : Nat) (p : Bytes)
    (h : specRoute sites r = .site i p) :
    ∃ e ∈ entries sites, e.idx = i ∧ e.path = p ∧ chosenKey sites r = some (e.host, p) := by
  unfold specRoute at h
  simp only [] at h
  unfold chosenKey
  simp only []
  cases hc : List.find? (declared (entries sites)) (candidates (normHost r.host) (fallbacks sites)) with
  | none => rw [hc] at h; cases h
  | some c =>
    rw [hc] at h
    simp only [] at h ⊢
    rw [findSome?_eq_find?_bind] at h
    have hpred : (fun k => (lastWith (entries sites) c k).isSome)
        = (fun k => (entries sites).any (fun e => e.host == c && e.path == k)) := by
      funext k; exact lastWith_isSome _ _ _
    rw [hpred] at h
    cases hk : List.find? (fun k => (entries sites).any (fun e => e.host == c && e.path == k)) (prefixesDesc r.path) with
    | none => rw [hk] at h; cases h
    | some k =>
      rw [hk] at h
      simp only [Option.bind_some] at h
      cases he : lastWith (entries sites) c k with
      | none => rw [he] at h; cases h
      | some e =>
        rw [he] at h
        simp only [Outcome.site.injEq] at h
        obtain ⟨hm, hh, hp⟩ := lastWith_some he
        refine ⟨e, hm, h.1, h.2, ?_⟩
        simp [hh, ← h.2, hp]

end Casket.VHost
