import Casket.Spec.FileServeSeq
import Casket.Proofs.FileServe
/-
C02 over a sequence of file-system states.  The single-request theorems quantify over EVERY
file-system table, so they hold in each state a script reaches; what has to be proved here is only
that the one hypothesis about the file system ("the site root is a directory") survives the
modelled changes, and that the sequence judge is the single-request judge applied state by state.
-/
namespace Casket.FileServeSeqProofs
open Casket.Path Casket.FS Casket.FileServe Casket.FileServeSeq Casket.FileServeSpec
open Casket.FileServeSeqSpec Casket.FileServeProofs

/-- the site root exists and is a directory -/
def RootDir (fs : FS) (site : Site) : Prop := ∃ e, stat fs site.root = some e ∧ e.isDir = true

theorem RootDir.rootIsDir {fs : FS} {site : Site} (h : RootDir fs site) : RootIsDir fs site := by
  intro e he
  obtain ⟨e', he', hd⟩ := h
  rw [he'] at he
  cases he
  exact hd

theorem find_unlink {fs : FS} {r p : List Bytes} {e : Entry}
    (h : fs.find? (fun x => x.path = r) = some e) (hd : e.isDir = true) :
    (unlink fs p).find? (fun x => x.path = r) = some e := by
  induction fs with
  | nil => simp at h
  | cons a l ih =>
    by_cases har : a.path = r
    · have hae : a = e := by simpa [List.find?, har] using h
      subst hae
      simp [unlink, List.filter, hd, har]
    · have hl : l.find? (fun x => x.path = r) = some e := by simpa [List.find?, har] using h
      have ih' := ih hl
      unfold unlink at ih' ⊢
      rw [List.filter_cons]
      split
      · rw [List.find?_cons]
        simp only [har, decide_false]
        exact ih'
      · exact ih'

theorem stat_unlink {fs : FS} {r p : List Bytes} {e : Entry}
    (h : stat fs r = some e) (hd : e.isDir = true) : stat (unlink fs p) r = some e := by
  unfold stat at h ⊢
  by_cases hr : r = []
  · simpa [hr] using h
  · simp only [hr, if_false] at h ⊢
    exact find_unlink h hd

theorem stat_rebind {fs : FS} {r p : List Bytes} {e : Entry} (ino : Nat)
    (h : stat fs r = some e) (hd : e.isDir = true) :
    stat (unlink fs p ++ [{ path := p, isDir := false, ino := ino }]) r = some e := by
  have h1 := stat_unlink (p := p) h hd
  unfold stat at h1 ⊢
  by_cases hr : r = []
  · simpa [hr] using h1
  · simp only [hr, if_false] at h1 ⊢
    rw [List.find?_append, h1]
    rfl

theorem rootDir_rebind {fs : FS} {site : Site} (p : List Bytes) (ino : Nat) (h : RootDir fs site) :
    RootDir (if bindable fs p then unlink fs p ++ [{ path := p, isDir := false, ino := ino }] else fs) site := by
  obtain ⟨e, he, hd⟩ := h
  by_cases hb : bindable fs p = true
  · rw [if_pos hb]; exact ⟨e, stat_rebind ino he hd, hd⟩
  · rw [if_neg hb]; exact ⟨e, he, hd⟩

theorem rootDir_applyStep {fs : FS} {site : Site} (s : Step) (h : RootDir fs site) :
    RootDir (applyStep fs s) site := by
  cases s with
  | get m t ae => exact h
  | write p ino => exact rootDir_rebind p ino h
  | remove p =>
    obtain ⟨e, he, hd⟩ := h
    exact ⟨e, stat_unlink he hd, hd⟩
  | link p q =>
    show RootDir (match fs.find? (fun e => decide (e.path = q) && !e.isDir) with
      | some t => if bindable fs p then unlink fs p ++ [{ path := p, isDir := false, ino := t.ino }] else fs
      | none => fs) site
    cases fs.find? (fun e => decide (e.path = q) && !e.isDir) with
    | none => exact h
    | some t => exact rootDir_rebind p t.ino h

/-- every state a script goes through has the site root as a directory -/
theorem rootDir_states {site : Site} (steps : List Step) (fs : FS) (h : RootDir fs site) :
    ∀ fs' ∈ states fs steps, RootDir fs' site := by
  induction steps generalizing fs with
  | nil => intro fs' hm; simp [states] at hm; subst hm; exact h
  | cons s rest ih =>
    intro fs' hm
    simp only [states, List.mem_cons] at hm
    rcases hm with rfl | hm
    · exact h
    · exact ih _ (rootDir_applyStep s h) fs' hm

/-- The sequence model passes the sequence judge: each answer is `serve` on the state of its
moment, and `serve_verdict_ok` holds for every state. -/
theorem run_verdict_ok (site : Site) (steps : List Step) (fs : FS) (n : Nat)
    (hroot : NormalSegs site.root) (hp : NormalPrefix site.pathPrefix) (hrd : RootDir fs site) :
    verdictSeq site n fs steps (run site fs steps) = "ok" := by
  induction steps generalizing fs n with
  | nil => rfl
  | cons s rest ih =>
    cases s with
    | get m t ae =>
      have hv := serve_verdict_ok fs site m t ae hroot hp hrd.rootIsDir
      simp only [run, verdictSeq, hv, if_true]
      exact ih fs (n + 1) hrd
    | write p ino => simp only [run, verdictSeq]; exact ih _ n (rootDir_applyStep _ hrd)
    | remove p => simp only [run, verdictSeq]; exact ih _ n (rootDir_applyStep _ hrd)
    | link p q => simp only [run, verdictSeq]; exact ih _ n (rootDir_applyStep _ hrd)

/-- the answers of a script are, one by one, the single-request model's answers on the states
of their moments: request `k` of the script is answered by `serve` on some state of `states` -/
theorem run_mem_states (site : Site) (steps : List Step) (fs : FS) :
    ∀ r ∈ run site fs steps, ∃ fs' ∈ states fs steps, ∃ m t ae, Step.get m t ae ∈ steps ∧ r = serve fs' site m t ae := by
  induction steps generalizing fs with
  | nil => intro r hr; simp [run] at hr
  | cons s rest ih =>
    intro r hr
    cases s with
    | get m t ae =>
      simp only [run, List.mem_cons] at hr
      rcases hr with rfl | hr
      · exact ⟨fs, by simp [states], m, t, ae, by simp, rfl⟩
      · obtain ⟨fs', hf, m', t', ae', hm, hr'⟩ := ih fs r hr
        exact ⟨fs', by simp only [states, applyStep] at hf ⊢; exact List.mem_cons_of_mem _ hf, m', t', ae', List.mem_cons_of_mem _ hm, hr'⟩
    | write p ino =>
      simp only [run] at hr
      obtain ⟨fs', hf, m', t', ae', hm, hr'⟩ := ih _ r hr
      exact ⟨fs', by simp only [states]; exact List.mem_cons_of_mem _ hf, m', t', ae', List.mem_cons_of_mem _ hm, hr'⟩
    | remove p =>
      simp only [run] at hr
      obtain ⟨fs', hf, m', t', ae', hm, hr'⟩ := ih _ r hr
      exact ⟨fs', by simp only [states]; exact List.mem_cons_of_mem _ hf, m', t', ae', List.mem_cons_of_mem _ hm, hr'⟩
    | link p q =>
      simp only [run] at hr
      obtain ⟨fs', hf, m', t', ae', hm, hr'⟩ := ih _ r hr
      exact ⟨fs', by simp only [states]; exact List.mem_cons_of_mem _ hf, m', t', ae', List.mem_cons_of_mem _ hm, hr'⟩

end Casket.FileServeSeqProofs
