import Casket.Model.Replacer
import Casket.Spec.Replacer
/-
Helper lemmas for C20 (placeholder expansion).
-/
namespace Casket.Replacer
open Casket.ReplacerSpec

/-! ### splitUnesc -/

theorem splitUnesc_length {c : UInt8} : ∀ {s : Bytes} {p : Bool} {a b : Bytes},
    splitUnesc c p s = some (a, b) → a.length + 1 + b.length = s.length := by
  intro s
  induction s with
  | nil => intro p a b h; simp [splitUnesc] at h
  | cons x rest ih =>
    intro p a b h
    unfold splitUnesc at h
    by_cases hx : x = c ∧ p = false
    · simp only [hx, and_self, if_true] at h
      cases h
      simp only [List.length_nil, List.length_cons]
      omega
    · simp only [hx, if_false] at h
      cases hr : splitUnesc c (x == bsl) rest with
      | none => simp [hr] at h
      | some ab =>
        obtain ⟨a', b'⟩ := ab
        simp only [hr] at h
        cases h
        have := ih hr
        simp only [List.length_cons]
        omega

/-- last byte is a backslash; for the empty string, whether the byte in front of it is one -/
def endsBsl : Bool → Bytes → Bool
  | p, [] => p
  | _, x :: rest => endsBsl (x == bsl) rest

theorem endsBsl_append_singleton (p : Bool) (s : Bytes) (x : UInt8) :
    endsBsl p (s ++ [x]) = (x == bsl) := by
  induction s generalizing p with
  | nil => simp [endsBsl]
  | cons y rest ih => simp [endsBsl, ih]

/-- the byte in front of the split point is not a backslash -/
theorem splitUnesc_pre {c : UInt8} : ∀ {s : Bytes} {p : Bool} {a b : Bytes},
    splitUnesc c p s = some (a, b) → endsBsl p a = false := by
  intro s
  induction s with
  | nil => intro p a b h; simp [splitUnesc] at h
  | cons x rest ih =>
    intro p a b h
    unfold splitUnesc at h
    by_cases hx : x = c ∧ p = false
    · simp only [hx, and_self, if_true] at h
      cases h
      simp [endsBsl, hx.2]
    · simp only [hx, if_false] at h
      cases hr : splitUnesc c (x == bsl) rest with
      | none => simp [hr] at h
      | some ab =>
        obtain ⟨a', b'⟩ := ab
        simp only [hr] at h
        cases h
        simpa [endsBsl] using ih hr

/-- the split is at a `c`: the string is `a ++ c :: b` -/
theorem splitUnesc_eq {c : UInt8} : ∀ {s : Bytes} {p : Bool} {a b : Bytes},
    splitUnesc c p s = some (a, b) → s = a ++ c :: b := by
  intro s
  induction s with
  | nil => intro p a b h; simp [splitUnesc] at h
  | cons x rest ih =>
    intro p a b h
    unfold splitUnesc at h
    by_cases hx : x = c ∧ p = false
    · simp only [hx, and_self, if_true] at h
      cases h
      simp [hx.1]
    · simp only [hx, if_false] at h
      cases hr : splitUnesc c (x == bsl) rest with
      | none => simp [hr] at h
      | some ab =>
        obtain ⟨a', b'⟩ := ab
        simp only [hr] at h
        cases h
        simp [ih hr]

/-- a string without `c` in front of an unescaped `c` splits exactly there -/
theorem splitUnesc_append {c : UInt8} : ∀ (a : Bytes) (p : Bool) (b : Bytes),
    (∀ x ∈ a, x ≠ c) → endsBsl p a = false → splitUnesc c p (a ++ c :: b) = some (a, b) := by
  intro a
  induction a with
  | nil =>
    intro p b _ hp
    simp [endsBsl] at hp
    simp [splitUnesc, hp]
  | cons x rest ih =>
    intro p b hno hp
    have hx : x ≠ c := hno x (by simp)
    simp only [List.cons_append, splitUnesc]
    simp only [hx, false_and, if_false]
    rw [ih (x == bsl) b (fun y hy => hno y (by simp [hy])) (by simpa [endsBsl] using hp)]

/-! ### replaceEsc / unescapeBraces -/

theorem replaceEsc_cons_ne (c x : UInt8) (t : Bytes) (hx : x ≠ bsl) :
    replaceEsc c (x :: t) = x :: replaceEsc c t := by
  cases t with
  | nil => simp [replaceEsc]
  | cons y rest => simp [replaceEsc, hx]

theorem replaceEsc_append_singleton (c d : UInt8) : ∀ (t : Bytes),
    (endsBsl false t = true → d ≠ c) →
    replaceEsc c (t ++ [d]) = replaceEsc c t ++ [d] := by
  intro t
  induction t using replaceEsc.induct c with
  | case1 => intro _; simp [replaceEsc]
  | case2 x =>
    intro h
    simp only [endsBsl] at h
    by_cases hx : x = bsl ∧ d = c
    · exact absurd hx.2 (h (by simp [hx.1]))
    · simp [replaceEsc, hx]
  | case3 x y rest hxy ih =>
    intro h
    have h1 : replaceEsc c (x :: y :: rest ++ [d]) = c :: replaceEsc c (rest ++ [d]) := by
      simp [replaceEsc, hxy]
    have h2 : replaceEsc c (x :: y :: rest) = c :: replaceEsc c rest := by simp [replaceEsc, hxy]
    rw [h1, h2]
    cases rest with
    | nil => simp [replaceEsc]
    | cons z zs =>
      have := ih (by simpa [endsBsl] using h)
      simpa using this
  | case4 x y rest hxy ih =>
    intro h
    have h1 : replaceEsc c (x :: y :: rest ++ [d]) = x :: replaceEsc c (y :: rest ++ [d]) := by
      simp [replaceEsc, hxy]
    have h2 : replaceEsc c (x :: y :: rest) = x :: replaceEsc c (y :: rest) := by simp [replaceEsc, hxy]
    rw [h1, h2]
    have := ih (by simpa [endsBsl] using h)
    simpa using this

theorem endsBsl_replaceEsc (c : UInt8) (hc : c ≠ bsl) : ∀ (t : Bytes) (p : Bool),
    endsBsl p t = false → endsBsl p (replaceEsc c t) = false := by
  intro t
  induction t using replaceEsc.induct c with
  | case1 => intro p h; simpa [replaceEsc] using h
  | case2 x => intro p h; simpa [replaceEsc] using h
  | case3 x y rest hxy ih =>
    intro p h
    have h2 : replaceEsc c (x :: y :: rest) = c :: replaceEsc c rest := by simp [replaceEsc, hxy]
    have hcb : (c == bsl) = false := by simpa using hc
    rw [h2]
    simp only [endsBsl, hxy.2, hcb] at h ⊢
    exact ih false h
  | case4 x y rest hxy ih =>
    intro p h
    have h2 : replaceEsc c (x :: y :: rest) = x :: replaceEsc c (y :: rest) := by simp [replaceEsc, hxy]
    rw [h2]
    simp only [endsBsl] at h ⊢
    exact ih (x == bsl) (by simpa [endsBsl] using h)

/-- what `Replace` hands to `getSubstitution`: `{`, some bytes, `}` -/
def KeyShape (key : Bytes) : Prop := ∃ mid : Bytes, key = lbr :: (mid ++ [rbr])

theorem lbr_ne_bsl : lbr ≠ bsl := by decide
theorem rbr_ne_bsl : rbr ≠ bsl := by decide
theorem rbr_ne_lbr : rbr ≠ lbr := by decide

theorem key_shape (inner : Bytes) (h : endsBsl false inner = false) :
    KeyShape (unescapeBraces (lbr :: (inner ++ [rbr]))) := by
  unfold unescapeBraces
  rw [replaceEsc_cons_ne lbr lbr _ lbr_ne_bsl]
  rw [replaceEsc_append_singleton lbr rbr inner (fun _ => rbr_ne_lbr)]
  rw [replaceEsc_cons_ne rbr lbr _ lbr_ne_bsl]
  have h1 := endsBsl_replaceEsc lbr lbr_ne_bsl inner false h
  rw [replaceEsc_append_singleton rbr rbr (replaceEsc lbr inner) (fun hh => by simp [h1] at hh)]
  exact ⟨_, rfl⟩

/-! ### getSubstitution never indexes out of range on such a key -/

/-- the stage ends the lookup with a value -/
def R.isVal : R → Prop
  | .val _ => True
  | _ => False

theorem andThen_isVal {a : R} {f : Unit → R} (ha : a ≠ .panic) (hf : (f ()).isVal) : (a.andThen f).isVal := by
  cases a with
  | panic => exact absurd rfl ha
  | val v => simp [R.andThen, R.isVal]
  | pass => simpa [R.andThen] using hf

theorem ofOpt_ne_panic (o : Option Bytes) : ofOpt o ≠ .panic := by
  cases o <;> simp [ofOpt]

theorem keyName_isSome {mid : Bytes} (hm : mid ≠ []) : ∃ name, keyName (lbr :: (mid ++ [rbr])) = some name := by
  unfold keyName slice?
  have : 1 ≤ mid.length := by
    cases mid with
    | nil => exact absurd rfl hm
    | cons _ _ => simp
  simp only [List.length_cons, List.length_append, List.length_nil]
  rw [if_neg (by omega), if_pos (by omega)]
  exact ⟨_, rfl⟩

theorem sigil_ne_panic {mid : Bytes} {k1 c : UInt8} (hk : (lbr :: (mid ++ [rbr]))[1]? = some k1) (hc : c ≠ rbr)
    (f : Bytes → R) (hf : ∀ n, f n ≠ .panic) : sigil (lbr :: (mid ++ [rbr])) k1 c f ≠ .panic := by
  unfold sigil
  by_cases hkc : k1 = c
  · simp only [hkc, if_true]
    have hm : mid ≠ [] := by
      intro h0
      subst h0
      simp at hk
      exact hc (by rw [← hkc, ← hk])
    obtain ⟨name, hn⟩ := keyName_isSome hm
    rw [hn]
    exact hf name
  · simp [hkc]

theorem isPrefix_label {mid : Bytes} (h : isPrefix (asc "{label") (lbr :: (mid ++ [rbr])) = true) :
    5 ≤ mid.length := by
  have ha : asc "{label" = [123, 108, 97, 98, 101, 108] := by decide
  rw [ha] at h
  match mid, h with
  | [], h => simp [isPrefix, rbr] at h
  | [a], h => simp [isPrefix, rbr] at h
  | [a, b], h => simp [isPrefix, rbr] at h
  | [a, b, c], h => simp [isPrefix, rbr] at h
  | [a, b, c, d], h => simp [isPrefix, rbr] at h
  | _ :: _ :: _ :: _ :: _ :: _, _ => simp

theorem labelLookup_ne_panic (σ : Env) (mid : Bytes) : labelLookup σ (lbr :: (mid ++ [rbr])) ≠ .panic := by
  unfold labelLookup
  by_cases hp : isPrefix (asc "{label") (lbr :: (mid ++ [rbr])) = true
  · have h5 := isPrefix_label hp
    simp only [hp, if_true]
    have hs : ∃ n, (if (lbr :: (mid ++ [rbr])).length = 0 then none
        else slice? (lbr :: (mid ++ [rbr])) 6 ((lbr :: (mid ++ [rbr])).length - 1)) = some n := by
      unfold slice?
      simp only [List.length_cons, List.length_append, List.length_nil]
      rw [if_neg (by omega), if_pos (by omega)]
      exact ⟨_, rfl⟩
    obtain ⟨n, hn⟩ := hs
    rw [hn]
    simp only
    cases ha : atoi n with
    | none => simp
    | some k =>
      simp only
      by_cases h1 : k < 1
      · simp [h1]
      · simp only [h1, if_false]
        by_cases h2 : k.toNat > (splitDots σ.host).length
        · simp [h2]
        · simp only [h2, if_false]
          have hlt : k.toNat - 1 < (splitDots σ.host).length := by omega
          rw [List.getElem?_eq_getElem hlt]
          simp
  · simp [hp]

theorem substR_isVal (σ : Env) {key : Bytes} (hk : KeyShape key) : (substR σ key).isVal := by
  obtain ⟨mid, rfl⟩ := hk
  unfold substR
  apply andThen_isVal (ofOpt_ne_panic _)
  have h1 : ∃ k1, (lbr :: (mid ++ [rbr]))[1]? = some k1 := by
    cases mid with
    | nil => exact ⟨rbr, by simp⟩
    | cons a _ => exact ⟨a, by simp⟩
  obtain ⟨k1, hk1⟩ := h1
  rw [hk1]
  simp only
  apply andThen_isVal (sigil_ne_panic hk1 (by decide) _ (fun _ => ofOpt_ne_panic _))
  apply andThen_isVal
  · cases σ.respHdr with
    | none => simp
    | some h => exact sigil_ne_panic hk1 (by decide) _ (fun _ => ofOpt_ne_panic _)
  apply andThen_isVal (sigil_ne_panic hk1 (by decide) _ (fun n => by
    by_cases hn : n = [] <;> simp [hn, ofOpt_ne_panic]))
  apply andThen_isVal (sigil_ne_panic hk1 (by decide) _ (fun _ => by simp))
  apply andThen_isVal (sigil_ne_panic hk1 (by decide) _ (fun n => by
    cases indexOf 61 n with
    | none => simp
    | some i => by_cases hv : envLookup σ (List.take i n) ≠ [] <;> simp [hv]))
  apply andThen_isVal (ofOpt_ne_panic _)
  apply andThen_isVal (labelLookup_ne_panic σ mid)
  simp [R.isVal]

theorem subst_isSome (σ : Env) {key : Bytes} (hk : KeyShape key) : ∃ v, subst σ key = some v := by
  have := substR_isVal σ hk
  unfold subst
  cases h : substR σ key with
  | val v => exact ⟨v, rfl⟩
  | panic => simp [h, R.isVal] at this
  | pass => simp [h, R.isVal] at this

/-! ### the loop -/

/-- every placeholder key of a parse has the `{…}` shape -/
def keysShaped : List Seg → Prop
  | [] => True
  | .lit _ :: rest => keysShaped rest
  | .ph k :: rest => KeyShape k ∧ keysShaped rest

theorem parseGo_total : ∀ (fuel : Nat) (s : Bytes), s.length < fuel →
    ∃ segs, parseGo fuel s = some segs ∧ keysShaped segs := by
  intro fuel
  induction fuel with
  | zero => intro s h; omega
  | succ n ih =>
    intro s hlen
    unfold parseGo
    cases h1 : splitUnesc lbr false s with
    | none => exact ⟨_, rfl, by simp [keysShaped]⟩
    | some pa =>
      obtain ⟨pre, afterOpen⟩ := pa
      simp only
      cases h2 : splitUnesc rbr false afterOpen with
      | none => exact ⟨_, rfl, by simp [keysShaped]⟩
      | some ir =>
        obtain ⟨inner, rest⟩ := ir
        simp only
        have l1 := splitUnesc_length h1
        have l2 := splitUnesc_length h2
        obtain ⟨segs, hs, hk⟩ := ih rest (by omega)
        rw [hs]
        exact ⟨_, rfl, by simp [keysShaped, hk, key_shape inner (splitUnesc_pre h2)]⟩

theorem parseGo_fuel : ∀ (f1 f2 : Nat) (s : Bytes), s.length < f1 → s.length < f2 →
    parseGo f1 s = parseGo f2 s := by
  intro f1
  induction f1 with
  | zero => intro f2 s h; omega
  | succ n ih =>
    intro f2 s h1 h2
    cases f2 with
    | zero => omega
    | succ m =>
      unfold parseGo
      cases hs1 : splitUnesc lbr false s with
      | none => rfl
      | some pa =>
        obtain ⟨pre, afterOpen⟩ := pa
        simp only
        cases hs2 : splitUnesc rbr false afterOpen with
        | none => rfl
        | some ir =>
          obtain ⟨inner, rest⟩ := ir
          simp only
          have l1 := splitUnesc_length hs1
          have l2 := splitUnesc_length hs2
          rw [ih m rest (by omega) (by omega)]

/-- the Go loop with its accumulator is "parse, then concatenate the values" -/
theorem replaceGo_eq (σ : Env) : ∀ (fuel : Nat) (s result : Bytes), s.length < fuel →
    ∃ segs, parseGo fuel s = some segs ∧
      replaceGo σ fuel result s =
        (match render σ segs with
         | .ok out => .ok (result ++ out)
         | .error e => .error e) := by
  intro fuel
  induction fuel with
  | zero => intro s r h; omega
  | succ n ih =>
    intro s result hlen
    unfold parseGo replaceGo
    cases h1 : splitUnesc lbr false s with
    | none => exact ⟨_, rfl, by simp [render, segValue]⟩
    | some pa =>
      obtain ⟨pre, afterOpen⟩ := pa
      simp only
      cases h2 : splitUnesc rbr false afterOpen with
      | none => exact ⟨_, rfl, by simp [render, segValue]⟩
      | some ir =>
        obtain ⟨inner, rest⟩ := ir
        simp only
        have l1 := splitUnesc_length h1
        have l2 := splitUnesc_length h2
        cases hv : subst σ (unescapeBraces (lbr :: (inner ++ [rbr]))) with
        | none =>
          obtain ⟨segs, hs, _⟩ := ih rest [] (by omega)
          rw [hs]
          exact ⟨_, rfl, by simp [render, segValue, hv]⟩
        | some v =>
          obtain ⟨segs, hs, hr⟩ := ih rest (result ++ trimBsl (unescapeBraces pre) ++ v) (by omega)
          rw [hs]
          refine ⟨_, rfl, ?_⟩
          simp only
          rw [hr]
          simp only [render, segValue, hv]
          cases render σ segs with
          | ok out => simp [List.append_assoc]
          | error e => simp

theorem any_asc_false (l : List String) (key : Bytes) (h : ∀ k ∈ l, asc k ≠ key) :
    (l.any fun k => asc k == key) = false := by
  rw [List.any_eq_false]
  intro k hk
  simpa using h k hk

theorem tableLookup_none (σ : Env) (key : Bytes) (h : ∀ k ∈ allTableKeys, asc k ≠ key) :
    tableLookup σ key = none := by
  have hmem : ∀ k, (k ∈ table.map (·.1) ∨ k ∈ opaqueKeys ∨ k ∈ latencyKeys ∨ k ∈ tlsKeys ∨ k ∈ certKeys) → asc k ≠ key := by
    intro k hk
    apply h k
    unfold allTableKeys
    simp only [List.mem_append]
    rcases hk with hk | hk | hk | hk | hk
    · exact Or.inl (Or.inl (Or.inl (Or.inl hk)))
    · exact Or.inl (Or.inl (Or.inl (Or.inr hk)))
    · exact Or.inl (Or.inl (Or.inr hk))
    · exact Or.inl (Or.inr hk)
    · exact Or.inr hk
  have hf : table.find? (fun e => asc e.1 == key) = none := by
    rw [List.find?_eq_none]
    intro e he
    have := hmem e.1 (Or.inl (List.mem_map.mpr ⟨e, he, rfl⟩))
    simpa using this
  unfold tableLookup
  rw [hf]
  simp only
  rw [any_asc_false opaqueKeys key (fun k hk => hmem k (Or.inr (Or.inl hk))),
      any_asc_false latencyKeys key (fun k hk => hmem k (Or.inr (Or.inr (Or.inl hk)))),
      any_asc_false tlsKeys key (fun k hk => hmem k (Or.inr (Or.inr (Or.inr (Or.inl hk))))),
      any_asc_false certKeys key (fun k hk => hmem k (Or.inr (Or.inr (Or.inr (Or.inr hk)))))]
  simp

theorem render_ok (σ : Env) : ∀ (segs : List Seg), keysShaped segs → ∃ out, render σ segs = .ok out := by
  intro segs
  induction segs with
  | nil => intro _; exact ⟨[], rfl⟩
  | cons seg rest ih =>
    intro h
    cases seg with
    | lit b =>
      obtain ⟨out, ho⟩ := ih (by simpa [keysShaped] using h)
      exact ⟨b ++ out, by simp [render, segValue, ho]⟩
    | ph k =>
      simp only [keysShaped] at h
      obtain ⟨out, ho⟩ := ih h.2
      obtain ⟨v, hv⟩ := subst_isSome σ h.1
      exact ⟨v ++ out, by simp [render, segValue, hv, ho]⟩

theorem replaceEsc_noop (c : UInt8) : ∀ (s : Bytes), (∀ x ∈ s, x ≠ c) → replaceEsc c s = s := by
  intro s
  induction s using replaceEsc.induct c with
  | case1 => intro _; rfl
  | case2 x => intro _; rfl
  | case3 x y rest hxy _ =>
    intro h
    exact absurd hxy.2 (h y (by simp))
  | case4 x y rest hxy ih =>
    intro h
    have h2 : replaceEsc c (x :: y :: rest) = x :: replaceEsc c (y :: rest) := by simp [replaceEsc, hxy]
    rw [h2, ih (fun z hz => h z (by simp [hz]))]

theorem unescapeBraces_noop {s : Bytes} (h : hasBrace s = false) : unescapeBraces s = s := by
  have hb : ∀ x ∈ s, x ≠ lbr ∧ x ≠ rbr := by
    intro x hx
    have := (List.any_eq_false.mp h) x hx
    simpa using this
  unfold unescapeBraces
  rw [replaceEsc_noop lbr s (fun x hx => (hb x hx).1), replaceEsc_noop rbr s (fun x hx => (hb x hx).2)]

theorem splitUnesc_none_of_absent {c : UInt8} : ∀ (s : Bytes) (p : Bool),
    (∀ x ∈ s, x ≠ c) → splitUnesc c p s = none := by
  intro s
  induction s with
  | nil => intro p _; rfl
  | cons x rest ih =>
    intro p h
    have hx : x ≠ c := h x (by simp)
    simp [splitUnesc, hx, ih (x == bsl) (fun y hy => h y (by simp [hy]))]

theorem replaceGo_fuel (σ : Env) (f1 f2 : Nat) (s result : Bytes) (h1 : s.length < f1) (h2 : s.length < f2) :
    replaceGo σ f1 result s = replaceGo σ f2 result s := by
  obtain ⟨segs1, hp1, hr1⟩ := replaceGo_eq σ f1 s result h1
  obtain ⟨segs2, hp2, hr2⟩ := replaceGo_eq σ f2 s result h2
  rw [parseGo_fuel f1 f2 s h1 h2, hp2] at hp1
  cases hp1
  rw [hr1, hr2]

theorem replaceGo_result (σ : Env) (fuel : Nat) (s result : Bytes) (h : s.length < fuel) :
    replaceGo σ fuel result s =
      (match replaceGo σ fuel [] s with
       | .ok out => .ok (result ++ out)
       | .error e => .error e) := by
  obtain ⟨segs1, hp1, hr1⟩ := replaceGo_eq σ fuel s result h
  obtain ⟨segs2, hp2, hr2⟩ := replaceGo_eq σ fuel s [] h
  rw [hp2] at hp1
  cases hp1
  rw [hr1, hr2]
  cases render σ segs1 <;> simp

/-- the early return of `Replace` is not a special case: the loop gives the same answer -/
theorem replace_eq_go (σ : Env) (s : Bytes) (fuel : Nat) (h : s.length < fuel) :
    replace σ s = replaceGo σ fuel [] s := by
  unfold replace
  by_cases hb : hasBrace s = true
  · simp only [hb, if_true]
    exact replaceGo_fuel σ _ _ s [] (by omega) h
  · have hb' : hasBrace s = false := by simpa using hb
    simp only [hb', Bool.false_eq_true, if_false]
    cases fuel with
    | zero => omega
    | succ n =>
      have hno : ∀ x ∈ s, x ≠ lbr := by
        intro x hx
        have := (List.any_eq_false.mp hb') x hx
        simp at this
        exact this.1
      simp [replaceGo, splitUnesc_none_of_absent s false hno, unescapeBraces_noop hb']

end Casket.Replacer
