import Casket.Model.Replacer
import Casket.Spec.Replacer
/-
Helper lemmas for C20 (placeholder expansion).
-/
namespace Casket.Replacer
open Casket.ReplacerSpec

/-! ### splitUnesc -/

theorem splitUnesc_length {c : UInt8} : ∀ {s : Bytes} {p : Bool} {a b : Bytes},
    splitUnesc c p s = some (a, b) → a.length + 1 + b.length = s.length := by
  intro s
  induction s with
  | nil => intro p a b h; simp [splitUnesc] at h
  | cons x rest ih =>
    intro p a b h
    unfold splitUnesc at h
    by_cases hx : x = c ∧ p = false
    · simp only [hx, and_self, if_true] at h
      cases h
      simp only [List.length_nil, List.length_cons]
      omega
    · simp only [hx, if_false] at h
      cases hr : splitUnesc c (x == bsl) rest with
      | none => simp [hr] at h
      | some ab =>
        obtain ⟨a', b'⟩ := ab
        simp only [hr] at h
        cases h
        have := ih hr
        simp only [List.length_cons]
        omega

/-- last byte is a backslash; for the empty string, whether the byte in front of it is one -/
def endsBsl : Bool → Bytes → Bool
  | p, [] => p
  | _, x :: rest => endsBsl (x == bsl) rest

theorem endsBsl_append_singleton (p : Bool) (s : Bytes) (x : UInt8) :
    endsBsl p (s ++ [x]) = (x == bsl) := by
  induction s generalizing p with
  | nil => simp [endsBsl]
  | cons y rest ih => simp [endsBsl, ih]

/-- the byte in front of the split point is not a backslash -/
theorem splitUnesc_pre {c : UInt8} : ∀ {s : Bytes} {p : Bool} {a b : Bytes},
    splitUnesc c p s = some (a, b) → endsBsl p a = false := by
  intro s
  induction s with
  | nil => intro p a b h; simp [splitUnesc] at h
  | cons x rest ih =>
    intro p a b h
    unfold splitUnesc at h
    by_cases hx : x = c ∧ p = false
    · simp only [hx, and_self, if_true] at h
      cases h
      simp [endsBsl, hx.2]
    · simp only [hx, if_false] at h
      cases hr : splitUnesc c (x == bsl) rest with
      | none => simp [hr] at h
      | some ab =>
        obtain ⟨a', b'⟩ := ab
        simp only [hr] at h
        cases h
        simpa [endsBsl] using ih hr

/-- the split is at a `c`: the string is `a ++ c :: b` -/
theorem splitUnesc_eq {c : UInt8} : ∀ {s : Bytes} {p : Bool} {a b : Bytes},
    splitUnesc c p s = some (a, b) → s = a ++ c :: b := by
  intro s
  induction s with
  | nil => intro p a b h; simp [splitUnesc] at h
  | cons x rest ih =>
    intro p a b h
    unfold splitUnesc at h
    by_cases hx : x = c ∧ p = false
    · simp only [hx, and_self, if_true] at h
      cases h
      simp [hx.1]
    · simp only [hx, if_false] at h
      cases hr : splitUnesc c (x == bsl) rest with
      | none => simp [hr] at h
      | some ab =>
        obtain ⟨a', b'⟩ := ab
        simp only [hr] at h
        cases h
        simp [ih hr]

/-- a string without `c` in front of an unescaped `c` splits exactly there -/
theorem splitUnesc_append {c : UInt8} : ∀ (a : Bytes) (p : Bool) (b : Bytes),
    (∀ x ∈ a, x ≠ c) → endsBsl p a = false → splitUnesc c p (a ++ c :: b) = some (a, b) := by
  intro a
  induction a with
  | nil =>
    intro p b _ hp
    simp [endsBsl] at hp
    simp [splitUnesc, hp]
  | cons x rest ih =>
    intro p b hno hp
    have hx : x ≠ c := hno x (by simp)
    simp only [List.cons_append, splitUnesc]
    simp only [hx, false_and, if_false]
    rw [ih (x == bsl) b (fun y hy => hno y (by simp [hy])) (by simpa [endsBsl] using hp)]

/-! ### replaceEsc / unescapeBraces -/

theorem replaceEsc_cons_ne (c x : UInt8) (t : Bytes) (hx : x ≠ bsl) :
    replaceEsc c (x :: t) = x :: replaceEsc c t := by
  cases t with
  | nil => simp [replaceEsc]
  | cons y rest => simp [replaceEsc, hx]

theorem replaceEsc_append_singleton (c d : UInt8) : ∀ (t : Bytes),
    (endsBsl false t = true → d ≠ c) →
    replaceEsc c (t ++ [d]) = replaceEsc c t ++ [d] := by
  intro t
  induction t using replaceEsc.induct c with
  | case1 => intro _; simp [replaceEsc]
  | case2 x =>
    intro h
    simp only [endsBsl] at h
    by_cases hx : x = bsl ∧ d = c
    · exact absurd hx.2 (h (by simp [hx.1]))
    · simp [replaceEsc, hx]
  | case3 x y rest hxy ih =>
    intro h
    have h1 : replaceEsc c (x :: y :: rest ++ [d]) = c :: replaceEsc c (rest ++ [d]) := by
      simp [replaceEsc, hxy]
    have h2 : replaceEsc c (x :: y :: rest) = c :: replaceEsc c rest := by simp [replaceEsc, hxy]
    rw [h1, h2]
    cases rest with
    | nil => simp [replaceEsc]
    | cons z zs =>
      have := ih (by simpa [endsBsl] using h)
      simpa using this
  | case4 x y rest hxy ih =>
    intro h
    have h1 : replaceEsc c (x :: y :: rest ++ [d]) = x :: replaceEsc c (y :: rest ++ [d]) := by
      simp [replaceEsc, hxy]
    have h2 : replaceEsc c (x :: y :: rest) = x :: replaceEsc c (y :: rest) := by simp [replaceEsc, hxy]
    rw [h1, h2]
    have := ih (by simpa [endsBsl] using h)
    simpa using this

theorem endsBsl_replaceEsc (c : UInt8) (hc : c ≠ bsl) : ∀ (t : Bytes) (p : Bool),
    endsBsl p t = false → endsBsl p (replaceEsc c t) = false := by
  intro t
  induction t using replaceEsc.induct c with
  | case1 => intro p h; simpa [replaceEsc] using h
  | case2 x => intro p h; simpa [replaceEsc] using h
  | case3 x y rest hxy ih =>
    intro p h
    have h2 : replaceEsc c (x :: y :: rest) = c :: replaceEsc c rest := by simp [replaceEsc, hxy]
    have hcb : (c == bsl) = false := by simpa using hc
    rw [h2]
    simp only [endsBsl, hxy.2, hcb] at h ⊢
    exact ih false h
  | case4 x y rest hxy ih =>
    intro p h
    have h2 : replaceEsc c (x :: y :: rest) = x :: replaceEsc c (y :: rest) := by simp [replaceEsc, hxy]
    rw [h2]
    simp only [endsBsl] at h ⊢
    exact ih (x == bsl) (by simpa [endsBsl] using h)

/-- what `Replace` hands to `getSubstitution`: `{`, some bytes, `}` -/
def KeyShape (key : Bytes) : Prop := ∃ mid : Bytes, key = lbr :: (mid ++ [rbr])

theorem lbr_ne_bsl : lbr ≠ bsl := by decide
theorem rbr_ne_bsl : rbr ≠ bsl := by decide
theorem rbr_ne_lbr : rbr ≠ lbr := by decide

theorem key_shape (inner : Bytes) (h : endsBsl false inner = false) :
    KeyShape (unescapeBraces (lbr :: (inner ++ [rbr]))) := by
  unfold unescapeBraces
  rw [replaceEsc_cons_ne lbr lbr _ lbr_ne_bsl]
  rw [replaceEsc_append_singleton lbr rbr inner (fun _ => rbr_ne_lbr)]
  rw [replaceEsc_cons_ne rbr lbr _ lbr_ne_bsl]
  have h1 := endsBsl_replaceEsc lbr lbr_ne_bsl inner false h
  rw [replaceEsc_append_singleton rbr rbr (replaceEsc lbr inner) (fun hh => by simp [h1] at hh)]
  exact ⟨_, rfl⟩

/-! ### getSubstitution never indexes out of range on such a key -/

/-- the stage ends the lookup with a value -/
def R.isVal : R → Prop
  | .val _ => True
  | _ => False

theorem andThen_isVal {a : R} {f : Unit → R} (ha : a ≠ .panic) (hf : (f ()).isVal) : (a.andThen f).isVal := by
  cases a with
  | panic => exact absurd rfl ha
  | val v => simp [R.andThen, R.isVal]
  | pass => simpa [R.andThen] using hf

theorem ofOpt_ne_panic (o : Option Bytes) : ofOpt o ≠ .panic := by
  cases o <;> simp [ofOpt]

theorem keyName_isSome {mid : Bytes} (hm : mid ≠ []) : ∃ name, keyName (lbr :: (mid ++ [rbr])) = some name := by
  unfold keyName slice?
  have : 1 ≤ mid.length := by
    cases mid with
    | nil => exact absurd rfl hm
    | cons _ _ => simp
  simp only [List.length_cons, List.length_append, List.length_nil]
  rw [if_neg (by omega), if_pos (by omega)]
  exact ⟨_, rfl⟩

theorem sigil_ne_panic {mid : Bytes} {k1 c : UInt8} (hk : (lbr :: (mid ++ [rbr]))[1]? = some k1) (hc : c ≠ rbr)
    (f : Bytes → R) (hf : ∀ n, f n ≠ .panic) : sigil (lbr :: (mid ++ [rbr])) k1 c f ≠ .panic := by
  unfold sigil
  by_cases hkc : k1 = c
  · simp only [hkc, if_true]
    have hm : mid ≠ [] := by
      intro h0
      subst h0
      simp at hk
      exact hc (by rw [← hkc, ← hk])
    obtain ⟨name, hn⟩ := keyName_isSome hm
    rw [hn]
    exact hf name
  · simp [hkc]

theorem isPrefix_label {mid : Bytes} (h : isPrefix (asc "{label") (lbr :: (mid ++ [rbr])) = true) :
    5 ≤ mid.length := by
  have ha : asc "{label" = [123, 108, 97, 98, 101, 108] := by decide
  rw [ha] at h
  match mid, h with
  | [], h => simp [isPrefix, rbr] at h
  | [a], h => simp [isPrefix, rbr] at h
  | [a, b], h => simp [isPrefix, rbr] at h
  | [a, b, c], h => simp [isPrefix, rbr] at h
  | [a, b, c, d], h => simp [isPrefix, rbr] at h
  | _ :: _ :: _ :: _ :: _ :: _, _ => simp

theorem labelLookup_ne_panic (σ : Env) (mid : Bytes) : labelLookup σ (lbr :: (mid ++ [rbr])) ≠ .panic := by
  unfold labelLookup
  by_cases hp : isPrefix (asc "{label") (lbr :: (mid ++ [rbr])) = true
  · have h5 := isPrefix_label hp
    simp only [hp, if_true]
    have hs : ∃ n, (if (lbr :: (mid ++ [rbr])).length = 0 then none
        else slice? (lbr :: (mid ++ [rbr])) 6 ((lbr :: (mid ++ [rbr])).length - 1)) = some n := by
      unfold slice?
      simp only [List.length_cons, List.length_append, List.length_nil]
      rw [if_neg (by omega), if_pos (by omega)]
      exact ⟨_, rfl⟩
    obtain ⟨n, hn⟩ := hs
    rw [hn]
    simp only
    cases ha : atoi n with
    | none => simp
    | some k =>
      simp only
      by_cases h1 : k < 1
      · simp [h1]
      · simp only [h1, if_false]
        by_cases h2 : k.toNat > (splitDots σ.host).length
        · simp [h2]
        · simp only [h2, if_false]
          have hlt : k.toNat - 1 < (splitDots σ.host).length := by omega
          rw [List.getElem?_eq_getElem hlt]
          simp
  · simp [hp]

theorem substR_isVal (σ : Env) {key : Bytes} (hk : KeyShape key) : (substR σ key).isVal := by
  obtain ⟨mid, rfl⟩ := hk
  unfold substR
  apply andThen_isVal (ofOpt_ne_panic _)
  have h1 : ∃ k1, (lbr :: (mid ++ [rbr]))[1]? = some k1 := by
    cases mid with
    | nil => exact ⟨rbr, by simp⟩
    | cons a _ => exact ⟨a, by simp⟩
  obtain ⟨k1, hk1⟩ := h1
  rw [hk1]
  simp only
  apply andThen_isVal (sigil_ne_panic hk1 (by decide) _ (fun _ => ofOpt_ne_panic _))
  apply andThen_isVal
  · cases σ.respHdr with
    | none => simp
    | some h => exact sigil_ne_panic hk1 (by decide) _ (fun _ => ofOpt_ne_panic _)
  apply andThen_isVal (sigil_ne_panic hk1 (by decide) _ (fun n => by
    by_cases hn : n = [] <;> simp [hn, ofOpt_ne_panic]))
  apply andThen_isVal (sigil_ne_panic hk1 (by decide) _ (fun _ => by simp))
  apply andThen_isVal (sigil_ne_panic hk1 (by decide) _ (fun n => by
    cases indexOf 61 n with
    | none => simp
    | some i => by_cases hv : envLookup σ (List.take i n) ≠ [] <;> simp [hv]))
  apply andThen_isVal (ofOpt_ne_panic _)
  apply andThen_isVal (labelLookup_ne_panic σ mid)
  simp [R.isVal]

theorem subst_isSome (σ : Env) {key : Bytes} (hk : KeyShape key) : ∃ v, subst σ key = some v := by
  have := substR_isVal σ hk
  unfold subst
  cases h : substR σ key with
  | val v => exact ⟨v, rfl⟩
  | panic => simp [h, R.isVal] at this
  | pass => simp [h, R.isVal] at this

/-! ### the loop -/

/-- every placeholder key of a parse has the `{…}` shape -/
def keysShaped : List Seg → Prop
  | [] => True
  | .lit _ :: rest => keysShaped rest
  | .ph k :: rest => KeyShape k ∧ keysShaped rest

theorem parseGo_total : ∀ (fuel : Nat) (s : Bytes), s.length < fuel →
    ∃ segs, parseGo fuel s = some segs ∧ keysShaped segs := by
  intro fuel
  induction fuel with
  | zero => intro s h; omega
  | succ n ih =>
    intro s hlen
    unfold parseGo
    cases h1 : splitUnesc lbr false s with
    | none => exact ⟨_, rfl, by simp [keysShaped]⟩
    | some pa =>
      obtain ⟨pre, afterOpen⟩ := pa
      simp only
      cases h2 : splitUnesc rbr false afterOpen with
      | none => exact ⟨_, rfl, by simp [keysShaped]⟩
      | some ir =>
        obtain ⟨inner, rest⟩ := ir
        simp only
        have l1 := splitUnesc_length h1
        have l2 := splitUnesc_length h2
        obtain ⟨segs, hs, hk⟩ := ih rest (by omega)
        rw [hs]
        exact ⟨_, rfl, by simp [keysShaped, hk, key_shape inner (splitUnesc_pre h2)]⟩

theorem parseGo_fuel : ∀ (f1 f2 : Nat) (s : Bytes), s.length < f1 → s.length < f2 →
    parseGo f1 s = parseGo f2 s := by
  intro f1
  induction f1 with
  | zero => intro f2 s h; omega
  | succ n ih =>
    intro f2 s h1 h2
    cases f2 with
    | zero => omega
    | succ m =>
      unfold parseGo
      cases hs1 : splitUnesc lbr false s with
      | none => rfl
      | some pa =>
        obtain ⟨pre, afterOpen⟩ := pa
        simp only
        cases hs2 : splitUnesc rbr false afterOpen with
        | none => rfl
        | some ir =>
          obtain ⟨inner, rest⟩ := ir
          simp only
          have l1 := splitUnesc_length hs1
          have l2 := splitUnesc_length hs2
          rw [ih m rest (by omega) (by omega)]

/-- the Go loop with its accumulator is "parse, then concatenate the values" -/
theorem replaceGo_eq (σ : Env) : ∀ (fuel : Nat) (s result : Bytes), s.length < fuel →
    ∃ segs, parseGo fuel s = some segs ∧
      replaceGo σ fuel result s =
        (match render σ segs with
         | .ok out => .ok (result ++ out)
         | .error e => .error e) := by
  intro fuel
  induction fuel with
  | zero => intro s r h; omega
  | succ n ih =>
    intro s result hlen
    unfold parseGo replaceGo
    cases h1 : splitUnesc lbr false s with
    | none => exact ⟨_, rfl, by simp [render, segValue]⟩
    | some pa =>
      obtain ⟨pre, afterOpen⟩ := pa
      simp only
      cases h2 : splitUnesc rbr false afterOpen with
      | none => exact ⟨_, rfl, by simp [render, segValue]⟩
      | some ir =>
        obtain ⟨inner, rest⟩ := ir
        simp only
        have l1 := splitUnesc_length h1
        have l2 := splitUnesc_length h2
        cases hv : subst σ (unescapeBraces (lbr :: (inner ++ [rbr]))) with
        | none =>
          obtain ⟨segs, hs, _⟩ := ih rest [] (by omega)
          rw [hs]
          exact ⟨_, rfl, by simp [render, segValue, hv]⟩
        | some v =>
          obtain ⟨segs, hs, hr⟩ := ih rest (result ++ trimBsl (unescapeBraces pre) ++ v) (by omega)
          rw [hs]
          refine ⟨_, rfl, ?_⟩
          simp only
          rw [hr]
          simp only [render, segValue, hv]
          cases render σ segs with
          | ok out => simp [List.append_assoc]
          | error e => simp

theorem any_asc_false (l : List String) (key : Bytes) (h : ∀ k ∈ l, asc k ≠ key) :
    (l.any fun k => asc k == key) = false := by
  rw [List.any_eq_false]
  intro k hk
  simpa using h k hk

theorem tableLookup_none (σ : Env) (key : Bytes) (h : ∀ k ∈ allTableKeys, asc k ≠ key) :
    tableLookup σ key = none := by
  have hmem : ∀ k, (k ∈ table.map (·.1) ∨ k ∈ opaqueKeys ∨ k ∈ latencyKeys ∨ k ∈ tlsKeys ∨ k ∈ certKeys) → asc k ≠ key := by
    intro k hk
    apply h k
    unfold allTableKeys
    simp only [List.mem_append]
    rcases hk with hk | hk | hk | hk | hk
    · exact Or.inl (Or.inl (Or.inl (Or.inl hk)))
    · exact Or.inl (Or.inl (Or.inl (Or.inr hk)))
    · exact Or.inl (Or.inl (Or.inr hk))
    · exact Or.inl (Or.inr hk)
    · exact Or.inr hk
  have hf : table.find? (fun e => asc e.1 == key) = none := by
    rw [List.find?_eq_none]
    intro e he
    have := hmem e.1 (Or.inl (List.mem_map.mpr ⟨e, he, rfl⟩))
    simpa using this
  unfold tableLookup
  rw [hf]
  simp only
  rw [any_asc_false opaqueKeys key (fun k hk => hmem k (Or.inr (Or.inl hk))),
      any_asc_false latencyKeys key (fun k hk => hmem k (Or.inr (Or.inr (Or.inl hk)))),
      any_asc_false tlsKeys key (fun k hk => hmem k (Or.inr (Or.inr (Or.inr (Or.inl hk))))),
      any_asc_false certKeys key (fun k hk => hmem k (Or.inr (Or.inr (Or.inr (Or.inr hk)))))]
  simp

theorem render_ok (σ : Env) : ∀ (segs : List Seg), keysShaped segs → ∃ out, render σ segs = .ok out := by
  intro segs
  induction segs with
  | nil => intro _; exact ⟨[], rfl⟩
  | cons seg rest ih =>
    intro h
    cases seg with
    | lit b =>
      obtain ⟨out, ho⟩ := ih (by simpa [keysShaped] using h)
      exact ⟨b ++ out, by simp [render, segValue, ho]⟩
    | ph k =>
      simp only [keysShaped] at h
      obtain ⟨out, ho⟩ := ih h.2
      obtain ⟨v, hv⟩ := subst_isSome σ h.1
      exact ⟨v ++ out, by simp [render, segValue, hv, ho]⟩

theorem replaceEsc_noop (c : UInt8) : ∀ (s : Bytes), (∀ x ∈ s, x ≠ c) → replaceEsc c s = s := by
  intro s
  induction s using replaceEsc.induct c with
  | case1 => intro _; rfl
  | case2 x => intro _; rfl
  | case3 x y rest hxy _ =>
    intro h
    exact absurd hxy.2 (h y (by simp))
  | case4 x y rest hxy ih =>
    intro h
    have h2 : replaceEsc c (x :: y :: rest) = x :: replaceEsc c (y :: rest) := by simp [replaceEsc, hxy]
    rw [h2, ih (fun z hz => h z (by simp [hz]))]

theorem unescapeBraces_noop {s : Bytes} (h : hasBrace s = false) : unescapeBraces s = s := by
  have hb : ∀ x ∈ s, x ≠ lbr ∧ x ≠ rbr := by
    intro x hx
    have := (List.any_eq_false.mp h) x hx
    simpa using this
  unfold unescapeBraces
  rw [replaceEsc_noop lbr s (fun x hx => (hb x hx).1), replaceEsc_noop rbr s (fun x hx => (hb x hx).2)]

theorem splitUnesc_none_of_absent {c : UInt8} : ∀ (s : Bytes) (p : Bool),
    (∀ x ∈ s, x ≠ c) → splitUnesc c p s = none := by
  intro s
  induction s with
  | nil => intro p _; rfl
  | cons x rest ih =>
    intro p h
    have hx : x ≠ c := h x (by simp)
    simp [splitUnesc, hx, ih (x == bsl) (fun y hy => h y (by simp [hy]))]

theorem replaceGo_fuel (σ : Env) (f1 f2 : Nat) (s result : Bytes) (h1 : s.length < f1) (h2 : s.length < f2) :
    replaceGo σ f1 result s = replaceGo σ f2 result s := by
  obtain ⟨segs1, hp1, hr1⟩ := replaceGo_eq σ f1 s result h1
  obtain ⟨segs2, hp2, hr2⟩ := replaceGo_eq σ f2 s result h2
  rw [parseGo_fuel f1 f2 s h1 h2, hp2] at hp1
  cases hp1
  rw [hr1, hr2]

theorem replaceGo_result (σ : Env) (fuel : Nat) (s result : Bytes) (h : s.length < fuel) :
    replaceGo σ fuel result s =
      (match replaceGo σ fuel [] s with
       | .ok out => .ok (result ++ out)
       | .error e => .error e) := by
  obtain ⟨segs1, hp1, hr1⟩ := replaceGo_eq σ fuel s result h
  obtain ⟨segs2, hp2, hr2⟩ := replaceGo_eq σ fuel s [] h
  rw [hp2] at hp1
  cases hp1
  rw [hr1, hr2]
  cases render σ segs1 <;> simp

/-- the early return of `Replace` is not a special case: the loop gives the same answer -/
theorem replace_eq_go (σ : Env) (s : Bytes) (fuel : Nat) (h : s.length < fuel) :
    replace σ s = replaceGo σ fuel [] s := by
  unfold replace
  by_cases hb : hasBrace s = true
  · simp only [hb, if_true]
    exact replaceGo_fuel σ _ _ s [] (by omega) h
  · have hb' : hasBrace s = false := by simpa using hb
    simp only [hb', Bool.false_eq_true, if_false]
    cases fuel with
    | zero => omega
    | succ n =>
      have hno : ∀ x ∈ s, x ≠ lbr := by
        intro x hx
        have := (List.any_eq_false.mp hb') x hx
        simp at this
        exact this.1
      simp [replaceGo, splitUnesc_none_of_absent s false hno, unescapeBraces_noop hb']

/-! ### no value puts a line break into the output -/

/-- free of CR and LF -/
def cl (b : Bytes) : Prop := hasLineBreak b = false

theorem cl_iff (b : Bytes) : cl b ↔ ∀ x ∈ b, x ≠ 10 ∧ x ≠ 13 := by
  unfold cl hasLineBreak
  rw [List.any_eq_false]
  constructor
  · intro h x hx
    have := h x hx
    simpa using this
  · intro h x hx
    have := h x hx
    simpa using this

theorem cl_nil : cl [] := by simp [cl, hasLineBreak]

theorem cl_append {a b : Bytes} (ha : cl a) (hb : cl b) : cl (a ++ b) := by
  rw [cl_iff] at *
  intro x hx
  rcases List.mem_append.mp hx with h | h
  · exact ha x h
  · exact hb x h

theorem cl_of_subset {a b : Bytes} (h : ∀ x ∈ a, x ∈ b) (hb : cl b) : cl a := by
  rw [cl_iff] at *
  exact fun x hx => hb x (h x hx)

theorem cl_take {b : Bytes} (n : Nat) (h : cl b) : cl (b.take n) :=
  cl_of_subset (fun _ hx => List.mem_of_mem_take hx) h

theorem cl_drop {b : Bytes} (n : Nat) (h : cl b) : cl (b.drop n) :=
  cl_of_subset (fun _ hx => List.mem_of_mem_drop hx) h

theorem cl_escNL (s : Bytes) : cl (escNL s) := by
  rw [cl_iff]
  intro x hx
  unfold escNL at hx
  rw [List.mem_flatMap] at hx
  obtain ⟨b, _, hb⟩ := hx
  by_cases h13 : b = 13
  · simp [h13] at hb
    rcases hb with rfl | rfl <;> decide
  · by_cases h10 : b = 10
    · simp [h10] at hb
      rcases hb with rfl | rfl <;> decide
    · simp [h13, h10] at hb
      subst hb
      exact ⟨h10, h13⟩

theorem cl_slice {s t : Bytes} {lo hi : Nat} (h : slice? s lo hi = some t) (hs : cl s) : cl t := by
  unfold slice? at h
  split at h
  · cases h
    exact cl_drop _ (cl_take _ hs)
  · cases h

theorem cl_keyName {key name : Bytes} (h : keyName key = some name) (hk : cl key) : cl name := by
  unfold keyName at h
  split at h
  · cases h
  · exact cl_slice h hk

theorem cl_joinComma : ∀ (vs : List Bytes), (∀ v ∈ vs, cl v) → cl (joinComma vs)
  | [], _ => cl_nil
  | [v], h => h v (by simp)
  | v :: w :: rest, h => by
    unfold joinComma
    apply cl_append (h v (by simp))
    have hr := cl_joinComma (w :: rest) (fun x hx => h x (by simp [hx]))
    rw [cl_iff] at hr ⊢
    intro x hx
    rcases List.mem_cons.mp hx with rfl | hx
    · decide
    · exact hr x hx

theorem hexUp_ne (n : Nat) (hn : n < 16) : hexUp n ≠ 10 ∧ hexUp n ≠ 13 := by
  have : ∀ k : Fin 16, hexUp k.val ≠ 10 ∧ hexUp k.val ≠ 13 := by decide
  exact this ⟨n, hn⟩

theorem cl_queryEscape (s : Bytes) : cl (queryEscape s) := by
  rw [cl_iff]
  intro x hx
  unfold queryEscape at hx
  rw [List.mem_flatMap] at hx
  obtain ⟨b, _, hb⟩ := hx
  by_cases hu : unreserved b = true
  · simp [hu] at hb
    subst hb
    constructor
    · intro h; subst h; revert hu; decide
    · intro h; subst h; revert hu; decide
  · by_cases h32 : b = 32
    · have hu32 : unreserved 32 = false := by decide
      simp [h32, hu32] at hb
      subst hb
      decide
    · have hb256 : b.toNat < 256 := UInt8.toNat_lt b
      simp [hu, h32] at hb
      rcases hb with rfl | rfl | rfl
      · decide
      · exact hexUp_ne _ (by omega)
      · exact hexUp_ne _ (by omega)

theorem cl_natBytes (n : Nat) : cl (natBytes n) := by
  rw [cl_iff]
  intro x hx
  unfold natBytes at hx
  rw [List.mem_map] at hx
  obtain ⟨c, hc, rfl⟩ := hx
  have hd := Nat.isDigit_of_mem_toDigits (by decide) (by decide) hc
  simp only [Char.isDigit, Bool.and_eq_true, decide_eq_true_eq] at hd
  have h1 : 48 ≤ c.toNat := UInt32.le_iff_toNat_le.mp hd.1
  have h2 : c.toNat ≤ 57 := UInt32.le_iff_toNat_le.mp hd.2
  have : ∀ k : Fin 58, 48 ≤ k.val → UInt8.ofNat k.val ≠ 10 ∧ UInt8.ofNat k.val ≠ 13 := by decide
  exact this ⟨c.toNat, by omega⟩ h1

theorem cl_splitDots : ∀ (s : Bytes), cl s → ∀ l ∈ splitDots s, cl l := by
  intro s
  induction s with
  | nil => intro _ l hl; simp [splitDots] at hl; subst hl; exact cl_nil
  | cons x rest ih =>
    intro hs l hl
    have hx : x ≠ 10 ∧ x ≠ 13 := (cl_iff _).mp hs x (by simp)
    have hrest : cl rest := cl_of_subset (fun y hy => by simp [hy]) hs
    unfold splitDots at hl
    cases hsd : splitDots rest with
    | nil => simp [hsd] at hl; subst hl; exact cl_nil
    | cons l0 ls =>
      simp only [hsd] at hl
      have ih' := ih hrest
      rw [hsd] at ih'
      by_cases h46 : x = 46
      · simp only [h46, if_true, List.mem_cons] at hl
        rcases hl with rfl | rfl | hl
        · exact cl_nil
        · exact ih' _ (by simp)
        · exact ih' _ (by simp [hl])
      · simp only [h46, if_false, List.mem_cons] at hl
        rcases hl with rfl | hl
        · have := ih' l0 (by simp)
          rw [cl_iff] at this ⊢
          intro y hy
          rcases List.mem_cons.mp hy with rfl | hy
          · exact hx
          · exact this y hy
        · exact ih' _ (by simp [hl])

theorem assoc_mem {l : List (Bytes × Bytes)} {k v : Bytes} (h : assoc l k = some v) : ∃ p ∈ l, p.2 = v := by
  unfold assoc at h
  cases hf : l.find? (fun p => p.1 == k) with
  | none => simp [hf] at h
  | some p =>
    simp [hf] at h
    exact ⟨p, List.mem_of_find?_eq_some hf, h⟩

theorem cl_assoc {l : List (Bytes × Bytes)} {k v : Bytes} (h : assoc l k = some v)
    (hl : (l.any fun p => hasLineBreak p.2) = false) : cl v := by
  obtain ⟨p, hp, rfl⟩ := assoc_mem h
  exact (List.any_eq_false.mp hl) p hp |> fun h => by simpa [cl] using h

theorem cl_headerLookup {h : List (Bytes × List Bytes)} {want v : Bytes} (hv : headerLookup h want = some v)
    (hh : hdrHasLineBreak h = false) : cl v := by
  unfold headerLookup at hv
  cases hf : h.find? (fun p => eqFold p.1 want) with
  | none => simp [hf] at hv
  | some p =>
    simp [hf] at hv
    subst hv
    have hp := List.mem_of_find?_eq_some hf
    have := (List.any_eq_false.mp hh) p hp
    apply cl_joinComma
    intro w hw
    have := (List.any_eq_false.mp (by simpa using this)) w hw
    simpa [cl] using this

/-- a lookup stage that, if it ends the lookup, ends it with a CR/LF-free value -/
def R.clVal : R → Prop
  | .val v => cl v
  | _ => True

theorem andThen_clVal {a : R} {f : Unit → R} (ha : a.clVal) (hf : (f ()).clVal) : (a.andThen f).clVal := by
  cases a with
  | panic => simp [R.andThen, R.clVal]
  | val v => simpa [R.andThen, R.clVal] using ha
  | pass => simpa [R.andThen] using hf

theorem ofOpt_clVal (o : Option Bytes) (h : ∀ v, o = some v → cl v) : (ofOpt o).clVal := by
  cases o with
  | none => simp [ofOpt, R.clVal]
  | some v => simpa [ofOpt, R.clVal] using h v rfl

theorem sigil_clVal (key : Bytes) (k1 c : UInt8) (f : Bytes → R) (hk : cl key)
    (hf : ∀ n, cl n → (f n).clVal) : (sigil key k1 c f).clVal := by
  unfold sigil
  split
  · cases hn : keyName key with
    | none => simp [R.clVal]
    | some name => exact hf name (cl_keyName hn hk)
  · simp [R.clVal]

/-- every text that net/http delivers undecoded, or that the operator controls, is free of CR/LF -/
structure EnvClean (σ : Env) : Prop where
  empty : cl σ.empty
  reqHdr : hdrHasLineBreak σ.reqHdr = false
  respHdr : hdrHasLineBreak (σ.respHdr.getD []) = false
  cookies : (σ.cookies.any fun p => hasLineBreak p.2) = false
  osEnv : (σ.osEnv.any fun p => hasLineBreak p.2) = false
  method : cl σ.method
  host : cl σ.host
  proto : cl σ.proto
  remoteAddr : cl σ.remoteAddr
  hostSplit : pairHasLineBreak σ.hostSplit = false
  remoteSplit : pairHasLineBreak σ.remoteSplit = false
  origRawQuery : cl σ.origRawQuery
  origURI : cl σ.origURI
  curURI : cl σ.curURI
  requestID : cl σ.requestID
  ext : (extKeys.any fun k => hasLineBreak (σ.ext (asc k))) = false

theorem envClean_of {σ : Env} (h : envHasLineBreak σ = false) : EnvClean σ := by
  simp only [envHasLineBreak, Bool.or_eq_false_iff, and_assoc] at h
  obtain ⟨h1, h2, h3, h4, h5, h6, h7, h8, h9, h10, h11, h12, h13, h14, h15, h16⟩ := h
  exact ⟨h1, h2, h3, h4, h5, h6, h7, h8, h9, h10, h11, h12, h13, h14, h15, h16⟩

theorem cl_pair_fst {o : Option (Bytes × Bytes)} {a b : Bytes} (h : pairHasLineBreak o = false) (ho : o = some (a, b)) :
    cl a ∧ cl b := by
  subst ho
  simpa [pairHasLineBreak, cl] using h

theorem table_clean (σ : Env) (h : EnvClean σ) : ∀ e ∈ table, cl (e.2 σ) := by
  simp only [table, List.forall_mem_cons, List.not_mem_nil, false_imp_iff, implies_true, and_true]
  refine ⟨h.method, ?_, h.host, ?_, cl_escNL _, cl_queryEscape _, h.requestID, cl_escNL _, cl_queryEscape _,
    h.origRawQuery, cl_queryEscape _, cl_escNL _, h.proto, ?_, ?_, h.origURI, cl_queryEscape _, h.curURI,
    cl_queryEscape _, cl_escNL _, cl_escNL _, ?_, ?_, ?_, ?_⟩
  · cases σ.tls <;> simp [cl] <;> decide
  · cases hs : σ.hostSplit with
    | none => exact h.host
    | some p => obtain ⟨a, b⟩ := p; exact (cl_pair_fst h.hostSplit hs).1
  · cases hs : σ.remoteSplit with
    | none => exact h.remoteAddr
    | some p => obtain ⟨a, b⟩ := p; exact (cl_pair_fst h.remoteSplit hs).1
  · cases hs : σ.remoteSplit with
    | none => exact h.empty
    | some p => obtain ⟨a, b⟩ := p; exact (cl_pair_fst h.remoteSplit hs).2
  · cases hm : σ.mitm with
    | none => simp [cl]; decide
    | some b => cases b <;> simp [cl] <;> decide
  · cases hr : σ.recorder with
    | none => exact h.empty
    | some p => obtain ⟨a, b⟩ := p; exact cl_natBytes _
  · cases hr : σ.recorder with
    | none => exact h.empty
    | some p => obtain ⟨a, b⟩ := p; exact cl_natBytes _
  · cases hs : σ.hostSplit with
    | none => cases σ.tls <;> simp [cl] <;> decide
    | some p => obtain ⟨a, b⟩ := p; exact (cl_pair_fst h.hostSplit hs).2

theorem ext_clean (σ : Env) (h : EnvClean σ) (l : List String) (hl : ∀ k ∈ l, k ∈ extKeys) (key : Bytes)
    (hk : (l.any fun k => asc k == key) = true) : cl (σ.ext key) := by
  rw [List.any_eq_true] at hk
  obtain ⟨k, hkm, hke⟩ := hk
  have : asc k = key := by simpa using hke
  subst this
  have := (List.any_eq_false.mp h.ext) k (hl k hkm)
  simpa [cl] using this

theorem tableLookup_clean (σ : Env) (h : EnvClean σ) (key v : Bytes) (hv : tableLookup σ key = some v) : cl v := by
  unfold tableLookup at hv
  cases hf : table.find? (fun e => asc e.1 == key) with
  | some e =>
    simp only [hf] at hv
    cases hv
    exact table_clean σ h e (List.mem_of_find?_eq_some hf)
  | none =>
    simp only [hf] at hv
    by_cases h1 : (opaqueKeys.any fun k => asc k == key) = true
    · simp only [h1, if_true] at hv
      cases hv
      exact ext_clean σ h opaqueKeys (fun k hk => by simp [extKeys, hk]) key h1
    · simp only [h1, if_false] at hv
      by_cases h2 : (latencyKeys.any fun k => asc k == key) = true
      · simp only [h2, if_true] at hv
        cases hv
        split
        · exact ext_clean σ h latencyKeys (fun k hk => by simp [extKeys, hk]) key h2
        · exact h.empty
      · simp only [h2, if_false] at hv
        by_cases h3 : (tlsKeys.any fun k => asc k == key) = true
        · simp only [h3, if_true] at hv
          cases hv
          split
          · exact ext_clean σ h tlsKeys (fun k hk => by simp [extKeys, hk]) key h3
          · exact h.empty
        · simp only [h3, if_false] at hv
          by_cases h4 : (certKeys.any fun k => asc k == key) = true
          · simp only [h4, if_true] at hv
            cases hv
            split
            · exact ext_clean σ h certKeys (fun k hk => by simp [extKeys, hk]) key h4
            · exact h.empty
          · simp [h4] at hv

theorem labelLookup_clVal (σ : Env) (h : EnvClean σ) (key : Bytes) : (labelLookup σ key).clVal := by
  unfold labelLookup
  split
  · split
    · simp [R.clVal]
    · split
      · exact h.empty
      · split
        · exact h.empty
        · simp only
          split
          · exact h.empty
          · split
            · rename_i l hl
              exact cl_splitDots σ.host h.host l (List.mem_of_getElem? hl)
            · simp [R.clVal]
  · simp [R.clVal]

/-- `getSubstitution` never returns a value with a CR or LF, when the key has none and the
undecoded / operator-controlled parts of the environment have none: the decoded parts (path, query
arguments, fragment, custom values such as the basic auth user) may contain anything. -/
theorem substR_clVal (σ : Env) (h : EnvClean σ) (key : Bytes) (hk : cl key) : (substR σ key).clVal := by
  unfold substR
  apply andThen_clVal
  · apply ofOpt_clVal
    intro v hv
    cases ha : assoc σ.custom key with
    | none => simp [ha] at hv
    | some w => simp [ha] at hv; subst hv; exact cl_escNL _
  cases hk1 : key[1]? with
  | none => simp [R.clVal]
  | some k1 =>
    simp only
    apply andThen_clVal
    · exact sigil_clVal key k1 62 _ hk (fun n _ => ofOpt_clVal _ (fun v hv => cl_headerLookup hv h.reqHdr))
    apply andThen_clVal
    · cases hr : σ.respHdr with
      | none => simp [R.clVal]
      | some hh =>
        have hrh : hdrHasLineBreak hh = false := by have := h.respHdr; simpa [hr] using this
        exact sigil_clVal key k1 60 _ hk (fun n _ => ofOpt_clVal _ (fun v hv => cl_headerLookup hv hrh))
    apply andThen_clVal
    · apply sigil_clVal key k1 126 _ hk
      intro n _
      split
      · simp [R.clVal]
      · exact ofOpt_clVal _ (fun v hv => cl_assoc hv h.cookies)
    apply andThen_clVal
    · exact sigil_clVal key k1 63 _ hk (fun n _ => cl_escNL _)
    apply andThen_clVal
    · apply sigil_clVal key k1 36 _ hk
      intro n hn
      have henv : ∀ nm, cl (envLookup σ nm) := by
        intro nm
        unfold envLookup
        cases ha : assoc σ.osEnv nm with
        | none => exact cl_nil
        | some w => exact cl_assoc ha h.osEnv
      cases indexOf 61 n with
      | none => exact henv _
      | some i =>
        simp only
        split
        · exact henv _
        · exact cl_drop _ hn
    apply andThen_clVal
    · exact ofOpt_clVal _ (fun v hv => tableLookup_clean σ h key v hv)
    apply andThen_clVal
    · exact labelLookup_clVal σ h key
    exact h.empty

theorem subst_clean (σ : Env) (h : EnvClean σ) (key v : Bytes) (hk : cl key) (hv : subst σ key = some v) : cl v := by
  have := substR_clVal σ h key hk
  unfold subst at hv
  cases hs : substR σ key with
  | val w => simp [hs] at hv; subst hv; simpa [hs, R.clVal] using this
  | panic => simp [hs] at hv
  | pass => simp [hs] at hv

theorem render_clean (σ : Env) (h : EnvClean σ) : ∀ (segs : List Seg) (out : Bytes),
    (segs.any fun s => match s with | .lit b => hasLineBreak b | .ph k => hasLineBreak k) = false →
    render σ segs = .ok out → cl out := by
  intro segs
  induction segs with
  | nil => intro out _ hr; simp [render] at hr; subst hr; exact cl_nil
  | cons seg rest ih =>
    intro out hl hr
    simp only [List.any_cons, Bool.or_eq_false_iff] at hl
    unfold render at hr
    cases hv : segValue σ seg with
    | none => simp [hv] at hr
    | some v =>
      simp only [hv] at hr
      cases hrr : render σ rest with
      | error e => simp [hrr] at hr
      | ok o =>
        simp only [hrr] at hr
        cases hr
        apply cl_append _ (ih o hl.2 hrr)
        cases seg with
        | lit b => simp [segValue] at hv; subst hv; simpa [cl] using hl.1
        | ph k => exact subst_clean σ h k v (by simpa [cl] using hl.1) hv

end Casket.Replacer
