import Casket.Model.Hello
import Casket.Model.Mitm
import Casket.Model.Link
/-
Helper lemmas for C19: under the guards of the Go code every checked index /
slice operation of the models succeeds.
-/
namespace Casket.Fault

theorem isOk_ok {α : Type} (x : α) : IsOk (.ok x : R α) := ⟨x, rfl⟩

theorem idx_ok {α : Type} {l : List α} {i : Nat} (h : i < l.length) : idx l i = .ok l[i] := by
  simp [idx, List.getElem?_eq_getElem h]

theorem sliceFrom_ok {α : Type} {l : List α} {i : Nat} (h : i ≤ l.length) :
    sliceFrom l i = .ok (l.drop i) := by
  simp [sliceFrom, h]

theorem slice_ok {α : Type} {l : List α} {i j : Nat} (h1 : i ≤ j) (h2 : j ≤ l.length) :
    slice l i j = .ok ((l.take j).drop i) := by
  simp [slice, h1, h2]

theorem be16_ok {l : Bytes} {i : Nat} (h : i + 1 < l.length) :
    be16 l i = .ok (l[i].toNat * 256 + l[i+1].toNat) := by
  have h0 : i < l.length := by omega
  simp [be16, idx_ok h0, idx_ok h]

end Casket.Fault

namespace Casket.Hello
open Casket.Fault

theorem readU16s_ok (data : Bytes) : ∀ (n off : Nat), off + 2 * n ≤ data.length →
    IsOk (readU16s data off n) := by
  intro n
  induction n with
  | zero => intro off _; exact ⟨[], rfl⟩
  | succ n ih =>
    intro off h
    obtain ⟨rest, hr⟩ := ih (off + 2) (by omega)
    have hb : off + 1 < data.length := by omega
    simp [IsOk, readU16s, be16_ok hb, hr]

theorem readCurves_ok : ∀ (n : Nat) (d : Bytes), 2 * n ≤ d.length → IsOk (readCurves d n) := by
  intro n
  induction n with
  | zero => intro d _; exact ⟨[], rfl⟩
  | succ n ih =>
    intro d h
    have hb : 0 + 1 < d.length := by omega
    have hs : 2 ≤ d.length := by omega
    obtain ⟨rest, hr⟩ := ih (d.drop 2) (by rw [List.length_drop]; omega)
    simp [IsOk, readCurves, be16_ok hb, sliceFrom_ok hs, hr]

theorem extBody_ok (ext length : Nat) (data : Bytes) (info : Info) (h : length ≤ data.length) :
    IsOk (extBody ext length data info) := by
  unfold extBody
  by_cases h1 : ext = extensionSupportedCurves
  · simp only [h1, if_true]
    by_cases h2 : length < 2
    · simp only [h2, if_true]; exact isOk_ok _
    · simp only [h2, if_false]
      have hb : 0 + 1 < data.length := by omega
      rw [be16_ok hb]
      simp only
      split
      · exact isOk_ok _
      · rename_i hc
        have hs : 2 ≤ data.length := by omega
        rw [sliceFrom_ok hs]
        simp only
        have hl : length = data[0].toNat * 256 + data[0 + 1].toNat + 2 := by
          apply Classical.byContradiction; intro hne; exact hc (Or.inr hne)
        obtain ⟨cs, hcs⟩ := readCurves_ok ((data[0].toNat * 256 + data[0 + 1].toNat) / 2) (data.drop 2)
          (by rw [List.length_drop]; omega)
        rw [hcs]; exact isOk_ok _
  · simp only [h1, if_false]
    by_cases h3 : ext = extensionSupportedPoints
    · simp only [h3, if_true]
      by_cases h2 : length < 1
      · simp only [h2, if_true]; exact isOk_ok _
      · simp only [h2, if_false]
        have hb : 0 < data.length := by omega
        rw [idx_ok hb]
        simp only
        split
        · exact isOk_ok _
        · have hs : 1 ≤ data.length := by omega
          rw [sliceFrom_ok hs]; exact isOk_ok _
    · simp only [h3, if_false]; exact isOk_ok _

theorem parseExts_ok : ∀ (fuel : Nat) (data : Bytes) (info : Info), data.length < fuel →
    IsOk (parseExts fuel data info) := by
  intro fuel
  induction fuel with
  | zero => intro data info h; omega
  | succ fuel ih =>
    intro data info h
    unfold parseExts
    by_cases h0 : data.length = 0
    · simp only [h0, if_true]; exact isOk_ok _
    · simp only [h0, if_false]
      by_cases h4 : data.length < 4
      · simp only [h4, if_true]; exact isOk_ok _
      · simp only [h4, if_false]
        have hb0 : 0 + 1 < data.length := by omega
        have hb2 : 2 + 1 < data.length := by omega
        have hs : 4 ≤ data.length := by omega
        rw [be16_ok hb0, be16_ok hb2, sliceFrom_ok hs]
        simp only
        split
        · exact isOk_ok _
        · rename_i hlen
          have hle : data[2].toNat * 256 + data[2 + 1].toNat ≤ (data.drop 4).length := by omega
          obtain ⟨r, hr⟩ := extBody_ok (data[0].toNat * 256 + data[0 + 1].toNat) _ (data.drop 4)
            { info with extensions := info.extensions ++ [data[0].toNat * 256 + data[0 + 1].toNat] } hle
          rw [hr]
          obtain ⟨i', b⟩ := r
          cases b with
          | false => exact isOk_ok _
          | true =>
            simp only
            rw [sliceFrom_ok hle]
            simp only
            apply ih
            rw [List.length_drop] at hle ⊢
            rw [List.length_drop]
            omega

theorem parseTail_ok (data : Bytes) (info : Info) : IsOk (parseTail data info) := by
  unfold parseTail
  split
  · exact isOk_ok _
  · rename_i h
    have hb : 0 + 1 < data.length := by omega
    have hs : 2 ≤ data.length := by omega
    rw [be16_ok hb, sliceFrom_ok hs]
    simp only
    split
    · exact isOk_ok _
    · exact parseExts_ok _ _ _ (by omega)

theorem parseCompression_ok (data : Bytes) (info : Info) : IsOk (parseCompression data info) := by
  unfold parseCompression
  split
  · exact isOk_ok _
  · rename_i h
    have hb : 0 < data.length := by omega
    rw [idx_ok hb]
    simp only
    split
    · exact isOk_ok _
    · rename_i h2
      rw [slice_ok (by omega) (by omega), sliceFrom_ok (by omega)]
      exact parseTail_ok _ _

theorem parseCiphers_ok (data : Bytes) (info : Info) : IsOk (parseCiphers data info) := by
  unfold parseCiphers
  split
  · exact isOk_ok _
  · rename_i h
    have hb : 0 + 1 < data.length := by omega
    rw [be16_ok hb]
    simp only
    split
    · exact isOk_ok _
    · rename_i h2
      have h3 : ¬ (data.length < 2 + (data[0].toNat * 256 + data[0 + 1].toNat)) := fun hc => h2 (Or.inr hc)
      obtain ⟨cs, hcs⟩ := readU16s_ok data ((data[0].toNat * 256 + data[0 + 1].toNat) / 2) 2 (by omega)
      rw [hcs, sliceFrom_ok (by omega)]
      exact parseCompression_ok _ _

theorem parseRawClientHello_ok (data : Bytes) : IsOk (parseRawClientHello data) := by
  unfold parseRawClientHello
  split
  · exact isOk_ok _
  · rename_i h
    have hb : 4 + 1 < data.length := by omega
    have h38 : 38 < data.length := by omega
    rw [be16_ok hb, idx_ok h38]
    simp only
    split
    · exact isOk_ok _
    · rename_i h2
      have h3 : ¬ (data.length < 39 + data[38].toNat) := fun hc => h2 (Or.inr hc)
      rw [sliceFrom_ok (by omega)]
      exact parseCiphers_ok _ _

end Casket.Hello

namespace Casket.Fault

theorem indexOfAux_spec (sub : Bytes) : ∀ (s : Bytes) (k i : Nat), indexOfAux sub s k = some i →
    k ≤ i ∧ (i - k) + sub.length ≤ s.length ∧ sub <+: s.drop (i - k) := by
  intro s
  induction s with
  | nil =>
    intro k i h
    simp only [indexOfAux] at h
    split at h
    · rename_i he
      have : sub = [] := by simpa using he
      subst this
      have : k = i := by simpa using h
      subst this
      simp
    · simp at h
  | cons c cs ih =>
    intro k i h
    simp only [indexOfAux] at h
    split at h
    · rename_i hp
      have : k = i := by simpa using h
      subst this
      have hp' := List.isPrefixOf_iff_prefix.mp hp
      have hl := hp'.length_le
      simp at hl ⊢
      exact ⟨by omega, hp'⟩
    · obtain ⟨h1, h2, h3⟩ := ih (k + 1) i h
      refine ⟨by omega, by simp; omega, ?_⟩
      have : i - k = (i - (k + 1)) + 1 := by omega
      rw [this]
      simpa using h3

theorem indexOf_le {s sub : Bytes} {i : Nat} (h : indexOf s sub = some i) :
    i + sub.length ≤ s.length := by
  have := indexOfAux_spec sub s 0 i h
  simpa using this.2.1

theorem indexOf_byte {s : Bytes} {c : UInt8} {i : Nat} (h : indexOf s [c] = some i) :
    s[i]? = some c := by
  have := (indexOfAux_spec [c] s 0 i h).2.2
  simp only [Nat.sub_zero] at this
  obtain ⟨t, ht⟩ := this
  have : (s.drop i)[0]? = some c := by rw [← ht]; simp
  simpa using this

end Casket.Fault

namespace Casket.Mitm
open Casket.Fault Casket.Hello

theorem scan_ok (sup : List Nat) (item : Nat) : ∀ (fuel j : Nat), sup.length + 1 - j ≤ fuel →
    j ≤ sup.length → ∃ j' b, scan sup item fuel j = .ok (j', b) ∧ j' ≤ sup.length := by
  intro fuel
  induction fuel with
  | zero => intro j h1 h2; omega
  | succ fuel ih =>
    intro j h1 h2
    unfold scan
    by_cases hj : j < sup.length
    · simp only [hj, if_true, idx_ok hj]
      by_cases hx : sup[j] = item
      · simp only [hx, if_true]; exact ⟨j, true, rfl, h2⟩
      · simp only [hx, if_false]; exact ih (j + 1) (by omega) (by omega)
    · simp only [hj, if_false]; exact ⟨j, false, rfl, h2⟩

theorem orderedIn_ok (sup : List Nat) : ∀ (items : List Nat) (j : Nat), j ≤ sup.length →
    IsOk (orderedIn sup items j) := by
  intro items
  induction items with
  | nil => intro j _; exact isOk_ok _
  | cons item rest ih =>
    intro j hj
    obtain ⟨j', b, hs, hj'⟩ := scan_ok sup item (sup.length + 1 - j) j (Nat.le_refl _) hj
    unfold orderedIn
    rw [hs]
    simp only
    split
    · exact isOk_ok _
    · exact ih j' hj'

theorem assertPresenceAndOrdering_ok (a b : List Nat) (f : Bool) :
    IsOk (assertPresenceAndOrdering a b f) := by
  unfold assertPresenceAndOrdering
  split <;> exact orderedIn_ok _ _ 0 (Nat.zero_le _)

theorem curvesMatch_ok (curves : List Nat) (off : Nat) : ∀ (rs : List Nat) (i : Nat),
    off + i + rs.length ≤ curves.length → IsOk (curvesMatch curves off rs i) := by
  intro rs
  induction rs with
  | nil => intro i _; exact isOk_ok _
  | cons r rs ih =>
    intro i h
    have hi : off + i < curves.length := by simp at h; omega
    unfold curvesMatch
    rw [idx_ok hi]
    simp only
    split
    · exact isOk_ok _
    · exact ih (i + 1) (by simp at h; omega)

theorem allowedCurvesMatch_ok (curves : List Nat) (off : Nat) : ∀ (rs : List Nat) (i : Nat),
    IsOk (allowedCurvesMatch curves off rs i) := by
  intro rs
  induction rs with
  | nil => intro i; exact isOk_ok _
  | cons r rs ih =>
    intro i
    unfold allowedCurvesMatch
    by_cases h : off + i ≥ curves.length
    · simp only [h, if_true]; exact isOk_ok _
    · simp only [h, if_false]
      have hi : off + i < curves.length := by omega
      rw [idx_ok hi]
      simp only
      split
      · exact isOk_ok _
      · exact ih (i + 1)

theorem edgeExts_ok (exts : List Nat) : ∀ (rest : List Nat) (i : Nat), IsOk (edgeExts exts rest i) := by
  intro rest
  induction rest with
  | nil => intro i; exact isOk_ok _
  | cons e rest ih =>
    intro i
    unfold edgeExts
    by_cases he : e = extensionOCSPStatusRequest
    · simp only [he, if_true]
      by_cases hl : exts.length ≤ i + 2
      · simp only [hl, if_true]; exact isOk_ok _
      · simp only [hl, if_false]
        have h1 : i + 1 < exts.length := by omega
        have h2 : i + 2 < exts.length := by omega
        rw [idx_ok h1]
        simp only
        split
        · exact isOk_ok _
        · rw [idx_ok h2]
          simp only
          split
          · exact isOk_ok _
          · exact ih (i + 1)
    · simp only [he, if_false]; exact ih (i + 1)

theorem looksLikeChrome_ok (info : Info) : IsOk (looksLikeChrome info) := by
  unfold looksLikeChrome
  repeat' split
  all_goals exact isOk_ok _

theorem looksLikeFirefox_ok (info : Info) : IsOk (looksLikeFirefox info) := by
  unfold looksLikeFirefox
  obtain ⟨b, hb⟩ := assertPresenceAndOrdering_ok firefoxExtensions info.extensions true
  rw [hb]
  cases b with
  | false => exact isOk_ok _
  | true =>
    simp only
    split
    · exact isOk_ok _
    · rename_i hlen
      obtain ⟨c, hc⟩ := curvesMatch_ok info.curves 0 firefoxRequiredCurves 0 (by simp at hlen ⊢; omega)
      rw [hc]
      cases c with
      | false => exact isOk_ok _
      | true =>
        simp only
        have hx : IsOk (firefoxExtraCurves info.curves) := by
          unfold firefoxExtraCurves
          split
          · exact allowedCurvesMatch_ok _ _ _ _
          · exact isOk_ok _
        obtain ⟨d, hd⟩ := hx
        rw [hd]
        cases d with
        | false => exact isOk_ok _
        | true =>
          simp only
          split
          · exact isOk_ok _
          · exact assertPresenceAndOrdering_ok _ _ _

theorem looksLikeEdge_ok (info : Info) : IsOk (looksLikeEdge info) := by
  unfold looksLikeEdge
  obtain ⟨b, hb⟩ := edgeExts_ok info.extensions info.extensions 0
  rw [hb]
  cases b with
  | false => exact isOk_ok _
  | true =>
    simp only
    repeat' split
    all_goals exact isOk_ok _

theorem looksLikeSafari_ok (info : Info) : IsOk (looksLikeSafari info) := by
  unfold looksLikeSafari
  obtain ⟨b, hb⟩ := assertPresenceAndOrdering_ok safariExtensions info.extensions true
  rw [hb]
  simp only
  have hx : IsOk (safariSecond b info) := by
    unfold safariSecond
    split
    · exact assertPresenceAndOrdering_ok _ _ _
    · split
      · exact isOk_ok _
      · rename_i h
        have h0 : 0 < info.ciphers.length := by omega
        rw [idx_ok h0]; exact isOk_ok _
  obtain ⟨d, hd⟩ := hx
  rw [hd]
  cases d with
  | false => exact isOk_ok _
  | true =>
    simp only
    split
    · exact isOk_ok _
    · exact assertPresenceAndOrdering_ok _ _ _

theorem looksLikeTor_ok (info : Info) : IsOk (looksLikeTor info) := by
  unfold looksLikeTor
  obtain ⟨b, hb⟩ := assertPresenceAndOrdering_ok torExtensions info.extensions true
  rw [hb]
  cases b with
  | false => exact isOk_ok _
  | true =>
    simp only
    split
    · exact isOk_ok _
    · have hx : IsOk (torCurves info) := by
        unfold torCurves
        split
        · rename_i h4
          have h0 : 0 < info.curves.length := by omega
          rw [idx_ok h0]
          simp only
          split
          · exact isOk_ok _
          · rw [sliceFrom_ok (by omega)]; exact isOk_ok _
        · exact isOk_ok _
      obtain ⟨d, hd⟩ := hx
      rw [hd]
      cases d with
      | none => exact isOk_ok _
      | some cs =>
        simp only
        split
        · exact isOk_ok _
        · rename_i hlen
          obtain ⟨c, hc⟩ := curvesMatch_ok cs 0 torRequiredCurves 0 (by simp at hlen ⊢; omega)
          rw [hc]
          cases c with
          | false => exact isOk_ok _
          | true =>
            simp only
            split
            · exact isOk_ok _
            · exact assertPresenceAndOrdering_ok _ _ _

theorem cleanVersion_ok (tok : Bytes) : IsOk (cleanVersion tok) := by
  unfold cleanVersion
  simp only
  cases hd : indexOf (removeByte tok 0x2d) [0x2e] with
  | none => exact isOk_ok _
  | some fd =>
    have := indexOf_le hd
    simp only [List.length_cons, List.length_nil] at this
    simp only
    rw [slice_ok (Nat.zero_le _) (by omega), sliceFrom_ok (by omega)]
    exact isOk_ok _

theorem tokenEnd_bounds (ua : Bytes) (start : Nat) (h : start ≤ ua.length) :
    start ≤ tokenEnd ua.length start (ua.drop start) ∧
    tokenEnd ua.length start (ua.drop start) ≤ ua.length := by
  unfold tokenEnd
  cases he : indexOf (ua.drop start) [0x20] with
  | none => exact ⟨h, Nat.le_refl _⟩
  | some e =>
    have := indexOf_le he
    simp only [List.length_drop, List.length_cons, List.length_nil] at this
    simp only
    omega

theorem getVersionStr_ok (ua name : Bytes) : IsOk (getVersionStr ua name) := by
  unfold getVersionStr
  cases h0 : indexOf ua (name ++ [0x2f]) with
  | none => exact isOk_ok _
  | some start0 =>
    simp only
    have hle := indexOf_le h0
    rw [sliceFrom_ok hle]
    simp only
    have hb := tokenEnd_bounds ua _ hle
    rw [slice_ok hb.1 hb.2]
    simp only
    obtain ⟨s, hs⟩ := cleanVersion_ok (List.drop (start0 + (name ++ [0x2f]).length)
      (List.take (tokenEnd ua.length (start0 + (name ++ [0x2f]).length)
        (List.drop (start0 + (name ++ [0x2f]).length) ua)) ua))
    rw [hs]
    exact isOk_ok _

end Casket.Mitm

namespace Casket.Mitm
open Casket.Fault Casket.Hello

theorem chk_ok {r : R Bool} (h : IsOk r) :
    IsOk (match r with
      | .error e => (.error e : R Verdict)
      | .ok looks => .ok (.checked !looks)) := by
  obtain ⟨b, hb⟩ := h
  rw [hb]; exact isOk_ok _

theorem serveDecision_ok (ua : Bytes) (bc fc : Bool) (info : Info) :
    IsOk (serveDecision ua bc fc info) := by
  unfold serveDecision
  simp only
  split
  · exact isOk_ok _
  split
  · exact chk_ok (looksLikeEdge_ok info)
  split
  · exact chk_ok (looksLikeChrome_ok info)
  split
  · obtain ⟨b, hb⟩ := looksLikeChrome_ok info
    rw [hb]
    cases b with
    | true => exact isOk_ok _
    | false => exact chk_ok (looksLikeSafari_ok info)
  split
  · split
    · obtain ⟨sv, hsv⟩ := getVersionStr_ok ua (bytes "Firefox")
      rw [hsv]
      simp only
      cases verIs45or52 sv with
      | none => exact isOk_ok _
      | some b =>
        cases b with
        | true => exact chk_ok (looksLikeTor_ok info)
        | false => exact chk_ok (looksLikeFirefox_ok info)
    · exact chk_ok (looksLikeFirefox_ok info)
  split
  · exact chk_ok (looksLikeSafari_ok info)
  · exact isOk_ok _

end Casket.Mitm

namespace Casket.Link
open Casket.Fault

theorem splitFirst_length (c : UInt8) (s : Bytes) :
    (splitFirst c s).length = 1 ∨ (splitFirst c s).length = 2 := by
  unfold splitFirst
  cases indexOf s [c] <;> simp

theorem param_ok (m : List (Bytes × Bytes)) (p : Bytes) : IsOk (param m p) := by
  unfold param
  simp only
  have hl := splitFirst_length 0x3d (trimSpace p)
  have h0 : 0 < (splitFirst 0x3d (trimSpace p)).length := by omega
  rw [idx_ok h0]
  simp only
  split
  · exact isOk_ok _
  · split
    · rename_i h2
      have h1 : 1 < (splitFirst 0x3d (trimSpace p)).length := by omega
      rw [idx_ok h1]; exact isOk_ok _
    · exact isOk_ok _

theorem params_ok : ∀ (ps : List Bytes) (m : List (Bytes × Bytes)), IsOk (params ps m) := by
  intro ps
  induction ps with
  | nil => intro m; exact isOk_ok _
  | cons p ps ih =>
    intro m
    obtain ⟨m', hm⟩ := param_ok m p
    unfold params
    rw [hm]
    exact ih m'

theorem link_ok (l : Bytes) : IsOk (link l) := by
  unfold link
  cases hli : indexOf l [0x3c] with
  | none => exact isOk_ok _
  | some li =>
    cases hri : indexOf l [0x3e] with
    | none => exact isOk_ok _
    | some ri =>
      simp only
      split
      · exact isOk_ok _
      · rename_i hlt
        have h1 := indexOf_byte hli
        have h2 := indexOf_byte hri
        have hne : li ≠ ri := by
          intro he
          rw [he, h2] at h1
          exact absurd h1 (by decide)
        have hr := indexOf_le hri
        simp only [List.length_cons, List.length_nil] at hr
        have hs : sliceInt l ((li : Int) + 1) (ri : Int) =
            .ok ((l.take (ri : Int).toNat).drop ((li : Int) + 1).toNat) := by
          unfold sliceInt
          have : (0 : Int) ≤ (li : Int) + 1 ∧ (li : Int) + 1 ≤ (ri : Int) ∧ (ri : Int) ≤ (l.length : Int) := by
            omega
          simp only [this, and_self, if_true]
        rw [hs, sliceFrom_ok (by omega)]
        simp only
        obtain ⟨m, hm⟩ := params_ok (splitByte 0x3b (trimSpace (l.drop (ri + 1)))) []
        rw [hm]
        exact isOk_ok _

theorem links_ok : ∀ (ls : List Bytes), IsOk (links ls) := by
  intro ls
  induction ls with
  | nil => exact isOk_ok _
  | cons l ls ih =>
    obtain ⟨r, hr⟩ := link_ok l
    obtain ⟨rs, hrs⟩ := ih
    unfold links
    rw [hr, hrs]
    exact isOk_ok _

theorem parseLinkHeader_ok (h : Bytes) : IsOk (parseLinkHeader h) := by
  unfold parseLinkHeader
  split
  · exact isOk_ok _
  · exact links_ok _

end Casket.Link

/-! ### segmentation independence of `clientHelloConn` -/
namespace Casket.Hello
open Casket.Fault

/-- length field of the record header, totalised (proofs only) -/
def lenOf (p : Bytes) : Nat :=
  match recordLen p with
  | .ok n => n
  | .error _ => 0

/-- the ClientHello message inside the accumulated bytes `p`, once it is complete -/
def helloOf (p : Bytes) : Option Bytes :=
  if p.length < 5 then none
  else if p.length < 5 + lenOf p then none
  else some ((p.take (5 + lenOf p)).drop 5)

theorem recordLen_ok {p : Bytes} (h : 5 ≤ p.length) : recordLen p = .ok (lenOf p) := by
  have h1 : recordLen p = be16 ((p.take 5).drop 0) 3 := by
    unfold recordLen
    rw [slice_ok (Nat.zero_le _) h]
  have h2 : 3 + 1 < ((p.take 5).drop 0).length := by simp; omega
  unfold lenOf
  rw [h1, be16_ok h2]

theorem recordLen_append {p : Bytes} (t : Bytes) (h : 5 ≤ p.length) :
    recordLen (p ++ t) = recordLen p := by
  have h' : 5 ≤ (p ++ t).length := by simp; omega
  unfold recordLen
  rw [slice_ok (Nat.zero_le _) h', slice_ok (Nat.zero_le _) h, List.take_append_of_le_length h]

theorem lenOf_append {p : Bytes} (t : Bytes) (h : 5 ≤ p.length) : lenOf (p ++ t) = lenOf p := by
  unfold lenOf
  rw [recordLen_append t h]

theorem helloOf_append {p h : Bytes} (t : Bytes) (hp : helloOf p = some h) :
    helloOf (p ++ t) = some h := by
  unfold helloOf at hp ⊢
  by_cases h5 : p.length < 5
  · simp [h5] at hp
  · simp only [h5, if_false] at hp
    by_cases hl : p.length < 5 + lenOf p
    · simp [hl] at hp
    · simp only [hl, if_false] at hp
      have h5' : 5 ≤ p.length := by omega
      have e1 : ¬ ((p ++ t).length < 5) := by simp; omega
      have e2 : ¬ ((p ++ t).length < 5 + lenOf (p ++ t)) := by
        rw [lenOf_append t h5']; simp; omega
      simp only [e1, e2, if_false]
      rw [lenOf_append t h5', List.take_append_of_le_length (by omega)]
      exact hp

/-- what one `Read` does to a connection that has not seen its ClientHello yet -/
theorem read_unread (p seg : Bytes) :
    (Conn.read { buf := p, readHello := false, recorded := none } seg) =
      match helloOf (p ++ seg) with
      | none => .ok { buf := p ++ seg, readHello := false, recorded := none }
      | some h =>
        match parseRawClientHello h with
        | .error e => .error e
        | .ok info => .ok { buf := [], readHello := true, recorded := some info } := by
  unfold Conn.read helloOf
  simp only [Bool.false_eq_true, if_false]
  by_cases h5 : (p ++ seg).length < 5
  · simp only [h5, if_true]
  · simp only [h5, if_false]
    have h5' : 5 ≤ (p ++ seg).length := by omega
    rw [recordLen_ok h5']
    simp only
    by_cases hl : (p ++ seg).length < 5 + lenOf (p ++ seg)
    · simp only [hl, if_true]
    · simp only [hl, if_false]
      rw [slice_ok (by omega) (by omega)]
      simp only
      generalize parseRawClientHello (List.drop 5 (List.take (5 + lenOf (p ++ seg)) (p ++ seg))) = r
      cases r <;> rfl

theorem readAll_done (c : Conn) (h : c.readHello = true) : ∀ segs, c.readAll segs = .ok c := by
  intro segs
  induction segs with
  | nil => rfl
  | cons s ss ih =>
    unfold Conn.readAll
    have : c.read s = .ok c := by unfold Conn.read; simp [h]
    rw [this]
    exact ih

/-- what is recorded depends only on the concatenation of the bytes delivered -/
def recordedSpec (bs : Bytes) : R (Option Info) :=
  match helloOf bs with
  | none => .ok none
  | some h =>
    match parseRawClientHello h with
    | .error e => .error e
    | .ok info => .ok (some info)

theorem recordedFrom_unread : ∀ (segs : List Bytes) (p : Bytes), helloOf p = none →
    recordedFrom { buf := p, readHello := false, recorded := none } segs
      = recordedSpec (p ++ segs.flatten) := by
  intro segs
  induction segs with
  | nil =>
    intro p hp
    simp [recordedFrom, Conn.readAll, recordedSpec, hp]
  | cons seg rest ih =>
    intro p hp
    have hflat : p ++ (seg :: rest).flatten = (p ++ seg) ++ rest.flatten := by simp
    rw [hflat]
    unfold recordedFrom Conn.readAll
    rw [read_unread]
    cases hq : helloOf (p ++ seg) with
    | none =>
      simp only
      exact ih (p ++ seg) hq
    | some h =>
      simp only
      unfold recordedSpec
      rw [helloOf_append rest.flatten hq]
      simp only
      cases hparse : parseRawClientHello h with
      | error e => rfl
      | ok info =>
        simp only
        rw [readAll_done _ rfl]

theorem recorded_eq_spec (segs : List Bytes) : recorded segs = recordedSpec segs.flatten := by
  have := recordedFrom_unread segs [] (by simp [helloOf])
  simpa [recorded] using this

end Casket.Hello
