import Casket.Spec.ParserRT
import Casket.Proofs.ParserTerm
/-
The parser returns exactly the blocks that were written (C10, structure preservation) — for token sequences
that are written configurations in the sense of Spec/ParserRT.lean.
-/
namespace Casket.ParserRT
open Casket.Lexer Casket.Dispenser Casket.Dispenser.Disp Casket.Parser

/-- the dispenser stands on token `p` of `ts` -/
def At (ts : List Token) (p : Nat) (s : PState) : Prop := s.d.tokens = ts ∧ s.d.cursor = (p : Int)

theorem tokAt_nat (ts : List Token) (p : Nat) : tokAt ts (p : Int) = ts[p]? := by
  unfold tokAt; simp

theorem at_tok {ts : List Token} {p : Nat} {s : PState} (h : At ts p s) : s.d.tok? s.d.cursor = ts[p]? := by
  unfold Disp.tok?; rw [h.1, h.2, tokAt_nat]

theorem at_val {ts : List Token} {p : Nat} {s : PState} (h : At ts p s) {t : Token} (ht : ts[p]? = some t) :
    s.d.val = t.text := by
  unfold Disp.val; rw [at_tok h, ht]

/-- moving the cursor -/
def moveTo (s : PState) (p : Nat) : PState := { s with d := s.d.setCursor (p : Int) }

theorem at_moveTo {ts : List Token} {p : Nat} {s : PState} (h : At ts p s) (q : Nat) : At ts q (moveTo s q) :=
  ⟨h.1, rfl⟩

theorem next_some {ts : List Token} {p : Nat} {s : PState} (h : At ts p s) {t : Token} (ht : ts[p + 1]? = some t) :
    s.d.next = (true, s.d.setCursor ((p + 1 : Nat) : Int)) := by
  have hlt : p + 1 < ts.length := (List.getElem?_eq_some_iff.mp ht).1
  unfold Disp.next Disp.len
  rw [h.1, h.2]
  have : (p : Int) < (ts.length : Int) - 1 := by omega
  simp only [this, if_true]
  rfl

theorem next_none {ts : List Token} {p : Nat} {s : PState} (h : At ts p s) (ht : ts[p + 1]? = none) :
    s.d.next = (false, s.d) := by
  have hge : ts.length ≤ p + 1 := List.getElem?_eq_none_iff.mp ht
  unfold Disp.next Disp.len
  rw [h.1, h.2]
  have : ¬ (p : Int) < (ts.length : Int) - 1 := by omega
  simp only [this, if_false]

theorem isNewLine_at {ts : List Token} {p : Nat} {s : PState} (h : At ts (p + 1) s) {a b : Token}
    (ha : ts[p]? = some a) (hb : ts[p + 1]? = some b) : s.d.isNewLine = tokNewLine a b := by
  unfold Disp.isNewLine Disp.tok?
  rw [h.1, h.2]
  have h1 : ¬ (((p + 1 : Nat) : Int) < 1) := by omega
  have h2 : ((p + 1 : Nat) : Int) - 1 = (p : Int) := by omega
  simp only [h1, if_false, h2, tokAt_nat, ha, hb]

theorem envR_noRef' (cfg : Cfg) (h : 0 < cfg.envFuel) (b : Bytes) (hb : noRef b = true) : envR cfg b = .ok b :=
  envR_noRef cfg h b hb

/-- appending the current token when the environment replacement leaves it alone: only `btoks` changes -/
theorem appendCur_id (cfg : Cfg) (hf : 0 < cfg.envFuel) (dir : Bytes) {ts : List Token} {p : Nat} {s : PState}
    (h : At ts p s) {t : Token} (ht : ts[p]? = some t) (hn : noRef t.text = true) :
    appendCur cfg dir s = .ok { s with btoks := addTok s.btoks dir t } := by
  unfold appendCur
  rw [at_tok h, ht]
  simp only [envR_noRef' cfg hf _ hn, Res.bind]
  have hp : p < ts.length := (List.getElem?_eq_some_iff.mp ht).1
  have hget : ts[p] = t := (List.getElem?_eq_some_iff.mp ht).2
  have hset : s.d.tokens.set s.d.cursor.toNat { t with text := t.text } = s.d.tokens := by
    rw [h.1, h.2]
    simp only [Int.toNat_natCast]
    have : ({ t with text := t.text } : Token) = ts[p] := by rw [hget]
    rw [this]
    exact List.set_getElem_self hp
  rw [hset]


def lastOf (prev : Token) (rest : List Token) : Token := rest.getLast?.getD prev

theorem lastOf_cons (prev t : Token) (ts : List Token) : lastOf prev (t :: ts) = lastOf t ts := by
  unfold lastOf
  cases ts with
  | nil => rfl
  | cons a as =>
    have h1 : (t :: a :: as).getLast? = (a :: as).getLast? := List.getLast?_cons_cons
    have h2 : (a :: as).getLast? = some ((a :: as).getLast (by simp)) := List.getLast?_eq_some_getLast (by simp)
    rw [h1, h2]; rfl

theorem moveTo_self {ts : List Token} {p : Nat} {s : PState} (h : At ts p s) : moveTo s p = s := by
  unfold moveTo Disp.setCursor
  rw [← h.2]

theorem back_moveTo (s : PState) (p : Nat) : back (moveTo s (p + 1)) = moveTo s p := by
  unfold back moveTo Disp.setCursor
  simp only
  congr 2
  omega

/-- what follows a directive: nothing, or a token that is not `{` and starts a new line -/
def EndsAt (ts : List Token) (i : Nat) (last : Token) : Prop :=
  match ts[i]? with
  | none => True
  | some nx => nx.text ≠ lbrace ∧ tokNewLine last nx = true

/-- `directive()`'s loop collects exactly the tail of the directive and stops on its last token -/
theorem directiveLoop_rt (cfg : Cfg) (hf : 0 < cfg.envFuel) (dir : Bytes) (ts : List Token) (rest : List Token) :
    ∀ (p : Nat) (s : PState) (prev : Token) (n fuel : Nat),
      At ts p s → ts[p]? = some prev → (∀ i, i < rest.length → ts[p + 1 + i]? = rest[i]?) →
      restOK prev n rest = true → EndsAt ts (p + 1 + rest.length) (lastOf prev rest) → rest.length + 1 < fuel →
      directiveLoop cfg dir fuel s n =
        .ok { moveTo s (p + rest.length) with btoks := rest.foldl (fun m t => addTok m dir t) s.btoks } := by
  induction rest with
  | nil =>
    intro p s prev n fuel hat hprev _ hok hend hfuel
    obtain ⟨k, rfl⟩ : ∃ k, fuel = k + 1 := ⟨fuel - 1, by simp at hfuel; omega⟩
    have hn : n = 0 := by simpa [restOK] using hok
    subst hn
    simp only [List.length_nil, Nat.add_zero, List.foldl_nil, lastOf, List.getLast?_nil, Option.getD_none] at hend ⊢
    unfold directiveLoop
    unfold EndsAt at hend
    cases hnx : ts[p + 1]? with
    | none =>
      rw [next_none hat hnx]
      simp only [Bool.not_false, if_true, Nat.lt_irrefl, if_false, moveTo_self hat]
    | some nx =>
      rw [hnx] at hend
      rw [next_some hat hnx]
      simp only [Bool.not_true, Bool.false_eq_true, if_false]
      have hat1 : At ts (p + 1) (moveTo s (p + 1)) := at_moveTo hat _
      have hv : (s.d.setCursor ((p + 1 : Nat) : Int)).val = nx.text := at_val hat1 hnx
      have hnl : (s.d.setCursor ((p + 1 : Nat) : Int)).isNewLine = true := by
        have := isNewLine_at hat1 hprev hnx
        exact this.trans hend.2
      have hlb : (nx.text == lbrace) = false := by simpa using hend.1
      simp only [hv, hlb, Bool.false_eq_true, if_false, hnl, beq_self_eq_true, Bool.and_self, if_true]
      exact congrArg Res.ok (back_moveTo s p)
  | cons t rest' ih =>
    intro p s prev n fuel hat hprev hseg hok hend hfuel
    obtain ⟨k, rfl⟩ : ∃ k, fuel = k + 1 := ⟨fuel - 1, by omega⟩
    have ht : ts[p + 1]? = some t := by have := hseg 0 (by simp); simpa using this
    have hat1 : At ts (p + 1) (moveTo s (p + 1)) := at_moveTo hat _
    have hv : (s.d.setCursor ((p + 1 : Nat) : Int)).val = t.text := at_val hat1 ht
    have hnl : (s.d.setCursor ((p + 1 : Nat) : Int)).isNewLine = tokNewLine prev t := isNewLine_at hat1 hprev ht
    simp only [restOK, Bool.and_eq_true] at hok
    obtain ⟨hnr, hok⟩ := hok
    have happ := appendCur_id cfg hf dir hat1 ht hnr
    have hseg' : ∀ i, i < rest'.length → ts[p + 1 + 1 + i]? = rest'[i]? := by
      intro i hi
      have := hseg (i + 1) (by simp; omega)
      have e : p + 1 + (i + 1) = p + 1 + 1 + i := by omega
      rw [e] at this
      simpa using this
    have hend' : EndsAt ts (p + 1 + 1 + rest'.length) (lastOf t rest') := by
      rw [lastOf_cons] at hend
      have : p + 1 + (t :: rest').length = p + 1 + 1 + rest'.length := by simp; omega
      rw [this] at hend; exact hend
    have hat2 : At ts (p + 1) { moveTo s (p + 1) with btoks := addTok (moveTo s (p + 1)).btoks dir t } := hat1
    -- the common continuation: append `t`, go on with nesting `m`
    have cont : ∀ m, restOK t m rest' = true →
        ((appendCur cfg dir { s with d := s.d.setCursor ((p + 1 : Nat) : Int) }).bind fun s2 => directiveLoop cfg dir k s2 m) =
          .ok { moveTo s (p + (t :: rest').length) with
                btoks := (t :: rest').foldl (fun m t => addTok m dir t) s.btoks } := by
      intro m hm
      have happ' : appendCur cfg dir { s with d := s.d.setCursor ((p + 1 : Nat) : Int) } =
          .ok { moveTo s (p + 1) with btoks := addTok (moveTo s (p + 1)).btoks dir t } := happ
      rw [happ']
      simp only [Res.bind]
      rw [ih (p + 1) _ t m k hat2 ht hseg' hm hend' (by simp at hfuel; omega)]
      simp only [List.foldl_cons, List.length_cons]
      congr 1
      unfold moveTo Disp.setCursor
      simp only
      congr 2
      omega
    unfold directiveLoop
    rw [next_some hat ht]
    simp only [Bool.not_true, Bool.false_eq_true, if_false, hv, hnl]
    by_cases hlb : (t.text == lbrace) = true
    · simp only [hlb, if_true] at hok ⊢
      exact cont _ hok
    · simp only [hlb, Bool.false_eq_true, if_false] at hok ⊢
      by_cases hn0 : n = 0
      · subst hn0
        simp only [beq_self_eq_true, if_true, Bool.and_eq_true, Bool.not_eq_true', bne_iff_ne, ne_eq] at hok
        obtain ⟨⟨hsame, hnrb⟩, hrest⟩ := hok
        have hrb : (t.text == rbrace) = false := by simpa using hnrb
        simp only [hsame, Bool.false_and, Bool.false_eq_true, if_false, hrb, Bool.and_false]
        exact cont _ hrest
      · have hn0' : (n == 0) = false := by simpa using hn0
        have hnpos : (decide (n > 0)) = true := by simp; omega
        simp only [hn0', Bool.false_eq_true, if_false] at hok
        simp only [hn0', Bool.and_false, Bool.false_eq_true, if_false]
        by_cases hrb : (t.text == rbrace) = true
        · simp only [hrb, if_true] at hok
          simp only [hrb, Bool.true_and, hnpos, if_true]
          exact cont _ hok
        · simp only [hrb, Bool.false_eq_true, if_false, Bool.and_eq_true, Bool.not_eq_true'] at hok
          obtain ⟨himp, hrest⟩ := hok
          simp only [hrb, Bool.false_and, Bool.false_eq_true, if_false, himp]
          exact cont _ hrest


theorem getElem?_of_drop {ts l : List Token} {q : Nat} (h : ts.drop q = l) (i : Nat) : ts[q + i]? = l[i]? := by
  rw [← h, List.getElem?_drop]

theorem drop_drop' {ts a b : List Token} {q : Nat} (h : ts.drop q = a ++ b) : ts.drop (q + a.length) = b := by
  have : ts.drop (q + a.length) = (ts.drop q).drop a.length := by rw [List.drop_drop]
  rw [this, h, List.drop_left]

theorem length_of_drop {ts l : List Token} {q : Nat} (h : ts.drop q = l) (hl : l ≠ []) : q + l.length = ts.length := by
  have := congrArg List.length h
  simp only [List.length_drop] at this
  have : l.length ≠ 0 := fun h0 => hl (List.length_eq_zero_iff.mp h0)
  omega

/-- `directive()` on a written directive -/
theorem directive_rt (cfg : Cfg) (hf : 0 < cfg.envFuel) (hv : cfg.valid = none) (ts : List Token) (d : WDir)
    (p : Nat) (s : PState) (fuel : Nat)
    (hat : At ts p s) (hname : ts[p]? = some d.name) (hseg : ∀ i, i < d.rest.length → ts[p + 1 + i]? = d.rest[i]?)
    (hnr : noRef d.name.text = true) (hok : restOK d.name 0 d.rest = true)
    (hend : EndsAt ts (p + 1 + d.rest.length) (lastOf d.name d.rest)) (hfuel : d.rest.length + 1 < fuel) :
    directive cfg fuel s =
      .ok { moveTo s (p + d.rest.length) with
            btoks := d.rest.foldl (fun m t => addTok m d.name.text t) (addTok s.btoks d.name.text d.name) } := by
  unfold directive
  rw [at_val hat hname, envR_noRef' cfg hf _ hnr]
  simp only [Res.bind, validDirective, hv, Bool.not_true, Bool.false_eq_true, if_false]
  rw [at_tok hat, hname]
  simp only
  have hat' : At ts p { s with btoks := addTok s.btoks d.name.text d.name } := hat
  rw [directiveLoop_rt cfg hf d.name.text ts d.rest p _ d.name 0 fuel hat' hname hseg hok hend hfuel]
  rfl

/-- the tokens of a block's directives followed by its closing brace -/
def dirToks (ds : List WDir) : List Token := ds.flatMap WDir.toks

def foldDirs (m : List (Bytes × List Token)) (ds : List WDir) : List (Bytes × List Token) :=
  ds.foldl (fun m d => d.rest.foldl (fun m t => addTok m d.name.text t) (addTok m d.name.text d.name)) m

theorem lastOf_eq (d : WDir) : lastOf d.name d.rest = lastTok d := rfl

/-- `directives()` on the written directives of a block: ends on the closing brace with every token recorded -/
theorem directives_rt (cfg : Cfg) (hf : 0 < cfg.envFuel) (hv : cfg.valid = none) (ts : List Token) (close : Token)
    (hclose : close.text = rbrace) (post : List Token) (ds : List WDir) :
    ∀ (p : Nat) (s : PState) (fuel : Nat), At ts p s → ts.drop (p + 1) = dirToks ds ++ close :: post →
      dirsOK ds close = true → ts.length - p ≤ fuel → 1 ≤ fuel →
      directives cfg fuel s =
        .ok { moveTo s (p + 1 + (dirToks ds).length) with btoks := foldDirs s.btoks ds } := by
  induction ds with
  | nil =>
    intro p s fuel hat hseg _ _ h1
    obtain ⟨k, rfl⟩ : ∃ k, fuel = k + 1 := ⟨fuel - 1, by omega⟩
    simp only [dirToks, List.flatMap_nil, List.nil_append] at hseg
    have hc : ts[p + 1]? = some close := by have := getElem?_of_drop hseg 0; simpa using this
    unfold directives
    rw [next_some hat hc]
    have hat1 : At ts (p + 1) (moveTo s (p + 1)) := at_moveTo hat _
    have hvl : (s.d.setCursor ((p + 1 : Nat) : Int)).val = close.text := at_val hat1 hc
    simp only [Bool.not_true, Bool.false_eq_true, if_false, hvl, hclose, beq_self_eq_true, if_true]
    simp only [dirToks, List.flatMap_nil, List.length_nil, Nat.add_zero, foldDirs, List.foldl_nil]
    rfl
  | cons d ds' ih =>
    intro p s fuel hat hseg hok hfuel h1
    obtain ⟨k, rfl⟩ : ∃ k, fuel = k + 1 := ⟨fuel - 1, by omega⟩
    simp only [dirsOK, Bool.and_eq_true, bne_iff_ne, ne_eq] at hok
    obtain ⟨⟨⟨⟨⟨⟨hnr, hnrb⟩, hnlb⟩, hnimp⟩, hrest⟩, hnl⟩, hds⟩ := hok
    have hseg1 : ts.drop (p + 1) = (d.name :: d.rest) ++ (dirToks ds' ++ close :: post) := by
      rw [hseg]; simp [dirToks, WDir.toks, List.flatMap_cons]
    have hname : ts[p + 1]? = some d.name := by have := getElem?_of_drop hseg1 0; simpa using this
    have hrestseg : ∀ i, i < d.rest.length → ts[p + 1 + 1 + i]? = d.rest[i]? := by
      intro i hi
      have := getElem?_of_drop hseg1 (1 + i)
      have e : p + 1 + (1 + i) = p + 1 + 1 + i := by omega
      rw [e] at this
      rw [this]
      simp only [List.cons_append, Nat.add_comm 1 i, List.getElem?_cons_succ]
      exact List.getElem?_append_left hi
    have hseg2 : ts.drop (p + 1 + 1 + d.rest.length) = dirToks ds' ++ close :: post := by
      have := drop_drop' hseg1
      simp only [List.length_cons] at this
      have e : p + 1 + (d.rest.length + 1) = p + 1 + 1 + d.rest.length := by omega
      rw [e] at this; exact this
    have hlen : p + 1 + ((d.name :: d.rest) ++ (dirToks ds' ++ close :: post)).length = ts.length :=
      length_of_drop hseg1 (by simp)
    simp only [List.length_append, List.length_cons] at hlen
    -- what follows the directive
    have hend : EndsAt ts (p + 1 + 1 + d.rest.length) (lastOf d.name d.rest) := by
      unfold EndsAt
      have h0 := getElem?_of_drop hseg2 0
      simp only [Nat.add_zero] at h0
      rw [h0, lastOf_eq]
      cases ds' with
      | nil =>
        simp only [dirToks, List.flatMap_nil, List.nil_append, List.getElem?_cons_zero]
        refine ⟨by rw [hclose]; decide, hnl⟩
      | cons d' ds'' =>
        simp only [dirToks, List.flatMap_cons, WDir.toks, List.cons_append, List.getElem?_cons_zero]
        simp only [dirsOK, Bool.and_eq_true, bne_iff_ne, ne_eq] at hds
        exact ⟨hds.1.1.1.1.2, hnl⟩
    have hat1 : At ts (p + 1) (moveTo s (p + 1)) := at_moveTo hat _
    have hvl : (s.d.setCursor ((p + 1 : Nat) : Int)).val = d.name.text := at_val hat1 hname
    have hrb : (d.name.text == rbrace) = false := by simpa using hnrb
    have himp : (d.name.text == sImport) = false := by simpa using hnimp
    unfold directives
    rw [next_some hat hname]
    simp only [Bool.not_true, Bool.false_eq_true, if_false, hvl, hrb, himp]
    have hdir := directive_rt cfg hf hv ts d (p + 1) (moveTo s (p + 1)) (k + 1) hat1 hname hrestseg hnr hrest hend (by omega)
    have hdir' : directive cfg (k + 1) { s with d := s.d.setCursor ((p + 1 : Nat) : Int) } = _ := hdir
    rw [hdir']
    simp only [Res.bind]
    have hat2 : At ts (p + 1 + d.rest.length)
        { moveTo (moveTo s (p + 1)) (p + 1 + d.rest.length) with
          btoks := d.rest.foldl (fun m t => addTok m d.name.text t) (addTok (moveTo s (p + 1)).btoks d.name.text d.name) } :=
      ⟨hat.1, rfl⟩
    have hseg2' : ts.drop (p + 1 + d.rest.length + 1) = dirToks ds' ++ close :: post := by
      have e : p + 1 + d.rest.length + 1 = p + 1 + 1 + d.rest.length := by omega
      rw [e]; exact hseg2
    rw [ih (p + 1 + d.rest.length) _ k hat2 hseg2' hds (by omega) (by omega)]
    congr 1
    simp only [dirToks, List.flatMap_cons, WDir.toks, List.length_append, List.length_cons, foldDirs, List.foldl_cons]
    unfold moveTo Disp.setCursor
    simp only
    congr 2
    omega


theorem addKey_key (keys : List Bytes) (e : Bool) (k : Token) (hne : k.text.isEmpty = false) :
    addKey keys e k.text = (keys ++ [keyOf k], endsWithComma k) := by
  unfold addKey keyOf endsWithComma
  simp only [hne, Bool.false_eq_true, if_false]
  by_cases hc : (k.text.getLast? == some 0x2C) = true
  · simp only [hc, if_true]
  · simp only [hc, Bool.false_eq_true, if_false]

theorem noRef_lbrace : noRef lbrace = true := by decide

/-- `addresses()` on the written keys: every key recorded, stops on the opening brace -/
theorem addresses_rt (cfg : Cfg) (hf : 0 < cfg.envFuel) (ts : List Token) (open_ : Token) (hopen : open_.text = lbrace)
    (post : List Token) (more : List Token) :
    ∀ (k : Token) (p : Nat) (s : PState) (fuel : Nat) (e : Bool), At ts p s →
      ts.drop p = (k :: more) ++ open_ :: post → keysOK (k :: more) = true → (k :: more).length + 1 < fuel →
      addresses cfg fuel s e =
        .ok { moveTo s (p + (k :: more).length) with keys := s.keys ++ (k :: more).map keyOf } := by
  induction more with
  | nil =>
    intro k p s fuel e hat hseg hok hfuel
    obtain ⟨j, rfl⟩ : ∃ j, fuel = j + 1 := ⟨fuel - 1, by omega⟩
    simp only [keysOK, Bool.and_eq_true, Bool.not_eq_true', bne_iff_ne, ne_eq] at hok
    obtain ⟨⟨⟨⟨hnr, hne⟩, hnlb⟩, hnimp⟩, hnc⟩ := hok
    have hk : ts[p]? = some k := by have := getElem?_of_drop hseg 0; simpa using this
    have ho : ts[p + 1]? = some open_ := by have := getElem?_of_drop hseg 1; simpa using this
    have hlb : (k.text == lbrace) = false := by simpa using hnlb
    have himp : (k.text == sImport) = false := by simpa using hnimp
    have hat1 : At ts (p + 1) (moveTo s (p + 1)) := at_moveTo hat _
    unfold addresses
    rw [at_val hat hk, envR_noRef' cfg hf _ hnr]
    simp only [Res.bind, himp, Bool.false_and, Bool.false_eq_true, if_false, hlb, addKey_key _ _ _ hne, hnc]
    rw [next_some hat ho]
    simp only [Bool.not_true, Bool.and_false, Bool.false_eq_true, if_false, Bool.not_false, Bool.true_and]
    have hnl : (s.d.setCursor ((p + 1 : Nat) : Int)).isNewLine = tokNewLine k open_ := isNewLine_at hat1 hk ho
    by_cases hn : tokNewLine k open_ = true
    · simp only [hnl, hn, if_true, List.length_cons, List.length_nil, List.map_cons, List.map_nil]
      rfl
    · simp only [hnl, hn, Bool.false_eq_true, if_false]
      obtain ⟨j', rfl⟩ : ∃ j', j = j' + 1 := ⟨j - 1, by simp at hfuel; omega⟩
      unfold addresses
      have hat1' : At ts (p + 1) { s with d := s.d.setCursor ((p + 1 : Nat) : Int), keys := s.keys ++ [keyOf k] } := hat1
      rw [at_val hat1' ho, hopen, envR_noRef' cfg hf _ noRef_lbrace]
      have h1 : (lbrace == sImport) = false := by decide
      simp only [Res.bind, h1, Bool.false_and, Bool.false_eq_true, if_false, beq_self_eq_true, if_true,
        List.length_cons, List.length_nil, List.map_cons, List.map_nil]
      rfl
  | cons k' more' ih =>
    intro k p s fuel e hat hseg hok hfuel
    obtain ⟨j, rfl⟩ : ∃ j, fuel = j + 1 := ⟨fuel - 1, by omega⟩
    simp only [keysOK, Bool.and_eq_true, Bool.not_eq_true', bne_iff_ne, ne_eq, Bool.or_eq_true] at hok
    obtain ⟨⟨⟨⟨⟨hnr, hne⟩, hnlb⟩, hnimp⟩, hline⟩, hrest⟩ := hok
    have hk : ts[p]? = some k := by have := getElem?_of_drop hseg 0; simpa using this
    have hk' : ts[p + 1]? = some k' := by have := getElem?_of_drop hseg 1; simpa using this
    have hlb : (k.text == lbrace) = false := by simpa using hnlb
    have himp : (k.text == sImport) = false := by simpa using hnimp
    have hat1 : At ts (p + 1) { s with d := s.d.setCursor ((p + 1 : Nat) : Int), keys := s.keys ++ [keyOf k] } :=
      ⟨hat.1, rfl⟩
    have hseg' : ts.drop (p + 1) = (k' :: more') ++ open_ :: post := by
      have := drop_drop' (a := [k]) (b := (k' :: more') ++ open_ :: post) (by simpa using hseg)
      simpa using this
    have hnl : (s.d.setCursor ((p + 1 : Nat) : Int)).isNewLine = tokNewLine k k' :=
      isNewLine_at (at_moveTo hat _) hk hk'
    unfold addresses
    rw [at_val hat hk, envR_noRef' cfg hf _ hnr]
    simp only [Res.bind, himp, Bool.false_and, Bool.false_eq_true, if_false, hlb, addKey_key _ _ _ hne]
    rw [next_some hat hk']
    simp only [Bool.not_true, Bool.and_false, Bool.false_eq_true, if_false]
    have hcont : (!endsWithComma k && (s.d.setCursor ((p + 1 : Nat) : Int)).isNewLine) = false := by
      rw [hnl]
      cases hline with
      | inl hc => simp [hc]
      | inr hs => simp [hs]
    simp only [hcont, Bool.false_eq_true, if_false]
    rw [ih k' (p + 1) _ j (endsWithComma k) hat1 hseg' hrest (by simp at hfuel ⊢; omega)]
    congr 1
    simp only [List.length_cons, List.map_cons, List.append_assoc, List.singleton_append]
    unfold moveTo Disp.setCursor
    simp only
    congr 2
    omega


theorem keysOK_ne {ks : List Token} (h : keysOK ks = true) : ∃ k more, ks = k :: more := by
  cases ks with
  | nil => simp [keysOK] at h
  | cons k more => exact ⟨k, more, rfl⟩

/-- `begin()` on a written block: ends on the closing brace with keys and directive tokens recorded -/
theorem begin_rt (cfg : Cfg) (hf : 0 < cfg.envFuel) (hv : cfg.valid = none) (ts : List Token) (b : WBlock) (post : List Token)
    (p : Nat) (s : PState) (fuel : Nat) (hat : At ts p s) (hkeys : s.keys = []) (hbt : s.btoks = []) (heof : s.eof = false)
    (hseg : ts.drop p = b.toks ++ post) (hok : blockOK b = true) (hfuel : ts.length + 1 ≤ fuel + p) :
    begin cfg fuel s =
      .ok { moveTo s (p + b.keys.length + 1 + (dirToks b.dirs).length) with
            keys := b.keys.map keyOf, btoks := foldDirs [] b.dirs } := by
  simp only [blockOK, Bool.and_eq_true, beq_iff_eq, Option.isNone_iff_eq_none] at hok
  obtain ⟨⟨⟨⟨hk, hsn⟩, hopen⟩, hclose⟩, hdirs⟩ := hok
  obtain ⟨k, more, hkm⟩ := keysOK_ne hk
  have hseg1 : ts.drop p = (k :: more) ++ b.open_ :: ((dirToks b.dirs ++ [b.close]) ++ post) := by
    rw [hseg, WBlock.toks, hkm]; simp [dirToks]
  have hlen := length_of_drop hseg1 (by simp)
  simp only [List.length_append, List.length_cons, List.length_nil] at hlen
  have hne : ts.isEmpty = false := by
    cases ts with
    | nil => simp at hlen
    | cons _ _ => rfl
  unfold begin
  rw [hat.1, hne]
  simp only [Bool.false_eq_true, if_false]
  rw [addresses_rt cfg hf ts b.open_ hopen _ more k p s fuel false hat hseg1 (hkm ▸ hk) (by simp; omega)]
  simp only [Res.bind, heof, Bool.false_eq_true, if_false, hkeys, List.nil_append]
  rw [← hkm, hsn]
  simp only
  -- blockContents
  have hq : At ts (p + b.keys.length) { moveTo s (p + b.keys.length) with keys := b.keys.map keyOf } := ⟨hat.1, rfl⟩
  have hsegq : ts.drop (p + b.keys.length) = b.open_ :: ((dirToks b.dirs ++ [b.close]) ++ post) := by
    have := drop_drop' hseg1
    rw [hkm]; exact this
  have ho : ts[p + b.keys.length]? = some b.open_ := by have := getElem?_of_drop hsegq 0; simpa using this
  have hsegd : ts.drop (p + b.keys.length + 1) = dirToks b.dirs ++ b.close :: post := by
    have := drop_drop' (a := [b.open_]) (by simpa using hsegq)
    simpa using this
  unfold blockContents
  rw [at_val hq ho, hopen]
  simp only [bne_self_eq_false, Bool.false_eq_true, if_false, Bool.not_false, Bool.true_and]
  rw [directives_rt cfg hf hv ts b.close hclose post b.dirs (p + b.keys.length) _ fuel hq hsegd hdirs
    (by rw [hkm]; simp; omega) (by omega)]
  simp only [Res.bind]
  have hc : ts[p + b.keys.length + 1 + (dirToks b.dirs).length]? = some b.close := by
    have := getElem?_of_drop hsegd (dirToks b.dirs).length
    rw [this]; simp
  have hatc : At ts (p + b.keys.length + 1 + (dirToks b.dirs).length)
      { moveTo { moveTo s (p + b.keys.length) with keys := b.keys.map keyOf } (p + b.keys.length + 1 + (dirToks b.dirs).length) with
        btoks := foldDirs ({ moveTo s (p + b.keys.length) with keys := b.keys.map keyOf } : PState).btoks b.dirs } := ⟨hat.1, rfl⟩
  rw [at_val hatc hc, hclose]
  simp only [bne_self_eq_false, Bool.false_eq_true, if_false, moveTo, hbt, heof]
  rfl

theorem next_pred {ts : List Token} {p : Nat} {s : PState} (h1 : s.d.tokens = ts) (h2 : s.d.cursor = (p : Int) - 1)
    {t : Token} (ht : ts[p]? = some t) : s.d.next = (true, s.d.setCursor (p : Int)) := by
  have hlt : p < ts.length := (List.getElem?_eq_some_iff.mp ht).1
  unfold Disp.next Disp.len
  rw [h1, h2]
  have : (p : Int) - 1 < (ts.length : Int) - 1 := by omega
  simp only [this, if_true]
  congr 2
  omega

theorem next_pred_none {ts : List Token} {p : Nat} {s : PState} (h1 : s.d.tokens = ts) (h2 : s.d.cursor = (p : Int) - 1)
    (ht : ts[p]? = none) : s.d.next = (false, s.d) := by
  have hge : ts.length ≤ p := List.getElem?_eq_none_iff.mp ht
  unfold Disp.next Disp.len
  rw [h1, h2]
  have : ¬ (p : Int) - 1 < (ts.length : Int) - 1 := by omega
  simp only [this, if_false]

theorem toks_length (b : WBlock) : b.toks.length = b.keys.length + 1 + (dirToks b.dirs).length + 1 := by
  simp [WBlock.toks, dirToks]; omega

/-- `parseAll()` on written blocks -/
theorem parseAll_rt (cfg : Cfg) (hf : 0 < cfg.envFuel) (hv : cfg.valid = none) (ts : List Token) (bs : List WBlock) :
    ∀ (p : Nat) (s : PState) (acc : List ServerBlock) (fuel : Nat), s.d.tokens = ts → s.d.cursor = (p : Int) - 1 →
      s.eof = false → ts.drop p = flatten bs → (∀ b ∈ bs, blockOK b = true) → ts.length + 1 ≤ fuel + p → p ≤ ts.length →
      parseAll cfg fuel s acc = .ok (acc ++ bs.map expectedBlock) := by
  induction bs with
  | nil =>
    intro p s acc fuel h1 h2 _ hseg _ hfuel hple
    have hlen : ts.length ≤ p := by
      have := congrArg List.length hseg
      simp [flatten] at this; omega
    obtain ⟨j, rfl⟩ : ∃ j, fuel = j + 1 := ⟨fuel - 1, by omega⟩
    unfold parseAll
    rw [next_pred_none h1 h2 (List.getElem?_eq_none_iff.mpr hlen)]
    simp
  | cons b bs' ih =>
    intro p s acc fuel h1 h2 heof hseg hall hfuel hple
    have hb := hall b List.mem_cons_self
    have hseg1 : ts.drop p = b.toks ++ flatten bs' := by rw [hseg]; simp [flatten]
    obtain ⟨k, more, hkm⟩ := keysOK_ne (by
      have := hb; simp only [blockOK, Bool.and_eq_true] at this; exact this.1.1.1.1)
    have hk : ts[p]? = some k := by
      have := getElem?_of_drop hseg1 0
      simp only [Nat.add_zero] at this
      rw [this, WBlock.toks, hkm]; simp
    have hlen := length_of_drop hseg1 (by simp [WBlock.toks])
    obtain ⟨j, rfl⟩ : ∃ j, fuel = j + 1 := ⟨fuel - 1, by simp only [List.length_append, toks_length] at hlen; omega⟩
    unfold parseAll
    rw [next_pred h1 h2 hk]
    simp only [Bool.not_true, Bool.false_eq_true, if_false]
    have hat : At ts p { s with d := s.d.setCursor (p : Int), keys := [], btoks := [] } := ⟨h1, rfl⟩
    rw [begin_rt cfg hf hv ts b (flatten bs') p _ (j + 1) hat rfl rfl heof hseg1 hb (by omega)]
    simp only [Res.bind]
    have hkne : (b.keys.map keyOf).isEmpty = false := by rw [hkm]; rfl
    simp only [hkne, Bool.false_eq_true, if_false]
    have hsegn : ts.drop (p + b.toks.length) = flatten bs' := drop_drop' hseg1
    simp only [List.length_append] at hlen
    have htl := toks_length b
    refine (ih (p + b.toks.length) _ _ j ?_ ?_ ?_ hsegn (fun x hx => hall x (List.mem_cons_of_mem _ hx)) ?_ ?_).trans ?_
    · exact h1
    · simp only [moveTo, setCursor_cursor, toks_length]; omega
    · exact heof
    · omega
    · omega
    · simp only [List.map_cons, List.append_assoc, List.singleton_append]
      rfl

/-- `Parse` over tokens that are a written configuration returns exactly the blocks that were written -/
theorem parseTokens_rt (cfg : Cfg) (hf : 0 < cfg.envFuel) (hv : cfg.valid = none) (fn : String) (bs : List WBlock)
    (hall : ∀ b ∈ bs, blockOK b = true) (fuel : Nat) (hfuel : (flatten bs).length + 1 ≤ fuel) :
    parseTokens cfg fuel fn (flatten bs) = .ok (bs.map expectedBlock) := by
  unfold parseTokens
  have := parseAll_rt cfg hf hv (flatten bs) bs 0 { d := Disp.new fn (flatten bs) } [] fuel rfl (by simp [Disp.new]) rfl
    (by simp) hall (by omega) (by omega)
  simpa using this

end Casket.ParserRT
