import Casket.Proofs.VHost
import Casket.Spec.VHostStack
/-
Helper lemmas for the full-stack part of C01: the loader model of C15 (`AutoHTTPS.inspect`) rejects
address lists with equal normalised keys; `Address.VHost()` is the key the C01 trie model routes on.
-/
namespace Casket.VHostStack
open Casket.VHost Casket.VHostStackSpec
open Casket.AutoHTTPS (inspectGo inspect standardizeAddress AddrErr Address)

/-! ### duplicate normalised keys are rejected -/

/-- the printed address the loader compares for "duplicate site address" -/
def dupStr (a : Address) : Casket.AutoHTTPS.Bytes :=
  let copy := if a.port.isEmpty then { a with port := Casket.Generated.defaultPort } else a
  let copy := if copy.path == [47] then { copy with path := [] } else copy
  copy.string

theorem inspectGo_cons_ok (k : Casket.AutoHTTPS.Bytes) (rest keys addrs : List Casket.AutoHTTPS.Bytes)
    (acc : List Address) (a : Address) (hs : standardizeAddress k = .ok a) :
    inspectGo (k :: rest) keys addrs acc =
      if keys.contains a.normalize.key then .error .dupKey
      else if addrs.contains (dupStr a.normalize) then .error .dupAddr
      else inspectGo rest (a.normalize.key :: keys) (dupStr a.normalize :: addrs) (a.normalize :: acc) := by
  conv => lhs; unfold inspectGo
  rw [hs]
  rfl

theorem inspectGo_dup (ks : List Casket.AutoHTTPS.Bytes) (keys addrs : List Casket.AutoHTTPS.Bytes) (acc : List Address)
    (h : (∃ k ∈ ks, ∃ x, normKey k = some x ∧ x ∈ keys) ∨ hasDuplicateKey ks = true) :
    ∃ e, inspectGo ks keys addrs acc = .error e := by
  induction ks generalizing keys addrs acc with
  | nil =>
    rcases h with ⟨k, hk, _⟩ | h
    · simp at hk
    · simp [hasDuplicateKey] at h
  | cons k rest ih =>
    cases hs : standardizeAddress k with
    | error e => exact ⟨e, by unfold inspectGo; rw [hs]⟩
    | ok a =>
      rw [inspectGo_cons_ok k rest keys addrs acc a hs]
      have hnk : normKey k = some a.normalize.key := by simp [normKey, hs]
      by_cases hc : keys.contains a.normalize.key = true
      · rw [if_pos hc]; exact ⟨_, rfl⟩
      · rw [if_neg hc]
        by_cases hd : addrs.contains (dupStr a.normalize) = true
        · rw [if_pos hd]; exact ⟨_, rfl⟩
        · rw [if_neg hd]
          apply ih
          rcases h with ⟨k', hk', x, hx, hxm⟩ | h
          · simp only [List.mem_cons] at hk'
            rcases hk' with rfl | hk'
            · rw [hnk] at hx
              simp only [Option.some.injEq] at hx
              subst hx
              exact absurd (by simpa using hxm) hc
            · exact Or.inl ⟨k', hk', x, hx, by simp [hxm]⟩
          · simp only [hasDuplicateKey, hnk, Bool.or_eq_true, List.any_eq_true, beq_iff_eq] at h
            rcases h with ⟨k', hk', he⟩ | h
            · exact Or.inl ⟨k', hk', a.normalize.key, he, by simp⟩
            · exact Or.inr h

theorem inspect_dup (ks : List Casket.AutoHTTPS.Bytes) (h : hasDuplicateKey ks = true) :
    ∃ e, inspect ks = .error e :=
  inspectGo_dup ks [] [] [] (Or.inr h)

/-! ### `Address.VHost()` = the text the trie model splits into host and path -/

theorem toNat_inj {a b : UInt8} (h : a.toNat = b.toNat) : a = b := UInt8.toNat_inj.mp h

theorem indexSub_shift (l sub : Casket.AutoHTTPS.Bytes) (i : Nat) :
    Casket.AutoHTTPS.indexSub l sub i = (Casket.AutoHTTPS.indexSub l sub 0).map (· + i) := by
  induction l generalizing i with
  | nil => simp [Casket.AutoHTTPS.indexSub]
  | cons c t ih =>
    simp only [Casket.AutoHTTPS.indexSub]
    split
    · simp
    · rw [ih (i + 1), ih (0 + 1)]
      cases Casket.AutoHTTPS.indexSub t sub 0 with
      | none => rfl
      | some j => simp; omega

theorem toNat_eq_lit (a n : UInt8) : a.toNat = n.toNat ↔ n = a :=
  ⟨fun h => (toNat_inj h).symm, fun h => by rw [h]⟩

theorem isPrefix_scheme (l : Casket.AutoHTTPS.Bytes) :
    (([58, 47, 47] : List UInt8).isPrefixOf l) = decide ((toNats l).take 3 = [58, 47, 47]) := by
  match l with
  | [] => rfl
  | [a] => simp [toNats, List.isPrefixOf]
  | [a, b] => simp [toNats, List.isPrefixOf]
  | a :: b :: c :: t =>
    have e58 : (58 : Nat) = (58 : UInt8).toNat := rfl
    have e47 : (47 : Nat) = (47 : UInt8).toNat := rfl
    rw [Bool.eq_iff_iff]
    simp only [toNats, List.isPrefixOf, List.map_cons, List.take_succ_cons, List.take_zero, List.cons.injEq,
      and_true, Bool.and_true, Bool.and_eq_true, beq_iff_eq, decide_eq_true_eq]
    rw [e58, e47, toNat_eq_lit, toNat_eq_lit, toNat_eq_lit]

theorem vhost_eq (l : Casket.AutoHTTPS.Bytes) :
    toNats (match Casket.AutoHTTPS.indexSub l [58, 47, 47] 0 with
      | some i => l.drop (i + 3)
      | none => l) = (afterScheme (toNats l)).getD (toNats l) := by
  have key : ∀ l : Casket.AutoHTTPS.Bytes,
      (Casket.AutoHTTPS.indexSub l [58, 47, 47] 0).map (fun i => toNats (l.drop (i + 3))) = afterScheme (toNats l) := by
    intro l
    induction l with
    | nil => simp [Casket.AutoHTTPS.indexSub, afterScheme, toNats]
    | cons c t ih =>
      simp only [Casket.AutoHTTPS.indexSub]
      have hp := isPrefix_scheme (c :: t)
      have hcons : toNats (c :: t) = c.toNat :: toNats t := rfl
      rw [hcons] at hp ⊢
      simp only [afterScheme]
      by_cases h : (([58, 47, 47] : List UInt8).isPrefixOf (c :: t)) = true
      · have h' : (c.toNat :: toNats t).take 3 = [58, 47, 47] := by
          rw [h] at hp; simpa using hp.symm
        simp only [h, if_true, h', Option.map_some]
        simp [toNats, List.map_drop]
      · have h' : ¬ (c.toNat :: toNats t).take 3 = [58, 47, 47] := by
          intro e; rw [hp] at h; exact h (by simpa using e)
        simp only [h, h', if_false, Bool.false_eq_true]
        rw [indexSub_shift, ← ih]
        cases Casket.AutoHTTPS.indexSub t [58, 47, 47] 0 with
        | none => rfl
        | some j => simp [toNats]
  have := key l
  cases hi : Casket.AutoHTTPS.indexSub l [58, 47, 47] 0 with
  | none => rw [hi] at this; simp only [Option.map_none] at this; rw [← this]; rfl
  | some i => rw [hi] at this; simp only [Option.map_some] at this; rw [← this]; rfl


/-! ### indices -/

theorem mEntries_idx {sites : List Site} {i0 : Nat} {e : Casket.VHostSpec.Entry} (h : e ∈ mEntries sites i0) :
    i0 ≤ e.idx ∧ e.idx < i0 + sites.length := by
  induction sites generalizing i0 with
  | nil => simp [mEntries] at h
  | cons s rest ih =>
    simp only [mEntries, List.mem_cons] at h
    rcases h with rfl | h
    · simp [mEntry]
    · have := ih h
      simp only [List.length_cons]
      omega

/-- the site index `route` answers is a position of its site list -/
theorem route_index_lt {sites : List Site} {r : Req} {j : Nat} {p : Bytes} (h : route sites r = .site j p) :
    j < sites.length := by
  unfold route at h
  simp only [] at h
  rw [match_eq (newServer_repr sites)] at h
  unfold matchSpec at h
  cases hf : List.find? (Casket.VHostSpec.declared (mEntries sites 0))
      (Casket.VHostSpec.candidates (splitHostPath (stripPort r.host ++ r.path)).1 (newServer sites).fallbacks) with
  | none => rw [hf] at h; simp at h
  | some c =>
    rw [hf] at h
    simp only [] at h
    cases hs : List.findSome? (Casket.VHostSpec.lastWith (mEntries sites 0) c)
        (Casket.VHostSpec.prefixesDesc (splitHostPath (stripPort r.host ++ r.path)).2) with
    | none => rw [hs] at h; simp at h
    | some e =>
      rw [hs] at h
      simp only [Option.map_some, valOf, Outcome.site.injEq] at h
      obtain ⟨k, _, hk⟩ := List.exists_of_findSome?_eq_some hs
      have hm := (lastWith_some hk).1
      have := (mEntries_idx hm).2
      omega

theorem groupOf_ge {as : List Address} {port : Casket.AutoHTTPS.Bytes} {i0 : Nat} {p : Address × Nat}
    (h : p ∈ groupOf as port i0) : i0 ≤ p.2 := by
  induction as generalizing i0 with
  | nil => simp [groupOf] at h
  | cons a rest ih =>
    simp only [groupOf] at h
    split at h
    · simp only [List.mem_cons] at h
      rcases h with rfl | h
      · exact Nat.le_refl _
      · have := ih h; omega
    · have := ih h; omega

theorem groupOf_indexIn {as : List Address} {port : Casket.AutoHTTPS.Bytes} {i0 j : Nat} {p : Address × Nat}
    (h : (groupOf as port i0)[j]? = some p) : indexIn (groupOf as port i0) p.2 = some j := by
  induction as generalizing i0 j with
  | nil => simp [groupOf] at h
  | cons a rest ih =>
    simp only [groupOf] at h ⊢
    split at h
    · rename_i hp
      simp only [hp, if_true]
      cases j with
      | zero =>
        simp only [List.getElem?_cons_zero, Option.some.injEq] at h
        subst h
        simp [indexIn, List.findIdx?_cons]
      | succ j' =>
        simp only [List.getElem?_cons_succ] at h
        have hge := groupOf_ge (List.mem_of_getElem? h)
        have hne : (i0 == p.2) = false := by
          rw [beq_eq_false_iff_ne]; omega
        have := ih h
        unfold indexIn at this ⊢
        simp only [List.findIdx?_cons, hne, Bool.false_eq_true, if_false, this, Option.map_some]
    · rename_i hp
      simp only [hp, if_false]
      exact ih h

end Casket.VHostStack
